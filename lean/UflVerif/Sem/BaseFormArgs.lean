/-
`arguments()` of the base-form model reports the signature given by argument contraction (C28), under the decidable side
condition `ArgsOK`; `coefficients()` contains every coefficient the value depends on.
-/
import UflVerif.Sem.BaseFormLemmas

namespace UflVerif
namespace BaseForm

set_option linter.unusedSectionVars false
set_option linter.unusedSimpArgs false
set_option linter.unusedVariables false

variable {K : Type}

/-! ### sorted(set(...)) of copies of one strictly sorted tuple -/

theorem mem_dedup {α : Type} [DecidableEq α] (a : α) (l : List α) : a ∈ dedup l ↔ a ∈ l := by
  induction l with
  | nil => simp [dedup]
  | cons b l ih =>
    simp only [dedup]
    split
    · rename_i h
      constructor
      · intro ha; exact List.mem_cons_of_mem _ (ih.1 ha)
      · intro ha
        rcases List.mem_cons.1 ha with rfl | ha
        · exact h
        · exact ih.2 ha
    · simp [ih]

theorem dedup_of_nodup {α : Type} [DecidableEq α] (l : List α) (h : l.Nodup) : dedup l = l := by
  induction l with
  | nil => simp [dedup]
  | cons b l ih =>
    have hn := List.nodup_cons.1 h
    simp only [dedup, ih hn.2]
    simp [hn.1]

theorem dedup_append_of_subset {α : Type} [DecidableEq α] (A B : List α) (h : ∀ a ∈ A, a ∈ B) :
    dedup (A ++ B) = dedup B := by
  induction A with
  | nil => simp
  | cons a A ih =>
    have ih' := ih (fun x hx => h x (by simp [hx]))
    simp only [List.cons_append, dedup, ih']
    have : a ∈ dedup B := (mem_dedup a B).2 (h a (by simp))
    simp [this]

theorem dedup_copies {α : Type} [DecidableEq α] (L : List α) (hL : L.Nodup) : ∀ n : Nat,
    dedup (List.flatten (List.replicate (n + 1) L)) = L
  | 0 => by simp [dedup_of_nodup L hL]
  | n + 1 => by
    rw [List.replicate_succ, List.flatten_cons, dedup_append_of_subset, dedup_copies L hL n]
    intro a ha
    simp [List.replicate_succ, ha]

theorem strictNum_head_lt : ∀ (a : Arg) (l : List Arg), strictNum (a :: l) = true → ∀ b ∈ l, a.number < b.number
  | a, [], _, b, hb => by simp at hb
  | a, c :: l, h, b, hb => by
    simp only [strictNum, Bool.and_eq_true, decide_eq_true_eq] at h
    rcases List.mem_cons.1 hb with rfl | hb
    · exact h.1
    · exact Nat.lt_trans h.1 (strictNum_head_lt c l h.2 b hb)

theorem strictNum_tail (a : Arg) (l : List Arg) (h : strictNum (a :: l) = true) : strictNum l = true := by
  cases l with
  | nil => simp [strictNum]
  | cons c l => simp only [strictNum, Bool.and_eq_true] at h; exact h.2

theorem sortArgs_of_strict : ∀ (l : List Arg), strictNum l = true → sortArgs l = l
  | [], _ => by simp [sortArgs]
  | a :: l, h => by
    have ih := sortArgs_of_strict l (strictNum_tail a l h)
    simp only [sortArgs, ih]
    cases l with
    | nil => simp [insertArg]
    | cons c l =>
      have := strictNum_head_lt a (c :: l) h c (by simp)
      simp [insertArg, Nat.le_of_lt this]

theorem nodup_of_strict : ∀ (l : List Arg), strictNum l = true → l.Nodup
  | [], _ => List.nodup_nil
  | a :: l, h => by
    refine List.nodup_cons.2 ⟨?_, nodup_of_strict l (strictNum_tail a l h)⟩
    intro ha
    have := strictNum_head_lt a l h a ha
    exact Nat.lt_irrefl _ this

theorem npNodup_of_strict (l : List Arg) (h : strictNum l = true) : npNodup l = true := by
  unfold npNodup
  have hn : (l.map (fun a => (a.number, a.part))).Nodup := by
    induction l with
    | nil => simp
    | cons a l ih =>
      simp only [List.map_cons, List.nodup_cons]
      refine ⟨?_, ih (strictNum_tail a l h)⟩
      intro hm
      simp only [List.mem_map, Prod.mk.injEq] at hm
      obtain ⟨b, hb, hnum, _⟩ := hm
      have := strictNum_head_lt a l h b hb
      omega
  simp [dedup_of_nodup _ hn]

/-- `sorted(set(L + L + ... + L))` -/
theorem sorted_set_copies (L : List Arg) (hL : strictNum L = true) (n : Nat) :
    sortArgs (dedup (List.flatten (List.replicate (n + 1) L))) = L := by
  rw [dedup_copies L (nodup_of_strict L hL), sortArgs_of_strict L hL]

/-! ### forms -/

theorem formProper_flatMap : ∀ (i : Itg K) (rest : List (Itg K)),
    (rest.all (fun j => !j.zeroed && j.atom.args == i.atom.args)) = true →
    rest.flatMap Itg.liveArgs = List.flatten (List.replicate rest.length i.atom.args)
  | i, [], _ => by simp
  | i, j :: rest, h => by
    simp only [List.all_cons, Bool.and_eq_true, Bool.not_eq_eq_eq_not, Bool.not_true, beq_iff_eq] at h
    have ih := formProper_flatMap i rest (by simpa using h.2)
    simp [List.flatMap_cons, Itg.liveArgs, h.1.1, h.1.2, ih, List.replicate_succ]

theorem formArguments_proper (i : Itg K) (rest : List (Itg K)) (h : formProper (i :: rest) = true) :
    formArguments (i :: rest) = .ok i.atom.args := by
  simp only [formProper, Bool.and_eq_true, Bool.not_eq_eq_eq_not, Bool.not_true] at h
  obtain ⟨⟨hz, hall⟩, hs⟩ := h
  unfold formArguments
  have hflat : (i :: rest).flatMap Itg.liveArgs = List.flatten (List.replicate (rest.length + 1) i.atom.args) := by
    simp [List.flatMap_cons, Itg.liveArgs, hz, formProper_flatMap i rest hall, List.replicate_succ]
  simp only [hflat, dedup_copies _ (nodup_of_strict _ hs), npNodup_of_strict _ hs, if_true,
    sortArgs_of_strict _ hs]

/-! ### sums -/

theorem argumentsL_copies (cfg : Cfg) (L : List Arg) : ∀ (cs : List (BF K)),
    (∀ c ∈ cs, c.arguments cfg = .ok L) → BF.argumentsL cfg cs = .ok (List.flatten (List.replicate cs.length L))
  | [], _ => by simp [BF.argumentsL]
  | c :: cs, h => by
    have ih := argumentsL_copies cfg L cs (fun c' hc' => h c' (by simp [hc']))
    simp [BF.argumentsL, h c (by simp), ih, ebind_ok, List.replicate_succ]

theorem map_space_renumber (as : List Arg) : (renumber as).map (·.space) = as.map (·.space) := by
  unfold renumber
  rw [List.map_map]
  have : ((fun a : Arg => a.space) ∘ fun p : Arg × Nat => { p.1 with number := p.2 }) = (fun p => p.1.space) := rfl
  rw [this]
  have h2 : (fun p : Arg × Nat => p.1.space) = (fun a : Arg => a.space) ∘ Prod.fst := rfl
  rw [h2, ← List.map_map, List.map_fst_zip]
  simp

theorem map_space_renumberNoPart (as : List Arg) : (renumberNoPart as).map (·.space) = as.map (·.space) := by
  unfold renumberNoPart
  rw [List.map_map]
  have : ((fun a : Arg => a.space) ∘ fun p : Arg × Nat => (⟨p.1.space, p.2, none⟩ : Arg)) = (fun a : Arg => a.space) ∘ Prod.fst := rfl
  rw [this, ← List.map_map, List.map_fst_zip]
  simp

theorem ArgsOKL_iff (cfg : Cfg) (cs : List (BF K)) : ArgsOKL cfg cs = true ↔ ∀ c ∈ cs, ArgsOK cfg c = true := by
  induction cs with
  | nil => simp [ArgsOKL]
  | cons c cs ih => simp [ArgsOKL, ih]

theorem leftArgs_sig (l : BF K) (al : Except Err (List Arg)) (la : List Arg)
    (h : ∀ al', al = .ok al' → al'.map (·.space) = l.sigS) (hl : leftArgs l al = .ok la) :
    la.map (·.space) = l.sigS.dropLast := by
  unfold leftArgs at hl
  split at hl
  · simp only [Except.ok.injEq] at hl; subst hl; simp [BF.sigS]
  · cases al with
    | error e => simp [ebind_error] at hl
    | ok al' =>
      simp only [ebind_ok, Except.ok.injEq] at hl; subst hl
      rw [List.map_dropLast, h al' rfl]

theorem rightArgs_sig (r : BF K) (la : List Arg) (ar : Except Err (List Arg)) (as : List Arg)
    (h : ∀ ar', ar = .ok ar' → ar'.map (·.space) = r.sigS) (hr : rightArgs r la ar = .ok as) :
    as.map (·.space) = la.map (·.space) ++ r.sigS.tail := by
  unfold rightArgs at hr
  split at hr
  · simp only [Except.ok.injEq] at hr; subst hr; simp [BF.sigS]
  · simp only [Except.ok.injEq] at hr; subst hr; simp [BF.sigS]
  · simp only [Except.ok.injEq] at hr; subst hr; simp [BF.sigS]
  · simp at hr
  · simp at hr
  · cases ar with
    | error e => simp [ebind_error] at hr
    | ok ar' =>
      simp only [ebind_ok, Except.ok.injEq] at hr; subst hr
      rw [List.map_append, List.map_tail, h ar' rfl]

/-- `arguments()` reports the signature given by argument contraction -/
theorem arguments_sig (cfg : Cfg) : ∀ (b : BF K) (as : List Arg), ArgsOK cfg b = true → b.arguments cfg = .ok as →
    as.map (·.space) = b.sigS
  | .form [], as, _, h => by
    simp only [BF.arguments, formArguments, List.flatMap_nil, dedup, npNodup, List.map_nil, List.length_nil,
      beq_self_eq_true, if_true, sortArgs, Except.ok.injEq] at h
    subst h; simp [BF.sigS, formSig]
  | .form (i :: rest), as, hok, h => by
    simp only [ArgsOK] at hok
    simp only [BF.arguments, formArguments_proper i rest hok, Except.ok.injEq] at h
    subst h
    simp only [formProper, Bool.and_eq_true, Bool.not_eq_eq_eq_not, Bool.not_true] at hok
    simp [BF.sigS, formSig, List.filter, hok.1.1, Itg.argSpaces]
  | .cofunction c s, as, _, h => by
    simp only [BF.arguments, Except.ok.injEq] at h; subst h; simp [BF.sigS]
  | .coargument a, as, _, h => by
    simp only [BF.arguments, Except.ok.injEq] at h; subst h; simp [BF.sigS]
  | .matrix c r k, as, _, h => by
    simp only [BF.arguments, Except.ok.injEq] at h; subst h; simp [BF.sigS]
  | .zero zs, as, _, h => by
    simp only [BF.arguments, Except.ok.injEq] at h; subst h; simp [BF.sigS]
  | .formSum [] ws, as, _, h => by
    simp only [BF.arguments, BF.argumentsL, ebind_ok, dedup, sortArgs, Except.ok.injEq] at h
    subst h; simp [BF.sigS]
  | .formSum (c :: rest) ws, as, hok, h => by
    simp only [ArgsOK, Bool.and_eq_true, List.all_eq_true] at hok
    obtain ⟨hL, hall, hstrict⟩ := hok
    simp only [ArgsOKL, Bool.and_eq_true] at hL
    unfold strictArgs at hstrict
    cases hc : c.arguments cfg with
    | error e => simp [hc] at hstrict
    | ok L =>
      simp only [hc] at hstrict
      have hcopies : ∀ c' ∈ c :: rest, c'.arguments cfg = .ok L := by
        intro c' hc'
        rcases List.mem_cons.1 hc' with rfl | hc'
        · exact hc
        · have := hall c' hc'
          unfold sameArgs at this
          rw [hc] at this
          cases hq : c'.arguments cfg with
          | error e => simp [hq] at this
          | ok L' => simp only [hq, beq_iff_eq] at this; rw [this]
      simp only [BF.arguments, argumentsL_copies cfg L (c :: rest) hcopies, ebind_ok, List.length_cons,
        sorted_set_copies L hstrict, Except.ok.injEq] at h
      subst h
      simp only [BF.sigS]
      exact arguments_sig cfg c L hL.1 hc
  | .action l r, as, hok, h => by
    simp only [ArgsOK, Bool.and_eq_true] at hok
    simp only [BF.arguments] at h
    cases hla : leftArgs l (BF.arguments cfg l) with
    | error e => simp [hla, ebind_error] at h
    | ok la =>
      simp only [hla, ebind_ok] at h
      cases hra : rightArgs r la (BF.arguments cfg r) with
      | error e => simp [hra, ebind_error] at h
      | ok ras =>
        simp only [hra, ebind_ok, Except.ok.injEq] at h
        have h1 := leftArgs_sig l _ la (fun al' hal => arguments_sig cfg l al' hok.1 hal) hla
        have h2 := rightArgs_sig r la _ ras (fun ar' har => arguments_sig cfg r ar' hok.2 har) hra
        subst h
        simp only [BF.sigS]
        split
        · rw [map_space_renumber, h2, h1]
        · rw [h2, h1]
  | .adjoint f, as, hok, h => by
    simp only [ArgsOK] at hok
    simp only [BF.arguments] at h
    cases hq : BF.arguments cfg f with
    | error e => simp [hq, ebind_error] at h
    | ok al =>
      simp only [hq, ebind_ok, Except.ok.injEq] at h; subst h
      rw [map_space_renumberNoPart, List.map_reverse, arguments_sig cfg f al hok hq]
      simp [BF.sigS]
  | .coefficient c s, as, _, h => by simp [BF.arguments] at h
  | .argument a, as, _, h => by simp [BF.arguments] at h
  | .exprSum x y, as, _, h => by simp [BF.arguments] at h
  | .exprZero, as, _, h => by simp [BF.arguments] at h
  | .exprOther n, as, _, h => by simp [BF.arguments] at h

/-! ### coefficients -/

section coefs
variable [CommRing K] [DecidableEq K]

/-- the tensor of atom `a` depends on the coefficient values only through the coefficients of `a` -/
def AtomLocal (ρ : Env K) (a : Atom) : Prop :=
  ∀ cv cv' : Nat → Nat → K, (∀ c ∈ a.coefs, cv c.count = cv' c.count) → ρ.atomFn a.id cv = ρ.atomFn a.id cv'

theorem mem_insertCoef (x y : Coef) (l : List Coef) : y ∈ insertCoef x l ↔ y = x ∨ y ∈ l := by
  induction l with
  | nil => simp [insertCoef]
  | cons z l ih =>
    unfold insertCoef
    split
    · simp
    · simp [ih]; tauto

theorem mem_sortCoefs (y : Coef) (l : List Coef) : y ∈ sortCoefs l ↔ y ∈ l := by
  induction l with
  | nil => simp [sortCoefs]
  | cons z l ih => simp [sortCoefs, mem_insertCoef, ih]

theorem contrDim_withCoef (ρ : Env K) (cv : Nat → Nat → K) (l : BF K) : l.contrDim (ρ.withCoef cv) = l.contrDim ρ := rfl

theorem arguments_expr_error (cfg : Cfg) (l : BF K) (hb : l.isBaseForm = false) : ∃ e, l.arguments cfg = .error e := by
  cases l <;> simp_all [BF.isBaseForm, BF.arguments]

def Agree (ρ : Env K) (cv : Nat → Nat → K) (cs : List Coef) : Prop := ∀ c ∈ cs, cv c.count = ρ.coefVal c.count

mutual
theorem coefficients_sound (cfg : Cfg) (ρ : Env K) (cv : Nat → Nat → K) :
    ∀ (b : BF K) (cs : List Coef), (cfg.leftCoef = true ∨ noLeftCoef b = true) → b.coefficients cfg = .ok cs →
      Agree ρ cv cs → (∀ a ∈ liveAtoms b, AtomLocal ρ a) → ∀ idx, denote (ρ.withCoef cv) b idx = denote ρ b idx
  | .form itgs, cs, _, h, hag, hloc, idx => by
    simp only [BF.coefficients] at h
    cases hf : formArguments itgs with
    | error e => simp [hf, ebind_error] at h
    | ok as =>
      simp only [hf, ebind_ok, Except.ok.injEq] at h; subst h
      simp only [denote]
      have : ∀ (l : List (Itg K)), (∀ i ∈ l, i ∈ itgs) → denoteItgs (ρ.withCoef cv) l idx = denoteItgs ρ l idx := by
        intro l
        induction l with
        | nil => intro _; simp [denoteItgs]
        | cons i l ih =>
          intro hsub
          simp only [denoteItgs, ih (fun j hj => hsub j (by simp [hj]))]
          congr 1
          unfold denoteItg
          by_cases hz : i.zeroed = true
          · simp [hz]
          · simp only [hz, if_false, Bool.false_eq_true]
            have hi := hsub i (by simp)
            have hl := hloc i.atom (by
              simp only [liveAtoms, List.mem_map, List.mem_filter]
              exact ⟨i, ⟨hi, by simpa using hz⟩, rfl⟩)
            have := hl cv ρ.coefVal (fun c hc => hag c (by
              rw [mem_sortCoefs, mem_dedup]
              simp only [List.mem_flatMap]
              exact ⟨i, hi, by simp [Itg.liveCoefs, hz, hc]⟩))
            simp only [Env.withCoef]
            rw [this]
      exact this itgs (fun i hi => hi)
  | .cofunction c s, cs, _, h, hag, _, idx => by
    simp only [BF.coefficients, Except.ok.injEq] at h; subst h
    have := hag ⟨c, s⟩ (by simp)
    simp only [denote, Env.withCoef]
    cases idx with
    | nil => rfl
    | cons i t => cases t <;> simp_all
  | .coargument a, cs, _, _, _, _, idx => by simp [denote]
  | .matrix c r k, cs, _, _, _, _, idx => by simp [denote, Env.withCoef]
  | .zero as, cs, _, _, _, _, idx => by simp [denote]
  | .formSum xs ws, cs, hnl, h, hag, hloc, idx => by
    simp only [BF.coefficients] at h
    cases hx : BF.coefficientsL cfg xs with
    | error e => simp [hx, ebind_error] at h
    | ok ys =>
      simp only [hx, ebind_ok, Except.ok.injEq] at h; subst h
      simp only [denote]
      apply coefficientsL_sound cfg ρ cv xs ys (by simpa [noLeftCoef] using hnl) hx _ (by simpa [liveAtoms] using hloc)
      intro c hc
      exact hag c (by rw [mem_sortCoefs, mem_dedup]; exact hc)
  | .action l r, cs, hnl, h, hag, hloc, idx => by
    simp only [BF.coefficients] at h
    cases ha : BF.arguments cfg (.action l r) with
    | error e => simp [ha, ebind_error] at h
    | ok as =>
      simp only [ha, ebind_ok] at h
      cases hr : rightCoefs r (BF.coefficients cfg r) with
      | error e => simp [hr, ebind_error] at h
      | ok rc =>
        simp only [hr, ebind_ok] at h
        cases hl : leftCoefs cfg l (BF.coefficients cfg l) with
        | error e => simp [hl, ebind_error] at h
        | ok lc =>
          simp only [hl, ebind_ok, Except.ok.injEq] at h; subst h
          have hagr : Agree ρ cv rc := fun c hc => hag c (by simp [hc])
          have hagl : Agree ρ cv lc := fun c hc => hag c (by simp [hc])
          have hlocl : ∀ a ∈ liveAtoms l, AtomLocal ρ a := fun a ha => hloc a (by simp [liveAtoms, ha])
          have hlocr : ∀ a ∈ liveAtoms r, AtomLocal ρ a := fun a ha => hloc a (by simp [liveAtoms, ha])
          have hnl' : cfg.leftCoef = true ∨ (l.isCoefficient = false ∧
              noLeftCoef l = true ∧ noLeftCoef r = true) := by
            rcases hnl with h1 | h1
            · exact Or.inl h1
            · right
              rw [noLeftCoef] at h1
              simp only [Bool.and_eq_true, Bool.not_eq_eq_eq_not, Bool.not_true] at h1
              exact ⟨h1.1.1, h1.1.2, h1.2⟩
          -- right operand
          have hR : ∀ j, denote (ρ.withCoef cv) r j = denote ρ r j := by
            intro j
            unfold rightCoefs at hr
            split at hr
            · rename_i c s
              simp only [Except.ok.injEq] at hr; subst hr
              have := hagr ⟨c, s⟩ (by simp)
              simp only [denote, Env.withCoef]
              cases j with
              | nil => rfl
              | cons i t => cases t <;> simp_all
            · simp [denote]
            · simp [denote]
            · simp at hr
            · simp at hr
            · exact coefficients_sound cfg ρ cv r rc (by
                rcases hnl' with h1 | h1
                · exact Or.inl h1
                · exact Or.inr h1.2.2) hr hagr hlocr j
          -- left operand
          have hL : ∀ j, denote (ρ.withCoef cv) l j = denote ρ l j := by
            intro j
            unfold leftCoefs at hl
            split at hl
            · rename_i c s
              rcases hnl' with h1 | h1
              · simp only [h1, if_true, Except.ok.injEq] at hl; subst hl
                have := hagl ⟨c, s⟩ (by simp)
                simp only [denote, Env.withCoef]
                cases j with
                | nil => rfl
                | cons i t => cases t <;> simp_all
              · simp [BF.isCoefficient] at h1
            · split at hl
              · exact coefficients_sound cfg ρ cv l lc (by
                  rcases hnl' with h1 | h1
                  · exact Or.inl h1
                  · exact Or.inr h1.2.1) hl hagl hlocl j
              · -- an expression other than a Coefficient on the left: `arguments()` raises
                rename_i hnc hnb
                exfalso
                simp only [BF.arguments] at ha
                clear hnl hnl' hloc hlocl hl
                cases l
                case coefficient c s => exact hnc c s rfl
                all_goals simp_all [BF.isBaseForm, leftArgs, BF.arguments, ebind_error]
          simp only [denote, contrDim_withCoef, hL, hR]
  | .adjoint f, cs, hnl, h, hag, hloc, idx => by
    simp only [BF.coefficients] at h
    cases ha : BF.arguments cfg f with
    | error e => simp [ha, ebind_error] at h
    | ok as =>
      simp only [ha, ebind_ok] at h
      have ih := coefficients_sound cfg ρ cv f cs (by simpa [noLeftCoef] using hnl) h hag (by simpa [liveAtoms] using hloc)
      simp only [denote]
      cases idx with
      | nil => rfl
      | cons i t =>
        cases t with
        | nil => rfl
        | cons j t' =>
          cases t' with
          | nil => simp only [ih]; rfl
          | cons _ _ => rfl
  | .coefficient c s, cs, _, h, _, _, idx => by simp [BF.coefficients] at h
  | .argument a, cs, _, h, _, _, idx => by simp [BF.coefficients] at h
  | .exprSum x y, cs, _, h, _, _, idx => by simp [BF.coefficients] at h
  | .exprZero, cs, _, h, _, _, idx => by simp [BF.coefficients] at h
  | .exprOther n, cs, _, h, _, _, idx => by simp [BF.coefficients] at h
theorem coefficientsL_sound (cfg : Cfg) (ρ : Env K) (cv : Nat → Nat → K) :
    ∀ (xs : List (BF K)) (cs : List Coef), (cfg.leftCoef = true ∨ noLeftCoefL xs = true) → BF.coefficientsL cfg xs = .ok cs →
      Agree ρ cv cs → (∀ a ∈ liveAtomsL xs, AtomLocal ρ a) →
      ∀ (ws : List K) idx, denoteSum (ρ.withCoef cv) xs ws idx = denoteSum ρ xs ws idx
  | [], cs, _, _, _, _, ws, idx => by simp [denoteSum]
  | x :: xs, cs, hnl, h, hag, hloc, ws, idx => by
    simp only [BF.coefficientsL] at h
    cases hx : BF.coefficients cfg x with
    | error e => simp [hx, ebind_error] at h
    | ok cx =>
      cases hxs : BF.coefficientsL cfg xs with
      | error e => simp [hx, hxs, ebind_ok, ebind_error] at h
      | ok cxs =>
        simp only [hx, hxs, ebind_ok, Except.ok.injEq] at h; subst h
        have hnl1 : cfg.leftCoef = true ∨ noLeftCoef x = true := by
          rcases hnl with h1 | h1
          · exact Or.inl h1
          · simp only [noLeftCoefL, Bool.and_eq_true] at h1; exact Or.inr h1.1
        have hnl2 : cfg.leftCoef = true ∨ noLeftCoefL xs = true := by
          rcases hnl with h1 | h1
          · exact Or.inl h1
          · simp only [noLeftCoefL, Bool.and_eq_true] at h1; exact Or.inr h1.2
        have h1 := coefficients_sound cfg ρ cv x cx hnl1 hx (fun c hc => hag c (by simp [hc]))
          (fun a ha => hloc a (by simp [liveAtomsL, ha]))
        have h2 := coefficientsL_sound cfg ρ cv xs cxs hnl2 hxs (fun c hc => hag c (by simp [hc]))
          (fun a ha => hloc a (by simp [liveAtomsL, ha]))
        cases ws with
        | nil => simp [denoteSum]
        | cons w ws => simp only [denoteSum, h1 idx, h2 ws idx]
end

end coefs

end BaseForm
end UflVerif
