/-
Where the terminals of a block come from: every terminal of `fsT fx cfg e` is a non-argument terminal of
`e` or a terminal of the image of an argument of `e` (`terms_fsT`).  Used for the syntactic reading of
"block (i, j) depends only on the i-th test and j-th trial sub-function" and for the blocks that
`extract_blocks` drops on a `MixedFunctionSpace`.
-/
import UflVerif.Sem.SplitValue
import UflVerif.Model.Linear

namespace UflVerif
namespace Expr

mutual
/-- all terminals of an expression (literals, zeros and multi-indices aside), in pre-order -/
def terms : Expr → List TermData
  | .term d => [d]
  | .op _ _ args => termsL args
  | _ => []
def termsL : List Expr → List TermData
  | [] => []
  | a :: as => terms a ++ termsL as
end

theorem termsL_mem : ∀ (xs : List Expr) (t : TermData), t ∈ termsL xs ↔ ∃ x ∈ xs, t ∈ terms x
  | [], t => by simp [termsL]
  | x :: xs, t => by simp [termsL, termsL_mem xs t]

theorem terms_getD (xs : List Expr) (v : Nat) (t : TermData) (h : t ∈ terms (xs.getD v zeroS)) : t ∈ termsL xs := by
  cases hx : xs[v]? with
  | none => simp [List.getD, hx, zeroS, terms] at h
  | some y =>
    simp only [List.getD, hx, Option.getD_some] at h
    exact (termsL_mem xs t).2 ⟨y, List.mem_of_getElem? hx, h⟩

theorem terms_ltGetT : ∀ (vs : List Nat) (e : Expr) (t : TermData), t ∈ terms (ltGetT e vs) → t ∈ terms e
  | [], e, t, h => by simpa [ltGetT] using h
  | v :: vs, e, t, h => by
    unfold ltGetT at h
    split at h
    · rename_i heq; cases heq
    · rename_i x xs v' vs' heq
      simp only [List.cons.injEq] at heq
      obtain ⟨rfl, rfl⟩ := heq
      have := terms_ltGetT vs _ t h
      simp only [terms]
      exact terms_getD xs v t this
    · rename_i e' v' vs' hne heq
      simp only [List.cons.injEq] at heq
      obtain ⟨rfl, rfl⟩ := heq
      simpa [terms, termsL] using h

theorem terms_getAllT (xs : List Expr) : ∀ (vs : List Nat) (t : TermData), t ∈ termsL (getAllT xs vs) → t ∈ termsL xs
  | [], t, h => by simp [getAllT, termsL] at h
  | v :: vs, t, h => by
    simp only [getAllT, List.map_cons, termsL, List.mem_append] at h
    rcases h with h | h
    · exact terms_getD xs v t h
    · exact terms_getAllT xs vs t h

theorem terms_fsIndexedT (fx : Bool) (aux : List Nat) (a' : Expr) (is : List Idx) (t : TermData)
    (h : t ∈ terms (fsIndexedT fx aux a' is)) : t ∈ terms a' := by
  unfold fsIndexedT at h
  split at h
  · rename_i x xs vs _ _
    split at h
    · exact terms_ltGetT _ _ t h
    · split at h
      · simp only [terms]; exact terms_getD _ _ t h
      · split at h
        · exact h
        · simp only [terms] at h ⊢; exact terms_getAllT _ _ t h
  · simpa [terms, termsL] using h

theorem terms_fsNode (fx : Bool) (k : Op) (aux : List Nat) (args args' : List Expr) (t : TermData)
    (h : t ∈ terms (fsNode fx k aux args args')) : t ∈ termsL args' := by
  unfold fsNode at h
  split at h
  · split at h
    · simpa [termsL] using h
    · simpa [terms, termsL] using h
  · split at h
    · simpa [termsL] using h
    · simpa [terms, termsL] using h
  · have := terms_fsIndexedT fx aux _ _ t h
    simp [termsL, terms, this]
  · simpa [terms] using h

/-- a terminal of the block is a non-argument terminal of the integrand, or comes from the image of one of its
    arguments -/
def FromInput (cfg : SplitCfg) (src : List TermData) (t : TermData) : Prop :=
  (t ∈ src ∧ (t.cls == "Argument") = false) ∨ ∃ d0 ∈ src, (d0.cls == "Argument") = true ∧ t ∈ terms (splitArgT cfg d0)

mutual
theorem terms_fsT (fx : Bool) (cfg : SplitCfg) : ∀ (e : Expr) (t : TermData), t ∈ terms (fsT fx cfg e) → FromInput cfg (terms e) t
  | .term d, t, h => by
    simp only [fsT] at h
    split at h
    · rename_i hc; exact Or.inr ⟨d, by simp [terms], hc, h⟩
    · rename_i hc
      simp only [terms, List.mem_singleton] at h
      subst h
      exact Or.inl ⟨by simp [terms], by simpa using hc⟩
  | .op k aux args, t, h => by
    simp only [fsT] at h
    have := terms_fsNode fx k aux args _ t h
    simpa [terms] using termsL_fsT fx cfg args t this
  | .int _, t, h | .real _ _, t, h | .cplx _ _ _ _, t, h | .zero _ _, t, h | .mi _, t, h => by
    simp [fsT, terms] at h
theorem termsL_fsT (fx : Bool) (cfg : SplitCfg) : ∀ (as : List Expr) (t : TermData), t ∈ termsL (fsTL fx cfg as) → FromInput cfg (termsL as) t
  | [], t, h => by simp [fsTL, termsL] at h
  | a :: as, t, h => by
    simp only [fsTL, termsL, List.mem_append] at h
    rcases h with h | h
    · rcases terms_fsT fx cfg a t h with ⟨h1, h2⟩ | ⟨d0, h1, h2, h3⟩
      · exact Or.inl ⟨by simp [termsL, h1], h2⟩
      · exact Or.inr ⟨d0, by simp [termsL, h1], h2, h3⟩
    · rcases termsL_fsT fx cfg as t h with ⟨h1, h2⟩ | ⟨d0, h1, h2, h3⟩
      · exact Or.inl ⟨by simp [termsL, h1], h2⟩
      · exact Or.inr ⟨d0, by simp [termsL, h1], h2, h3⟩
end

mutual
theorem freeOf_iff (P : KeyP) : ∀ e : Expr, FreeOf P e = true ↔ ∀ t ∈ terms e, P t.key = false
  | .term d => by simp [FreeOf, terms]
  | .op k aux args => by simp only [FreeOf, terms]; exact freeOfL_iff P args
  | .int _ | .real _ _ | .cplx _ _ _ _ | .zero _ _ | .mi _ => by simp [FreeOf, terms]
theorem freeOfL_iff (P : KeyP) : ∀ as : List Expr, FreeOfL P as = true ↔ ∀ t ∈ termsL as, P t.key = false
  | [] => by simp [FreeOfL, termsL]
  | a :: as => by
    simp only [FreeOfL, Bool.and_eq_true, termsL, List.mem_append, freeOf_iff P a, freeOfL_iff P as]
    constructor
    · rintro ⟨h1, h2⟩ t (h | h)
      · exact h1 t h
      · exact h2 t h
    · intro h
      exact ⟨fun t ht => h t (Or.inl ht), fun t ht => h t (Or.inr ht)⟩
end

theorem terms_chain : ∀ (a : Expr) (d : TermData) (k : Nat), gradChain a = some (d, k) → terms a = [d] := by
  intro a
  fun_induction gradChain a with
  | case1 d => intro d' k h; simp only [Option.some.injEq, Prod.mk.injEq] at h; simp [terms, h.1]
  | case2 aux a d k hk ih =>
    intro d' k' h
    simp only [Option.some.injEq, Prod.mk.injEq] at h
    simp only [terms, termsL, List.append_nil]
    rw [ih d k hk, h.1]
  | case3 aux a hk ih => intro d' k h; simp at h
  | case4 e h1 h2 => intro d' k h; simp at h

mutual
/-- `Adm` says of every terminal of the expression that it is listed / not listed as it should be -/
theorem adm_terms (gm : Option Nat) (fx : Bool) (cfg : SplitCfg) (A : List TermData) :
    ∀ e : Expr, Adm gm fx cfg A e = true → ∀ t ∈ terms e, termAdm cfg A t = true
  | .term d, h, t, ht => by
    simp only [terms, List.mem_singleton] at ht; subst ht; simpa [Adm] using h
  | .op k aux args, h, t, ht => by
    unfold Adm at h
    split at h
    · rename_i heq; cases heq
    · rename_i x a heq
      simp only [op.injEq] at heq
      obtain ⟨rfl, rfl, rfl⟩ := heq
      split at h
      · rename_i d k' hk
        simp only [Bool.and_eq_true] at h
        simp only [terms, termsL, List.append_nil, terms_chain a d k' hk, List.mem_singleton] at ht
        subst ht; exact h.1
      · cases h
    · rename_i x a is heq
      simp only [op.injEq] at heq
      obtain ⟨rfl, rfl, rfl⟩ := heq
      simp only [Bool.and_eq_true] at h
      simp only [terms, termsL, List.append_nil, List.mem_append, List.not_mem_nil, or_false] at ht
      exact adm_terms gm fx cfg A a h.1 t ht
    · rename_i k' x args' _ _ heq
      simp only [op.injEq] at heq
      obtain ⟨rfl, rfl, rfl⟩ := heq
      simp only [terms] at ht
      exact admL_terms gm fx cfg A args h t ht
    · rename_i h1 h2 h3 h4; exact (h4 k aux args rfl).elim
  | .int _, _, t, ht | .real _ _, _, t, ht | .cplx _ _ _ _, _, t, ht | .zero _ _, _, t, ht | .mi _, _, t, ht => by
    simp [terms] at ht
theorem admL_terms (gm : Option Nat) (fx : Bool) (cfg : SplitCfg) (A : List TermData) :
    ∀ as : List Expr, AdmL gm fx cfg A as = true → ∀ t ∈ termsL as, termAdm cfg A t = true
  | [], _, t, ht => by simp [termsL] at ht
  | a :: as, h, t, ht => by
    simp only [AdmL, Bool.and_eq_true] at h
    simp only [termsL, List.mem_append] at ht
    rcases ht with ht | ht
    · exact adm_terms gm fx cfg A a h.1 t ht
    · exact admL_terms gm fx cfg A as h.2 t ht
end

/-! ### `Form.arguments`: the distinct arguments of a form -/

mutual
theorem argTerms_terms : ∀ (e : Expr) (d : TermData), d ∈ argTerms e ↔ (d ∈ terms e ∧ (d.cls == "Argument") = true)
  | .term d0, d => by
    simp only [argTerms, terms, List.mem_singleton]
    split
    · rename_i h; constructor
      · intro hd; simp only [List.mem_singleton] at hd; subst hd; exact ⟨rfl, h⟩
      · rintro ⟨rfl, _⟩; simp
    · rename_i h; constructor
      · intro hd; cases hd
      · rintro ⟨rfl, h2⟩; exact absurd h2 h
  | .op k aux args, d => by simp only [argTerms, terms]; exact argTermsL_terms args d
  | .int _, d | .real _ _, d | .cplx _ _ _ _, d | .zero _ _, d | .mi _, d => by simp [argTerms, terms]
theorem argTermsL_terms : ∀ (as : List Expr) (d : TermData), d ∈ argTermsL as ↔ (d ∈ termsL as ∧ (d.cls == "Argument") = true)
  | [], d => by simp [argTermsL, termsL]
  | a :: as, d => by
    simp only [argTermsL, termsL, List.mem_append, argTerms_terms a d, argTermsL_terms as d]
    constructor
    · rintro (⟨h1, h2⟩ | ⟨h1, h2⟩)
      · exact ⟨Or.inl h1, h2⟩
      · exact ⟨Or.inr h1, h2⟩
    · rintro ⟨h1 | h1, h2⟩
      · exact Or.inl ⟨h1, h2⟩
      · exact Or.inr ⟨h1, h2⟩
end

theorem dedupKeys_sub : ∀ (L : List TermData) (x : TermData), x ∈ dedupKeysFS L → x ∈ L
  | [], x, h => by simp [dedupKeysFS] at h
  | d :: L, x, h => by
    simp only [dedupKeysFS, List.mem_cons, List.mem_filter] at h
    rcases h with rfl | ⟨h, _⟩
    · simp
    · exact List.mem_cons_of_mem _ (dedupKeys_sub L x h)

theorem dedupKeys_has : ∀ (L : List TermData) (x : TermData), x ∈ L → ∃ y ∈ dedupKeysFS L, y.key = x.key
  | [], x, h => by cases h
  | d :: L, x, h => by
    rcases List.mem_cons.mp h with rfl | h
    · exact ⟨x, by simp [dedupKeysFS], rfl⟩
    · obtain ⟨y, hy, hk⟩ := dedupKeys_has L x h
      by_cases hd : y.key = d.key
      · exact ⟨d, by simp [dedupKeysFS], by rw [← hd, hk]⟩
      · exact ⟨y, by simp [dedupKeysFS, hy, hd], hk⟩

theorem dedupKeys_pairwise : ∀ (L : List TermData), (dedupKeysFS L).Pairwise (fun x y => x.key ≠ y.key)
  | [] => by simp [dedupKeysFS]
  | d :: L => by
    simp only [dedupKeysFS, List.pairwise_cons, List.mem_filter, bne_iff_ne, ne_eq]
    refine ⟨fun y hy => fun h => hy.2 h.symm, List.Pairwise.filter _ (dedupKeys_pairwise L)⟩

theorem insertByNumber_length (d : TermData) : ∀ L : List TermData, (insertByNumber d L).length = L.length + 1
  | [] => rfl
  | x :: xs => by
    simp only [insertByNumber]
    split
    · rfl
    · simp [insertByNumber_length d xs]

theorem insertByNumber_mem (d : TermData) : ∀ (L : List TermData) (x : TermData), x ∈ insertByNumber d L ↔ x = d ∨ x ∈ L
  | [], x => by simp [insertByNumber]
  | y :: ys, x => by
    simp only [insertByNumber]
    split
    · simp
    · simp only [List.mem_cons, insertByNumber_mem d ys x]
      constructor
      · rintro (h | h | h)
        · exact Or.inr (Or.inl h)
        · exact Or.inl h
        · exact Or.inr (Or.inr h)
      · rintro (h | h | h)
        · exact Or.inr (Or.inl h)
        · exact Or.inl h
        · exact Or.inr (Or.inr h)

theorem foldr_insert_length : ∀ L : List TermData, (L.foldr insertByNumber []).length = L.length
  | [] => rfl
  | d :: L => by simp [List.foldr, insertByNumber_length, foldr_insert_length L]

theorem foldr_insert_mem : ∀ (L : List TermData) (x : TermData), x ∈ L.foldr insertByNumber [] ↔ x ∈ L
  | [], x => by simp
  | d :: L, x => by simp [List.foldr, insertByNumber_mem, foldr_insert_mem L x]

/-- a list with pairwise distinct keys whose elements are `a` or `b`, containing both, has length 2 -/
theorem two_of_pairwise (a b : TermData) (hab : a.key ≠ b.key) (M : List TermData)
    (hp : M.Pairwise (fun x y => x.key ≠ y.key)) (hel : ∀ x ∈ M, x = a ∨ x = b) (ha : a ∈ M) (hb : b ∈ M) : M.length = 2 := by
  match M, hp, hel, ha, hb with
  | [], _, _, ha, _ => cases ha
  | [x], _, _, ha, hb =>
    simp only [List.mem_singleton] at ha hb
    exact absurd (ha.trans hb.symm ▸ rfl) hab
  | [x, y], _, _, _, _ => rfl
  | x :: y :: z :: rest, hp, hel, _, _ =>
    exfalso
    simp only [List.pairwise_cons, List.mem_cons, ne_eq] at hp
    have hx := hel x (by simp)
    have hy := hel y (by simp)
    have hz := hel z (by simp)
    have hxy := hp.1 y (Or.inl rfl)
    have hxz := hp.1 z (Or.inr (Or.inl rfl))
    have hyz := hp.2.1 z (Or.inl rfl)
    rcases hx with rfl | rfl <;> rcases hy with rfl | rfl <;> rcases hz with rfl | rfl <;> simp_all

/-- a list with pairwise distinct keys all of whose elements are `a`, containing `a`, has length 1 -/
theorem one_of_pairwise (a : TermData) (M : List TermData)
    (hp : M.Pairwise (fun x y => x.key ≠ y.key)) (hel : ∀ x ∈ M, x = a) (ha : a ∈ M) : M.length = 1 := by
  match M, hp, hel, ha with
  | [], _, _, ha => cases ha
  | [x], _, _, _ => rfl
  | x :: y :: rest, hp, hel, _ =>
    exfalso
    simp only [List.pairwise_cons, List.mem_cons, ne_eq] at hp
    have hx := hel x (by simp)
    have hy := hel y (by simp)
    exact hp.1 y (Or.inl rfl) (by rw [hx, hy])

end Expr
end UflVerif
