/-
Audit command: `#audit_prefix "C26_"` prints, for every theorem (or definition) in the
environment whose last name component starts with the prefix, the axioms it depends on.
The check script parses the `AXIOMS` lines and rejects anything outside
{propext, Classical.choice, Quot.sound}.
-/
import Lean
open Lean Elab Command

elab "#audit_prefix " pfx:str : command => do
  let env ← getEnv
  let p := pfx.getString
  let mut names : Array Name := #[]
  for (n, ci) in env.constants.toList do
    match n with
    | .str _ s =>
      if s.startsWith p then
        match ci with
        | .thmInfo _ => names := names.push n
        | _ => pure ()
    | _ => pure ()
  let sorted := names.qsort (fun a b => a.toString < b.toString)
  for n in sorted do
    let axs ← Lean.collectAxioms n
    let axs := axs.qsort (fun a b => a.toString < b.toString)
    logInfo m!"AXIOMS {n} : {axs.toList}"
