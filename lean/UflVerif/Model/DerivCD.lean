/-
The one place where user-supplied `coefficient_derivatives` meet gradients: the `Grad` handler of
`GateauxDerivativeRuleset` applied to `grad^n(o)` for a coefficient `o` that is not a differentiation variable but has a
user-supplied derivative relation (`o` is a key of `coefficient_derivatives`).  In the current code the branch that would
use the relation is disabled (`if 0:`), so the handler falls through to `gprimesum = Zero(g.ufl_shape)`.
`refuse = true` models the repaired handler, which raises.  Core Lean only.
-/
import UflVerif.Model.Deriv

namespace UflVerif
namespace Expr

def gateauxGradRelated (refuse : Bool) (g : Expr) : Option Expr :=
  if refuse then none else some (.zero (shape g) [])

end Expr
end UflVerif
