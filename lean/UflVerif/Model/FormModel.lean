/-
A small model of UFL forms for form-level properties (core Lean only), and the model of
ufl/algorithms/domain_analysis.py (`group_form_integrals`, `rearrange_integrals_by_single_subdomains`,
`accumulate_integrands_with_same_metadata`, `build_integral_data`, `reconstruct_form_from_integral_data`),
ufl/utils/sorting.py (`canonicalize_metadata`, `sorted_by_key`) and the integral ordering of `Form.__init__`.

* An `Integral I MD` has an integrand of an arbitrary type `I`, an integral type (string), a domain
  (number = position in `sort_domains` order), a subdomain id (`SubId`), metadata of an arbitrary type `MD`
  and a tag `extra` for its `extra_domain_integral_type_map` (0 = empty map; tags are numbered in the order
  of the sortable key `Form.__init__` uses).  `subdomain_data` is not modelled: `group_form_integrals`
  rebuilds every integral with `subdomain_data=None`.
* What the grouping reads from integrands is collected in `Ops` (`+`, `cmp_expr`, `renumber_indices`) and
  what it reads from metadata in `mdkey` (`hash(canonicalize_metadata(md))`) and `mdlt`
  (`canonicalize_metadata(a) < canonicalize_metadata(b)`, `none` = TypeError).  The grouping never compares
  metadata in any other way.
* Coordinate derivatives: an integrand is a base integrand under a stack of `CoordinateDerivative` nodes
  (`CDI`), each node carrying the Python hashes of its three non-integrand operands; `calc_hash` adds them up.
* Python dicts are insertion-ordered association lists (`dictAppend`, `groupBy`); Python's stable `sorted`
  is `stableSort` (both return the unique stable sorted permutation when the comparison is a total
  preorder).  A TypeError inside `sorted` is modelled by the pre-check `accumulateRaises` (a tie on the
  integrand between entries whose canonical metadata are not comparable).
-/
namespace UflVerif
namespace FormModel

/-! ## Forms -/

/-- one subdomain label -/
inductive Sid
  | int (i : Int)
  | otherwise
  | everywhere
  | bad                 -- anything else (another string, a float, ...)
  deriving DecidableEq, Repr, Inhabited

/-- `Integral.subdomain_id()`: a single label or a tuple of labels -/
inductive SubId
  | one (s : Sid)
  | tup (ss : List Sid)
  deriving DecidableEq, Repr, Inhabited

structure Integral (I MD : Type) where
  integrand : I
  itype : String
  domain : Nat
  sid : SubId
  md : MD
  extra : Nat
  deriving Repr, Inhabited

abbrev Form (I MD : Type) := List (Integral I MD)

/-- number of times a grouped integral is integrated over the subdomain labelled `s` -/
def SubId.count (s : Sid) : SubId → Nat
  | .one t => if t = s then 1 else 0
  | .tup ts => ts.count s

/-! ## Python containers -/

/-- `d[k].append(v)` on a dict of lists (`defaultdict(list)`), insertion-ordered -/
def dictAppend {K α : Type} [DecidableEq K] (d : List (K × List α)) (k : K) (v : α) : List (K × List α) :=
  match d with
  | [] => [(k, [v])]
  | (k', l) :: rest => if k' = k then (k', l ++ [v]) :: rest else (k', l) :: dictAppend rest k v

/-- `for x in xs: d[key(x)].append(x)` starting from the empty dict -/
def groupBy {K α : Type} [DecidableEq K] (key : α → K) (xs : List α) : List (K × List α) :=
  xs.foldl (fun d x => dictAppend d (key x) x) []

/-- insert before the first element that is not smaller -/
def insertBy {α : Type} (le : α → α → Bool) (a : α) : List α → List α
  | [] => [a]
  | b :: l => if le a b then a :: b :: l else b :: insertBy le a l

/-- Python's `sorted`: the stable sorted permutation (insertion sort from the right; structural recursion, so
    that closed instances evaluate in the kernel) -/
def stableSort {α : Type} (le : α → α → Bool) : List α → List α
  | [] => []
  | a :: l => insertBy le a (stableSort le l)

/-- `sorted(items, key=...)` on dict items, comparing keys with `le` -/
def sortByKey {K β : Type} (le : K → K → Bool) (d : List (K × β)) : List (K × β) :=
  stableSort (fun a b => le a.1 b.1) d

/-- the order `sorted_by_key` (key `(type(k).__name__, k)`) induces on subdomain labels:
    'int' < 'str', ints by value -/
def Sid.le : Sid → Sid → Bool
  | .int i, .int j => decide (i ≤ j)
  | .int _, _ => true
  | _, .int _ => false
  | _, _ => true

/-! ## Coordinate derivatives -/

/-- one `CoordinateDerivative(_, w, v, cd)` node: identity of the triple and the hashes of `w`, `v`, `cd` -/
structure CDTok where
  id : Nat
  hw : Int
  hv : Int
  hcd : Int
  deriving DecidableEq, Repr, Inhabited

/-- an integrand: `base` wrapped in coordinate derivatives, outermost first -/
structure CDI (M : Type) where
  cds : List CDTok
  base : M
  deriving DecidableEq, Repr, Inhabited

/-- `calc_hash` in `group_form_integrals`: the sum over all triples of the sum of the three hashes -/
def calcHash (cds : List CDTok) : Int := (cds.map fun c => c.hw + c.hv + c.hcd).sum

/-! ## What the grouping reads from integrands and metadata -/

structure Ops (M MD H : Type) where
  add : M → M → M                     -- `a + b`
  cmp : M → M → Ordering              -- `cmp_expr`
  renum : M → M                       -- `renumber_indices`
  mdkey : MD → H                      -- `hash(canonicalize_metadata(md))`
  mdlt : MD → MD → Option Bool        -- `canonicalize_metadata(a) < canonicalize_metadata(b)`

section Grouping
variable {M MD H : Type} [DecidableEq M] [DecidableEq H]

/-! ### rearrange_integrals_by_single_subdomains -/

inductive Dids
  | ids (l : List Int)
  | everywhere
  | otherwise
  deriving Repr, DecidableEq

def sidInt? : Sid → Option Int
  | .int i => some i
  | _ => none

/-- `integral_subdomain_ids`; `none` = ValueError -/
def integralSubdomainIds : SubId → Option Dids
  | .one (.int i) => some (.ids [i])
  | .tup ss => (ss.mapM sidInt?).map .ids
  | .one .everywhere => some .everywhere
  | .one .otherwise => some .otherwise
  | .one .bad => none

/-- does `rearrange_integrals_by_single_subdomains` raise on this list -/
def rearrangeRaises {I : Type} (ints : List (Integral I MD)) : Bool :=
  ints.any fun i => match integralSubdomainIds i.sid with
    | none => true
    | some .otherwise => true
    | _ => false

def isEverywhere {I : Type} (i : Integral I MD) : Bool :=
  match i.sid with
  | .one .everywhere => true
  | _ => false

/-- the `(did, itg.reconstruct(subdomain_id=did))` appended in the double loop over `subdomain_integrals` -/
def subdomainPairs {I : Type} (ints : List (Integral I MD)) : List (Int × Integral I MD) :=
  ints.flatMap fun itg => match integralSubdomainIds itg.sid with
    | some (.ids l) => l.map fun i => (i, { itg with sid := .one (.int i) })
    | _ => []

/-- the returned dict (insertion order: integer ids by first appearance, then 'otherwise') -/
def rearrange {I : Type} (ints : List (Integral I MD)) (opt : Bool) : List (Sid × List (Integral I MD)) :=
  let ev := ints.filter isEverywhere
  let d0 : List (Int × List (Integral I MD)) :=
    (groupBy Prod.fst (subdomainPairs ints)).map fun p => (p.1, p.2.map Prod.snd)
  let d1 := if opt then d0.map fun p => (p.1, p.2 ++ ev.map fun e => { e with sid := .one (.int p.1) }) else d0
  let d2 : List (Sid × List (Integral I MD)) := d1.map fun p => (Sid.int p.1, p.2)
  if ev.isEmpty then d2 else d2 ++ [(Sid.otherwise, ev.map fun e => { e with sid := .one .otherwise })]

/-! ### accumulate_integrands_with_same_metadata -/

/-- `sorted_expr(integrands)` then `sum(integrands[1:], integrands[0])` -/
def sumSorted (ops : Ops M MD H) (l : List M) : Option M :=
  match stableSort (fun a b => ops.cmp a b != .gt) l with
  | [] => none
  | x :: xs => some (xs.foldl ops.add x)

/-- `ExprTupleKey.__lt__` (a TypeError of the metadata comparison counts as "not less" here and is
    reported by `accumulateRaises`) -/
def tupleLt (ops : Ops M MD H) (a b : M × MD) : Bool :=
  match ops.cmp a.1 b.1 with
  | .lt => true
  | .gt => false
  | .eq => (ops.mdlt a.2 b.2).getD false

/-- `by_cdid` after the accumulation loop, in dict order -/
def accumulated (ops : Ops M MD H) (ints : List (Integral M MD)) : List (M × MD) :=
  (groupBy (fun i => ops.mdkey i.md) ints).filterMap fun p =>
    match p.2, sumSorted ops (p.2.map (·.integrand)) with
    | i :: _, some s => some (s, i.md)
    | _, _ => none

def accumulate (ops : Ops M MD H) (ints : List (Integral M MD)) : List (M × MD) :=
  stableSort (fun a b => !(tupleLt ops b a)) (accumulated ops ints)

/-- two entries at different positions tie on the integrand and their canonical metadata are not comparable -/
def hasBadTie (ops : Ops M MD H) : List (M × MD) → Bool
  | [] => false
  | a :: rest => rest.any (fun b => ops.cmp a.1 b.1 == .eq && ((ops.mdlt a.2 b.2).isNone || (ops.mdlt b.2 a.2).isNone))
      || hasBadTie ops rest

def accumulateRaises (ops : Ops M MD H) (ints : List (Integral M MD)) : Bool :=
  hasBadTie ops (accumulated ops ints)

/-! ### group_form_integrals -/

/-- `strip_coordinate_derivatives` on one integral -/
def strip (i : Integral (CDI M) MD) : Integral M MD × List CDTok :=
  ({ integrand := i.integrand.base, itype := i.itype, domain := i.domain, sid := i.sid, md := i.md, extra := i.extra },
   i.integrand.cds)

/-- the integrals emitted for one subdomain label: group by `calc_hash`, iterate the groups by
    increasing hash, accumulate, reattach the coordinate derivatives of the group's first member -/
def emitSubdomain (ops : Ops M MD H) (itype : String) (domain extra : Nat) (s : Sid)
    (ss : List (Integral (CDI M) MD)) : Form (CDI M) MD :=
  let stripped := ss.map strip
  let groups := sortByKey (fun a b : Int => decide (a ≤ b)) (groupBy (fun p => calcHash p.2) stripped)
  groups.flatMap fun g =>
    match g.2 with
    | [] => []
    | first :: _ =>
      (accumulate ops (g.2.map Prod.fst)).map fun em =>
        { integrand := { cds := first.2, base := em.1 }, itype := itype, domain := domain, sid := .one s,
          md := em.2, extra := extra }

def emitSubdomainRaises (ops : Ops M MD H) (ss : List (Integral (CDI M) MD)) : Bool :=
  (groupBy (fun p => calcHash p.2) (ss.map strip)).any fun g => accumulateRaises ops (g.2.map Prod.fst)

/-- the integrals with this domain and type, grouped by their extra-domain map -/
def buckets {I : Type} (F : Form I MD) (domain : Nat) (itype : String) : List (Nat × List (Integral I MD)) :=
  groupBy (·.extra) (F.filter fun i => i.domain = domain ∧ i.itype = itype)

/-- the list `integrals` built by the first loop nest of `group_form_integrals` -/
def phase1 (ops : Ops M MD H) (domains : List Nat) (itypes : List String) (opt : Bool)
    (F : Form (CDI M) MD) : Form (CDI M) MD :=
  domains.flatMap fun d => itypes.flatMap fun t => (buckets F d t).flatMap fun b =>
    (sortByKey Sid.le (rearrange b.2 opt)).flatMap fun p => emitSubdomain ops t d b.1 p.1 p.2

def phase1Raises (ops : Ops M MD H) (domains : List Nat) (itypes : List String) (opt : Bool)
    (F : Form (CDI M) MD) : Bool :=
  domains.any fun d => itypes.any fun t => (buckets F d t).any fun b =>
    rearrangeRaises b.2 || (rearrange b.2 opt).any fun p => emitSubdomainRaises ops p.2

/-- key of `unique_integrals` -/
structure UKey (M H : Type) where
  itype : String
  domain : Nat
  mh : H
  integrand : CDI M
  extra : Nat
  deriving DecidableEq

def renumI (ops : Ops M MD H) (i : CDI M) : CDI M := { i with base := ops.renum i.base }

def ukey (ops : Ops M MD H) (i : Integral (CDI M) MD) : UKey M H :=
  { itype := i.itype, domain := i.domain, mh := ops.mdkey i.md, integrand := renumI ops i.integrand, extra := i.extra }

/-- the label of an integral emitted by the first loop nest (always a single label) -/
def oneSid : SubId → Sid
  | .one s => s
  | .tup _ => .bad

/-- "Group integrals by common integrand": subdomain ids are collected into a tuple, the metadata is the
    one stored last in `metadata_table` -/
def phase2 (ops : Ops M MD H) (L : Form (CDI M) MD) : Form (CDI M) MD :=
  (groupBy (ukey ops) L).filterMap fun p =>
    match p.2.getLast? with
    | none => none
    | some last =>
      some { integrand := p.1.integrand, itype := p.1.itype, domain := p.1.domain,
             sid := .tup (p.2.map fun i => oneSid i.sid),
             md := last.md, extra := p.1.extra }

/-! ### Form.__init__: `_sorted_integrals` -/

/-- sort key of a subdomain id: `(type name, value)` with 'int' < 'str' < 'tuple' and 'otherwise' = -1 in tuples -/
def sidRank : SubId → Nat
  | .one (.int _) => 0
  | .one _ => 1
  | .tup _ => 2

def sidNum : Sid → Int
  | .int i => i
  | _ => -1

def lexLe : List Int → List Int → Bool
  | [], _ => true
  | _ :: _, [] => false
  | a :: as, b :: bs => if a < b then true else if b < a then false else lexLe as bs

/-- a string id is compared as the tuple of its characters (`bad` stands for the string 'foo') -/
def Sid.strName : Sid → String
  | .everywhere => "everywhere"
  | .otherwise => "otherwise"
  | _ => "foo"

def SubId.le (a b : SubId) : Bool :=
  if sidRank a < sidRank b then true
  else if sidRank b < sidRank a then false
  else match a, b with
    | .one (.int i), .one (.int j) => decide (i ≤ j)
    | .tup x, .tup y => lexLe (x.map sidNum) (y.map sidNum)
    | .one x, .one y => !(y.strName < x.strName)
    | _, _ => true

def strLe (a b : String) : Bool := !(b < a)

structure FKey where
  domain : Nat
  itype : String
  extra : Nat
  sid : SubId
  deriving DecidableEq

def FKey.le (a b : FKey) : Bool :=
  if a.domain < b.domain then true else if b.domain < a.domain then false
  else if a.itype < b.itype then true else if b.itype < a.itype then false
  else if a.extra < b.extra then true else if b.extra < a.extra then false
  else SubId.le a.sid b.sid

def fkey {I : Type} (i : Integral I MD) : FKey := { domain := i.domain, itype := i.itype, extra := i.extra, sid := i.sid }

/-- `_sorted_integrals`: nested dicts `[domain][type][extra][subdomain_id]` iterated in sorted key order -/
def sortedIntegrals {I : Type} (F : Form I MD) : Form I MD :=
  (sortByKey FKey.le (groupBy fkey F)).flatMap (·.2)

/-- `group_form_integrals(form, domains, do_append_everywhere_integrals)`; `none` = the Python raises -/
def groupFormIntegrals (ops : Ops M MD H) (domains : List Nat) (itypes : List String) (opt : Bool)
    (F : Form (CDI M) MD) : Option (Form (CDI M) MD) :=
  if phase1Raises ops domains itypes opt F then none
  else some (sortedIntegrals (phase2 ops (phase1 ops domains itypes opt F)))

/-! ### build_integral_data / reconstruct_form_from_integral_data -/

structure IntegralData (I MD : Type) where
  domain : Nat
  itype : String
  sid : SubId
  extra : Nat
  integrals : List (Integral I MD)

/-- sort key of `build_integral_data`: (domain, type, type name of the id, ids with 'otherwise' = -1, extra) -/
def IDKey.le (a b : FKey) : Bool :=
  if a.domain < b.domain then true else if b.domain < a.domain then false
  else if a.itype < b.itype then true else if b.itype < a.itype then false
  else if SubId.le a.sid b.sid && !(SubId.le b.sid a.sid) then true
  else if SubId.le b.sid a.sid && !(SubId.le a.sid b.sid) then false
  else decide (a.extra ≤ b.extra)

/-- does `build_integral_data` raise: an id that is not a tuple, or a tuple containing 'everywhere' -/
def buildRaises {I : Type} (F : Form I MD) : Bool :=
  F.any fun i => match i.sid with
    | .tup ss => ss.contains .everywhere
    | .one _ => true

def buildIntegralData {I : Type} (F : Form I MD) : Option (List (IntegralData I MD)) :=
  if buildRaises F then none
  else some ((sortByKey IDKey.le (groupBy fkey F)).map fun p =>
    { domain := p.1.domain, itype := p.1.itype, sid := p.1.sid, extra := p.1.extra, integrals := p.2 })

/-- `reconstruct_form_from_integral_data` -/
def reconstructForm {I : Type} (ids : List (IntegralData I MD)) : Form I MD :=
  sortedIntegrals (ids.flatMap (·.integrals))

end Grouping

/-! ## Metadata values and `canonicalize_metadata` -/

/- a metadata value: a leaf carries its Python type name, an exact rendering of its value (`repr`; what makes
   two leaves different) and what `str()` returns for it (taken from the live object: Python and numpy are
   not modelled); a numpy array carries its `tolist()` and what `str()` prints for it; lists/tuples and dicts
   with string keys nest -/
inductive MDV
  | leaf (ty : String) (val : String) (printed : String)
  | arr (tolist : MDV) (printed : String)
  | seq (isTuple : Bool) (items : List MDV)
  | dict (keys : List String) (vals : List MDV)
  deriving Repr, Inhabited

namespace MDV
mutual
def beq : MDV → MDV → Bool
  | .leaf a b c, .leaf a' b' c' => a == a' && b == b' && c == c'
  | .arr l p, .arr l' p' => beq l l' && p == p'
  | .seq t xs, .seq t' ys => t == t' && beqL xs ys
  | .dict k v, .dict k' v' => k == k' && beqL v v'
  | _, _ => false
def beqL : List MDV → List MDV → Bool
  | [], [] => true
  | a :: as, b :: bs => beq a b && beqL as bs
  | _, _ => false
end

mutual
theorem beq_eq : ∀ a b : MDV, beq a b = true → a = b
  | .leaf a b c, .leaf a' b' c', h => by
    simp only [beq, Bool.and_eq_true, beq_iff_eq] at h
    rw [h.1.1, h.1.2, h.2]
  | .arr l p, .arr l' p', h => by
    simp only [beq, Bool.and_eq_true, beq_iff_eq] at h
    rw [beq_eq l l' h.1, h.2]
  | .seq t xs, .seq t' ys, h => by
    simp only [beq, Bool.and_eq_true, beq_iff_eq] at h
    rw [h.1, beqL_eq xs ys h.2]
  | .dict k v, .dict k' v', h => by
    simp only [beq, Bool.and_eq_true, beq_iff_eq] at h
    rw [h.1, beqL_eq v v' h.2]
  | .leaf .., .arr .., h | .leaf .., .seq .., h | .leaf .., .dict .., h
  | .arr .., .leaf .., h | .arr .., .seq .., h | .arr .., .dict .., h
  | .seq .., .leaf .., h | .seq .., .arr .., h | .seq .., .dict .., h
  | .dict .., .leaf .., h | .dict .., .arr .., h | .dict .., .seq .., h => by simp [beq] at h
theorem beqL_eq : ∀ as bs : List MDV, beqL as bs = true → as = bs
  | [], [], _ => rfl
  | a :: as, b :: bs, h => by
    simp only [beqL, Bool.and_eq_true] at h
    rw [beq_eq a b h.1, beqL_eq as bs h.2]
  | [], _ :: _, h => by simp [beqL] at h
  | _ :: _, [], h => by simp [beqL] at h
end

mutual
theorem beq_refl : ∀ a : MDV, beq a a = true
  | .leaf .. => by simp [beq]
  | .arr l _ => by simp [beq, beq_refl l]
  | .seq _ xs => by simp [beq, beqL_refl xs]
  | .dict _ v => by simp [beq, beqL_refl v]
theorem beqL_refl : ∀ as : List MDV, beqL as as = true
  | [] => rfl
  | a :: as => by simp [beqL, beq_refl a, beqL_refl as]
end

instance : DecidableEq MDV := fun a b =>
  if h : beq a b = true then isTrue (beq_eq a b h)
  else isFalse (fun e => h (e ▸ beq_refl a))
end MDV

/- the result of `canonicalize_metadata`: nested tuples of strings -/
inductive Canon
  | s (x : String)
  | t (items : List Canon)
  deriving Repr, Inhabited

namespace Canon
mutual
def beq : Canon → Canon → Bool
  | .s a, .s b => a == b
  | .t as, .t bs => beqL as bs
  | _, _ => false
def beqL : List Canon → List Canon → Bool
  | [], [] => true
  | a :: as, b :: bs => beq a b && beqL as bs
  | _, _ => false
end

mutual
theorem beq_eq : ∀ a b : Canon, beq a b = true → a = b
  | .s a, .s b, h => by simp only [beq, beq_iff_eq] at h; rw [h]
  | .t as, .t bs, h => by simp only [beq] at h; rw [beqL_eq as bs h]
  | .s _, .t _, h => by simp [beq] at h
  | .t _, .s _, h => by simp [beq] at h
theorem beqL_eq : ∀ as bs : List Canon, beqL as bs = true → as = bs
  | [], [], _ => rfl
  | a :: as, b :: bs, h => by
    simp only [beqL, Bool.and_eq_true] at h
    rw [beq_eq a b h.1, beqL_eq as bs h.2]
  | [], _ :: _, h => by simp [beqL] at h
  | _ :: _, [], h => by simp [beqL] at h
end

mutual
theorem beq_refl : ∀ a : Canon, beq a a = true
  | .s a => by simp [beq]
  | .t as => by simp only [beq]; exact beqL_refl as
theorem beqL_refl : ∀ as : List Canon, beqL as as = true
  | [] => rfl
  | a :: as => by simp [beqL, beq_refl a, beqL_refl as]
end

instance : DecidableEq Canon := fun a b =>
  if h : beq a b = true then isTrue (beq_eq a b h)
  else isFalse (fun e => h (e ▸ beq_refl a))

/- Python's `<` on nested tuples of strings: the first position where the items differ decides; a proper
   prefix is smaller; a string against a tuple is a TypeError (`none`) -/
mutual
def lt : Canon → Canon → Option Bool
  | .s a, .s b => some (decide (a < b))
  | .t as, .t bs => ltL as bs
  | _, _ => none
def ltL : List Canon → List Canon → Option Bool
  | [], [] => some false
  | [], _ :: _ => some true
  | _ :: _, [] => some false
  | a :: as, b :: bs => if beq a b then ltL as bs else lt a b
end
end Canon

/-- sort the (key, value) pairs of a dict by key (keys of a dict are distinct) -/
def sortPairs {β : Type} (kv : List (String × β)) : List (String × β) :=
  stableSort (fun a b => !(b.1 < a.1)) kv

/-- the two places where the canonicalisation of a leaf may be repaired (fix_C15_1 / fix_C15_2);
    the unchanged code is `⟨false, false⟩` -/
structure CanonCfg where
  arrTolist : Bool := false      -- arrays are canonicalised through `tolist()` instead of `str()`
  strRepr : Bool := false        -- `str` leaves are canonicalised by `repr()` instead of `str()`
  deriving DecidableEq, Repr, Inhabited

mutual
/- `canonicalize_metadata(value)` for a dict / list / tuple; a leaf is replaced by its `str()` -/
def canonWith (c : CanonCfg) : MDV → Canon
  | .leaf ty val printed => .s (if c.strRepr && ty == "str" then val else printed)
  | .arr l printed => if c.arrTolist then canonWith c l else .s printed
  | .seq _ items => .t (canonWithL c items)
  | .dict keys vals => .t ((sortPairs (keys.zip (canonWithL c vals))).map fun p => Canon.t [.s p.1, p.2])
def canonWithL (c : CanonCfg) : List MDV → List Canon
  | [] => []
  | v :: vs => canonWith c v :: canonWithL c vs
end

/-- `canonicalize_metadata` as it is in /repo -/
def canon : MDV → Canon := canonWith {}

end FormModel
end UflVerif
