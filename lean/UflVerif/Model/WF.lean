/-
Well-formedness of expressions of the verified fragment: the argument checks the UFL constructors
perform (shapes, free indices, ranks, ranges), as one decidable predicate.  It is the domain of
the value theorems; the constructor theorems show it is preserved by everything built through
the modelled constructors.
-/
import UflVerif.Model.Construct
import UflVerif.Model.Eval

namespace UflVerif
namespace Expr

def nodupNat : List Nat → Bool
  | [] => true
  | x :: xs => !xs.contains x && nodupNat xs

/-- free-index lists are strictly sorted by index count (each index once) -/
def sortedFI : FI → Bool
  | [] => true
  | [_] => true
  | p :: q :: qs => decide (p.1 < q.1) && sortedFI (q :: qs)

/-- an index free in both lists has the same extent in both -/
def dimsAgree (f g : FI) : Bool := f.all (fun p => !FI.has p.1 g || FI.dimOf p.1 g == p.2)

def fixedInRange (sh : List Nat) (is : List Idx) : Bool :=
  (is.zipIdx).all (fun p => match p.1 with | .fixed v => decide (v < sh.getD p.2 0) | .free _ => true)

mutual
def WF : Expr → Bool
  | .int _ | .real _ _ | .cplx _ _ _ _ | .term _ => true
  | .zero _ f => sortedFI f
  | .mi _ => false                      -- a multi-index is not a tensor expression
  | .op k _ args =>
    match k, args with
    | .sum, [a, b] => WF a && WF b && shape a == shape b && fi a == fi b
    | .product, [a, b] => WF a && WF b && (shape a).isEmpty && (shape b).isEmpty && dimsAgree (fi a) (fi b)
    | .division, [a, b] => WF a && WF b && (shape a).isEmpty && trueScalar b
    | .power, [a, b] => WF a && WF b && trueScalar a && trueScalar b
    | .abs, [a] | .conj, [a] | .real, [a] | .imag, [a] => WF a
    | .indexed, [a, .mi is] =>
      WF a && is.length == (shape a).length && fixedInRange (shape a) is && (indexedFI (fi a) (shape a) is).isSome
    | .indexSum, [a, .mi [.free j]] => WF a && FI.has j (fi a)
    | .componentTensor, [a, .mi is] =>
      WF a && (shape a).isEmpty &&
      (match allFree is with
       | some cs => nodupNat cs && cs.all (fun c => FI.has c (fi a))
       | none => false)
    | .listTensor, a :: as => WF a && WFL as && as.all (fun e => shape e == shape a && fi e == fi a)
    | .conditional, [c, t, f] => WFC c && WF t && WF f && shape t == shape f && fi t == fi f
    | .minValue, [a, b] | .maxValue, [a, b] | .atan2, [a, b] => WF a && WF b && trueScalar a && trueScalar b
    | .variable, [a, .term _] => WF a
    | .positiveRestricted, [a] | .negativeRestricted, [a] => WF a
    | .grad, [a] => (gradChain a).isSome
    | fnk, [a] => (mathName fnk).isSome && WF a && trueScalar a
    | _, _ => false
def WFL : List Expr → Bool
  | [] => true
  | a :: as => WF a && WFL as
/-- conditions -/
def WFC : Expr → Bool
  | .op k _ args =>
    match k, args with
    | .eQ, [a, b] | .nE, [a, b] | .lT, [a, b] | .gT, [a, b] | .lE, [a, b] | .gE, [a, b] =>
      WF a && WF b && trueScalar a && trueScalar b
    | .andCondition, [a, b] | .orCondition, [a, b] => WFC a && WFC b
    | .notCondition, [a] => WFC a
    | _, _ => false
  | _ => false
end

end Expr
end UflVerif
