/-
Counters and construction histories (C12).

* `Ren`: what a different state of the five global counters (Index, Coefficient, Constant, Label counts and the
  Mesh `ufl_id`) does to an object: every count is replaced by another one.  If the same objects are created in
  the same order the replacement is strictly monotone per counter (`Ren.Mono`).
* `CExpr.cmpT`: the skeleton of `cmp_expr` (ufl/sorting.py) over expressions with structured terminals, with the
  comparison of two terminals of one type as a parameter:
    - `termCmpR` = the repr comparators (through `Expr.cmpTerm OrdCfg.byRepr`: `_cmp_terminal_by_repr` compares
      the decimal numerals inside `repr` as strings);  `cmpR a b = Expr.cmpC .byRepr a.toExpr b.toExpr` (proved in Props/C12)
    - `termCmpN` = comparators that read the numbers as numbers (the repair fix_C12_1.diff);
      `cmpN a b = Expr.cmpC .numeric a.toExpr b.toExpr` for sane class names (proved in Props/C12).
  Which of the two the tree under test has is regenerated (Gen/OrderVariant.lean, `Expr.OrdCfg.live`).
* `Prog`/`run`: a construction history — object creations drawing from the counters and constructor calls; the
  constructors that consult the ordering (`Sum`, `Product`) sort their operands with `sort2With`.
Core Lean only.
-/
import UflVerif.Model.Signature

namespace UflVerif

structure Ren where
  idx : Nat → Nat
  coeff : Nat → Nat
  const : Nat → Nat
  label : Nat → Nat
  mesh : Nat → Nat

def Ren.ident : Ren := ⟨fun n => n, fun n => n, fun n => n, fun n => n, fun n => n⟩

def MeshD.rename (σ : Ren) (m : MeshD) : MeshD := { m with id := σ.mesh m.id }
def SpaceD.rename (σ : Ren) (s : SpaceD) : SpaceD := { s with mesh := s.mesh.rename σ }

def CTerm.rename (σ : Ren) : CTerm → CTerm
  | .coeff c sp sh => .coeff (σ.coeff c) (sp.rename σ) sh
  | .arg n p sp sh => .arg n p (sp.rename σ) sh
  | .const c m sh => .const (σ.const c) (m.rename σ) sh
  | .geo c m sh => .geo c (m.rename σ) sh
  | .label c => .label (σ.label c)
  | .plain c k sh => .plain c k sh

def Idx.rename (σ : Ren) : Idx → Idx
  | .free c => .free (σ.idx c)
  | .fixed v => .fixed v

def renFI (σ : Ren) (f : List (Nat × Nat)) : List (Nat × Nat) := f.map fun p => (σ.idx p.1, p.2)

namespace CExpr

mutual
def rename (σ : Ren) : CExpr → CExpr
  | .int v => .int v
  | .real n d => .real n d
  | .cplx a b c d => .cplx a b c d
  | .zero sh f => .zero sh (renFI σ f)
  | .mi is => .mi (is.map (Idx.rename σ))
  | .term t => .term (t.rename σ)
  | .op k aux args => .op k aux (renameL σ args)
def renameL (σ : Ren) : List CExpr → List CExpr
  | [] => []
  | a :: as => rename σ a :: renameL σ as
end

/-! ### `cmp_expr` with the terminal comparison as a parameter -/
mutual
def cmpT (tc : CExpr → CExpr → Ordering) : CExpr → CExpr → Ordering
  | a, b =>
    match compare (typecode a) (typecode b) with
    | .eq =>
      (match a, b with
       | .op _ _ as, .op _ _ bs =>
         (match compare as.length bs.length with
          | .eq => cmpTL tc as bs
          | r => r)
       | _, _ => tc a b)
    | r => r
def cmpTL (tc : CExpr → CExpr → Ordering) : List CExpr → List CExpr → Ordering
  | a :: as, b :: bs => match cmpTL tc as bs with
    | .eq => cmpT tc a b
    | r => r
  | _, _ => .eq
end

/-- the terminal comparators of the tree before fix_C12_1.diff (`OrdCfg.byRepr`) -/
def termCmpR (a b : CExpr) : Ordering := Expr.cmpTerm Expr.OrdCfg.byRepr Expr.cmpMI a.toExpr b.toExpr

/-- `cmp_expr` with the repr comparators -/
def cmpR : CExpr → CExpr → Ordering := cmpT termCmpR

def kindIx : CTerm → Nat
  | .coeff .. => 0 | .arg .. => 1 | .const .. => 2 | .geo .. => 3 | .label _ => 4 | .plain .. => 5

def ctorIx : CExpr → Nat
  | .int _ => 0 | .real _ _ => 1 | .cplx _ _ _ _ => 2 | .zero _ _ => 3 | .mi _ => 4 | .term _ => 5 | .op _ _ _ => 6

open Sig in
/-- numeric comparators: `Constant` by (domain sort key, shape, count), geometric quantities by the domain sort key,
    `Zero` by (shape, index dimensions) — never by a decimal numeral, never by an index count.  The dispatch is by
    typecode, so the mixed cases (last lines) cannot occur; they are given a value that does not look at counters. -/
def termCmpN : CExpr → CExpr → Ordering
  | .mi a, .mi b => Expr.cmpMI a b
  | .term (.coeff c _ _), .term (.coeff c' _ _) => compare c c'
  | .term (.arg n p _ _), .term (.arg n' p' _ _) => thn (compare n n') (compare p p')
  | .term (.label _), .term (.label _) => .eq
  | .term (.const c m sh), .term (.const c' m' sh') => thn (cmpMesh m m') (thn (cmpNats sh sh') (compare c c'))
  | .term (.geo _ m _), .term (.geo _ m' _) => cmpMesh m m'
  | .term (.plain _ k _), .term (.plain _ k' _) => compare k k'
  -- a float literal whose repr is a rounded decimal travels as a counter-free terminal carrying that repr (harness/c12lib.py);
  -- against an exact float literal it is compared by repr, like any two FloatValues
  | .term (.plain _ k _), .real n d => compare k (Expr.reprOf (.real n d))
  | .real n d, .term (.plain _ k _) => compare (Expr.reprOf (.real n d)) k
  | .term a, .term b => compare (kindIx a) (kindIx b)
  | .zero sh f, .zero sh' f' => thn (cmpNats sh sh') (cmpNats (f.map (·.2)) (f'.map (·.2)))
  | .int v, .int w => compare (Expr.reprOf (.int v)) (Expr.reprOf (.int w))
  | .real n d, .real n' d' => compare (Expr.reprOf (.real n d)) (Expr.reprOf (.real n' d'))
  | .cplx a b c d, .cplx a' b' c' d' => compare (Expr.reprOf (.cplx a b c d)) (Expr.reprOf (.cplx a' b' c' d'))
  | a, b => compare (ctorIx a) (ctorIx b)

/-- `cmp_expr` with numeric terminal comparators -/
def cmpN : CExpr → CExpr → Ordering := cmpT termCmpN

/-- `sorted_expr((a, b))` -/
def sort2With (c : CExpr → CExpr → Ordering) (a b : CExpr) : CExpr × CExpr := if c b a = .lt then (b, a) else (a, b)

def isScalarValue : CExpr → Bool
  | .int _ | .real _ _ | .cplx _ _ _ _ => true
  | _ => false

/-- `Sum(a, b)` / `Product(a, b)` past the argument checks and the zero / literal folding (C05): a literal operand
    goes first, otherwise the operands are sorted canonically -/
def mkSorted (c : CExpr → CExpr → Ordering) (k : Op) (a b : CExpr) : CExpr :=
  if isScalarValue a then .op k [] [a, b]
  else if isScalarValue b then .op k [] [b, a]
  else let p := sort2With c a b; .op k [] [p.1, p.2]

end CExpr

def CIntegral.rename (σ : Ren) (i : CIntegral) : CIntegral :=
  { i with integrand := i.integrand.rename σ, mesh := i.mesh.rename σ }

def CForm.rename (σ : Ren) (f : CForm) : CForm := f.map (CIntegral.rename σ)

/-! ## construction histories -/

inductive Slot
  | fixed (v : Nat)
  | reg (r : Nat)          -- the r-th Index object created so far
  deriving Repr, Inhabited

inductive Instr
  | mesh (celem : String) (gdim tdim : Nat)                    -- Mesh(coordinate element): draws a ufl_id
  | index                                                      -- Index(): draws an index count
  | coeff (m : Nat) (elem : String) (shape : List Nat)         -- Coefficient(FunctionSpace(mesh m, elem))
  | const (m : Nat) (shape : List Nat)                         -- Constant(mesh m, shape)
  | geo (cls : String) (m : Nat) (shape : List Nat)            -- a geometric quantity of mesh m
  | arg (number : Nat) (part : Int) (m : Nat) (elem : String) (shape : List Nat)
  | lit (v : Int)
  | flt (n : Int) (d : Nat)
  | plain (cls key : String) (shape : List Nat)                -- Identity(2), ...
  | multiIndex (slots : List Slot)
  | zero (shape : List Nat) (fi : List (Nat × Nat))            -- Zero(shape, (index registers), dims)
  | variable (r : Nat)                                         -- variable(e): draws a label count
  | sum (a b : Nat)
  | product (a b : Nat)
  | node (k : Op) (aux : List Nat) (rs : List Nat)             -- any other constructor (no counters, no ordering)
  deriving Repr, Inhabited

structure BState where
  meshes : List MeshD := []
  idxs : List Nat := []
  nCoeff : Nat := 0
  nConst : Nat := 0
  nLabel : Nat := 0
  exprs : List CExpr := []
  deriving Repr, Inhabited

namespace BState

def push (st : BState) (e : CExpr) : BState := { st with exprs := st.exprs ++ [e] }

def slotIdx (st : BState) : Slot → Option Idx
  | .fixed v => some (.fixed v)
  | .reg r => (st.idxs[r]?).map .free

def ltFst (p q : Nat × Nat) : Bool := p.1 < q.1

/-- one statement; `ν` supplies the counts (the k-th object of a class gets count `ν.class k`); `none` = a register
    that does not exist -/
def step (c : CExpr → CExpr → Ordering) (ν : Ren) (st : BState) : Instr → Option BState
  | .mesh ce g t => some { st with meshes := st.meshes ++ [{ id := ν.mesh st.meshes.length, gdim := g, tdim := t, celem := ce }] }
  | .index => some { st with idxs := st.idxs ++ [ν.idx st.idxs.length] }
  | .coeff m el sh => do
      let md ← st.meshes[m]?
      pure { st.push (.term (.coeff (ν.coeff st.nCoeff) { mesh := md, elem := el } sh)) with nCoeff := st.nCoeff + 1 }
  | .const m sh => do
      let md ← st.meshes[m]?
      pure { st.push (.term (.const (ν.const st.nConst) md sh)) with nConst := st.nConst + 1 }
  | .geo cl m sh => do
      let md ← st.meshes[m]?
      pure (st.push (.term (.geo cl md sh)))
  | .arg n p m el sh => do
      let md ← st.meshes[m]?
      pure (st.push (.term (.arg n p { mesh := md, elem := el } sh)))
  | .lit v => some (st.push (.int v))
  | .flt n d => some (st.push (.real n d))
  | .plain cl k sh => some (st.push (.term (.plain cl k sh)))
  | .multiIndex slots => do
      let is ← slots.mapM st.slotIdx
      pure (st.push (.mi is))
  | .zero sh f => do
      let ps ← f.mapM (fun p => (st.idxs[p.1]?).map (fun c => (c, p.2)))
      pure (st.push (.zero sh (L.sortS ltFst ps)))
  | .variable r => do
      let e ← st.exprs[r]?
      pure { st.push (.op .variable [] [e, .term (.label (ν.label st.nLabel))]) with nLabel := st.nLabel + 1 }
  | .sum a b => do
      let x ← st.exprs[a]?
      let y ← st.exprs[b]?
      pure (st.push (CExpr.mkSorted c .sum x y))
  | .product a b => do
      let x ← st.exprs[a]?
      let y ← st.exprs[b]?
      pure (st.push (CExpr.mkSorted c .product x y))
  | .node k aux rs => do
      let xs ← rs.mapM (fun r => st.exprs[r]?)
      pure (st.push (.op k aux xs))

def run (c : CExpr → CExpr → Ordering) (ν : Ren) : List Instr → BState → Option BState
  | [], st => some st
  | i :: is, st => match step c ν st i with
    | some st' => run c ν is st'
    | none => none

def rename (σ : Ren) (st : BState) : BState :=
  { st with meshes := st.meshes.map (MeshD.rename σ), idxs := st.idxs.map σ.idx, exprs := CExpr.renameL σ st.exprs }

end BState

/-- which registers become the integrals of the form -/
structure IntegralSpec where
  expr : Nat
  itype : String
  mesh : Nat
  sub : SubId
  metadata : FormModel.Canon
  deriving Repr, Inhabited

def BState.form (st : BState) (spec : List IntegralSpec) : Option CForm :=
  spec.mapM fun s => do
    let e ← st.exprs[s.expr]?
    let m ← st.meshes[s.mesh]?
    pure { integrand := e, itype := s.itype, mesh := m, sub := s.sub, metadata := s.metadata }

/-- build the form of a history under the counter supply `ν` -/
def buildForm (c : CExpr → CExpr → Ordering) (ν : Ren) (prog : List Instr) (spec : List IntegralSpec) : Option CForm :=
  (BState.run c ν prog {}).bind (·.form spec)

end UflVerif
