/-
Model of ufl/algorithms/formsplitter.py: `FormSplitter` (handlers `argument`, `indexed`,
`multi_index`, `restricted`, `expr = reuse_if_untouched`), `FormSplitter.split`
(= `map_integrand_dags`: map every integrand, drop the integrals whose integrand became `Zero`)
and the loops of `extract_blocks`.  Core Lean only; `none` = the Python raises.

Everything the handlers build goes through one constructor layer `rb k aux operands`
(`type(o)(*operands)` with the simplifications of the class):
  * `rebuild22` is the model of the real constructors (Construct.lean + the zero rules of the
    compound tensor / derivative classes) and is what the correspondence compares with /repo;
  * `plainRb` builds the node as it stands; the value theorems (Props/C22.lean) are stated for it
    (that the constructors do not change values is C05).
A minimal model of forms: an integral is an integrand plus an opaque key (integral type, domain,
subdomain id, metadata, subdomain data), a form is the list of its integrals in `Form.integrals()`
order.
-/
import UflVerif.Model.Replace
import UflVerif.Model.Rb

namespace UflVerif
namespace Expr

/-- one sub-element of a mixed element, as `FormSplitter.argument` sees it: the repr of
    `Argument(FunctionSpace(dom, sub_elem), number, part)` and its `ufl_shape` -/
structure SubArg where
  key : String
  shape : List Nat
  deriving Repr, Inhabited, DecidableEq

structure SplitCfg where
  /-- `FormSplitter.replace_argument` -/
  replaceArg : Bool
  /-- `self.idx = [ix, iy]` -/
  idx : List (Option Nat)
  /-- arguments on a `MixedElement` space: key ↦ sub-arguments (an argument that is not listed has no
      sub-elements) -/
  subs : List (String × List SubArg)
  /-- keys of the terminals `t` with `t.is_cellwise_constant()` -/
  cellConst : List String
  deriving Repr, Inhabited

def SplitCfg.subsOf (cfg : SplitCfg) (key : String) : List SubArg :=
  match cfg.subs.find? (fun p => p.1 == key) with
  | some p => p.2
  | none => []

/-- `np.ndindex(shape)`: all multi-indices in row-major order -/
def ndindex : List Nat → List (List Nat)
  | [] => [[]]
  | n :: rest => (List.range n).flatMap (fun i => (ndindex rest).map (i :: ·))

def prodL (l : List Nat) : Nat := l.foldl (· * ·) 1



/-- the scalar `Zero()` -/
def zeroS : Expr := .zero [] []

/-- the entries contributed by sub-element `sub` (whose flattened components start at `counter`) -/
def subEntries (replaceArg : Bool) (d : TermData) (sub : SubArg) (counter : Nat) (selected : Bool) : List Expr :=
  let js := ndindex sub.shape
  if !selected then js.map (fun _ => zeroS)
  else if replaceArg then
    let a : Expr := .term { cls := "Argument", key := sub.key, shape := sub.shape, count := d.count, part := d.part }
    js.map (fun j => if j.isEmpty then a else .op .indexed [] [a, .mi (j.map .fixed)])
  else
    (List.range js.length).map (fun q => .op .indexed [] [.term d, .mi [.fixed (counter + q)]])

/-- the loop over the sub-elements in `FormSplitter.argument` -/
def argEntries (replaceArg : Bool) (d : TermData) (sel : Option Nat) : List SubArg → Nat → Nat → List Expr
  | [], _, _ => []
  | sub :: rest, i, counter =>
    subEntries replaceArg d sub counter (sel == some i) ++
      argEntries replaceArg d sel rest (i + 1) (counter + prodL sub.shape)

/-- `FormSplitter.argument` -/
def splitArg (rb : Rb) (cfg : SplitCfg) (d : TermData) : Option Expr :=
  match (if d.count < 0 then none else cfg.idx[d.count.toNat]?) with
  | none => if d.part ≠ -1 || !(cfg.subsOf d.key).isEmpty then none else some (.term d)   -- `self.idx[obj.number()]`: IndexError
  | some sel =>
    if d.part ≠ -1 then
      -- argument of a MixedFunctionSpace: kept iff its part is the requested block
      (match sel with
       | none => some (.zero d.shape [])
       | some p => if d.part = (p : Int) then some (.term d) else some (.zero d.shape []))
    else
      match cfg.subsOf d.key with
      | [] => some (.term d)
      | subs => rb .listTensor [] (argEntries cfg.replaceArg d sel subs 0 0)

def fixedAll : List Idx → Option (List Nat)
  | [] => some []
  | .fixed v :: is => (fixedAll is).map (v :: ·)
  | .free _ :: _ => none

def getAll (xs : List Expr) : List Nat → Option (List Expr)
  | [] => some []
  | v :: vs => match xs[v]?, getAll xs vs with
    | some x, some r => some (x :: r)
    | _, _ => none

/-- `child[multiindex]` for a list tensor and fixed indices (`ListTensor.__getitem__`: one list level per
    index, then `Expr.__getitem__` on what is left) -/
def ltGet (rb : Rb) : Expr → List Nat → Option Expr
  | e, [] => some e
  | .op .listTensor _ xs, v :: vs =>
    (match xs[v]? with
     | some sub => ltGet rb sub vs
     | none => none)
  | e, v :: vs => rb .indexed [] [e, .mi ((v :: vs).map .fixed)]

/-- `FormSplitter.indexed(o, child, multiindex)`; `a` is the operand of `o`, `a'` the processed child.
    `fx = false`: the code as it stands; `fx = true`: with the repair proposed in fix_C22_2.diff
    (`return child[multiindex]`). -/
def fsIndexed (fx : Bool) (rb : Rb) (aux : List Nat) (a a' : Expr) (is : List Idx) : Option Expr :=
  match a', fixedAll is with
  | .op .listTensor x xs, some vs =>
    if fx then ltGet rb (.op .listTensor x xs) vs
    else
    (match vs with
     | [v] => xs[v]?                                           -- `child[indices[0]]`
     | _ =>
       if vs.length == xs.length && vs == List.range xs.length then some a'   -- `return child`
       else match getAll xs vs with                             -- `ListTensor(*(child[i] for i in indices))`
         | some rows => rb .listTensor [] rows
         | none => none)
  | _, _ => if beq a' a then some (.op .indexed aux [a, .mi is]) else rb .indexed aux [a', .mi is]

/-- the handler of a node whose operands have been processed (`restricted` processes its operand itself,
    by a nested `map_expr_dag`) -/
def fsNodeG (fx : Bool) (rb : Rb) (k : Op) (aux : List Nat) (args args' : List Expr) : Option Expr :=
  match k, args, args' with
  | .positiveRestricted, [_], [a'] | .negativeRestricted, [_], [a'] =>
    if isZero a' then some a' else rb k aux [a']                -- `op_split(o._side)`
  | .indexed, [a, .mi is], [a', _] => fsIndexed fx rb aux a a' is
  | _, _, _ =>
    if beqL args' args then some (.op k aux args)              -- reuse_if_untouched
    else rb k aux args'

mutual
/-- `map_expr_dag(FormSplitter, e)` -/
def fsG (fx : Bool) (rb : Rb) (cfg : SplitCfg) : Expr → Option Expr
  | .term d => if d.cls == "Argument" then splitArg rb cfg d else some (.term d)
  | .op k aux args =>
    match fsGL fx rb cfg args with
    | none => none
    | some args' => fsNodeG fx rb k aux args args'
  | e => some e
def fsGL (fx : Bool) (rb : Rb) (cfg : SplitCfg) : List Expr → Option (List Expr)
  | [] => some []
  | a :: as => match fsG fx rb cfg a, fsGL fx rb cfg as with
    | some x, some xs => some (x :: xs)
    | _, _ => none
end

/-! ### the real constructor layer -/

mutual
/-- `is_cellwise_constant(e)`: every terminal is cellwise constant -/
def cellConstE (cc : List String) : Expr → Bool
  | .term d => d.cls == "Label" || cc.contains d.key
  | .op _ _ args => cellConstL cc args
  | _ => true
def cellConstL (cc : List String) : List Expr → Bool
  | [] => true
  | a :: as => cellConstE cc a && cellConstL cc as
end


/-- `type(o)(*operands)` / `o._ufl_expr_reconstruct_(*operands)` for the classes the splitter meets -/
def rebuild22 (cc : List String) : Rb := fun k aux args =>
  match k, args with
  | .sum, [_, _] | .product, [_, _] | .division, [_, _] | .power, [_, _] | .abs, [_] | .conj, [_] | .real, [_] | .imag, [_]
  | .indexed, [_, .mi _] | .indexSum, [_, .mi [.free _]] | .componentTensor, [_, .mi _] | .listTensor, _
  | .conditional, [_, _, _] | .minValue, [_, _] | .maxValue, [_, _]
  | .eQ, [_, _] | .nE, [_, _] | .lT, [_, _] | .gT, [_, _] | .lE, [_, _] | .gE, [_, _]
  | .andCondition, [_, _] | .orCondition, [_, _] | .notCondition, [_] => rebuild k aux args
  | .variable, [_, _] => some (.op k aux args)
  | .positiveRestricted, [a] | .negativeRestricted, [a] => if isConstantValue a then some a else some (.op k aux [a])
  | .grad, [a] => if cellConstE cc a then some (.zero (shape a ++ aux) (fi a)) else some (.op k aux [a])
  | .nablaGrad, [a] => if cellConstE cc a then some (.zero (aux ++ shape a) (fi a)) else some (.op k aux [a])
  | .div, [a] =>
    if !(fi a).isEmpty then none
    else if cellConstE cc a then some (.zero (shape a).dropLast []) else some (.op k aux [a])
  | .nablaDiv, [a] =>
    if !(fi a).isEmpty then none
    else if cellConstE cc a then some (.zero (shape a).tail []) else some (.op k aux [a])
  | .inner, [a, b] =>
    if shape a ≠ shape b then none
    else if isZero a || isZero b then some (.zero [] (FI.merge (fi a) (fi b)))
    else if (shape a).isEmpty then some unsupported            -- `a * Conj(b)`: not reachable from an existing Inner node
    else
      let p := sort2 a b
      if beq p.1 a && beq p.2 b then some (.op .inner [] [a, b])
      else mkConj (.op .inner [] [b, a])
  | .dot, [a, b] =>
    let sa := shape a; let sb := shape b
    let scalar := sa.isEmpty && sb.isEmpty
    if !((!sa.isEmpty && !sb.isEmpty) || scalar) then none
    else if !(scalar || sa.getLast? == sb.head?) then none
    else if isZero a || isZero b then some (.zero (sa.dropLast ++ sb.tail) (FI.merge (fi a) (fi b)))
    else if scalar then some unsupported
    else some (.op .dot (sa.dropLast ++ sb.tail) [a, b])
  | .outer, [a, b] =>
    if isZero a || isZero b then some (.zero (shape a ++ shape b) (FI.merge (fi a) (fi b)))
    else if (shape a).isEmpty || (shape b).isEmpty then some unsupported
    else some (.op .outer (shape a ++ shape b) [a, b])
  | .transposed, [a] =>
    (match a, shape a with
     | .zero _ f, [m, n] => some (.zero [n, m] f)
     | _, [m, n] => some (.op .transposed [n, m] [a])
     | _, _ => none)
  | .trace, [a] =>
    (match a with
     | .zero _ f => if (shape a).length == 2 then some (.zero [] f) else none
     | _ => if (shape a).length == 2 then some (.op .trace [] [a]) else none)
  | .sym, [a] | .skew, [a] | .deviatoric, [a] =>
    (match a with
     | .zero sh f => some (.zero sh f)
     | _ => some (.op k (shape a) [a]))
  | _, _ => some unsupported

/-- a constructor layer that propagates the `unsupported` marker of the model -/
def guardU (rb : Rb) : Rb := fun k aux args => if args.any isUnsupported then some unsupported else rb k aux args

/-! ### forms -/

structure Integral where
  /-- everything but the integrand: integral type, domain, subdomain id, metadata, subdomain data -/
  key : String
  integrand : Expr
  deriving Inhabited

abbrev Form := List Integral

/-- `map_integrands`: map every integrand, drop the integrals whose integrand became a `Zero` -/
def mapIntegrands (f : Expr → Option Expr) : Form → Option Form
  | [] => some []
  | I :: rest =>
    match f I.integrand, mapIntegrands f rest with
    | some e, some r => if isZero e then some r else some ({ I with integrand := e } :: r)
    | _, _ => none

def Form.isUnsupported (F : Form) : Bool := F.any (fun I => Expr.isUnsupported I.integrand)

/-- `FormSplitter.split(form, ix, iy)` -/
def splitFormFS (fx : Bool) (rb : Rb) (cfg : SplitCfg) (ix iy : Option Nat) (F : Form) : Option Form :=
  mapIntegrands (fsG fx rb { cfg with idx := [ix, iy] }) F

mutual
/-- the `Argument` terminals of an expression, in pre-order -/
def argTerms : Expr → List TermData
  | .term d => if d.cls == "Argument" then [d] else []
  | .op _ _ args => argTermsL args
  | _ => []
def argTermsL : List Expr → List TermData
  | [] => []
  | a :: as => argTerms a ++ argTermsL as
end

def dedupKeysFS : List TermData → List TermData
  | [] => []
  | d :: ds => d :: (dedupKeysFS ds).filter (fun x => x.key != d.key)

/-- insertion into a list sorted by argument number (stable) -/
def insertByNumber (d : TermData) : List TermData → List TermData
  | [] => [d]
  | x :: xs => if d.count ≤ x.count then d :: x :: xs else x :: insertByNumber d xs

/-- `form.arguments()`: the distinct arguments sorted by number (arguments with the same number keep an
    unspecified order in Python: a set is sorted by number only; the model keeps first-occurrence order) -/
def Form.arguments (F : Form) : List TermData :=
  (dedupKeysFS (F.flatMap (fun I => argTerms I.integrand))).foldr insertByNumber []

def dedupNat : List Nat → List Nat
  | [] => []
  | x :: xs => x :: (dedupNat xs).filter (· != x)

/-- the result of `extract_blocks`: a form, `None`, or a tuple of results -/
inductive Blocks
  | form (f : Form)
  | none
  | tup (xs : List Blocks)
  deriving Inhabited

def blockOf (F : Form) : Blocks := if F.isEmpty then .none else .form F

/-- `[f s, f (s+1), .., f (s+k-1)]`; `none` if any entry raises -/
def tabulateFrom (f : Nat → Option Blocks) : Nat → Nat → Option (List Blocks)
  | _, 0 => some []
  | s, k + 1 => match f s, tabulateFrom f (s + 1) k with
    | some b, some r => some (b :: r)
    | _, _ => none

/-- `[f 0, .., f (n-1)]` -/
def tabulate (n : Nat) (f : Nat → Option Blocks) : Option (List Blocks) := tabulateFrom f 0 n

/-- `len(set(a.number() for a in form.arguments()))` -/
def Form.arity (F : Form) : Nat := (dedupNat (F.arguments.map (fun d => d.count.toNat))).length

/-- the parts of the arguments of a `MixedFunctionSpace` -/
def Form.parts (F : Form) : List Nat := dedupNat ((F.arguments.filter (fun d => d.part ≠ -1)).map (fun d => d.part.toNat))

/-- `extract_blocks(form, i, j, arity, replace_argument)`.
    `fxB = false`: the code as it stands; `fxB = true`: with the repair proposed in fix_C22_1.diff (the
    all-blocks call on `MixedElement` spaces looks at the arity and at the number of sub-elements of each
    argument).  `fx` selects the variant of `FormSplitter.indexed`. -/
def extractBlocks (fxB fx : Bool) (rb : Rb) (cfg : SplitCfg) (F : Form) (i j : Option Nat) (arity : Option Nat) : Option Blocks :=
  if i.isNone && j.isSome then none
  else
    let arguments := F.arguments
    let ar := match arity with
      | some a => a
      | none => F.arity
    if ar > 2 then none
    else if ar == 0 then some (.tup [.form F])
    else
      let parts := F.parts
      if parts.isEmpty then
        if i.isNone && j.isNone then
          if fxB then
            let nums := arguments.map (fun a => (cfg.subsOf a.key).length)
            if nums.all (· == 0) then some (.form F)
            else
              let nb := nums.map (fun n => max n 1)
              match nb[0]? with
              | none => none
              | some n0 =>
                if ar == 1 then
                  (tabulate n0 (fun pi => (splitFormFS fx rb cfg (some pi) none F).map blockOf)).map .tup
                else match nb[1]? with
                  | none => none                                  -- `num_blocks[1]`: IndexError
                  | some n1 =>
                    (tabulate n0 (fun pi => (tabulate n1 (fun pj =>
                      (splitFormFS fx rb cfg (some pi) (some pj) F).map blockOf)).map .tup)).map .tup
          else
          match arguments.head? with
          | none => none                                        -- `arguments[0]`: IndexError
          | some a0 =>
            let n := (cfg.subsOf a0.key).length                 -- `arguments[0].ufl_element().num_sub_elements`
            if n == 0 then some (.form F)
            else
              (tabulate n (fun pi => (tabulate n (fun pj =>
                (splitFormFS fx rb cfg (some pi) (some pj) F).map blockOf)).map .tup)).map .tup
        else (splitFormFS fx rb cfg i j F).map .form
      else
        let numParts := parts.foldl max 0 + 1
        let entry (f : Form) (want : Nat) : Blocks :=
          if f.isEmpty || f.arguments.length != want then .none else .form f
        let forms : Option (List Blocks) :=
          if ar == 2 then
            tabulate numParts (fun pi => (tabulate numParts (fun pj =>
              (splitFormFS fx rb cfg (some pi) (some pj) F).map (fun f => entry f 2))).map .tup)
          else
            tabulate numParts (fun pi => (splitFormFS fx rb cfg (some pi) none F).map (fun f => entry f 1))
        match forms with
        | none => none
        | some fs =>
          match i with
          | some iv =>
            (match fs[iv]? with
             | none => none                                     -- "Cannot extract block i from form with n blocks"
             | some row =>
               if ar == 2 then
                 (match j, row with
                  | some jv, .tup cols => cols[jv]?             -- none: "Cannot extract block i,j"
                  | _, _ => some row)
               else some row)
          | none => some (.tup fs)

end Expr
end UflVerif
