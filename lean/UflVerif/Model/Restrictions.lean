/-
Model of ufl/algorithms/apply_restrictions.py (`RestrictionPropagator`, `apply_restrictions`) and of
the part of ufl/restriction.py it uses (`Restricted.__new__`: a restricted ConstantValue is the
ConstantValue itself).  Executable, core Lean only.

Which rule a node gets is NOT written here: it is read from `Gen/Restrictions.lean`, the table
regenerated on every run from the handler table the class itself computed.  What is hand-modelled is
the body of each rule:
  `_ignore_restriction`, `_require_restriction`, `_default_restricted`, `_opposite`, `_missing_rule`,
  `coefficient`, `facet_normal`, `reference_value`, `variable`, `restricted`, `reuse_if_untouched`.

`applyE cfg rb cur e`:  `cur` = `current_restriction` (`Side.none` = None);  `none` = the Python raises.
`rb` is the node reconstruction used by `reuse_if_untouched`:
  `implRb`  = `o._ufl_expr_reconstruct_(*ops)` through the modelled class constructors (what the code
              does; compared tree-for-tree with the implementation on every run),
  `plainRb` = the same node on the new operands without constructor simplifications (the function the
              value theorems speak about; that the constructors preserve values is C05).
-/
import UflVerif.Gen.Restrictions
import UflVerif.Model.Replace
import UflVerif.Model.Eval

namespace UflVerif.Restr
open UflVerif Expr

/-- the rules of `RestrictionPropagator`, by the name of the function the handler table resolves to -/
inductive Rule
  | ignore | require | default | opposite | missing
  | coefficient | facetNormal | referenceValue | variable | restricted | reuse
  | cellOperator      -- `_require_restriction_of_cell_operator` of the proposed repair fix_C17_1.diff (not in the shipped table)
  | unknown
  deriving DecidableEq, Repr, Inhabited

def Rule.ofName : String → Rule        -- most frequent names first (the kernel evaluates this on every row of the table)
  | "reuse_if_untouched" => .reuse
  | "_require_restriction" => .require
  | "_missing_rule" => .missing
  | "_ignore_restriction" => .ignore
  | "_default_restricted" => .default
  | "restricted" => .restricted
  | "_opposite" => .opposite
  | "coefficient" => .coefficient
  | "facet_normal" => .facetNormal
  | "reference_value" => .referenceValue
  | "variable" => .variable
  | "_require_restriction_of_cell_operator" => .cellOperator
  | _ => .unknown

/-- the regenerated table: class name ↦ rule (`unknown` for a class that is not registered) -/
def genRule (cls : String) : Rule :=
  match Gen.Restrictions.ruleTable.find? (fun r => r.1 == cls) with
  | some r => Rule.ofName r.2.1
  | none => .unknown

/-- what the rules read from a terminal besides its class -/
structure TInfo where
  /-- `extract_unique_domain(o)`: the mesh (numbered by the harness), `none` if the terminal has no domain -/
  dom : Option Nat := none
  /-- `o.ufl_element() in H1` (Coefficient) -/
  h1 : Bool := false
  /-- coordinate element of the domain: `embedded_superdegree`, `in H1`; geometric and topological dimension -/
  cdeg : Nat := 1
  ch1 : Bool := true
  gdim : Nat := 2
  tdim : Nat := 2
  /-- count of the Index object `-o(r)` creates for this terminal (one per distinct node: the DAG traversal caches) -/
  fresh : Nat := 0
  deriving Repr, Inhabited

structure Cfg where
  /-- class name ↦ rule -/
  rule : String → Rule
  /-- `default_restrictions`: `none` = None ("just propagate"), else mesh ↦ '+' / '-' / None -/
  dr : Option (List (Nat × Side))
  /-- terminal key ↦ data -/
  info : String → TInfo

def clsName : Expr → String
  | .int _ => "IntValue"
  | .real _ _ => "FloatValue"
  | .cplx _ _ _ _ => "ComplexValue"
  | .zero _ _ => "Zero"
  | .mi _ => "MultiIndex"
  | .term d => d.cls
  | .op k _ _ => k.name

/-! ### restriction.py -/

/-- `isinstance(e, ConstantValue)` -/
def isConstantValue : Expr → Bool
  | .int _ | .real _ _ | .cplx _ _ _ _ | .zero _ _ => true
  | .term d => d.cls == "Identity" || d.cls == "PermutationSymbol"
  | _ => false

/-- `o(side)`: `PositiveRestricted(o)` / `NegativeRestricted(o)`; a ConstantValue is returned as it is -/
def restrict (s : Side) (o : Expr) : Expr :=
  match s with
  | .plus => if isConstantValue o then o else .op .positiveRestricted [] [o]
  | .minus => if isConstantValue o then o else .op .negativeRestricted [] [o]
  | .none => o

/-- `isinstance(g, Restricted)` and its side -/
def restrictedSide : Expr → Side
  | .op .positiveRestricted _ _ => .plus
  | .op .negativeRestricted _ _ => .minus
  | _ => .none

/-- `-x` = `-1 * x` (`_mult`): scalar product, or the product applied to the components under fresh indices -/
def negE (fresh : Nat) (x : Expr) : Expr :=
  match shape x with
  | [] => .op .product [] [.int (-1), x]
  | sh =>
    let ti := (List.range sh.length).map (fun j => Idx.free (fresh + j))
    .op .componentTensor [] [.op .product [] [.int (-1), .op .indexed [] [x, .mi ti]], .mi ti]

/-! ### domains -/

mutual
def doms (info : String → TInfo) : Expr → List Nat
  | .term d => match (info d.key).dom with | some m => [m] | none => []
  | .op _ _ args => domsL info args
  | _ => []
def domsL (info : String → TInfo) : List Expr → List Nat
  | [] => []
  | a :: as => doms info a ++ domsL info as
end

/-- `extract_unique_domain`: the single domain; `none` when there are several (raises) or none at
    all (returns None, which is then not a key of `default_restrictions`: raises) -/
def uniqueDomain (info : String → TInfo) (o : Expr) : Option Nat :=
  match doms info o with
  | [] => none
  | m :: rest => if rest.all (· == m) then some m else none

/-- `_extract_and_check_domain` followed by `self.default_restrictions[domain]` -/
def defaultOf (cfg : Cfg) (table : List (Nat × Side)) (o : Expr) : Option Side :=
  match uniqueDomain cfg.info o with
  | none => none
  | some m => (table.find? (fun p => p.1 == m)).map (·.2)

/-! ### the reusable rules -/

def requireRule (cfg : Cfg) (cur : Side) (o : Expr) : Option Expr :=
  match cfg.dr with
  | none => some (restrict cur o)
  | some table =>
    match defaultOf cfg table o with
    | none => none
    | some r =>
      if cur = .none then (if r = .none then some o else none)      -- "Discontinuous type ... must be restricted."
      else (if r = .none then none else some (restrict cur o))       -- "Inconsistent restrictions"

def defaultRule (cfg : Cfg) (cur : Side) (o : Expr) : Option Expr :=
  match cfg.dr with
  | none => some (restrict cur o)
  | some table =>
    match defaultOf cfg table o with
    | none => none
    | some r =>
      if cur = .none then some (restrict r o)
      else (if r = .none then none else some (restrict cur o))

def oppositeRule (cfg : Cfg) (cur : Side) (fresh : Nat) (o : Expr) : Option Expr :=
  match cfg.dr with
  | none => some (restrict cur o)
  | some table =>
    match defaultOf cfg table o with
    | none => none
    | some r =>
      if cur = .none then (if r = .none then some o else none)
      else if r = .none then none
      else if cur = r then some (restrict r o)
      else some (negE fresh (restrict r o))

/-- `_require_restriction_of_cell_operator` (proposed repair): outside a restriction, with default
    restrictions given, an operator evaluated on a cell of a two-sided domain is refused (the Python
    reports it after the traversal; acceptance is what is modelled) -/
def cellRejects (cfg : Cfg) (cur : Side) (o : Expr) : Bool :=
  match cfg.dr with
  | none => false
  | some table =>
    if cur = .none then
      (match defaultOf cfg table o with
       | none => true
       | some r => r != .none)
    else false

/-- a rule that looks at the node only (handler signature `(self, o)`: operands are not visited) -/
def nodeRule (cfg : Cfg) (cur : Side) (r : Rule) (fresh : Nat) (o : Expr) : Option Expr :=
  match r with
  | .ignore => some o
  | .require => requireRule cfg cur o
  | .default => defaultRule cfg cur o
  | .opposite => oppositeRule cfg cur fresh o
  | _ => none

/-- rules for terminals -/
def termRule (cfg : Cfg) (cur : Side) (d : TermData) : Option Expr :=
  let i := cfg.info d.key
  match cfg.rule d.cls with
  | .coefficient => if i.h1 then defaultRule cfg cur (.term d) else requireRule cfg cur (.term d)
  | .facetNormal =>
    if i.cdeg ≤ 1 && i.ch1 && i.gdim == i.tdim then oppositeRule cfg cur i.fresh (.term d)
    else requireRule cfg cur (.term d)
  | .reuse => some (.term d)
  | r => nodeRule cfg cur r i.fresh (.term d)

/-! ### reconstruction of a node on new operands -/

/-- (class, aux, old operands, new operands) ↦ node -/
abbrev Rebuild := Op → List Nat → List Expr → List Expr → Option Expr

def plainRb : Rebuild := fun k aux _ new => some (.op k aux new)

def isLiteralOrZero : Expr → Bool
  | .int _ | .real _ _ | .cplx _ _ _ _ | .zero _ _ => true
  | _ => false

/-- classes whose constructor is modelled in `Expr.rebuild` -/
def constructorModelled : Op → Bool
  | .sum | .product | .division | .power | .abs | .conj | .real | .imag | .indexed | .indexSum
  | .componentTensor | .listTensor | .conditional | .minValue | .maxValue | .eQ | .nE | .lT | .gT | .lE | .gE
  | .andCondition | .orCondition | .notCondition => true
  | _ => false

/-- `reuse_if_untouched`: the node itself when no operand changed, else `_ufl_expr_reconstruct_`.
    Constructors that are not modelled fold literal / zero operands (math functions, compound
    operators): such cases are marked `unsupported` and skipped by the correspondence. -/
def implRb : Rebuild := fun k aux old new =>
  if new.any isUnsupported then some unsupported
  else if beqL new old then some (.op k aux old)
  else if !constructorModelled k && new.any isLiteralOrZero then some unsupported
  else rebuild k aux new

/-! ### the propagator -/

mutual
def applyE (cfg : Cfg) (rb : Rebuild) (cur : Side) : Expr → Option Expr
  | .term d => termRule cfg cur d
  | .op k aux args =>
    match cfg.rule k.name with
    | .restricted =>
      (match args with
       | [a] =>
         if cur = .none then                                       -- else "Cannot restrict an expression twice."
           (match k with
            | .positiveRestricted => applyE cfg rb .plus a
            | .negativeRestricted => applyE cfg rb .minus a
            | _ => none)
         else none
       | _ => none)
    | .variable =>
      (match args with
       | [a, l] =>
         (match applyE cfg rb cur a, applyE cfg rb cur l with
          | some a', some _ => some a'
          | _, _ => none)
       | _ => none)
    | .referenceValue =>
      (match args with
       | [.term d] =>
         (match termRule cfg cur d with
          | some g => some (restrict (restrictedSide g) (.op k aux [.term d]))
          | none => none)
       | _ => none)
    | .reuse =>
      (match applyL cfg rb cur args with
       | some args' => rb k aux args args'
       | none => none)
    | .cellOperator =>
      if cellRejects cfg cur (.op k aux args) then none
      else
        (match applyL cfg rb cur args with
         | some args' => rb k aux args args'
         | none => none)
    | .ignore => some (.op k aux args)
    | .require => requireRule cfg cur (.op k aux args)
    | .default => defaultRule cfg cur (.op k aux args)
    | .opposite => oppositeRule cfg cur 0 (.op k aux args)
    | _ => none
  | e => nodeRule cfg cur (cfg.rule (clsName e)) 0 e
def applyL (cfg : Cfg) (rb : Rebuild) (cur : Side) : List Expr → Option (List Expr)
  | [] => some []
  | a :: as =>
    match applyE cfg rb cur a, applyL cfg rb cur as with
    | some x, some xs => some (x :: xs)
    | _, _ => none
end

/-- `apply_restrictions(expression, default_restrictions)` as the code computes it -/
def applyRestrictions (cfg : Cfg) (e : Expr) : Option Expr := applyE cfg implRb .none e

/-- restriction propagation without constructor simplifications -/
def propagate (cfg : Cfg) (e : Expr) : Option Expr := applyE cfg plainRb .none e

end UflVerif.Restr
