/-
Specification side of C08: finite elements as trees (pull-back kind, reference value shape,
sub-elements, symmetry map) and the push-forward each kind *declares*, written directly on
values: for a reference value `r`, Jacobian `J` (gdim × tdim), its (pseudo-)inverse `Kinv`
(tdim × gdim) and `detJ`,
  identity            g = r
  contravariant Piola g_i  = (1/detJ) Σ_j J_ij r_j
  covariant Piola     g_i  = Σ_j K_ji r_j
  L2 Piola            g    = r / detJ
  double contrav.     g_ij = (1/detJ)² Σ_mn J_im r_mn J_jn
  double covariant    g_ij = Σ_mn K_mi r_mn K_nj
  co-contravariant    g_ij = (1/detJ) Σ_mn K_mi r_mn J_jn
(each row-wise over leading axes), mixed = concatenation of the flattened sub-element
push-forwards, symmetric = block (i,j) is the push-forward of sub-element sym(i,j).
Core Lean only.
-/
import UflVerif.Model.Eval

namespace UflVerif
namespace Pullback

inductive PB
  | identity | contra | co | l2 | dcontra | dco | coco | mixed | symmetric | physical | custom
  deriving DecidableEq, Repr, Inhabited

inductive Elem
  | mk (pb : PB) (refShape : List Nat) (subs : List Elem) (sym : List (List Nat × Nat))
  deriving Repr, Inhabited

def Elem.pb : Elem → PB | .mk p _ _ _ => p
def Elem.refShape : Elem → List Nat | .mk _ r _ _ => r
def Elem.subs : Elem → List Elem | .mk _ _ s _ => s
def Elem.sym : Elem → List (List Nat × Nat) | .mk _ _ _ s => s

def prod (l : List Nat) : Nat := l.foldl (· * ·) 1

/-- row-major flat index of a component -/
def flat : List Nat → List Nat → Nat
  | _ :: sh, i :: c => i * prod sh + flat sh c
  | _, _ => 0

/-- component of a flat index -/
def unflat : List Nat → Nat → List Nat
  | [], _ => []
  | _ :: sh, n => (n / prod sh) :: unflat sh (n % prod sh)

def lexLt : List Nat → List Nat → Bool
  | [], [] => false
  | [], _ => true
  | _, [] => false
  | a :: as, b :: bs => decide (a < b) || (a == b && lexLt as bs)

/-- `tuple(i + 1 for i in max(symmetry.keys()))`: the lexicographically largest key, plus one per axis -/
def blockShape (sym : List (List Nat × Nat)) : List Nat :=
  ((sym.map (·.1)).foldl (fun m c => if lexLt m c then c else m) []).map (· + 1)

mutual
/-- `physical_value_shape` -/
def physShape (gdim : Nat) : Elem → List Nat
  | .mk pb r subs sym =>
    match pb with
    | .contra | .co => r.dropLast ++ [gdim]
    | .dcontra | .dco | .coco => r.dropLast.dropLast ++ [gdim, gdim]
    | .mixed => [physSizeL gdim subs]
    | .symmetric => blockShape sym ++ (match subs with | s :: _ => physShape gdim s | [] => [])
    | _ => r
def physSizeL (gdim : Nat) : List Elem → Nat
  | [] => 0
  | s :: ss => prod (physShape gdim s) + physSizeL gdim ss
end

def refSize (e : Elem) : Nat := prod e.refShape

structure Geo (K : Type) where
  J : Nat → Nat → K        -- gdim × tdim
  Kinv : Nat → Nat → K     -- tdim × gdim
  detJ : K
  tdim : Nat
  gdim : Nat

variable {K : Type} [Add K] [Mul K] [Div K] [Zero K] [One K]

def lookupSym (sym : List (List Nat × Nat)) (blk : List Nat) : Nat :=
  match sym.find? (fun p => p.1 == blk) with
  | some p => p.2
  | none => 0

mutual
/-- the declared push-forward: reference value ↦ physical value, by components -/
def push (g : Geo K) : Elem → (List Nat → K) → List Nat → K
  | .mk pb r subs sym, rv, c =>
    match pb with
    | .contra =>
      let k := c.dropLast; let i := c.getLastD 0
      sumRange g.tdim fun j => (1 / g.detJ) * g.J i j * rv (k ++ [j])
    | .co =>
      let k := c.dropLast; let i := c.getLastD 0
      sumRange g.tdim fun j => g.Kinv j i * rv (k ++ [j])
    | .l2 => rv c / g.detJ
    | .dcontra =>
      let k := c.dropLast.dropLast; let i := c.dropLast.getLastD 0; let j := c.getLastD 0
      sumRange g.tdim fun m => sumRange g.tdim fun n => (1 / g.detJ) * (1 / g.detJ) * g.J i m * rv (k ++ [m, n]) * g.J j n
    | .dco =>
      let k := c.dropLast.dropLast; let i := c.dropLast.getLastD 0; let j := c.getLastD 0
      sumRange g.tdim fun m => sumRange g.tdim fun n => g.Kinv m i * rv (k ++ [m, n]) * g.Kinv n j
    | .coco =>
      let k := c.dropLast.dropLast; let i := c.dropLast.getLastD 0; let j := c.getLastD 0
      sumRange g.tdim fun m => sumRange g.tdim fun n => (1 / g.detJ) * g.Kinv m i * rv (k ++ [m, n]) * g.J j n
    | .mixed => pushMixed g subs 0 rv (c.headD 0)
    | .symmetric =>
      let nb := (blockShape sym).length
      pushNth g subs (lookupSym sym (c.take nb)) 0 rv (c.drop nb)
    | _ => rv c
/-- physical flat component `p` of a mixed element: owned by the first sub-element whose physical range contains it -/
def pushMixed (g : Geo K) : List Elem → Nat → (List Nat → K) → Nat → K
  | [], _, _, _ => 0
  | s :: ss, roff, rv, p =>
    let n := prod (physShape g.gdim s)
    if p < n then push g s (fun c' => rv [roff + flat s.refShape c']) (unflat (physShape g.gdim s) p)
    else pushMixed g ss (roff + refSize s) rv (p - n)
/-- the i-th sub-element of a symmetric element applied to its slice of the reference value -/
def pushNth (g : Geo K) : List Elem → Nat → Nat → (List Nat → K) → List Nat → K
  | [], _, _, _, _ => 0
  | s :: _, 0, roff, rv, c => push g s (fun c' => rv [roff + flat s.refShape c']) c
  | s :: ss, i + 1, roff, rv, c => pushNth g ss i (roff + refSize s) rv c
end

end Pullback

namespace Gen.Pullbacks
structure Case where
  name : String
  tdim : Nat
  gdim : Nat
  elem : Pullback.Elem
  valueShape : List Nat
  out : Expr
end Gen.Pullbacks

end UflVerif
