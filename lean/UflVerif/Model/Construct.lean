/-
Model of the construction-time behaviour of the core UFL operator classes (`__new__`/`__init__` of
Sum, Product, Division, Power, Abs, Conj, Real, Imag, Indexed (+ every `_simplify_indexed`),
IndexSum, ComponentTensor, ListTensor, Conditional and the condition classes): argument checks
(`none` = the Python raises), zero/one folding, literal folding (exact rational arithmetic for
Python's int/float arithmetic), canonical operand sorting, and the indexing shortcuts.
Executable, core Lean only.
-/
import UflVerif.Model.Shape
import UflVerif.Model.Order

namespace UflVerif
namespace Expr

def isZero : Expr → Bool
  | .zero _ _ => true
  | _ => false

/-- `isinstance(e, ScalarValue)` (IntValue / FloatValue / ComplexValue; Zero is not one) -/
def isScalarValue : Expr → Bool
  | .int _ | .real _ _ | .cplx _ _ _ _ => true
  | _ => false

/-- real literal: (is an IntValue, exact value) -/
def litVal : Expr → Option (Bool × Rat)
  | .int v => some (true, (v : Rat))
  | .real n d => some (false, (n : Rat) / (d : Rat))
  | _ => none

/-- `as_ufl(value)` for a Python int/float: zero becomes `Zero()` -/
def mkLit (isInt : Bool) (q : Rat) : Expr :=
  if q = 0 then .zero [] [] else if isInt then .int q.num else .real q.num q.den

/-- marker for a branch the model does not cover (complex / non-integer-power literal folding, or a
    shortcut that needs a fresh Index object); the correspondence skips such cases and counts them -/
def unsupported : Expr := .term { cls := "@unsupported", key := "", shape := [] }

def isUnsupported : Expr → Bool
  | .term d => d.cls == "@unsupported"
  | _ => false

/-- sequencing that propagates failure and the `unsupported` marker -/
def bindU (x : Option Expr) (f : Expr → Option Expr) : Option Expr :=
  match x with
  | none => none
  | some e => if isUnsupported e then some unsupported else f e

def trueScalar (e : Expr) : Bool := (shape e).isEmpty && (fi e).isEmpty

namespace FI'
/-- `unique_sorted_indices(sorted(...))`: insert, failing on one index with two extents -/
def insertChecked (p : Nat × Nat) : FI → Option FI
  | [] => some [p]
  | q :: qs =>
    if p.1 < q.1 then some (p :: q :: qs)
    else if p.1 = q.1 then (if p.2 = q.2 then some (q :: qs) else none)
    else (insertChecked p qs).map (q :: ·)
end FI'

/-- free indices of `A[mi]`: those of A plus the free indices of mi with the extents of the axes -/
def indexedFI (base : FI) (sh : List Nat) (is : List Idx) : Option FI :=
  (is.zipIdx).foldl (fun acc p => match acc, p.1 with
    | none, _ => none
    | some f, .free c => (match sh[p.2]? with
        | some d => FI'.insertChecked (c, d) f
        | none => none)
    | some f, .fixed _ => some f) (some base)

/-! ### algebra.py -/

def mkSum (a b : Expr) : Option Expr :=
  if shape a ≠ shape b || fi a ≠ fi b then none
  else if isZero a then some b
  else if isZero b then some a
  else match litVal a, litVal b with
    | some (ia, va), some (ib, vb) => some (mkLit (ia && ib) (va + vb))
    | _, _ =>
      if isScalarValue a && isScalarValue b then some unsupported   -- complex literal folding is not modelled
      else if isScalarValue a then some (.op .sum [] [a, b])
      else if isScalarValue b then some (.op .sum [] [b, a])
      else let p := sort2 a b; some (.op .sum [] [p.1, p.2])

def mkProduct (a b : Expr) : Option Expr :=
  if !(shape a).isEmpty || !(shape b).isEmpty then none
  else if isZero a || isZero b then some (.zero [] (FI.merge (fi a) (fi b)))
  else match litVal a, litVal b with
    | some (ia, va), some (ib, vb) => some (mkLit (ia && ib) (va * vb))
    | some (_, va), none =>
      if isScalarValue b then some unsupported else if va = 1 then some b else some (.op .product [] [a, b])
    | none, some (_, vb) =>
      if isScalarValue a then some unsupported else if vb = 1 then some a else some (.op .product [] [b, a])
    | none, none =>
      if isScalarValue a || isScalarValue b then some unsupported
      else let p := sort2 a b; some (.op .product [] [p.1, p.2])

def mkDivision (a b : Expr) : Option Expr :=
  if !(shape a).isEmpty then none
  else if !trueScalar b then none
  else if isZero b then none
  else if isZero a then some a
  else match litVal b with
    | some (_, vb) =>
      if vb = 1 then some a
      else (match litVal a with
        | some (_, va) => some (mkLit false (va / vb))
        | none => if isScalarValue a then some unsupported else some (.op .division [] [a, b]))
    | none => if isScalarValue b then some unsupported else some (.op .division [] [a, b])

def ratPowInt (x : Rat) (n : Int) : Rat :=
  if n ≥ 0 then x ^ n.toNat else (1 / x) ^ (-n).toNat

def mkPower (a b : Expr) : Option Expr :=
  if !trueScalar a || !trueScalar b then none
  else match litVal a, litVal b with
    | some (ia, va), some (ib, vb) =>
      if vb.den = 1 then some (mkLit (ia && ib && decide (vb ≥ 0)) (ratPowInt va vb.num))
      else some unsupported                      -- non-integer literal exponent: float `**`, not modelled
    | _, _ =>
      if isScalarValue a && isScalarValue b then some unsupported
      else if isZero b then some (.int 1)
      else if isZero a then
        (match litVal b with
         | some (_, vb) => if vb < 0 then none else some (.zero [] [])
         | none => if isScalarValue b then some unsupported else some (.op .power [] [a, b]))
      else match litVal b with
        | some (_, vb) => if vb = 1 then some a else some (.op .power [] [a, b])
        | none => some (.op .power [] [a, b])

def mkAbs : Expr → Option Expr
  | .zero s f => some (.zero s f)
  | .op .abs x as => some (.op .abs x as)
  | .op .conj _ [a] =>
    (match a with
     | .zero s f => some (.zero s f)
     | .op .abs x as => some (.op .abs x as)
     | .int v => some (mkLit true (if v < 0 then -(v : Rat) else (v : Rat)))
     | .real n d => some (mkLit false (if n < 0 then -((n : Rat) / (d : Rat)) else (n : Rat) / (d : Rat)))
     | .cplx .. => some unsupported
     | a => some (.op .abs [] [a]))
  | .int v => some (mkLit true (if v < 0 then -(v : Rat) else (v : Rat)))
  | .real n d => some (mkLit false (if n < 0 then -((n : Rat) / (d : Rat)) else (n : Rat) / (d : Rat)))
  | .cplx .. => some unsupported
  | a => some (.op .abs [] [a])

def mkConj : Expr → Option Expr
  | .zero s f => some (.zero s f)
  | .op .abs x as => some (.op .abs x as)
  | .op .real x as => some (.op .real x as)
  | .op .imag x as => some (.op .imag x as)
  | .op .conj _ [a] => some a
  | .int v => some (.int v)
  | .real n d => some (.real n d)
  | .cplx .. => some unsupported
  | a => some (.op .conj [] [a])

/-- `Real.__new__` unwraps a `Conj` only in a local variable: the node is built on the original operand -/
def mkReal (a : Expr) : Option Expr :=
  let a' := match a with | .op .conj _ [x] => x | _ => a
  match a' with
  | .zero s f => some (.zero s f)
  | .int v => some (mkLit true (v : Rat))
  | .real n d => some (mkLit false ((n : Rat) / (d : Rat)))
  | .cplx .. => some unsupported
  | _ => some (.op .real [] [a])

def mkImag : Expr → Option Expr
  | .zero s f => some (.zero s f)
  | .op .real x as => some (.zero (shape (.op .real x as)) (fi (.op .real x as)))
  | .op .imag x as => some (.zero (shape (.op .imag x as)) (fi (.op .imag x as)))
  | .op .abs x as => some (.zero (shape (.op .abs x as)) (fi (.op .abs x as)))
  | .int _ => some (.zero [] [])
  | .real _ _ => some (.zero [] [])
  | .cplx .. => some unsupported
  | a => some (.op .imag [] [a])

/-! ### indexsum.py -/

def mkIndexSum : Expr → Nat → Option Expr
  | .zero sh f, j => if FI.has j f then some (.zero sh (FI.remove j f)) else none
  | .op .product x [a, b], j =>
    if !FI.has j (fi a) then bindU (mkIndexSum b j) (fun sb => mkProduct a sb)
    else if !FI.has j (fi b) then bindU (mkIndexSum a j) (fun sa => mkProduct b sa)
    else some (.op .indexSum [] [.op .product x [a, b], .mi [.free j]])
  | e, j => if FI.has j (fi e) then some (.op .indexSum [] [e, .mi [.free j]]) else none

/-! ### tensors.py : ComponentTensor -/

/-- `remove_indices`: every bound index must be among the free indices -/
def removeAll (f : FI) : List Nat → Option FI
  | [] => some f
  | c :: cs => if FI.has c f then removeAll (FI.remove c f) cs else none

def allFree : List Idx → Option (List Nat)
  | [] => some []
  | .free c :: is => (allFree is).map (c :: ·)
  | .fixed _ :: _ => none

def mkComponentTensor (a : Expr) (is : List Idx) : Option Expr :=
  match allFree is with
  | none => none
  | some cs =>
    match a with
    | .zero _ f =>
      (match removeAll f cs with
       | some f' => some (.zero (cs.map (fun c => FI.dimOf c f)) f')
       | none => none)
    | _ =>
      (match a with
       | .op .indexed _ [A, .mi ii] => if ii = is then some A else none
       | _ => none).orElse fun _ =>
      if !(shape a).isEmpty then none
      else match removeAll (fi a) cs with
        | some _ => some (.op .componentTensor [] [a, .mi is])
        | none => none

/-! ### indexed.py and every `_simplify_indexed` -/

/-- substitution `rep.get(k, k)` used by `ComponentTensor._simplify_indexed` -/
def repIdx (jj : List Idx) (mi : List Idx) (k : Idx) : Idx :=
  match (jj.zip mi).find? (fun p => p.1 == k) with
  | some p => p.2
  | none => k

/-- `Indexed.__init__` checks for a plain indexed node -/
def plainIndexed (A : Expr) (is : List Idx) : Option Expr :=
  let sh := shape A
  if sh.length ≠ is.length then none
  else if (is.zipIdx).any (fun p => match p.1 with | .fixed v => decide (sh.getD p.2 0 ≤ v) | .free _ => false) then none
  else match indexedFI (fi A) sh is with
    | some _ => some (.op .indexed [] [A, .mi is])
    | none => none

/-- `Indexed(A, MultiIndex(is))`; `fuel` bounds the recursion through `_simplify_indexed` (every
    recursive call is on a proper sub-expression of A, so `size A` suffices) -/
def mkIndexedF : Nat → Expr → List Idx → Option Expr
  | 0, _, _ => none
  | _ + 1, A, [] => some A
  | fuel + 1, A, k :: ks =>
    let is := k :: ks
    match A with
    | .zero sh f =>
      (match indexedFI f sh is with
       | some f' => some (.zero [] f')
       | none => none)
    | .op .sum _ [a, b] =>
      bindU (mkIndexedF fuel a is) (fun x => bindU (mkIndexedF fuel b is) (fun y => mkSum x y))
    | .op .indexSum x [A', .mi [.free j]] =>
      -- indexing with the summation index itself stays outside the sum (no capture)
      if is.contains (.free j) then plainIndexed (.op .indexSum x [A', .mi [.free j]]) is
      else bindU (mkIndexedF fuel A' is) (fun x => mkIndexSum x j)
    | .op .listTensor x xs =>
      (match k with
       | .fixed v => (match xs[v]? with
          | some row => mkIndexedF fuel row ks
          | none => none)
       | .free _ => plainIndexed (.op .listTensor x xs) is)
    | .op .componentTensor x [B, .mi jj] =>
      if is.length ≠ jj.length then none
      else
        -- first shortcut: the body indexes a ListTensor with one of the bound indices, now fixed
        let step1 : Expr × List Idx × List Idx :=
          match B with
          | .op .indexed _ [.op .listTensor _ rows, .mi [kk]] =>
            (match repIdx jj is kk with
             | .fixed v =>
               (match rows[v]? with
                | some row => let jj' := jj.filter (· != kk); (row, jj', jj'.map (repIdx jj is))
                | none => (B, jj, is))
             | .free _ => (B, jj, is))
          | _ => (B, jj, is)
        -- second shortcut: the body is C[kk] with every bound index among kk
        match step1.1 with
        | .op .indexed _ [C, .mi kk] =>
          if step1.2.1.all (fun j => kk.contains j) then mkIndexedF fuel C (kk.map (repIdx step1.2.1 step1.2.2))
          else plainIndexed (.op .componentTensor x [B, .mi jj]) is
        | _ => plainIndexed (.op .componentTensor x [B, .mi jj]) is
    | A => plainIndexed A is

def mkIndexed (A : Expr) (is : List Idx) : Option Expr := mkIndexedF (A.size + 1) A is

/-! ### tensors.py : ListTensor -/

def indexedParts : Expr → Option (Expr × List Idx)
  | .op .indexed _ [A, .mi is] => some (A, is)
  | _ => none

def ctIndexedParts : Expr → Option (Expr × List Idx × List Idx)
  | .op .componentTensor _ [.op .indexed _ [A, .mi is], .mi jj] => some (A, is, jj)
  | _ => none

def allSome {α : Type} : List (Option α) → Option (List α)
  | [] => some []
  | some x :: xs => (allSome xs).map (x :: ·)
  | none :: _ => none

def mkListTensor (xs : List Expr) : Option Expr :=
  match xs with
  | [] => none
  | e0 :: rest =>
    if rest.any (fun e => shape e ≠ shape e0) || rest.any (fun e => fi e ≠ fi e0) then none
    else if xs.all isZero then some (.zero (xs.length :: shape e0) (fi e0))
    else
      -- [v[.., 0], v[.., 1], ..., v[.., n-1]]  ->  v  (or v[.., :])
      let rule1 : Option Expr :=
        match allSome (xs.map indexedParts) with
        | some ((base, i0) :: ps) =>
          if (shape base).getLast? = some xs.length && ps.all (fun p => p.1 == base)
             && ps.all (fun p => p.2.dropLast = i0.dropLast)
             && (((base, i0) :: ps).zipIdx).all (fun p => p.1.2.getLast? = some (.fixed p.2))
          then (if i0.dropLast.isEmpty then some base else some unsupported)
          else none
        | _ => none
      match rule1 with
      | some r => some r
      | none =>
        -- [as_tensor(v[0, i..], (i..)), ..., as_tensor(v[n-1, i..], (i..))]  ->  v
        let rule2 : Option Expr :=
          match allSome (xs.map ctIndexedParts) with
          | some ((base, i0, j0) :: ps) =>
            if (shape base).head? = some xs.length && ps.all (fun p => p.1 == base)
               && (((base, i0, j0) :: ps).zipIdx).all (fun p =>
                    p.1.2.1.head? = some (.fixed p.2) && p.1.2.1.tail.all (fun i => match i with | .free _ => true | .fixed _ => false)
                    && p.1.2.2 = p.1.2.1.tail)
            then some base else none
          | _ => none
        match rule2 with
        | some r => some r
        | none => some (.op .listTensor [] xs)

/-! ### conditional.py -/

def isCondition : Expr → Bool
  | .op k _ _ => match k with
    | .eQ | .nE | .lE | .gE | .lT | .gT | .andCondition | .orCondition | .notCondition => true
    | _ => false
  | _ => false

def mkCondition (k : Op) (a b : Expr) : Option Expr :=
  match k with
  | .eQ | .nE => some (.op k [] [a, b])
  | .andCondition | .orCondition => if isCondition a && isCondition b then some (.op k [] [a, b]) else none
  | .lE | .gE | .lT | .gT => if trueScalar a && trueScalar b then some (.op k [] [a, b]) else none
  | _ => none

def mkNot (a : Expr) : Option Expr := if isCondition a then some (.op .notCondition [] [a]) else none

def mkConditional (c t f : Expr) : Option Expr :=
  if t == f then some t
  else if !isCondition c then none
  else if shape t ≠ shape f || fi t ≠ fi f then none
  else match c with
    | .op .eQ _ [a, b] | .op .nE _ [a, b] =>
      if trueScalar a && trueScalar b then some (.op .conditional [] [c, t, f]) else none
    | _ => some (.op .conditional [] [c, t, f])

def mkMinMax (k : Op) (a b : Expr) : Option Expr :=
  if trueScalar a && trueScalar b then some (.op k [] [a, b]) else none

end Expr
end UflVerif
