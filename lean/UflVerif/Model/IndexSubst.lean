/-
Plain index substitution and the plain form of `remove_component_tensors` (C10s).
`substIdx fm e` does what `IndexReplacer` (`replIdx`, Model/IndexPasses.lean) does to every multi-index
and every `Zero`, but keeps each operator node as it is (`.op k aux args'`) instead of rebuilding it
through its class constructor, and has no reuse shortcut.  `rctPlain` is `IndexRemover` on such
plain trees.  `none` = the Python raises.  Core Lean only.
-/
import UflVerif.Model.IndexPasses

namespace UflVerif
namespace Expr

/-- image of an index count under the replacement map (`rep.get(k, k)`) -/
def thetaI (fm : FiMap) (c : Nat) : Idx := (fm.get c).getD (.free c)

/-- replacement of one index of a multi-index: fixed indices stay -/
def substI (θ : Nat → Idx) : Idx → Idx
  | .free c => θ c
  | i => i

mutual
/-- `IndexReplacer` without constructor rebuild -/
def substIdx (fm : FiMap) : Expr → Option Expr
  | .mi is => some (.mi (replMI fm is))
  | .zero sh f => replZero fm sh f
  | .op k aux args =>
    match substIdxL fm args with
    | none => none
    | some args' => some (.op k aux args')
  | e => some e
def substIdxL (fm : FiMap) : List Expr → Option (List Expr)
  | [] => some []
  | a :: as => match substIdx fm a, substIdxL fm as with
    | some x, some xs => some (x :: xs)
    | _, _ => none
end

/-- hygiene: no index bound inside `e` (by an IndexSum or a ComponentTensor) is a key of the map
    or the image of a key -/
def Hygienic (fm : FiMap) (e : Expr) : Bool :=
  (boundCounts e).all fun c => (fm.get c).isNone && fm.all (fun p => p.2 != .free c)

/-- extents are compatible with the map on a free-index list: two free indices sent to the same
    index have the same extent, and a fixed image lies within the extent of its key -/
def extOK (fm : FiMap) (f : FI) : Bool :=
  f.all (fun p => f.all (fun q =>
    match thetaI fm p.1, thetaI fm q.1 with
    | .free k, .free k' => k != k' || p.2 == q.2
    | _, _ => true)) &&
  f.all (fun p => match thetaI fm p.1 with
    | .fixed v => decide (v < p.2)
    | .free _ => true)

mutual
/-- `IndexRemover` on plain trees: operands first; `Indexed(ComponentTensor(o2, i2), i1)` becomes
    `o2[i2 := i1]` when no index of i1, i2 is bound again inside o2 -/
def rctPlain : Expr → Option Expr
  | .op k aux args =>
    match rctPlainL args with
    | none => none
    | some args' =>
      match k, args' with
      | .indexed, [.op .componentTensor _ [o2, .mi i2], .mi i1] =>
        if (freeCounts i1 ++ freeCounts i2).any (fun c => (boundCounts o2).contains c) then some (.op k aux args')
        else if i2.length != i1.length then none
        else substIdx ((freeCounts i2).zip i1) o2
      | _, _ => some (.op k aux args')
  | e => some e
def rctPlainL : List Expr → Option (List Expr)
  | [] => some []
  | a :: as => match rctPlain a, rctPlainL as with
    | some x, some xs => some (x :: xs)
    | _, _ => none
end

end Expr
end UflVerif
