/-
Model of UFL's own point evaluation: `Expr.evaluate(x, mapping, component, index_values[, derivatives])`
as implemented class by class (algebra.py, indexed.py, indexsum.py, tensors.py, conditional.py,
mathfunctions.py, differentiation.py, variable.py, restriction.py, core/terminal.py, constantvalue.py).
`none` = the Python raises (or would return a non-scalar).  `index_values` (a StackDict: push on
entering a binder, pop on leaving) is modelled as an association list, innermost binding first.
-/
import UflVerif.Model.Eval

namespace UflVerif
namespace Expr
variable {K : Type} [Add K] [Mul K] [Sub K] [Neg K] [Div K] [Zero K] [One K] [IntCast K] [NatCast K]

abbrev Stack := List (Nat × Nat)

def Stack.get (s : Stack) (c : Nat) : Option Nat :=
  match s.find? (fun p => p.1 == c) with
  | some p => some p.2
  | none => none

/-- `MultiIndex.evaluate`: fixed indices as they are, free ones looked up (KeyError ⇒ none) -/
def resolveI (s : Stack) : List Idx → Option (List Nat)
  | [] => some []
  | .fixed v :: is => (resolveI s is).map (v :: ·)
  | .free c :: is => do pure ((← s.get c) :: (← resolveI s is))

/-- push (index, value) pairs in order (later pushes shadow earlier ones) -/
def pushAll (s : Stack) : List Idx → List Nat → Option Stack
  | [], [] => some s
  | .free c :: is, v :: vs => pushAll ((c, v) :: s) is vs
  | _, _ => none

def sumOpt (n : Nat) (f : Nat → Option K) : Option K :=
  (List.range n).foldl (fun acc k => do pure ((← acc) + (← f k))) (some 0)

mutual
def evalI (ρ : Env K) (s : Stack) : Expr → List Nat → List Nat → Option K
  | .int v, _, [] => some (v : K)
  | .real n d, _, [] => some ((n : K) / (d : K))
  | .cplx a b c d, _, [] => some ((a : K) / (b : K) + ((c : K) / (d : K)) * ρ.i)
  | .zero _ _, _, [] => some 0
  | .mi _, _, _ => none
  | .term d, c, ds =>
    if d.cls = "Identity" then
      (match c, ds with | [i, j], [] => some (if i = j then 1 else 0) | _, _ => none)
    else if d.cls = "Label" then none
    else if c.length ≠ d.shape.length then none
    else if ds.isEmpty then some (ρ.term .none d.key c) else some (ρ.jet .none d.key c ds)
  | .op k _ args, c, ds =>
    match k, args, ds with
    | .sum, [a, b], [] => do pure ((← evalI ρ s a c []) + (← evalI ρ s b c []))
    | .product, [a, b], [] => do pure ((← evalI ρ s a [] []) * (← evalI ρ s b [] []))
    | .division, [a, b], [] => do
        let x ← evalI ρ s a c []
        let y ← evalI ρ s b c []
        if ρ.eq y 0 then none else pure (x / y)
    | .power, [a, b], [] => do pure (ρ.fn2 "Power" (← evalI ρ s a c []) (← evalI ρ s b c []))
    | .abs, [a], [] => (evalI ρ s a c []).map ρ.abs
    | .conj, [a], [] => (evalI ρ s a c []).map ρ.conj
    | .real, [a], [] => (evalI ρ s a c []).map ρ.re
    | .imag, [a], [] => (evalI ρ s a c []).map ρ.im
    | .indexed, [a, .mi is], ds => do evalI ρ s a (← resolveI s is) ds
    | .indexSum, [a, .mi [.free j]], [] =>
      sumOpt (FI.dimOf j (fi a)) (fun v => evalI ρ ((j, v) :: s) a c [])
    | .componentTensor, [a, .mi is], [] => do evalI ρ (← pushAll s is c) a [] []
    | .listTensor, xs, ds =>
      (match c with
       | v :: c' => if c'.length + 1 ≠ (shape (.op .listTensor [] xs)).length then none else evalNthI ρ s xs v c' ds
       | [] => none)
    | .conditional, [p, t, f], [] => do
        if (← evalBI ρ s p []) then evalI ρ s t c [] else evalI ρ s f c []
    | .minValue, [a, b], [] => do
        let x ← evalI ρ s a c []; let y ← evalI ρ s b c []
        pure (if ρ.lt x y then x else y)
    | .maxValue, [a, b], [] => do
        let x ← evalI ρ s a c []; let y ← evalI ρ s b c []
        pure (if ρ.lt y x then x else y)
    | .variable, [a, _], [] => evalI ρ s a c []
    | .positiveRestricted, [a], [] | .negativeRestricted, [a], [] => evalI ρ s a c []
    | .atan2, [a, b], [] => do pure (ρ.fn2 "Atan2" (← evalI ρ s a c []) (← evalI ρ s b c []))
    | .grad, [a], ds =>
      (match c.getLast? with
       | some i => evalI ρ s a c.dropLast (ds ++ [i])
       | none => none)
    | fnk, [a], [] =>
      (match mathName fnk with
       | some n => (evalI ρ s a c []).map (ρ.fn n)
       | none => none)
    | _, _, _ => none
  | _, _, _ => none
def evalNthI (ρ : Env K) (s : Stack) : List Expr → Nat → List Nat → List Nat → Option K
  | [], _, _, _ => none
  | x :: _, 0, c, ds => evalI ρ s x c ds
  | _ :: xs, n + 1, c, ds => evalNthI ρ s xs n c ds
def evalBI (ρ : Env K) (s : Stack) : Expr → List Nat → Option Bool
  | .op k _ args, c =>
    match k, args with
    | .eQ, [a, b] => do pure (ρ.eq (← evalI ρ s a c []) (← evalI ρ s b c []))
    | .nE, [a, b] => do pure (!ρ.eq (← evalI ρ s a c []) (← evalI ρ s b c []))
    | .lT, [a, b] => do pure (ρ.lt (← evalI ρ s a c []) (← evalI ρ s b c []))
    | .gT, [a, b] => do
        let x ← evalI ρ s a c []; let y ← evalI ρ s b c []
        pure (ρ.lt y x)
    | .lE, [a, b] => do
        let x ← evalI ρ s a c []; let y ← evalI ρ s b c []
        pure (!ρ.lt y x)
    | .gE, [a, b] => do
        let x ← evalI ρ s a c []; let y ← evalI ρ s b c []
        pure (!ρ.lt x y)
    | .andCondition, [a, b] => do
        let x ← evalBI ρ s a c; let y ← evalBI ρ s b c
        pure (x && y)
    | .orCondition, [a, b] => do
        let x ← evalBI ρ s a c; let y ← evalBI ρ s b c
        pure (x || y)
    | .notCondition, [a] => (evalBI ρ s a c).map (!·)
    | _, _ => none
  | _, _ => none
end

end Expr
end UflVerif
