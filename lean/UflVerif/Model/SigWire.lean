/-
Wire format of the signature drivers (c12drv, c11drv): S-expressions <-> structured expressions / forms / pre-hash data.
Shared by Drivers/C12.lean and Drivers/C11.lean.  Core Lean only.

   cexpr ::= (I v) | (R n d) | (C a b c d) | (Z (sh) ((c d)..)) | (M idx..) | (O Name (aux) cexpr..)
           | (TC count space (shape)) | (TA number part space (shape)) | (TK count mesh (shape))
           | (TG Cls mesh (shape)) | (TL count) | (TP Cls key (shape))
   mesh  ::= (m id gdim tdim celem)        space ::= (fs mesh elem [label])  (celem, elem, key, label percent-encoded)
   form  ::= (form (itg itype mesh sub meta cexpr)..)     sub ::= (si v) | (ss s) | (st v..)
   meta  ::= ((k v)..)  flat dict with str values, keys sorted   |   (mt item..) / (ms str)  canonical tree
-/
import UflVerif.Model.SExpr
import UflVerif.Model.Renaming

namespace UflVerif.SigWire
open UflVerif SExp

def meshOf : SExp → Option MeshD
  | .list [.atom "m", i, g, t, .atom ce] => do
      pure { id := (← toNat? i), gdim := (← toNat? g), tdim := (← toNat? t), celem := SExp.decode ce }
  | _ => none

def spaceOf : SExp → Option SpaceD
  | .list [.atom "fs", m, .atom el] => do pure { mesh := (← meshOf m), elem := SExp.decode el }
  | .list [.atom "fs", m, .atom el, .atom lb] => do pure { mesh := (← meshOf m), elem := SExp.decode el, label := SExp.decode lb }
  | _ => none

mutual
def cexprOf : SExp → Option CExpr
  | .list [.atom "I", v] => (toInt? v).map .int
  | .list [.atom "R", n, d] => do pure (.real (← toInt? n) (← toNat? d))
  | .list [.atom "C", a, b, c, d] => do pure (.cplx (← toInt? a) (← toNat? b) (← toInt? c) (← toNat? d))
  | .list [.atom "Z", sh, .list fi] => do pure (.zero (← natList? sh) (← fi.mapM Expr.pairOf))
  | .list (.atom "M" :: is) => (is.mapM Expr.idxOf).map .mi
  | .list [.atom "TC", c, sp, sh] => do pure (.term (.coeff (← toNat? c) (← spaceOf sp) (← natList? sh)))
  | .list [.atom "TA", n, p, sp, sh] => do pure (.term (.arg (← toNat? n) (← toInt? p) (← spaceOf sp) (← natList? sh)))
  | .list [.atom "TK", c, m, sh] => do pure (.term (.const (← toNat? c) (← meshOf m) (← natList? sh)))
  | .list [.atom "TG", .atom cls, m, sh] => do pure (.term (.geo cls (← meshOf m) (← natList? sh)))
  | .list [.atom "TL", c] => do pure (.term (.label (← toNat? c)))
  | .list [.atom "TP", .atom cls, .atom key, sh] => do pure (.term (.plain cls (SExp.decode key) (← natList? sh)))
  | .list (.atom "O" :: .atom name :: aux :: args) => do
      pure (.op (Op.ofName name) (← natList? aux) (← cexprOfL args))
  | _ => none
def cexprOfL : List SExp → Option (List CExpr)
  | [] => some []
  | x :: xs => do pure ((← cexprOf x) :: (← cexprOfL xs))
end

def meshS (m : MeshD) : SExp :=
  .list [.atom "m", .atom (toString m.id), .atom (toString m.gdim), .atom (toString m.tdim), .atom (SExp.encode m.celem)]
def spaceS (s : SpaceD) : SExp :=
  if s.label == "" then .list [.atom "fs", meshS s.mesh, .atom (SExp.encode s.elem)]
  else .list [.atom "fs", meshS s.mesh, .atom (SExp.encode s.elem), .atom (SExp.encode s.label)]

def termS : CTerm → SExp
  | .coeff c sp sh => .list [.atom "TC", .atom (toString c), spaceS sp, Expr.natsS sh]
  | .arg n p sp sh => .list [.atom "TA", .atom (toString n), .atom (toString p), spaceS sp, Expr.natsS sh]
  | .const c m sh => .list [.atom "TK", .atom (toString c), meshS m, Expr.natsS sh]
  | .geo cls m sh => .list [.atom "TG", .atom cls, meshS m, Expr.natsS sh]
  | .label c => .list [.atom "TL", .atom (toString c)]
  | .plain cls k sh => .list [.atom "TP", .atom cls, .atom (SExp.encode k), Expr.natsS sh]

mutual
def cexprS : CExpr → SExp
  | .int v => .list [.atom "I", .atom (toString v)]
  | .real n d => .list [.atom "R", .atom (toString n), .atom (toString d)]
  | .cplx a b c d => .list [.atom "C", .atom (toString a), .atom (toString b), .atom (toString c), .atom (toString d)]
  | .zero sh fi => .list [.atom "Z", Expr.natsS sh, .list (fi.map fun p => .list [.atom (toString p.1), .atom (toString p.2)])]
  | .mi is => .list (.atom "M" :: is.map Expr.idxS)
  | .term t => termS t
  | .op k aux args => .list (.atom "O" :: .atom k.name :: Expr.natsS aux :: cexprSL args)
def cexprSL : List CExpr → List SExp
  | [] => []
  | x :: xs => cexprS x :: cexprSL xs
end

def subOf : SExp → Option SubId
  | .list [.atom "si", v] => (toInt? v).map .int
  | .list [.atom "ss", .atom s] => some (.str (SExp.decode s))
  | .list (.atom "st" :: vs) => (vs.mapM toInt?).map .tup
  | _ => none

def kvOf : SExp → Option (String × String)
  | .list [.atom k, .atom v] => some (SExp.decode k, SExp.decode v)
  | _ => none

/- canonical metadata as a tree: (ms str) | (mt item..); the flat form ((k v)..) of C12 is still read -/
mutual
def canonOf : SExp → Option FormModel.Canon
  | .list [.atom "ms"] => some (.s "")
  | .list [.atom "ms", .atom x] => some (.s (SExp.decode x))
  | .list (.atom "mt" :: xs) => (canonOfL xs).map .t
  | _ => none
def canonOfL : List SExp → Option (List FormModel.Canon)
  | [] => some []
  | x :: xs => do pure ((← canonOf x) :: (← canonOfL xs))
end

def metaOf : SExp → Option FormModel.Canon
  | .list (.atom "mt" :: xs) => canonOf (.list (.atom "mt" :: xs))
  | .list md => (md.mapM kvOf).map Sig.flatMeta
  | _ => none

def integralOf : SExp → Option CIntegral
  | .list [.atom "itg", .atom it, m, sub, md, e] => do
      pure { integrand := (← cexprOf e), itype := SExp.decode it, mesh := (← meshOf m), sub := (← subOf sub), metadata := (← metaOf md) }
  | _ => none

def formOf : SExp → Option CForm
  | .list (.atom "form" :: is) => is.mapM integralOf
  | _ => none

mutual
def sigS : SigData → SExp
  | .str s => .list [.atom "s", .atom (SExp.encode s)]
  | .raw s => .list [.atom "r", .atom (SExp.encode s)]
  | .int v => .list [.atom "i", .atom (toString v)]
  | .none => .list [.atom "n"]
  | .tup xs => .list (.atom "t" :: sigSL xs)
  | .lst xs => .list (.atom "l" :: sigSL xs)
  | .fmt xs => .list (.atom "f" :: sigSL xs)
  | .hash d => .list [.atom "h", sigS d]
def sigSL : List SigData → List SExp
  | [] => []
  | x :: xs => sigS x :: sigSL xs
end

def pairsOf (s : SExp) : Option (List (Nat × Nat)) :=
  match s with
  | .list (_ :: ps) => ps.mapM Expr.pairOf
  | _ => none

def fnOfPairs (ps : List (Nat × Nat)) (n : Nat) : Nat :=
  match ps.find? (fun p => p.1 == n) with
  | some p => p.2
  | none => n

def renOf : SExp → Option Ren
  | .list [.atom "ren", i, c, k, l, m] => do
      pure ⟨fnOfPairs (← pairsOf i), fnOfPairs (← pairsOf c), fnOfPairs (← pairsOf k), fnOfPairs (← pairsOf l), fnOfPairs (← pairsOf m)⟩
  | _ => none

def seqOf (s : SExp) : Option (List Nat) :=
  match s with
  | .list (_ :: vs) => vs.mapM toNat?
  | _ => none

def fnOfSeq (xs : List Nat) (k : Nat) : Nat := xs.getD k 0

def nuOf : SExp → Option Ren
  | .list [.atom "nu", i, c, k, l, m] => do
      pure ⟨fnOfSeq (← seqOf i), fnOfSeq (← seqOf c), fnOfSeq (← seqOf k), fnOfSeq (← seqOf l), fnOfSeq (← seqOf m)⟩
  | _ => none

def slotOf : SExp → Option Slot
  | .list [.atom "F", v] => (toNat? v).map .fixed
  | .list [.atom "X", r] => (toNat? r).map .reg
  | _ => none

def instrOf : SExp → Option Instr
  | .list [.atom "mesh", .atom ce, g, t] => do pure (.mesh (SExp.decode ce) (← toNat? g) (← toNat? t))
  | .list [.atom "index"] => some .index
  | .list [.atom "coeff", m, .atom el, sh] => do pure (.coeff (← toNat? m) (SExp.decode el) (← natList? sh))
  | .list [.atom "const", m, sh] => do pure (.const (← toNat? m) (← natList? sh))
  | .list [.atom "geo", .atom cls, m, sh] => do pure (.geo cls (← toNat? m) (← natList? sh))
  | .list [.atom "arg", n, p, m, .atom el, sh] => do pure (.arg (← toNat? n) (← toInt? p) (← toNat? m) (SExp.decode el) (← natList? sh))
  | .list [.atom "lit", v] => (toInt? v).map .lit
  | .list [.atom "flt", n, d] => do pure (.flt (← toInt? n) (← toNat? d))
  | .list [.atom "plain", .atom cls, .atom key, sh] => do pure (.plain cls (SExp.decode key) (← natList? sh))
  | .list (.atom "mi" :: slots) => (slots.mapM slotOf).map .multiIndex
  | .list [.atom "zero", sh, .list fi] => do pure (.zero (← natList? sh) (← fi.mapM Expr.pairOf))
  | .list [.atom "variable", r] => (toNat? r).map .variable
  | .list [.atom "sum", a, b] => do pure (.sum (← toNat? a) (← toNat? b))
  | .list [.atom "product", a, b] => do pure (.product (← toNat? a) (← toNat? b))
  | .list (.atom "node" :: .atom name :: aux :: rs) => do pure (.node (Op.ofName name) (← natList? aux) (← rs.mapM toNat?))
  | _ => none

def progOf : SExp → Option (List Instr)
  | .list (.atom "prog" :: is) => is.mapM instrOf
  | _ => none

def formBeq (f g : CForm) : Bool :=
  f.length == g.length && (f.zip g).all fun p =>
    CExpr.beq p.1.integrand p.2.integrand && p.1.itype == p.2.itype && p.1.mesh == p.2.mesh && p.1.sub == p.2.sub && p.1.metadata == p.2.metadata

/- equality of rendered expressions; the `count` slot of a terminal that is not a counted form argument is not part of the
   model (the serializer fills it with whatever a `count` attribute returns, e.g. -1 for SpatialCoordinate) -/
def counted (c : String) : Bool := c == "Coefficient" || c == "Argument" || c == "Constant" || c == "Label"
mutual
def eqRendered : Expr → Expr → Bool
  | .term a, .term b => a.cls == b.cls && a.key == b.key && a.shape == b.shape && (!counted a.cls || (a.count == b.count && a.part == b.part))
  | .op k x as, .op k' x' bs => k == k' && x == x' && eqRenderedL as bs
  | a, b => Expr.beq a b
def eqRenderedL : List Expr → List Expr → Bool
  | [], [] => true
  | a :: as, b :: bs => eqRendered a b && eqRenderedL as bs
  | _, _ => false
end

end UflVerif.SigWire
