/-
Model of ufl/algorithms/apply_integral_scaling.py: `compute_integrand_scaling_factor` and the Integral
branch of `apply_integral_scaling` (the only pass of compute_form_data that changes the value of an
integrand).  Executable, core Lean only; tied tree-for-tree to the implementation by the correspondence
of harness/props/c01.py on every integral type x cell x metadata shape.

  scale, degree = compute_integrand_scaling_factor(integral)
      "cell"              tdim > 0 : abs(detJ) * weight      else 1
      "exterior_facet*"   tdim > 1 : detFJ * weight          else 1
      "interior_facet*"   tdim > 1 : detFJ('+') * weight     else 1
      "ridge*"            tdim > 2 : detEJ * weight ; tdim < 2 : raise ; else 1
      custom types        weight
      point types         1
      anything else       raise
  degree = estimate_total_polynomial_degree(apply_geometry_lowering(<the determinant>)) where a determinant is used,
           else 0 (an input of the model: estimating and lowering are C18 / C07)
  md["estimated_polynomial_degree"] = degree                      if there was none
                                    = cur + degree                (int/int, tuple/int, int/tuple, tuple/tuple via zip)
  new integrand = scale * integrand, moved inside CoordinateDerivative nodes at the top

The products are built by `Expr.__mul__` / `__rmul__` = `_mult` = the Product constructor on scalars
(`mkProduct`: operand sorting, 1 * x = x, literal folding); `abs` by the Abs constructor (`mkAbs`).
-/
import UflVerif.Model.Construct

namespace UflVerif.Scaling
open UflVerif Expr

/-- the geometric terminals the factor is built from (created by the implementation from the integral's domain) -/
structure Syms where
  detJ : Expr       -- JacobianDeterminant(domain)
  weight : Expr     -- QuadratureWeight(domain)
  detFJ : Expr      -- FacetJacobianDeterminant(domain)
  detEJ : Expr      -- RidgeJacobianDeterminant(domain)
  deriving Repr, Inhabited

/-- how `compute_integrand_scaling_factor` classifies `integral_type()` (tests in the order of the code) -/
inductive IKind
  | cell | exteriorFacet | interiorFacet | ridge | custom | point | unknown
  deriving DecidableEq, Repr, Inhabited

def kindOf (customTypes pointTypes : List String) (s : String) : IKind :=
  if s == "cell" then .cell
  else if s.startsWith "exterior_facet" then .exteriorFacet
  else if s.startsWith "interior_facet" then .interiorFacet
  else if s.startsWith "ridge" then .ridge
  else if customTypes.contains s then .custom
  else if pointTypes.contains s then .point
  else .unknown

/-- a polynomial degree as stored in the metadata: a Python int, or a tuple of ints (tensor-product cells) -/
inductive Deg
  | scalar (d : Nat)
  | tuple (ds : List Nat)
  deriving DecidableEq, Repr, Inhabited

/-- `tuple(d[0] + d[1] for d in zip(a, b))`: stops at the shorter tuple -/
def zipAdd : List Nat → List Nat → List Nat
  | a :: as, b :: bs => (a + b) :: zipAdd as bs
  | _, _ => []

/-- the four `isinstance(.., tuple)` cases of `apply_integral_scaling` -/
def Deg.add : Deg → Deg → Deg
  | .tuple cs, .tuple ds => .tuple (zipAdd cs ds)
  | .tuple cs, .scalar d => .tuple (cs.map (· + d))
  | .scalar c, .tuple ds => .tuple (ds.map (c + ·))
  | .scalar c, .scalar d => .scalar (c + d)

/-- `md["estimated_polynomial_degree"]` after scaling (`cur` = the entry before, `none` if absent or None) -/
def newDegree (cur : Option Deg) (deg : Deg) : Deg :=
  match cur with
  | none => deg
  | some c => c.add deg

/-- `abs(x) * weight` -/
def absTimes (x w : Expr) : Option Expr := bindU (mkAbs x) fun a => mkProduct a w

/-- `compute_integrand_scaling_factor`: (scale, degree); `none` = raises.
    `geomDeg` = the estimated degree of the lowered determinant (0 on affine cells). -/
def factor (G : Syms) (k : IKind) (tdim : Nat) (geomDeg : Deg) : Option (Expr × Deg) :=
  match k with
  | .cell =>
    if tdim > 0 then (absTimes G.detJ G.weight).map (·, geomDeg) else some (.int 1, .scalar 0)
  | .exteriorFacet =>
    if tdim > 1 then (mkProduct G.detFJ G.weight).map (·, geomDeg) else some (.int 1, .scalar 0)
  | .interiorFacet =>
    if tdim > 1 then (mkProduct (.op .positiveRestricted [] [G.detFJ]) G.weight).map (·, geomDeg) else some (.int 1, .scalar 0)
  | .ridge =>
    if tdim > 2 then (mkProduct G.detEJ G.weight).map (·, geomDeg)
    else if tdim < 2 then none
    else some (.int 1, .scalar 0)
  | .custom => some (G.weight, .scalar 0)
  | .point => some (.int 1, .scalar 0)
  | .unknown => none

/-- `scale_coordinate_derivative(o, scale)`: the factor is moved inside the CoordinateDerivative nodes at the top;
    `CoordinateDerivative.__new__` returns a Zero integrand as it is -/
def scaleCD (scale : Expr) : Expr → Option Expr
  | .op .coordinateDerivative aux [a, b, c, d] =>
    bindU (scaleCD scale a) fun a' => if isZero a' then some a' else some (.op .coordinateDerivative aux [a', b, c, d])
  | o => mkProduct scale o

/-- the Integral branch of `apply_integral_scaling`: new integrand and new `estimated_polynomial_degree` -/
def applyScaling (G : Syms) (k : IKind) (tdim : Nat) (geomDeg : Deg) (cur : Option Deg) (integrand : Expr) : Option (Expr × Deg) :=
  match factor G k tdim geomDeg with
  | none => none
  | some (scale, deg) => (scaleCD scale integrand).map (·, newDegree cur deg)

/-- the integrand below the CoordinateDerivative nodes at the top -/
def cdBody : Expr → Expr
  | .op .coordinateDerivative _ [a, _, _, _] => cdBody a
  | o => o

/-- the CoordinateDerivative nodes at the top: (aux, coefficients, arguments, coefficient derivatives), outermost first -/
def cdSpine : Expr → List (List Nat × Expr × Expr × Expr)
  | .op .coordinateDerivative aux [a, b, c, d] => (aux, b, c, d) :: cdSpine a
  | _ => []

end UflVerif.Scaling
