/-
Extension of Model/Traversal.lean: state that is SHARED between calls.

* `trav cut rev t vis` of Model/Traversal.lean is already written for an arbitrary `vis`; here it
  is used with a caller-owned `visited` set (`unique_post_traversal(e, visited)`,
  `cutoff_unique_post_traversal(e, cutoff, visited)`): neither function tests whether the ROOT is
  in `visited` (the root is always processed and yielded), only operands are tested.
* `travSeq`: several traversals sharing one set (the loop `for expression in expressions` of
  `map_expr_dags`).
* `preV`: `unique_pre_traversal(e, visited)`.
* `mapDags`: `map_expr_dags(function, expressions, compress, vcache, rcache)` with caller-owned
  `vcache` / `rcache` and the `visited` set created inside the call and shared by the expressions.
* `dagCall2`: `DAGTraverser.__call__` with the cache key `(node, tuple(kwargs.items()))`, the
  result cache (`compress`), and handlers given by the list of `self(o.ufl_operands[i], **kw)` calls
  they make — `@DAGTraverser.postorder` and `@DAGTraverser.postorder_only_children(indices)` are
  instances (`postorder`, `postorderOnly`).
Executable, core Lean only.
-/
import UflVerif.Model.Traversal

namespace UflVerif.Trav

/-! ### a sequence of post-order traversals sharing one `visited` set -/
def travSeq (cut : Tree → Bool) (rev : Bool) : List Tree → List Tree → List (List Tree) × List Tree
  | [], vis => ([], vis)
  | t :: ts, vis =>
    let r := trav cut rev t vis
    let r2 := travSeq cut rev ts r.2
    (r.1 :: r2.1, r2.2)

/-! ### `unique_pre_traversal(expr, visited)`: `visited.add(expr)` then the LIFO loop.
The fuel is the number of iterations; `t.size` always suffices (C19_pre_visited). -/
def preV (t : Tree) (vis : List Tree) : List Tree := preLoop t.size [t] (t :: vis)

/-! ### `map_expr_dags` with caller-owned caches -/

/-- `r2 = rcache.get(r); if r2 is None: rcache[r] = r else: r = r2` — `rcache` maps a result to
    itself, so it is modelled by the list of its keys; `==` on results is structural equality. -/
def compressR {R : Type} [DecidableEq R] (rc : List R) (r : R) : R × List R :=
  match rc.find? (fun x => x == r) with
  | some r2 => (r2, rc)
  | none => (r, r :: rc)

/-- loop body of `map_expr_dags` on the state (vcache, rcache) -/
def mapStepC {R : Type} [DecidableEq R] (cut : Tree → Bool) (h : Tree → List (Option R) → R) (compress : Bool)
    (st : List (Tree × R) × List R) (v : Tree) : List (Tree × R) × List R :=
  match lookup st.1 v with
  | some _ => st
  | none =>
    let r := if cut v then h v [] else h v (v.children.map (lookup st.1))
    let p := if compress then compressR st.2 r else (r, st.2)
    ((v, p.1) :: st.1, p.2)

/-- `for expression in expressions: for v in traversal(expression): ...` ; state = (visited, vcache, rcache) -/
def mapDagsLoop {R : Type} [DecidableEq R] (cut : Tree → Bool) (anyCut : Bool) (h : Tree → List (Option R) → R)
    (compress : Bool) : List Tree → List Tree → List (Tree × R) × List R → List Tree × (List (Tree × R) × List R)
  | [], vis, st => (vis, st)
  | t :: ts, vis, st =>
    let tr := if anyCut then trav cut true t vis else trav (fun _ => false) false t vis
    mapDagsLoop cut anyCut h compress ts tr.2 (tr.1.foldl (mapStepC cut h compress) st)

/-- `map_expr_dags(function, expressions, compress, vcache, rcache)`: results (`vcache[expression]`
    read after the whole loop) and the caches left to the caller. `visited` starts empty in every call. -/
def mapDags {R : Type} [DecidableEq R] (cut : Tree → Bool) (anyCut : Bool) (h : Tree → List (Option R) → R)
    (compress : Bool) (ts : List Tree) (vc : List (Tree × R)) (rc : List R) :
    List (Option R) × (List (Tree × R) × List R) :=
  let f := mapDagsLoop cut anyCut h compress ts [] (vc, rc)
  (ts.map (lookup f.2.1), f.2)

/-! ### `DAGTraverser` with keyword arguments -/

/-- A `process` rule as far as the traverser sees it: which `self(o.ufl_operands[i], **kw)` calls
    it makes (in call order; operand index and the keyword arguments of the call) and how it
    combines the returned values.  Indices outside the operand range are skipped by the model (the
    code raises IndexError); the harness only generates indices in range. -/
structure Handler (R : Type) where
  calls : Tree → Ctx → List (Nat × Ctx)
  combine : Tree → Ctx → List R → R

/-- `@DAGTraverser.postorder`: `[self(operand, **kwargs) for operand in o.ufl_operands]` -/
def postorder {R : Type} (method : Tree → Ctx → List R → R) : Handler R where
  calls := fun t ctx => (List.range t.children.length).map (fun i => (i, ctx))
  combine := method

/-- `@DAGTraverser.postorder_only_children(indices)`: `[self(o.ufl_operands[i], **kwargs) for i in indices]` -/
def postorderOnly {R : Type} (indices : List Nat) (method : Tree → Ctx → List R → R) : Handler R where
  calls := fun _ ctx => indices.map (fun i => (i, ctx))
  combine := method

/-- state of a traverser: visited cache keyed by (node, kwargs items), result cache -/
abbrev DState (R : Type) := Cache R × List R

/-- run the calls of one rule against the operand closures, threading the state -/
def runCalls {R : Type} (kids : List (Ctx → DState R → R × DState R)) :
    List (Nat × Ctx) → DState R → List R × DState R
  | [], st => ([], st)
  | (i, kw) :: rest, st =>
    match kids[i]? with
    | none => runCalls kids rest st
    | some f =>
      let p1 := f kw st
      let p2 := runCalls kids rest p1.2
      (p1.1 :: p2.1, p2.2)

/- `keyf` is what goes into the cache key besides the node: the identity for the code
   (`tuple((k, v) for k, v in kwargs.items())`); `fun _ => []` is the variant whose key drops the
   keyword arguments (C19_dag_kwargs_key_matters). -/
mutual
def dagCall2 {R : Type} [DecidableEq R] (H : Handler R) (compress : Bool) (keyf : Ctx → Ctx) :
    Tree → Ctx → DState R → R × DState R
  | .node l cs, ctx, st =>
    match lookupK st.1 (.node l cs, keyf ctx) with
    | some r => (r, st)
    | none =>
      let p := runCalls (dagKids2 H compress keyf cs) (H.calls (.node l cs) ctx) st
      let r := H.combine (.node l cs) ctx p.1
      let q := if compress then compressR p.2.2 r else (r, p.2.2)
      (q.1, (((.node l cs, keyf ctx), q.1) :: p.2.1, q.2))
def dagKids2 {R : Type} [DecidableEq R] (H : Handler R) (compress : Bool) (keyf : Ctx → Ctx) :
    List Tree → List (Ctx → DState R → R × DState R)
  | [] => []
  | c :: cs => (fun kw st => dagCall2 H compress keyf c kw st) :: dagKids2 H compress keyf cs
end

/-- reference: the same calls without any cache -/
def runCallsT {R : Type} (kids : List (Ctx → R)) : List (Nat × Ctx) → List R
  | [] => []
  | (i, kw) :: rest =>
    match kids[i]? with
    | none => runCallsT kids rest
    | some f => f kw :: runCallsT kids rest

mutual
def dagTree2 {R : Type} (H : Handler R) : Tree → Ctx → R
  | .node l cs, ctx => H.combine (.node l cs) ctx (runCallsT (dagKidsT H cs) (H.calls (.node l cs) ctx))
def dagKidsT {R : Type} (H : Handler R) : List Tree → List (Ctx → R)
  | [] => []
  | c :: cs => (fun kw => dagTree2 H c kw) :: dagKidsT H cs
end

/- plain post-order recursion with the same keyword arguments at every node -/
mutual
def postTree {R : Type} (method : Tree → Ctx → List R → R) : Tree → Ctx → R
  | .node l cs, ctx => method (.node l cs) ctx (postTreeL method cs ctx)
def postTreeL {R : Type} (method : Tree → Ctx → List R → R) : List Tree → Ctx → List R
  | [], _ => []
  | c :: cs, ctx => postTree method c ctx :: postTreeL method cs ctx
end

end UflVerif.Trav
