/-
Model of the *pipeline* of `compute_form_data` (ufl/algorithms/compute_form_data.py + FormData.__init__):
which passes run, in which order, for which options.  Core Lean only.

What is NOT written here: the sequence of calls and their guards.  That is `Gen/Pipeline.lean`,
regenerated on every run from the AST of the live module (harness/translate/pipeline.py).

What IS hand-written here (and compared with the implementation on every run by the trace
correspondence of harness/props/c01.py):
  * `classify`   which recorded callee is which pass / an analysis helper / unknown;
  * `pipeline`   the passes that run under a valuation of the guard atoms (`none` = the option
                 combination raises), with the arguments `lowering_preserve_types` /
                 `default_restrictions` resolved through the recorded assignments;
  * the stage lattice: `Feat` (kinds of nodes an integrand may still contain), and for every pass
    which kinds it needs absent, removes, and may introduce (`needsAbsent`, `removes`, `adds`);
  * `finalOK`    what the options promise about the result.
-/
import UflVerif.Model.PipelineSyntax

namespace UflVerif.Pipeline

/-! ## passes -/

inductive PassId
  | comparisonCheck            -- do_comparison_check            (complex mode)
  | algebraLowering            -- apply_algebra_lowering          C06
  | removeComplex              -- remove_complex_nodes            C23
  | applyDerivatives           -- apply_derivatives               C02-C04
  | groupIntegrals             -- group_form_integrals            C15
  | estimateDegrees            -- attach_estimated_degrees        C18 (metadata only)
  | pullbacks                  -- apply_function_pullbacks        C08
  | scaling                    -- apply_integral_scaling          C01_scale
  | geomLower (keepJ : Bool)   -- apply_geometry_lowering; keepJ: Jacobian, JacobianInverse, JacobianDeterminant preserved   C07
  | rct                        -- remove_component_tensors        C10
  | cancelJ                    -- cancel_jacobian_products        C09
  | coordDerivs                -- apply_coordinate_derivatives
  | buildIntegralData          -- build_integral_data             C15
  | replaceFunctions           -- replace(integrand, function_replace_map)   C21
  | propagateOnly              -- apply_restrictions(integral)    (coefficient splitting branch)   C17
  | splitCoefficients          -- CoefficientSplitter
  | restrictions (defaults : Bool)   -- apply_restrictions(integral, default_restrictions = dict | None)   C17
  | checkArity                 -- check_integrand_arity           C14 (raises or returns nothing)
  | unknown (fn : String)
  deriving DecidableEq, Repr, Inhabited

def PassId.name : PassId → String
  | .comparisonCheck => "comparisonCheck" | .algebraLowering => "algebraLowering" | .removeComplex => "removeComplex"
  | .applyDerivatives => "applyDerivatives" | .groupIntegrals => "groupIntegrals" | .estimateDegrees => "estimateDegrees"
  | .pullbacks => "pullbacks" | .scaling => "scaling" | .geomLower true => "geomLower:keepJ" | .geomLower false => "geomLower:all"
  | .rct => "rct" | .cancelJ => "cancelJ" | .coordDerivs => "coordDerivs" | .buildIntegralData => "buildIntegralData"
  | .replaceFunctions => "replaceFunctions" | .propagateOnly => "propagateOnly" | .splitCoefficients => "splitCoefficients"
  | .restrictions true => "restrictions:defaults" | .restrictions false => "restrictions:nodefaults"
  | .checkArity => "checkArity" | .unknown fn => "unknown:" ++ fn

/-- a number per pass (the set of passes that ran is carried as a bit mask) -/
def PassId.code : PassId → Nat
  | .comparisonCheck => 0 | .algebraLowering => 1 | .removeComplex => 2 | .applyDerivatives => 3 | .groupIntegrals => 4
  | .estimateDegrees => 5 | .pullbacks => 6 | .scaling => 7 | .geomLower false => 8 | .geomLower true => 9 | .rct => 10
  | .cancelJ => 11 | .coordDerivs => 12 | .buildIntegralData => 13 | .replaceFunctions => 14 | .propagateOnly => 15
  | .splitCoefficients => 16 | .restrictions true => 17 | .restrictions false => 18 | .checkArity => 19 | .unknown _ => 20

/-- the set of passes in a list, as a bit mask over `PassId.code` -/
def seenOf (ps : List PassId) : Nat := ps.foldl (fun m p => m ||| 2 ^ p.code) 0

/-- what a recorded row is -/
inductive RowClass
  | pass (p : PassId)     -- rewrites (or checks) integrands
  | analysis              -- reads integrands / builds auxiliary objects, rewrites nothing
  | structural            -- inline marker, assignment, `.reconstruct`
  | raises
  | unknown
  deriving DecidableEq, Repr, Inhabited

/-- callees that only read: they return coefficients, domains, degrees, fresh terminals or containers -/
def analysisFns : List String :=
  ["extract_coefficients", "extract_unique_domain", "extract_domains", "traverse_unique_terminals",
   "FunctionSpace", "Coefficient", "CoefficientSplitter", "Form"]

/-- value (source text) of a local name under a valuation: the last active assignment -/
def lookupVar (vars : List (String × String)) (x : String) : Option String :=
  (vars.find? (·.1 == x)).map (·.2)

def preserveAll : String := "preserve_geometry_types"
def preserveKeepJ : String := "set(preserve_geometry_types) | {Jacobian, JacobianInverse, JacobianDeterminant}"

/-- the pass a `call` row stands for; `vars` resolves arguments that are local names -/
def passOfCall (vars : List (String × String)) (r : Row) : RowClass :=
  let resolve (a : String) : String := (lookupVar vars a).getD a
  match r.fn, r.args ++ r.kwargs.map (fun k => k.1 ++ "=" ++ k.2) with
  | "do_comparison_check", [_] => .pass .comparisonCheck
  | "apply_algebra_lowering", [_] => .pass .algebraLowering
  | "remove_complex_nodes", [_] => .pass .removeComplex
  | "apply_derivatives", [_] => .pass .applyDerivatives
  | "group_form_integrals", _ => .pass .groupIntegrals
  | "estimate_total_polynomial_degree", [_] => .pass .estimateDegrees
  | "apply_function_pullbacks", [_] => .pass .pullbacks
  | "apply_integral_scaling", [_] => .pass .scaling
  | "apply_geometry_lowering", [_, pt] =>
    let v := resolve pt
    if v == preserveAll then .pass (.geomLower false)
    else if v == preserveKeepJ then .pass (.geomLower true)
    else .unknown
  | "remove_component_tensors", [_] => .pass .rct
  | "cancel_jacobian_products", [_] => .pass .cancelJ
  | "apply_coordinate_derivatives", [_] => .pass .coordDerivs
  | "build_integral_data", [_] => .pass .buildIntegralData
  | "replace", [_, _] => .pass .replaceFunctions
  | "apply_restrictions", [_] => .pass .propagateOnly
  | "apply_restrictions", [_, kw] =>
    if kw == "default_restrictions=default_restrictions" then
      match lookupVar vars "default_restrictions" with
      | some "None" => .pass (.restrictions false)
      | some _ => .pass (.restrictions true)
      | none => .unknown
    else .unknown
  | "CoefficientSplitter.__call__", [_] => .pass .splitCoefficients
  | "check_integrand_arity", _ => .pass .checkArity
  | ".reconstruct", _ => .structural
  | fn, _ => if analysisFns.contains fn then .analysis else .unknown

def classify (vars : List (String × String)) (r : Row) : RowClass :=
  if r.kind == "call" then passOfCall vars r
  else if r.kind == "inline" || r.kind == "assign" then .structural
  else if r.kind == "raise" then .raises
  else .unknown

/-- classification that does not depend on the valuation (every variable-valued argument resolved to
    *some* recorded assignment): used to decide which rows and atoms matter -/
def staticVars (rows : List Row) : List (String × String) :=
  rows.filterMap fun a => if a.kind == "assign" then some (a.fn, a.args.headD "") else none

def classifyStatic (rows : List Row) (r : Row) : RowClass := classify (staticVars rows) r

def isPassClass : RowClass → Bool
  | .pass _ => true
  | _ => false

/-- every row with "it is a pass" (computed once: the string comparisons of `classify` are what costs in the kernel) -/
def rowInfo (rows : List Row) : List (Row × Bool) :=
  let vars := staticVars rows
  rows.map fun r => (r, isPassClass (classify vars r))

/-- local names (positions) that some pass row passes on -/
def usedVars (info : List (Row × Bool)) : List Nat := (info.filter (·.2)).flatMap (·.1.vars)

/-- a row decides which passes run with which arguments: a pass row, or an assignment to a name a pass row passes on -/
def isRelevant (used : List Nat) (p : Row × Bool) : Bool := p.2 || (p.1.kind == "assign" && p.1.vars.any used.contains)

def relevantRows (rows : List Row) : List Row :=
  let info := rowInfo rows
  (info.filter (isRelevant (usedVars info))).map (·.1)

/-- atoms (positions) that guard a pass or one of its arguments: the valuations the theorems enumerate -/
def relevantAtoms (rows : List Row) : List Nat := ((relevantRows rows).flatMap Row.atoms).eraseDups

/-- the rows `pipelineOf` looks at: the relevant rows and the `raise` statements whose guard mentions only relevant
    atoms (the other raises are conditions on the data: an element without cell, a facet quantity in a cell integral) -/
def liveRows (rows : List Row) : List Row :=
  let info := rowInfo rows
  let used := usedVars info
  let relAtoms := (((info.filter (isRelevant used)).map (·.1)).flatMap Row.atoms).eraseDups
  (info.filter fun p => isRelevant used p || (p.1.kind == "raise" && p.1.atoms.all relAtoms.contains)).map (·.1)

/-! ### compiled form: local names and their values interned as numbers (the kernel runs the pipeline under every
valuation; the source strings are looked at once) -/

/-- values a local name can have, as far as the passes care -/
def valId (s : String) : Nat :=
  if s == preserveAll then 0 else if s == preserveKeepJ then 1 else if s == "None" then 2 else 3

inductive CAct
  | pass (p : PassId)
  | geom (var : Nat)       -- apply_geometry_lowering(form, <local name>)
  | restr (var : Nat)      -- apply_restrictions(integral, default_restrictions=<local name>)
  | assign (var val : Nat)
  | raises
  deriving Repr, Inhabited

structure CStep where
  guards : List BExp
  act : CAct
  deriving Repr, Inhabited

def passOr (r : Row) : CAct :=
  match passOfCall [] r with
  | .pass p => .pass p
  | _ => .pass (.unknown r.fn)

def compileRow (r : Row) : CStep :=
  if r.kind == "assign" then ⟨r.guards, .assign (r.vars.headD 0) (valId (r.args.headD ""))⟩
  else if r.kind == "raise" then ⟨r.guards, .raises⟩
  else match r.fn, r.args, r.kwargs with
    | "apply_geometry_lowering", [_, _], [] =>
      (match r.vars with
       | [x] => ⟨r.guards, .geom x⟩            -- the preserved types are a local name
       | _ => ⟨r.guards, passOr r⟩)
    | "apply_restrictions", [_], [("default_restrictions", _)] =>
      (match r.vars with
       | [x] => ⟨r.guards, .restr x⟩
       | _ => ⟨r.guards, .pass (.unknown r.fn)⟩)
    | _, _, _ => ⟨r.guards, passOr r⟩

def compile (rows : List Row) : List CStep := (liveRows rows).map compileRow

/-! ## stage lattice -/

/-- kinds of nodes an integrand may contain ("may" analysis: a stage is the set of kinds that may still be present) -/
inductive Feat
  | compound      -- compound tensor algebra / compound derivative operators (dot, inner, det, div, curl, ...)
  | complexNode   -- Conj / Real / Imag
  | openDeriv     -- a derivative applied to a non-terminal: Grad / ReferenceGrad of an operator, VariableDerivative, CoefficientDerivative
  | coordDeriv    -- CoordinateDerivative
  | physArg       -- a coefficient / argument outside ReferenceValue
  | argGrad       -- Grad of a coefficient / argument
  | jacSym        -- Jacobian / JacobianInverse / JacobianDeterminant
  | highGeom      -- a geometric quantity that geometry lowering rewrites on affine cells (normals, volumes, radii, facet Jacobians, ...)
  | openRestr     -- a restriction applied to an operator (not yet propagated to terminals)
  deriving DecidableEq, Repr, Inhabited

def Feat.name : Feat → String
  | .compound => "compound" | .complexNode => "complexNode" | .openDeriv => "openDeriv" | .coordDeriv => "coordDeriv"
  | .physArg => "physArg" | .argGrad => "argGrad" | .jacSym => "jacSym" | .highGeom => "highGeom" 
  | .openRestr => "openRestr"

def allFeats : List Feat :=
  [.compound, .complexNode, .openDeriv, .coordDeriv, .physArg, .argGrad, .jacSym, .highGeom, .openRestr]

/-- a stage is a set of kinds, stored as a bit mask so that the kernel handles it with its built-in arithmetic -/
abbrev Stage := Nat

def Feat.bit : Feat → Nat
  | .compound => 1 | .complexNode => 2 | .openDeriv => 4 | .coordDeriv => 8 | .physArg => 16 | .argGrad => 32
  | .jacSym => 64 | .highGeom => 128 | .openRestr => 256

def mask : List Feat → Nat
  | [] => 0
  | f :: fs => f.bit ||| mask fs

def Stage.has (s : Stage) (f : Feat) : Bool := s &&& f.bit != 0

def Stage.toList (s : Stage) : List Feat := allFeats.filter s.has

/-- kinds that must be absent when the pass starts (it raises or is wrong otherwise) -/
def needsAbsent : PassId → List Feat
  | .applyDerivatives => [.compound]           -- the derivative rulesets have no rule for compound operators
  | .pullbacks => [.openDeriv]                 -- "apply differentiation before function pullbacks": no derivative w.r.t. a coefficient may be pending
  | .cancelJ => [.openDeriv]                   -- "assumes that derivatives have been expanded" (that component tensors were removed first is an order constraint, `ordStep`)
  | .splitCoefficients => [.openRestr]         -- "propagate restrictions as required by CoefficientSplitter"
  | _ => []

/-- kinds the pass eliminates -/
def removes : PassId → List Feat
  | .algebraLowering => [.compound]
  | .removeComplex => [.complexNode]
  | .applyDerivatives => [.openDeriv]
  | .pullbacks => [.physArg, .argGrad]
  | .geomLower true => [.highGeom]
  | .geomLower false => [.highGeom, .jacSym]
  | .coordDerivs => [.coordDeriv]
  | .propagateOnly => [.openRestr]
  | .restrictions _ => [.openRestr]
  | _ => []

/-- kinds the pass may introduce, given the stage it starts from -/
def adds (s : Stage) : PassId → List Feat
  | .comparisonCheck => [.complexNode]
  | .algebraLowering => if s.has .compound then [.openDeriv, .complexNode] else []
  | .applyDerivatives =>
    if s.has .openDeriv then [.jacSym, .complexNode] ++ (if s.has .physArg then [.argGrad] else []) else []     -- d|f| = sign(Re f) df
  | .pullbacks =>
    if s.has .physArg then [.jacSym] ++ (if s.has .argGrad then [.openDeriv] else []) else []
  | .scaling => [.jacSym, .highGeom]
  | .geomLower keepJ =>
    if s.has .highGeom || (!keepJ && s.has .jacSym) then
      [.complexNode, .openRestr] ++ (if keepJ && s.has .highGeom then [.jacSym] else [])
    else []
  | _ => []

/-- one pass: `none` if its precondition is not established -/
def step (s : Stage) (p : PassId) : Option Stage :=
  if s &&& mask (needsAbsent p) != 0 then none
  else some ((s - (s &&& mask (removes p))) ||| mask (adds s p))

def runStages : Stage → List PassId → Option Stage
  | s, [] => some s
  | s, p :: ps => match step s p with
    | some s' => runStages s' ps
    | none => none

/-- the stages after each pass (for the trace correspondence) -/
def stagesAlong : Stage → List PassId → List (Option Stage)
  | _, [] => []
  | s, p :: ps => match step s p with
    | some s' => some s' :: stagesAlong s' ps
    | none => [none]

/-- a user-level integrand may contain anything -/
def initialStage : Stage := mask allFeats

/-! ## explicit order constraints, as an automaton over the pass list -/

structure Ord where
  /-- apply_algebra_lowering has run -/
  lowered : Bool := false
  /-- a pass that may create derivative nodes ran after the last apply_derivatives -/
  needDerivs : Bool := false
  /-- Jacobians were preserved (for cancel_jacobian_products) by the last geometry lowering -/
  needLower : Bool := false
  /-- remove_component_tensors ran and nothing that builds component tensors ran since -/
  rctFresh : Bool := false
  /-- restrictions have been propagated -/
  restricted : Bool := false
  /-- pullbacks / scaling / geometry lowering ran (degree estimation has to come before them) -/
  geomTouched : Bool := false
  /-- build_integral_data ran (FormData's per-integral passes come after it, form passes before it) -/
  built : Bool := false
  /-- the integrands were scaled (at least once / more than once) -/
  scaled : Bool := false
  scaledTwice : Bool := false
  /-- an order constraint was violated -/
  bad : Bool := false
  deriving Repr, DecidableEq, Inhabited

def ordStep (o : Ord) : PassId → Ord
  | .comparisonCheck => { o with bad := o.bad || o.lowered || o.built }
  | .algebraLowering => { o with lowered := true, needDerivs := true, rctFresh := false, bad := o.bad || o.restricted || o.built }
  | .removeComplex => { o with bad := o.bad || o.built }
  | .applyDerivatives => { o with needDerivs := false, rctFresh := false, bad := o.bad || !o.lowered || o.restricted || o.built }
  | .groupIntegrals => { o with bad := o.bad || o.built }
  | .estimateDegrees => { o with bad := o.bad || o.geomTouched || o.built }
  | .pullbacks => { o with needDerivs := true, geomTouched := true, rctFresh := false, bad := o.bad || o.restricted || o.built }
  | .scaling => { o with scaled := true, scaledTwice := o.scaledTwice || o.scaled, geomTouched := true, bad := o.bad || o.restricted || o.built }
  | .geomLower keepJ =>
    { o with needDerivs := true, geomTouched := true, rctFresh := false, needLower := keepJ, bad := o.bad || o.restricted || o.built }
  | .rct => { o with rctFresh := true, bad := o.bad || o.restricted || o.built }
  | .cancelJ => { o with bad := o.bad || !o.rctFresh || o.needDerivs || o.restricted || o.built }
  | .coordDerivs => { o with rctFresh := false, bad := o.bad || o.restricted || o.built }
  | .buildIntegralData => { o with built := true }
  | .replaceFunctions => { o with bad := o.bad || !o.built || o.restricted }
  | .propagateOnly => { o with restricted := true, bad := o.bad || !o.built }
  | .splitCoefficients => { o with bad := o.bad || !o.built || !o.restricted }
  | .restrictions _ => { o with restricted := true, bad := o.bad || !o.built }
  | .checkArity => { o with bad := o.bad || !o.built }
  | .unknown _ => { o with bad := true }

def ordOf (ps : List PassId) : Ord := ps.foldl ordStep {}

/-! ## running the compiled rows -/

/-- what is carried along the rows: the values of local names, the passes run so far (latest first), the stage and the
    order automaton after them, and whether an option-level `raise` was reached -/
structure Carry where
  env : List (Nat × Nat) := []
  acc : List PassId := []
  stage : Option Stage := some initialStage
  ord : Ord := {}
  /-- the set of passes run so far (`seenOf`) -/
  seen : Nat := 0
  raised : Bool := false
  deriving Repr, Inhabited

def Carry.push (c : Carry) (p : PassId) : Carry :=
  { c with acc := p :: c.acc, stage := c.stage.bind (step · p), ord := ordStep c.ord p, seen := c.seen ||| 2 ^ p.code }

def lookupEnv (env : List (Nat × Nat)) (x : Nat) : Option Nat := (env.find? (·.1 == x)).map (·.2)

/-- one compiled row under the valuation `v` -/
def stepOne (v : Nat → Bool) (st : CStep) (c : Carry) : Carry :=
  if c.raised then c
  else if !st.guards.all (·.eval v) then c
  else match st.act with
    | .assign x val => { c with env := (x, val) :: c.env }
    | .raises => { c with raised := true }
    | .pass p => c.push p
    | .geom x =>
      (match lookupEnv c.env x with
       | some 0 => c.push (.geomLower false)
       | some 1 => c.push (.geomLower true)
       | _ => c.push (.unknown "apply_geometry_lowering"))
    | .restr x =>
      (match lookupEnv c.env x with
       | some 2 => c.push (.restrictions false)
       | some _ => c.push (.restrictions true)
       | none => c.push (.unknown "apply_restrictions"))

def runCarry (v : Nat → Bool) : List CStep → Carry → Carry
  | [], c => c
  | st :: rest, c => runCarry v rest (stepOne v st c)

def Carry.result (c : Carry) : Option (List PassId) := if c.raised then none else some c.acc.reverse

/-- THE MODEL: the passes `compute_form_data` runs, in order, under the valuation `v` of the guard atoms
    (`none`: the option combination raises) -/
def pipelineOf (rows : List Row) (v : Nat → Bool) : Option (List PassId) := (runCarry v (compile rows) {}).result

/-! ## what the options promise -/

def isRestrictionPass : PassId → Bool
  | .restrictions _ => true
  | .propagateOnly => true
  | _ => false

def isUnknownPass : PassId → Bool
  | .unknown _ => true
  | _ => false

/-- positions (in the generated `atoms` list) of the atoms the promises mention -/
structure AtomIdx where
  complex : Nat
  degrees : Nat
  pullbacks : Nat
  scaling : Nat
  cancel : Nat
  lowering : Nat
  rct : Nat
  replace : Nat
  noSplit : Nat
  restrictions : Nat
  /-- data, not an option: "no domain of this integral data has an interior-facet integral type" -/
  noInterior : Nat
  defaultRestr : Nat
  deriving Repr

def noInteriorAtom : String :=
  "?all((not integral_type.startswith('interior_facet') for _, integral_type in itg_data.domain_integral_type_map.items()))"

/-- the condition on data that guards the propagation of restrictions: the atom beyond the `2 n` parameter atoms in the
    guard of the `apply_restrictions(integral, default_restrictions=..)` row (numbers only: evaluated by the kernel) -/
def dataAtomOfRestr (nparams : Nat) (steps : List CStep) : Nat :=
  match steps.find? (fun st => match st.act with | .restr _ => true | _ => false) with
  | some st => ((st.guards.flatMap BExp.atoms).find? (fun a => decide (a ≥ 2 * nparams))).getD 0
  | none => 0

/-- positions of the atoms: parameter i of `compute_form_data(form, p0, p1, ...)` sits at i, `<parameter i> is None` at
    n + i (the translator's canonical numbering; `C01_atoms_found` checks the names at these positions) -/
def atomIdx (nparams : Nat) (steps : List CStep) : AtomIdx :=
  { pullbacks := 0, scaling := 1, lowering := 2, cancel := 4, defaultRestr := 5, restrictions := 6, degrees := 7, replace := 9,
    complex := 11, rct := 12, noSplit := nparams + 10, noInterior := dataAtomOfRestr nparams steps }

/-- the names the positions of `atomIdx` are supposed to carry -/
def atomNamesOK (atoms : List String) (ix : AtomIdx) : Bool :=
  atoms[ix.pullbacks]? == some "do_apply_function_pullbacks" && atoms[ix.scaling]? == some "do_apply_integral_scaling"
  && atoms[ix.lowering]? == some "do_apply_geometry_lowering" && atoms[ix.cancel]? == some "do_cancel_jacobian_products"
  && atoms[ix.defaultRestr]? == some "do_apply_default_restrictions" && atoms[ix.restrictions]? == some "do_apply_restrictions"
  && atoms[ix.degrees]? == some "do_estimate_degrees" && atoms[ix.replace]? == some "do_replace_functions"
  && atoms[ix.complex]? == some "complex_mode" && atoms[ix.rct]? == some "do_remove_component_tensors"
  && atoms[ix.noSplit]? == some "coefficients_to_split is None" && atoms[ix.noInterior]? == some noInteriorAtom

def AtomIdx.all (ix : AtomIdx) : List Nat :=
  [ix.complex, ix.degrees, ix.pullbacks, ix.scaling, ix.cancel, ix.lowering, ix.rct, ix.replace, ix.noSplit, ix.restrictions,
   ix.noInterior, ix.defaultRestr]

/-- `2 ^ code p` if `b`, else nothing -/
def bitIf (b : Bool) (p : PassId) : Nat := if b then 2 ^ p.code else 0

/-- the set of passes a valuation asks for (as a `seenOf` mask): algebra lowering, derivatives, grouping, coordinate
    derivatives, build_integral_data and the arity check always; the comparison check iff complex mode,
    remove_complex_nodes iff real mode, degree estimation iff do_estimate_degrees, pullbacks / scaling / geometry lowering
    iff requested, cancel_jacobian_products (with Jacobians preserved before it) iff requested together with geometry
    lowering, remove_component_tensors iff requested or needed by the cancellation, replace iff do_replace_functions,
    restriction propagation iff do_apply_restrictions and the integral data has an interior facet (with default
    restrictions iff do_apply_default_restrictions), coefficient splitting iff coefficients_to_split is given -/
def expectedSeen (ix : AtomIdx) (v : Nat → Bool) : Nat :=
  let restr := v ix.restrictions && !v ix.noInterior
  let cancel := v ix.lowering && v ix.cancel
  bitIf true .algebraLowering ||| bitIf true .applyDerivatives ||| bitIf true .groupIntegrals ||| bitIf true .coordDerivs
  ||| bitIf true .buildIntegralData ||| bitIf true .checkArity
  ||| bitIf (v ix.complex) .comparisonCheck ||| bitIf (!v ix.complex) .removeComplex
  ||| bitIf (v ix.degrees) .estimateDegrees ||| bitIf (v ix.pullbacks) .pullbacks ||| bitIf (v ix.scaling) .scaling
  ||| bitIf (v ix.lowering) (.geomLower false) ||| bitIf cancel (.geomLower true) ||| bitIf cancel .cancelJ
  ||| bitIf (v ix.rct || cancel) .rct ||| bitIf (v ix.replace) .replaceFunctions
  ||| bitIf (!v ix.noSplit) .splitCoefficients ||| bitIf (!v ix.noSplit) .propagateOnly
  ||| bitIf (restr && v ix.defaultRestr) (.restrictions true) ||| bitIf (restr && !v ix.defaultRestr) (.restrictions false)

/-- each optional pass runs if and only if its options say so, and no call is unknown: the set of passes that ran IS the
    expected set -/
def requestedOK (ix : AtomIdx) (v : Nat → Bool) (seen : Nat) : Bool := seen == expectedSeen ix v

/-- a restriction pass ran (codes of propagateOnly, restrictions true / false) -/
def restrictionBits : Nat := 2 ^ 15 ||| 2 ^ 17 ||| 2 ^ 18

/-- kinds the options promise to be absent at the end (for `preserve_geometry_types = ()`), given the passes that ran -/
def forbidden (ix : AtomIdx) (v : Nat → Bool) (seen : Nat) : List Feat :=
  [.compound, .openDeriv, .coordDeriv]
  ++ (if v ix.complex then [] else [.complexNode])
  ++ (if v ix.pullbacks then [.physArg, .argGrad] else [])
  ++ (if v ix.lowering then [.highGeom, .jacSym] else [])
  ++ (if seen &&& restrictionBits != 0 then [.openRestr] else [])

/-- the final stage is the one the valuation promises: none of the forbidden kinds may be present -/
def finalOK (ix : AtomIdx) (v : Nat → Bool) (seen : Nat) (s : Stage) : Bool := s &&& mask (forbidden ix v seen) == 0

/-- the order automaton ends in an accepting state: nothing violated, no derivative or preserved Jacobian pending,
    scaled once iff requested -/
def ordOK (ix : AtomIdx) (v : Nat → Bool) (o : Ord) : Bool :=
  !o.bad && !o.needDerivs && !o.needLower && !o.scaledTwice && (o.scaled == v ix.scaling)

/-- everything the kernel checks about the run under one valuation -/
def carryOK (ix : AtomIdx) (v : Nat → Bool) (c : Carry) : Bool :=
  if c.raised then !v ix.noSplit && !v ix.replace          -- the only option-level raise: coefficients_to_split without do_replace_functions
  else
    (v ix.noSplit || v ix.replace) &&
    ordOK ix v c.ord &&
    requestedOK ix v c.seen &&
    (match c.stage with
     | some s => finalOK ix v c.seen s
     | none => false)

/-! ## exploring all valuations, branching on an atom only when a guard needs it -/

/-- the valuation whose true atoms are the bits of `m` -/
def valOfMask (m : Nat) : Nat → Bool := fun i => m.testBit i

def firstUndecided (d : List Nat) (as : List Nat) : Option Nat := as.find? fun a => !d.contains a

def CStep.atoms (st : CStep) : List Nat := st.guards.flatMap BExp.atoms

/-- `explore leaf need fuel steps d m c`: run `steps` from `c` under the valuation `valOfMask m`; whenever a row's guard
    mentions an atom that is not yet decided (not in `d`), branch on it; at the end decide the atoms in `need` and ask
    `leaf`.  `true` means `leaf` holds for the run under EVERY valuation that agrees with `m` on `d` (`explore_sound`). -/
def explore (leaf : Nat → Carry → Bool) (need : List Nat) :
    Nat → List CStep → List Nat → Nat → Carry → Bool
  | 0, _, _, _, _ => false
  | fuel + 1, [], d, m, c =>
    (match firstUndecided d need with
     | some a => explore leaf need fuel [] (a :: d) m c && explore leaf need fuel [] (a :: d) (m ||| 2 ^ a) c
     | none => leaf m c)
  | fuel + 1, st :: rest, d, m, c =>
    (match firstUndecided d st.atoms with
     | some a =>
       explore leaf need fuel (st :: rest) (a :: d) m c && explore leaf need fuel (st :: rest) (a :: d) (m ||| 2 ^ a) c
     | none => explore leaf need fuel rest d m (stepOne (valOfMask m) st c))

/-- number of leaves `explore` visits (reported in the evidence) -/
def countLeaves (need : List Nat) : Nat → List CStep → List Nat → Nat
  | 0, _, _ => 0
  | fuel + 1, [], d =>
    (match firstUndecided d need with
     | some a => 2 * countLeaves need fuel [] (a :: d)
     | none => 1)
  | fuel + 1, st :: rest, d =>
    (match firstUndecided d st.atoms with
     | some a => 2 * countLeaves need fuel (st :: rest) (a :: d)
     | none => countLeaves need fuel rest d)

/-! ## order predicates on pass lists (used to read the automaton's verdict) -/

/-- every occurrence of `a` is followed (later in the list) by an occurrence of `b` -/
def followedBy (a b : PassId → Bool) : List PassId → Bool
  | [] => true
  | p :: ps => (!a p || ps.any b) && followedBy a b ps

/-- no occurrence of `b` after an occurrence of `a` -/
def noneAfter (a b : PassId → Bool) : List PassId → Bool
  | [] => true
  | p :: ps => (!a p || !ps.any b) && noneAfter a b ps

def isGeomLower : PassId → Bool
  | .geomLower _ => true
  | _ => false

/-- passes that create terminals (reference values, Jacobians, scale factors, ...) -/
def createsTerminals : PassId → Bool
  | .pullbacks | .scaling | .geomLower _ | .applyDerivatives | .coordDerivs | .algebraLowering => true
  | _ => false

/-! ## dataflow: the rewritten form / integrand is the one passed on -/

def formPasses : List String :=
  ["do_comparison_check", "apply_algebra_lowering", "remove_complex_nodes", "apply_derivatives", "group_form_integrals",
   "apply_function_pullbacks", "apply_integral_scaling", "apply_geometry_lowering", "remove_component_tensors",
   "cancel_jacobian_products", "apply_coordinate_derivatives"]

/-- a row threads its data correctly:
    form-level passes are `form = pass(form, ..)`; inlined `preprocess_form` / `attach_estimated_degrees` take and return
    the form; degree estimation only rewrites metadata; FormData's integrand passes are `integrand = pass(integral.integrand(), ..)`
    followed by `integral.reconstruct(integrand=integrand)`, its integral passes `new_integral = apply_restrictions(integral, ..)` -/
def threaded (formParam : String) (r : Row) : Bool :=
  if r.kind == "call" && formPasses.contains r.fn then r.target == formParam && r.args.head? == some formParam
  else if r.kind == "call" && r.fn == "build_integral_data" then r.args == [formParam ++ ".integrals()"]
  else if r.kind == "inline" && (r.fn == "preprocess_form" || r.fn == "attach_estimated_degrees") then
    r.target == formParam && r.args.take 2 == [formParam, formParam] && r.args.drop 2 != [""]
  else if r.kind == "call" && r.fn == ".reconstruct" then
    (if r.ctx == "attach_estimated_degrees" then r.args == ["integral"] && r.kwargs == [("metadata", "md")]
     else r.args == ["integral"] && r.kwargs == [("integrand", "integrand")])
  else if r.kind == "call" && (r.fn == "replace" || r.fn == "CoefficientSplitter.__call__") then
    r.target == "integrand" && r.args.head? == some "integral.integrand()"
  else if r.kind == "call" && r.fn == "apply_restrictions" then r.target == "new_integral" && r.args.head? == some "integral"
  else if r.kind == "call" && r.fn == "check_integrand_arity" then r.args.head? == some "itg.integrand()"
  else if r.kind == "call" && r.fn == "estimate_total_polynomial_degree" then r.args == ["integral.integrand()"]
  else true

end UflVerif.Pipeline
