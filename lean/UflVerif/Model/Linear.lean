/-
Syntactic linearity of an expression in a family of terminals (decidable):
`LinIn P e`  : `e` is homogeneous linear in the terminals whose key satisfies `P` (sums, scalings by `P`-free
               factors, index notation, list tensors, conditionals on `P`-free conditions, variables,
               restrictions, conjugation, gradients of `P`-terminals);
`FreeOf P e` : no terminal with a `P`-key occurs in `e`.
The semantic content (additivity of `eval`) is Sem/Linear.lean.
-/
import UflVerif.Model.Eval

namespace UflVerif
namespace Expr

abbrev KeyP := String → Bool

mutual
def FreeOf (P : KeyP) : Expr → Bool
  | .term d => !P d.key
  | .op _ _ args => FreeOfL P args
  | _ => true
def FreeOfL (P : KeyP) : List Expr → Bool
  | [] => true
  | a :: as => FreeOf P a && FreeOfL P as
end

mutual
def LinIn (P : KeyP) : Expr → Bool
  | .term d => P d.key && d.cls != "Identity" && d.cls != "Label"
  | .zero _ _ => true
  | .op k _ args =>
    match k, args with
    | .sum, [a, b] => LinIn P a && LinIn P b
    | .product, [a, b] => (LinIn P a && FreeOf P b) || (FreeOf P a && LinIn P b)
    | .division, [a, b] => LinIn P a && FreeOf P b
    | .conj, [a] | .real, [a] | .imag, [a] => LinIn P a
    | .indexed, [a, .mi _] => LinIn P a
    | .indexSum, [a, .mi [.free _]] => LinIn P a
    | .componentTensor, [a, .mi _] => LinIn P a
    | .listTensor, xs => LinInL P xs
    | .conditional, [c, t, f] => FreeOf P c && LinIn P t && LinIn P f
    | .variable, [a, _] => LinIn P a
    | .positiveRestricted, [a] | .negativeRestricted, [a] => LinIn P a
    | .grad, [a] => (match gradChain a with
        | some (d, _) => P d.key
        | none => false)
    | _, _ => false
  | _ => false
def LinInL (P : KeyP) : List Expr → Bool
  | [] => true
  | a :: as => LinIn P a && LinInL P as
end

end Expr
end UflVerif
