/-
Model of `LowerCompoundAlgebra` on arbitrary operands: the tree the real code returned for
coefficient operands `A`, `B` of the same shapes (Gen/Compound_*.lean, regenerated every run),
with its bound indices renamed apart from the operands' indices and `A`, `B` replaced by the
operands through the modelled `replace` (which rebuilds every touched node through the
constructors, as the lowering does when it builds the expression bottom-up).
-/
import UflVerif.Model.Replace
import UflVerif.Model.Order
import UflVerif.Model.CompoundCase

namespace UflVerif
namespace Expr

def idxShift (k : Nat) : Idx → Idx
  | .free c => .free (c + k)
  | i => i

mutual
def shiftIdx (k : Nat) : Expr → Expr
  | .mi is => .mi (is.map (idxShift k))
  | .zero sh f => .zero sh (f.map fun p => (p.1 + k, p.2))
  | .op o aux args => .op o aux (shiftIdxL k args)
  | e => e
def shiftIdxL (k : Nat) : List Expr → List Expr
  | [] => []
  | a :: as => shiftIdx k a :: shiftIdxL k as
end

mutual
/-- 1 + the largest index count occurring anywhere in the expression (0 if none) -/
def idxBound : Expr → Nat
  | .mi is => is.foldl (fun m i => match i with | .free c => max m (c + 1) | _ => m) 0
  | .zero _ f => f.foldl (fun m p => max m (p.1 + 1)) 0
  | .op _ _ args => idxBoundL args
  | _ => 0
def idxBoundL : List Expr → Nat
  | [] => 0
  | a :: as => max (idxBound a) (idxBoundL as)
end

def findCase (cases : List Gen.Compound.Case) (shA shB : List Nat) (gdim : Nat) : Option Gen.Compound.Case :=
  cases.find? fun t => t.shA == shA && t.shB == shB && (t.gdim == gdim || true)

/-- the lowering of `op(a, b)` predicted from the regenerated instance of the same operand shapes -/
def lowerInst (cases : List Gen.Compound.Case) (a : Expr) (b : Option Expr) (gdim : Nat) : Option Expr :=
  let shB := match b with | some y => shape y | none => []
  match findCase cases (shape a) shB gdim with
  | none => some unsupported
  | some t =>
    let k := max (idxBound a) (match b with | some y => idxBound y | none => 0)
    let m : Mapping := ("A", a) :: (match b with | some y => [("B", y)] | none => [])
    replaceE m (shiftIdx k t.out)

/-- `Inner.__new__` sorts its operands (`sorted_expr`) and conjugates the swapped product -/
def lowerInner (cases : List Gen.Compound.Case) (a b : Expr) (gdim : Nat) : Option Expr :=
  if cmp b a = .lt then bindU (lowerInst cases b (some a) gdim) mkConj
  else lowerInst cases a (some b) gdim

end Expr
end UflVerif
