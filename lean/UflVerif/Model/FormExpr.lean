/-
The form model instantiated with the expression model: integrands are `Expr`, `+` is the `Sum`
constructor, `cmp_expr` and `renumber_indices` are the models of C29 / C10, metadata are `MDV` trees with
`canonicalize_metadata`; plus the wire format of forms for the correspondence driver (Drivers/C15.lean).
Core Lean only.
-/
import UflVerif.Model.FormModel
import UflVerif.Model.SExpr
import UflVerif.Model.Construct
import UflVerif.Model.IndexPasses
import UflVerif.Sem.Beq

namespace UflVerif
namespace FormModel
open SExp

mutual
theorem exprBeqRefl : ∀ a : Expr, Expr.beq a a = true
  | .int _ | .real _ _ | .cplx _ _ _ _ | .zero _ _ | .mi _ | .term _ => by simp [Expr.beq]
  | .op k x as => by simp [Expr.beq, exprBeqLRefl as]
theorem exprBeqLRefl : ∀ as : List Expr, Expr.beqL as as = true
  | [] => rfl
  | a :: as => by simp [Expr.beqL, exprBeqRefl a, exprBeqLRefl as]
end

instance exprDecEq : DecidableEq Expr := fun a b =>
  if h : Expr.beq a b = true then isTrue (Expr.beq_eq a b h)
  else isFalse (fun e => h (e ▸ exprBeqRefl a))

/-- marker for "the Python raised inside `+` / `renumber_indices`" -/
def raised : Expr := .term { cls := "@raises", key := "", shape := [] }

mutual
def hasMarker (cls : String) : Expr → Bool
  | .term d => d.cls == cls
  | .op _ _ args => hasMarkerL cls args
  | _ => false
def hasMarkerL (cls : String) : List Expr → Bool
  | [] => false
  | a :: as => hasMarker cls a || hasMarkerL cls as
end

def exprOps (c : CanonCfg) : Ops Expr MDV Canon where
  add := fun a b => (Expr.mkSum a b).getD raised
  cmp := Expr.cmp
  renum := fun e => (Expr.renumber e).getD raised
  mdkey := canonWith c
  mdlt := fun a b => Canon.lt (canonWith c a) (canonWith c b)

/-! ### wire format -/

def sidOf : SExp → Option Sid
  | .atom "otherwise" => some .otherwise
  | .atom "everywhere" => some .everywhere
  | .atom "bad" => some .bad
  | .list [.atom "int", n] => (toInt? n).map .int
  | _ => none

def subIdOf : SExp → Option SubId
  | .list (.atom "tup" :: ss) => (ss.mapM sidOf).map .tup
  | s => (sidOf s).map .one

def sidStr : Sid → String
  | .int i => s!"(int {i})"
  | .otherwise => "otherwise"
  | .everywhere => "everywhere"
  | .bad => "bad"

def subIdStr : SubId → String
  | .one s => sidStr s
  | .tup ss => "(tup" ++ String.join (ss.map fun s => " " ++ sidStr s) ++ ")"

mutual
def mdvOf : SExp → Option MDV
  | .list [.atom "leaf", .atom ty, .atom val, .atom pr] => some (.leaf (decode ty) (decode val) (decode pr))
  | .list [.atom "arr", l, .atom pr] => (mdvOf l).map (MDV.arr · (decode pr))
  | .list (.atom "seq" :: .atom tup :: items) => (mdvOfL items).map (.seq (tup == "1"))
  | .list (.atom "dict" :: .list keys :: vals) => do
      let ks ← keys.mapM fun k => match k with | .atom a => some (decode a) | _ => none
      pure (.dict ks (← mdvOfL vals))
  | _ => none
def mdvOfL : List SExp → Option (List MDV)
  | [] => some []
  | x :: xs => do pure ((← mdvOf x) :: (← mdvOfL xs))
end

mutual
def mdvStr : MDV → String
  | .leaf ty val pr => s!"(leaf {encode ty} {encode val} {encode pr})"
  | .arr l pr => s!"(arr {mdvStr l} {encode pr})"
  | .seq tup items => "(seq " ++ (if tup then "1" else "0") ++ mdvStrL items ++ ")"
  | .dict keys vals => "(dict (" ++ " ".intercalate (keys.map encode) ++ ")" ++ mdvStrL vals ++ ")"
def mdvStrL : List MDV → String
  | [] => ""
  | v :: vs => " " ++ mdvStr v ++ mdvStrL vs
end

mutual
def canonStr : Canon → String
  | .s x => s!"(s {encode x})"
  | .t items => "(t" ++ canonStrL items ++ ")"
def canonStrL : List Canon → String
  | [] => ""
  | v :: vs => " " ++ canonStr v ++ canonStrL vs
end

def cdTokOf : SExp → Option CDTok
  | .list [a, b, c, d] => do pure { id := (← toNat? a), hw := (← toInt? b), hv := (← toInt? c), hcd := (← toInt? d) }
  | _ => none

def cdTokStr (c : CDTok) : String := s!"({c.id} {c.hw} {c.hv} {c.hcd})"

/-- `(itg <expr> (cds <tok>*) <itype> <domain> <sid> <md> <extra>)` -/
def integralOf : SExp → Option (Integral (CDI Expr) MDV)
  | .list [.atom "itg", e, .list (.atom "cds" :: toks), .atom itype, dom, sid, md, extra] => do
      pure { integrand := { cds := (← toks.mapM cdTokOf), base := (← Expr.ofSExp e) }, itype := itype,
             domain := (← toNat? dom), sid := (← subIdOf sid), md := (← mdvOf md), extra := (← toNat? extra) }
  | _ => none

def integralStr (i : Integral (CDI Expr) MDV) : String :=
  "(itg " ++ i.integrand.base.print ++ " (cds" ++ String.join (i.integrand.cds.map fun c => " " ++ cdTokStr c) ++ ") "
    ++ i.itype ++ " " ++ toString i.domain ++ " " ++ subIdStr i.sid ++ " " ++ mdvStr i.md ++ " " ++ toString i.extra ++ ")"

def formMarked (cls : String) (F : Form (CDI Expr) MDV) : Bool := F.any fun i => hasMarker cls i.integrand.base

def showForm : Option (Form (CDI Expr) MDV) → String
  | none => "(raises)"
  | some F =>
    if formMarked "@raises" F then "(raises)"
    else if formMarked "@unsupported" F then "(unsupported)"
    else "(ok" ++ String.join (F.map fun i => " " ++ integralStr i) ++ ")"

def showIntegralData : Option (List (IntegralData (CDI Expr) MDV)) → String
  | none => "(raises)"
  | some ds => "(ok" ++ String.join (ds.map fun d =>
      " (idata " ++ toString d.domain ++ " " ++ d.itype ++ " " ++ subIdStr d.sid ++ " " ++ toString d.extra
        ++ String.join (d.integrals.map fun i => " " ++ integralStr i) ++ ")") ++ ")"

def cfgOf (a : String) : CanonCfg := { arrTolist := a.toList[0]? == some '1', strRepr := a.toList[1]? == some '1' }

def atomsOf : SExp → Option (List String)
  | .list xs => xs.mapM fun x => match x with | .atom a => some a | _ => none
  | _ => none

/-- the requests of Drivers/C15.lean -/
def answerForm (line : String) : String :=
  match SExp.read line with
  | some (.list [.atom "group", .atom opt, .atom cfg, itypes, doms, .list (.atom "integrals" :: itgs)]) =>
    (match atomsOf itypes, natList? doms, itgs.mapM integralOf with
     | some ts, some ds, some F => showForm (groupFormIntegrals (exprOps (cfgOf cfg)) ds ts (opt == "1") F)
     | _, _, _ => "(parse-error)")
  | some (.list [.atom "phase1", .atom opt, .atom cfg, itypes, doms, .list (.atom "integrals" :: itgs)]) =>
    (match atomsOf itypes, natList? doms, itgs.mapM integralOf with
     | some ts, some ds, some F =>
       if phase1Raises (exprOps (cfgOf cfg)) ds ts (opt == "1") F then "(raises)"
       else showForm (some (phase1 (exprOps (cfgOf cfg)) ds ts (opt == "1") F))
     | _, _, _ => "(parse-error)")
  | some (.list [.atom "build", .list (.atom "integrals" :: itgs)]) =>
    (match itgs.mapM integralOf with
     | some F => showIntegralData (buildIntegralData F)
     | none => "(parse-error)")
  | some (.list [.atom "reconstruct", .list (.atom "integrals" :: itgs)]) =>
    (match itgs.mapM integralOf with
     | some F => showForm ((buildIntegralData F).map reconstructForm)
     | none => "(parse-error)")
  | some (.list [.atom "sortform", .list (.atom "integrals" :: itgs)]) =>
    (match itgs.mapM integralOf with
     | some F => showForm (some (sortedIntegrals F))
     | none => "(parse-error)")
  | some (.list [.atom "canon", .atom cfg, md]) =>
    (match mdvOf md with
     | some v => "(ok " ++ canonStr (canonWith (cfgOf cfg) v) ++ ")"
     | none => "(parse-error)")
  | some (.list [.atom "mdlt", .atom cfg, a, b]) =>
    (match mdvOf a, mdvOf b with
     | some x, some y => (match Canon.lt (canonWith (cfgOf cfg) x) (canonWith (cfgOf cfg) y) with
        | some true => "(ok 1)" | some false => "(ok 0)" | none => "(raises)")
     | _, _ => "(parse-error)")
  | some (.list [.atom "mdeq", .atom cfg, a, b]) =>
    (match mdvOf a, mdvOf b with
     | some x, some y => if canonWith (cfgOf cfg) x = canonWith (cfgOf cfg) y then "(ok 1)" else "(ok 0)"
     | _, _ => "(parse-error)")
  | _ => "(bad-request)"

end FormModel
end UflVerif
