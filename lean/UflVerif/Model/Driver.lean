/-
Shared pieces of the expression-level correspondence driver: environments over ℚ and Float read
from the wire format, and the reply printers.
-/
import UflVerif.Model.SExpr
import UflVerif.Model.EvalImpl

namespace UflVerif
open SExp

instance : IntCast Float := ⟨Float.ofInt⟩
instance : NatCast Float := ⟨Float.ofNat⟩
instance : Zero Float := ⟨0.0⟩
instance : One Float := ⟨1.0⟩

structure RawEnv where
  vals : List (String × List Nat × Rat)                 -- (key, component) ↦ value
  jets : List (String × List Nat × List Nat × Rat)      -- (key, component, derivatives) ↦ value

def ratOf (n d : SExp) : Option Rat := do
  let a ← toInt? n; let b ← toNat? d
  pure ((a : Rat) / (b : Rat))

def RawEnv.ofSExp : SExp → Option RawEnv
  | .list items => do
    let mut vals := []
    let mut jets := []
    for it in items do
      match it with
      | .list [.atom "V", .atom key, c, n, d] => vals := (SExp.decode key, (← natList? c), (← ratOf n d)) :: vals
      | .list [.atom "J", .atom key, c, ds, n, d] => jets := (SExp.decode key, (← natList? c), (← natList? ds), (← ratOf n d)) :: jets
      | _ => none
    pure { vals := vals, jets := jets }
  | _ => none

def ratPow (x : Rat) (n : Int) : Rat :=
  if n ≥ 0 then x ^ n.toNat else (1 / x) ^ (-n).toNat

def ratToFloat (q : Rat) : Float := Float.ofInt q.num / Float.ofNat q.den

def RawEnv.rat (r : RawEnv) : Env Rat where
  term := fun _ key c => match r.vals.find? (fun p => p.1 == key && p.2.1 == c) with | some p => p.2.2 | none => 0
  jet := fun _ key c ds => match r.jets.find? (fun p => p.1 == key && p.2.1 == c && p.2.2.1 == ds) with | some p => p.2.2.2 | none => 0
  fn := fun _ x => x
  fn2 := fun n x y => if n == "Power" && y.den == 1 then ratPow x y.num else 0
  abs := fun x => if x < 0 then -x else x
  conj := id
  re := id
  im := fun _ => 0
  i := 0
  lt := fun x y => decide (x < y)
  eq := fun x y => decide (x = y)

def floatFn (n : String) (x : Float) : Float :=
  match n with
  | "Sqrt" => x.sqrt | "Exp" => x.exp | "Ln" => x.log | "Cos" => x.cos | "Sin" => x.sin | "Tan" => x.tan
  | "Cosh" => x.cosh | "Sinh" => x.sinh | "Tanh" => x.tanh | "Acos" => x.acos | "Asin" => x.asin | "Atan" => x.atan
  | _ => 0.0 / 0.0

def RawEnv.float (r : RawEnv) : Env Float where
  term := fun s key c => ratToFloat ((r.rat).term s key c)
  jet := fun s key c ds => ratToFloat ((r.rat).jet s key c ds)
  fn := floatFn
  fn2 := fun n x y => if n == "Power" then x.pow y else if n == "Atan2" then Float.atan2 x y else 0.0 / 0.0
  abs := Float.abs
  conj := id
  re := id
  im := fun _ => 0.0
  i := 0.0
  lt := fun x y => x < y
  eq := fun x y => x == y

mutual
def Expr.usesFloatOnly : Expr → Bool
  | .op k _ args =>
    (match k with
     | .sqrt | .exp | .ln | .cos | .sin | .tan | .cosh | .sinh | .tanh | .acos | .asin | .atan | .erf | .atan2
     | .besselJ | .besselY | .besselI | .besselK => true
     | _ => false) || Expr.usesFloatOnlyL args
  | .real _ d => !(d == 1 || d == 2 || d == 4 || d == 8 || d == 16)   -- non-dyadic float literal
  | _ => false
def Expr.usesFloatOnlyL : List Expr → Bool
  | [] => false
  | a :: as => Expr.usesFloatOnly a || Expr.usesFloatOnlyL as
end

def showRat (q : Rat) : String := s!"{q.num}/{q.den}"
def showFI (f : FI) : String := "(" ++ " ".intercalate (f.map fun p => s!"({p.1} {p.2})") ++ ")"
def showNats (l : List Nat) : String := "(" ++ " ".intercalate (l.map toString) ++ ")"

end UflVerif
