/-
`ufl_shape`, `ufl_free_indices` / `ufl_index_dimensions` as computed by the UFL classes, on the
model language.  Free indices are kept as one list of (count, dimension), sorted by count.
-/
import UflVerif.Model.Syntax

namespace UflVerif

abbrev FI := List (Nat × Nat)

namespace FI
/-- insert keeping the list sorted by count; an index already present is kept -/
def insert (p : Nat × Nat) : FI → FI
  | [] => [p]
  | q :: qs => if p.1 < q.1 then p :: q :: qs else if p.1 = q.1 then q :: qs else q :: insert p qs

/-- `merge_unique_indices`: sorted union -/
def merge (a b : FI) : FI := b.foldl (fun acc p => insert p acc) a

def remove (c : Nat) (f : FI) : FI := f.filter (fun p => p.1 != c)

def dimOf (c : Nat) (f : FI) : Nat :=
  match f.find? (fun p => p.1 == c) with
  | some p => p.2
  | none => 0

def has (c : Nat) (f : FI) : Bool := f.any (fun p => p.1 == c)
end FI

namespace Expr

/-- (index count, extent of the axis it sits on) for the free indices of a multi-index -/
def idxPairs (sh : List Nat) : List (Idx × Nat) → List (Nat × Nat)
  | [] => []
  | (.free c, k) :: ps => (c, sh.getD k 0) :: idxPairs sh ps
  | (.fixed _, _) :: ps => idxPairs sh ps

def freeCounts (is : List Idx) : List Nat :=
  is.filterMap fun | .free c => some c | .fixed _ => none

mutual
def shape : Expr → List Nat
  | .int _ | .real _ _ | .cplx _ _ _ _ | .mi _ => []
  | .zero sh _ => sh
  | .term d => d.shape
  | .op k aux args =>
    match k, args with
    | .sum, a :: _ => shape a
    | .abs, [a] | .conj, [a] | .real, [a] | .imag, [a] => shape a
    | .indexSum, a :: _ => shape a
    | .componentTensor, [a, .mi is] => (freeCounts is).map (fun c => FI.dimOf c (fi a))
    | .listTensor, a :: as => (as.length + 1) :: shape a
    | .conditional, [_, t, _] => shape t
    | .variable, a :: _ => shape a
    | .positiveRestricted, [a] | .negativeRestricted, [a] => shape a
    | .grad, [f] | .referenceGrad, [f] => shape f ++ aux
    | .nablaGrad, [f] => aux ++ shape f
    | .referenceValue, _ | .div, _ | .referenceDiv, _ | .nablaDiv, _ | .curl, _ | .referenceCurl, _ => aux
    | .transposed, _ | .outer, _ | .dot, _ | .perp, _ | .cross, _ | .inverse, _ | .cofactor, _
    | .deviatoric, _ | .skew, _ | .sym, _ | .cellAvg, _ | .facetAvg, _ | .exprList, _ | .exprMapping, _
    | .coefficientDerivative, _ | .coordinateDerivative, _ | .variableDerivative, _ | .other _, _ => aux
    | _, _ => []
def fi : Expr → FI
  | .int _ | .real _ _ | .cplx _ _ _ _ | .mi _ | .term _ => []
  | .zero _ f => f
  | .op k _ args =>
    match k, args with
    | .product, [a, b] | .outer, [a, b] | .inner, [a, b] | .dot, [a, b] | .cross, [a, b] => FI.merge (fi a) (fi b)
    | .indexed, [a, .mi is] =>
      (idxPairs (shape a) is.zipIdx).foldl (fun acc p => FI.insert p acc) (fi a)
    | .indexSum, [a, .mi [.free j]] => FI.remove j (fi a)
    | .componentTensor, [a, .mi is] => (freeCounts is).foldl (fun acc c => FI.remove c acc) (fi a)
    | .eQ, _ | .nE, _ | .lE, _ | .gE, _ | .lT, _ | .gT, _ | .andCondition, _ | .orCondition, _ | .notCondition, _ => []
    | .conditional, [_, t, _] => fi t
    | _, a :: _ => fi a
    | _, [] => []
end

/-- index dimension recorded for a summation index: `IndexSum._dimension` -/
def sumDim : Expr → Nat
  | .op .indexSum _ [a, .mi [.free j]] => FI.dimOf j (fi a)
  | _ => 0

end Expr
end UflVerif
