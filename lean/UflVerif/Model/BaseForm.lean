/-
Model of UFL's base-form algebra (C28): `ufl/form.py` (`BaseForm.__add__/__neg__/__sub__/__rmul__`, `Form.__add__/__neg__/__rmul__`,
`FormSum.__new__/__init__/_sum_variational_components/_analyze_form_arguments`, `ZeroBaseForm`), `ufl/action.py` (`Action.__new__`,
`_check_function_spaces`, `_get_action_form_arguments`), `ufl/adjoint.py` (`Adjoint.__new__/__init__/_analyze_form_arguments`),
the leaves `Cofunction`, `Coargument`, `Matrix` (their `_analyze_form_arguments`), and `map_integrands` on base forms.

Core Lean only.  `Except Err` = the Python raises (`Err.cyclic`: the constructor returned an object that Python re-initialised
into a self-referential one, see `identityReturn`).  Two switches describe the observed behaviour of the current tree and are
regenerated on every run (Gen/C28Flags.lean):
  `Cfg.guard`, `Cfg.guardAdj`, `Cfg.guardSum` : `Action.__init__` / `Adjoint.__init__` / `FormSum.__init__` do not re-initialise an already
      initialised instance returned by `__new__`;
  `Cfg.renum` : `_get_action_form_arguments` renumbers the contracted argument tuple 0,1,2,...;
  `Cfg.leftCoef` : `_get_action_form_arguments` reports a `Coefficient` left operand among the coefficients.

A `Form` is a list of integrals; an integral is a scalar multiple of an *atom* (an integrand the algebra never looks into, known
by its id, its arguments and its coefficients) or has the integrand `Zero` (after multiplication by a literal 0); in the latter
case the atom is kept as ghost data (it is not observable: `arguments`, `coefficients`, printing and `denote` ignore it) so that
the specification-level signature `sigS` of a form does not change when UFL's `0*f` forgets the arguments of `f`.
-/
namespace UflVerif
namespace BaseForm

/-- a function space (by identity) or its dual -/
structure Space where
  id : Nat
  dual : Bool
  deriving DecidableEq, Repr, Inhabited

def Space.dualize (s : Space) : Space := ⟨s.id, !s.dual⟩

/-- `Argument(space, number, part)`; the class is `Coargument` iff the space is a dual space (`Argument.__new__`) -/
structure Arg where
  space : Space
  number : Nat
  part : Option Nat
  deriving DecidableEq, Repr, Inhabited

/-- `Coefficient(space, count)` (primal space) / `Cofunction(space, count)` (dual space); one counter for both -/
structure Coef where
  count : Nat
  space : Space
  deriving DecidableEq, Repr, Inhabited

structure Atom where
  id : Nat
  args : List Arg
  coefs : List Coef
  deriving DecidableEq, Repr, Inhabited

structure Itg (K : Type) where
  w : K
  zeroed : Bool
  key : Nat
  atom : Atom
  deriving Repr

inductive Err
  | attribute | typeError | valueError | indexError | cyclic | unsupported
  deriving DecidableEq, Repr

def Err.str : Err → String
  | .attribute => "attribute" | .typeError => "type" | .valueError => "value" | .indexError => "index"
  | .cyclic => "cyclic" | .unsupported => "unsupported"

structure Cfg where
  guard : Bool
  renum : Bool
  leftCoef : Bool
  guardAdj : Bool
  guardSum : Bool
  deriving DecidableEq, Repr

/-- objects of the algebra: base forms, and the expressions `Action` accepts as operands -/
inductive BF (K : Type) where
  | form (itgs : List (Itg K))
  | cofunction (count : Nat) (space : Space)
  | coargument (a : Arg)
  | matrix (count : Nat) (row col : Space)
  | zero (args : List Arg)                           -- ZeroBaseForm(arguments)
  | formSum (comps : List (BF K)) (ws : List K)
  | action (l r : BF K)
  | adjoint (f : BF K)
  | coefficient (count : Nat) (space : Space)        -- Expr
  | argument (a : Arg)                               -- Expr (primal Argument)
  | exprSum (a b : BF K)                             -- ufl `Sum(a, b)` of expressions
  | exprZero                                         -- ufl `Zero`
  | exprOther (id : Nat)                             -- any other expression
  deriving Repr

variable {K : Type}

namespace BF

def isZero : BF K → Bool            -- `x == 0`
  | .zero _ => true
  | .exprZero => true
  | _ => false

def isZeroObj : BF K → Bool         -- `isinstance(x, ZeroBaseForm)`
  | .zero _ => true
  | _ => false

def isBaseForm : BF K → Bool
  | .form _ | .cofunction .. | .coargument _ | .matrix .. | .zero _ | .formSum .. | .action .. | .adjoint _ => true
  | _ => false

def isForm : BF K → Bool
  | .form _ => true
  | _ => false

def isArgLike : BF K → Bool         -- `isinstance(x, Coargument | Argument)`
  | .coargument _ | .argument _ => true
  | _ => false

def isAction : BF K → Bool
  | .action .. => true
  | _ => false

def isFormSum : BF K → Bool
  | .formSum .. => true
  | _ => false

def isCoefficient : BF K → Bool
  | .coefficient .. => true
  | _ => false

def isAdjoint : BF K → Bool
  | .adjoint _ => true
  | _ => false

end BF

/-! ### sorted(set(...)) -/

def dedup {α : Type} [DecidableEq α] : List α → List α
  | [] => []
  | a :: l => let r := dedup l; if a ∈ r then r else a :: r

/- `set` keeps one representative; which one is irrelevant (equal elements).  We keep the last occurrence in the list but at the
position ... the order among distinct elements with equal sort key is unspecified in Python; the harness compares up to that. -/

def insertArg (a : Arg) : List Arg → List Arg
  | [] => [a]
  | b :: l => if a.number ≤ b.number then a :: b :: l else b :: insertArg a l

def sortArgs : List Arg → List Arg
  | [] => []
  | a :: l => insertArg a (sortArgs l)

def insertCoef (a : Coef) : List Coef → List Coef
  | [] => [a]
  | b :: l => if a.count ≤ b.count then a :: b :: l else b :: insertCoef a l

def sortCoefs : List Coef → List Coef
  | [] => []
  | a :: l => insertCoef a (sortCoefs l)

/-! ### Form arithmetic (`Form.__init__` sorts the integrals stably; `scalar*Form`, `Form+Form`, `-Form`) -/

def Itg.liveArgs (i : Itg K) : List Arg := if i.zeroed then [] else i.atom.args
def Itg.liveCoefs (i : Itg K) : List Coef := if i.zeroed then [] else i.atom.coefs
def Itg.argSpaces (i : Itg K) : List Space := i.atom.args.map (·.space)

/-- `scalar * integral`: `0*f` is `Zero`, `w*(c*f)` is `Product(w, Product(c, f))` (abstracted to the weight `w*c`) -/
def Itg.smul [Mul K] [Zero K] [DecidableEq K] (w : K) (i : Itg K) : Itg K :=
  if w = 0 then { i with zeroed := true } else { i with w := w * i.w }

def insertItg (x : Itg K) : List (Itg K) → List (Itg K)
  | [] => [x]
  | y :: l => if x.key ≤ y.key then x :: y :: l else y :: insertItg x l

def sortItgs : List (Itg K) → List (Itg K)
  | [] => []
  | x :: l => insertItg x (sortItgs l)

def formAdd (a b : List (Itg K)) : List (Itg K) := sortItgs (a ++ b)

def formSmul [Mul K] [Zero K] [DecidableEq K] (w : K) (a : List (Itg K)) : List (Itg K) :=
  sortItgs (a.map (Itg.smul w))

/-! ### `arguments()` / `coefficients()` as the code computes them -/

def renumber (as : List Arg) : List Arg :=
  (as.zip (List.range as.length)).map fun p => { p.1 with number := p.2 }

/-- Adjoint: `type(arg)(arg.ufl_function_space(), number=i)` — the part is dropped -/
def renumberNoPart (as : List Arg) : List Arg :=
  (as.zip (List.range as.length)).map fun p => ⟨p.1.space, p.2, none⟩

/-- `extract_terminals_with_domain`: different Arguments with the same number and part are rejected -/
def npNodup (as : List Arg) : Bool :=
  let ks := as.map (fun a => (a.number, a.part))
  (dedup ks).length == ks.length

/-- `Form._analyze_form_arguments` -/
def formArguments (itgs : List (Itg K)) : Except Err (List Arg) :=
  let as := dedup (itgs.flatMap Itg.liveArgs)
  if npNodup as then .ok (sortArgs as) else .error .valueError

/-- `_get_action_form_arguments`: the arguments the left operand contributes (`al` = its `arguments()`) -/
def leftArgs (l : BF K) (al : Except Err (List Arg)) : Except Err (List Arg) :=
  match l with
  | .coefficient .. => .ok []
  | _ => do let as ← al; .ok as.dropLast

/-- `_get_action_form_arguments`: the argument tuple, given the left part and the right operand's `arguments()` -/
def rightArgs (r : BF K) (la : List Arg) (ar : Except Err (List Arg)) : Except Err (List Arg) :=
  match r with
  | .coefficient .. => .ok la
  | .exprZero => .ok la
  | .argument a => .ok (la ++ [a])
  | .exprSum .. => .error .typeError
  | .exprOther _ => .error .typeError
  | _ => do let ra ← ar; .ok (la ++ ra.tail)

/-- `_get_action_form_arguments`: the coefficients contributed by the right / left operand -/
def rightCoefs (r : BF K) (cr : Except Err (List Coef)) : Except Err (List Coef) :=
  match r with
  | .coefficient c s => .ok [⟨c, s⟩]
  | .exprZero => .ok []
  | .argument _ => .ok []
  | .exprSum .. => .error .typeError
  | .exprOther _ => .error .typeError
  | _ => cr

def leftCoefs (cfg : Cfg) (l : BF K) (cl : Except Err (List Coef)) : Except Err (List Coef) :=
  match l with
  | .coefficient c s => .ok (if cfg.leftCoef then [⟨c, s⟩] else [])
  | _ => if l.isBaseForm then cl else .ok []

/-- the signature of a form: the argument spaces of its first integral with a non-zero integrand (of the first integral if all
integrands are `Zero`) -/
def formSig (itgs : List (Itg K)) : List Space :=
  match itgs.filter (fun i => !i.zeroed) with
  | i :: _ => i.argSpaces
  | [] => match itgs with
    | i :: _ => i.argSpaces
    | [] => []

namespace BF

mutual
/-- `x.arguments()` -/
def arguments (cfg : Cfg) : BF K → Except Err (List Arg)
  | .form itgs => formArguments itgs
  | .cofunction _ s => .ok [⟨s.dualize, 0, none⟩]
  | .coargument a => .ok [⟨a.space.dualize, 0, none⟩, a]
  | .matrix _ r c => .ok [⟨r, 0, none⟩, ⟨c, 1, none⟩]
  | .zero as => .ok as
  | .formSum cs _ => do
      let as ← argumentsL cfg cs
      .ok (sortArgs (dedup as))
  | .action l r => do
      -- `_get_action_form_arguments(left, right)`
      let la ← leftArgs l (arguments cfg l)
      let as ← rightArgs r la (arguments cfg r)
      .ok (if cfg.renum then renumber as else as)
  | .adjoint f => do
      let as ← arguments cfg f
      .ok (renumberNoPart as.reverse)
  | _ => .error .attribute
def argumentsL (cfg : Cfg) : List (BF K) → Except Err (List Arg)
  | [] => .ok []
  | c :: cs => do
      let a ← arguments cfg c
      let b ← argumentsL cfg cs
      .ok (a ++ b)
end

mutual
/-- `x.coefficients()` -/
def coefficients (cfg : Cfg) : BF K → Except Err (List Coef)
  | .form itgs => do
      let _ ← formArguments itgs
      .ok (sortCoefs (dedup (itgs.flatMap Itg.liveCoefs)))
  | .cofunction c s => .ok [⟨c, s⟩]
  | .coargument _ => .ok []
  | .matrix .. => .ok []
  | .zero _ => .ok []
  | .formSum cs _ => do
      let xs ← coefficientsL cfg cs
      .ok (sortCoefs (dedup xs))
  | .action l r => do
      let _ ← arguments cfg (.action l r)
      let rc ← rightCoefs r (coefficients cfg r)
      let lc ← leftCoefs cfg l (coefficients cfg l)
      .ok (rc ++ lc)
  | .adjoint f => do
      let _ ← arguments cfg f
      coefficients cfg f
  | _ => .error .attribute
def coefficientsL (cfg : Cfg) : List (BF K) → Except Err (List Coef)
  | [] => .ok []
  | c :: cs => do
      let a ← coefficients cfg c
      let b ← coefficientsL cfg cs
      .ok (a ++ b)
end

/-! ### specification-level signature (the spaces of the slots of the multilinear map), typing -/

/-- the signature according to argument contraction -/
def sigS : BF K → List Space
  | .form itgs => formSig itgs
  | .cofunction _ s => [s.dualize]
  | .coargument a => [a.space.dualize, a.space]
  | .matrix _ r c => [r, c]
  | .zero as => as.map (·.space)
  | .formSum [] _ => []
  | .formSum (c :: _) _ => sigS c
  | .action l r => (sigS l).dropLast ++ (sigS r).tail
  | .adjoint f => (sigS f).reverse
  | .coefficient _ s => [s.dualize]
  | .argument a => [a.space.dualize, a.space]
  | .exprSum a _ => sigS a
  | .exprZero => []
  | .exprOther _ => []

/-- the contracted slot of the left operand pairs with the first slot of the right operand -/
def compat (l r : BF K) : Bool :=
  match (sigS l).getLast? with
  | none => false
  | some s => match r with
    | .exprZero => true
    | _ => (sigS r).head? == some s.dualize

def formWT : List (Itg K) → Bool
  | [] => true
  | i :: rest => rest.all (fun j => j.argSpaces == i.argSpaces)

mutual
/-- well-typed description / object -/
def WT : BF K → Bool
  | .form itgs => formWT itgs
  | .formSum cs ws => WTL cs && cs.all (fun c => sigS c == sigS (.formSum cs ws)) && cs.length == ws.length
  | .action l r => WT l && WT r && compat l r
  | .adjoint f => WT f && (sigS f).length == 2
  | .exprSum a b => WT a && WT b && sigS b == sigS a
  | .exprOther _ => false
  | _ => true
def WTL : List (BF K) → Bool
  | [] => true
  | c :: cs => WT c && WTL cs
end

end BF

/-! ### FormSum -/

section constructors
variable [Mul K] [Zero K] [One K] [Neg K] [DecidableEq K]

def flattenComps : List (BF K × K) → List (BF K × K)
  | [] => []
  | (.formSum cs ws, w) :: rest => cs.zip (ws.map (w * ·)) ++ flattenComps rest
  | p :: rest => p :: flattenComps rest

def scaledForms : List (BF K × K) → List (List (Itg K))
  | [] => []
  | (.form itgs, w) :: rest => formSmul w itgs :: scaledForms rest
  | _ :: rest => scaledForms rest

def nonForms : List (BF K × K) → List (BF K × K)
  | [] => []
  | (.form _, _) :: rest => nonForms rest
  | p :: rest => p :: nonForms rest

/-- `FormSum.__init__` -/
def initFormSum (comps : List (BF K × K)) : BF K :=
  let flat := flattenComps (comps.filter (fun p => !p.1.isZero))
  let others := nonForms flat
  match scaledForms flat with
  | [] => .formSum (others.map (·.1)) (others.map (·.2))
  | f :: fs => .formSum (.form (fs.foldl formAdd f) :: others.map (·.1)) (1 :: others.map (·.2))

/-- `FormSum(*comps)` (`__new__` then, if an instance of FormSum is returned, `__init__`) -/
def mkFormSum (cfg : Cfg) (comps : List (BF K × K)) : Except Err (BF K) :=
  if comps.all (fun p => p.1.isZero) then
    match comps with
    | [] => .error .valueError
    | (.zero as, _) :: _ => .ok (.zero as)
    | _ => .error .attribute
  else match comps with
    | [(a, w)] =>
      if w = 1 then
        (if a.isFormSum && !cfg.guardSum then .ok (initFormSum [(a, w)]) else .ok a)
      else .ok (initFormSum comps)
    | _ => .ok (initFormSum comps)

/-! ### Action -/

/-- an identity simplification returns one of the operands; if that is an `Action` instance Python runs `Action.__init__`
on it again with the new operands, which makes it its own operand -/
def identityReturn (cfg : Cfg) (x : BF K) : Except Err (BF K) :=
  if x.isAction && !cfg.guard then .error .cyclic else .ok x

def leftSpace (cfg : Cfg) (l : BF K) : Except Err Space :=
  match l with
  | .coefficient _ s => .ok s
  | _ =>
    if l.isBaseForm then do
      let as ← l.arguments cfg
      match as.getLast? with
      | some a => .ok a.space.dualize
      | none => .error .indexError
    else .error .typeError

def rightSpace (cfg : Cfg) (r : BF K) : Except Err Space :=
  match r with
  | .coefficient _ s => .ok s
  | _ =>
    if r.isBaseForm then do
      let as ← r.arguments cfg
      match as.head? with
      | some a => .ok a.space.dualize
      | none => .error .indexError
    else .error .typeError

/-- `_check_function_spaces` (neither operand is a `Zero` here) -/
def checkSpaces (cfg : Cfg) (l r : BF K) : Except Err Unit := do
  let vl ← leftSpace cfg l
  let vr ← rightSpace cfg r
  if vl.dualize ≠ vr then .error .typeError else .ok ()

/-- `Action.__new__(cls, l, r)` returned `res` from a distribution branch: if that is an `Action` instance (a sum that collapsed to
its single summand) Python runs `Action.__init__(res, l, r)`, i.e. the object becomes the undistributed `Action(l, r)` -/
def reinitAction (cfg : Cfg) (l r res : BF K) : BF K :=
  if res.isAction && !cfg.guard then .action l r else res

/-- the zero and identity cases of `Action.__new__` -/
def actBase (cfg : Cfg) (l r : BF K) : Option (Except Err (BF K)) :=
  if l.isZero || r.isZero then
    match l with
    | .exprZero => some (.ok (.zero []))
    | _ => some (do let as ← (BF.action l r).arguments cfg; .ok (.zero as))
  else if l.isArgLike then some (identityReturn cfg r)
  else if r.isArgLike then some (identityReturn cfg l)
  else none

/-- `Action(l, r)` when neither operand is a sum -/
def actFinal (cfg : Cfg) (l r : BF K) : Except Err (BF K) :=
  match actBase cfg l r with
  | some res => res
  | none => do
      checkSpaces cfg l r
      .ok (.action l r)

mutual
/-- `Action(l, r)` when `l` is not a sum: distribution over the right operand -/
def actR (cfg : Cfg) (l : BF K) : BF K → Except Err (BF K)
  | .exprSum a b =>
    (match actBase cfg l (.exprSum a b) with
     | some res => res
     | none => do
        let x ← actR cfg l a
        let y ← actR cfg l b
        let res ← mkFormSum cfg [(x, 1), (y, 1)]
        .ok (reinitAction cfg l (.exprSum a b) res))
  | .formSum cs ws =>
    (match actBase cfg l (.formSum cs ws) with
     | some res => res
     | none => do
        let xs ← actRL cfg l cs
        let res ← mkFormSum cfg (xs.zip ws)
        .ok (reinitAction cfg l (.formSum cs ws) res))
  | r => actFinal cfg l r
def actRL (cfg : Cfg) (l : BF K) : List (BF K) → Except Err (List (BF K))
  | [] => .ok []
  | c :: cs => do
      let x ← actR cfg l c
      let xs ← actRL cfg l cs
      .ok (x :: xs)
end

mutual
/-- `Action(l, r)` -/
def mkAction (cfg : Cfg) : BF K → BF K → Except Err (BF K)
  | .exprSum a b, r =>
    (match actBase cfg (.exprSum a b) r with
     | some res => res
     | none => do
        let x ← mkAction cfg a r
        let y ← mkAction cfg b r
        let res ← mkFormSum cfg [(x, 1), (y, 1)]
        .ok (reinitAction cfg (.exprSum a b) r res))
  | .formSum cs ws, r =>
    (match actBase cfg (.formSum cs ws) r with
     | some res => res
     | none => do
        let xs ← mkActionL cfg cs r
        let res ← mkFormSum cfg (xs.zip ws)
        .ok (reinitAction cfg (.formSum cs ws) r res))
  | l, r => actR cfg l r
def mkActionL (cfg : Cfg) : List (BF K) → BF K → Except Err (List (BF K))
  | [], _ => .ok []
  | c :: cs, r => do
      let x ← mkAction cfg c r
      let xs ← mkActionL cfg cs r
      .ok (x :: xs)
end

/-! ### Adjoint -/

mutual
/-- `Adjoint(f)`; `cj` is what the code does to a weight when the Adjoint distributes over a weighted sum (the identity for the
tree as observed while `Gen.C28Flags.adjointConjugatesWeights` is false, the conjugation otherwise) -/
def mkAdjoint (cfg : Cfg) (cj : K → K) : BF K → Except Err (BF K)
  | .zero as => .ok (.zero as.reverse)
  | .exprZero => .error .attribute
  | .adjoint x => .ok x
  | .formSum cs ws => do
      let xs ← mkAdjointL cfg cj cs
      let res ← mkFormSum cfg (xs.zip (ws.map cj))
      -- an `Adjoint` instance returned by `Adjoint.__new__` is re-initialised with the original operand
      if res.isAdjoint && !cfg.guardAdj then do
        let as ← (BF.formSum cs ws).arguments cfg
        if as.length ≠ 2 then .error .valueError else .ok (.adjoint (.formSum cs ws))
      else .ok res
  | .coargument a => .ok (.argument ⟨a.space.dualize, 0, none⟩)
  | f => do
      let as ← f.arguments cfg
      if as.length ≠ 2 then .error .valueError else .ok (.adjoint f)
def mkAdjointL (cfg : Cfg) (cj : K → K) : List (BF K) → Except Err (List (BF K))
  | [] => .ok []
  | c :: cs => do
      let x ← mkAdjoint cfg cj c
      let xs ← mkAdjointL cfg cj cs
      .ok (x :: xs)
end

/-! ### `map_integrands(function, form)` on base forms -/

/-- the `FormSum` branch of `map_integrands`, given the mapped components -/
def mapSum (cfg : Cfg) (ms : List (BF K)) (ws : List K) : Except Err (BF K) :=
  let nz := (ms.zip ws).filter (fun p => !p.1.isZero)
  match nz with
  | [] =>
    (match ms with
     | [] => .error .indexError
     | m :: _ => do let as ← m.arguments cfg; .ok (.zero as))
  | [(c, w)] =>
    if w = 1 then .ok c
    else if c.isBaseForm then mkFormSum cfg nz else .error .unsupported
  | _ =>
    if nz.all (fun p => !p.1.isBaseForm) then .error .unsupported     -- Python `sum(component * w ...)` of expressions
    else mkFormSum cfg nz

mutual
/-- `map_integrands(function, b)`: `fI` is `function` on the integrand of an integral, `fL` on the other leaves (the arguments of
a `ZeroBaseForm` are assumed to be left alone) -/
def mapIntegrands (cfg : Cfg) (cj : K → K) (fI : Itg K → Itg K) (fL : BF K → BF K) : BF K → Except Err (BF K)
  | .form itgs => .ok (.form (sortItgs ((itgs.map fI).filter (fun i => !i.zeroed))))
  | .formSum cs ws => do
      let ms ← mapIntegrandsL cfg cj fI fL cs
      mapSum cfg ms ws
  | .adjoint f => do
      let m ← mapIntegrands cfg cj fI fL f
      mkAdjoint cfg cj m
  | .action l r => do
      let ml ← mapIntegrands cfg cj fI fL l
      let mr ← mapIntegrands cfg cj fI fL r
      mkAction cfg ml mr
  | .zero as => .ok (.zero as)
  | b => .ok (fL b)
def mapIntegrandsL (cfg : Cfg) (cj : K → K) (fI : Itg K → Itg K) (fL : BF K → BF K) :
    List (BF K) → Except Err (List (BF K))
  | [] => .ok []
  | c :: cs => do
      let x ← mapIntegrands cfg cj fI fL c
      let xs ← mapIntegrandsL cfg cj fI fL cs
      .ok (x :: xs)
end

/-- the function used by the correspondence: the integrands of the listed atoms become `Zero`, the listed cofunctions / matrices
become `ZeroBaseForm(their arguments)`, the listed coefficients `Zero` -/
def zeroItg (atoms : List Nat) (i : Itg K) : Itg K :=
  if !i.zeroed && atoms.contains i.atom.id then { i with zeroed := true } else i

def zeroLeaf (coefs mats : List Nat) (b : BF K) : BF K :=
  match b with
  | .cofunction c s => if coefs.contains c then .zero [⟨s.dualize, 0, none⟩] else b
  | .matrix c r k => if mats.contains c then .zero [⟨r, 0, none⟩, ⟨k, 1, none⟩] else b
  | .coefficient c _ => if coefs.contains c then .exprZero else b
  | _ => b

/-! ### the operators `+`, unary `-`, `-`, `scalar *` -/

/-- `x + y` (`Form.__add__` / `BaseForm.__add__`; an expression on the left only as `Zero + y`) -/
def opAdd (cfg : Cfg) (x y : BF K) : Except Err (BF K) :=
  match x with
  | .form xi =>
    (match y with
     | .form yi => .ok (.form (formAdd xi yi))
     | .zero _ => .ok x
     | .exprZero => .ok x
     | _ => if y.isBaseForm then mkFormSum cfg [(x, 1), (y, 1)] else .error .typeError)
  | .exprZero => if y.isBaseForm then .ok y else .error .unsupported
  | _ =>
    if x.isBaseForm then
      (match y with
       | .exprZero => .ok x
       | .zero _ => .ok x
       | _ =>
         if x.isZeroObj then .ok y
         else if y.isBaseForm then mkFormSum cfg [(x, 1), (y, 1)] else .error .typeError)
    else .error .unsupported

/-- `-x` -/
def opNeg (cfg : Cfg) (x : BF K) : Except Err (BF K) :=
  match x with
  | .zero _ => .ok x
  | .form xi => .ok (.form (formSmul (-1) xi))
  | _ => if x.isBaseForm then mkFormSum cfg [(x, -1)] else .error .unsupported

/-- `s * x` -/
def opSmul (cfg : Cfg) (s : K) (x : BF K) : Except Err (BF K) :=
  match x with
  | .form xi => .ok (.form (formSmul s xi))
  | _ => if x.isBaseForm then mkFormSum cfg [(x, s)] else .error .unsupported

/-! ### descriptions: compositions of constructor calls, evaluated bottom-up as Python does -/

inductive Desc (K : Type) where
  | leaf (b : BF K)
  | formSum (cs : List (Desc K)) (ws : List K)
  | action (l r : Desc K)
  | adjoint (f : Desc K)
  | add (a b : Desc K)
  | sub (a b : Desc K)
  | neg (a : Desc K)
  | smul (s : K) (a : Desc K)

mutual
/-- the unsimplified meaning: the tree of operations as written -/
def Desc.raw : Desc K → BF K
  | .leaf b => b
  | .formSum cs ws => .formSum (Desc.rawL cs) ws
  | .action l r => .action l.raw r.raw
  | .adjoint f => .adjoint f.raw
  | .add a b => .formSum [a.raw, b.raw] [1, 1]
  | .sub a b => .formSum [a.raw, b.raw] [1, -1]
  | .neg a => .formSum [a.raw] [-1]
  | .smul s a => .formSum [a.raw] [s]
def Desc.rawL : List (Desc K) → List (BF K)
  | [] => []
  | c :: cs => c.raw :: Desc.rawL cs
end

mutual
/-- what the real constructors return -/
def Desc.build (cfg : Cfg) (cj : K → K) : Desc K → Except Err (BF K)
  | .leaf b => .ok b
  | .formSum cs ws => do
      let xs ← Desc.buildL cfg cj cs
      mkFormSum cfg (xs.zip ws)
  | .action l r => do
      let x ← l.build cfg cj
      let y ← r.build cfg cj
      mkAction cfg x y
  | .adjoint f => do
      let x ← f.build cfg cj
      mkAdjoint cfg cj x
  | .add a b => do
      let x ← a.build cfg cj
      let y ← b.build cfg cj
      opAdd cfg x y
  | .sub a b => do
      let x ← a.build cfg cj
      let y ← b.build cfg cj
      let ny ← opNeg cfg y
      opAdd cfg x ny
  | .neg a => do
      let x ← a.build cfg cj
      opNeg cfg x
  | .smul s a => do
      let x ← a.build cfg cj
      opSmul cfg s x
def Desc.buildL (cfg : Cfg) (cj : K → K) : List (Desc K) → Except Err (List (BF K))
  | [] => .ok []
  | c :: cs => do
      let x ← c.build cfg cj
      let xs ← Desc.buildL cfg cj cs
      .ok (x :: xs)
end

end constructors

/-! ### finite-dimensional semantics -/

def sumN [Add K] [Zero K] (n : Nat) (f : Nat → K) : K :=
  (List.range n).foldl (fun acc k => acc + f k) 0

/-- spaces ↦ dimensions, coefficients/cofunctions ↦ vectors, matrices ↦ matrices, atoms ↦ tensors that may depend on the
coefficient values; `star` is the conjugation used by the adjoint (identity in real mode) -/
structure Env (K : Type) where
  dim : Nat → Nat
  coefVal : Nat → Nat → K
  matVal : Nat → Nat → Nat → K
  atomFn : Nat → (Nat → Nat → K) → List Nat → K
  star : K → K

section semantics
variable [Add K] [Mul K] [Zero K] [One K]

def denoteItg (ρ : Env K) (i : Itg K) (idx : List Nat) : K :=
  if i.zeroed then 0 else i.w * ρ.atomFn i.atom.id ρ.coefVal idx

def denoteItgs (ρ : Env K) : List (Itg K) → List Nat → K
  | [], _ => 0
  | i :: l, idx => denoteItg ρ i idx + denoteItgs ρ l idx

def delta (i j : Nat) : K := if i = j then 1 else 0

/-- the identity matrix as a tensor -/
def deltaT (idx : List Nat) : K :=
  match idx with
  | [i, j] => delta i j
  | _ => 0

/-- number of free slots left of the contracted one, and the dimension of the contracted slot -/
def BF.splitAt (l : BF K) : Nat := l.sigS.length - 1
def BF.contrDim (ρ : Env K) (l : BF K) : Nat :=
  match l.sigS.getLast? with
  | some s => ρ.dim s.id
  | none => 0

mutual
/-- the entry `idx` of the tensor a base form (or operand expression) denotes -/
def denote (ρ : Env K) : BF K → List Nat → K
  | .form itgs, idx => denoteItgs ρ itgs idx
  | .cofunction c _, idx => (match idx with | [i] => ρ.coefVal c i | _ => 0)
  | .coargument _, idx => deltaT idx
  | .matrix c _ _, idx => (match idx with | [i, j] => ρ.matVal c i j | _ => 0)
  | .zero _, _ => 0
  | .formSum cs ws, idx => denoteSum ρ cs ws idx
  | .action l r, idx =>
      sumN (l.contrDim ρ) (fun k => denote ρ l (idx.take l.splitAt ++ [k]) * denote ρ r (k :: idx.drop l.splitAt))
  | .adjoint f, idx => (match idx with | [i, j] => ρ.star (denote ρ f [j, i]) | _ => 0)
  | .coefficient c _, idx => (match idx with | [i] => ρ.coefVal c i | _ => 0)
  | .argument _, idx => deltaT idx
  | .exprSum a b, idx => denote ρ a idx + denote ρ b idx
  | .exprZero, _ => 0
  | .exprOther _, _ => 0
def denoteSum (ρ : Env K) : List (BF K) → List K → List Nat → K
  | c :: cs, w :: ws, idx => w * denote ρ c idx + denoteSum ρ cs ws idx
  | _, _, _ => 0
end

end semantics

/-! ### side conditions used by the theorems (decidable) -/

mutual
/-- the weights `Adjoint` distributes over when applied to `f` -/
def adjWeights : BF K → List K
  | .formSum cs ws => ws ++ adjWeightsL cs
  | _ => []
def adjWeightsL : List (BF K) → List K
  | [] => []
  | c :: cs => adjWeights c ++ adjWeightsL cs
end

/-- argument numbers strictly increasing -/
def strictNum : List Arg → Bool
  | [] => true
  | [_] => true
  | a :: b :: l => decide (a.number < b.number) && strictNum (b :: l)

/-- every integral of the form has a non-zero integrand with one and the same argument tuple, numbered increasingly -/
def formProper : List (Itg K) → Bool
  | [] => true
  | i :: rest => !i.zeroed && rest.all (fun j => !j.zeroed && j.atom.args == i.atom.args) && strictNum i.atom.args

def sameArgs (cfg : Cfg) (c c' : BF K) : Bool :=
  match c.arguments cfg, c'.arguments cfg with
  | .ok a, .ok b => a == b
  | _, _ => false

def strictArgs (cfg : Cfg) (c : BF K) : Bool :=
  match c.arguments cfg with
  | .ok a => strictNum a
  | _ => false

mutual
/-- side condition of the argument-reporting theorem: forms are proper and the summands of every sum report one and the same
argument tuple (numbers included), numbered increasingly -/
def ArgsOK (cfg : Cfg) : BF K → Bool
  | .form itgs => formProper itgs
  | .formSum cs _ => ArgsOKL cfg cs &&
      (match cs with
       | [] => true
       | c :: rest => rest.all (fun c' => sameArgs cfg c' c) && strictArgs cfg c)
  | .action l r => ArgsOK cfg l && ArgsOK cfg r
  | .adjoint f => ArgsOK cfg f
  | .exprSum a b => ArgsOK cfg a && ArgsOK cfg b
  | _ => true
def ArgsOKL (cfg : Cfg) : List (BF K) → Bool
  | [] => true
  | c :: cs => ArgsOK cfg c && ArgsOKL cfg cs
end

mutual
/-- no `Action` has a `Coefficient` as its left operand -/
def noLeftCoef : BF K → Bool
  | .formSum cs _ => noLeftCoefL cs
  | .action l r => !l.isCoefficient && noLeftCoef l && noLeftCoef r
  | .adjoint f => noLeftCoef f
  | .exprSum a b => noLeftCoef a && noLeftCoef b
  | _ => true
def noLeftCoefL : List (BF K) → Bool
  | [] => true
  | c :: cs => noLeftCoef c && noLeftCoefL cs
end

mutual
/-- `fI` does not turn every integrand of a (non-empty) form into `Zero`: an emptied form has lost its arguments -/
def formsKept (fI : Itg K → Itg K) : BF K → Bool
  | .form itgs => itgs.isEmpty || itgs.any (fun i => !(fI i).zeroed)
  | .formSum cs _ => formsKeptL fI cs
  | .action l r => formsKept fI l && formsKept fI r
  | .adjoint f => formsKept fI f
  | _ => true
def formsKeptL (fI : Itg K → Itg K) : List (BF K) → Bool
  | [] => true
  | c :: cs => formsKept fI c && formsKeptL fI cs
end

mutual
/-- the atoms whose tensors the value of `b` may use (integrals with a non-zero integrand) -/
def liveAtoms : BF K → List Atom
  | .form itgs => (itgs.filter (fun i => !i.zeroed)).map (·.atom)
  | .formSum cs _ => liveAtomsL cs
  | .action l r => liveAtoms l ++ liveAtoms r
  | .adjoint f => liveAtoms f
  | .exprSum a b => liveAtoms a ++ liveAtoms b
  | _ => []
def liveAtomsL : List (BF K) → List Atom
  | [] => []
  | c :: cs => liveAtoms c ++ liveAtomsL cs
end

/-- the environment with other coefficient values -/
def Env.withCoef (ρ : Env K) (cv : Nat → Nat → K) : Env K := { ρ with coefVal := cv }

/-- `idx` is a multi-index of a tensor with signature `σ` -/
def IdxOK (ρ : Env K) : List Space → List Nat → Prop
  | [], [] => True
  | s :: σ, i :: idx => i < ρ.dim s.id ∧ IdxOK ρ σ idx
  | _, _ => False

end BaseForm
end UflVerif
