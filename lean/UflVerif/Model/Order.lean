/-
Model of ufl/sorting.py: `cmp_expr` (the canonical operand ordering) with its terminal comparators,
and `sorted_expr` on two operands.  The typecode table is regenerated from /repo (Gen/Typecodes.lean).
The explicit stack of `cmp_expr` pops the *last* pushed operand pair first, i.e. it is a depth-first
comparison that looks at (typecode, arity) of a node and then at its operands from last to first.
-/
import UflVerif.Model.Syntax
import UflVerif.Gen.Typecodes

namespace UflVerif
namespace Expr

def tcOfName (n : String) : Nat :=
  match Gen.Typecodes.table.find? (fun p => p.1 == n) with
  | some p => p.2
  | none => 100000

def className : Expr → String
  | .int _ => "IntValue" | .real _ _ => "FloatValue" | .cplx _ _ _ _ => "ComplexValue"
  | .zero _ _ => "Zero" | .mi _ => "MultiIndex" | .term d => d.cls | .op k _ _ => k.name

def typecode (e : Expr) : Nat := tcOfName (className e)

/-- Python `repr` of a tuple of ints -/
def pyTuple : List Nat → String
  | [] => "()"
  | [x] => "(" ++ toString x ++ ",)"
  | xs => "(" ++ ", ".intercalate (xs.map toString) ++ ")"

/-- `str(float)` for a dyadic rational of moderate magnitude (finite decimal expansion) -/
def floatStr (n : Int) (d : Nat) : String :=
  let a := n.natAbs
  let ip := a / d
  let rec digits (fuel : Nat) (r : Nat) (acc : String) : String :=
    match fuel with
    | 0 => acc
    | f + 1 => if r = 0 then acc else digits f ((r * 10) % d) (acc ++ toString ((r * 10) / d))
  let fr := digits 64 (a % d) ""
  (if n < 0 then "-" else "") ++ toString ip ++ "." ++ (if fr = "" then "0" else fr)

/-- what `repr(terminal)` returns, for the terminals compared by `_cmp_terminal_by_repr` -/
def reprOf : Expr → String
  | .int v => "IntValue(" ++ toString v ++ ")"
  | .real n d => "FloatValue(" ++ floatStr n d ++ ")"
  | .zero sh fi => "Zero(" ++ pyTuple sh ++ ", " ++ pyTuple (fi.map (·.1)) ++ ", " ++ pyTuple (fi.map (·.2)) ++ ")"
  | .term d => d.key
  | _ => ""

def cmpNat (x y : Nat) : Ordering := compare x y

/-- one pair of indices in `_cmp_multi_index`: fixed before free, fixed by value, free indices tie -/
def cmpIdx : Idx → Idx → Ordering
  | .fixed x, .fixed y => compare x y
  | .fixed _, .free _ => .lt
  | .free _, .fixed _ => .gt
  | .free _, .free _ => .eq

/-- `_cmp_multi_index` (as repaired: ties on the common prefix are broken by length) -/
def cmpMI : List Idx → List Idx → Ordering
  | [], [] => .eq
  | [], _ :: _ => .lt
  | _ :: _, [] => .gt
  | i :: is, j :: js => match cmpIdx i j with
    | .eq => cmpMI is js
    | r => r

/-- `_cmp_multi_index` before the repair: `zip` stops at the shorter tuple -/
def cmpMIOld : List Idx → List Idx → Ordering
  | i :: is, j :: js => match cmpIdx i j with
    | .eq => cmpMIOld is js
    | r => r
  | _, _ => .eq

/-- comparison of two terminals of the same typecode -/
def cmpTerm (mi : List Idx → List Idx → Ordering) : Expr → Expr → Ordering
  | .mi a, .mi b => mi a b
  | .term a, .term b =>
    if a.cls = "Coefficient" then compare a.count b.count
    else if a.cls = "Argument" then (match compare a.count b.count with | .eq => compare a.part b.part | r => r)
    else if a.cls = "Label" then .eq
    else compare a.key b.key
  | a, b => compare (reprOf a) (reprOf b)

mutual
def cmpWith (mi : List Idx → List Idx → Ordering) : Expr → Expr → Ordering
  | a, b =>
    match compare (typecode a) (typecode b) with
    | .eq =>
      (match a, b with
       | .op _ _ as, .op _ _ bs =>
         (match compare as.length bs.length with
          | .eq => cmpLWith mi as bs
          | r => r)
       | _, _ => cmpTerm mi a b)
    | r => r
/-- operands from last to first: the tail is decided before the head -/
def cmpLWith (mi : List Idx → List Idx → Ordering) : List Expr → List Expr → Ordering
  | a :: as, b :: bs => match cmpLWith mi as bs with
    | .eq => cmpWith mi a b
    | r => r
  | _, _ => .eq
end

/-- `cmp_expr` -/
def cmp : Expr → Expr → Ordering := cmpWith cmpMI
def cmpOld : Expr → Expr → Ordering := cmpWith cmpMIOld

/-- `sorted_expr((a, b))`: Python's stable sort of two elements under `cmp_to_key(cmp_expr)` -/
def sort2 (a b : Expr) : Expr × Expr := if cmp b a = .lt then (b, a) else (a, b)

def ordStr : Ordering → String | .lt => "-1" | .eq => "0" | .gt => "1"

end Expr
end UflVerif
