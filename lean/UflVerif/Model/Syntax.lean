/-
The model language: UFL expressions as a uniform tree (DESIGN.md 2.1).  Core Lean only.

Terminals: literals (exact rationals), Zero, MultiIndex, and a generic `term` carrying what the
algorithms read from any other terminal (class, repr as identity key, shape, counters).
Operators: one constructor per concrete UFL operator class (`Op`), an `aux` list for the data a
node carries besides its operands (Grad: [gdim]; ReferenceGrad: [tdim]; ReferenceValue: the
reference value shape; `other`: the shape), and the operand list in `ufl_operands` order
(MultiIndex and Label occur as operands, as in UFL).
-/
namespace UflVerif

inductive Idx
  | fixed (v : Nat)
  | free (count : Nat)
  deriving DecidableEq, Repr, Inhabited

/-- one entry of a (flattened) Python sort key: an int or a str -/
inductive KeyAtom
  | n (v : Int)
  | s (v : String)
  deriving DecidableEq, Repr, Inhabited

/-- what a terminal comparator of ufl/sorting.py puts into its sort key (`x = (..., ..., ...)`); which parts the
    comparator of a class uses is regenerated from the tree under test (Gen/OrderVariant.lean) -/
inductive KeyPart
  | repr          -- repr(a)
  | domKey        -- the domain's `_ufl_sort_key_()`
  | shape         -- ufl_shape
  | count         -- the Counted count
  | indexDims     -- ufl_index_dimensions (Zero)
  deriving DecidableEq, Repr, Inhabited

structure TermData where
  cls : String              -- class name
  key : String              -- repr(o): the identity `==`, hashing and the repr comparator see
  shape : List Nat
  count : Int := 0          -- Coefficient / Constant / Label count, Argument number
  part : Int := -1          -- Argument part (-1 = None)
  dom : List KeyAtom := []  -- Constant / geometric quantity: the domain's `_ufl_sort_key_()`, nested tuples flattened
  deriving DecidableEq, Repr, Inhabited

inductive Op
  | indexed
  | listTensor
  | componentTensor
  | variable
  | sum
  | product
  | division
  | power
  | abs
  | conj
  | real
  | imag
  | exprList
  | exprMapping
  | coefficientDerivative
  | coordinateDerivative
  | variableDerivative
  | grad
  | referenceGrad
  | div
  | referenceDiv
  | nablaGrad
  | nablaDiv
  | curl
  | referenceCurl
  | eQ
  | nE
  | lE
  | gE
  | lT
  | gT
  | andCondition
  | orCondition
  | notCondition
  | conditional
  | minValue
  | maxValue
  | indexSum
  | positiveRestricted
  | negativeRestricted
  | transposed
  | outer
  | inner
  | dot
  | perp
  | cross
  | trace
  | determinant
  | inverse
  | cofactor
  | deviatoric
  | skew
  | sym
  | cellAvg
  | facetAvg
  | sqrt
  | exp
  | ln
  | cos
  | sin
  | tan
  | cosh
  | sinh
  | tanh
  | acos
  | asin
  | atan
  | atan2
  | erf
  | besselJ
  | besselY
  | besselI
  | besselK
  | referenceValue
  | other (name : String)
  deriving DecidableEq, Repr, Inhabited

def Op.name : Op → String
  | .indexed => "Indexed"
  | .listTensor => "ListTensor"
  | .componentTensor => "ComponentTensor"
  | .variable => "Variable"
  | .sum => "Sum"
  | .product => "Product"
  | .division => "Division"
  | .power => "Power"
  | .abs => "Abs"
  | .conj => "Conj"
  | .real => "Real"
  | .imag => "Imag"
  | .exprList => "ExprList"
  | .exprMapping => "ExprMapping"
  | .coefficientDerivative => "CoefficientDerivative"
  | .coordinateDerivative => "CoordinateDerivative"
  | .variableDerivative => "VariableDerivative"
  | .grad => "Grad"
  | .referenceGrad => "ReferenceGrad"
  | .div => "Div"
  | .referenceDiv => "ReferenceDiv"
  | .nablaGrad => "NablaGrad"
  | .nablaDiv => "NablaDiv"
  | .curl => "Curl"
  | .referenceCurl => "ReferenceCurl"
  | .eQ => "EQ"
  | .nE => "NE"
  | .lE => "LE"
  | .gE => "GE"
  | .lT => "LT"
  | .gT => "GT"
  | .andCondition => "AndCondition"
  | .orCondition => "OrCondition"
  | .notCondition => "NotCondition"
  | .conditional => "Conditional"
  | .minValue => "MinValue"
  | .maxValue => "MaxValue"
  | .indexSum => "IndexSum"
  | .positiveRestricted => "PositiveRestricted"
  | .negativeRestricted => "NegativeRestricted"
  | .transposed => "Transposed"
  | .outer => "Outer"
  | .inner => "Inner"
  | .dot => "Dot"
  | .perp => "Perp"
  | .cross => "Cross"
  | .trace => "Trace"
  | .determinant => "Determinant"
  | .inverse => "Inverse"
  | .cofactor => "Cofactor"
  | .deviatoric => "Deviatoric"
  | .skew => "Skew"
  | .sym => "Sym"
  | .cellAvg => "CellAvg"
  | .facetAvg => "FacetAvg"
  | .sqrt => "Sqrt"
  | .exp => "Exp"
  | .ln => "Ln"
  | .cos => "Cos"
  | .sin => "Sin"
  | .tan => "Tan"
  | .cosh => "Cosh"
  | .sinh => "Sinh"
  | .tanh => "Tanh"
  | .acos => "Acos"
  | .asin => "Asin"
  | .atan => "Atan"
  | .atan2 => "Atan2"
  | .erf => "Erf"
  | .besselJ => "BesselJ"
  | .besselY => "BesselY"
  | .besselI => "BesselI"
  | .besselK => "BesselK"
  | .referenceValue => "ReferenceValue"
  | .other n => n

def Op.table : List (String × Op) := [
  ("Indexed", .indexed),
  ("ListTensor", .listTensor),
  ("ComponentTensor", .componentTensor),
  ("Variable", .variable),
  ("Sum", .sum),
  ("Product", .product),
  ("Division", .division),
  ("Power", .power),
  ("Abs", .abs),
  ("Conj", .conj),
  ("Real", .real),
  ("Imag", .imag),
  ("ExprList", .exprList),
  ("ExprMapping", .exprMapping),
  ("CoefficientDerivative", .coefficientDerivative),
  ("CoordinateDerivative", .coordinateDerivative),
  ("VariableDerivative", .variableDerivative),
  ("Grad", .grad),
  ("ReferenceGrad", .referenceGrad),
  ("Div", .div),
  ("ReferenceDiv", .referenceDiv),
  ("NablaGrad", .nablaGrad),
  ("NablaDiv", .nablaDiv),
  ("Curl", .curl),
  ("ReferenceCurl", .referenceCurl),
  ("EQ", .eQ),
  ("NE", .nE),
  ("LE", .lE),
  ("GE", .gE),
  ("LT", .lT),
  ("GT", .gT),
  ("AndCondition", .andCondition),
  ("OrCondition", .orCondition),
  ("NotCondition", .notCondition),
  ("Conditional", .conditional),
  ("MinValue", .minValue),
  ("MaxValue", .maxValue),
  ("IndexSum", .indexSum),
  ("PositiveRestricted", .positiveRestricted),
  ("NegativeRestricted", .negativeRestricted),
  ("Transposed", .transposed),
  ("Outer", .outer),
  ("Inner", .inner),
  ("Dot", .dot),
  ("Perp", .perp),
  ("Cross", .cross),
  ("Trace", .trace),
  ("Determinant", .determinant),
  ("Inverse", .inverse),
  ("Cofactor", .cofactor),
  ("Deviatoric", .deviatoric),
  ("Skew", .skew),
  ("Sym", .sym),
  ("CellAvg", .cellAvg),
  ("FacetAvg", .facetAvg),
  ("Sqrt", .sqrt),
  ("Exp", .exp),
  ("Ln", .ln),
  ("Cos", .cos),
  ("Sin", .sin),
  ("Tan", .tan),
  ("Cosh", .cosh),
  ("Sinh", .sinh),
  ("Tanh", .tanh),
  ("Acos", .acos),
  ("Asin", .asin),
  ("Atan", .atan),
  ("Atan2", .atan2),
  ("Erf", .erf),
  ("BesselJ", .besselJ),
  ("BesselY", .besselY),
  ("BesselI", .besselI),
  ("BesselK", .besselK),
  ("ReferenceValue", .referenceValue)]

def Op.ofName (n : String) : Op :=
  match Op.table.find? (·.1 == n) with
  | some p => p.2
  | none => .other n

inductive Expr
  | int (v : Int)                                      -- IntValue
  | real (num : Int) (den : Nat)                       -- FloatValue, exact
  | cplx (rn : Int) (rd : Nat) (im_n : Int) (im_d : Nat)  -- ComplexValue
  | zero (sh : List Nat) (fi : List (Nat × Nat))       -- Zero(shape, free indices with dimensions)
  | mi (is : List Idx)                                 -- MultiIndex
  | term (d : TermData)                                -- any other terminal
  | op (k : Op) (aux : List Nat) (args : List Expr)
  deriving Repr, Inhabited

namespace Expr

/- structural equality (UFL `==`: same type, equal terminal data, equal operands) -/
mutual
def beq : Expr → Expr → Bool
  | .int a, .int b => a == b
  | .real a b, .real c d => a == c && b == d
  | .cplx a b c d, .cplx e f g h => a == e && b == f && c == g && d == h
  | .zero s f, .zero s' f' => s == s' && f == f'
  | .mi a, .mi b => a == b
  | .term a, .term b => a == b
  | .op k x as, .op k' x' bs => k == k' && x == x' && beqL as bs
  | _, _ => false
def beqL : List Expr → List Expr → Bool
  | [], [] => true
  | a :: as, b :: bs => beq a b && beqL as bs
  | _, _ => false
end

instance : BEq Expr := ⟨beq⟩

def isTerminal : Expr → Bool
  | .op .. => false
  | _ => true

def operands : Expr → List Expr
  | .op _ _ as => as
  | _ => []

mutual
def size : Expr → Nat
  | .op _ _ as => 1 + sizeL as
  | _ => 1
def sizeL : List Expr → Nat
  | [] => 0
  | a :: as => size a + sizeL as
end

end Expr
end UflVerif
