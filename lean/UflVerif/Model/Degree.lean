/-
Model of ufl/algorithms/estimate_degrees.py (`SumDegreeEstimator`, `estimate_total_polynomial_degree`)
and of `attach_estimated_degrees` in compute_form_data.py.  Core Lean only.

A handler returns a Python `int` or `None` (`Deg := Option Nat`); a raising handler (`_not_handled`,
`max(None, 0)`, `None + 2`, ...) is the outer `none`.  Degrees that are tuples (tensor-product
cells of legacy elements) are not modelled.

What the estimator reads from terminals is passed in a context (`Ctx`), serialised by the harness
from the live objects: the element tree of a form argument (after `element_replace_map`) with,
per node, `embedded_superdegree`, `reference_value_size`, the physical value size and how the
physical value is laid out over the sub-elements; the coordinate element degree of the domain;
`is_cellwise_constant`; whether a domain's cell is a quadrilateral / hexahedron.

The `indexed` handler exists in three variants: `refSize` is the code of the snapshot (walks the
sub-elements with *reference* sizes against the flattened *physical* component), `physSize` walks
with physical sizes and leaves symmetric elements alone (the proposed repair), `off` is upstream's
`return A`.  Which one is live is regenerated on every run (Gen/DegreeTable.lean) and re-validated
by the correspondence.

The second half of the file is the *semantic* side used by the theorems (Props/C18.lean): the true
degree bound of a physical component of a form argument (`compDeg`, by the physical layout), the
polynomial fragment `Frag`, and the side condition `layoutSafe` of the partial theorem.
-/
import UflVerif.Model.WF

namespace UflVerif
namespace Degree

/-! ### element trees -/

/-- how the flattened physical value of an element is made of its sub-elements' values -/
inductive Layout
  | leaf                                   -- no sub-elements
  | concat                                 -- mixed: concatenation of the flattened sub-element values
  | sym (subPhys : Nat) (map : List Nat)   -- symmetric: block `b` (row-major) is sub-element `map[b]`, each of size subPhys
  deriving Repr, DecidableEq, Inhabited

inductive Elem
  | mk (deg : Option Nat) (refSize physSize : Nat) (layout : Layout) (subs : List Elem)
  deriving Repr, Inhabited

namespace Elem
def deg : Elem → Option Nat | .mk d _ _ _ _ => d
def refSize : Elem → Nat | .mk _ r _ _ _ => r
def physSize : Elem → Nat | .mk _ _ p _ _ => p
def layout : Elem → Layout | .mk _ _ _ l _ => l
def subs : Elem → List Elem | .mk _ _ _ _ s => s
end Elem

structure TermInfo where
  cls : String := ""             -- class and shape of the terminal with this key (repr determines both);
  shape : List Nat := []         --   read by the semantic side only
  elem : Option Elem := none     -- ufl_element() of a form argument
  coordDeg : Nat := 0            -- extract_unique_domain(v).ufl_coordinate_element().embedded_superdegree
  cwc : Bool := false            -- is_cellwise_constant(v)
  quad : Bool := false           -- some domain's cell is a quadrilateral or hexahedron
  deriving Repr, Inhabited

inductive Variant | refSize | physSize | off
  deriving Repr, DecidableEq, Inhabited

def Variant.ofName : String → Variant
  | "physSize" => .physSize
  | "off" => .off
  | _ => .refSize

structure Ctx where
  default : Nat := 1
  variant : Variant := .refSize
  info : List (String × TermInfo) := []
  deriving Repr, Inhabited

def Ctx.get (ctx : Ctx) (key : String) : TermInfo :=
  match ctx.info.find? (fun p => p.1 == key) with
  | some p => p.2
  | none => {}

/-! ### Python values of handlers -/

/-- `None` or an `int` -/
abbrev Deg := Option Nat

def allSome : List Deg → Option (List Nat)
  | [] => some []
  | none :: _ => none
  | some n :: ds => match allSome ds with
    | some ns => some (n :: ns)
    | none => none

def maxL : List Nat → Nat
  | [] => 0
  | n :: ns => max n (maxL ns)

def sumL : List Nat → Nat
  | [] => 0
  | n :: ns => n + sumL ns

/-- `max(ops + (0,))`: comparing `None` with an `int` raises -/
def pyMax (ds : List Deg) : Option Deg := (allSome ds).map (fun ns => some (maxL ns))
/-- `sum(ops)` -/
def pySum (ds : List Deg) : Option Deg := (allSome ds).map (fun ns => some (sumL ns))

def truthy : Deg → Bool
  | some n => n != 0
  | none => false

/-- `_reduce_degree`: `max(f - 1, 0)` for an `int` on simplices, otherwise `f` -/
def reduceDeg (quad : Bool) : Deg → Deg
  | some f => if quad then some f else some (f - 1)
  | none => none

/-! ### dispatch: the function the estimator runs for each type -/

inductive Handler
  | constantValue | constant | geometricQuantity | spatialCoordinate | cellCoordinate | argument | coefficient
  | multiIndex | label
  | reduce | add | max | notHandled | expr
  | referenceValue | variable | transposed | indexSum | indexed | componentTensor
  | positiveRestricted | negativeRestricted | conj | real | imag | abs
  | cellAvg | facetAvg | division | power | atan2 | mathFunction | besselFunction
  | condition | conditional | minValue | coordinateDerivative | exprList | exprMapping
  deriving Repr, DecidableEq, Inhabited

/-- `__name__` of the Python function -/
def Handler.name : Handler → String
  | .constantValue => "constant_value" | .constant => "constant" | .geometricQuantity => "geometric_quantity"
  | .spatialCoordinate => "spatial_coordinate" | .cellCoordinate => "cell_coordinate"
  | .argument => "argument" | .coefficient => "coefficient" | .multiIndex => "multi_index" | .label => "label"
  | .reduce => "_reduce_degree" | .add => "_add_degrees" | .max => "_max_degrees" | .notHandled => "_not_handled"
  | .expr => "expr" | .referenceValue => "reference_value" | .variable => "variable" | .transposed => "transposed"
  | .indexSum => "index_sum" | .indexed => "indexed" | .componentTensor => "component_tensor"
  | .positiveRestricted => "positive_restricted" | .negativeRestricted => "negative_restricted"
  | .conj => "conj" | .real => "real" | .imag => "imag" | .abs => "abs"
  | .cellAvg => "cell_avg" | .facetAvg => "facet_avg" | .division => "division" | .power => "power"
  | .atan2 => "atan2" | .mathFunction => "math_function" | .besselFunction => "bessel_function"
  | .condition => "condition" | .conditional => "conditional" | .minValue => "min_value"
  | .coordinateDerivative => "coordinate_derivative" | .exprList => "expr_list" | .exprMapping => "expr_mapping"

def opHandler : Op → Handler
  | .indexed => .indexed
  | .listTensor => .max
  | .componentTensor => .componentTensor
  | .variable => .variable
  | .sum => .max
  | .product => .add
  | .division => .division
  | .power => .power
  | .abs => .abs
  | .conj => .conj
  | .real => .real
  | .imag => .imag
  | .exprList => .exprList
  | .exprMapping => .exprMapping
  | .coefficientDerivative => .notHandled
  | .coordinateDerivative => .coordinateDerivative
  | .variableDerivative => .notHandled
  | .grad | .referenceGrad | .div | .referenceDiv | .nablaGrad | .nablaDiv | .curl | .referenceCurl => .reduce
  | .eQ | .nE | .lE | .gE | .lT | .gT | .andCondition | .orCondition | .notCondition => .condition
  | .conditional => .conditional
  | .minValue | .maxValue => .minValue
  | .indexSum => .indexSum
  | .positiveRestricted => .positiveRestricted
  | .negativeRestricted => .negativeRestricted
  | .transposed => .transposed
  | .outer | .inner | .dot | .cross => .add
  | .perp | .trace | .determinant | .inverse | .cofactor | .deviatoric | .skew | .sym => .notHandled
  | .cellAvg => .cellAvg
  | .facetAvg => .facetAvg
  | .sqrt | .exp | .ln | .cos | .sin | .tan | .cosh | .sinh | .tanh | .acos | .asin | .atan | .erf => .mathFunction
  | .atan2 => .atan2
  | .besselJ | .besselY | .besselI | .besselK => .besselFunction
  | .referenceValue => .referenceValue
  | .other n =>
    if n == "BaseFormCoordinateDerivative" || n == "BaseFormOperatorCoordinateDerivative" then .coordinateDerivative
    else if n == "BaseFormDerivative" || n == "BaseFormOperatorDerivative" then .notHandled
    else .expr

/-- terminals by class name (the literal classes are constructors of `Expr`) -/
def termHandler (cls : String) : Handler :=
  if cls == "Coefficient" then .coefficient
  else if cls == "Argument" then .argument
  else if cls == "Constant" then .constant
  else if cls == "SpatialCoordinate" then .spatialCoordinate
  else if cls == "CellCoordinate" then .cellCoordinate
  else if cls == "Label" then .label
  else if cls == "MultiIndex" then .multiIndex
  else if cls == "Identity" || cls == "PermutationSymbol" || cls == "Zero" || cls == "IntValue"
       || cls == "FloatValue" || cls == "ComplexValue" then .constantValue
  else .geometricQuantity

/-- the model's dispatch as a function of the class name, comparable with the regenerated table -/
def classHandler (cls : String) (terminal : Bool) : Handler :=
  if terminal then termHandler cls else opHandler (Op.ofName cls)

/-! ### the handlers -/

def termEstimate (ctx : Ctx) (d : TermData) : Option Deg :=
  let inf := ctx.get d.key
  match termHandler d.cls with
  | .constantValue | .constant => some (some 0)
  | .geometricQuantity => some (some (if inf.cwc then 0 else inf.coordDeg))
  | .spatialCoordinate => some (some inf.coordDeg)
  | .cellCoordinate => some (some 1)
  | .argument => some (inf.elem.bind Elem.deg)
  | .coefficient => some (some (match inf.elem.bind Elem.deg with | some n => n | none => ctx.default))
  | .multiIndex | .label => some none
  | _ => none

/-- `flatten_multiindex(ii, shape_to_strides(shape))` (row-major) -/
def flatGo : Nat → List Nat → List Nat → Nat
  | acc, s :: sh, i :: is => flatGo (acc * s + i) sh is
  | acc, _, _ => acc
def flat (shape idx : List Nat) : Nat := flatGo 0 shape idx

def allFixed : List Idx → Bool
  | [] => true
  | .fixed _ :: is => allFixed is
  | .free _ :: _ => false

def fixedVals : List Idx → List Nat
  | [] => []
  | .fixed v :: is => v :: fixedVals is
  | .free _ :: is => 0 :: fixedVals is

/-- the loop of the `indexed` handler: first sub-element with `component < offset + size` -/
def walk (useRef : Bool) (default : Nat) : List Elem → Nat → Nat → Option Nat
  | [], _, _ => none
  | s :: rest, comp, off =>
    let size := if useRef then s.refSize else s.physSize
    if comp < off + size then some (match s.deg with | some n => n | none => default)
    else walk useRef default rest comp (off + size)

def Layout.isSym : Layout → Bool
  | .sym _ _ => true
  | _ => false

/-- the refinement of the `indexed` handler: `some d` when it returns the sub-element's degree `d`,
    `none` when it falls through to `return A` -/
def refine (ctx : Ctx) (x : Expr) (is : List Idx) : Option Nat :=
  match x with
  | .term d =>
    if (d.cls == "Coefficient" || d.cls == "Argument") && allFixed is then
      match (ctx.get d.key).elem with
      | some el =>
        if !el.subs.isEmpty && is.length == d.shape.length then
          match ctx.variant with
          | .off => none
          | .refSize => walk true ctx.default el.subs (flat d.shape (fixedVals is)) 0
          | .physSize => if el.layout.isSym then none else walk false ctx.default el.subs (flat d.shape (fixedVals is)) 0
        else none
      | none => none
    else none
  | _ => none

mutual
/-- `extract_domains(v)` contains a quadrilateral / hexahedron cell -/
def quadAny (ctx : Ctx) : Expr → Bool
  | .term d => (ctx.get d.key).quad
  | .op _ _ args => quadAnyL ctx args
  | _ => false
def quadAnyL (ctx : Ctx) : List Expr → Bool
  | [] => false
  | a :: as => quadAny ctx a || quadAnyL ctx as
end

/-- one operator node: `ds` are the values returned for the operands -/
def applyOp (ctx : Ctx) (k : Op) (args : List Expr) (ds : List Deg) : Option Deg :=
  match opHandler k, ds with
  | .max, ds => pyMax ds
  | .add, ds => pySum ds
  | .expr, ds => pySum ds
  | .division, ds => pySum ds
  | .exprList, ds => pyMax ds
  | .exprMapping, ds => pyMax ds
  | .condition, _ => some none
  | .notHandled, _ => none
  | .reduce, [f] => some (reduceDeg (quadAnyL ctx args) f)
  | .referenceValue, [f] => some f
  | .variable, [e, _] => some e
  | .transposed, [a] => some a
  | .indexSum, [a, _] => some a
  | .componentTensor, [a, _] => some a
  | .indexed, [a, _] =>
    (match args with
     | [x, .mi is] => (match refine ctx x is with
        | some r => some (some r)
        | none => some a)
     | _ => some a)
  | .positiveRestricted, [a] | .negativeRestricted, [a] | .conj, [a] | .real, [a] | .imag, [a] | .abs, [a] => some a
  | .cellAvg, [_] | .facetAvg, [_] => some (some 0)
  | .power, [a, _] =>
    (match args with
     | [_, .int g] =>
       if g ≥ 0 then (match a with
         | some n => some (some (n * g.toNat))
         | none => none)
       else pySum [a, some 2]
     | _ => pySum [a, some 2])
  | .atan2, [a, b] =>
    if truthy a || truthy b then (match pyMax [a, b] with
      | some m => pySum [m, some 2]
      | none => none)
    else pyMax [a, b]
  | .mathFunction, [a] => if truthy a then pySum [a, some 2] else some a
  | .besselFunction, [_, x] => if truthy x then pySum [x, some 2] else some x
  | .conditional, [_, t, f] => pyMax [t, f]
  | .minValue, [a, r] => pyMax [a, r]
  | .coordinateDerivative, [i, _, d, _] => pySum [i, d]
  | _, _ => none

mutual
/-- `map_expr_dag(SumDegreeEstimator(default, replace_map), e)` -/
def estimate (ctx : Ctx) : Expr → Option Deg
  | .int _ | .real _ _ | .cplx _ _ _ _ | .zero _ _ => some (some 0)
  | .mi _ => some none
  | .term d => termEstimate ctx d
  | .op k _ args => (estimateL ctx args).bind (applyOp ctx k args)
def estimateL (ctx : Ctx) : List Expr → Option (List Deg)
  | [] => some []
  | a :: as =>
    match estimate ctx a, estimateL ctx as with
    | some d, some ds => some (d :: ds)
    | _, _ => none
end

/-- Python `max(list)`: a single element is returned as it is, otherwise `None` cannot be compared -/
def pyMaxList : List Deg → Option Deg
  | [] => none
  | [d] => some d
  | ds => (allSome ds).map (fun ns => some (maxL ns))

/-- `estimate_total_polynomial_degree` of a form / integral / expression given by its integrands;
    an empty form raises -/
def estimateTotal (ctx : Ctx) (integrands : List Expr) : Option Deg :=
  match estimateL ctx integrands with
  | some ds => pyMaxList ds
  | none => none

/-- `attach_estimated_degrees`: one call per integral with the default arguments -/
def attachDegrees (ctx : Ctx) : List Expr → Option (List Deg)
  | [] => some []
  | e :: es =>
    match estimateTotal ctx [e], attachDegrees ctx es with
    | some d, some ds => some (d :: ds)
    | _, _ => none

/-! ### semantic side: true degree bounds, fragment, side condition -/

mutual
/-- degree bound of the flattened *physical* component `c` of an element, read off the physical layout -/
def compDeg : Elem → Nat → Option Nat
  | .mk d _ _ .leaf _, _ => d
  | .mk _ _ _ .concat subs, c => compDegWalk subs c
  | .mk _ _ _ (.sym subPhys map) subs, c =>
    if subPhys = 0 then none else
    match map[c / subPhys]? with
    | some k => compDegNth subs k (c % subPhys)
    | none => none
def compDegWalk : List Elem → Nat → Option Nat
  | [], _ => none
  | s :: rest, c => if c < s.physSize then compDeg s c else compDegWalk rest (c - s.physSize)
def compDegNth : List Elem → Nat → Nat → Option Nat
  | [], _, _ => none
  | s :: _, 0, c => compDeg s c
  | _ :: rest, k + 1, c => compDegNth rest k c
end

def physSum : List Elem → Nat
  | [] => 0
  | s :: rest => s.physSize + physSum rest

def degLe : Option Nat → Option Nat → Bool
  | some a, some b => a ≤ b
  | _, _ => false

mutual
/-- consistency of an element tree: every node has a degree, the degree of a node bounds the degrees
    of its sub-elements (`embedded_superdegree` is a superdegree), and the physical sizes add up -/
def elemOK : Elem → Bool
  | .mk d _ _ .leaf subs => d.isSome && subs.isEmpty
  | .mk d _ p .concat subs => d.isSome && elemOKL d subs && p == physSum subs
  | .mk d _ p (.sym subPhys map) subs =>
    d.isSome && elemOKL d subs && subs.all (fun s => s.physSize == subPhys) && map.all (fun k => k < subs.length)
    && p == map.length * subPhys && decide (0 < subPhys)
def elemOKL (d : Option Nat) : List Elem → Bool
  | [] => true
  | s :: rest => elemOK s && degLe s.deg d && elemOKL d rest
end

def prodL : List Nat → Nat
  | [] => 1
  | n :: ns => n * prodL ns

def isFormArg (d : TermData) : Bool := d.cls == "Coefficient" || d.cls == "Argument"

/-- classes whose value does not depend on the position at all -/
def isConstClass (cls : String) : Bool :=
  cls == "Constant" || cls == "Identity" || cls == "PermutationSymbol"

/-- bound on the total degree of component `c` of a terminal, as a polynomial in the spatial coordinate
    of an affine cell: the degree of the sub-element that owns the physical component for form arguments,
    the coordinate element degree for `x`, 1 for the reference coordinate, 0 for constants and for
    quantities UFL declares cellwise constant -/
def trueBound (ctx : Ctx) (d : TermData) (c : List Nat) : Nat :=
  let inf := ctx.get d.key
  if isFormArg d then
    match inf.elem with
    | some el => (compDeg el (flat d.shape c)).getD 0    -- outside the value shape there is no field
    | none => 0
  else if d.cls == "SpatialCoordinate" then inf.coordDeg
  else if d.cls == "CellCoordinate" then 1
  else 0

/-- terminals of the polynomial fragment -/
def termFrag (ctx : Ctx) (d : TermData) : Bool :=
  let inf := ctx.get d.key
  inf.cls == d.cls && inf.shape == d.shape &&
  if isFormArg d then
    match inf.elem with
    | some el => elemOK el && el.physSize == prodL d.shape
    | none => false
  else d.cls == "SpatialCoordinate" || d.cls == "CellCoordinate" || isConstClass d.cls
       || (termHandler d.cls == .geometricQuantity && inf.cwc)

/-- every `Grad` node of a gradient chain appends exactly one axis -/
def chainAux : Expr → Bool
  | .term _ => true
  | .op .grad aux [a] => aux.length == 1 && chainAux a
  | _ => false

mutual
/-- The polynomial fragment of the property statement, inside the language the denotational semantics
    interprets: sums, products, division by expressions of estimated degree 0, non-negative integer
    powers, indexing, component / list tensors, index sums, gradients of terminals, restrictions,
    conj/real/imag, variables.  `safe a is` is an extra requirement on every `Indexed(a, is)` node. -/
def Frag (ctx : Ctx) (safe : Expr → List Idx → Bool) : Expr → Bool
  | .int _ | .real _ _ | .cplx _ _ _ _ | .zero _ _ => true
  | .mi _ => false
  | .term d => termFrag ctx d
  | .op k aux args =>
    match k, args with
    | .sum, [a, b] => Frag ctx safe a && Frag ctx safe b
    | .product, [a, b] => Frag ctx safe a && Frag ctx safe b
    | .division, [a, b] => Frag ctx safe a && Frag ctx safe b && estimate ctx b == some (some 0)
    | .power, [a, .int g] => Frag ctx safe a && decide (0 ≤ g)
    | .conj, [a] | .real, [a] | .imag, [a] => Frag ctx safe a
    | .indexed, [a, .mi is] => Frag ctx safe a && safe a is
    | .indexSum, [a, .mi [.free _]] => Frag ctx safe a
    | .componentTensor, [a, .mi _] => Frag ctx safe a
    | .listTensor, xs => FragL ctx safe xs
    | .variable, [a, .term _] => Frag ctx safe a
    | .positiveRestricted, [a] | .negativeRestricted, [a] => Frag ctx safe a
    | .grad, [a] => (match Expr.gradChain a with
        | some (d, _) => termFrag ctx d && chainAux (.op .grad aux [a])
        | none => false)
    | _, _ => false
def FragL (ctx : Ctx) (safe : Expr → List Idx → Bool) : List Expr → Bool
  | [] => true
  | a :: as => Frag ctx safe a && FragL ctx safe as
end

def noCond : Expr → List Idx → Bool := fun _ _ => true

/-- Side condition of the partial theorem for the snapshot's `indexed` handler: wherever the refinement
    can fire (fixed indices into a form argument whose element has sub-elements), the element is a plain
    concatenation and every sub-element has the same reference and physical value size. -/
def layoutSafe (ctx : Ctx) (x : Expr) (is : List Idx) : Bool :=
  match x with
  | .term d =>
    if isFormArg d && allFixed is then
      match (ctx.get d.key).elem with
      | some el => el.subs.isEmpty || (el.layout == .concat && el.subs.all (fun s => s.refSize == s.physSize))
      | none => true
    else true
  | _ => true

mutual
/-- `p a is` holds at every `Indexed(a, is)` node of the expression -/
def allIndexed (p : Expr → List Idx → Bool) : Expr → Bool
  | .op k _ args =>
    (match k, args with
     | .indexed, [a, .mi is] => p a is
     | _, _ => true) && allIndexedL p args
  | _ => true
def allIndexedL (p : Expr → List Idx → Bool) : List Expr → Bool
  | [] => true
  | a :: as => allIndexed p a && allIndexedL p as
end

/-- side condition belonging to a variant: none for the repaired / upstream handler -/
def sideCond (ctx : Ctx) : Expr → List Idx → Bool :=
  match ctx.variant with
  | .refSize => layoutSafe ctx
  | _ => noCond

end Degree
end UflVerif
