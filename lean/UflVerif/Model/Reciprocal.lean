/-
Model of the Product rule of `ReciprocalCanceller` (ufl/algorithms/cancel_jacobian_products.py, third
traversal of `cancel_jacobian_products`), with `_flatten_product`, `_as_base_exponent` and `_make_power`.
Executable, core Lean only.  C09 is the property of this module; C01 models this one rule because it is where
the pipeline changes the value of an integrand (`Props/C01Cancel.lean`), and ties it to the implementation on
products of powers / reciprocals of terminals (harness/props/c01.py, stream `recip`).

    factors   = _flatten_product(b, _flatten_product(a, []))
    exponents = {base: [exponent, ...]}            via _as_base_exponent, in order of first occurrence
    mixed     = bases that occur with exponents of both signs
    if not mixed: the product as it is
    else: every factor of a mixed base is replaced (at the first occurrence) by base ** sum(exponents), dropped if 0
-/
import UflVerif.Model.Construct

namespace UflVerif.Reciprocal
open UflVerif Expr

/-- `isinstance(e, ScalarValue) and not isinstance(e._value, complex)`: the value -/
def realScalar : Expr → Option Rat
  | .int v => some (v : Rat)
  | .real n d => some ((n : Rat) / (d : Rat))
  | _ => none

/-- `_as_base_exponent(f)`: `none` = "does not have a constant real exponent".
    Nested powers are merged, `(b ** inner) ** q -> b ** (inner * q)`, only through an integer outer exponent `q`
    (`float(q).is_integer()`); a power with a non-integer exponent keeps its own base. -/
def asBaseExp : Expr → Option (Expr × Rat)
  | .op .power _ [base, e] =>
    (match realScalar e with
     | some q =>
       if q.den = 1 then
         (match asBaseExp base with
          | some (b, inner) => some (b, inner * q)
          | none => none)
       else
         (match asBaseExp base with
          | some _ => some (base, q)
          | none => none)
     | none => none)
  | .op .division _ [num, den] =>
    (match realScalar num with
     | some n => if n = 1 then (match asBaseExp den with
        | some (b, inner) => some (b, -inner)
        | none => none) else none
     | none => none)
  | f => some (f, 1)

/-- `_as_base_exponent` as it was before commit fff45c2 ("ReciprocalCanceller merges nested powers only through an
    integer outer exponent"): every nested power was merged, also through a non-integer outer exponent -/
def asBaseExpOld : Expr → Option (Expr × Rat)
  | .op .power _ [base, e] =>
    (match realScalar e with
     | some q => (match asBaseExpOld base with
        | some (b, inner) => some (b, inner * q)
        | none => none)
     | none => none)
  | .op .division _ [num, den] =>
    (match realScalar num with
     | some n => if n = 1 then (match asBaseExpOld den with
        | some (b, inner) => some (b, -inner)
        | none => none) else none
     | none => none)
  | f => some (f, 1)

/-- `_flatten_product(expr, factors)` -/
def flatten : Expr → List Expr
  | .op .product _ [a, b] => flatten a ++ flatten b
  | f => [f]

/-- `as_ufl(exponent)` after `if exponent == int(exponent): exponent = int(exponent)` -/
def expLit (q : Rat) : Expr := mkLit (q.den == 1) q

/-- `_make_power(base, exponent)` through the Division / Power constructors -/
def makePower (base : Expr) (q : Rat) : Option Expr :=
  if q = 1 then some base
  else if q = -1 then mkDivision (.int 1) base
  else if q < 0 then bindU (mkPower base (expLit (-q))) fun p => mkDivision (.int 1) p
  else mkPower base (expLit q)

/-- the exponents collected per base, in order of first occurrence -/
def collect (rd : Expr → Option (Expr × Rat)) : List Expr → List (Expr × List Rat) → List (Expr × List Rat)
  | [], acc => acc
  | f :: fs, acc =>
    match rd f with
    | some (b, q) =>
      if acc.any (fun p => p.1 == b) then collect rd fs (acc.map fun p => if p.1 == b then (p.1, p.2 ++ [q]) else p)
      else collect rd fs (acc ++ [(b, [q])])
    | none => collect rd fs acc

def isMixed (es : List Rat) : Bool := es.any (· > 0) && es.any (· < 0)

def sumQ (es : List Rat) : Rat := es.foldl (· + ·) 0

/-- the rebuilt factor list: `parts` -/
def parts (rd : Expr → Option (Expr × Rat)) (tbl : List (Expr × List Rat)) : List Expr → List Expr → Option (List Expr)
  | [], _ => some []
  | f :: fs, emitted =>
    match rd f with
    | some (b, _) =>
      (match tbl.find? (fun p => p.1 == b) with
       | some p =>
         if isMixed p.2 then
           (if emitted.any (· == b) then parts rd tbl fs emitted
            else
              let net := sumQ p.2
              if net = 0 then parts rd tbl fs (b :: emitted)
              else match makePower b net, parts rd tbl fs (b :: emitted) with
                | some x, some rest => some (x :: rest)
                | _, _ => none)
         else (parts rd tbl fs emitted).map (f :: ·)
       | none => (parts rd tbl fs emitted).map (f :: ·))
    | none => (parts rd tbl fs emitted).map (f :: ·)

/-- `result = parts[0]; for f in parts[1:]: result = Product(result, f)` (1 if there are no parts) -/
def productOf : List Expr → Option Expr
  | [] => some (.int 1)
  | x :: xs => xs.foldl (fun acc f => bindU acc fun r => mkProduct r f) (some x)

/-- the Product handler of `ReciprocalCanceller` on already processed operands `a`, `b`, for a given exponent reader -/
def recipProductWith (rd : Expr → Option (Expr × Rat)) (a b : Expr) : Option Expr :=
  let factors := flatten a ++ flatten b
  let tbl := collect rd factors []
  if !tbl.any (fun p => isMixed p.2) then mkProduct a b
  else
    match parts rd tbl factors [] with
    | none => none
    | some ps =>
      bindU (productOf ps) fun result =>
        bindU (mkProduct a b) fun o =>
          -- "do not rebuild if cancellation would drop free indices"
          if fi result != fi o then some o else some result

/-- the rule of the current code -/
def recipProduct (a b : Expr) : Option Expr := recipProductWith asBaseExp a b

/-- the rule before commit fff45c2 -/
def recipProductOld (a b : Expr) : Option Expr := recipProductWith asBaseExpOld a b

end UflVerif.Reciprocal
