/-
Model of ufl/algorithms/check_arities.py: `ArityChecker` (a MultiFunction run by `map_expr_dag`) and
`check_integrand_arity`, which is what `compute_form_data` (FormData.__init__ → `_check_form_arity`) runs on
every preprocessed integrand.  Core Lean only, executable (Drivers/C14.lean).

* An arity is the tuple of `(Argument, conjugated?)` pairs the Python returns; `Err` names the raise site.
* `handlerOf` is the dispatch table type ↦ handler *function* (aliases such as `grad = linear_operator`,
  `dot = inner`, `expr = nonlinear_operator` resolved); it is compared with the table the live class
  computed (Gen/Arity.lean) by `C14_table`.
* `nonlinear_operator`, `terminal`, `argument` take no operand results, so `map_expr_dag` treats their types
  as cut-offs: operands of a nonlinear operator are not visited.  Operands are visited last-first
  (`cutoff_unique_post_traversal` reverses them), which decides which `ArityMismatch` surfaces first.
* `strict` selects the `list_tensor` rule: `false` = the rule of the code as it stands (a component without
  arguments is ignored whatever it is), `true` = such a component must be `Zero` (the proposed repair).  Which
  one the code under test implements is observed on every run (`Gen.Arity.listTensorZeroOnly`).
* Modelled, not verified: the order in which Python's `set` iterates entries with equal sort key
  (number, part) - here: first occurrence first; `part() is None` is -1 (mixing `None` and integer parts of
  one number is a TypeError in Python's sort and is not modelled).
-/
import UflVerif.Model.Syntax

namespace UflVerif
namespace Arity

inductive Handler
  | terminal | argument | nonlinear | sum | division | product | inner | outer
  | linearOperator | conj | variable | conditional | linearIndexed | listTensor
  deriving DecidableEq, Repr, Inhabited

/-- `__name__` of the Python function -/
def Handler.pyName : Handler → String
  | .terminal => "terminal" | .argument => "argument" | .nonlinear => "nonlinear_operator"
  | .sum => "sum" | .division => "division" | .product => "product" | .inner => "inner" | .outer => "outer"
  | .linearOperator => "linear_operator" | .conj => "conj" | .variable => "variable"
  | .conditional => "conditional" | .linearIndexed => "linear_indexed_type" | .listTensor => "list_tensor"

/-- handlers without operand parameters: `map_expr_dag` does not descend below their types -/
def Handler.cutoff : Handler → Bool
  | .terminal | .argument | .nonlinear => true
  | _ => false

/-- operator type ↦ handler (everything not named falls to `expr = nonlinear_operator`) -/
def handlerOf : Op → Handler
  | .sum => .sum
  | .product => .product
  | .division => .division
  | .inner => .inner
  | .dot => .inner
  | .outer => .outer
  | .positiveRestricted => .linearOperator
  | .negativeRestricted => .linearOperator
  | .cellAvg => .linearOperator
  | .facetAvg => .linearOperator
  | .grad => .linearOperator
  | .referenceGrad => .linearOperator
  | .referenceValue => .linearOperator
  | .conj => .conj
  | .variable => .variable
  | .conditional => .conditional
  | .indexed => .linearIndexed
  | .indexSum => .linearIndexed
  | .componentTensor => .linearIndexed
  | .listTensor => .listTensor
  | _ => .nonlinear

/-- terminal class ↦ handler -/
def termHandler (cls : String) : Handler := if cls = "Argument" then .argument else .terminal

/-- the tuple of `(argument, conjugated)` pairs -/
abbrev Ar := List (TermData × Bool)

inductive Err
  | nonlinear          -- "Applying nonlinear operator .. to expression depending on form argument"
  | sum                -- "Adding expressions with non-matching form arguments"
  | division           -- "Cannot divide by form argument"
  | productNumber      -- "Multiplying expressions with overlapping form argument number"
  | productOverlap     -- "Multiplying expressions with overlapping form arguments"
  | conditionalCond    -- "Condition cannot depend on form arguments."
  | conditional        -- "Conditional subexpressions with non-matching form arguments"
  | listTensor         -- "Listtensor components must depend on the same argument numbers"
  | listTensorNonzero  -- (repaired rule) argument-free component that is not Zero
  | malformed          -- operand count does not fit the handler signature (Python: TypeError)
  | argumentsDiffer    -- "Integrand arguments .. differ from form arguments"
  | notConjugated      -- "Failure to conjugate test function in complex Form"
  | spuriousConj       -- "Argument .. is spuriously conjugated in complex Form"
  deriving DecidableEq, Repr, Inhabited

def Err.str : Err → String
  | .nonlinear => "nonlinear" | .sum => "sum" | .division => "division" | .productNumber => "product-number"
  | .productOverlap => "product-overlap" | .conditionalCond => "conditional-cond" | .conditional => "conditional"
  | .listTensor => "listtensor" | .listTensorNonzero => "listtensor-nonzero" | .malformed => "malformed"
  | .argumentsDiffer => "arguments-differ" | .notConjugated => "not-conjugated" | .spuriousConj => "spurious-conj"

/-! ### `set` and `sorted` on lists -/

/-- `set(..)` as a list: first occurrence kept -/
def dedup {α : Type} [DecidableEq α] : List α → List α
  | [] => []
  | x :: xs => x :: (dedup xs).filter (fun y => decide (y ≠ x))

def insertBy {α : Type} (le : α → α → Bool) (x : α) : List α → List α
  | [] => [x]
  | y :: ys => if le x y then x :: y :: ys else y :: insertBy le x ys

/-- stable insertion sort (`sorted(.., key=..)` with `le x y` = key x ≤ key y) -/
def sortBy {α : Type} (le : α → α → Bool) (l : List α) : List α := l.foldr (insertBy le) []

/-- the sort key `(number, part)` -/
def keyLe (a b : TermData) : Bool := decide (a.count < b.count) || (a.count == b.count && decide (a.part ≤ b.part))

def sortAr (l : Ar) : Ar := sortBy (fun p q => keyLe p.1 q.1) l
def sortTD (l : List TermData) : List TermData := sortBy keyLe l
def sortInt (l : List Int) : List Int := sortBy (fun a b => decide (a ≤ b)) l

/-- argument numbers of an arity -/
def numbers (a : Ar) : List Int := a.map (fun p => p.1.count)

/-! ### the handlers -/

/-- `conj`: flip every conjugation flag -/
def conjAr (a : Ar) : Ar := a.map (fun p => (p.1, !p.2))

def hSum (a b : Ar) : Except Err Ar := if a = b then .ok a else .error .sum

def hDivision (a b : Ar) : Except Err Ar := if b = [] then .ok a else .error .division

def hProduct (a b : Ar) : Except Err Ar :=
  if a ≠ [] ∧ b ≠ [] then
    if b.any (fun x => (numbers a).contains x.1.count) then .error .productNumber
    else
      let c := sortAr (dedup (a ++ b))
      if c.length ≠ a.length + b.length ∨ c.length ≠ (dedup (c.map (·.1))).length then .error .productOverlap
      else .ok c
  else if a ≠ [] then .ok a
  else .ok b

def isZero : Expr → Bool
  | .zero _ _ => true
  | _ => false

/-- `conditional(o, c, a, b)`; `t`, `f` are `o.ufl_operands[1]`, `[2]` -/
def hConditional (t f : Expr) (c a b : Ar) : Except Err Ar :=
  if c ≠ [] then .error .conditionalCond
  else if a ≠ [] ∧ isZero f = true then .ok a
  else if b ≠ [] ∧ isZero t = true then .ok b
  else if a = b then .ok a
  else .error .conditional

/-- sorted tuple of the distinct argument numbers of one component -/
def numberKey (a : Ar) : List Int := sortInt (dedup (numbers a))

/-- (repaired rule only) every component without arguments is `Zero` -/
def zeroFilled : List Expr → List Ar → Bool
  | x :: xs, r :: rs => (!r.isEmpty || isZero x) && zeroFilled xs rs
  | _, _ => true

def hListTensor (strict : Bool) (xs : List Expr) (ops : List Ar) : Except Err Ar :=
  let args := dedup ops.flatten
  if args = [] then .ok []
  else if strict && !zeroFilled xs ops then .error .listTensorNonzero
  else
    let nums := (dedup (ops.map numberKey)).filter (fun k => decide (k ≠ []))
    if nums.length > 1 then .error .listTensor
    else .ok (sortAr args)

/-- call the handler with the node's operands and their arities (`handlers[tc](v, *(vcache[u] ..))`) -/
def runHandler (strict : Bool) (h : Handler) (args : List Expr) (rs : List Ar) : Except Err Ar :=
  match h with
  | .sum => (match rs with | [a, b] => hSum a b | _ => .error .malformed)
  | .division => (match rs with | [a, b] => hDivision a b | _ => .error .malformed)
  | .product => (match rs with | [a, b] => hProduct a b | _ => .error .malformed)
  | .inner => (match rs with | [a, b] => hProduct a (conjAr b) | _ => .error .malformed)
  | .outer => (match rs with | [a, b] => hProduct (conjAr a) b | _ => .error .malformed)
  | .linearOperator => (match rs with | [a] => .ok a | _ => .error .malformed)
  | .conj => (match rs with | [a] => .ok (conjAr a) | _ => .error .malformed)
  | .variable => (match rs with | [f, _] => .ok f | _ => .error .malformed)
  | .conditional =>
    (match args, rs with
     | [_, t, f], [c, a, b] => hConditional t f c a b
     | _, _ => .error .malformed)
  | .linearIndexed => (match rs with | [a, _] => .ok a | _ => .error .malformed)
  | .listTensor => hListTensor strict args rs
  | .terminal | .argument | .nonlinear => .error .malformed     -- cut-off handlers are not called with operand results

mutual
/-- some terminal below is an `Argument` (`traverse_unique_terminals` + typecode test) -/
def hasArg : Expr → Bool
  | .term d => d.cls == "Argument"
  | .op _ _ args => hasArgL args
  | _ => false
def hasArgL : List Expr → Bool
  | [] => false
  | a :: as => hasArg a || hasArgL as
end

mutual
/-- `map_expr_dag(ArityChecker(arguments), e, compress=False)` -/
def arity (strict : Bool) : Expr → Except Err Ar
  | .term d => if termHandler d.cls = .argument then .ok [(d, false)] else .ok []
  | .op k _ args =>
    if (handlerOf k).cutoff then
      (if hasArgL args then .error .nonlinear else .ok [])
    else
      match arityL strict args with
      | .error e => .error e
      | .ok rs => runHandler strict (handlerOf k) args rs
  | _ => .ok []
/-- operands are visited last-first -/
def arityL (strict : Bool) : List Expr → Except Err (List Ar)
  | [] => .ok []
  | a :: as =>
    match arityL strict as with
    | .error e => .error e
    | .ok rs =>
      match arity strict a with
      | .error e => .error e
      | .ok r => .ok (r :: rs)
end

/-- first offending entry of the complex-mode loop -/
def conjCheck : Ar → Option Err
  | [] => none
  | (d, c) :: rest =>
    if d.count = 0 ∧ c = false then some .notConjugated
    else if d.count > 0 ∧ c = true then some .spuriousConj
    else conjCheck rest

/-- `check_integrand_arity(expr, arguments, complex_mode)`; returns the arity on success -/
def checkIntegrandArity (strict : Bool) (e : Expr) (arguments : List TermData) (cplx : Bool) : Except Err Ar :=
  let arguments' := sortTD (dedup arguments)
  match arity strict e with
  | .error x => .error x
  | .ok A =>
    if A.map (·.1) ≠ arguments' then .error .argumentsDiffer
    else if cplx then
      (match conjCheck A with
       | some x => .error x
       | none => .ok A)
    else .ok A

end Arity
end UflVerif
