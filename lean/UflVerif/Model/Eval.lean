/-
Denotational semantics of the model language (DESIGN.md 2.2):
  eval ρ side ι e c : K     value of component `c` of `e`, free indices read from `ι`
K is any type with field operations (ℚ / Float for execution, a Mathlib field in proofs).
The function is total; ill-formed requests (wrong component rank, unknown operator) yield 0 and
are excluded from theorems by explicit hypotheses.  Scalar operators hand the requested component on
to their operands exactly as UFL's `evaluate` does (it is `()` in every well-formed use).
-/
import UflVerif.Model.Shape

namespace UflVerif

/-- '+' / '-' side of an interior facet, or no restriction -/
inductive Side | none | plus | minus
  deriving DecidableEq, Repr, Inhabited

structure Env (K : Type) where
  /-- value of a terminal (identified by its key) at a component, on a side -/
  term : Side → String → List Nat → K
  /-- derivatives of terminals: key, component, derivative directions (grad^k) -/
  jet : Side → String → List Nat → List Nat → K
  /-- mathematical functions by UFL class name (Sqrt, Exp, Ln, Sin, ...) -/
  fn : String → K → K
  /-- binary functions: Power, Atan2, BesselJ, ... (first argument of Bessel is the order) -/
  fn2 : String → K → K → K
  abs : K → K
  conj : K → K
  re : K → K
  im : K → K
  /-- imaginary unit (0 in a real field) -/
  i : K
  lt : K → K → Bool
  eq : K → K → Bool

abbrev IdxEnv := Nat → Nat

def IdxEnv.set (ι : IdxEnv) (c v : Nat) : IdxEnv := fun x => if x = c then v else ι x

/-- bind the free indices of `is` (in order) to the component values; a later occurrence of the
    same index overrides an earlier one (the StackDict pushes in order) -/
def IdxEnv.bind (ι : IdxEnv) : List Idx → List Nat → IdxEnv
  | .free c :: is, v :: vs => IdxEnv.bind (ι.set c v) is vs
  | .fixed _ :: is, _ :: vs => IdxEnv.bind ι is vs
  | _, _ => ι

def Idx.resolve (ι : IdxEnv) : Idx → Nat
  | .fixed v => v
  | .free c => ι c

def sumRange {K : Type} [Add K] [Zero K] (n : Nat) (f : Nat → K) : K :=
  (List.range n).foldl (fun acc k => acc + f k) 0

namespace Expr
variable {K : Type} [Add K] [Mul K] [Sub K] [Neg K] [Div K] [Zero K] [One K] [IntCast K] [NatCast K]

def mathName : Op → Option String
  | .sqrt => some "Sqrt" | .exp => some "Exp" | .ln => some "Ln" | .cos => some "Cos" | .sin => some "Sin"
  | .tan => some "Tan" | .cosh => some "Cosh" | .sinh => some "Sinh" | .tanh => some "Tanh"
  | .acos => some "Acos" | .asin => some "Asin" | .atan => some "Atan" | .erf => some "Erf"
  | _ => none

/-- `grad^k(terminal)`: the terminal and the number of gradients wrapped around it -/
def gradChain : Expr → Option (TermData × Nat)
  | .term d => some (d, 0)
  | .op .grad _ [a] => match gradChain a with
    | some (d, k) => some (d, k + 1)
    | none => none
  | _ => none

mutual
def eval (ρ : Env K) (side : Side) (ι : IdxEnv) : Expr → List Nat → K
  | .int v, _ => (v : K)
  | .real n d, _ => (n : K) / (d : K)
  | .cplx a b c d, _ => (a : K) / (b : K) + ((c : K) / (d : K)) * ρ.i
  | .zero _ _, _ => 0
  | .mi _, _ => 0
  | .term d, c =>
    if d.cls = "Identity" then (match c with | [i, j] => if i = j then 1 else 0 | _ => 0)
    else if d.cls = "Label" then 0
    else ρ.term side d.key c
  | .op k _ args, c =>
    match k, args with
    | .sum, [a, b] => eval ρ side ι a c + eval ρ side ι b c
    | .product, [a, b] => eval ρ side ι a [] * eval ρ side ι b []
    | .division, [a, b] => eval ρ side ι a c / eval ρ side ι b c
    | .power, [a, b] => ρ.fn2 "Power" (eval ρ side ι a c) (eval ρ side ι b c)
    | .abs, [a] => ρ.abs (eval ρ side ι a c)
    | .conj, [a] => ρ.conj (eval ρ side ι a c)
    | .real, [a] => ρ.re (eval ρ side ι a c)
    | .imag, [a] => ρ.im (eval ρ side ι a c)
    | .indexed, [a, .mi is] => eval ρ side ι a (is.map (Idx.resolve ι))
    | .indexSum, [a, .mi [.free j]] =>
      sumRange (FI.dimOf j (fi a)) (fun v => eval ρ side (ι.set j v) a c)
    | .componentTensor, [a, .mi is] => eval ρ side (ι.bind is c) a []
    | .listTensor, xs =>
      (match c with
       | v :: c' => evalNth ρ side ι xs v c'
       | [] => 0)
    | .conditional, [p, t, f] => if evalB ρ side ι p then eval ρ side ι t c else eval ρ side ι f c
    | .minValue, [a, b] =>
      let x := eval ρ side ι a c; let y := eval ρ side ι b c
      if ρ.lt x y then x else y
    | .maxValue, [a, b] =>
      let x := eval ρ side ι a c; let y := eval ρ side ι b c
      if ρ.lt y x then x else y
    | .variable, [a, _] => eval ρ side ι a c
    | .positiveRestricted, [a] => eval ρ .plus ι a c
    | .negativeRestricted, [a] => eval ρ .minus ι a c
    | .atan2, [a, b] => ρ.fn2 "Atan2" (eval ρ side ι a c) (eval ρ side ι b c)
    | .besselJ, [n, x] => ρ.fn2 "BesselJ" (eval ρ side ι n []) (eval ρ side ι x [])
    | .besselY, [n, x] => ρ.fn2 "BesselY" (eval ρ side ι n []) (eval ρ side ι x [])
    | .besselI, [n, x] => ρ.fn2 "BesselI" (eval ρ side ι n []) (eval ρ side ι x [])
    | .besselK, [n, x] => ρ.fn2 "BesselK" (eval ρ side ι n []) (eval ρ side ι x [])
    | .grad, [a] =>
      (match gradChain a with
       | some (d, _) => ρ.jet side d.key (c.take d.shape.length) (c.drop d.shape.length)
       | none => 0)
    | fnk, [a] =>
      (match mathName fnk with
       | some n => ρ.fn n (eval ρ side ι a c)
       | none => 0)
    | _, _ => 0
def evalNth (ρ : Env K) (side : Side) (ι : IdxEnv) : List Expr → Nat → List Nat → K
  | [], _, _ => 0
  | x :: _, 0, c => eval ρ side ι x c
  | _ :: xs, n + 1, c => evalNth ρ side ι xs n c
def evalB (ρ : Env K) (side : Side) (ι : IdxEnv) : Expr → Bool
  | .op k _ args =>
    match k, args with
    | .eQ, [a, b] => ρ.eq (eval ρ side ι a []) (eval ρ side ι b [])
    | .nE, [a, b] => !ρ.eq (eval ρ side ι a []) (eval ρ side ι b [])
    | .lT, [a, b] => ρ.lt (eval ρ side ι a []) (eval ρ side ι b [])
    | .gT, [a, b] => ρ.lt (eval ρ side ι b []) (eval ρ side ι a [])
    | .lE, [a, b] => !ρ.lt (eval ρ side ι b []) (eval ρ side ι a [])
    | .gE, [a, b] => !ρ.lt (eval ρ side ι a []) (eval ρ side ι b [])
    | .andCondition, [a, b] => evalB ρ side ι a && evalB ρ side ι b
    | .orCondition, [a, b] => evalB ρ side ι a || evalB ρ side ι b
    | .notCondition, [a] => !evalB ρ side ι a
    | _, _ => false
  | _ => false
end

end Expr
end UflVerif
