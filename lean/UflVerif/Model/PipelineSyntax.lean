/-
Data format of `Gen/Pipeline.lean` (written by harness/translate/pipeline.py): the calls of
`compute_form_data` in execution order, each with the conditions guarding it.  Core Lean only.
-/
namespace UflVerif.Pipeline

/-- a guard: boolean expression over atoms (positions in the generated `atoms` list).  An atom is the
    truthiness of a `compute_form_data` parameter, `<param> is None`, or (prefix `?`) the source text of a
    condition on data -/
inductive BExp
  | atom (i : Nat)
  | lit (b : Bool)
  | not (a : BExp)
  | and (a b : BExp)
  | or (a b : BExp)
  deriving Repr, Inhabited, DecidableEq

structure Row where
  /-- "call" | "inline" | "assign" | "raise" | "unknown" -/
  kind : String
  /-- callee / inlined function / assigned name / raised exception / what was not understood -/
  fn : String
  /-- enclosing function -/
  ctx : String
  /-- loop depth -/
  loop : Nat
  /-- name the result is bound to ("" = discarded, "return") -/
  target : String
  /-- enclosing conditions, outermost first -/
  guards : List BExp
  /-- source text of the positional arguments (call), [first argument, first parameter, returned name] (inline), [value] (assign) -/
  args : List String
  /-- keyword arguments of a call: (name, source text of the value) -/
  kwargs : List (String × String) := []
  /-- positions (in the generated `localNames`) of the assigned local names this row mentions as a bare argument (call)
      or binds (assign) -/
  vars : List Nat := []
  deriving Repr, Inhabited

def BExp.eval (v : Nat → Bool) : BExp → Bool
  | .atom i => v i
  | .lit b => b
  | .not a => !a.eval v
  | .and a b => a.eval v && b.eval v
  | .or a b => a.eval v || b.eval v

def BExp.atoms : BExp → List Nat
  | .atom i => [i]
  | .lit _ => []
  | .not a => a.atoms
  | .and a b => a.atoms ++ b.atoms
  | .or a b => a.atoms ++ b.atoms

def Row.active (v : Nat → Bool) (r : Row) : Bool := r.guards.all (·.eval v)

def Row.atoms (r : Row) : List Nat := r.guards.flatMap BExp.atoms

end UflVerif.Pipeline
