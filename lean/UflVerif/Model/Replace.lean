/-
Model of ufl/algorithms/replace.py (`Replacer` + `replace`) for mappings of terminals.
`substE` is plain substitution (what `reuse_if_untouched` does before the constructors simplify);
`replaceE` rebuilds every touched node through the modelled constructors, as
`_ufl_expr_reconstruct_` does.  `none` = the Python raises.
-/
import UflVerif.Model.Construct

namespace UflVerif
namespace Expr

/-- mapping: terminal key ↦ image -/
abbrev Mapping := List (String × Expr)

def Mapping.get (m : Mapping) (key : String) : Option Expr :=
  match m.find? (fun p => p.1 == key) with
  | some p => some p.2
  | none => none

mutual
def substE (m : Mapping) : Expr → Expr
  | .term d => match m.get d.key with
    | some img => img
    | none => .term d
  | .op k aux args => .op k aux (substL m args)
  | e => e
def substL (m : Mapping) : List Expr → List Expr
  | [] => []
  | a :: as => substE m a :: substL m as
end

/-- `type(o)(*operands)`: the class constructor with its simplifications, for the modelled classes -/
def rebuild (k : Op) (aux : List Nat) (args : List Expr) : Option Expr :=
  match k, args with
  | .sum, [a, b] => mkSum a b
  | .product, [a, b] => mkProduct a b
  | .division, [a, b] => mkDivision a b
  | .power, [a, b] => mkPower a b
  | .abs, [a] => mkAbs a
  | .conj, [a] => mkConj a
  | .real, [a] => mkReal a
  | .imag, [a] => mkImag a
  | .indexed, [a, .mi is] => mkIndexed a is
  | .indexSum, [a, .mi [.free j]] => mkIndexSum a j
  | .componentTensor, [a, .mi is] => mkComponentTensor a is
  | .listTensor, xs => mkListTensor xs
  | .conditional, [c, t, f] => mkConditional c t f
  | .minValue, [a, b] | .maxValue, [a, b] => mkMinMax k a b
  | .eQ, [a, b] | .nE, [a, b] | .lT, [a, b] | .gT, [a, b] | .lE, [a, b] | .gE, [a, b]
  | .andCondition, [a, b] | .orCondition, [a, b] => mkCondition k a b
  | .notCondition, [a] => mkNot a
  | _, _ => some (.op k aux args)

/-- operator classes whose constructor (with its simplifications) `rebuild` models -/
def modelledCtor : Op → Bool
  | .sum | .product | .division | .power | .abs | .conj | .real | .imag | .indexed | .indexSum | .componentTensor
  | .listTensor | .conditional | .minValue | .maxValue | .eQ | .nE | .lT | .gT | .lE | .gE | .andCondition | .orCondition
  | .notCondition | .variable => true
  | _ => false

/-- the class constructors, propagating the marker of branches the constructor model does not cover.
    A literal or zero operand can appear under a rebuilt node (a coefficient mapped to a literal,
    `Re([-0.25, x])[0]` once `Re` is removed); the constructors not modelled in `rebuild` (math functions
    fold literals in floating point, compound operators and derivatives simplify zeros) are then not covered. -/
def litOperands (k : Op) (ops : List Expr) : List Expr :=
  match k with
  | .besselJ | .besselY | .besselI | .besselK => ops.drop 1       -- the order is always a literal
  | _ => ops

def rebuildU (k : Op) (aux : List Nat) (ops : List Expr) : Option Expr :=
  if ops.any isUnsupported then some unsupported
  else if !modelledCtor k && (litOperands k ops).any (fun o => isScalarValue o || isZero o) then some unsupported
  else rebuild k aux ops

/-- when `rebuildU` answers with something other than the marker it is `rebuild`'s answer -/
theorem rebuildU_eq (k : Op) (aux : List Nat) (ops : List Expr) (r : Expr) (h : rebuildU k aux ops = some r)
    (hu : isUnsupported r = false) : rebuild k aux ops = some r := by
  unfold rebuildU at h
  split at h
  · simp only [Option.some.injEq] at h; subst h; simp [isUnsupported, unsupported] at hu
  · split at h
    · simp only [Option.some.injEq] at h; subst h; simp [isUnsupported, unsupported] at hu
    · exact h

/-- the shape check of `Replacer.__init__` -/
def shapesOK (m : Mapping) (shapeOf : String → Option (List Nat)) : Bool :=
  m.all (fun p => match shapeOf p.1 with | some sh => sh == shape p.2 | none => true)

mutual
def replaceE (m : Mapping) : Expr → Option Expr
  | .term d => match m.get d.key with
    | some img => some img
    | none => some (.term d)
  | .op k aux args =>
    match replaceL m args with
    | none => none
    | some args' =>
      if k == .coefficientDerivative then none        -- "Derivatives should be applied before executing replace."
      else if args'.any isUnsupported then some unsupported
      else if beqL args' args then some (.op k aux args)      -- reuse_if_untouched
      else rebuildU k aux args'
  | e => some e
def replaceL (m : Mapping) : List Expr → Option (List Expr)
  | [] => some []
  | a :: as => match replaceE m a, replaceL m as with
    | some x, some xs => some (x :: xs)
    | _, _ => none
end

end Expr
end UflVerif
