/-
Models of the index rewriting passes (C10):
  * `renumber`  — ufl/algorithms/renumbering.py  (IndexRelabeller through map_expr_dag)
  * `rct`       — ufl/algorithms/remove_component_tensors.py (IndexRemover + IndexReplacer)
  * `expandI`   — ufl/algorithms/expand_indices.py (IndexExpander)
Touched nodes are rebuilt through the modelled constructors (`rebuild`, Model/Replace.lean), as
`_ufl_expr_reconstruct_` does.  `none` = the Python raises.  Core Lean only.
-/
import UflVerif.Model.Replace

namespace UflVerif
namespace Expr

/-! ## renumber_indices -/

/-- free-index list with renamed counts, sorted again by the new counts (`sorted(zip(new_indices, fid))`) -/
def renameFI (σ : Nat → Nat) (f : FI) : FI :=
  (f.map fun p => (σ p.1, p.2)).foldl (fun acc p => FI.insert p acc) []

def renameIdxI (σ : Nat → Nat) : Idx → Idx
  | .free c => .free (σ c)
  | i => i

mutual
/-- plain renaming of every index count -/
def renameIdx (σ : Nat → Nat) : Expr → Expr
  | .mi is => .mi (is.map (renameIdxI σ))
  | .zero sh f => .zero sh (renameFI σ f)
  | .op k aux args => .op k aux (renameIdxL σ args)
  | e => e
def renameIdxL (σ : Nat → Nat) : List Expr → List Expr
  | [] => []
  | a :: as => renameIdx σ a :: renameIdxL σ as
end

def addNew (acc : List Nat) (c : Nat) : List Nat := if acc.contains c then acc else acc ++ [c]

mutual
/-- index counts in the order the relabeller first meets them: post-order, operands LAST to FIRST
    (`cutoff_unique_post_traversal` pushes the reversed operand list); `acc` = counts met so far -/
def firstSeen : Expr → List Nat → List Nat
  | .mi is, acc => is.foldl (fun a i => match i with | .free c => addNew a c | _ => a) acc
  | .zero _ f, acc => f.foldl (fun a p => addNew a p.1) acc
  | .op _ _ args, acc => firstSeenL args acc
  | _, acc => acc
/-- operands are visited last to first -/
def firstSeenL : List Expr → List Nat → List Nat
  | [], acc => acc
  | a :: as, acc => firstSeen a (firstSeenL as acc)
end

/-- position of a count in the first-seen list (its new number); unseen counts keep out of the way -/
def newNumber (order : List Nat) (c : Nat) : Nat :=
  match order.idxOf? c with
  | some k => k
  | none => order.length + c

mutual
/-- rename and rebuild every operator node through its constructor -/
def renameRebuild (σ : Nat → Nat) : Expr → Option Expr
  | .mi is => some (.mi (is.map (renameIdxI σ)))
  | .zero sh f => some (.zero sh (renameFI σ f))
  | .op k aux args =>
    match renameRebuildL σ args with
    | none => none
    | some args' => if args'.any isUnsupported then some unsupported else rebuild k aux args'
  | e => some e
def renameRebuildL (σ : Nat → Nat) : List Expr → Option (List Expr)
  | [] => some []
  | a :: as => match renameRebuild σ a, renameRebuildL σ as with
    | some x, some xs => some (x :: xs)
    | _, _ => none
end

/-- `renumber_indices` on an expression -/
def renumber (e : Expr) : Option Expr := renameRebuild (newNumber (firstSeen e [])) e

end Expr
end UflVerif
