/-
Models of the index rewriting passes (C10):
  * `renumber`  — ufl/algorithms/renumbering.py  (IndexRelabeller through map_expr_dag)
  * `rct`       — ufl/algorithms/remove_component_tensors.py (IndexRemover + IndexReplacer)
  * `expandI`   — ufl/algorithms/expand_indices.py (IndexExpander)
Touched nodes are rebuilt through the modelled constructors (`rebuild`, Model/Replace.lean), as
`_ufl_expr_reconstruct_` does.  `none` = the Python raises.  Core Lean only.
-/
import UflVerif.Model.Replace
import UflVerif.Model.Eval

namespace UflVerif
namespace Expr

/-! ## renumber_indices -/

/-- free-index list with renamed counts, sorted again by the new counts (`sorted(zip(new_indices, fid))`) -/
def renameFI (σ : Nat → Nat) (f : FI) : FI :=
  (f.map fun p => (σ p.1, p.2)).foldl (fun acc p => FI.insert p acc) []

def renameIdxI (σ : Nat → Nat) : Idx → Idx
  | .free c => .free (σ c)
  | i => i

mutual
/-- plain renaming of every index count -/
def renameIdx (σ : Nat → Nat) : Expr → Expr
  | .mi is => .mi (is.map (renameIdxI σ))
  | .zero sh f => .zero sh (renameFI σ f)
  | .op k aux args => .op k aux (renameIdxL σ args)
  | e => e
def renameIdxL (σ : Nat → Nat) : List Expr → List Expr
  | [] => []
  | a :: as => renameIdx σ a :: renameIdxL σ as
end

def addNew (acc : List Nat) (c : Nat) : List Nat := if acc.contains c then acc else acc ++ [c]

mutual
/-- index counts in the order the relabeller first meets them: post-order, operands LAST to FIRST
    (`cutoff_unique_post_traversal` pushes the reversed operand list); `acc` = counts met so far -/
def firstSeen : Expr → List Nat → List Nat
  | .mi is, acc => is.foldl (fun a i => match i with | .free c => addNew a c | _ => a) acc
  | .zero _ f, acc => f.foldl (fun a p => addNew a p.1) acc
  | .op _ _ args, acc => firstSeenL args acc
  | _, acc => acc
/-- operands are visited last to first -/
def firstSeenL : List Expr → List Nat → List Nat
  | [], acc => acc
  | a :: as, acc => firstSeen a (firstSeenL as acc)
end

/-- position of a count in the first-seen list (its new number); unseen counts keep out of the way -/
def newNumber (order : List Nat) (c : Nat) : Nat :=
  match order.idxOf? c with
  | some k => k
  | none => order.length + c

mutual
/-- rename and rebuild every operator node through its constructor -/
def renameRebuild (σ : Nat → Nat) : Expr → Option Expr
  | .mi is => some (.mi (is.map (renameIdxI σ)))
  | .zero sh f => some (.zero sh (renameFI σ f))
  | .op k aux args =>
    match renameRebuildL σ args with
    | none => none
    | some args' => if args'.any isUnsupported then some unsupported else rebuild k aux args'
  | e => some e
def renameRebuildL (σ : Nat → Nat) : List Expr → Option (List Expr)
  | [] => some []
  | a :: as => match renameRebuild σ a, renameRebuildL σ as with
    | some x, some xs => some (x :: xs)
    | _, _ => none
end

/-- `renumber_indices` on an expression -/
def renumber (e : Expr) : Option Expr := renameRebuild (newNumber (firstSeen e [])) e

/-! ## remove_component_tensors -/

/-- index replacement map: index count ↦ Index or FixedIndex (`dict(zip(i2, i1))`) -/
abbrev FiMap := List (Nat × Idx)

def FiMap.get (fm : FiMap) (c : Nat) : Option Idx :=
  match fm.find? (fun p => p.1 == c) with
  | some p => some p.2
  | none => none

def FiMap.touches (fm : FiMap) (cs : List Nat) : Bool := cs.any fun c => (fm.get c).isSome

/-- `unique_sorted_indices`: drop repeated ids of a list sorted by id; `none` if a repeated id carries another extent -/
def uniqueSorted : List (Nat × Nat) → Option (List (Nat × Nat))
  | [] => some []
  | [p] => some [p]
  | p :: q :: rest =>
    if p.1 == q.1 then (if p.2 == q.2 then uniqueSorted (p :: rest) else none)
    else (uniqueSorted (q :: rest)).map (p :: ·)
termination_by l => l.length

/-- insertion sort of (id, extent) pairs (Python sorts tuples lexicographically) -/
def sortPairs (l : List (Nat × Nat)) : List (Nat × Nat) :=
  l.foldl (fun acc p => ins p acc) []
where
  ins (p : Nat × Nat) : List (Nat × Nat) → List (Nat × Nat)
    | [] => [p]
    | q :: qs => if p.1 < q.1 || (p.1 == q.1 && p.2 ≤ q.2) then p :: q :: qs else q :: ins p qs

/-- `IndexReplacer.zero` -/
def replZero (fm : FiMap) (sh : List Nat) (f : FI) : Option Expr :=
  if !fm.touches (f.map (·.1)) then some (.zero sh f)
  else
    let fi := f.filterMap fun p => match (fm.get p.1).getD (.free p.1) with
      | .free c => some (c, p.2)
      | .fixed _ => none
    match uniqueSorted (sortPairs fi) with
    | none => none
    | some [] => some (.zero sh [])     -- every free index replaced by a fixed one (raised ValueError before the fix: commit)
    | some fi' => some (.zero sh fi')

def replMI (fm : FiMap) (is : List Idx) : List Idx :=
  is.map fun i => match i with
    | .free c => (fm.get c).getD (.free c)
    | i => i

mutual
/-- `IndexReplacer` through map_expr_dag: replace indices in every multi-index and zero, rebuild touched nodes -/
def replIdx (fm : FiMap) : Expr → Option Expr
  | .mi is => some (.mi (replMI fm is))
  | .zero sh f => replZero fm sh f
  | .op k aux args =>
    match replIdxL fm args with
    | none => none
    | some args' =>
      if args'.any isUnsupported then some unsupported
      else if beqL args' args then some (.op k aux args)
      else rebuild k aux args'
  | e => some e
def replIdxL (fm : FiMap) : List Expr → Option (List Expr)
  | [] => some []
  | a :: as => match replIdx fm a, replIdxL fm as with
    | some x, some xs => some (x :: xs)
    | _, _ => none
end

mutual
/-- counts of the indices bound by an IndexSum or a ComponentTensor somewhere inside the expression -/
def boundCounts : Expr → List Nat
  | .op k _ args =>
    (match k, args with
     | .indexSum, [_, .mi is] => freeCounts is
     | .componentTensor, [_, .mi is] => freeCounts is
     | _, _ => []) ++ boundCountsL args
  | _ => []
def boundCountsL : List Expr → List Nat
  | [] => []
  | a :: as => boundCounts a ++ boundCountsL as
end

mutual
/-- `IndexRemover` through map_expr_dag (operands first).  `guard` = the check that the substitution
    does not touch an index bound again inside the tensor body (present since the fix: commit; `false`
    models the code before it). -/
def rctWith (guard : Bool) : Expr → Option Expr
  | .op k aux args =>
    match rctWithL guard args with
    | none => none
    | some args' =>
      if args'.any isUnsupported then some unsupported
      else
        match k, args' with
        | .indexed, [.op .componentTensor _ [o2, .mi i2], .mi i1] =>
          let touched := freeCounts i1 ++ freeCounts i2
          if guard && touched.any (fun c => (boundCounts o2).contains c) then
            (if beqL args' args then some (.op k aux args) else rebuild k aux args')
          else if i2.length != i1.length then none
          else replIdx ((freeCounts i2).zip i1) o2
        | _, _ => if beqL args' args then some (.op k aux args) else rebuild k aux args'
  | e => some e
def rctWithL (guard : Bool) : List Expr → Option (List Expr)
  | [] => some []
  | a :: as => match rctWith guard a, rctWithL guard as with
    | some x, some xs => some (x :: xs)
    | _, _ => none
end

def rct : Expr → Option Expr := rctWith true
def rctOld : Expr → Option Expr := rctWith false

/-! ## expand_indices -/

/-- index values assigned by the enclosing index sums / component tensors (latest binding first) -/
abbrev IdxVals := List (Nat × Nat)

def IdxVals.get (iv : IdxVals) (c : Nat) : Option Nat :=
  match iv.find? (fun p => p.1 == c) with
  | some p => some p.2
  | none => none

/-- `_multi_index_values`: fixed indices as they are, free indices looked up (KeyError = none) -/
def miValues (iv : IdxVals) : List Idx → Option (List Nat)
  | [] => some []
  | .fixed v :: is => (miValues iv is).map (v :: ·)
  | .free c :: is => match iv.get c, miValues iv is with
    | some v, some vs => some (v :: vs)
    | _, _ => none

/-- push the bindings of a component tensor: `zip(indices, comp)`, later ones shadow earlier ones -/
def bindVals (iv : IdxVals) : List Idx → List Nat → IdxVals
  | .free c :: is, v :: vs => bindVals ((c, v) :: iv) is vs
  | _ :: is, _ :: vs => bindVals iv is vs
  | _, _ => iv

def nth? {α : Type} : List α → Nat → Option α
  | [], _ => none
  | x :: _, 0 => some x
  | _ :: xs, n + 1 => nth? xs n

def isLiteral : Expr → Bool
  | .int _ | .real _ _ | .cplx _ _ _ _ => true
  | _ => false

/-- `sum(ops)`: Python's `0 + ops[0] + ops[1] + ...` through `Sum` -/
def sumOps : List Expr → Option Expr
  | ops => ops.foldl (fun acc x => bindU acc (fun a => mkSum a x)) (some (.zero [] []))

mutual
/-- `IndexExpander.visit` with index values `iv` and current component `c` -/
def expandI : Expr → IdxVals → List Nat → Option Expr
  | .term d, _, c =>
    if d.cls == "Label" then some (.term d)
    else if d.shape.isEmpty then some (.term d)
    else if d.shape.length != c.length then none
    else mkIndexed (.term d) (c.map .fixed)
  | .zero sh f, iv, c =>
    if sh.length != c.length then none
    else if f.any (fun p => (iv.get p.1).isNone) then none
    else some (.zero [] [])
  | .mi is, iv, _ => (miValues iv is).map (fun vs => .mi (vs.map .fixed))
  | .op k aux args, iv, c =>
    match k, args with
    | .indexed, [A, .mi ii] =>
      (match miValues iv ii with
       | some comp => expandI A iv comp
       | none => none)
    | .indexSum, [a, .mi [.free j]] =>
      (match allSome ((List.range (FI.dimOf j (fi a))).map (fun v => expandI a ((j, v) :: iv) c)) with
       | some ops => sumOps ops
       | none => none)
    | .componentTensor, [a, .mi is] =>
      if !(shape a).isEmpty then none
      else if is.length != c.length then none
      else expandI a (bindVals iv is c) []
    | .listTensor, xs =>
      (match c with
       | c0 :: c1 => expandNth xs c0 iv c1
       | [] => none)
    | .conditional, [p, t, f] =>
      if !(shape p).isEmpty then none
      else
        (match expandI p iv [], expandI t iv c, expandI f iv c with
         | some p', some t', some f' =>
           if isUnsupported p' || isUnsupported t' || isUnsupported f' then some unsupported
           else if beq p' p && beq t' t && beq f' f then some (.op k aux args)
           else mkConditional p' t' f'
         | _, _, _ => none)
    | .division, [a, b] =>
      if !(shape a).isEmpty || !c.isEmpty || !(shape b).isEmpty then none
      else
        (match expandI a iv c, expandI b iv c with
         | some a', some b' =>
           if isUnsupported a' || isUnsupported b' then some unsupported
           else if beq a' a && beq b' b then some (.op k aux args)
           else mkDivision a' b'
         | _, _ => none)
    | .grad, [f] =>
      (match gradChain f with
       | some _ => if (shape (.op k aux args)).length != c.length then none else mkIndexed (.op k aux args) (c.map .fixed)
       | none => none)
    | .variable, [a, _] => expandI a iv c          -- visited through (no cache by label since the fix: commit)
    | k0, as =>
      (match expandL as iv c with
       | none => none
       | some args' =>
         if args'.any isUnsupported then some unsupported
         else if beqL args' as then some (.op k0 aux as)
         else rebuild k0 aux args')
  | e, _, c => if c.isEmpty then some e else none       -- scalar_value
def expandNth : List Expr → Nat → IdxVals → List Nat → Option Expr
  | [], _, _, _ => none
  | x :: _, 0, iv, c => expandI x iv c
  | _ :: xs, n + 1, iv, c => expandNth xs n iv c
def expandL : List Expr → IdxVals → List Nat → Option (List Expr)
  | [], _, _ => some []
  | a :: as, iv, c => match expandI a iv c, expandL as iv c with
    | some x, some xs => some (x :: xs)
    | _, _ => none
end

/-- `expand_indices(e)` -/
def expand (e : Expr) : Option Expr := expandI e [] []

end Expr
end UflVerif
