/- The type of node-reconstruction tables `type(o)(*operands)` shared by the pass models (C16, C23). -/
import UflVerif.Model.Replace

namespace UflVerif
namespace Expr

/-- `type(o)(*operands)`: how a pass rebuilds a node of class `k` (auxiliary data `aux`) from new operands -/
abbrev Rb := Op → List Nat → List Expr → Option Expr

end Expr
end UflVerif
