/- The type of node-reconstruction tables `type(o)(*operands)` shared by the pass models (C16, C23). -/
import UflVerif.Model.Replace

namespace UflVerif
namespace Expr

/-- `type(o)(*operands)`: how a pass rebuilds a node of class `k` (auxiliary data `aux`) from new operands -/
abbrev Rb := Op → List Nat → List Expr → Option Expr

/-- the node as it stands (no constructor simplification) -/
def plainRb : Rb := fun k aux args => some (.op k aux args)

/-- `isinstance(e, ConstantValue)` (Zero, scalar literals, Identity, PermutationSymbol) -/
def isConstantValue : Expr → Bool
  | .int _ | .real _ _ | .cplx _ _ _ _ | .zero _ _ => true
  | .term d => d.cls == "Identity" || d.cls == "PermutationSymbol"
  | _ => false

end Expr
end UflVerif
