/-
C13  the model of `==`, `hash`, `repr` on expressions (ufl/exprequals.py, ufl/core/compute_expr_hash.py, the `__eq__`,
`_ufl_compute_hash_`, `__repr__` of the terminal classes).  Core Lean only.

Three layers.
(S) the *specification* level, on the framework's expression language: `eqE / hashE / reprE` for arbitrary terminal observers
    `TermObs` (what `==`, `hash`, `repr` of an operator node are, as functions of the tree).
(M) the *implementation* level: objects `MObj` carry what `expr_equals` reads and writes besides the structure: the identity of
    every node (`tag`), the identity of its operand tuple (`otag`), the `_hash` memo slot.  `exprEquals` is `expr_equals` with
    its cut-offs in the order of the source: type, the two `hash` requests (which run `compute_expr_hash`: `fill`), `self is
    other`, `self.ufl_operands is other.ufl_operands`, the work-list loop (`cmp`: terminals by their own `==`; operators: operand
    tuples identical -> skip, lengths, type codes, identical objects -> skip, else descend), and on success the write
    `self.ufl_operands = other.ufl_operands` (`adopt`).  The loop's explicit stack and its `equal_pairs` set are an evaluation
    order / memoisation of one conjunction and are not modelled (the correspondence compares outcomes).
    Heap-free as Model/Writes.lean (C27): a shared node is a value occurring at several places with one tag.
(T) terminal observers *read off the regenerated table* Gen/EqFields.lean: a terminal is its class and a list of named
    constructor fields (`FView`); `==` compares class and the fields whose row says `eqSees`, `hash` mixes those with `hashSees`,
    `repr` prints those with `reprSees`; a payload that is not equal to itself (a NaN literal) is never `==`.
-/
import UflVerif.Model.Syntax
import UflVerif.Gen.EqFields

namespace UflVerif.C13
open UflVerif Expr

/-! ## (S) specification level -/

/-- observers of terminals (any class): equality, hash, repr -/
structure TermObs where
  teq : Expr → Expr → Bool
  thash : Expr → Nat
  trepr : Expr → String
  /-- how an operator node mixes its type and its operands' hashes -/
  mix : String → List Nat → Nat

variable (T : TermObs)

mutual
def eqE : Expr → Expr → Bool
  | .op k _ as, .op k' _ bs => k == k' && eqL as bs
  | .op .., _ => false
  | _, .op .. => false
  | a, b => T.teq a b
def eqL : List Expr → List Expr → Bool
  | [], [] => true
  | a :: as, b :: bs => eqE a b && eqL as bs
  | _, _ => false
end

mutual
def hashE : Expr → Nat
  | .op k _ as => T.mix k.name (hashL as)
  | a => T.thash a
def hashL : List Expr → List Nat
  | [] => []
  | a :: as => hashE a :: hashL as
end

mutual
def reprE : Expr → String
  | .op k _ as => k.name ++ "(" ++ reprL as ++ ")"
  | a => T.trepr a
def reprL : List Expr → String
  | [] => ""
  | a :: as => reprE a ++ ", " ++ reprL as
end


/-- what `expr_equals` does to its left argument after a successful comparison: adopt the operand tuple of the right one -/
def share : Expr → Expr → Expr
  | .op k x _, .op _ _ bs => .op k x bs
  | a, _ => a


/-- the class the type comparison of `expr_equals` sees -/
def clsOf : Expr → String
  | .int _ => "IntValue"
  | .real .. => "FloatValue"
  | .cplx .. => "ComplexValue"
  | .zero .. => "Zero"
  | .mi _ => "MultiIndex"
  | .term d => d.cls
  | .op k _ _ => k.name

/-- `type(s) is type(o)` / `s._ufl_typecode_ == o._ufl_typecode_` -/
def sameType : Expr → Expr → Bool
  | .op k _ _, .op k' _ _ => k == k'
  | .op .., _ => false
  | _, .op .. => false
  | a, b => clsOf a == clsOf b

/- the data a node carries besides its operands (`aux`: geometric dimension of Grad, value shape of ReferenceValue, …) is
    derived from the operands in UFL and is not looked at by `==`; two trees agree on it -/
mutual
def auxAgree : Expr → Expr → Bool
  | .op _ x as, .op _ x' bs => x == x' && auxAgreeL as bs
  | _, _ => true
def auxAgreeL : List Expr → List Expr → Bool
  | a :: as, b :: bs => auxAgree a b && auxAgreeL as bs
  | _, _ => true
end

/-! ## (M) implementation level: memo slots and identities -/

inductive MObj where
  /-- a terminal object: identity, the terminal, `_hash` -/
  | leaf (tag : Nat) (t : Expr) (memo : Option Nat)
  /-- an operator object: identity, type, derived data, identity of the operand tuple, operands, `_hash` -/
  | node (tag : Nat) (k : Op) (aux : List Nat) (otag : Nat) (ops : List MObj) (memo : Option Nat)
  deriving Inhabited

namespace MObj

def tag : MObj → Nat
  | .leaf t _ _ => t
  | .node t _ _ _ _ _ => t

def otag? : MObj → Option Nat
  | .leaf .. => none
  | .node _ _ _ ot _ _ => some ot

def memo : MObj → Option Nat
  | .leaf _ _ m => m
  | .node _ _ _ _ _ m => m

mutual
/-- the structure of an object (everything but identities and memo slots) -/
def erase : MObj → Expr
  | .leaf _ t _ => t
  | .node _ k aux _ ops _ => .op k aux (eraseL ops)
def eraseL : List MObj → List Expr
  | [] => []
  | o :: os => erase o :: eraseL os
end

/-- the node without its operands: what a type comparison looks at -/
def head : MObj → Expr
  | .leaf _ t _ => t
  | .node _ k aux _ _ _ => .op k aux []

def sameTypeM (a b : MObj) : Bool := sameType a.head b.head

end MObj

variable (T : TermObs)

namespace MObj

mutual
/-- the value `hash(o)` returns: the memo if present, else computed from the operands' `hash` -/
def hashOf : MObj → Nat
  | .leaf _ _ (some v) => v
  | .leaf _ t none => T.thash t
  | .node _ _ _ _ _ (some v) => v
  | .node _ k _ _ ops none => T.mix k.name (hashOfL ops)
def hashOfL : List MObj → List Nat
  | [] => []
  | o :: os => hashOf o :: hashOfL os
end

mutual
/-- effect of `compute_expr_hash(o)`: post-order, nodes whose slot is filled are not entered -/
def fill : MObj → MObj
  | .leaf t e none => .leaf t e (some (T.thash e))
  | .leaf t e (some v) => .leaf t e (some v)
  | .node t k aux ot ops none => .node t k aux ot (fillL ops) (some (T.mix k.name (hashOfL T (fillL ops))))
  | .node t k aux ot ops (some v) => .node t k aux ot ops (some v)
def fillL : List MObj → List MObj
  | [] => []
  | o :: os => fill o :: fillL os
end

mutual
/-- the work-list loop of `expr_equals` on a pair whose types were found equal -/
def cmp : MObj → MObj → Bool
  | .leaf _ s _, .leaf _ o _ => T.teq s o                       -- `if not s == o: return False`
  | .node _ _ _ so sops _, .node _ _ _ oo oops _ =>
    if so == oo then true                                       -- `if so is oo: continue`
    else cmpL sops oops
  | _, _ => false                                               -- not reached: types were compared before
def cmpL : List MObj → List MObj → Bool
  | [], [] => true
  | s :: ss, o :: os =>
    if !sameTypeM s o then false                                -- `s._ufl_typecode_ != o._ufl_typecode_`
    else (if s.tag == o.tag then true else cmp s o) && cmpL ss os   -- `if s is o: continue`
  | _, _ => false                                               -- `len(so) != len(oo)`
end

/-- `self.ufl_operands = other.ufl_operands` -/
def adopt : MObj → MObj → MObj
  | .node t k aux _ _ m, .node _ _ _ ot ops _ => .node t k aux ot ops m
  | a, _ => a

/-- `expr_equals(a, b)`: outcome, and `a`, `b` afterwards -/
def exprEquals (a b : MObj) : Bool × MObj × MObj :=
  if !sameTypeM a b then (false, a, b)
  else
    let a' := fill T a
    let b' := fill T b
    if hashOf T a' != hashOf T b' then (false, a', b')
    else if a.tag == b.tag || (a.otag?.isSome && a.otag? == b.otag?) then (true, a', b')
    else if cmp T a' b' then (true, adopt a' b', b')
    else (false, a', b')

/-- `a == b`: terminals have their own `__eq__` (no hashing, no write), operators use `expr_equals` -/
def eqTop (a b : MObj) : Bool × MObj × MObj :=
  match a, b with
  | .leaf _ s _, .leaf _ o _ => (T.teq s o, a, b)
  | .leaf .., .node .. => (false, a, b)          -- every terminal `__eq__` starts with an `isinstance` test
  | _, _ => exprEquals T a b

mutual
/-- invariant of a reachable state.  `Γ tag` is a structure every occurrence of the object `tag` is `==` to (occurrences can
    differ by operand tuples adopted from `==` expressions), `Δ otag` likewise for operand tuples; every filled `_hash` slot
    holds the hash of the node's structure. -/
def ok (Γ : Nat → Expr) (Δ : Nat → List Expr) : MObj → Bool
  | .leaf tag t m =>
    t.isTerminal && eqE T t (Γ tag) &&
    (match m with
     | none => true
     | some v => v == T.thash t)
  | .node tag k aux ot ops m =>
    eqE T (.op k aux (eraseL ops)) (Γ tag) && eqL T (eraseL ops) (Δ ot) &&
    (match m with
     | none => true
     | some v => v == T.mix k.name (hashL T (eraseL ops))) && okL Γ Δ ops
def okL (Γ : Nat → Expr) (Δ : Nat → List Expr) : List MObj → Bool
  | [] => true
  | o :: os => ok Γ Δ o && okL Γ Δ os
end

end MObj

/-! ### histories of comparisons over a pool of objects -/

def upd (p : Nat → MObj) (i : Nat) (v : MObj) : Nat → MObj := fun n => if n = i then v else p n

/-- `pool[i] == pool[j]` and its writes -/
def step (p : Nat → MObj) (ij : Nat × Nat) : Nat → MObj :=
  let r := MObj.eqTop T (p ij.1) (p ij.2)
  upd (upd p ij.1 r.2.1) ij.2 r.2.2

def run (p : Nat → MObj) (h : List (Nat × Nat)) : Nat → MObj := h.foldl (step T) p

/-- the pool as a list (what the driver holds) -/
def poolOf (l : List MObj) : Nat → MObj := fun n => l.getD n default

/-- `step` on a list-held pool -/
def stepL (l : List MObj) (ij : Nat × Nat) : List MObj :=
  let r := MObj.eqTop T (l.getD ij.1 default) (l.getD ij.2 default)
  (l.set ij.1 r.2.1).set ij.2 r.2.2

/-- outcomes of the comparisons of a history, in order -/
def outcomes (p : Nat → MObj) : List (Nat × Nat) → List Bool
  | [] => []
  | ij :: h => (MObj.eqTop T (p ij.1) (p ij.2)).1 :: outcomes (step T p ij) h

/-! ## (T) terminal observers read off the regenerated table -/

/-- a view of terminals as named constructor fields; `selfEq e = false` iff the payload is not equal to itself (NaN) -/
structure FView where
  fields : Expr → List (String × List Int)
  selfEq : Expr → Bool

/-- does the observer see the field?  Fields the table has no row for are seen by every observer. -/
def sees (obs : Gen.EqFields.Row → Bool) (cls fld : String) : Bool :=
  match Gen.EqFields.rows.find? (fun r => r.kind == cls && r.field == fld) with
  | some r => obs r
  | none => true

def proj (V : FView) (obs : Gen.EqFields.Row → Bool) (e : Expr) : List (String × List Int) :=
  (V.fields e).filter (fun f => sees obs (clsOf e) f.1)

/-- injective mixing of a list of naturals (unbounded): every element is appended in binary together with its bit length,
    so the list can be read back from the right (bit lengths stay far below 2^32).  The model's hashes are then equal
    exactly for equal hash data, as CPython's are up to collisions. -/
def mixNat (xs : List Nat) : Nat :=
  xs.foldl (fun acc x => let L := x.log2 + 1; (((acc <<< L) + x) <<< 32) + L) 1

def strCode (s : String) : Nat := mixNat (s.toList.map Char.toNat)

def fieldCode (f : String × List Int) : Nat :=
  mixNat (strCode f.1 :: f.2.map (fun v => if v ≥ 0 then 2 * v.toNat else 2 * (-v).toNat - 1))

def showField (f : String × List Int) : String := f.1 ++ "=" ++ toString f.2

def tableObs (V : FView) : TermObs where
  teq a b := V.selfEq a && V.selfEq b && clsOf a == clsOf b &&
    proj V (·.eqSees) a == proj V (·.eqSees) b
  thash a := mixNat (strCode (clsOf a) :: (proj V (·.hashSees) a).map fieldCode)
  trepr a := clsOf a ++ "<" ++ ";".intercalate ((proj V (·.reprSees) a).map showField) ++ ">"
  mix name hs := mixNat (strCode name :: hs)


/-! ### the standard view of the framework's terminals -/

/-- fields sent by the harness inside `TermData.dom`: `S name` starts a field, the `N v` after it are its values -/
def decodeDom (l : List KeyAtom) : List (String × List Int) :=
  (l.foldl (fun (acc : List (String × List Int)) a =>
     match a, acc with
     | .s name, _ => (name, []) :: acc
     | .n v, (name, vs) :: rest => (name, vs ++ [v]) :: rest
     | .n _, [] => []) []).reverse

def stdFields : Expr → List (String × List Int)
  | .int v => [("value", [v])]
  | .real n d => [("value", [n, Int.ofNat d])]
  | .cplx a b c d => [("re", [a, Int.ofNat b]), ("im", [c, Int.ofNat d])]
  | .zero sh fi => [("shape", sh.map Int.ofNat), ("fi", fi.map (Int.ofNat ·.1)), ("fid", fi.map (Int.ofNat ·.2))]
  | .mi is => [("indices", is.flatMap (fun i => match i with | .fixed v => [0, Int.ofNat v] | .free c => [1, Int.ofNat c]))]
  | .term d => ("key", d.key.toList.map (fun c => Int.ofNat c.toNat)) :: ("shape", d.shape.map Int.ofNat) ::
      ("count", [d.count]) :: ("part", [d.part]) :: decodeDom d.dom
  | .op .. => []

/-- a float literal with denominator 0 stands for NaN (the exact rationals of the framework have no NaN); the harness marks
    NaN payloads of serialised terminals by a field named "nan" -/
def stdSelfEq : Expr → Bool
  | .real _ d => d != 0
  | .cplx _ b _ d => b != 0 && d != 0
  | .term d => !(decodeDom d.dom).any (·.1 == "nan")
  | _ => true

def stdView : FView := ⟨stdFields, stdSelfEq⟩

/-- the observers the driver runs -/
def stdObs : TermObs := tableObs stdView

end UflVerif.C13
