/-
Model of ufl/algorithms/formtransformations.py (and the parts of formsplitter.py / form.py it calls):

  `extract`          PartExtracter.visit: returns `(part, provides)`; `none` = the Python raises
  `arityPart`        the `_transform` closure of `compute_form_with_arity`
  `arityForm`        compute_form_with_arity  (forms = lists of tagged integrands, see `FormM`)
  `lhsForm/rhsForm/functionalForm`   compute_form_lhs / _rhs / _functional (with the MixedFunctionSpace
                     "parts" branch: `blocks2` / `blocks1` = extract_blocks(form, arity=2|1))
  `actionForm`       compute_form_action  (replace the last argument)
  `adjointForm`      compute_form_adjoint (swap number and part, keep spaces, wrap in Conj)
  `energyForm`       compute_energy_norm

Every node a pass touches is rebuilt through `rb : Rb` (`_ufl_expr_reconstruct_`, i.e. the class
constructors with their simplifications); the executable instance is `rebuildFT`, the theorems
(Props/C16.lean) hold for every value-preserving `rb`.  Sets of Arguments are duplicate-free lists of
terminal keys (`repr`).  Core Lean only.
-/
import UflVerif.Model.Replace
import UflVerif.Model.Rb

namespace UflVerif
namespace Expr

abbrev ASet := List String

namespace ASet
def subset (a b : ASet) : Bool := a.all (fun x => b.contains x)
def union (a b : ASet) : ASet := a ++ b.filter (fun x => !a.contains x)
def eqv (a b : ASet) : Bool := subset a b && subset b a
/-- `a > b` on frozensets: strict superset -/
def ssup (a b : ASet) : Bool := subset b a && !subset a b
end ASet

/- `_expr_has_terminal_types(x, Argument)` -/
mutual
def hasArg : Expr → Bool
  | .term d => d.cls == "Argument"
  | .op _ _ args => hasArgL args
  | _ => false
def hasArgL : List Expr → Bool
  | [] => false
  | a :: as => hasArg a || hasArgL as
end

/-- `zero_expr(e)` -/
def zeroLike (e : Expr) : Expr := .zero (shape e) (fi e)


/-- no simplification at all (the reference instance the theorems are also stated for) -/
def rbPlain : Rb := fun k aux args => some (.op k aux args)


def modelledOp : Op → Bool
  | .sum | .product | .division | .power | .abs | .conj | .real | .imag | .indexed | .indexSum | .componentTensor
  | .listTensor | .conditional | .minValue | .maxValue | .eQ | .nE | .lT | .gT | .lE | .gE | .andCondition | .orCondition
  | .notCondition | .variable | .positiveRestricted | .negativeRestricted | .grad
  | .sqrt | .exp | .ln | .cos | .sin | .tan | .cosh | .sinh | .tanh | .acos | .asin | .atan | .atan2 | .erf => true
  | _ => false

/-- the constructors as the executable model has them: `rebuild` (Model/Replace.lean) plus
    `Grad.__new__` on a zero operand and `Restricted.__new__` on a constant; classes whose constructor
    is not modelled give the `unsupported` marker when an operand changed -/
def rebuildFT : Rb := fun k aux args =>
  match k, args with
  | .grad, [a] => if isZero a then some (.zero (shape a ++ aux) (fi a)) else some (.op k aux args)
  | .positiveRestricted, [a] | .negativeRestricted, [a] => if isConstantValue a then some a else some (.op k aux args)
  | .variable, _ => some (.op k aux args)
  | _, _ => if modelledOp k then rebuild k aux args else some unsupported

/-- `reuse_if_untouched(o, *ops)` -/
def reuseIf (rb : Rb) (k : Op) (aux : List Nat) (args ops : List Expr) : Option Expr :=
  if beqL ops args then some (.op k aux args) else rb k aux ops

/-! ### PartExtracter -/

/-- `PartExtracter.sum` once both terms were visited -/
def sumCombine (rb : Rb) (W : ASet) (k : Op) (aux : List Nat) (args : List Expr)
    (ra rb' : Expr × ASet) : Option (Expr × ASet) :=
  let keepA := !(isZero ra.1 || !ra.2.subset W)
  let keepB := !(isZero rb'.1 || !rb'.2.subset W)
  match keepA, keepB with
  | false, false => some (zeroLike (.op k aux args), [])
  | true, false => some ra
  | false, true => some rb'
  | true, true =>
    if ra.2.eqv rb'.2 then (reuseIf rb k aux args [ra.1, rb'.1]).map (fun x => (x, ra.2))
    else if ra.2.isEmpty then some rb'
    else if rb'.2.length == ra.2.length then none       -- "Don't know what to do with sums with different Arguments."
    else if rb'.2.ssup ra.2 then some rb' else some ra

/-- the loop of `PartExtracter.product` over the visited factors -/
def prodLoop (W : ASet) (x : Expr) : List (Expr × ASet) → List Expr → ASet → Sum (Expr × ASet) (List Expr × ASet)
  | [], fs, P => .inr (fs.reverse, P)
  | (f, Pf) :: rest, fs, P =>
    if isZero f then .inl (zeroLike x, [])
    else
      let P' := P.union Pf
      if !P'.subset W then .inl (zeroLike x, P') else prodLoop W x rest (f :: fs) P'

/-- `most_provides` of `PartExtracter.list_tensor` -/
def mostProvides : List (Expr × ASet) → ASet → ASet
  | [], m => m
  | (_, P) :: rest, m => if !P.subset m then mostProvides rest P else mostProvides rest m

/-- `PartExtracter.variable` once the expression was visited -/
def finishVariable (rb : Rb) (W : ASet) (k : Op) (aux : List Nat) (args : List Expr) (l : Expr) :
    Option (Expr × ASet) → Option (Expr × ASet)
  | none => none
  | some (p, P) =>
    if isZero p || !P.subset W then some (zeroLike (.op k aux args), [])
    else (reuseIf rb k aux args [p, l]).map (fun x => (x, P))

/-- `linear_operator`, `linear_indexed_type` and the numerator part of `division` once the operand was
    visited: a zero part gives zero, otherwise the node is rebuilt around the part (`rest` = the
    operands that are not visited: multi-index, denominator) -/
def finishLinear (rb : Rb) (k : Op) (aux : List Nat) (args : List Expr) (rest : List Expr) :
    Option (Expr × ASet) → Option (Expr × ASet)
  | none => none
  | some (p, P) =>
    if isZero p then some (zeroLike (.op k aux args), [])
    else (reuseIf rb k aux args (p :: rest)).map (fun x => (x, P))

/-- `PartExtracter.product` (also inner, outer, dot) once both factors were visited -/
def finishProduct (rb : Rb) (W : ASet) (k : Op) (aux : List Nat) (args : List Expr) :
    Option (Expr × ASet) → Option (Expr × ASet) → Option (Expr × ASet)
  | some ra, some rb' =>
    (match prodLoop W (.op k aux args) [ra, rb'] [] [] with
     | .inl r => some r
     | .inr (fs, P) => (reuseIf rb k aux args fs).map (fun x => (x, P)))
  | _, _ => none

/-- `PartExtracter.sum` -/
def finishSum (rb : Rb) (W : ASet) (k : Op) (aux : List Nat) (args : List Expr) :
    Option (Expr × ASet) → Option (Expr × ASet) → Option (Expr × ASet)
  | some ra, some rb' => sumCombine rb W k aux args ra rb'
  | _, _ => none

/-- `PartExtracter.list_tensor` once all components were visited -/
def finishList (rb : Rb) (k : Op) (aux : List Nat) (args : List Expr) : Option (List (Expr × ASet)) → Option (Expr × ASet)
  | none => none
  | some [] => none
  | some (r0 :: rs) =>
    let ops := r0 :: rs
    let most := mostProvides ops r0.2
    if ops.any (fun r => !(r.2.eqv most) && !isZero r.1) then none
    else (reuseIf rb k aux args (ops.map (·.1))).map (fun x => (x, most))

mutual
def extract (rb : Rb) (W : ASet) : Expr → Option (Expr × ASet)
  | .term d =>
    if d.cls == "Argument" then
      (if W.contains d.key then some (.term d, [d.key]) else some (.zero d.shape [], []))
    else some (.term d, [])
  | .op k aux args =>
    match k, args with
    | .variable, [a, l] => finishVariable rb W k aux args l (extract rb W a)
    | .sum, [a, b] => finishSum rb W k aux args (extract rb W a) (extract rb W b)
    | .division, [a, b] => if hasArg b then none else finishLinear rb k aux args [b] (extract rb W a)
    | .listTensor, xs => finishList rb k aux args (extractL rb W xs)
    | .product, [a, b] | .inner, [a, b] | .outer, [a, b] | .dot, [a, b] =>
      finishProduct rb W k aux args (extract rb W a) (extract rb W b)
    | .positiveRestricted, [a] | .negativeRestricted, [a] | .cellAvg, [a] | .facetAvg, [a] | .grad, [a]
    | .conj, [a] | .real, [a] | .imag, [a] => finishLinear rb k aux args [] (extract rb W a)
    | .indexed, [a, i] | .indexSum, [a, i] | .componentTensor, [a, i] => finishLinear rb k aux args [i] (extract rb W a)
    | _, _ =>
      -- `expr`: a nonlinear operator not accepting any Arguments among its children
      if hasArgL args then none else some (.op k aux args, [])
  | e => some (e, [])
def extractL (rb : Rb) (W : ASet) : List Expr → Option (List (Expr × ASet))
  | [] => some []
  | a :: as =>
    match extract rb W a, extractL rb W as with
    | some r, some rs => some (r :: rs)
    | _, _ => none
end

/-- the `_transform` closure of `compute_form_with_arity` -/
def arityPart (rb : Rb) (W : ASet) (e : Expr) : Option Expr :=
  match extract rb W e with
  | none => none
  | some (p, P) => if P.eqv W then some p else some (.zero [] [])

/-! ### forms -/

/-- a form: integrals in order, each with a tag (the integral's measure: type, domain, subdomain id,
    metadata — opaque to every algorithm here) and its integrand -/
abbrev FormM := List (Nat × Expr)

/-- `map_integrands(f, form)`: integrals whose integrand became `Zero` are dropped -/
def mapItg (f : Expr → Option Expr) : FormM → Option FormM
  | [] => some []
  | (t, e) :: rest =>
    match f e, mapItg f rest with
    | some e', some rest' => if isZero e' then some rest' else some ((t, e') :: rest')
    | _, _ => none

/- Argument terminals of an expression, in traversal order -/
mutual
def argsOf : Expr → List TermData
  | .term d => if d.cls == "Argument" then [d] else []
  | .op _ _ args => argsOfL args
  | _ => []
def argsOfL : List Expr → List TermData
  | [] => []
  | a :: as => argsOf a ++ argsOfL as
end

def dedupKeys : List TermData → List TermData → List TermData
  | [], acc => acc.reverse
  | d :: ds, acc => if acc.any (fun x => x.key == d.key) then dedupKeys ds acc else dedupKeys ds (d :: acc)

def argLe (a b : TermData) : Bool := a.count < b.count || (a.count == b.count && a.part ≤ b.part)

def insertArg (d : TermData) : List TermData → List TermData
  | [] => [d]
  | x :: xs => if argLe d x then d :: x :: xs else x :: insertArg d xs

def sortArgs (ds : List TermData) : List TermData := ds.foldl (fun acc d => insertArg d acc) []

/-- `form.arguments()`: distinct Arguments sorted by (number, part); `none` when two different
    Arguments share number and part ("Did you combine test or trial functions from different spaces?") -/
def formArgs (F : FormM) : Option (List TermData) :=
  let ds := dedupKeys (F.flatMap (fun p => argsOf p.2)) []
  let sorted := sortArgs ds
  let rec clash : List TermData → Bool
    | a :: b :: rest => (a.count == b.count && a.part == b.part) || clash (b :: rest)
    | _ => false
  if clash sorted then none else some sorted

/-- `compute_form_with_arity(form, arity)` -/
def arityForm (rb : Rb) (F : FormM) (n : Nat) : Option FormM :=
  match formArgs F with
  | none => none
  | some as =>
    if as.length < n then some (F.map (fun p => (p.1, .zero [] [])))      -- `0 * form`
    else mapItg (arityPart rb ((as.take n).map (·.key))) F

/-- `-form`: every integrand `e` becomes `Product(IntValue(-1), e)` (integrals are kept, also zero ones) -/
def negForm (rb : Rb) (F : FormM) : Option FormM :=
  F.mapM (fun p => (rb .product [] [.int (-1), p.2]).map (fun e => (p.1, e)))

/-! ### terminal substitution with rebuild (`replace`, `FormSplitter`) -/

mutual
def mapTermR (rb : Rb) (refuseCD : Bool) (φ : TermData → Option Expr) : Expr → Option Expr
  | .term d => match φ d with
    | some img => some img
    | none => some (.term d)
  | .op k aux args =>
    match mapTermRL rb refuseCD φ args with
    | none => none
    | some args' =>
      if refuseCD && k == .coefficientDerivative then none
      else if args'.any isUnsupported then some unsupported
      else if beqL args' args then some (.op k aux args)
      else rb k aux args'
  | e => some e
def mapTermRL (rb : Rb) (refuseCD : Bool) (φ : TermData → Option Expr) : List Expr → Option (List Expr)
  | [] => some []
  | a :: as => match mapTermR rb refuseCD φ a, mapTermRL rb refuseCD φ as with
    | some x, some xs => some (x :: xs)
    | _, _ => none
end

/- plain substitution of terminals (what `mapTermR` does before the constructors simplify) -/
mutual
def mapTermP (φ : TermData → Option Expr) : Expr → Expr
  | .term d => match φ d with
    | some img => img
    | none => .term d
  | .op k aux args => .op k aux (mapTermPL φ args)
  | e => e
def mapTermPL (φ : TermData → Option Expr) : List Expr → List Expr
  | [] => []
  | a :: as => mapTermP φ a :: mapTermPL φ as
end

/-- `replace(form, mapping)` for a mapping of terminals (by key) -/
def replaceForm (rb : Rb) (m : Mapping) (F : FormM) : Option FormM :=
  mapItg (mapTermR rb true (fun d => m.get d.key)) F

/-- `FormSplitter.argument` for Arguments with parts (MixedFunctionSpace); `idx = [ix, iy]`.
    An Argument without part is kept (the sub-element branch for a MixedElement is not modelled:
    the marker is returned when such an argument is vector valued). -/
def splitImg (ix iy : Option Int) (d : TermData) : Option (Option Expr) :=
  if d.cls != "Argument" then some none
  else
    let sel : Option (Option Int) := if d.count == 0 then some ix else if d.count == 1 then some iy else none
    match sel with
    | none => none                               -- IndexError
    | some s =>
      if d.part < 0 then (if d.shape.isEmpty then some none else some (some unsupported))
      else match s with
        | none => some (some (.zero d.shape []))
        | some i => if d.part == i then some none else some (some (.zero d.shape []))

mutual
def splitOK (ix iy : Option Int) : Expr → Bool
  | .term d => (splitImg ix iy d).isSome
  | .op _ _ args => splitOKL ix iy args
  | _ => true
def splitOKL (ix iy : Option Int) : List Expr → Bool
  | [] => true
  | a :: as => splitOK ix iy a && splitOKL ix iy as
end

/-- `FormSplitter.split(form, ix, iy)` -/
def splitForm (rb : Rb) (ix iy : Option Int) (F : FormM) : Option FormM :=
  if F.all (fun p => splitOK ix iy p.2) then
    mapItg (mapTermR rb false (fun d => match splitImg ix iy d with | some (some img) => some img | _ => none)) F
  else none

/-- the parts of the Arguments of a form: `sorted(set(part for a in arguments if part is not None))` -/
def formParts (as : List TermData) : List Int :=
  let ps := as.filterMap (fun d => if d.part ≥ 0 then some d.part else none)
  ps.foldl (fun acc p => if acc.contains p then acc else acc ++ [p]) []

def maxPart (ps : List Int) : Int := ps.foldl (fun m p => if p > m then p else m) (-1)

def rangeInt (n : Int) : List Int := (List.range n.toNat).map (fun (k : Nat) => (k : Int))

/-- `extract_blocks(form, arity=2)` in the MixedFunctionSpace branch: block (i, j) or nothing -/
def blocks2 (rb : Rb) (F : FormM) (np : Int) : Option (List (Int × Int × Option FormM)) :=
  ((rangeInt np).flatMap (fun i => (rangeInt np).map (fun j => (i, j)))).mapM (fun ij =>
    match splitForm rb (some ij.1) (some ij.2) F with
    | none => none
    | some f =>
      if f.isEmpty then some (ij.1, ij.2, none)
      else match formArgs f with
        | none => none
        | some as => if as.length != 2 then some (ij.1, ij.2, none) else some (ij.1, ij.2, some f))

/-- `extract_blocks(form, arity=1)` in the MixedFunctionSpace branch -/
def blocks1 (rb : Rb) (F : FormM) (np : Int) : Option (List (Int × Option FormM)) :=
  (rangeInt np).mapM (fun i =>
    match splitForm rb (some i) none F with
    | none => none
    | some f =>
      if f.isEmpty then some (i, none)
      else match formArgs f with
        | none => none
        | some as => if as.length != 1 then some (i, none) else some (i, some f))

/-- `compute_form_lhs` (the integer `0` the Python returns when no block contributes is the empty form) -/
def lhsForm (rb : Rb) (F : FormM) : Option FormM :=
  match formArgs F with
  | none => none
  | some as =>
    let ps := formParts as
    if ps.isEmpty then arityForm rb F 2
    else match blocks2 rb F (maxPart ps + 1) with
      | none => none
      | some bs => bs.foldlM (fun (acc : FormM) (b : Int × Int × Option FormM) => match b.2.2 with
          | none => some acc
          | some f => (arityForm rb f 2).map (fun g => acc ++ g)) []

/-- `compute_form_rhs` -/
def rhsForm (rb : Rb) (F : FormM) : Option FormM :=
  match formArgs F with
  | none => none
  | some as =>
    let ps := formParts as
    if ps.isEmpty then (arityForm rb F 1).bind (negForm rb)
    else match blocks1 rb F (maxPart ps + 1) with
      | none => none
      | some bs => (bs.foldlM (fun (acc : FormM) (b : Int × Option FormM) => match b.2 with
          | none => some acc
          | some f => (arityForm rb f 1).map (fun g => acc ++ g)) []).bind (negForm rb)

/-- `compute_form_functional` -/
def functionalForm (rb : Rb) (F : FormM) : Option FormM := arityForm rb F 0

/-- `compute_form_action(form, coefficient)`; `coeffs` = the given coefficient (one entry), or for
    MixedFunctionSpace arguments the coefficient for each part -/
def actionForm (rb : Rb) (F : FormM) (coeffs : List Expr) : Option FormM :=
  match formArgs F with
  | none => none
  | some as =>
    if (formParts as).isEmpty then
      match as.getLast?, coeffs with
      | some u, [c] => if shape c != u.shape then none else replaceForm rb [(u.key, c)] F
      | _, _ => none
    else
      match lhsForm rb F with
      | none => none
      | some L =>
        let hi : Option FormM := if !L.isEmpty then some L else
          (match rhsForm rb F with
           | some R => if R.isEmpty then none else some R
           | none => none)
        match hi with
        | none => none
        | some H =>
          match formArgs H with
          | none => none
          | some hs =>
            let mx := hs.foldl (fun m d => if d.count > m then d.count else m) (-1)
            let sel := hs.filter (fun d => d.count == mx)
            -- `coefficient[a.part()]`: a part `None` is a TypeError
            match sel.mapM (fun d => if d.part < 0 then none else (coeffs[d.part.toNat]?).map (fun c => (d.key, c))) with
            | none => none
            | some m => if m.all (fun p => match sel.find? (fun d => d.key == p.1) with
                            | some d => shape p.2 == d.shape | none => true)
                        then replaceForm rb m F else none

/-- the function space of an Argument, read off its repr `Argument(<space>, <number>, <part>)` -/
def argSpace (key : String) : String :=
  let body : String := String.ofList ((key.toList.drop 9).dropLast)      -- strip "Argument(" and ")"
  let fields : List String := body.splitOn ", "
  ", ".intercalate (fields.take (fields.length - 2))

def pyInt (i : Int) : String := toString i
def pyPart (p : Int) : String := if p < 0 then "None" else toString p

/-- `Argument(space, number, part)` for the space of `like` -/
def mkArgument (like : TermData) (number part : Int) : TermData :=
  { cls := "Argument", key := "Argument(" ++ argSpace like.key ++ ", " ++ pyInt number ++ ", " ++ pyPart part ++ ")",
    shape := like.shape, count := number, part := part }

/-- the constructor `Argument(space of like, number, part)` -/
abbrev MkArg := TermData → Int → Int → TermData

/-- one block of `compute_form_adjoint`: `map_integrands(Conj, replace(form, {v: reordered_v, u: reordered_u}))`;
    `mk` builds the reordered Arguments (the executable instance is `mkArgument`) -/
def adjointBlock (rb : Rb) (mk : MkArg) (F : FormM) : Option FormM :=
  match formArgs F with
  | some [v, u] =>
    if v.count ≥ u.count then none
    else
      let ru := mk u v.count v.part
      let rv := mk v u.count u.part
      (replaceForm rb [(v.key, .term rv), (u.key, .term ru)] F).bind (mapItg (fun e => rb .conj [] [e]))
  | _ => none

/-- `compute_form_adjoint(form)` -/
def adjointForm (rb : Rb) (mk : MkArg) (F : FormM) : Option FormM :=
  if F.isEmpty then some F
  else match formArgs F with
  | none => none
  | some as =>
    let ps := formParts as
    if ps.isEmpty then adjointBlock rb mk F
    else match blocks2 rb F (maxPart ps + 1) with
      | none => none
      | some bs => bs.foldlM (fun (acc : FormM) (b : Int × Int × Option FormM) => match b.2.2 with
          | none => some acc
          | some f => (adjointBlock rb mk f).map (fun g => acc ++ g)) []

/-- `compute_energy_norm(form, coefficient)`: `csp` = repr of the coefficient's function space -/
def energyForm (rb : Rb) (F : FormM) (c : Expr) (csp : String) : Option FormM :=
  match formArgs F with
  | some [v, u] =>
    if !(formParts [v, u]).isEmpty then none
    else if argSpace u.key != argSpace v.key then none
    else if csp != argSpace u.key then none
    else (actionForm rb F [c]).bind (fun G => actionForm rb G [c])
  | _ => none

end Expr
end UflVerif
