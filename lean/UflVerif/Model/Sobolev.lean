/-
Model of ufl/sobolevspace.py (comparison operators and element membership), as repaired by the
`fix:` commit in /repo.  Executable, core Lean only.  `none` = the Python raises.
-/
import UflVerif.Gen.Sobolev

namespace UflVerif.Sobolev
open UflVerif.Gen.Sobolev

/-- orders a DirectionalSobolevSpace maps to a space in `__getitem__` -/
inductive Ord | o0 | o1 | o2 | o3 | inf
  deriving DecidableEq, Repr, Inhabited

def Ord.toNat : Ord → Nat | .o0 => 0 | .o1 => 1 | .o2 => 2 | .o3 => 3 | .inf => 4
def Ord.all : List Ord := [.o0, .o1, .o2, .o3, .inf]
def Ord.str : Ord → String | .o0 => "0" | .o1 => "1" | .o2 => "2" | .o3 => "3" | .inf => "inf"
/-- `spaces = {0: L2, 1: H1, 2: H2, 3: H3, inf: HInf}` -/
def Ord.space : Ord → String | .o0 => "L2" | .o1 => "H1" | .o2 => "H2" | .o3 => "H3" | .inf => "HInf"

inductive Space
  | named (name : String)
  | dir (orders : List Ord)
  deriving DecidableEq, Repr

def names : List String := spaces.map (·.1)

def parentsOf (n : String) : List String :=
  match spaces.find? (·.1 == n) with
  | some (_, ps, _) => ps
  | none => []

/-- `_is_subspace(a, b)` on named spaces -/
def isSub (a b : String) : Bool := a == b || (parentsOf a).contains b

/-- names for which comparison with a directional space raises -/
def unknown : List String := ["HDivDiv", "HEin", "HCurlDiv"]

/-- `__eq__` (SobolevSpace / DirectionalSobolevSpace, incl. the reflected call) -/
def eqS : Space → Space → Bool
  | .named a, .named b => a == b
  | .dir a, .dir b => a == b
  | .dir a, .named b => a.all (fun o => o.space == b)
  | .named b, .dir a => a.all (fun o => o.space == b)

def allGe : List Ord → List Ord → Bool
  | [], [] => true
  | a :: as, b :: bs => decide (b.toNat ≤ a.toNat) && allGe as bs
  | _, _ => false

def anyGt : List Ord → List Ord → Bool
  | a :: as, b :: bs => decide (b.toNat < a.toNat) || anyGt as bs
  | _, _ => false

/-- `_is_proper_subspace(a, b)` -/
def properSub : Space → Space → Option Bool
  | .named a, .named b => some ((parentsOf a).contains b)
  | .dir a, .dir b => some (if a.length != b.length then false else allGe a b && anyGt a b)
  | .dir a, .named b =>
      if unknown.contains b then none
      else some (!(eqS (.dir a) (.named b)) && a.all (fun o => isSub o.space b))
  | .named a, .dir b =>
      if unknown.contains a then none
      else some (!(eqS (.dir b) (.named a)) && b.all (fun o => isSub a o.space))

def lt (a b : Space) : Option Bool := properSub a b
def gt (a b : Space) : Option Bool := properSub b a
def le (a b : Space) : Option Bool := if eqS a b then some true else properSub a b
def ge (a b : Space) : Option Bool := if eqS a b then some true else properSub b a
/-- `e in b` for an element whose `sobolev_space` is `a` -/
def mem (a b : Space) : Option Bool := le a b

def Space.tag : Space → String
  | .named n => n
  | .dir os => "D(" ++ ",".intercalate (os.map Ord.str) ++ ")"

def showOB : Option Bool → String
  | some true => "T" | some false => "F" | none => "raise"

/-- all order tuples of length n, in the same order as Python's itertools.product -/
def tuples : Nat → List (List Ord)
  | 0 => [[]]
  | n + 1 => (tuples n).flatMap (fun t => Ord.all.map (fun o => t ++ [o]))

def domain (maxlen : Nat) : List Space :=
  names.map .named ++ (List.range maxlen).flatMap (fun k => (tuples (k + 1)).map .dir)

def line (a b : Space) : String :=
  s!"{a.tag} {b.tag} {showOB (lt a b)} {showOB (gt a b)} {showOB (le a b)} {showOB (ge a b)} {if eqS a b then "T" else "F"} {showOB (mem a b)}"

end UflVerif.Sobolev
