/-
The decidable side conditions of the C02 composition theorem (`DOK`), Mathlib-free so that the native driver can
evaluate them on every correspondence case.  `hygM`, `ltSCM`, `ctSCM` are copies of the side conditions `Hyg`, `ltSC`,
`RebuildSC .componentTensor` of the constructor theorems of C05 (Props layer); Props/C02/Defs.lean proves that they
imply those.
-/
import UflVerif.Model.Deriv
import UflVerif.Model.WF

namespace UflVerif
namespace Expr

mutual
/-- no component tensor has a plain `Indexed` body -/
def hygM : Expr → Bool
  | .op .componentTensor _ (.op .indexed _ _ :: _) => false
  | .op _ _ args => hygML args
  | _ => true
def hygML : List Expr → Bool
  | [] => true
  | a :: as => hygM a && hygML as
end

/-- neither collapse rule of `ListTensor.__new__` can apply -/
def ltSCM (xs : List Expr) : Bool :=
  xs.any (fun x => (indexedParts x).isNone) && xs.any (fun x => (ctIndexedParts x).isNone)

/-- the shortcut `as_tensor(A[ii], ii) -> A` binds no index that is free in A -/
def ctSCM (ap : Expr) (is : List Idx) : Bool :=
  match ap with
  | .op .indexed _ [A, .mi ii] => ii != is || (freeCounts is).all (fun c => !FI.has c (fi A))
  | _ => true

/-- a terminal whose key is a differentiation variable is a Coefficient of the right shape: (Gateaux) its direction is a value
    terminal of the same shape; (variable ruleset, a coefficient used as variable) it is a scalar -/
def termOK : DMode → TermData → Bool
  | .gateaux wv, d =>
    (match wv.get d.key with
     | some v => d.cls == "Coefficient" && v.shape == d.shape && v.cls != "Identity" && v.cls != "Label"
     | none => true)
  | .variable _ coeff, d => d.key != coeff || (d.cls == "Coefficient" && d.shape.isEmpty)

/-- an occurrence of the differentiation variable (same label) has no free indices -/
def varOK : DMode → Expr → TermData → Bool
  | .gateaux _, _, _ => true
  | .variable label _, a, l => l.key != label || (fi a).isEmpty

mutual
/-- Side conditions under which the constructors' simplifications used while building the derivative are covered by
    the value theorems of C05 (`RebuildSC`): the derivative of an indexed tensor contains no component tensor with a
    plain `Indexed` body (`hygM`); the shortcut `as_tensor(A[ii], ii) -> A` binds no index free in A (`ctSCM`); a list
    tensor of derivatives does not collapse (`ltSCM`); a power's base is not the literal Zero; the derivative under a
    restriction is not a bare permutation symbol; terminals named like a differentiation variable are that variable. -/
def DOK (m : DMode) : Expr → Bool
  | .term d => termOK m d
  | .op k _ args =>
    match k, args with
    | .variable, [a, .term l] => DOK m a && varOK m a l
    | .indexed, [a, .mi _] => DOK m a && (match derivE m a with | some ap => hygM ap | none => true)
    | .componentTensor, [a, .mi is] => DOK m a && (match derivE m a with | some ap => ctSCM ap is | none => true)
    | .listTensor, xs => DOKL m xs && (match derivL m xs with | some ys => ltSCM ys | none => true)
    | .power, [f, g] => DOK m f && DOK m g && !isZero f
    | .positiveRestricted, [f] =>
      DOK m f && (match derivE m f with | some (.term d) => d.cls != "PermutationSymbol" | _ => true)
    | .negativeRestricted, [f] =>
      DOK m f && (match derivE m f with | some (.term d) => d.cls != "PermutationSymbol" | _ => true)
    | .grad, [f] => (match gradChain f with | some (d, _) => termOK m d | none => true)
    | .conditional, [_, t, f] => DOK m t && DOK m f
    | _, args => DOKL m args
  | _ => true
def DOKL (m : DMode) : List Expr → Bool
  | [] => true
  | a :: as => DOK m a && DOKL m as
end

end Expr
end UflVerif
