/-
Model of ufl/algorithms/comparison_checker.py (`CheckComparisons`, complex mode) and
ufl/algorithms/remove_complex_nodes.py (`ComplexNodeRemoval`, real mode).  Core Lean only.

`CheckComparisons` is an abstract interpretation: every node gets a type `real | complex | bool`
(the `nodetype` dict) while the tree is rewritten bottom-up; an ordering comparison, `min_value` or
`max_value` with a complex-typed operand raises, otherwise its operands are wrapped in `Real(..)`.
`none` = the Python raises.  The handler every operator type is dispatched to is `checkHandler` /
`removeHandler`; the terminal classes the `terminal` handler classifies as real are read from the
regenerated class table (`Gen/Dispatch.lean`: MRO contains RealValue, Zero, Argument or GeometricQuantity).

Both passes are parametrised by the node constructor `rb` used when an operand changed
(`o._ufl_expr_reconstruct_(*ops)`): `rebuildU` (the class constructors with their
simplifications, `Expr.rebuild` of Model/Replace.lean) gives the model compared with the implementation,
`plainRb` (no simplification) gives the plain rewriting the value theorems are stated for.
-/
import UflVerif.Model.Replace
import UflVerif.Model.Rb
import UflVerif.Gen.Dispatch

namespace UflVerif
namespace Expr

/-- the three values of `CheckComparisons.nodetype` -/
inductive Ty
  | real
  | complex
  | bool
  deriving DecidableEq, Repr, Inhabited

def Ty.str : Ty → String
  | .real => "real" | .complex => "complex" | .bool => "bool"

/-- handlers `CheckComparisons` defines for operator types -/
inductive CHandler
  | expr | lt | gt | le | ge | maxValue | minValue | real | imag | sqrt | power | abs | indexed
  deriving DecidableEq, Repr, Inhabited

def CHandler.name : CHandler → String
  | .expr => "expr" | .lt => "lt" | .gt => "gt" | .le => "le" | .ge => "ge"
  | .maxValue => "max_value" | .minValue => "min_value" | .real => "real" | .imag => "imag"
  | .sqrt => "sqrt" | .power => "power" | .abs => "abs" | .indexed => "indexed"

/-- the handler of the nearest ancestor type for which `CheckComparisons` defines one.
    `strict = false` is the code as it stands.  `strict = true` is the proposed repair: the
    functions that are real only on part of the real line (`ln`, `acos`, `asin`, Bessel functions)
    get the body of `sqrt` ("defensively complex") instead of falling through to `expr`. -/
def checkHandlerG (strict : Bool) : Op → CHandler
  | .lT => .lt | .gT => .gt | .lE => .le | .gE => .ge
  | .maxValue => .maxValue | .minValue => .minValue
  | .real => .real | .imag => .imag | .sqrt => .sqrt | .power => .power | .abs => .abs
  | .indexed => .indexed
  | .ln | .acos | .asin | .besselJ | .besselY | .besselI | .besselK => if strict then .sqrt else .expr
  | _ => .expr

def checkHandler : Op → CHandler := checkHandlerG false

/-- name of the method the type is dispatched to (`strict`: the repair defines `ln`, `acos`, `asin`
    and `bessel_function` as aliases of `sqrt`) -/
def checkHandlerName (strict : Bool) (k : Op) : String :=
  if strict then
    match k with
    | .ln => "ln" | .acos => "acos" | .asin => "asin"
    | .besselJ | .besselY | .besselI | .besselK => "bessel_function"
    | _ => (checkHandlerG strict k).name
  else (checkHandlerG strict k).name

/-- `compare` (= lt, gt, le, ge), `max_value`, `min_value`: the three bodies are the same code -/
def CHandler.isCompare : CHandler → Bool
  | .lt | .gt | .le | .ge | .maxValue | .minValue => true
  | _ => false

/-- handlers `ComplexNodeRemoval` defines for operator types -/
inductive RHandler
  | expr | conj | real | imag
  deriving DecidableEq, Repr, Inhabited

def RHandler.name : RHandler → String
  | .expr => "expr" | .conj => "conj" | .real => "real" | .imag => "imag"

def removeHandler : Op → RHandler
  | .conj => .conj | .real => .real | .imag => .imag
  | _ => .expr

/-! ### terminals -/

/-- class names along the Python MRO of a registered UFL type (regenerated table) -/
def classMro (cls : String) : List String :=
  match Gen.Dispatch.typeNames.idxOf? cls with
  | some i => (Gen.Dispatch.pyMro.getD i []).map (fun j => Gen.Dispatch.classNames.getD j "")
  | none => []

/-- `isinstance(term, RealValue | Zero | Argument | GeometricQuantity)` by class name -/
def realClsOf (cls : String) : Bool :=
  let m := classMro cls
  m.contains "RealValue" || m.contains "Zero" || m.contains "Argument" || m.contains "GeometricQuantity"

/-- the registered classes `terminal` types as real (listed by the driver for the table check) -/
def realClasses : List String := Gen.Dispatch.typeNames.filter realClsOf

def realCls (cls : String) : Bool := realClsOf cls

/-- `CheckComparisons.terminal` -/
def termTy : Expr → Ty
  | .int _ | .real _ _ | .zero _ _ => .real
  | .cplx .. => .complex
  | .mi _ => .complex
  | .term d => if realCls d.cls then .real else .complex
  | .op .. => .complex

/-- `CheckComparisons.expr`: complex unless every operand is non-complex (no operands: complex) -/
def joinTy (ts : List Ty) : Ty :=
  if ts.isEmpty || ts.contains .complex then .complex else .real

/-- `float(exponent)` for literal exponents (`None` = TypeError).  Closed non-literal exponents, which
    Python would evaluate through `Expr.__float__`, are not modelled. -/
def floatLit : Expr → Option Rat
  | .int v => some (v : Rat)
  | .real n d => some ((n : Rat) / (d : Rat))
  | .zero _ _ => some 0
  | _ => none

/-- `int(exponent) == exponent` -/
def intExponent (x : Expr) : Bool :=
  match floatLit x with
  | some q => q.den == 1
  | none => false

/-- `Real(a)` (the constructor never raises) -/
def realOf (a : Expr) : Expr :=
  match mkReal a with
  | some r => r
  | none => a

/-! ### node reconstruction -/




/-- `MultiFunction.reuse_if_untouched` -/
def reuse (rb : Rb) (k : Op) (aux : List Nat) (args ops : List Expr) : Option Expr :=
  if beqL ops args then some (.op k aux args) else rb k aux ops

/-! ### CheckComparisons -/

/-- the handler applied to node `.op k aux args` whose processed operands (with their types) are `rs` -/
def checkNode (strict : Bool) (rb : Rb) (k : Op) (aux : List Nat) (args : List Expr) (rs : List (Expr × Ty)) : Option (Expr × Ty) :=
  let ops := rs.map (·.1)
  let tys := rs.map (·.2)
  match checkHandlerG strict k with
  | .lt | .gt | .le | .ge | .maxValue | .minValue =>
    if tys.contains .complex then none                    -- ComplexComparisonError
    else (rb k aux (ops.map realOf)).map (fun o => (o, Ty.bool))
  | .real | .imag | .abs => (reuse rb k aux args ops).map (fun o => (o, Ty.real))
  | .sqrt => (reuse rb k aux args ops).map (fun o => (o, Ty.complex))
  | .power =>
    (match rs with
     | [(_, tb), (x, _)] =>
       (reuse rb k aux args ops).map (fun o => (o, if tb == .real && intExponent x then Ty.real else Ty.complex))
     | _ => none)
  | .indexed =>
    (match rs with
     | [(_, ta), _] => (reuse rb k aux args ops).map (fun o => (o, ta))
     | _ => none)
  | .expr => (reuse rb k aux args ops).map (fun o => (o, joinTy tys))

mutual
def checkWith (strict : Bool) (rb : Rb) : Expr → Option (Expr × Ty)
  | .op k aux args =>
    match checkL strict rb args with
    | none => none
    | some rs => checkNode strict rb k aux args rs
  | .int v => some (.int v, .real)
  | .real n d => some (.real n d, .real)
  | .cplx a b c d => some (.cplx a b c d, .complex)
  | .zero s f => some (.zero s f, .real)
  | .mi is => some (.mi is, .complex)
  | .term d => some (.term d, termTy (.term d))
def checkL (strict : Bool) (rb : Rb) : List Expr → Option (List (Expr × Ty))
  | [] => some []
  | a :: as =>
    match checkWith strict rb a, checkL strict rb as with
    | some r, some rs => some (r :: rs)
    | _, _ => none
end

/-- the model of `map_expr_dag(CheckComparisons(), e)` -/
def checkE : Expr → Option (Expr × Ty) := checkWith false rebuildU

/-- the same pass without constructor simplifications -/
def wrapE : Expr → Option (Expr × Ty) := checkWith false plainRb

/-- the proposed repair (see `checkHandlerG`) -/
def checkFixedE : Expr → Option (Expr × Ty) := checkWith true rebuildU
def wrapFixedE : Expr → Option (Expr × Ty) := checkWith true plainRb

/-! ### ComplexNodeRemoval -/

mutual
def removeWith (rb : Rb) : Expr → Option Expr
  | .cplx .. => none                                   -- "Unexpected complex value in real expression."
  | .op k aux args =>
    match removeL rb args with
    | none => none
    | some ops =>
      match removeHandler k, ops with
      | .conj, [a] => some a
      | .real, [a] => some a
      | .imag, _ => none                               -- "Unexpected imag in real expression."
      | .conj, _ => none
      | .real, _ => none
      | .expr, _ => reuse rb k aux args ops
  | e => some e
def removeL (rb : Rb) : List Expr → Option (List Expr)
  | [] => some []
  | a :: as =>
    match removeWith rb a, removeL rb as with
    | some x, some xs => some (x :: xs)
    | _, _ => none
end

/-- the model of `map_expr_dag(ComplexNodeRemoval(), e)` -/
def removeE : Expr → Option Expr := removeWith rebuildU

/-- the same pass without constructor simplifications -/
def stripE : Expr → Option Expr := removeWith plainRb

end Expr
end UflVerif
