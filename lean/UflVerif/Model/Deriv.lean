/-
Model of ufl/algorithms/apply_derivatives.py for Gateaux and variable derivatives:
`apply_derivatives(CoefficientDerivative(e, ExprList(*w), ExprList(*v), ExprMapping()))`  (`gateauxD`) and
`apply_derivatives(VariableDerivative(e, variable))` for a scalar variable (`variableD`):
the bottom-up traversal of `GenericDerivativeRuleset` with the terminal rules of `GateauxDerivativeRuleset`
/ `VariableRuleset`.  Every result is built through the modelled class constructors (Model/Construct.lean)
and the modelled Python operators (`mkMult` = `*`, `mkNeg` = unary `-`, `mkSub` = binary `-`, `mkMath` =
`ufl.sin` etc.) exactly where the handlers use them, so that zero propagation, operand sorting and literal
folding agree tree-for-tree with the implementation.  `none` = the Python raises; the `unsupported`
marker = a branch outside the model (fresh indices from `as_scalars`/tensor-valued products, float folding of
a math function of a literal, complex literals, gradients of non-form-arguments which the dispatcher rewrites
before the ruleset sees them).

The differentiation variables are WHOLE coefficients: `wv` maps the key (repr) of each coefficient `w` to its
direction `v` (a Coefficient or Argument terminal of the same shape).  Executable, core Lean only.
-/
import UflVerif.Model.Replace
import UflVerif.Model.Rb
import UflVerif.Model.Eval

namespace UflVerif
namespace Expr

/-! ### Python operators used by the handlers -/

/-- a free index occurs in both lists (`merge_overlapping_indices` would report a repeated index) -/
def sharesIndex (f g : FI) : Bool := f.any (fun p => FI.has p.1 g)

/-- `a * b` (`_mult`) on scalar-valued operands without a repeated index: `Product(a, b)`.
    Tensor operands (fresh indices) and repeated indices (implicit sums) never reach the handlers'
    products on the fragment; they are marked. -/
def mkMult (a b : Expr) : Option Expr :=
  if !(shape a).isEmpty || !(shape b).isEmpty then some unsupported
  else if sharesIndex (fi a) (fi b) then some unsupported
  else mkProduct a b

/-- unary minus: `Zero.__neg__`, `ScalarValue.__neg__`, otherwise `-1 * x` -/
def mkNeg : Expr → Option Expr
  | .zero s f => some (.zero s f)
  | .int v => some (.int (-v))
  | .real n d => some (.real (-n) d)
  | .cplx .. => some unsupported
  | x => mkMult (.int (-1)) x

/-- `a - b` = `Sum(a, -b)` -/
def mkSub (a b : Expr) : Option Expr := bindU (mkNeg b) (fun nb => mkSum a nb)

/-- `ufl.sin(a)` etc.: the class constructor folds a literal argument to a float (not modelled) and
    requires a true scalar -/
def mkMath (k : Op) (a : Expr) : Option Expr :=
  if isZero a || isScalarValue a then some unsupported
  else if !trueScalar a then none
  else some (.op k [] [a])

/-- `fp(side)`: `Restricted.__new__` returns a ConstantValue unchanged -/
def mkRestricted (k : Op) (fp : Expr) : Option Expr :=
  if isConstantValue fp then some fp else some (.op k [] [fp])

def bind2 (x y : Option Expr) (f : Expr → Expr → Option Expr) : Option Expr :=
  bindU x (fun a => bindU y (fun b => f a b))

def lit1 : Expr := .real 1 1     -- Python float 1.0
def lit2 : Expr := .real 2 1     -- Python float 2.0

/-! ### the rules of GenericDerivativeRuleset (operands `f, g`, operand derivatives `fp, gp`, the node `o`) -/

/-- `Product`: `Sum(Product(da, b), Product(a, db))` (scalar derivatives: `as_scalars` adds no indices) -/
def productRule (a b da db : Expr) : Option Expr :=
  if !(shape da).isEmpty || !(shape db).isEmpty then some unsupported
  else bind2 (mkProduct da b) (mkProduct a db) mkSum

/-- `Division`: `(fp - o * gp) / g` -/
def divisionRule (o f g fp gp : Expr) : Option Expr :=
  if !(shape f).isEmpty then none
  else if !trueScalar g then none
  else if !(shape gp).isEmpty then some unsupported
  else bindU (mkMult o gp) fun ogp => bindU (mkSub fp ogp) fun num => mkDivision num g

/-- `Power`, both branches -/
def powerRule (f g fp gp : Expr) : Option Expr :=
  if !trueScalar f || !trueScalar g then none
  else if isZero gp then
    -- fp * g * f ** (g - 1)
    bindU (mkMult fp g) fun fpg =>
    bindU (mkSum g (.int (-1))) fun gm1 =>
    bindU (mkPower f gm1) fun pw => mkMult fpg pw
  else
    -- f ** (g - 1) * (g * fp + f * ln(f) * gp)
    bindU (mkSum g (.int (-1))) fun gm1 =>
    bindU (mkPower f gm1) fun pw =>
    bindU (mkMult g fp) fun gfp =>
    bindU (mkMath .ln f) fun lnf =>
    bindU (mkMult f lnf) fun flnf =>
    bindU (mkMult flnf gp) fun t2 =>
    bindU (mkSum gfp t2) fun s => mkMult pw s

/-- `sign(x)` = `conditional(eq(x, 0), 0, conditional(lt(x, 0), -1, +1))` -/
def mkSign (x : Expr) : Option Expr :=
  bindU (mkCondition .eQ x (.zero [] [])) fun ceq =>
  bindU (mkCondition .lT x (.zero [] [])) fun clt =>
  bindU (mkConditional clt (.int (-1)) (.int 1)) fun inner => mkConditional ceq (.zero [] []) inner

/-- `Abs`: `sign(Real(f)) * df` -/
def absRule (f df : Expr) : Option Expr :=
  bindU (mkReal f) fun rf => bindU (mkSign rf) fun sg => mkMult sg df

/-- `(2.0 * cosh(y)) / (cosh(2.0 * y) + 1.0)` -/
def mkSech (y : Expr) : Option Expr :=
  bindU (mkMath .cosh y) fun ch =>
  bindU (mkMult lit2 ch) fun num =>
  bindU (mkMult lit2 y) fun y2 =>
  bindU (mkMath .cosh y2) fun ch2 =>
  bindU (mkSum ch2 lit1) fun den => mkDivision num den

/-- `sqrt(1.0 - f**2)` -/
def mkSqrt1mSq (f : Expr) : Option Expr :=
  bindU (mkPower f (.int 2)) fun f2 => bindU (mkSub lit1 f2) fun d => mkMath .sqrt d

/-- the MathFunction handlers; `o` is the node itself -/
def mathRule (k : Op) (o f fp : Expr) : Option Expr :=
  match k with
  | .sqrt => bindU (mkMult (.int 2) o) fun d => mkDivision fp d                       -- fp / (2 * o)
  | .exp => mkMult fp o                                                                -- fp * o
  | .ln => if isZero f then none else mkDivision fp f                                  -- fp / f
  | .cos => bindU (mkMath .sin f) fun s => bindU (mkNeg s) fun ns => mkMult fp ns      -- fp * -sin(f)
  | .sin => bindU (mkMath .cos f) fun c => mkMult fp c                                 -- fp * cos(f)
  | .tan =>                                                                            -- 2.0 * fp / (cos(2.0 * f) + 1.0)
    bindU (mkMult lit2 fp) fun num =>
    bindU (mkMult lit2 f) fun f2 =>
    bindU (mkMath .cos f2) fun c =>
    bindU (mkSum c lit1) fun den => mkDivision num den
  | .cosh => bindU (mkMath .sinh f) fun s => mkMult fp s
  | .sinh => bindU (mkMath .cosh f) fun c => mkMult fp c
  | .tanh => bindU (mkSech f) fun s => bindU (mkPower s (.int 2)) fun s2 => mkMult fp s2   -- fp * sech(f) ** 2
  | .acos => bindU (mkNeg fp) fun nfp => bindU (mkSqrt1mSq f) fun d => mkDivision nfp d    -- -fp / sqrt(1.0 - f**2)
  | .asin => bindU (mkSqrt1mSq f) fun d => mkDivision fp d                                 -- fp / sqrt(1.0 - f**2)
  | .atan => bindU (mkPower f (.int 2)) fun f2 => bindU (mkSum lit1 f2) fun d => mkDivision fp d   -- fp / (1.0 + f**2)
  | _ => some unsupported      -- erf, Bessel functions: not in the fragment

/-- `MaxValue` / `MinValue`: `dc * df + (1.0 - dc) * dg` with `dc = conditional(f > g, 1, 0)` (`f < g` for min) -/
def minMaxRule (k : Op) (f g df dg : Expr) : Option Expr :=
  bindU (mkCondition (if k == .maxValue then .gT else .lT) f g) fun c =>
  bindU (mkConditional c (.int 1) (.zero [] [])) fun dc =>
  bindU (mkMult dc df) fun t1 =>
  bindU (mkSub lit1 dc) fun omdc =>
  bindU (mkMult omdc dg) fun t2 => mkSum t1 t2

/-- `Conditional` (only the two values are differentiated) -/
def conditionalRule (c dt df : Expr) : Option Expr :=
  if isZero dt && isZero df then some dt else mkConditional c dt df

/-- `Indexed`: zero propagation, otherwise `Indexed(Ap, ii)` (the derivative has the shape of the operand) -/
def indexedRule (o ap : Expr) (is : List Idx) : Option Expr :=
  if isZero ap then some (.zero (shape o) (fi o))
  else if (shape ap).length ≠ is.length then some unsupported
  else mkIndexed ap is

/-- `ComponentTensor`: zero propagation, otherwise `as_tensor(Ap, ii)` -/
def componentTensorRule (o ap : Expr) (is : List Idx) : Option Expr :=
  if isZero ap then some (.zero (shape o) (fi o))
  else if !(shape ap).isEmpty then some unsupported
  else mkComponentTensor ap is

/-! ### terminal rules -/

def geometricQuantities : List String := [
  "CellCoordinate", "CellDiameter", "CellEdgeVectors", "CellFacetJacobian", "CellFacetJacobianDeterminant",
  "CellFacetJacobianInverse", "CellFacetOrigin", "CellNormal", "CellOrientation", "CellOrigin", "CellRidgeJacobian",
  "CellRidgeJacobianDeterminant", "CellRidgeJacobianInverse", "CellRidgeOrigin", "CellVertices", "CellVolume",
  "Circumradius", "FacetArea", "FacetCoordinate", "FacetEdgeVectors", "FacetJacobian", "FacetJacobianDeterminant",
  "FacetJacobianInverse", "FacetNormal", "FacetOrientation", "FacetOrigin", "FacetRidgeJacobian", "Jacobian",
  "JacobianDeterminant", "JacobianInverse", "MaxCellEdgeLength", "MaxFacetEdgeLength", "MinCellEdgeLength",
  "MinFacetEdgeLength", "QuadratureWeight", "ReferenceCellEdgeVectors", "ReferenceCellVolume",
  "ReferenceFacetEdgeVectors", "ReferenceFacetVolume", "ReferenceNormal", "ReferenceRidgeVolume", "RidgeCoordinate",
  "RidgeJacobian", "RidgeJacobianDeterminant", "RidgeJacobianInverse", "RidgeOrigin", "SpatialCoordinate"]

/-- terminals that every ruleset treats as independent of the differentiation variable:
    constants, literal tensors, geometric quantities (`independent_terminal`) -/
def independentCls (c : String) : Bool :=
  c == "Constant" || c == "Identity" || c == "PermutationSymbol" || geometricQuantities.contains c

abbrev WV := List (String × TermData)

def WV.get (wv : WV) (key : String) : Option TermData :=
  match wv.find? (fun p => p.1 == key) with
  | some p => some p.2
  | none => none

/-- `GateauxDerivativeRuleset`: `w ↦ v`, other coefficients, arguments, constants, geometry ↦ `Zero(o.ufl_shape)`;
    labels are returned unchanged (`non_differentiable_terminal`) -/
def gateauxTerm (wv : WV) (d : TermData) : Option Expr :=
  if d.cls == "Label" then some (.term d)
  else if d.cls == "Coefficient" then
    (match wv.get d.key with
     | some v => some (.term v)
     | none => some (.zero d.shape []))
  else if d.cls == "Argument" || independentCls d.cls then some (.zero d.shape [])
  else some unsupported

/-- `apply_grads(v)`: the same gradients around `v` (the terminal at the bottom of a chain of gradients replaced) -/
def chainSubst (v : TermData) : Expr → Expr
  | .term _ => .term v
  | .op .grad aux [a] => .op .grad aux [chainSubst v a]
  | e => e

/-- `GateauxDerivativeRuleset` on `grad^n(o)`: `grad^n(v)` if `o` is one of the `w`, zero for every other
    form argument.  Gradients of other terminals are rewritten by the dispatcher's `GradRuleset` before the
    Gateaux ruleset runs (spatial coordinate ↦ identity, constants ↦ zero): outside the model. -/
def gateauxGrad (wv : WV) (g : Expr) : Option Expr :=
  match gradChain g with
  | some (d, n) =>
    if n = 0 then some unsupported
    else if d.cls == "Coefficient" then
      (match wv.get d.key with
       | some v => some (chainSubst v g)
       | none => some (.zero (shape g) []))
    else if d.cls == "Argument" then some (.zero (shape g) [])
    else some unsupported
  | none => some unsupported      -- a gradient of a non-terminal: expanded by the dispatcher's GradRuleset first

/-! ### the traversal -/

inductive DMode
  | gateaux (wv : WV)
  /-- `VariableRuleset` for a scalar variable with the given label key; `coeff` = the variable is a Coefficient
      itself (`diff(f, u)` for a coefficient u) with that key -/
  | variable (label : String) (coeff : String)

def termRule : DMode → TermData → Option Expr
  | .gateaux wv, d => gateauxTerm wv d
  | .variable _ coeff, d =>
    if d.cls == "Label" then some (.term d)
    else if d.cls == "Coefficient" then (if d.key == coeff && d.shape.isEmpty then some lit1 else some (.zero d.shape []))
    else if d.cls == "Argument" || independentCls d.cls then some (.zero d.shape [])
    else some unsupported

def gradRule : DMode → Expr → Option Expr
  | .gateaux wv, g => gateauxGrad wv g
  | .variable _ _, g =>
    -- "Variable derivative of a gradient of a terminal must be 0"
    (match gradChain g with
     | some (d, n) => if n = 0 then some unsupported
                      else if d.cls == "Coefficient" || d.cls == "Argument" then some (.zero (shape g) []) else some unsupported
     | none => some unsupported)

mutual
def derivE (m : DMode) : Expr → Option Expr
  | .int _ | .real _ _ | .cplx _ _ _ _ => some (.zero [] [])
  | .zero s f => some (.zero s f)
  | .mi is => some (.mi is)
  | .term d => termRule m d
  | .op k aux args =>
    match k, args with
    | .variable, [a, .term l] =>
      (match m with
       | .gateaux _ => derivE m a
       | .variable label _ =>
         -- postorder: the operand is differentiated first (and may raise), then the label is compared
         bindU (derivE m a) fun da => if l.key == label then (if (shape a).isEmpty then some lit1 else some unsupported) else some da)
    | .indexed, [a, .mi is] => bindU (derivE m a) fun ap => indexedRule (.op .indexed aux [a, .mi is]) ap is
    | .listTensor, xs =>
      (match derivL m xs with
       | none => none
       | some ys => if ys.any isUnsupported then some unsupported else mkListTensor ys)
    | .componentTensor, [a, .mi is] =>
      bindU (derivE m a) fun ap => componentTensorRule (.op .componentTensor aux [a, .mi is]) ap is
    | .indexSum, [a, .mi [.free j]] => bindU (derivE m a) fun ap => mkIndexSum ap j
    | .sum, [a, b] => bind2 (derivE m a) (derivE m b) mkSum
    | .product, [a, b] => bind2 (derivE m a) (derivE m b) (productRule a b)
    | .division, [f, g] => bind2 (derivE m f) (derivE m g) (divisionRule (.op .division aux [f, g]) f g)
    | .power, [f, g] => bind2 (derivE m f) (derivE m g) (powerRule f g)
    | .abs, [f] => bindU (derivE m f) (absRule f)
    | .conj, [f] => bindU (derivE m f) mkConj
    | .real, [f] => bindU (derivE m f) mkReal
    | .imag, [f] => bindU (derivE m f) mkImag
    | .conditional, [c, t, f] => bind2 (derivE m t) (derivE m f) (conditionalRule c)
    | .minValue, [f, g] => bind2 (derivE m f) (derivE m g) (minMaxRule .minValue f g)
    | .maxValue, [f, g] => bind2 (derivE m f) (derivE m g) (minMaxRule .maxValue f g)
    | .positiveRestricted, [f] => bindU (derivE m f) (mkRestricted .positiveRestricted)
    | .negativeRestricted, [f] => bindU (derivE m f) (mkRestricted .negativeRestricted)
    | .grad, [f] => gradRule m (.op .grad aux [f])
    | .eQ, _ | .nE, _ | .lT, _ | .gT, _ | .lE, _ | .gE, _ | .andCondition, _ | .orCondition, _ | .notCondition, _ => none
    | fnk, [f] =>
      (match mathName fnk with
       | some _ => bindU (derivE m f) (mathRule fnk (.op fnk aux [f]) f)
       | none => some unsupported)
    | _, _ => some unsupported
def derivL (m : DMode) : List Expr → Option (List Expr)
  | [] => some []
  | a :: as => match derivE m a, derivL m as with
    | some x, some xs => some (x :: xs)
    | _, _ => none
end

/-- `apply_derivatives(CoefficientDerivative(e, ExprList(*w), ExprList(*v), ExprMapping()))` -/
def gateauxD (wv : WV) (e : Expr) : Option Expr := derivE (.gateaux wv) e

/-- one whole coefficient `w` (key) with direction `v` -/
def gateauxD1 (w : String) (v : TermData) (e : Expr) : Option Expr := gateauxD [(w, v)] e

/-- `apply_derivatives(VariableDerivative(e, v))` for a scalar variable `v = variable(..)` with label key `label` -/
def variableD (label : String) (e : Expr) : Option Expr := derivE (.variable label "") e

/-- ... and for a scalar Coefficient `u` used as the variable -/
def coeffD (u : String) (e : Expr) : Option Expr := derivE (.variable "" u) e

end Expr
end UflVerif
