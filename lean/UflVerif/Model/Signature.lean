/-
Model of the signature computation: ufl/algorithms/signature.py (`compute_terminal_hashdata`,
`compute_multiindex_hashdata`, `compute_expression_hashdata`, `compute_form_signature`), the per-class
`_ufl_signature_data_` methods, and the parts of ufl/form.py the signature depends on
(`_sorted_integrals`, `_analyze_domains`/`domain_numbering`, `terminal_numbering`, the uniqueness
checks of `extract_terminals_with_domain`).  Core Lean only.

Expressions with *visible counters* (`CExpr`): the model language of Model/Syntax.lean keeps a terminal as
(class, repr string, shape, count); the signature and the renumbering act on the numbers inside that repr
(coefficient / constant / label counts, mesh ids), so terminals are structured here and `CExpr.toExpr`
renders them to the `Expr` of Model/Syntax.lean (decimal numerals, exactly as `repr` prints them), which is what
the ordering `Expr.cmp` (Model/Order.lean) sees.

The pre-hash data is the tree `SigData`; `hash d` stands for `sha512(str(d).encode()).digest()`.  Properties
C11 (injectivity) and C12 (invariance) are statements about this tree; that equal trees give equal digests is
trivial, that different trees give different digests is the `sha512`/`str` assumption of C11.
-/
import UflVerif.Model.Order
import UflVerif.Model.FormModel

namespace UflVerif

/-! ## structured terminals -/

structure MeshD where
  id : Nat               -- ufl_id
  gdim : Nat
  tdim : Nat
  celem : String         -- repr of the coordinate element
  deriving DecidableEq, Repr, Inhabited

structure SpaceD where
  mesh : MeshD
  elem : String          -- repr of the element
  label : String := ""   -- `FunctionSpace(..., label=...)` (a str): part of the signature data, not of the repr
  deriving DecidableEq, Repr, Inhabited

inductive CTerm
  | coeff (count : Nat) (sp : SpaceD) (shape : List Nat)
  | arg (number : Nat) (part : Int) (sp : SpaceD) (shape : List Nat)      -- part -1 = None
  | const (count : Nat) (mesh : MeshD) (shape : List Nat)
  | geo (cls : String) (mesh : MeshD) (shape : List Nat)                  -- any GeometricQuantity
  | label (count : Nat)
  | plain (cls : String) (key : String) (shape : List Nat)                -- Identity, PermutationSymbol, ...: no counters
  deriving DecidableEq, Repr, Inhabited

/-- `Mesh._ufl_sort_key_()` = (gdim, tdim, "Mesh", (ufl_id, coordinate_element)), flattened as harness/uflio.py sends it -/
def MeshD.sortKey (m : MeshD) : List KeyAtom := [.n m.gdim, .n m.tdim, .s "Mesh", .n m.id, .s m.celem]
def MeshD.repr (m : MeshD) : String := "Mesh(" ++ m.celem ++ ", " ++ toString m.id ++ ")"
def SpaceD.repr (s : SpaceD) : String := "FunctionSpace(" ++ s.mesh.repr ++ ", " ++ s.elem ++ ")"

namespace CTerm

def cls : CTerm → String
  | .coeff .. => "Coefficient" | .arg .. => "Argument" | .const .. => "Constant"
  | .geo c _ _ => c | .label _ => "Label" | .plain c _ _ => c

def shape : CTerm → List Nat
  | .coeff _ _ s | .arg _ _ _ s | .const _ _ s | .geo _ _ s | .plain _ _ s => s
  | .label _ => []

/-- what `repr(terminal)` prints -/
def repr : CTerm → String
  | .coeff c sp _ => "Coefficient(" ++ sp.repr ++ ", " ++ toString c ++ ")"
  | .arg n p sp _ => "Argument(" ++ sp.repr ++ ", " ++ toString n ++ ", " ++ (if p < 0 then "None" else toString p) ++ ")"
  | .const c m sh => "Constant(" ++ m.repr ++ ", " ++ Expr.pyTuple sh ++ ", " ++ toString c ++ ")"
  | .geo c m _ => c ++ "(" ++ m.repr ++ ")"
  | .label c => "Label(" ++ toString c ++ ")"
  | .plain _ k _ => k

/-- the terminal as Model/Syntax.lean (and the serializer harness/uflio.py) represents it -/
def toTermData : CTerm → TermData
  | .coeff c sp sh => { cls := "Coefficient", key := (CTerm.coeff c sp sh).repr, shape := sh, count := c }
  | .arg n p sp sh => { cls := "Argument", key := (CTerm.arg n p sp sh).repr, shape := sh, count := n, part := p }
  | .const c m sh => { cls := "Constant", key := (CTerm.const c m sh).repr, shape := sh, count := c, dom := m.sortKey }
  | .geo c m sh => { cls := c, key := (CTerm.geo c m sh).repr, shape := sh, dom := m.sortKey }
  | .label c => { cls := "Label", key := (CTerm.label c).repr, shape := [], count := c }
  | .plain c k sh => { cls := c, key := k, shape := sh }

/-- the mesh a terminal lives on (`extract_unique_domain`) -/
def mesh? : CTerm → Option MeshD
  | .coeff _ sp _ | .arg _ _ sp _ => some sp.mesh
  | .const _ m _ | .geo _ m _ => some m
  | _ => none

end CTerm

/-! ## expressions with structured terminals -/

inductive CExpr
  | int (v : Int)
  | real (num : Int) (den : Nat)
  | cplx (rn : Int) (rd : Nat) (im_n : Int) (im_d : Nat)
  | zero (sh : List Nat) (fi : List (Nat × Nat))
  | mi (is : List Idx)
  | term (t : CTerm)
  | op (k : Op) (aux : List Nat) (args : List CExpr)
  deriving Repr, Inhabited

namespace CExpr

mutual
def toExpr : CExpr → Expr
  | .int v => .int v
  | .real n d => .real n d
  | .cplx a b c d => .cplx a b c d
  | .zero sh f => .zero sh f
  | .mi is => .mi is
  | .term t => .term t.toTermData
  | .op k aux args => .op k aux (toExprL args)
def toExprL : List CExpr → List Expr
  | [] => []
  | a :: as => toExpr a :: toExprL as
end

mutual
def beq : CExpr → CExpr → Bool
  | .int a, .int b => a == b
  | .real a b, .real c d => a == c && b == d
  | .cplx a b c d, .cplx e f g h => a == e && b == f && c == g && d == h
  | .zero s f, .zero s' f' => s == s' && f == f'
  | .mi a, .mi b => a == b
  | .term a, .term b => a == b
  | .op k x as, .op k' x' bs => k == k' && x == x' && beqL as bs
  | _, _ => false
def beqL : List CExpr → List CExpr → Bool
  | [], [] => true
  | a :: as, b :: bs => beq a b && beqL as bs
  | _, _ => false
end

def operands : CExpr → List CExpr
  | .op _ _ as => as
  | _ => []

def isTerminal : CExpr → Bool
  | .op .. => false
  | _ => true

mutual
def size : CExpr → Nat
  | .op _ _ as => 1 + sizeL as
  | _ => 1
def sizeL : List CExpr → Nat
  | [] => 0
  | a :: as => size a + sizeL as
end

def className : CExpr → String
  | .int _ => "IntValue" | .real _ _ => "FloatValue" | .cplx _ _ _ _ => "ComplexValue"
  | .zero _ _ => "Zero" | .mi _ => "MultiIndex" | .term t => t.cls | .op k _ _ => k.name

def typecode (e : CExpr) : Nat := Expr.tcOfName (className e)

/- every structured terminal below `e`, left to right (with repetition) -/
mutual
def terms : CExpr → List CTerm
  | .term t => [t]
  | .op _ _ args => termsL args
  | _ => []
def termsL : List CExpr → List CTerm
  | [] => []
  | a :: as => terms a ++ termsL as
end

end CExpr

/-! ## generic list utilities (explicit comparison functions: no type-class search in the proofs) -/
namespace L

/-- insert `x` before the first element that is not smaller: with `sortS` a stable sort (`sorted(..., key=..)`) -/
def insertS {α : Type} (lt : α → α → Bool) (x : α) : List α → List α
  | [] => [x]
  | y :: ys => if lt y x then y :: insertS lt x ys else x :: y :: ys

def sortS {α : Type} (lt : α → α → Bool) : List α → List α
  | [] => []
  | x :: xs => insertS lt x (sortS lt xs)

def memB {α : Type} (eq : α → α → Bool) (x : α) (l : List α) : Bool := l.any (eq x)

/-- drop repeated elements, keeping the first occurrence -/
def dedupS {α : Type} (eq : α → α → Bool) : List α → List α
  | [] => []
  | x :: xs => x :: (dedupS eq xs).filter (fun y => !eq x y)

def posOf {α : Type} (eq : α → α → Bool) (x : α) : List α → Option Nat
  | [] => none
  | y :: ys => if eq x y then some 0 else (posOf eq x ys).map (· + 1)

end L

/-! ## the pre-hash data -/

inductive SigData
  | str (s : String)            -- a Python str (printed quoted inside tuples/lists)
  | raw (s : String)            -- an object printed by its repr `s` (an element inside a tuple)
  | int (v : Int)
  | none
  | tup (xs : List SigData)
  | lst (xs : List SigData)
  | fmt (xs : List SigData)     -- an f-string: the concatenation of `str` of the parts (a Python str)
  | hash (d : SigData)          -- sha512(str(d).encode("utf-8")).digest()
  deriving Repr, Inhabited

namespace SigData
mutual
def beq : SigData → SigData → Bool
  | .str a, .str b => a == b
  | .raw a, .raw b => a == b
  | .int a, .int b => a == b
  | .none, .none => true
  | .tup a, .tup b => beqL a b
  | .lst a, .lst b => beqL a b
  | .fmt a, .fmt b => beqL a b
  | .hash a, .hash b => beq a b
  | _, _ => false
def beqL : List SigData → List SigData → Bool
  | [], [] => true
  | a :: as, b :: bs => beq a b && beqL as bs
  | _, _ => false
end
end SigData

/-- subdomain ids: an int, a tuple of ints, or one of the strings "everywhere" / "otherwise" -/
inductive SubId
  | int (v : Int)
  | str (s : String)
  | tup (xs : List Int)
  deriving DecidableEq, Repr, Inhabited

structure CIntegral where
  integrand : CExpr
  itype : String                       -- "cell", "exterior_facet", ...
  mesh : MeshD                         -- integral.ufl_domain()
  sub : SubId
  metadata : FormModel.Canon           -- `canonicalize_metadata(integral.metadata())`: nested tuples of str (Model/FormModel.lean)
  deriving Repr, Inhabited

abbrev CForm := List CIntegral

namespace Sig
open L

/-! ### orderings used by form.py -/

def cmpNats : List Nat → List Nat → Ordering
  | [], [] => .eq
  | [], _ :: _ => .lt
  | _ :: _, [] => .gt
  | a :: as, b :: bs => match compare a b with
    | .eq => cmpNats as bs
    | r => r

def cmpInts : List Int → List Int → Ordering
  | [], [] => .eq
  | [], _ :: _ => .lt
  | _ :: _, [] => .gt
  | a :: as, b :: bs => match compare a b with
    | .eq => cmpInts as bs
    | r => r

def thn (x y : Ordering) : Ordering := match x with | .eq => y | r => r

/-- `Mesh._ufl_sort_key_()` = (gdim, tdim, "Mesh", (ufl_id, coordinate_element)); two meshes with one id and
    different coordinate elements are outside the model (Python compares the element objects) -/
def cmpMesh (a b : MeshD) : Ordering :=
  thn (compare a.gdim b.gdim) (thn (compare a.tdim b.tdim) (thn (compare a.id b.id) (compare a.celem b.celem)))

def ltMesh (a b : MeshD) : Bool := cmpMesh a b == .lt

/-- `keyfunc` of `_sorted_integrals`: (type name, value) with "otherwise" read as -1 inside tuples (already done by
    the serializer); type names "int" < "str" < "tuple" -/
def cmpSub : SubId → SubId → Ordering
  | .int a, .int b => compare a b
  | .int _, _ => .lt
  | .str _, .int _ => .gt
  | .str a, .str b => compare a b
  | .str _, .tup _ => .lt
  | .tup a, .tup b => cmpInts a b
  | .tup _, _ => .gt

/-- integrals are grouped by (domain, integral type, subdomain id) and the groups listed in sorted order, each in
    insertion order: a stable sort by that key -/
def ltIntegral (a b : CIntegral) : Bool :=
  thn (cmpMesh a.mesh b.mesh) (thn (compare a.itype b.itype) (cmpSub a.sub b.sub)) == .lt

/-- `Form.__init__`: `_sorted_integrals` -/
def sortIntegrals (f : CForm) : CForm := sortS ltIntegral f

/-! ### numberings (`Form._compute_renumbering`) -/

def eqMesh (a b : MeshD) : Bool := a == b
def eqTerm (a b : CTerm) : Bool := a == b

def formTerms (f : CForm) : List CTerm := f.flatMap (fun i => i.integrand.terms)

/-- `_analyze_domains`: integration domains in canonical order, then every other mesh of a terminal, sorted -/
def domainNumbering (f : CForm) : List MeshD :=
  let ints := sortS ltMesh (dedupS eqMesh (f.map (·.mesh)))
  let others := sortS ltMesh (dedupS eqMesh (((formTerms f).filterMap CTerm.mesh?).filter (fun m => !memB eqMesh m ints)))
  ints ++ others

def CTermCount : CTerm → Nat
  | .coeff c _ _ | .const c _ _ | .label c => c
  | .arg n _ _ _ => n
  | _ => 0

def isCoeff : CTerm → Bool | .coeff .. => true | _ => false
def isConst : CTerm → Bool | .const .. => true | _ => false
def isLabel : CTerm → Bool | .label _ => true | _ => false
def isArg : CTerm → Bool | .arg .. => true | _ => false

def ltCount (a b : CTerm) : Bool := CTermCount a < CTermCount b

/-- `terminal_numbering` for one counted class: the distinct objects sorted by count.  (Python sorts a *set*: objects
    with equal counts come in hash order; the model keeps first-occurrence order for them, see `CountsDistinct`.) -/
def classNumbering (p : CTerm → Bool) (f : CForm) : List CTerm :=
  sortS ltCount (dedupS eqTerm ((formTerms f).filter p))

/-- `extract_terminals_with_domain` raises for two different coefficients with one count and for two different
    arguments with one (number, part) -/
def clash (key : CTerm → CTerm → Bool) : List CTerm → Bool
  | [] => false
  | t :: ts => ts.any (fun u => key t u && !eqTerm t u) || clash key ts

def sameCount (a b : CTerm) : Bool := CTermCount a == CTermCount b
def sameNumberPart : CTerm → CTerm → Bool
  | .arg n p _ _, .arg n' p' _ _ => n == n' && p == p'
  | _, _ => false

def raises (f : CForm) : Bool :=
  clash sameCount ((formTerms f).filter isCoeff) || clash sameNumberPart ((formTerms f).filter isArg)

/-! ### `unique_pre_traversal` (the `visited` set is keyed by `==`) -/

def eqE (a b : CExpr) : Bool := CExpr.beq a b

def pushNew : List CExpr → List CExpr → List CExpr → List CExpr × List CExpr
  | [], stack, vis => (stack, vis)
  | c :: cs, stack, vis => if memB eqE c vis then pushNew cs stack vis else pushNew cs (c :: stack) (c :: vis)

def preLoop : Nat → List CExpr → List CExpr → List CExpr
  | 0, _, _ => []
  | _ + 1, [], _ => []
  | fuel + 1, t :: stack, vis =>
    let r := pushNew t.operands stack vis
    t :: preLoop fuel r.1 r.2

/-- `unique_pre_traversal(e)`: the last operand is visited first -/
def uniquePre (e : CExpr) : List CExpr := preLoop e.size [e] [e]

/-! ### index numbering (`compute_multiindex_hashdata`) -/

def addNew (acc : List Nat) (c : Nat) : List Nat := if acc.contains c then acc else acc ++ [c]

def seeIdx (acc : List Nat) : Idx → List Nat
  | .free c => addNew acc c
  | .fixed _ => acc

/-- numbers handed out while visiting one node; `zfix` = the repaired behaviour in which the free indices of a
    `Zero` are numbered like those of a multi-index -/
def seeNode (zfix : Bool) (acc : List Nat) : CExpr → List Nat
  | .mi is => is.foldl seeIdx acc
  | .zero _ f => if zfix then f.foldl (fun a p => addNew a p.1) acc else acc
  | _ => acc

/-- the index counts in the order `compute_terminal_hashdata` first meets them (one traversal per integrand, the
    numbering is shared) -/
def idxNumbering (zfix : Bool) (f : CForm) : List Nat :=
  (sortIntegrals f).foldl (fun acc i => (uniquePre i.integrand).foldl (seeNode zfix) acc) []

/-! ### signature data -/

structure Env where
  mesh : List MeshD
  coeff : List CTerm
  const : List CTerm
  label : List CTerm
  idx : List Nat
  zfix : Bool

def num : Option Nat → SigData
  | some k => .int k
  | none => .raw "KeyError"

def natsTup (xs : List Nat) : SigData := .tup (xs.map fun (n : Nat) => SigData.int (Int.ofNat n))

def sigMesh (env : Env) (m : MeshD) : SigData :=
  .tup [.str "Mesh", num (posOf eqMesh m env.mesh), .raw m.celem]

def sigSpace (env : Env) (sp : SpaceD) : SigData :=
  .tup [.str "FunctionSpace", sigMesh env sp.mesh, .str sp.elem, .str sp.label]

def sigIdx (env : Env) : Idx → SigData
  | .fixed v => .int v
  | .free c => match posOf (· == ·) c env.idx with
    | some k => .int (-((k : Int) + 1))
    | none => .raw "KeyError"

/-- `_ufl_signature_data_(renumbering)` per terminal class -/
def sigTerm (env : Env) : CTerm → SigData
  | .coeff c sp sh => .tup [.str "Coefficient", num (posOf eqTerm (.coeff c sp sh) env.coeff), sigSpace env sp]
  | .arg n p sp _ => .tup [.str "Argument", .int n, (if p < 0 then .none else .int p), sigSpace env sp]
  | .const c m sh => .fmt [.raw "Constant(", sigMesh env m, .raw ", ", natsTup sh, .raw ", ",      -- `{shape!r}`: printed as a tuple
      num (posOf eqTerm (.const c m sh) env.const), .raw ")"]
  | .geo c m _ => .tup [.str c, .str "Mesh", num (posOf eqMesh m env.mesh), .raw m.celem]
  | .label c => .tup [.str "Label", num (posOf eqTerm (.label c) env.label)]
  | .plain _ k _ => .str k

/-- hash data of a terminal node (`compute_terminal_hashdata`) -/
def sigLeaf (env : Env) : CExpr → SigData
  | .mi is => .tup (is.map (sigIdx env))
  | .term t => sigTerm env t
  | .zero sh f =>
    if env.zfix && !f.isEmpty then .tup [.str "Zero", natsTup sh, .tup (f.map fun p => .tup [sigIdx env (.free p.1), .int p.2])]
    else .str (Expr.reprOf (.zero sh f))                       -- the repr, with the raw index counts
  | e => .str (Expr.reprOf e.toExpr)                            -- ConstantValue: repr

mutual
/-- `compute_expression_hashdata`: the Merkle digest of a node -/
def sigE (env : Env) : CExpr → SigData
  | .op k _ args => .hash (.lst (.int (Expr.tcOfName k.name) :: sigL env args))
  | e => .hash (.lst [sigLeaf env e])
def sigL (env : Env) : List CExpr → List SigData
  | [] => []
  | a :: as => sigE env a :: sigL env as
end

def sigSub : SubId → SigData
  | .int v => .int v
  | .str s => .str s
  | .tup xs => .tup (xs.map .int)

mutual
/-- the canonicalised metadata is printed as it is: nested tuples of str -/
def sigCanon : FormModel.Canon → SigData
  | .s x => .str x
  | .t items => .tup (sigCanonL items)
def sigCanonL : List FormModel.Canon → List SigData
  | [] => []
  | a :: as => sigCanon a :: sigCanonL as
end

def sigMeta (md : FormModel.Canon) : SigData := sigCanon md

/-- a flat dict with str values, keys already sorted -/
def flatMeta (kv : List (String × String)) : FormModel.Canon := .t (kv.map fun p => .t [.s p.1, .s p.2])

def sigIntegral (env : Env) (i : CIntegral) : SigData :=
  .tup [sigE env i.integrand, sigMesh env i.mesh, .str i.itype, .tup [], sigSub i.sub, sigMeta i.metadata]

def envOf (zfix : Bool) (f : CForm) : Env :=
  { mesh := domainNumbering f, coeff := classNumbering isCoeff f, const := classNumbering isConst f,
    label := classNumbering isLabel f, idx := idxNumbering zfix f, zfix := zfix }

/-- the list whose `str` is hashed by `compute_form_signature`; `none` = the Python raises -/
def formData (zfix : Bool) (f : CForm) : Option SigData :=
  if raises f then none
  else some (.lst ((sortIntegrals f).map (sigIntegral (envOf zfix f))))

/-- `Form.signature()` of `Form(f)` as it is on the current tree -/
def signature (f : CForm) : Option SigData := (formData false f).map .hash

/-- with the repaired `Zero` hash data -/
def signatureZ (f : CForm) : Option SigData := (formData true f).map .hash

end Sig
end UflVerif
