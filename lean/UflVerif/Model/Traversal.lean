/-
Model of ufl/corealg/traversal.py (unique pre/post traversals, cut-off post traversal) and
ufl/corealg/map_dag.py (`map_expr_dags`).  Expressions are abstracted to labelled trees: a label
stands for everything a node carries besides its operands (type, terminal data), so structural
equality of trees is UFL's `==`/hash on expressions, which is what the `visited` sets and the
`vcache` dictionary key on.  Executable, core Lean only.
-/
namespace UflVerif.Trav

inductive Tree where
  | node (label : Nat) (children : List Tree)

mutual
def Tree.decEq : (a b : Tree) → Decidable (a = b)
  | .node l cs, .node l' cs' =>
    if h : l = l' then
      match Tree.decEqList cs cs' with
      | isTrue h2 => isTrue (by rw [h, h2])
      | isFalse h2 => isFalse (by intro e; cases e; exact h2 rfl)
    else isFalse (by intro e; cases e; exact h rfl)
def Tree.decEqList : (a b : List Tree) → Decidable (a = b)
  | [], [] => isTrue rfl
  | [], _ :: _ => isFalse (by simp)
  | _ :: _, [] => isFalse (by simp)
  | a :: as, b :: bs =>
    match Tree.decEq a b with
    | isTrue h1 =>
      match Tree.decEqList as bs with
      | isTrue h2 => isTrue (by rw [h1, h2])
      | isFalse h2 => isFalse (by intro e; cases e; exact h2 rfl)
    | isFalse h1 => isFalse (by intro e; cases e; exact h1 rfl)
end
instance : DecidableEq Tree := Tree.decEq

def Tree.label : Tree → Nat | .node l _ => l
def Tree.children : Tree → List Tree | .node _ cs => cs

mutual
def Tree.size : Tree → Nat
  | .node _ cs => 1 + Tree.sizeL cs
def Tree.sizeL : List Tree → Nat
  | [] => 0
  | c :: cs => c.size + Tree.sizeL cs
end

/- all subexpressions (with repetition), the node itself first -/
mutual
def subterms : Tree → List Tree
  | .node l cs => .node l cs :: subtermsL cs
def subtermsL : List Tree → List Tree
  | [] => []
  | c :: cs => subterms c ++ subtermsL cs
end

/-! ### `unique_post_traversal(expr, visited)` / `cutoff_unique_post_traversal`

`trav cut t vis` is called only for `t ∉ vis`; returns (yielded nodes in order, new visited set).
`travL` scans the operand list front to back (unique_post_traversal), `travLR` back to front
(the cut-off variant iterates over `reversed(expr.ufl_operands)`). -/
mutual
def trav (cut : Tree → Bool) (rev : Bool) : Tree → List Tree → List Tree × List Tree
  | .node l cs, vis =>
    if cut (.node l cs) then ([.node l cs], .node l cs :: vis)
    else
      let r := if rev then travLR cut rev cs vis else travL cut rev cs vis
      (r.1 ++ [.node l cs], .node l cs :: r.2)
def travL (cut : Tree → Bool) (rev : Bool) : List Tree → List Tree → List Tree × List Tree
  | [], vis => ([], vis)
  | c :: cs, vis =>
    if c ∈ vis then travL cut rev cs vis
    else
      let r1 := trav cut rev c vis
      let r2 := travL cut rev cs r1.2
      (r1.1 ++ r2.1, r2.2)
def travLR (cut : Tree → Bool) (rev : Bool) : List Tree → List Tree → List Tree × List Tree
  | [], vis => ([], vis)
  | c :: cs, vis =>
    let r2 := travLR cut rev cs vis
    if c ∈ r2.2 then r2
    else
      let r1 := trav cut rev c r2.2
      (r2.1 ++ r1.1, r1.2)
end

/-- `unique_post_traversal(expr)` -/
def uniquePost (t : Tree) : List Tree := (trav (fun _ => false) false t []).1
/-- `cutoff_unique_post_traversal(expr, cutofftypes)` -/
def cutoffUniquePost (cut : Tree → Bool) (t : Tree) : List Tree := (trav cut true t []).1

/-! ### `unique_pre_traversal`: the LIFO loop, one iteration per unit of fuel -/
def pushNew : List Tree → List Tree → List Tree → List Tree × List Tree
  | [], stack, vis => (stack, vis)
  | c :: cs, stack, vis => if c ∈ vis then pushNew cs stack vis else pushNew cs (c :: stack) (c :: vis)

def preLoop : Nat → List Tree → List Tree → List Tree
  | 0, _, _ => []
  | _ + 1, [], _ => []
  | fuel + 1, t :: stack, vis =>
    let r := pushNew t.children stack vis
    t :: preLoop fuel r.1 r.2

def uniquePre (t : Tree) : List Tree := preLoop t.size [t] [t]

/-! ### `map_expr_dags(function, [expression])` with empty caches -/
def lookup {R : Type} (vc : List (Tree × R)) (t : Tree) : Option R :=
  match vc.find? (fun p => p.1 == t) with
  | some p => some p.2
  | none => none

/-- one iteration of the loop body: `if v in vcache: continue`, else apply the handler to the
    cached results of the operands (or to the node alone for a cut-off type) and store it -/
def mapStep {R : Type} (cut : Tree → Bool) (h : Tree → List (Option R) → R)
    (vc : List (Tree × R)) (v : Tree) : List (Tree × R) :=
  match lookup vc v with
  | some _ => vc
  | none => (v, if cut v then h v [] else h v (v.children.map (lookup vc))) :: vc

def mapDag {R : Type} (cut : Tree → Bool) (anyCut : Bool) (h : Tree → List (Option R) → R) (t : Tree) : Option R :=
  let order := if anyCut then cutoffUniquePost cut t else uniquePost t
  lookup (order.foldl (mapStep cut h) []) t

/- the reference: apply the handler recursively to the tree -/
mutual
def mapTree {R : Type} (cut : Tree → Bool) (h : Tree → List (Option R) → R) : Tree → R
  | .node l cs => if cut (.node l cs) then h (.node l cs) [] else h (.node l cs) (mapTreeL cut h cs)
def mapTreeL {R : Type} (cut : Tree → Bool) (h : Tree → List (Option R) → R) : List Tree → List (Option R)
  | [] => []
  | c :: cs => some (mapTree cut h c) :: mapTreeL cut h cs
end

end UflVerif.Trav

/-! ### `DAGTraverser.__call__`: memoised open recursion with keyword context -/
namespace UflVerif.Trav

/-- keyword arguments in call order: the cache key is `(node, tuple(kwargs.items()))` -/
abbrev Ctx := List (String × Nat)

structure Rules (R : Type) where
  /-- context passed to operand i of a node processed under ctx -/
  ctxFor : Tree → Ctx → Nat → Ctx
  /-- the (post-order) rule: node, context, processed operands -/
  combine : Tree → Ctx → List R → R

abbrev Cache (R : Type) := List ((Tree × Ctx) × R)

def lookupK {R : Type} (c : Cache R) (k : Tree × Ctx) : Option R :=
  match c.find? (fun p => p.1 == k) with
  | some p => some p.2
  | none => none

mutual
def dagCall {R : Type} (ru : Rules R) : Tree → Ctx → Cache R → R × Cache R
  | .node l cs, ctx, cache =>
    match lookupK cache (.node l cs, ctx) with
    | some r => (r, cache)
    | none =>
      let p := dagCallL ru (.node l cs) ctx cs 0 cache
      let r := ru.combine (.node l cs) ctx p.1
      (r, ((.node l cs, ctx), r) :: p.2)
def dagCallL {R : Type} (ru : Rules R) (parent : Tree) (ctx : Ctx) : List Tree → Nat → Cache R → List R × Cache R
  | [], _, cache => ([], cache)
  | c :: cs, i, cache =>
    let p1 := dagCall ru c (ru.ctxFor parent ctx i) cache
    let p2 := dagCallL ru parent ctx cs (i + 1) p1.2
    (p1.1 :: p2.1, p2.2)
end

mutual
def dagTree {R : Type} (ru : Rules R) : Tree → Ctx → R
  | .node l cs, ctx => ru.combine (.node l cs) ctx (dagTreeL ru (.node l cs) ctx cs 0)
def dagTreeL {R : Type} (ru : Rules R) (parent : Tree) (ctx : Ctx) : List Tree → Nat → List R
  | [], _ => []
  | c :: cs, i => dagTree ru c (ru.ctxFor parent ctx i) :: dagTreeL ru parent ctx cs (i + 1)
end

/-! ### serialisation used by the correspondence driver -/
mutual
def Tree.str : Tree → String
  | .node l cs => "(" ++ toString l ++ Tree.strL cs ++ ")"
def Tree.strL : List Tree → String
  | [] => ""
  | c :: cs => " " ++ c.str ++ Tree.strL cs
end

/-- parse `(label child*)`; tokens are "(", ")" and numerals; fuel bounds the token count -/
def parseTree : Nat → List String → Option (Tree × List String)
  | 0, _ => none
  | fuel + 1, "(" :: l :: rest =>
    match l.toNat? with
    | none => none
    | some lab =>
      let rec kids (f : Nat) (ts : List String) (acc : List Tree) : Option (List Tree × List String) :=
        match f, ts with
        | 0, _ => none
        | _ + 1, ")" :: r => some (acc.reverse, r)
        | f' + 1, ts' => match parseTree fuel ts' with
          | some (c, r) => kids f' r (c :: acc)
          | none => none
      match kids (fuel + 1) rest [] with
      | some (cs, r) => some (.node lab cs, r)
      | none => none
  | _, _ => none

def tokenize (s : String) : List String :=
  ((s.replace "(" " ( ").replace ")" " ) ").splitOn " " |>.filter (· ≠ "")

def readTree (s : String) : Option Tree :=
  let ts := tokenize s
  match parseTree (ts.length + 1) ts with
  | some (t, []) => some t
  | _ => none

end UflVerif.Trav
