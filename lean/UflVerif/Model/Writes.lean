/-
C27  "Algorithms never mutate their inputs" — the model.

Heap-free formulation.  An object is a *value* that carries, besides its structure, the fields the
implementation may write after construction:

  * every expression node has a `_hash` memo slot                       (`ufl/core/expr.py`, `compute_expr_hash.py`)
  * every operator node has an operand tuple that `expr_equals` may replace by the operand tuple of
    an equal expression ("eagerly DAGify")                              (`ufl/exprequals.py`)
  * a `Form` has twelve memo slots filled on first request              (`ufl/form.py`)
  * integral metadata are dictionaries; `attach_estimated_degrees`, `apply_integral_scaling` and
    `Measure.__call__` build a new dictionary and write into that one   (`compute_form_data.py`,
    `apply_integral_scaling.py`, `measure.py`) — modelled with a small dictionary store so that
    "a new dictionary" means something.

A write to a node that is shared between several places of a DAG is the same write applied at every
path that leads to the node, so write kinds are functions on values applied at *positions*; the
theorems in `Props/C27.lean` are about arbitrary sequences of such positional writes.  `tag` / `otag`
(identity of the node / of its operand tuple) are labels used only by the correspondence driver; no
observer looks at them.

Core Lean only.
-/

namespace UflVerif.Writes

/-! ## 1. Expressions -/

/-- what `repr` prints: type code, terminal payload (interned repr of a terminal), operands -/
inductive Tree where
  | node (tc : Nat) (payload : List Int) (ops : List Tree)
  deriving Inhabited

inductive Obj where
  | node (tag tc : Nat) (payload : List Int) (otag : Nat) (ops : List Obj) (memo : Option Int)
  deriving Inhabited

/-- CPython's `hash((typecode, *map(hash, operands)))` resp. `hash(repr(terminal))`: some function -/
abbrev HashFn := Nat → List Int → List Int → Int

namespace Tree

mutual
def beq : Tree → Tree → Bool
  | .node tc p ops, .node tc' p' ops' => tc == tc' && p == p' && beqL ops ops'
def beqL : List Tree → List Tree → Bool
  | [], [] => true
  | a :: as, b :: bs => beq a b && beqL as bs
  | _, _ => false
end

mutual
/-- the hash of a structure: `_ufl_compute_hash_` unfolded over the whole tree -/
def spec (H : HashFn) : Tree → Int
  | .node tc p ops => H tc p (specL H ops)
def specL (H : HashFn) : List Tree → List Int
  | [] => []
  | t :: ts => spec H t :: specL H ts
end

mutual
def size : Tree → Nat
  | .node _ _ ops => 1 + sizeL ops
def sizeL : List Tree → Nat
  | [] => 0
  | t :: ts => size t + sizeL ts
end

end Tree

namespace Obj

def tag : Obj → Nat | .node t _ _ _ _ _ => t
def tc : Obj → Nat | .node _ c _ _ _ _ => c
def payload : Obj → List Int | .node _ _ p _ _ _ => p
def otag : Obj → Nat | .node _ _ _ ot _ _ => ot
def ops : Obj → List Obj | .node _ _ _ _ os _ => os
def memo : Obj → Option Int | .node _ _ _ _ _ m => m

mutual
/-- the structure of an object: everything `repr` / `str` / `ufl_shape` / … read (memo slots erased) -/
def struct : Obj → Tree
  | .node _ tc p _ ops _ => .node tc p (structL ops)
def structL : List Obj → List Tree
  | [] => []
  | o :: os => struct o :: structL os
end

mutual
/-- the value `hash(o)` returns: the memo if present, else computed from the operands' `hash` -/
def hashOf (H : HashFn) : Obj → Int
  | .node _ _ _ _ _ (some v) => v
  | .node _ tc p _ ops none => H tc p (hashOfL H ops)
def hashOfL (H : HashFn) : List Obj → List Int
  | [] => []
  | o :: os => hashOf H o :: hashOfL H os
end

mutual
/-- memo invariant: every `_hash` slot is empty or holds the hash of the node's structure -/
def memoOK (H : HashFn) : Obj → Bool
  | .node _ tc p _ ops m =>
    (match m with
     | none => true
     | some v => v == H tc p (Tree.specL H (structL ops))) && memoOKL H ops
def memoOKL (H : HashFn) : List Obj → Bool
  | [] => true
  | o :: os => memoOK H o && memoOKL H os
end

mutual
/-- effect of `compute_expr_hash(o)` on `o`: post-order, nodes whose slot is filled are not entered -/
def fill (H : HashFn) : Obj → Obj
  | .node t tc p ot ops none =>
    .node t tc p ot (fillL H ops) (some (H tc p (hashOfL H (fillL H ops))))
  | .node t tc p ot ops (some v) => .node t tc p ot ops (some v)
def fillL (H : HashFn) : List Obj → List Obj
  | [] => []
  | o :: os => fill H o :: fillL H os
end

mutual
/-- effect of a traversal that puts every node into a set / dict (`unique_pre_traversal`, `map_expr_dag`,
    `extract_type`, …): `hash` is requested of every node, so every empty slot is filled — also below filled ones
    (a slot can be emptied again, see `resetWrite`) -/
def fillAll (H : HashFn) : Obj → Obj
  | .node t tc p ot ops m =>
    .node t tc p ot (fillAllL H ops)
      (some (match m with
        | some v => v
        | none => H tc p (hashOfL H (fillAllL H ops))))
def fillAllL (H : HashFn) : List Obj → List Obj
  | [] => []
  | o :: os => fillAll H o :: fillAllL H os
end

/-- WRITE KIND `memoReset`: `self._hash = None` in `Expr.__init__`, when Python runs `__init__` on an existing node
    that `__new__` returned instead of allocating one (`Sum(s, Zero)` returns `s`, …) and the class's `__init__`
    only calls `Operator.__init__(self)` -/
def resetWrite : Obj → Obj
  | .node t tc p ot ops _ => .node t tc p ot ops none

/-- NOT a harmless kind: `__init__` re-run on an existing node with new operands (`Operator.__init__(self, ops)`):
    what `Determinant(d)` does to a scalar `d = det(B)`, what `Action(A, v)` does to an existing `Action` -/
def reinitWrite (ot : Nat) (ops : List Obj) : Obj → Obj
  | .node t tc p _ _ _ => .node t tc p ot ops none

/-- WRITE KIND `memoHash`: `expr._hash = expr._ufl_compute_hash_()` under `if expr._hash is None` -/
def memoWrite (H : HashFn) : Obj → Obj
  | .node t tc p ot ops none => .node t tc p ot ops (some (H tc p (hashOfL H ops)))
  | o => o

/-- the test `expr_equals(a, b)` performs before it writes (`hash` values as currently readable) -/
def equalsTest (H : HashFn) (a b : Obj) : Bool :=
  a.tc == b.tc && hashOf H a == hashOf H b && Tree.beq (struct a) (struct b)

/-- WRITE KIND `operandShare`: `self.ufl_operands = other.ufl_operands` at the end of a successful
    `expr_equals(self, other)` -/
def shareWrite (H : HashFn) (b : Obj) (a : Obj) : Obj :=
  if equalsTest H a b then
    match a with
    | .node t tc p _ _ m => .node t tc p b.otag b.ops m
  else a

/-- outcome and effect of `a == b` for operator nodes (`expr_equals`): both hashes are requested only
    when the types agree; no write when the objects or their operand tuples are identical -/
def eqOp (H : HashFn) (a b : Obj) : Bool × Obj × Obj :=
  if a.tc != b.tc then (false, a, b)
  else
    let a' := fill H a
    let b' := fill H b
    if hashOf H a' != hashOf H b' then (false, a', b')
    else if a.tag == b.tag || a.otag == b.otag then (true, a', b')
    else if Tree.beq (struct a') (struct b') then (true, shareWrite H b' a', b')
    else (false, a', b')

/-- the first phase of `a == b`: the two `hash` requests (made only when the types agree).  `eqOp` includes this
    phase; the driver applies it separately so that the nodes below `a`'s *old* operand tuple, which are no longer
    part of `a` after a successful comparison, keep the hash that was written to them. -/
def eqFill (H : HashFn) (a b : Obj) : Obj × Obj :=
  if a.tc != b.tc then (a, b) else (fill H a, fill H b)

mutual
/-- apply a node-local write at a position (path of operand numbers); out-of-range paths do nothing -/
def modifyAt (f : Obj → Obj) : List Nat → Obj → Obj
  | [], o => f o
  | i :: p, .node t tc pl ot ops m => .node t tc pl ot (modifyAtL f i p ops) m
def modifyAtL (f : Obj → Obj) : Nat → List Nat → List Obj → List Obj
  | _, _, [] => []
  | 0, p, o :: os => modifyAt f p o :: os
  | i + 1, p, o :: os => o :: modifyAtL f i p os
end

mutual
def getAt : List Nat → Obj → Option Obj
  | [], o => some o
  | i :: p, .node _ _ _ _ ops _ => getAtL i p ops
def getAtL : Nat → List Nat → List Obj → Option Obj
  | _, _, [] => none
  | 0, p, o :: _ => getAt p o
  | i + 1, p, _ :: os => getAtL i p os
end

end Obj

/-! ## 2. Forms -/

/-- memo slots of `ufl.form.Form` that are written after `__init__` -/
inductive FField
  | arguments | coefficients | geometricQuantities | integrationDomains | domainNumbering
  | subdomainData | coefficientNumbering | constantNumbering | terminalNumbering
  | baseFormOperators | hash | signature
  deriving DecidableEq, Repr, Inhabited

def FField.all : List FField :=
  [.arguments, .coefficients, .geometricQuantities, .integrationDomains, .domainNumbering,
   .subdomainData, .coefficientNumbering, .constantNumbering, .terminalNumbering,
   .baseFormOperators, .hash, .signature]

/-- Python attribute name of a slot (the names the write monitor logs) -/
def FField.attr : FField → String
  | .arguments => "_arguments" | .coefficients => "_coefficients"
  | .geometricQuantities => "_geometric_quantities" | .integrationDomains => "_integration_domains"
  | .domainNumbering => "_domain_numbering" | .subdomainData => "_subdomain_data"
  | .coefficientNumbering => "_coefficient_numbering" | .constantNumbering => "_constant_numbering"
  | .terminalNumbering => "_terminal_numbering" | .baseFormOperators => "_base_form_operators"
  | .hash => "_hash" | .signature => "_signature"

abbrev Val := List Int

/-- an integral: integrand, the data `Integral.__eq__` compares before the integrand (integral type,
    domain, subdomain id), the data it compares after it (subdomain data, extra domain map), metadata -/
structure IntegralObj where
  tag : Nat
  integrand : Obj
  pre : List Int
  post : List Int
  md : List (Int × Int)
  deriving Inhabited

structure IntegralT where
  integrand : Tree
  pre : List Int
  post : List Int
  md : List (Int × Int)
  deriving Inhabited

def IntegralT.beq (a b : IntegralT) : Bool :=
  Tree.beq a.integrand b.integrand && a.pre == b.pre && a.post == b.post && a.md == b.md

def IntegralObj.struct (i : IntegralObj) : IntegralT :=
  { integrand := i.integrand.struct, pre := i.pre, post := i.post, md := i.md }

abbrev FormT := List IntegralT

structure FormObj where
  tag : Nat
  integrals : List IntegralObj
  memo : FField → Option Val

def FormObj.struct (F : FormObj) : FormT := F.integrals.map IntegralObj.struct

/-- the pure computations the memo slots cache (`extract_terminals_with_domain`, `sort_domains ∘
    join_domains`, `compute_form_signature`, …): only that they are functions of their arguments is
    used.  `H` is the expression hash. -/
structure Pure where
  H : HashFn
  ihash : Int → List Int → List Int → Int          -- Integral.__hash__ (metadata is not hashed)
  fhash : List Int → Val                           -- hash(tuple(hash(itg) …))
  args : FormT → Val
  coeffs : FormT → Val
  gq : FormT → Val
  bfo : FormT → Val
  tn : FormT → Val
  idom : FormT → Val
  dnum : FormT → Val → Val → Val → Val             -- reads arguments(), coefficients(), geometric_quantities()
  sdata : FormT → Val → Val                        -- reads ufl_domains()
  filtC : Val → Val                                -- {e: n for e, n in terminal_numbering().items() if Coefficient}
  filtK : Val → Val
  sig : FormT → Val → Val → Val                    -- reads domain_numbering(), terminal_numbering()

namespace Pure

def ihashT (K : Pure) (i : IntegralT) : Int := K.ihash (Tree.spec K.H i.integrand) i.pre i.post

/-- the value each slot holds once filled, as a function of the form's structure -/
def spec (K : Pure) (s : FormT) : FField → Val
  | .arguments => K.args s
  | .coefficients => K.coeffs s
  | .geometricQuantities => K.gq s
  | .baseFormOperators => K.bfo s
  | .terminalNumbering => K.tn s
  | .coefficientNumbering => K.filtC (K.tn s)
  | .constantNumbering => K.filtK (K.tn s)
  | .integrationDomains => K.idom s
  | .domainNumbering => K.dnum s (K.args s) (K.coeffs s) (K.gq s)
  | .subdomainData => K.sdata s (K.idom s)
  | .hash => K.fhash (s.map K.ihashT)
  | .signature => K.sig s (K.dnum s (K.args s) (K.coeffs s) (K.gq s)) (K.tn s)

end Pure

namespace FormObj

def setMemo (F : FormObj) (f : FField) (v : Val) : FormObj :=
  { F with memo := fun g => if g = f then some v else F.memo g }

/-- `_analyze_form_arguments` assigns `_arguments`, `_coefficients` and `_geometric_quantities` together, and
    only `_geometric_quantities` is left uninitialised by `__init__`: when one of the first two is filled, so
    is the third -/
def coupled (F : FormObj) : Bool :=
  (!(F.memo .arguments).isSome || (F.memo .geometricQuantities).isSome) &&
  (!(F.memo .coefficients).isSome || (F.memo .geometricQuantities).isSome)

/-- memo invariant of a form: every filled slot holds the value of its structure, the three slots of
    `_analyze_form_arguments` are coupled, and every integrand satisfies the expression memo invariant -/
def memoOK (K : Pure) (F : FormObj) : Bool :=
  FField.all.all (fun f => match F.memo f with
    | none => true
    | some v => v == K.spec F.struct f)
  && F.coupled
  && F.integrals.all (fun i => i.integrand.memoOK K.H)

/-- `hash(integral)` for every integral: `compute_expr_hash` on each integrand -/
def fillIntegrands (K : Pure) (F : FormObj) : FormObj :=
  { F with integrals := F.integrals.map fun i => { i with integrand := i.integrand.fill K.H } }

/-- traversals that put every node of every integrand into a set / dict request every node's hash -/
def touchIntegrands (K : Pure) (F : FormObj) : FormObj :=
  { F with integrals := F.integrals.map fun i => { i with integrand := i.integrand.fillAll K.H } }

/-- what `f()` returns when the slot is filled -/
def read (F : FormObj) (f : FField) : Val := (F.memo f).getD []

/-- `_analyze_form_arguments` -/
def analyzeFormArguments (K : Pure) (F : FormObj) : FormObj :=
  let F := touchIntegrands K F
  let s := F.struct
  ((F.setMemo .arguments (K.args s)).setMemo .coefficients (K.coeffs s)).setMemo .geometricQuantities (K.gq s)

/-- `arguments()`, `coefficients()`: `if self._X is None: self._analyze_form_arguments()`.
    `geometric_quantities()` has the same body but its slot is not initialised by `__init__`: on a form
    whose arguments were never analysed it raises AttributeError (modelled by `none`, no write). -/
def accArgLike (K : Pure) (f : FField) (F : FormObj) : Option Val × FormObj :=
  match F.memo f with
  | some v => (some v, F)
  | none =>
    if f = .geometricQuantities then (none, F)
    else let F' := analyzeFormArguments K F; (some (F'.read f), F')

/-- `_analyze_domains`: writes `_integration_domains`, then reads arguments(), coefficients(),
    geometric_quantities(), then writes `_domain_numbering` -/
def analyzeDomains (K : Pure) (F : FormObj) : FormObj :=
  let F1 := F.setMemo .integrationDomains (K.idom F.struct)
  let (a, F2) := accArgLike K .arguments F1
  let (c, F3) := accArgLike K .coefficients F2
  let (g, F4) := accArgLike K .geometricQuantities F3
  F4.setMemo .domainNumbering (K.dnum F4.struct (a.getD []) (c.getD []) (g.getD []))

def accDomainLike (K : Pure) (f : FField) (F : FormObj) : Val × FormObj :=
  match F.memo f with
  | some v => (v, F)
  | none => let F' := analyzeDomains K F; (F'.read f, F')

def accSubdomainData (K : Pure) (F : FormObj) : Val × FormObj :=
  match F.memo .subdomainData with
  | some v => (v, F)
  | none =>
    let (d, F1) := accDomainLike K .integrationDomains F
    let v := K.sdata F1.struct d
    (v, F1.setMemo .subdomainData v)

def accTerminalNumbering (K : Pure) (F : FormObj) : Val × FormObj :=
  match F.memo .terminalNumbering with
  | some v => (v, F)
  | none =>
    let F1 := touchIntegrands K F
    let v := K.tn F1.struct
    (v, F1.setMemo .terminalNumbering v)

def accFiltered (K : Pure) (f : FField) (filt : Val → Val) (F : FormObj) : Val × FormObj :=
  match F.memo f with
  | some v => (v, F)
  | none =>
    let (t, F1) := accTerminalNumbering K F
    let v := filt t
    (v, F1.setMemo f v)

def accBaseFormOperators (K : Pure) (F : FormObj) : Val × FormObj :=
  match F.memo .baseFormOperators with
  | some v => (v, F)
  | none =>
    let F1 := touchIntegrands K F
    let v := K.bfo F1.struct
    (v, F1.setMemo .baseFormOperators v)

def ihashO (K : Pure) (i : IntegralObj) : Int := K.ihash (i.integrand.hashOf K.H) i.pre i.post

/-- `Form.__hash__` -/
def accHash (K : Pure) (F : FormObj) : Val × FormObj :=
  match F.memo .hash with
  | some v => (v, F)
  | none =>
    let F1 := fillIntegrands K F
    let v := K.fhash (F1.integrals.map (ihashO K))
    (v, F1.setMemo .hash v)

/-- `signature()`: `_compute_renumbering` reads domain_numbering() and terminal_numbering() -/
def accSignature (K : Pure) (F : FormObj) : Val × FormObj :=
  match F.memo .signature with
  | some v => (v, F)
  | none =>
    let (dn, F1) := accDomainLike K .domainNumbering F
    let (tn, F2) := accTerminalNumbering K F1
    let F3 := touchIntegrands K F2
    let v := K.sig F3.struct dn tn
    (v, F3.setMemo .signature v)

/-- the accessor of a slot (value `none` only for the uninitialised `geometric_quantities()`) -/
def acc (K : Pure) (f : FField) (F : FormObj) : Option Val × FormObj :=
  match f with
  | .arguments | .coefficients | .geometricQuantities => accArgLike K f F
  | .integrationDomains | .domainNumbering => let r := accDomainLike K f F; (some r.1, r.2)
  | .subdomainData => let r := accSubdomainData K F; (some r.1, r.2)
  | .terminalNumbering => let r := accTerminalNumbering K F; (some r.1, r.2)
  | .coefficientNumbering => let r := accFiltered K f K.filtC F; (some r.1, r.2)
  | .constantNumbering => let r := accFiltered K f K.filtK F; (some r.1, r.2)
  | .baseFormOperators => let r := accBaseFormOperators K F; (some r.1, r.2)
  | .hash => let r := accHash K F; (some r.1, r.2)
  | .signature => let r := accSignature K F; (some r.1, r.2)

/-- WRITE KIND `memoForm f`: `self._f = <value computed from the form>` under `if self._f is None`; the three
    slots of `_analyze_form_arguments` are assigned together -/
def memoWrite (K : Pure) (f : FField) (F : FormObj) : FormObj :=
  match F.memo f with
  | some _ => F
  | none =>
    let s := F.struct
    match f with
    | .arguments | .coefficients | .geometricQuantities =>
      ((F.setMemo .arguments (K.args s)).setMemo .coefficients (K.coeffs s)).setMemo .geometricQuantities (K.gq s)
    | _ => F.setMemo f (K.spec s f)

/-- an expression-level write applied to the integrand of integral number `k` -/
def onIntegrand (k : Nat) (w : Obj → Obj) (F : FormObj) : FormObj :=
  { F with integrals := F.integrals.modify k fun i => { i with integrand := w i.integrand } }

/-- the loop `all(a == b for a, b in zip(self._integrals, other._integrals))` of `Form.equals`, with
    `Integral.__eq__`'s short-circuit order; returns the outcome and the integrals of both forms -/
def eqIntegrals (K : Pure) : List IntegralObj → List IntegralObj → Bool × List IntegralObj × List IntegralObj
  | a :: as, b :: bs =>
    if a.pre != b.pre then (false, a :: as, b :: bs)
    else
      let (r, ia, ib) := Obj.eqOp K.H a.integrand b.integrand
      let a' := { a with integrand := ia }
      let b' := { b with integrand := ib }
      if !r || a.md != b.md || a.post != b.post then (false, a' :: as, b' :: bs)
      else
        let (r', as', bs') := eqIntegrals K as bs
        (r', a' :: as', b' :: bs')
  | as, bs => (true, as, bs)

/-- `Form.equals(F, G)` (also reached through `bool(F == G)`, `F != G`) -/
def equals (K : Pure) (F G : FormObj) : Bool × FormObj × FormObj :=
  if F.integrals.length != G.integrals.length then (false, F, G)
  else
    let (hF, F1) := accHash K F
    let (hG, G1) := accHash K G
    if hF != hG then (false, F1, G1)
    else
      let (r, is, js) := eqIntegrals K F1.integrals G1.integrals
      (r, { F1 with integrals := is }, { G1 with integrals := js })

/-- the first phase of `F.equals(G)`: the two `hash` requests (made only when the numbers of integrals agree) -/
def equalsHash (K : Pure) (F G : FormObj) : FormObj × FormObj :=
  if F.integrals.length != G.integrals.length then (F, G) else ((accHash K F).2, (accHash K G).2)

end FormObj

/-! ## 3. Metadata dictionaries (a small store, so that "a new dictionary" means something) -/

abbrev Dict := List (Int × Int)
abbrev Store := List Dict

def Dict.set (d : Dict) (k v : Int) : Dict :=
  match d with
  | [] => [(k, v)]
  | (k', v') :: r => if k' = k then (k, v) :: r else (k', v') :: Dict.set r k v

def Dict.get? (d : Dict) (k : Int) : Option Int := (d.find? (·.1 == k)).map (·.2)

/-- `d.update(e)` -/
def Dict.update (d e : Dict) : Dict := e.foldl (fun acc kv => Dict.set acc kv.1 kv.2) d

def Store.get (σ : Store) (a : Nat) : Dict := List.getD σ a []

/-- `md = {}` : allocate -/
def Store.alloc (σ : Store) (d : Dict) : Nat × Store := (List.length σ, σ ++ [d])

/-- `md[k] = v` on the dictionary at address `a` -/
def Store.setItem (σ : Store) (a : Nat) (k v : Int) : Store := List.modify σ a (fun d => Dict.set d k v)

/-- `md.update(e)` on the dictionary at address `a` -/
def Store.updateFrom (σ : Store) (a : Nat) (e : Dict) : Store := List.modify σ a (fun d => Dict.update d e)

/-- an integral as far as metadata handling is concerned: integrand (opaque) and the *address* of its
    metadata dictionary -/
structure IntegralM where
  integrand : Int
  md : Nat
  deriving DecidableEq, Repr, Inhabited

/-- key of `"estimated_polynomial_degree"` / `"quadrature_degree"` / `"quadrature_rule"` -/
def kEst : Int := 0
def kDeg : Int := 1
def kRule : Int := 2

/-- `attach_estimated_degrees`, one integral:
      md = {}; md.update(integral.metadata()); md[est] = degree; integral.reconstruct(metadata=md) -/
def attachOne (deg : Int → Int) (i : IntegralM) (σ : Store) : IntegralM × Store :=
  let (a, σ1) := Store.alloc σ []
  let σ2 := Store.updateFrom σ1 a (Store.get σ1 i.md)
  let σ3 := Store.setItem σ2 a kEst (deg i.integrand)
  ({ i with md := a }, σ3)

def attachDegrees (deg : Int → Int) : List IntegralM → Store → List IntegralM × Store
  | [], σ => ([], σ)
  | i :: is, σ =>
    let (i', σ1) := attachOne deg i σ
    let (is', σ2) := attachDegrees deg is σ1
    (i' :: is', σ2)

/-- `apply_integral_scaling`, one integral (scalar degrees): the new degree is added to the current
    estimate if there is one -/
def scaleOne (scale : Int → Int × Int) (i : IntegralM) (σ : Store) : IntegralM × Store :=
  let (a, σ1) := Store.alloc σ []
  let σ2 := Store.updateFrom σ1 a (Store.get σ1 i.md)
  let (newIntegrand, degree) := scale i.integrand
  let newDeg := match Dict.get? (Store.get σ2 a) kEst with
    | some cur => cur + degree
    | none => degree
  let σ3 := Store.setItem σ2 a kEst newDeg
  ({ integrand := newIntegrand, md := a }, σ3)

def scaleIntegrals (scale : Int → Int × Int) : List IntegralM → Store → List IntegralM × Store
  | [], σ => ([], σ)
  | i :: is, σ =>
    let (i', σ1) := scaleOne scale i σ
    let (is', σ2) := scaleIntegrals scale is σ1
    (i' :: is', σ2)

/-- the mutant the theorem must exclude: `md = integral.metadata(); md[est] = degree` (no copy) -/
def attachOneInPlace (deg : Int → Int) (i : IntegralM) (σ : Store) : IntegralM × Store :=
  (i, Store.setItem σ i.md kEst (deg i.integrand))

/-- `Measure.__call__`, the part that handles `degree=` / `scheme=`:
      if (degree, scheme) != (None, None):
          metadata = {} if metadata is None else metadata.copy()
          if degree is not None: metadata["quadrature_degree"] = degree
          if scheme is not None: metadata["quadrature_rule"] = scheme                                   -/
def injectDegree (metadata : Option Nat) (degree scheme : Option Int) (σ : Store) : Option Nat × Store :=
  if degree.isSome || scheme.isSome then
    let (a, σ1) := Store.alloc σ (match metadata with | none => [] | some b => Store.get σ b)
    let σ2 := match degree with | some d => Store.setItem σ1 a kDeg d | none => σ1
    let σ3 := match scheme with | some s => Store.setItem σ2 a kRule s | none => σ2
    (some a, σ3)
  else (metadata, σ)

/-- `Measure.reconstruct` (`if metadata is None: metadata = self.metadata()`) followed by `Measure.__init__`
    (`self._metadata = metadata or {}`: an empty dictionary is replaced by a new empty one); returns the address
    of the new measure's metadata -/
def measureInit (own : Nat) (metadata : Option Nat) (σ : Store) : Nat × Store :=
  if (Store.get σ (metadata.getD own)).isEmpty then Store.alloc σ [] else (metadata.getD own, σ)

/-- `Measure.__call__(metadata=…, degree=…, scheme=…)` -/
def measureCall (own : Nat) (metadata : Option Nat) (degree scheme : Option Int) (σ : Store) : Nat × Store :=
  let (m, σ1) := injectDegree metadata degree scheme σ
  measureInit own m σ1

/-! ## 3b. A concrete instance (used by the driver and by the non-vacuity examples) -/

/-- a concrete hash function (polynomial mixing); any function would do -/
def stdH : HashFn := fun tc p hs =>
  (p ++ hs).foldl (fun acc x => (acc * 1000003 + x) % 2305843009213693951) (Int.ofNat tc + 17)

def mixL (xs : List Int) : Int := xs.foldl (fun acc x => (acc * 31 + x) % 1000000007) 7

mutual
def Tree.code : Tree → List Int
  | .node tc p ops => (Int.ofNat tc) :: (Int.ofNat p.length) :: p ++ ((Int.ofNat (Tree.sizeL ops)) :: Tree.codeL ops)
def Tree.codeL : List Tree → List Int
  | [] => []
  | t :: ts => Tree.code t ++ Tree.codeL ts
end

def IntegralT.code (i : IntegralT) : List Int :=
  Tree.code i.integrand ++ i.pre ++ i.post ++ i.md.flatMap (fun kv => [kv.1, kv.2])

/-- stand-ins for the pure analyses: each a (different) function of its inputs -/
def stdPure : Pure where
  H := stdH
  ihash := fun h pre post => mixL (h :: pre ++ post)
  fhash := fun hs => [mixL hs]
  args := fun s => [mixL (1 :: s.flatMap IntegralT.code)]
  coeffs := fun s => [mixL (2 :: s.flatMap IntegralT.code)]
  gq := fun s => [mixL (3 :: s.flatMap IntegralT.code)]
  bfo := fun s => [mixL (4 :: s.flatMap IntegralT.code)]
  tn := fun s => [mixL (5 :: s.flatMap IntegralT.code)]
  idom := fun s => [mixL (6 :: s.flatMap (·.pre))]
  dnum := fun s a c g => [mixL (7 :: s.flatMap (·.pre) ++ a ++ c ++ g)]
  sdata := fun s d => [mixL (8 :: s.flatMap (·.post) ++ d)]
  filtC := fun t => 9 :: t
  filtK := fun t => 10 :: t
  sig := fun s d t => [mixL (11 :: s.flatMap IntegralT.code ++ d ++ t)]

/-! ## 4. Write sites (the translator's classification, see harness/translate/writes.py) -/

inductive SiteKind
  | importTime                                   -- module / class body statement: runs at import
  | localFresh                                   -- target created in the same function activation
  | initSelf                                     -- `self.…` inside a constructor: the object under construction
  | algState                                     -- `self.…` of an algorithm / traverser / formatter instance
  | guardedSelf (cls field : String)             -- `self.F = v` under `if self.F is None` (memo discipline)
  | memoHash                                     -- `expr._hash = …` under `if expr._hash is None`
  | operandShare                                 -- `self.ufl_operands = other.ufl_operands` in expr_equals
  | classObject                                  -- attribute of a class object inside a type decorator
  | moduleGlobal (name : String)                 -- class-level / module-level registry or cache
  | nonFresh (root : String)                     -- parameter / loop variable / call result: may pre-exist
  | nameAug (root : String)                      -- `x op= v` on a name not known to be fresh
  | unguardedSelf (cls field : String)           -- `self.F = v` on a data object, no guard, not a constructor
  | dataSelfStore (what : String)                -- store into a container held by a data object
  | globalRebind (name : String)
  | elemOfFresh
  | unclassified
  deriving DecidableEq, Repr, Inhabited

structure Site where
  file : String
  func : String
  written : String
  op : String
  field : String
  kind : SiteKind
  count : Nat
  deriving DecidableEq, Repr, Inhabited

/-- memo slots (class, attribute) the model covers: `Form`'s twelve and the `_arguments / _coefficients /
    _domains / _hash` slots of the other `BaseForm` classes, which follow the same discipline -/
def memoSlots : List (String × String) :=
  (FField.all.map fun f => ("Form", f.attr)) ++
  (["Action", "Adjoint", "Matrix", "FormSum", "ZeroBaseForm", "Coargument", "Cofunction",
    "BaseFormOperator", "BaseFormDerivative"].flatMap fun c =>
      ["_arguments", "_coefficients", "_domains", "_hash"].map fun a => (c, a)) ++
  -- written by `FormSum._sum_variational_components`, which is called from `FormSum.__init__` only
  [("FormSum", "_components"), ("FormSum", "_weights")]

/-- class-level registries / caches; none of them is an expression, form, integral or measure -/
def registries : List String :=
  ["Zero", "IntValue", "FixedIndex", "MultiIndex",          -- interning caches of immutable terminals
   "MultiFunction", "Transformer",                         -- handler tables per algorithm class (C20)
   "Expr", "UFLType", "core",                              -- type registration, profiling counters
   "integral_type_to_measure_name", "measure_name_to_integral_type",
   "list"]                                                 -- `list.append(self, o)` in utils/stacks.py

def SiteKind.harmless : SiteKind → Bool
  | .importTime | .localFresh | .initSelf | .algState | .classObject => true
  | .memoHash | .operandShare => true                      -- C27_memoWrite_*, C27_shareWrite_*
  | .guardedSelf c f => memoSlots.contains (c, f)          -- C27_form_memoWrite_*
  | .moduleGlobal n => registries.contains n
  | _ => false

end UflVerif.Writes
