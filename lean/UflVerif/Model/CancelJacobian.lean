/-
Model of ufl/algorithms/cancel_jacobian_products.py (C09):
  * `leaves` / `makeProduct`          — `_flatten_product` / `_make_product`
  * `cancelF` / `indexSumF`           — `IndexSumSimplifier._cancel` / `._index_sum` (fuel = recursion depth)
  * `jcMatch` (`deltaPair`)           — `JacobianCanceller.match` (`_delta_cancellation`)
  * `ieMatch` (`identityIndex`)       — `IdentityEliminator.match` (`_identity_index`, `_substitute` = `replIdx`)
  * `simpWith`                        — the DAG traversal of an `IndexSumSimplifier` (operands first, `reuse_if_untouched`)
  * `asBaseExp`, `makePower`, `rcProduct`, `rcWith` — `ReciprocalCanceller`
  * `cancelJacobianProducts`          — the three traversals in sequence
Every node the Python builds through a class constructor is built through the modelled constructor
(`mkProduct`, `mkIndexSum`, `mkIndexed`, `mkDivision`, `mkPower`; `rebuild` for `_ufl_expr_reconstruct_`).
Results: `none` = the Python raises; `some none` (for `match`/`_cancel`) = the Python returns `None`.

`Guards` switches on the four local repairs proposed in fix_C09_*.diff; `Guards.current` (all off) is the
code as it is in /repo.  Exponent arithmetic (Python int/float) is exact rational arithmetic.
Core Lean only.
-/
import UflVerif.Model.IndexPasses

namespace UflVerif
namespace Expr

/-- the proposed repairs (all `false` = the code that exists) -/
structure Guards where
  /-- `_cancel`: do not move an `Indexed` factor under an inner sum that binds one of its free indices -/
  push : Bool
  /-- `IdentityEliminator.match`: do not substitute when the remaining factors bind `k` or the replacement index -/
  subst : Bool
  /-- `_as_base_exponent`: merge a nested power only through an integer outer exponent -/
  pow : Bool
  /-- `IdentityEliminator.match`: keep `sum_k Identity[a, k] * rest` when neither k nor the free index a occurs in `rest`
      (the result `rest` would no longer have the free index a) -/
  keep : Bool
  deriving DecidableEq, Repr, Inhabited

def Guards.current : Guards := ⟨false, false, false, false⟩
def Guards.repaired : Guards := ⟨true, true, true, true⟩

/-! ## products as factor lists -/

/-- `_flatten_product(expr, [])`: the factors of nested `Product` nodes, left to right -/
def leaves : Expr → List Expr
  | .op .product _ [a, b] => leaves a ++ leaves b
  | e => [e]

/-- the fold of `_make_product`: one `Product` constructor call -/
def mpStep (acc : Option Expr) (x : Expr) : Option Expr := bindU acc (fun r => mkProduct r x)

/-- `_make_product(factors)`: left fold through the `Product` constructor; the empty list is an IndexError.
    A factor the model could not build (the `unsupported` marker) makes the whole product unsupported. -/
def makeProduct : List Expr → Option Expr
  | [] => none
  | f :: fs => if (f :: fs).any isUnsupported then some unsupported else fs.foldl mpStep (some f)

/-! ## IndexSumSimplifier -/

/-- `match(with_k, rest, k)`: outer `none` = raises, `some none` = returns None -/
abbrev MatchFn := List Expr → List Expr → Nat → Option (Option Expr)

def hasK (k : Nat) (f : Expr) : Bool := FI.has k (fi f)

mutual
/-- `_cancel(factors, k)` -/
def cancelF (m : MatchFn) (g : Guards) : Nat → List Expr → Nat → Option (Option Expr)
  | 0, _, _ => none
  | fuel + 1, factors, k =>
    let withK := factors.filter (hasK k)
    let rest := factors.filter (fun f => !hasK k f)
    match m withK rest k with
    | none => none
    | some (some r) => some (some r)
    | some none =>
      match withK with
      | [.op .indexSum _ [summand, .mi [.free j]]] =>
        -- interchange sums: sum_k sum_j f(j, k) = sum_j sum_k f(j, k)
        (match cancelF m g fuel (leaves summand) k with
         | none => none
         | some none => some none
         | some (some inner) =>
           if isUnsupported inner then some (some unsupported)
           else
             (match indexSumF m g fuel inner j with
              | none => none
              | some s => (makeProduct (rest ++ [s])).map some))
      | [w0, w1] =>
        -- push an Indexed factor into an inner IndexSum: (f1, f2) = (w0, w1), then (w1, w0)
        (match pushF m g fuel rest w0 w1 k with
         | none => none
         | some (some r) => some (some r)
         | some none => pushF m g fuel rest w1 w0 k)
      | _ => some none
/-- one iteration of the loop over `(f1, f2)` in `_cancel` -/
def pushF (m : MatchFn) (g : Guards) : Nat → List Expr → Expr → Expr → Nat → Option (Option Expr)
  | 0, _, _, _, _ => none
  | fuel + 1, rest, f1, f2, k =>
    match f1, f2 with
    | .op .indexed _ _, .op .indexSum _ [summand, .mi [.free j]] =>
      if g.push && hasK j f1 then some none
      else
        (match cancelF m g fuel (f1 :: leaves summand) k with
         | none => none
         | some none => some none
         | some (some inner) =>
           if isUnsupported inner then some (some unsupported)
           else
             (match indexSumF m g fuel inner j with
              | none => none
              | some s => (makeProduct (rest ++ [s])).map some))
    | _, _ => some none
/-- `_index_sum(summand, k)` -/
def indexSumF (m : MatchFn) (g : Guards) : Nat → Expr → Nat → Option Expr
  | 0, _, _ => none
  | fuel + 1, summand, k =>
    match cancelF m g fuel (leaves summand) k with
    | none => none
    | some (some r) => some r
    | some none => mkIndexSum summand k
end

/-- recursion depth that `_cancel` can reach on a summand (two frames per nesting level of index sums) -/
def fuelFor (e : Expr) : Nat := 3 * e.size + 8

/-! ### JacobianCanceller -/

/-- `repr` of the domain of a geometric quantity: the key without the class name -/
def domKey (d : TermData) : String := (d.key.drop d.cls.length).toString

def identityTerm (n : Nat) : Expr :=
  .term { cls := "Identity", key := "Identity(" ++ toString n ++ ")", shape := [n, n] }

/-- one iteration of the loop in `_delta_cancellation`: `fa` must be an indexed JacobianInverse, `fb` an
    indexed Jacobian of the same domain -/
def deltaPair (fa fb : Expr) (k : Nat) : Option (Option Expr) :=
  match fa, fb with
  | .op .indexed _ [.term dA, .mi [a0, a1]], .op .indexed _ [.term dB, .mi [b0, b1]] =>
    if dA.cls == "JacobianInverse" && dB.cls == "Jacobian" && domKey dA == domKey dB then
      let tdim := dA.shape.getD 0 0
      let gdim := dA.shape.getD 1 0
      if a1 == .free k && b0 == .free k && a0 != .free k && b1 != .free k then
        -- sum_k K[a, k] * J[k, b] = Identity(tdim)[a, b]
        (mkIndexed (identityTerm tdim) [a0, b1]).map some
      else if b1 == .free k && a0 == .free k && b0 != .free k && a1 != .free k && gdim == tdim then
        -- sum_k J[a, k] * K[k, b] = Identity(gdim)[a, b]
        (mkIndexed (identityTerm gdim) [b0, a1]).map some
      else some none
    else some none
  | _, _ => some none

/-- `_delta_cancellation(f1, f2, k)` -/
def deltaCancel (f1 f2 : Expr) (k : Nat) : Option (Option Expr) :=
  match deltaPair f1 f2 k with
  | none => none
  | some (some r) => some (some r)
  | some none => deltaPair f2 f1 k

/-- `JacobianCanceller.match` -/
def jcMatch : MatchFn := fun withK rest k =>
  match withK with
  | [w0, w1] =>
    (match deltaCancel w0 w1 k with
     | none => none
     | some none => some none
     | some (some delta) => (makeProduct (rest ++ [delta])).map some)
  | _ => some none

/-! ### IdentityEliminator -/

/-- `_identity_index(f, k)` -/
def identityIndex (f : Expr) (k : Nat) : Option Idx :=
  match f with
  | .op .indexed _ [.term d, .mi [a, b]] =>
    if d.cls == "Identity" then
      if a == .free k && b != .free k then some b
      else if b == .free k && a != .free k then some a
      else none
    else none
  | _ => none

/-- first factor (with its position) that is a Kronecker delta in k -/
def findIdentity (k : Nat) : List Expr → Nat → Option (Nat × Idx)
  | [], _ => none
  | f :: fs, i => match identityIndex f k with
    | some a => some (i, a)
    | none => findIdentity k fs (i + 1)

/-- `IdentityEliminator.match` -/
def ieMatch (g : Guards) : MatchFn := fun withK rest k =>
  match findIdentity k withK 0 with
  | none => some none
  | some (i, a) =>
    let others := withK.take i ++ withK.drop (i + 1) ++ rest
    if others.isEmpty then some none
    else
      match makeProduct others with
      | none => none
      | some p =>
        if isUnsupported p then some (some unsupported)
        else if g.subst && (boundCounts p).any (fun c => c == k || a == .free c) then some none
        else if g.keep && (match a with
            | .free c => !FI.has k (fi p) && !FI.has c (fi p)
            | .fixed _ => false) then some none
        else if (match a with
            | .fixed _ => (boundCounts p).contains k
            | .free _ => false) then none     -- the binder (k,) of an inner IndexSum becomes a FixedIndex: IndexSum(...) raises
        else (replIdx [(k, a)] p).map some

/-! ### the traversal -/

/-- `isinstance(e, ConstantValue)` for what a pass can put under a restriction: literals, zeros, Identity -/
def isConstantValueC : Expr → Bool
  | .int _ | .real _ _ | .cplx _ _ _ _ | .zero _ _ => true
  | .term d => d.cls == "Identity"
  | _ => false

/-- `_ufl_expr_reconstruct_` as used by the traversals of this module: the class constructors of `rebuild`, and
    `Restricted.__new__`, which returns a ConstantValue operand as it is; the float folding of mathematical functions of
    literals is marked `unsupported` -/
def rebuildC (k : Op) (aux : List Nat) (args : List Expr) : Option Expr :=
  match k, args with
  | .positiveRestricted, [a] => if isConstantValueC a then some a else some (.op k aux [a])
  | .negativeRestricted, [a] => if isConstantValueC a then some a else some (.op k aux [a])
  | fnk, [a] =>
    -- the mathematical functions fold a literal argument into a float literal (`math.sqrt(float(argument))`): not modelled
    if (mathName fnk).isSome && (isScalarValue a || isZero a) then some unsupported else rebuild fnk aux [a]
  | _, _ => rebuild k aux args

mutual
/-- an `IndexSumSimplifier` applied through `map_expr_dag`-style memoised post-order traversal;
    `foldId` = the `Indexed` handler of `IdentityEliminator` -/
def simpWith (m : MatchFn) (g : Guards) (foldId : Bool) : Expr → Option Expr
  | .op k aux args =>
    match simpWithL m g foldId args with
    | none => none
    | some args' =>
      if args'.any isUnsupported then some unsupported
      else
        match k, args' with
        | .indexSum, [summand, .mi [.free j]] =>
          (match cancelF m g (fuelFor summand) (leaves summand) j with
           | none => none
           | some (some r) => some r
           | some none => if beqL args' args then some (.op k aux args) else mkIndexSum summand j)
        | .indexed, [.term d, .mi [.fixed a, .fixed b]] =>
          if foldId && d.cls == "Identity" then some (if a == b then .int 1 else .zero [] [])
          else if beqL args' args then some (.op k aux args) else rebuildC k aux args'
        | _, _ => if beqL args' args then some (.op k aux args) else rebuildC k aux args'
  | e => some e
def simpWithL (m : MatchFn) (g : Guards) (foldId : Bool) : List Expr → Option (List Expr)
  | [] => some []
  | a :: as => match simpWith m g foldId a, simpWithL m g foldId as with
    | some x, some xs => some (x :: xs)
    | _, _ => none
end

def jcWith (g : Guards) : Expr → Option Expr := simpWith jcMatch g false
def ieWith (g : Guards) : Expr → Option Expr := simpWith (ieMatch g) g true

/-! ## ReciprocalCanceller -/

/-- `_as_base_exponent(f)`; exponents are exact rationals -/
def asBaseExp (g : Guards) : Expr → Option (Expr × Rat)
  | .op .power _ [base, ex] =>
    (match litVal ex with
     | some (_, q) =>
       (match asBaseExp g base with
        | some (b, inner) =>
          -- (x**a)**q = x**(a*q) is only merged through an integer q when the guard is on
          if g.pow && q.den != 1 then some (base, q)
          else some (b, inner * q)
        | none => none)
     | none => none)
  | .op .division _ [num, den] =>
    (match litVal num with
     | some (_, q) =>
       if q = 1 then
         (match asBaseExp g den with
          | some (b, inner) => some (b, -inner)
          | none => none)
       else none
     | none => none)
  | f => some (f, 1)

/-- `as_ufl(exponent)` after `if exponent == int(exponent): exponent = int(exponent)` -/
def expLit (q : Rat) : Expr := mkLit (q.den == 1) q

/-- `_make_power(base, exponent)` -/
def makePower (base : Expr) (q : Rat) : Option Expr :=
  if q = 1 then some base
  else if q = -1 then mkDivision (.int 1) base
  else if q < 0 then bindU (mkPower base (expLit (-q))) (fun p => mkDivision (.int 1) p)
  else mkPower base (expLit q)

/-- exponents collected for a base, in factor order: `exponents[base]` -/
def expsOf (pairs : List (Option (Expr × Rat))) (b : Expr) : List Rat :=
  pairs.filterMap fun p => match p with
    | some (b', q) => if b' == b then some q else none
    | none => none

def isMixed (pairs : List (Option (Expr × Rat))) (b : Expr) : Bool :=
  (expsOf pairs b).any (fun q => decide (0 < q)) && (expsOf pairs b).any (fun q => decide (q < 0))

def netExp (pairs : List (Option (Expr × Rat))) (b : Expr) : Rat := (expsOf pairs b).foldl (· + ·) 0

/-- the loop building `parts`; `emitted` = bases already emitted -/
def rcParts (pairs : List (Option (Expr × Rat))) : List (Expr × Option (Expr × Rat)) → List Expr → Option (List Expr)
  | [], _ => some []
  | (f, p) :: fs, emitted =>
    match p with
    | some (b, _) =>
      if isMixed pairs b then
        if emitted.any (· == b) then rcParts pairs fs emitted
        else if netExp pairs b = 0 then rcParts pairs fs (b :: emitted)
        else
          (match makePower b (netExp pairs b), rcParts pairs fs (b :: emitted) with
           | some pw, some ps => some (pw :: ps)
           | _, _ => none)
      else (rcParts pairs fs emitted).map (f :: ·)
    | none => (rcParts pairs fs emitted).map (f :: ·)

/-- the `Product` handler of `ReciprocalCanceller` on the processed operands `a`, `b` of the node `o` -/
def rcProduct (g : Guards) (o : Expr) (orig : List Expr) (a b : Expr) : Option Expr :=
  let factors := leaves a ++ leaves b
  let pairs := factors.map (asBaseExp g)
  let keep : Option Expr := if beqL [a, b] orig then some o else mkProduct a b
  if !(pairs.any fun p => match p with | some (base, _) => isMixed pairs base | none => false) then keep
  else
    match rcParts pairs (factors.zip pairs) [] with
    | none => none
    | some parts =>
      let result : Option Expr := if parts.isEmpty then some (.int 1) else makeProduct parts
      match result with
      | none => none
      | some r =>
        if isUnsupported r then some unsupported
        else if (fi r).map (·.1) != (fi o).map (·.1) then keep
        else some r

mutual
def rcWith (g : Guards) : Expr → Option Expr
  | .op k aux args =>
    match rcWithL g args with
    | none => none
    | some args' =>
      if args'.any isUnsupported then some unsupported
      else
        match k, args' with
        | .product, [a, b] => rcProduct g (.op k aux args) args a b
        | _, _ => if beqL args' args then some (.op k aux args) else rebuildC k aux args'
  | e => some e
def rcWithL (g : Guards) : List Expr → Option (List Expr)
  | [] => some []
  | a :: as => match rcWith g a, rcWithL g as with
    | some x, some xs => some (x :: xs)
    | _, _ => none
end

/-! ## cancel_jacobian_products -/

def cancelWith (g : Guards) (e : Expr) : Option Expr :=
  bindU (jcWith g e) (fun e1 => bindU (ieWith g e1) (fun e2 => rcWith g e2))

/-- the pass as it is in /repo -/
def cancelJacobianProducts : Expr → Option Expr := cancelWith Guards.current

end Expr
end UflVerif
