/-
Model of type-based handler dispatch (ufl/corealg/multifunction.py `MultiFunction.__init__/__call__`,
ufl/algorithms/transformer.py `Transformer.__init__/visit`) with the per-class handler-table cache,
as a state machine over histories of: register a new type / instantiate an algorithm class / apply.
Executable, core Lean only.
-/
namespace UflVerif.Dispatch

/-- handler names along the MRO of a UFL type (own name first, `ufl_type` last) -/
abbrev Mro := List String

/-- an algorithm class: every handler name visible on its instances (own, inherited, base defaults) -/
structure Alg where
  name : String
  defined : List String
  deriving Repr, DecidableEq

/-- "the handler of the nearest ancestor type that defines one" -/
def resolve {α : Type} [BEq α] (defined : List α) (mro : List α) : Option α :=
  mro.find? (fun h => defined.contains h)

def buildTable (a : Alg) (types : List Mro) : List (Option String) :=
  types.map (resolve a.defined)

inductive Op
  | reg (t : Mro)              -- the ufl_type decorator registers a new type
  | inst (a : Nat)             -- an algorithm class is instantiated
  | apply (a : Nat) (t : Nat)  -- a fresh instance of class a is applied to an object of type t
  deriving Repr

inductive Out
  | ok
  | handler (h : String)
  | noHandler                  -- table slot is None: `getattr(self, None)` TypeError
  | indexError                 -- typecode beyond the table
  | badOp
  deriving Repr, DecidableEq

structure St where
  types : List Mro
  cache : List (Nat × List (Option String))   -- `_handlers_cache`: class ↦ table
  deriving Repr

def cacheGet (c : List (Nat × List (Option String))) (a : Nat) : Option (List (Option String)) :=
  match c.find? (fun p => p.1 == a) with
  | some p => some p.2
  | none => none

def cacheSet (c : List (Nat × List (Option String))) (a : Nat) (t : List (Option String)) :=
  (a, t) :: c.filter (fun p => p.1 != a)

/-- `__init__` (repaired code): use the cached table unless it is missing or stale -/
def instantiate (algs : List Alg) (s : St) (a : Nat) : Option (St × List (Option String)) :=
  match algs[a]? with
  | none => none
  | some alg =>
    match cacheGet s.cache a with
    | some tbl =>
      if tbl.length != s.types.length then
        let t := buildTable alg s.types
        some ({ s with cache := cacheSet s.cache a t }, t)
      else some (s, tbl)
    | none =>
      let t := buildTable alg s.types
      some ({ s with cache := cacheSet s.cache a t }, t)

/-- `__init__` as it was before the repair: a cached table is never rebuilt -/
def instantiateOld (algs : List Alg) (s : St) (a : Nat) : Option (St × List (Option String)) :=
  match algs[a]? with
  | none => none
  | some alg =>
    match cacheGet s.cache a with
    | some tbl => some (s, tbl)
    | none =>
      let t := buildTable alg s.types
      some ({ s with cache := cacheSet s.cache a t }, t)

def stepWith (inst : List Alg → St → Nat → Option (St × List (Option String)))
    (algs : List Alg) (s : St) : Op → St × Out
  | .reg t => ({ s with types := s.types ++ [t] }, .ok)
  | .inst a =>
    match inst algs s a with
    | none => (s, .badOp)
    | some (s', tbl) => if tbl.contains none then (s', .noHandler) else (s', .ok)
  | .apply a t =>
    match inst algs s a with
    | none => (s, .badOp)
    | some (s', tbl) =>
      if tbl.contains none then (s', .noHandler)
      else match tbl[t]? with
        | some (some h) => (s', .handler h)
        | some none => (s', .noHandler)
        | none => (s', .indexError)

def step := stepWith instantiate
def stepOld := stepWith instantiateOld

def run (algs : List Alg) (s : St) (ops : List Op) : St :=
  ops.foldl (fun s o => (step algs s o).1) s

def Out.str : Out → String
  | .ok => "ok" | .handler h => "handler:" ++ h | .noHandler => "error:TypeError"
  | .indexError => "error:IndexError" | .badOp => "badop"

end UflVerif.Dispatch
