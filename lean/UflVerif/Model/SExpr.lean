/-
S-expression wire format between the Python harness and the Lean drivers (DESIGN.md 3.2.1).
Atoms contain no spaces or parentheses: strings are percent-encoded by the harness.
-/
import UflVerif.Model.Syntax

namespace UflVerif

inductive SExp
  | atom (s : String)
  | list (xs : List SExp)
  deriving Repr, Inhabited

namespace SExp

def tokenize (s : String) : List String :=
  ((((s.replace "\n" " ").replace "\t" " ").replace "(" " ( ").replace ")" " ) ").splitOn " " |>.filter (· ≠ "")

/-- parse one S-expression from a token list; `fuel` bounds the recursion (≥ number of tokens) -/
def parse : Nat → List String → Option (SExp × List String)
  | 0, _ => none
  | _ + 1, [] => none
  | _ + 1, ")" :: _ => none
  | fuel + 1, "(" :: rest =>
    let rec items (f : Nat) (ts : List String) (acc : List SExp) : Option (List SExp × List String) :=
      match f, ts with
      | 0, _ => none
      | _ + 1, [] => none
      | _ + 1, ")" :: r => some (acc.reverse, r)
      | f' + 1, ts' => match parse fuel ts' with
        | some (x, r) => items f' r (x :: acc)
        | none => none
    match items (fuel + 1) rest [] with
    | some (xs, r) => some (.list xs, r)
    | none => none
  | _ + 1, a :: rest => some (.atom a, rest)

def read (s : String) : Option SExp :=
  let ts := tokenize s
  match parse (ts.length + 1) ts with
  | some (x, []) => some x
  | _ => none

mutual
def str : SExp → String
  | .atom s => s
  | .list xs => "(" ++ strL xs ++ ")"
def strL : List SExp → String
  | [] => ""
  | [x] => str x
  | x :: xs => str x ++ " " ++ strL xs
end

def hexVal (c : Char) : Nat :=
  if '0' ≤ c ∧ c ≤ '9' then c.toNat - '0'.toNat
  else if 'a' ≤ c ∧ c ≤ 'f' then c.toNat - 'a'.toNat + 10
  else if 'A' ≤ c ∧ c ≤ 'F' then c.toNat - 'A'.toNat + 10 else 0

/-- percent-decoding (`%XX` = code point < 256, `%uXXXXXX;` not used: the harness only emits ASCII reprs) -/
def decode (s : String) : String :=
  let rec go : List Char → List Char
    | '%' :: a :: b :: rest => Char.ofNat (hexVal a * 16 + hexVal b) :: go rest
    | c :: rest => c :: go rest
    | [] => []
  String.ofList (go s.toList)

def hexDigit (n : Nat) : Char := if n < 10 then Char.ofNat (n + '0'.toNat) else Char.ofNat (n - 10 + 'a'.toNat)

def encode (s : String) : String :=
  String.ofList (s.toList.flatMap fun c =>
    if c.isAlphanum || c == '_' || c == '.' || c == '-' then [c]
    else ['%', hexDigit (c.toNat / 16), hexDigit (c.toNat % 16)])

def toNat? : SExp → Option Nat
  | .atom s => s.toNat?
  | _ => none
def toInt? : SExp → Option Int
  | .atom s => s.toInt?
  | _ => none
def natList? : SExp → Option (List Nat)
  | .list xs => xs.mapM toNat?
  | _ => none

end SExp

/-! ### Expr <-> SExp -/
namespace Expr
open SExp

def idxOf : SExp → Option Idx
  | .list [.atom "F", v] => (toNat? v).map .fixed
  | .list [.atom "X", c] => (toNat? c).map .free
  | _ => none

def pairOf : SExp → Option (Nat × Nat)
  | .list [a, b] => do pure ((← toNat? a), (← toNat? b))
  | _ => none

/-- one entry of a flattened domain sort key: `(N int)` / `(S percent-encoded str)` -/
def atomOf : SExp → Option KeyAtom
  | .list [.atom "N", v] => (toInt? v).map .n
  | .list [.atom "S", .atom v] => some (.s (SExp.decode v))
  | .list [.atom "S"] => some (.s "")
  | _ => none

def atomS : KeyAtom → SExp
  | .n v => .list [.atom "N", .atom (toString v)]
  | .s v => if v = "" then .list [.atom "S"] else .list [.atom "S", .atom (SExp.encode v)]

mutual
def ofSExp : SExp → Option Expr
  | .list [.atom "I", v] => (toInt? v).map .int
  | .list [.atom "R", n, d] => do pure (.real (← toInt? n) (← toNat? d))
  | .list [.atom "C", a, b, c, d] => do pure (.cplx (← toInt? a) (← toNat? b) (← toInt? c) (← toNat? d))
  | .list [.atom "Z", sh, .list fi] => do pure (.zero (← natList? sh) (← fi.mapM pairOf))
  | .list (.atom "M" :: is) => (is.mapM idxOf).map .mi
  | .list [.atom "T", .atom cls, .atom key, sh, cnt, part] => do
      pure (.term { cls := cls, key := SExp.decode key, shape := (← natList? sh), count := (← toInt? cnt), part := (← toInt? part) })
  | .list [.atom "T", .atom cls, .atom key, sh, cnt, part, .list (.atom "K" :: dom)] => do
      pure (.term { cls := cls, key := SExp.decode key, shape := (← natList? sh), count := (← toInt? cnt), part := (← toInt? part),
                    dom := (← dom.mapM atomOf) })
  | .list (.atom "O" :: .atom name :: aux :: args) => do
      pure (.op (Op.ofName name) (← natList? aux) (← ofSExpL args))
  | _ => none
def ofSExpL : List SExp → Option (List Expr)
  | [] => some []
  | x :: xs => do pure ((← ofSExp x) :: (← ofSExpL xs))
end

def natsS (xs : List Nat) : SExp := .list (xs.map fun n => .atom (toString n))
def idxS : Idx → SExp
  | .fixed v => .list [.atom "F", .atom (toString v)]
  | .free c => .list [.atom "X", .atom (toString c)]

mutual
def toSExp : Expr → SExp
  | .int v => .list [.atom "I", .atom (toString v)]
  | .real n d => .list [.atom "R", .atom (toString n), .atom (toString d)]
  | .cplx a b c d => .list [.atom "C", .atom (toString a), .atom (toString b), .atom (toString c), .atom (toString d)]
  | .zero sh fi => .list [.atom "Z", natsS sh, .list (fi.map fun p => .list [.atom (toString p.1), .atom (toString p.2)])]
  | .mi is => .list (.atom "M" :: is.map idxS)
  | .term d => .list ([.atom "T", .atom d.cls, .atom (SExp.encode d.key), natsS d.shape, .atom (toString d.count), .atom (toString d.part)]
      ++ (if d.dom.isEmpty then [] else [.list (.atom "K" :: d.dom.map atomS)]))
  | .op k aux args => .list (.atom "O" :: .atom k.name :: natsS aux :: toSExpL args)
def toSExpL : List Expr → List SExp
  | [] => []
  | x :: xs => toSExp x :: toSExpL xs
end

def read (s : String) : Option Expr := (SExp.read s).bind ofSExp
def print (e : Expr) : String := (toSExp e).str

end Expr
end UflVerif
