/-
One instance of the C06 family: operand shapes, mesh dimension and the tree the real lowering
returned for coefficient operands `A` (and `B`).  The data lives in Gen/Compound_*.lean.
-/
import UflVerif.Model.Syntax

namespace UflVerif.Gen.Compound

structure Case where
  shA : List Nat
  shB : List Nat
  gdim : Nat
  out : UflVerif.Expr

end UflVerif.Gen.Compound
