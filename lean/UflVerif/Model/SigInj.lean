/-
C11 model: what the signature data of a form (Model/Signature.lean, `Sig.formData`) determines.

The signature data of `compute_form_signature` is read here as an *encoding of a normal form*:

  * `renE env` replaces every counted object by the object whose count is its number in the tables of the form
    (`Form._compute_renumbering`, `compute_multiindex_hashdata`): index counts by the order of first visit, coefficients /
    constants / labels by their rank, mesh ids by the domain numbering.  This is the renumbering the hash data does on the fly.
  * `core z` forgets what the signature never reads *and* what is a function of the data it does read: `aux` of an operator
    (shapes the serializer attaches; NOT for base form operators, whose `aux` is the derivative multi-index), the shapes of
    coefficients / arguments / geometric quantities (functions of element and mesh), `gdim`/`tdim` of a mesh (functions of the
    coordinate element), the class of a repr-keyed terminal (a prefix of the repr).  A literal whose hash data is its repr
    (`IntValue`, `FloatValue`, a `Zero` without free indices) becomes the terminal keyed by that repr: the identity of a literal
    is its repr, as in `Terminal.__eq__`.
  * `enc z` is the hash data of an expression whose counts already are the numbers: no table lookups.

`Props/C11.lean` proves  `formData z f = some (encForm z (normalize z f))`  and that `enc`/`encForm` are injective on normal forms
(for expressions without base form operators), hence: equal signature data <-> equal normal forms.

Metadata: `FForm` carries raw metadata values (`FormModel.MDV`, the model of C15); `canonForm` applies `canonicalize_metadata`
(ufl/utils/sorting.py) and `fullData = formData ∘ canonForm` is `compute_form_signature`.

`Flat`/`flatten`: the data after the Merkle nodes have been replaced by digests `H(data)`, `H` abstract.
`toks`: Python's `str` of that data at the level of tokens (brackets, commas, the trailing comma of a 1-tuple; atoms opaque).
Core Lean only.
-/
import UflVerif.Model.Renaming

namespace UflVerif
namespace Inj
open L Sig

def numOr (o : Option Nat) : Nat := o.getD 0

/-! ## 1. the renumbering done by the hash data -/

def renMesh (env : Env) (m : MeshD) : MeshD := { m with id := numOr (posOf eqMesh m env.mesh) }
def renSpace (env : Env) (sp : SpaceD) : SpaceD := { sp with mesh := renMesh env sp.mesh }
def renIdxC (env : Env) (c : Nat) : Nat := numOr (posOf (· == ·) c env.idx)

def renIdx (env : Env) : Idx → Idx
  | .fixed v => .fixed v
  | .free c => .free (renIdxC env c)

def renTerm (env : Env) : CTerm → CTerm
  | .coeff c sp sh => .coeff (numOr (posOf eqTerm (.coeff c sp sh) env.coeff)) (renSpace env sp) sh
  | .arg n p sp sh => .arg n p (renSpace env sp) sh
  | .const c m sh => .const (numOr (posOf eqTerm (.const c m sh) env.const)) (renMesh env m) sh
  | .geo c m sh => .geo c (renMesh env m) sh
  | .label c => .label (numOr (posOf eqTerm (.label c) env.label))
  | .plain c k sh => .plain c k sh

def renFIC (env : Env) (f : List (Nat × Nat)) : List (Nat × Nat) := f.map fun p => (renIdxC env p.1, p.2)

mutual
/-- the free indices of a `Zero` are renumbered only by the repaired hash data (`zfix`); the unrepaired one hashes the repr -/
def renE (env : Env) : CExpr → CExpr
  | .mi is => .mi (is.map (renIdx env))
  | .zero sh f => if env.zfix then .zero sh (renFIC env f) else .zero sh f
  | .term t => .term (renTerm env t)
  | .op k aux args => .op k aux (renL env args)
  | .int v => .int v
  | .real n d => .real n d
  | .cplx a b c d => .cplx a b c d
def renL (env : Env) : List CExpr → List CExpr
  | [] => []
  | a :: as => renE env a :: renL env as
end

/-! ### every object of the form is in the tables -/

def foundMesh (env : Env) (m : MeshD) : Bool := (posOf eqMesh m env.mesh).isSome
def foundIdxC (env : Env) (c : Nat) : Bool := (posOf (· == ·) c env.idx).isSome

def foundIdx (env : Env) : Idx → Bool
  | .fixed _ => true
  | .free c => foundIdxC env c

def foundTerm (env : Env) : CTerm → Bool
  | .coeff c sp sh => (posOf eqTerm (.coeff c sp sh) env.coeff).isSome && foundMesh env sp.mesh
  | .arg _ _ sp _ => foundMesh env sp.mesh
  | .const c m sh => (posOf eqTerm (.const c m sh) env.const).isSome && foundMesh env m
  | .geo _ m _ => foundMesh env m
  | .label c => (posOf eqTerm (.label c) env.label).isSome
  | .plain .. => true

mutual
def foundE (env : Env) : CExpr → Bool
  | .mi is => is.all (foundIdx env)
  | .zero _ f => !env.zfix || f.all (fun p => foundIdxC env p.1)
  | .term t => foundTerm env t
  | .op _ _ args => foundL env args
  | _ => true
def foundL (env : Env) : List CExpr → Bool
  | [] => true
  | a :: as => foundE env a && foundL env as
end

/-! ## 2. what the signature cannot see by construction -/

/-- the classes whose non-operand data (`derivatives`, function space, argument slots) is carried in `aux` -/
def isBFO (k : Op) : Bool := k.name == "ExternalOperator" || k.name == "Interpolate" || k.name == "BaseFormOperator"

def coreMesh (m : MeshD) : MeshD := { m with gdim := 0, tdim := 0 }
def coreSpace (sp : SpaceD) : SpaceD := { sp with mesh := coreMesh sp.mesh }

def corePart (p : Int) : Int := if p < 0 then -1 else p

def coreTerm : CTerm → CTerm
  | .coeff c sp _ => .coeff c (coreSpace sp) []
  | .arg n p sp _ => .arg n (corePart p) (coreSpace sp) []
  | .const c m sh => .const c (coreMesh m) sh
  | .geo c m _ => .geo c (coreMesh m) []
  | .label c => .label c
  | .plain _ k _ => .plain "" k []

/-- a terminal identified by its repr -/
def byRepr (r : String) : CExpr := .term (.plain "" r [])

mutual
def core (z : Bool) : CExpr → CExpr
  | .op k aux args => .op k (if isBFO k then aux else []) (coreL z args)
  | .term t => .term (coreTerm t)
  | .mi is => .mi is
  | .zero sh f => if z && !f.isEmpty then .zero sh f else byRepr (Expr.reprOf (.zero sh f))
  | .int v => byRepr (Expr.reprOf (.int v))
  | .real n d => byRepr (Expr.reprOf (.real n d))
  | .cplx a b c d => .cplx a b c d            -- Model/Order.lean renders no complex literal: outside (`wfE`)
def coreL (z : Bool) : List CExpr → List CExpr
  | [] => []
  | a :: as => core z a :: coreL z as
end

/-- the typecode of the class is known (Gen/Typecodes.lean, regenerated from the live classes) and the operator is the one the
    class name denotes (`.other "Sum"` is not an operator of the language) -/
def opKnown (k : Op) : Bool :=
  (Gen.Typecodes.table.find? (fun p => p.1 == k.name)).isSome && (Op.ofName k.name == k)

mutual
/-- operators are known classes, no complex literal -/
def wfE : CExpr → Bool
  | .op k _ args => opKnown k && wfL args
  | .cplx .. => false
  | _ => true
def wfL : List CExpr → Bool
  | [] => true
  | a :: as => wfE a && wfL as
end

mutual
/-- no base form operator (`Interpolate`, `ExternalOperator`) -/
def noBFO : CExpr → Bool
  | .op k _ args => !isBFO k && noBFOL args
  | _ => true
def noBFOL : List CExpr → Bool
  | [] => true
  | a :: as => noBFO a && noBFOL as
end

/-! ## 3. the encoding -/

def encMesh (m : MeshD) : SigData := .tup [.str "Mesh", .int m.id, .raw m.celem]
def encSpace (sp : SpaceD) : SigData := .tup [.str "FunctionSpace", encMesh sp.mesh, .str sp.elem, .str sp.label]

def encIdx : Idx → SigData
  | .fixed v => .int v
  | .free k => .int (-((k : Int) + 1))

def encTerm : CTerm → SigData
  | .coeff c sp _ => .tup [.str "Coefficient", .int c, encSpace sp]
  | .arg n p sp _ => .tup [.str "Argument", .int n, (if p < 0 then .none else .int p), encSpace sp]
  | .const c m sh => .fmt [.raw "Constant(", encMesh m, .raw ", ", natsTup sh, .raw ", ", .int c, .raw ")"]
  | .geo c m _ => .tup [.str c, .str "Mesh", .int m.id, .raw m.celem]
  | .label c => .tup [.str "Label", .int c]
  | .plain _ k _ => .str k

def encFI (f : List (Nat × Nat)) : SigData := .tup (f.map fun p => .tup [encIdx (.free p.1), .int p.2])

def encLeaf (z : Bool) : CExpr → SigData
  | .mi is => .tup (is.map encIdx)
  | .term t => encTerm t
  | .zero sh f => if z && !f.isEmpty then .tup [.str "Zero", natsTup sh, encFI f] else .str (Expr.reprOf (.zero sh f))
  | e => .str (Expr.reprOf e.toExpr)

mutual
def enc (z : Bool) : CExpr → SigData
  | .op k _ args => .hash (.lst (.int (Expr.tcOfName k.name) :: encL z args))
  | e => .hash (.lst [encLeaf z e])
def encL (z : Bool) : List CExpr → List SigData
  | [] => []
  | a :: as => enc z a :: encL z as
end

def encIntegral (z : Bool) (i : CIntegral) : SigData :=
  .tup [enc z i.integrand, encMesh i.mesh, .str i.itype, .tup [], sigSub i.sub, sigMeta i.metadata]

def encForm (z : Bool) (f : CForm) : SigData := .lst (f.map (encIntegral z))

/-! ## 4. normal forms -/

def renIntegral (env : Env) (i : CIntegral) : CIntegral :=
  { i with integrand := renE env i.integrand, mesh := renMesh env i.mesh }

def coreIntegral (z : Bool) (i : CIntegral) : CIntegral :=
  { i with integrand := core z i.integrand, mesh := coreMesh i.mesh }

def coreForm (z : Bool) (f : CForm) : CForm := f.map (coreIntegral z)

/-- the integrals in canonical order, every object renumbered by the tables of the form, derived data forgotten -/
def normalize (z : Bool) (f : CForm) : CForm :=
  coreForm z ((sortIntegrals f).map (renIntegral (envOf z f)))

def wfForm (f : CForm) : Bool := f.all fun i => wfE i.integrand
def noBFOForm (f : CForm) : Bool := f.all fun i => noBFO i.integrand

/-- two forms a form compiler cannot tell apart -/
def Equiv (z : Bool) (f g : CForm) : Prop := normalize z f = normalize z g

/-! ### the renumbering as a renaming of counts

For a form in which a count identifies its object (`Admissible`), `renE` is `CExpr.rename` (Model/Renaming.lean) by the renaming that
sends a count to its number. -/

def posNat (c : Nat) (l : List Nat) : Nat := numOr (posOf (· == ·) c l)

def renOf (env : Env) : Ren where
  idx := fun c => posNat c env.idx
  coeff := fun c => posNat c (env.coeff.map CTermCount)
  const := fun c => posNat c (env.const.map CTermCount)
  label := fun c => posNat c (env.label.map CTermCount)
  mesh := fun i => posNat i (env.mesh.map (·.id))

/-- no two different objects of one counted class share a count, no two different meshes share an id -/
def distinctBy {α : Type} [DecidableEq α] (key : α → Nat) : List α → Bool
  | [] => true
  | t :: ts => ts.all (fun u => key t != key u || t == u) && distinctBy key ts

def Admissible (env : Env) : Bool :=
  distinctBy CTermCount env.coeff && distinctBy CTermCount env.const && distinctBy CTermCount env.label &&
  distinctBy (fun m : MeshD => m.id) env.mesh

/-! ## 5. metadata: `compute_form_signature` = `formData ∘ canonicalize_metadata` -/

structure FIntegral where
  integrand : CExpr
  itype : String
  mesh : MeshD
  sub : SubId
  md : FormModel.MDV            -- `integral.metadata()` (a dict; `{}` also stands for None)
  deriving Repr, Inhabited

abbrev FForm := List FIntegral

def FIntegral.canon (cfg : FormModel.CanonCfg) (i : FIntegral) : CIntegral :=
  { integrand := i.integrand, itype := i.itype, mesh := i.mesh, sub := i.sub, metadata := FormModel.canonWith cfg i.md }

def canonForm (cfg : FormModel.CanonCfg) (f : FForm) : CForm := f.map (FIntegral.canon cfg)

/-- `canonicalize_metadata` of the tree under test: arrays through `tolist()` (fix 430d780), `str()` on every leaf -/
def cfgNow : FormModel.CanonCfg := { arrTolist := true }

/-- the data hashed by `compute_form_signature` -/
def fullData (cfg : FormModel.CanonCfg) (z : Bool) (f : FForm) : Option SigData := formData z (canonForm cfg f)

/-- forgetting the metadata -/
def FIntegral.bare (i : FIntegral) : CIntegral :=
  { integrand := i.integrand, itype := i.itype, mesh := i.mesh, sub := i.sub, metadata := .t [] }

/-! ## 6. digests and printing -/

/-- the pre-hash data after every Merkle node has been replaced by its digest -/
inductive Flat (D : Type)
  | str (s : String)
  | raw (s : String)
  | int (v : Int)
  | none
  | tup (xs : List (Flat D))
  | lst (xs : List (Flat D))
  | fmt (xs : List (Flat D))
  | dig (d : D)

mutual
def flatten {D : Type} (H : Flat D → D) : SigData → Flat D
  | .str s => .str s
  | .raw s => .raw s
  | .int v => .int v
  | .none => .none
  | .tup xs => .tup (flattenL H xs)
  | .lst xs => .lst (flattenL H xs)
  | .fmt xs => .fmt (flattenL H xs)
  | .hash d => .dig (H (flatten H d))
def flattenL {D : Type} (H : Flat D → D) : List SigData → List (Flat D)
  | [] => []
  | a :: as => flatten H a :: flattenL H as
end

/-- the tokens of Python's `str` of the data: an atom is one token (a quoted str, an object printed by its repr, a decimal
    numeral, `None`, a bytes literal, an f-string made of the tokens of its parts) -/
inductive Tok (D : Type)
  | lpar | rpar | lbr | rbr | comma
  | str (s : String)
  | raw (s : String)
  | int (v : Int)
  | none
  | bytes (d : D)
  | fstr (parts : List (Tok D))

mutual
def toks {D : Type} : Flat D → List (Tok D)
  | .str s => [.str s]
  | .raw s => [.raw s]
  | .int v => [.int v]
  | .none => [.none]
  | .dig d => [.bytes d]
  | .tup xs => .lpar :: toksTup xs
  | .lst xs => .lbr :: toksSeq .rbr xs
  | .fmt xs => [.fstr (toksCat xs)]
/-- the items separated by commas, then the closing bracket -/
def toksSeq {D : Type} (close : Tok D) : List (Flat D) → List (Tok D)
  | [] => [close]
  | [x] => toks x ++ [close]
  | x :: y :: r => toks x ++ .comma :: toksSeq close (y :: r)
/-- a tuple: `()`, `(x,)`, `(x, y, ..)` -/
def toksTup {D : Type} : List (Flat D) → List (Tok D)
  | [] => [.rpar]
  | [x] => toks x ++ [.comma, .rpar]
  | x :: y :: r => toks x ++ .comma :: toksSeq .rpar (y :: r)
/-- an f-string: the parts one after the other -/
def toksCat {D : Type} : List (Flat D) → List (Tok D)
  | [] => []
  | x :: r => toks x ++ toksCat r
end

end Inj
end UflVerif
