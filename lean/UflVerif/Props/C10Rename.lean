/-
C10r  index renaming invariance.

`renameIdx σ e` (Model/IndexPasses.lean) replaces every index count `i` in `e` by `σ i` (free-index
lists of `Zero` nodes are re-sorted by `renameFI`).  `renumber_indices` is this renaming with
`σ = newNumber (firstSeen e [])`, followed by a rebuild of every node through its constructor.
This file proves, for every injective `σ` and every well-formed `e` (any size):
  * the renamed expression is well formed, has the same shape, and its free indices are exactly the
    renamed free indices of `e` with the same extents (`C10_rename_fi`);
  * its value under `ι` is the value of `e` under `ι ∘ σ` (`C10_rename_value`, with conditions);
  * `newNumber order` is injective for duplicate-free `order`, `firstSeen e []` is duplicate-free,
    hence the plain renumbering satisfies both, and leaves the value of a closed expression unchanged.
That the constructor rebuild does not change values is C05.
-/
import UflVerif.Sem.Rename
import Mathlib.Data.List.Nodup

namespace UflVerif.C10r
open UflVerif Expr FIlemmas Rename

variable {K : Type} [Add K] [Mul K] [Sub K] [Neg K] [Div K] [Zero K] [One K] [IntCast K] [NatCast K]
variable {σ : Nat → Nat}

/-- what renaming does to the static data of an expression -/
def P (σ : Nat → Nat) (e : Expr) : Prop :=
  shape (renameIdx σ e) = shape e ∧ Ren σ (fi e) (fi (renameIdx σ e)) ∧ WF (renameIdx σ e) = true

theorem renameIdxL_eq_map (σ : Nat → Nat) : ∀ xs : List Expr, renameIdxL σ xs = xs.map (renameIdx σ)
  | [] => rfl
  | x :: xs => by simp only [renameIdxL, List.map_cons, renameIdxL_eq_map σ xs]

theorem gradChain_rename (σ : Nat → Nat) : ∀ (a : Expr) (p : TermData × Nat), gradChain a = some p → renameIdx σ a = a := by
  intro a
  fun_induction gradChain a with
  | case1 d => intro p _; simp [renameIdx]
  | case2 aux a d k hk ih => intro p _; simp only [renameIdx, renameIdxL, ih _ hk]
  | case3 aux a hk ih => intro p h; simp at h
  | case4 e h1 h2 => intro p h; simp at h

theorem WFL_iff : ∀ xs : List Expr, WFL xs = true ↔ ∀ x ∈ xs, WF x = true
  | [] => by simp [WFL]
  | x :: xs => by simp [WFL, WFL_iff xs]

theorem P.scalar {e : Expr} (h : P σ e) (ht : trueScalar e = true) : trueScalar (renameIdx σ e) = true := by
  simp only [trueScalar, Bool.and_eq_true, List.isEmpty_iff] at ht ⊢
  obtain ⟨hs, hr, _⟩ := h
  rw [ht.2] at hr
  exact ⟨by rw [hs]; exact ht.1, ren_nil_eq hr⟩

theorem P.fi_eq {a b : Expr} (ha : P σ a) (hb : P σ b) (h : fi a = fi b) : fi (renameIdx σ a) = fi (renameIdx σ b) := by
  obtain ⟨_, ra, wa⟩ := ha
  obtain ⟨_, rb, wb⟩ := hb
  rw [← h] at rb
  exact ren_unique ra rb (fi_sorted _ wa) (fi_sorted _ wb)

theorem rename_aux (hσ : Function.Injective σ) :
    (∀ e : Expr, WF e = true → P σ e) ∧ (∀ p : Expr, WFC p = true → WFC (renameIdx σ p) = true) ∧
    (∀ xs : List Expr, WFL xs = true → ∀ x ∈ xs, P σ x) := by
  apply WF.mutual_induct (motive_1 := fun e => WF e = true → P σ e)
    (motive_2 := fun p => WFC p = true → WFC (renameIdx σ p) = true)
    (motive_3 := fun xs => WFL xs = true → ∀ x ∈ xs, P σ x)
  -- 1-4 literals, terminals
  · intro v _; exact ⟨by simp [renameIdx], by simp only [renameIdx, fi]; exact ren_nil, by simp [renameIdx, WF]⟩
  · intro n d _; exact ⟨by simp [renameIdx], by simp only [renameIdx, fi]; exact ren_nil, by simp [renameIdx, WF]⟩
  · intro a b c d _; exact ⟨by simp [renameIdx], by simp only [renameIdx, fi]; exact ren_nil, by simp [renameIdx, WF]⟩
  · intro d _; exact ⟨by simp [renameIdx], by simp only [renameIdx, fi]; exact ren_nil, by simp [renameIdx, WF]⟩
  -- 5 zero: the free-index list is renamed and sorted again
  · intro sh f _
    refine ⟨by simp [renameIdx, shape], ?_, ?_⟩
    · simp only [renameIdx, fi]; exact ren_renameFI hσ f
    · simp only [renameIdx, WF]; exact (sortedFI_iff _).mpr (renameFI_sorted σ f)
  -- 6 multi-index
  · intro is hw; simp [WF] at hw
  -- 7 sum
  · intro aux a b iha ihb hw
    simp only [WF, Bool.and_eq_true, beq_iff_eq] at hw
    obtain ⟨⟨⟨wa, wb⟩, hs⟩, hf⟩ := hw
    have pa := iha wa; have pb := ihb wb
    have hf' := P.fi_eq pa pb hf
    obtain ⟨sa, ra, wa'⟩ := pa
    obtain ⟨sb, rb, wb'⟩ := pb
    refine ⟨?_, ?_, ?_⟩
    · simp only [renameIdx, renameIdxL, shape]; exact sa
    · simp only [renameIdx, renameIdxL, fi]; exact ra
    · simp only [renameIdx, renameIdxL, WF, wa', wb', sa, sb, hs, hf', Bool.and_self, beq_self_eq_true]
  -- 8 product
  · intro aux a b iha ihb hw
    simp only [WF, Bool.and_eq_true] at hw
    obtain ⟨⟨⟨⟨wa, wb⟩, ea⟩, eb⟩, hd⟩ := hw
    obtain ⟨sa, ra, wa'⟩ := iha wa
    obtain ⟨sb, rb, wb'⟩ := ihb wb
    have hd' : dimsAgree (fi (renameIdx σ a)) (fi (renameIdx σ b)) = true :=
      (dimsAgree_iff _ _ (fi_sorted _ wa')).mpr (ren_dimsAgree ra rb ((dimsAgree_iff _ _ (fi_sorted _ wa)).mp hd))
    refine ⟨?_, ?_, ?_⟩
    · simp only [renameIdx, renameIdxL, shape]
    · simp only [renameIdx, renameIdxL, fi]; exact ren_merge (fi_sorted _ wa) (fi_sorted _ wa') ra rb
    · simp only [renameIdx, renameIdxL, WF, wa', wb', sa, sb, ea, eb, hd', Bool.and_self]
  -- 9 division
  · intro aux a b iha ihb hw
    simp only [WF, Bool.and_eq_true] at hw
    obtain ⟨⟨⟨wa, wb⟩, ea⟩, tb⟩ := hw
    have pb := ihb wb
    have tb' := pb.scalar tb
    obtain ⟨sa, ra, wa'⟩ := iha wa
    refine ⟨?_, ?_, ?_⟩
    · simp only [renameIdx, renameIdxL, shape]
    · simp only [renameIdx, renameIdxL, fi]; exact ra
    · simp only [renameIdx, renameIdxL, WF, wa', pb.2.2, sa, ea, tb', Bool.and_self]
  -- 10 power
  · intro aux a b iha ihb hw
    simp only [WF, Bool.and_eq_true] at hw
    obtain ⟨⟨⟨wa, wb⟩, ta⟩, tb⟩ := hw
    have pa := iha wa; have pb := ihb wb
    refine ⟨?_, ?_, ?_⟩
    · simp only [renameIdx, renameIdxL, shape]
    · simp only [renameIdx, renameIdxL, fi]; exact pa.2.1
    · simp only [renameIdx, renameIdxL, WF, pa.2.2, pb.2.2, pa.scalar ta, pb.scalar tb, Bool.and_self]
  -- 11-14 abs conj real imag
  · intro aux a ih hw
    simp only [WF] at hw
    obtain ⟨sa, ra, wa'⟩ := ih hw
    exact ⟨by simp only [renameIdx, renameIdxL, shape]; exact sa, by simp only [renameIdx, renameIdxL, fi]; exact ra,
      by simp only [renameIdx, renameIdxL, WF]; exact wa'⟩
  · intro aux a ih hw
    simp only [WF] at hw
    obtain ⟨sa, ra, wa'⟩ := ih hw
    exact ⟨by simp only [renameIdx, renameIdxL, shape]; exact sa, by simp only [renameIdx, renameIdxL, fi]; exact ra,
      by simp only [renameIdx, renameIdxL, WF]; exact wa'⟩
  · intro aux a ih hw
    simp only [WF] at hw
    obtain ⟨sa, ra, wa'⟩ := ih hw
    exact ⟨by simp only [renameIdx, renameIdxL, shape]; exact sa, by simp only [renameIdx, renameIdxL, fi]; exact ra,
      by simp only [renameIdx, renameIdxL, WF]; exact wa'⟩
  · intro aux a ih hw
    simp only [WF] at hw
    obtain ⟨sa, ra, wa'⟩ := ih hw
    exact ⟨by simp only [renameIdx, renameIdxL, shape]; exact sa, by simp only [renameIdx, renameIdxL, fi]; exact ra,
      by simp only [renameIdx, renameIdxL, WF]; exact wa'⟩
  -- 15 indexed
  · intro aux a is ih hw
    simp only [WF, Bool.and_eq_true, beq_iff_eq] at hw
    obtain ⟨⟨⟨wa, hl⟩, hr⟩, hi⟩ := hw
    obtain ⟨sa, ra, wa'⟩ := ih wa
    refine ⟨?_, ?_, ?_⟩
    · simp only [renameIdx, renameIdxL, shape]
    · simp only [renameIdx, renameIdxL, fi, sa, zipIdx_rename, idxPairs_rename]
      exact ren_foldl_insert hσ _ (fi_sorted _ wa) (fi_sorted _ wa') ra
    · simp only [renameIdx, renameIdxL, WF, wa', sa, List.length_map, hl, fixedInRange_rename, hr, beq_self_eq_true,
        indexedFI_ren hσ (shape a) is (fi_sorted _ wa) (fi_sorted _ wa') ra hi, Bool.and_self]
  -- 16 index sum
  · intro aux a j ih hw
    simp only [WF, Bool.and_eq_true] at hw
    obtain ⟨sa, ra, wa'⟩ := ih hw.1
    refine ⟨?_, ?_, ?_⟩
    · simp only [renameIdx, renameIdxL, List.map_cons, List.map_nil, renameIdxI_free, shape]; exact sa
    · simp only [renameIdx, renameIdxL, List.map_cons, List.map_nil, renameIdxI_free, fi]; exact ren_remove hσ ra j
    · simp only [renameIdx, renameIdxL, List.map_cons, List.map_nil, renameIdxI_free, WF, wa', ra.has, hw.2, Bool.and_self]
  -- 17 component tensor
  · intro aux a is ih hw
    simp only [WF, Bool.and_eq_true] at hw
    obtain ⟨⟨wa, ea⟩, hm⟩ := hw
    obtain ⟨sa, ra, wa'⟩ := ih wa
    refine ⟨?_, ?_, ?_⟩
    · simp only [renameIdx, renameIdxL, shape, freeCounts_rename, List.map_map, Function.comp_def, ra.dim]
    · simp only [renameIdx, renameIdxL, fi, freeCounts_rename]; exact ren_foldl_remove hσ _ ra
    · simp only [renameIdx, renameIdxL, WF, wa', sa, ea, allFree_rename, Bool.true_and]
      cases haf : allFree is with
      | none => simp [haf] at hm
      | some cs =>
        simp only [haf, Bool.and_eq_true] at hm
        simp only [Option.map_some, nodupNat_map hσ, hm.1, List.all_map, Function.comp_def, ra.has, hm.2, Bool.and_self]
  -- 18 list tensor
  · intro aux a as iha ihas hw
    simp only [WF, Bool.and_eq_true, List.all_eq_true, beq_iff_eq] at hw
    obtain ⟨⟨wa, was⟩, hsame⟩ := hw
    have pa := iha wa
    have pas := ihas was
    obtain ⟨sa, ra, wa'⟩ := pa
    refine ⟨?_, ?_, ?_⟩
    · simp only [renameIdx, renameIdxL, shape, renameIdxL_eq_map, List.length_map, sa]
    · simp only [renameIdx, renameIdxL, fi]; exact ra
    · simp only [renameIdx, renameIdxL, WF, wa', renameIdxL_eq_map, Bool.true_and, Bool.and_eq_true, List.all_eq_true,
        beq_iff_eq, List.mem_map, forall_exists_index, and_imp, forall_apply_eq_imp_iff₂]
      refine ⟨(WFL_iff _).mpr ?_, ?_⟩
      · intro y hy
        obtain ⟨x, hx, rfl⟩ := List.mem_map.mp hy
        exact (pas x hx).2.2
      · intro x hx
        exact ⟨by rw [(pas x hx).1, sa, (hsame x hx).1], P.fi_eq (pas x hx) (iha wa) (hsame x hx).2⟩
  -- 19 conditional
  · intro aux c t f ihc iht ihf hw
    simp only [WF, Bool.and_eq_true, beq_iff_eq] at hw
    obtain ⟨⟨⟨⟨wc, wt⟩, wf⟩, hs⟩, hf⟩ := hw
    have pt := iht wt; have pf := ihf wf
    have hf' := P.fi_eq pt pf hf
    refine ⟨?_, ?_, ?_⟩
    · simp only [renameIdx, renameIdxL, shape]; exact pt.1
    · simp only [renameIdx, renameIdxL, fi]; exact pt.2.1
    · simp only [renameIdx, renameIdxL, WF, ihc wc, pt.2.2, pf.2.2, pt.1, pf.1, hs, hf', Bool.and_self, beq_self_eq_true]
  -- 20-22 min max atan2
  · intro aux a b iha ihb hw
    simp only [WF, Bool.and_eq_true] at hw
    obtain ⟨⟨⟨wa, wb⟩, ta⟩, tb⟩ := hw
    have pa := iha wa; have pb := ihb wb
    refine ⟨?_, ?_, ?_⟩
    · simp only [renameIdx, renameIdxL, shape]
    · simp only [renameIdx, renameIdxL, fi]; exact pa.2.1
    · simp only [renameIdx, renameIdxL, WF, pa.2.2, pb.2.2, pa.scalar ta, pb.scalar tb, Bool.and_self]
  · intro aux a b iha ihb hw
    simp only [WF, Bool.and_eq_true] at hw
    obtain ⟨⟨⟨wa, wb⟩, ta⟩, tb⟩ := hw
    have pa := iha wa; have pb := ihb wb
    refine ⟨?_, ?_, ?_⟩
    · simp only [renameIdx, renameIdxL, shape]
    · simp only [renameIdx, renameIdxL, fi]; exact pa.2.1
    · simp only [renameIdx, renameIdxL, WF, pa.2.2, pb.2.2, pa.scalar ta, pb.scalar tb, Bool.and_self]
  · intro aux a b iha ihb hw
    simp only [WF, Bool.and_eq_true] at hw
    obtain ⟨⟨⟨wa, wb⟩, ta⟩, tb⟩ := hw
    have pa := iha wa; have pb := ihb wb
    refine ⟨?_, ?_, ?_⟩
    · simp only [renameIdx, renameIdxL, shape]
    · simp only [renameIdx, renameIdxL, fi]; exact pa.2.1
    · simp only [renameIdx, renameIdxL, WF, pa.2.2, pb.2.2, pa.scalar ta, pb.scalar tb, Bool.and_self]
  -- 23 variable
  · intro aux a d ih hw
    simp only [WF] at hw
    obtain ⟨sa, ra, wa'⟩ := ih hw
    exact ⟨by simp only [renameIdx, renameIdxL, shape]; exact sa, by simp only [renameIdx, renameIdxL, fi]; exact ra,
      by simp only [renameIdx, renameIdxL, WF]; exact wa'⟩
  -- 24-25 restrictions
  · intro aux a ih hw
    simp only [WF] at hw
    obtain ⟨sa, ra, wa'⟩ := ih hw
    exact ⟨by simp only [renameIdx, renameIdxL, shape]; exact sa, by simp only [renameIdx, renameIdxL, fi]; exact ra,
      by simp only [renameIdx, renameIdxL, WF]; exact wa'⟩
  · intro aux a ih hw
    simp only [WF] at hw
    obtain ⟨sa, ra, wa'⟩ := ih hw
    exact ⟨by simp only [renameIdx, renameIdxL, shape]; exact sa, by simp only [renameIdx, renameIdxL, fi]; exact ra,
      by simp only [renameIdx, renameIdxL, WF]; exact wa'⟩
  -- 26 grad of a terminal chain: no index inside
  · intro aux a hw
    have hw' := hw
    simp only [WF, Option.isSome_iff_exists] at hw'
    obtain ⟨p, hp⟩ := hw'
    have e : renameIdx σ (.op .grad aux [a]) = .op .grad aux [a] := by
      simp only [renameIdx, renameIdxL, gradChain_rename σ a p hp]
    rw [P, e]
    refine ⟨rfl, ?_, hw⟩
    simp only [fi, gradChain_fi a p hp]; exact ren_nil
  -- 27 math functions
  · intro aux fnk a h1 h2 h3 h4 h5 h6 h7 h8 ih hw
    have hwf : ∀ x : Expr, WF (.op fnk aux [x]) = ((mathName fnk).isSome && WF x && trueScalar x) := by
      intro x; cases fnk <;> simp_all [WF, mathName]
    rw [hwf] at hw
    simp only [Bool.and_eq_true] at hw
    obtain ⟨⟨hm, wa⟩, ta⟩ := hw
    have hsh : ∀ x : Expr, shape (.op fnk aux [x]) = [] := by
      intro x; cases fnk <;> simp_all [shape, mathName]
    have hfi : ∀ x : Expr, fi (.op fnk aux [x]) = fi x := by
      intro x; cases fnk <;> simp_all [fi, mathName]
    have pa := ih wa
    have e : renameIdx σ (.op fnk aux [a]) = .op fnk aux [renameIdx σ a] := by simp only [renameIdx, renameIdxL]
    rw [P, e, hsh, hsh, hfi, hfi, hwf, hm, pa.2.2, pa.scalar ta]
    exact ⟨rfl, pa.2.1, rfl⟩
  -- 28 anything else is not well formed
  · intro k aux args
    intros
    rename_i hw
    unfold WF at hw
    split at hw <;> simp_all
  -- 29-34 comparisons
  · intro aux a b iha ihb hw
    simp only [WFC, Bool.and_eq_true] at hw
    obtain ⟨⟨⟨wa, wb⟩, ta⟩, tb⟩ := hw
    have pa := iha wa; have pb := ihb wb
    simp only [renameIdx, renameIdxL, WFC, pa.2.2, pb.2.2, pa.scalar ta, pb.scalar tb, Bool.and_self]
  · intro aux a b iha ihb hw
    simp only [WFC, Bool.and_eq_true] at hw
    obtain ⟨⟨⟨wa, wb⟩, ta⟩, tb⟩ := hw
    have pa := iha wa; have pb := ihb wb
    simp only [renameIdx, renameIdxL, WFC, pa.2.2, pb.2.2, pa.scalar ta, pb.scalar tb, Bool.and_self]
  · intro aux a b iha ihb hw
    simp only [WFC, Bool.and_eq_true] at hw
    obtain ⟨⟨⟨wa, wb⟩, ta⟩, tb⟩ := hw
    have pa := iha wa; have pb := ihb wb
    simp only [renameIdx, renameIdxL, WFC, pa.2.2, pb.2.2, pa.scalar ta, pb.scalar tb, Bool.and_self]
  · intro aux a b iha ihb hw
    simp only [WFC, Bool.and_eq_true] at hw
    obtain ⟨⟨⟨wa, wb⟩, ta⟩, tb⟩ := hw
    have pa := iha wa; have pb := ihb wb
    simp only [renameIdx, renameIdxL, WFC, pa.2.2, pb.2.2, pa.scalar ta, pb.scalar tb, Bool.and_self]
  · intro aux a b iha ihb hw
    simp only [WFC, Bool.and_eq_true] at hw
    obtain ⟨⟨⟨wa, wb⟩, ta⟩, tb⟩ := hw
    have pa := iha wa; have pb := ihb wb
    simp only [renameIdx, renameIdxL, WFC, pa.2.2, pb.2.2, pa.scalar ta, pb.scalar tb, Bool.and_self]
  · intro aux a b iha ihb hw
    simp only [WFC, Bool.and_eq_true] at hw
    obtain ⟨⟨⟨wa, wb⟩, ta⟩, tb⟩ := hw
    have pa := iha wa; have pb := ihb wb
    simp only [renameIdx, renameIdxL, WFC, pa.2.2, pb.2.2, pa.scalar ta, pb.scalar tb, Bool.and_self]
  -- 35-37 and / or / not
  · intro aux a b iha ihb hw
    simp only [WFC, Bool.and_eq_true] at hw
    simp only [renameIdx, renameIdxL, WFC, iha hw.1, ihb hw.2, Bool.and_self]
  · intro aux a b iha ihb hw
    simp only [WFC, Bool.and_eq_true] at hw
    simp only [renameIdx, renameIdxL, WFC, iha hw.1, ihb hw.2, Bool.and_self]
  · intro aux a ih hw
    simp only [WFC] at hw
    simp only [renameIdx, renameIdxL, WFC, ih hw]
  -- 38-39 not a condition
  · intro k aux args
    intros
    rename_i hw
    unfold WFC at hw
    split at hw <;> simp_all
  · intro t
    intros
    rename_i hw
    unfold WFC at hw
    split at hw <;> simp_all
  -- 40-41 lists
  · intro _ x hx; cases hx
  · intro a as iha ihas hw x hx
    simp only [WFL, Bool.and_eq_true] at hw
    cases List.mem_cons.mp hx with
    | inl e => rw [e]; exact iha hw.1
    | inr e => exact ihas hw.2 x e


/-! ### the value of a renamed expression -/

def R1 (σ : Nat → Nat) (ρ : Env K) (side : Side) (ι : IdxEnv) (e : Expr) (c : List Nat) : Prop :=
  WF e = true → c.length = (shape e).length → ∀ ι' : IdxEnv, (∀ i, ι' (σ i) = ι i) →
    eval ρ side ι' (renameIdx σ e) c = eval ρ side ι e c

def R2 (σ : Nat → Nat) (ρ : Env K) (side : Side) (ι : IdxEnv) (p : Expr) : Prop :=
  WFC p = true → ∀ ι' : IdxEnv, (∀ i, ι' (σ i) = ι i) → evalB ρ side ι' (renameIdx σ p) = evalB ρ side ι p

def R3 (σ : Nat → Nat) (ρ : Env K) (side : Side) (ι : IdxEnv) (xs : List Expr) (n : Nat) (c : List Nat) : Prop :=
  WFL xs = true → (∀ x ∈ xs, c.length = (shape x).length) → ∀ ι' : IdxEnv, (∀ i, ι' (σ i) = ι i) →
    evalNth ρ side ι' (renameIdxL σ xs) n c = evalNth ρ side ι xs n c

theorem value_aux (ρ : Env K) (hσ : Function.Injective σ) :
    (∀ side ι e c, R1 σ ρ side ι e c) ∧ (∀ side ι p, R2 σ ρ side ι p) ∧ (∀ side ι xs n c, R3 σ ρ side ι xs n c) := by
  have hP := (rename_aux hσ).1
  apply eval.mutual_induct ρ (motive_1 := R1 σ ρ) (motive_2 := R2 σ ρ) (motive_3 := R3 σ ρ)
  -- 1-5 literals, zero, multi-index
  · intro side ι v c _ _ ι' _; simp [renameIdx, eval]
  · intro side ι n d c _ _ ι' _; simp [renameIdx, eval]
  · intro side ι a b c d x _ _ ι' _; simp [renameIdx, eval]
  · intro side ι sh f c _ _ ι' _; simp [renameIdx, eval]
  · intro side ι is c hw; simp [WF] at hw
  -- 6-10 terminals carry no index
  · intro side ι d hd j _ _ ι' _; simp [renameIdx, eval, hd]
  · intro side ι d hd i j _ _ _ ι' _; simp [renameIdx, eval, hd]
  · intro side ι d c hd _ _ _ ι' _; simp [renameIdx, eval, hd]
  · intro side ι d c hd hl _ _ ι' _; simp [renameIdx, eval, hl]
  · intro side ι d c hd hl _ _ ι' _; simp [renameIdx, eval, hd, hl]
  -- 11 sum
  · intro side ι aux c a b iha ihb hw hc ι' hι
    simp only [WF, Bool.and_eq_true, beq_iff_eq] at hw
    obtain ⟨⟨⟨wa, wb⟩, hs⟩, _⟩ := hw
    simp only [shape] at hc
    simp only [renameIdx, renameIdxL, eval]
    rw [iha wa hc ι' hι, ihb wb (by rw [← hs]; exact hc) ι' hι]
  -- 12 product
  · intro side ι aux c a b iha ihb hw _ ι' hι
    simp only [WF, Bool.and_eq_true, List.isEmpty_iff] at hw
    obtain ⟨⟨⟨⟨wa, wb⟩, sa⟩, sb⟩, _⟩ := hw
    simp only [renameIdx, renameIdxL, eval]
    rw [iha wa (by simp [sa]) ι' hι, ihb wb (by simp [sb]) ι' hι]
  -- 13 division
  · intro side ι aux c a b iha ihb hw hc ι' hι
    simp only [WF, Bool.and_eq_true, List.isEmpty_iff, trueScalar] at hw
    obtain ⟨⟨⟨wa, wb⟩, sa⟩, sb, _⟩ := hw
    simp only [shape, List.length_nil] at hc
    simp only [renameIdx, renameIdxL, eval]
    rw [iha wa (by simp [sa, hc]) ι' hι, ihb wb (by simp [sb, hc]) ι' hι]
  -- 14 power
  · intro side ι aux c a b iha ihb hw hc ι' hι
    simp only [WF, Bool.and_eq_true, List.isEmpty_iff, trueScalar] at hw
    obtain ⟨⟨⟨wa, wb⟩, sa, _⟩, sb, _⟩ := hw
    simp only [shape, List.length_nil] at hc
    simp only [renameIdx, renameIdxL, eval]
    rw [iha wa (by simp [sa, hc]) ι' hι, ihb wb (by simp [sb, hc]) ι' hι]
  -- 15-18 abs conj real imag
  · intro side ι aux c a ih hw hc ι' hι
    simp only [WF] at hw; simp only [shape] at hc
    simp only [renameIdx, renameIdxL, eval]; rw [ih hw hc ι' hι]
  · intro side ι aux c a ih hw hc ι' hι
    simp only [WF] at hw; simp only [shape] at hc
    simp only [renameIdx, renameIdxL, eval]; rw [ih hw hc ι' hι]
  · intro side ι aux c a ih hw hc ι' hι
    simp only [WF] at hw; simp only [shape] at hc
    simp only [renameIdx, renameIdxL, eval]; rw [ih hw hc ι' hι]
  · intro side ι aux c a ih hw hc ι' hι
    simp only [WF] at hw; simp only [shape] at hc
    simp only [renameIdx, renameIdxL, eval]; rw [ih hw hc ι' hι]
  -- 19 indexed: resolving the renamed multi-index under ι' gives the same component
  · intro side ι aux c a is ih hw _ ι' hι
    simp only [WF, Bool.and_eq_true, beq_iff_eq] at hw
    obtain ⟨⟨⟨wa, hl⟩, _⟩, _⟩ := hw
    simp only [renameIdx, renameIdxL, eval, resolve_rename σ ι ι' hι]
    exact ih wa (by simp [hl]) ι' hι
  -- 20 index sum: same range, and the bound index is renamed consistently
  · intro side ι aux c a j ih hw hc ι' hι
    simp only [WF, Bool.and_eq_true] at hw
    simp only [shape] at hc
    simp only [renameIdx, renameIdxL, List.map_cons, List.map_nil, renameIdxI_free, eval, (hP a hw.1).2.1.dim]
    congr 1
    funext v
    exact ih v hw.1 hc _ (set_rename hσ ι ι' hι j v)
  -- 21 component tensor: the renamed binders are bound to the same component values
  · intro side ι aux c a is ih hw _ ι' hι
    simp only [WF, Bool.and_eq_true, List.isEmpty_iff] at hw
    simp only [renameIdx, renameIdxL, eval]
    exact ih hw.1.1 (by simp [hw.1.2]) _ (bind_rename hσ is c ι ι' hι)
  -- 22-23 list tensor
  · intro side ι aux xs v c' ih hw hc ι' hι
    simp only [renameIdx, eval]
    cases xs with
    | nil => simp [WF] at hw
    | cons x0 rest =>
      simp only [WF, Bool.and_eq_true, List.all_eq_true, beq_iff_eq] at hw
      obtain ⟨⟨w0, wr⟩, hsame⟩ := hw
      simp only [shape, List.length_cons, Nat.add_right_cancel_iff] at hc
      apply ih (by simp [WFL, w0, wr]) _ ι' hι
      intro x hx
      cases List.mem_cons.mp hx with
      | inl h => rw [h]; exact hc
      | inr h => rw [(hsame x h).1]; exact hc
  · intro side ι aux xs _ _ ι' _; simp [renameIdx, eval]
  -- 24-25 conditional
  · intro side ι aux c p t f hb ihp iht hw hc ι' hι
    simp only [WF, Bool.and_eq_true, beq_iff_eq] at hw
    obtain ⟨⟨⟨⟨wp, wt⟩, wf⟩, hs⟩, _⟩ := hw
    simp only [shape] at hc
    simp only [renameIdx, renameIdxL, eval]
    rw [ihp wp ι' hι, hb]
    simp only [↓reduceIte]
    exact iht wt hc ι' hι
  · intro side ι aux c p t f hb ihp ihf hw hc ι' hι
    simp only [WF, Bool.and_eq_true, beq_iff_eq] at hw
    obtain ⟨⟨⟨⟨wp, wt⟩, wf⟩, hs⟩, _⟩ := hw
    simp only [shape] at hc
    simp only [renameIdx, renameIdxL, eval]
    rw [ihp wp ι' hι]
    simp only [hb, Bool.false_eq_true, ↓reduceIte]
    exact ihf wf (by rw [← hs]; exact hc) ι' hι
  -- 26-29 min / max
  · intro side ι aux c a b x y _ iha ihb hw hc ι' hι
    simp only [WF, Bool.and_eq_true, List.isEmpty_iff, trueScalar] at hw
    obtain ⟨⟨⟨wa, wb⟩, sa, _⟩, sb, _⟩ := hw
    simp only [shape, List.length_nil] at hc
    simp only [renameIdx, renameIdxL, eval]
    rw [iha wa (by simp [sa, hc]) ι' hι, ihb wb (by simp [sb, hc]) ι' hι]
  · intro side ι aux c a b x y _ iha ihb hw hc ι' hι
    simp only [WF, Bool.and_eq_true, List.isEmpty_iff, trueScalar] at hw
    obtain ⟨⟨⟨wa, wb⟩, sa, _⟩, sb, _⟩ := hw
    simp only [shape, List.length_nil] at hc
    simp only [renameIdx, renameIdxL, eval]
    rw [iha wa (by simp [sa, hc]) ι' hι, ihb wb (by simp [sb, hc]) ι' hι]
  · intro side ι aux c a b x y _ iha ihb hw hc ι' hι
    simp only [WF, Bool.and_eq_true, List.isEmpty_iff, trueScalar] at hw
    obtain ⟨⟨⟨wa, wb⟩, sa, _⟩, sb, _⟩ := hw
    simp only [shape, List.length_nil] at hc
    simp only [renameIdx, renameIdxL, eval]
    rw [iha wa (by simp [sa, hc]) ι' hι, ihb wb (by simp [sb, hc]) ι' hι]
  · intro side ι aux c a b x y _ iha ihb hw hc ι' hι
    simp only [WF, Bool.and_eq_true, List.isEmpty_iff, trueScalar] at hw
    obtain ⟨⟨⟨wa, wb⟩, sa, _⟩, sb, _⟩ := hw
    simp only [shape, List.length_nil] at hc
    simp only [renameIdx, renameIdxL, eval]
    rw [iha wa (by simp [sa, hc]) ι' hι, ihb wb (by simp [sb, hc]) ι' hι]
  -- 30 variable
  · intro side ι aux c a l ih hw hc ι' hι
    cases l <;> simp only [WF, Bool.false_eq_true] at hw
    simp only [shape] at hc
    simp only [renameIdx, renameIdxL, eval]; exact ih hw hc ι' hι
  -- 31-32 restrictions
  · intro side ι aux c a ih hw hc ι' hι
    simp only [WF] at hw; simp only [shape] at hc
    simp only [renameIdx, renameIdxL, eval]; exact ih hw hc ι' hι
  · intro side ι aux c a ih hw hc ι' hι
    simp only [WF] at hw; simp only [shape] at hc
    simp only [renameIdx, renameIdxL, eval]; exact ih hw hc ι' hι
  -- 33 atan2
  · intro side ι aux c a b iha ihb hw hc ι' hι
    simp only [WF, Bool.and_eq_true, List.isEmpty_iff, trueScalar] at hw
    obtain ⟨⟨⟨wa, wb⟩, sa, _⟩, sb, _⟩ := hw
    simp only [shape, List.length_nil] at hc
    simp only [renameIdx, renameIdxL, eval]
    rw [iha wa (by simp [sa, hc]) ι' hι, ihb wb (by simp [sb, hc]) ι' hι]
  -- 34-37 Bessel functions are outside the verified fragment
  · intro side ι aux c n x _ _ hw; simp [WF] at hw
  · intro side ι aux c n x _ _ hw; simp [WF] at hw
  · intro side ι aux c n x _ _ hw; simp [WF] at hw
  · intro side ι aux c n x _ _ hw; simp [WF] at hw
  -- 38-39 grad of a terminal chain: nothing to rename
  · intro side ι aux c a d k hk _ _ ι' _
    simp only [renameIdx, renameIdxL, gradChain_rename σ a (d, k) hk, eval, hk]
  · intro side ι aux c a hk hw _ _ _
    simp [WF, hk] at hw
  -- 40-41 math functions
  · intro side ι aux c fnk a h1 h2 h3 h4 h5 h6 h7 h8 n hn ih hw hc ι' hι
    have hwf : WF (.op fnk aux [a]) = (WF a && trueScalar a) := by
      cases fnk <;> simp_all [WF, mathName]
    have hsh : shape (.op fnk aux [a]) = [] := by
      cases fnk <;> simp_all [shape, mathName]
    have hev : ∀ (ι₁ : IdxEnv) (x : Expr), eval ρ side ι₁ (.op fnk aux [x]) c = ρ.fn n (eval ρ side ι₁ x c) := by
      intro ι₁ x; cases fnk <;> simp_all [eval, mathName]
    rw [hwf] at hw
    simp only [Bool.and_eq_true, trueScalar, List.isEmpty_iff] at hw
    obtain ⟨wa, sa, fa⟩ := hw
    rw [hsh] at hc
    have e : renameIdx σ (.op fnk aux [a]) = .op fnk aux [renameIdx σ a] := by simp only [renameIdx, renameIdxL]
    rw [e, hev, hev, ih wa (by simp [sa] at hc ⊢; exact hc) ι' hι]
  · intro side ι aux c fnk a h1 h2 h3 h4 h5 h6 h7 h8 hn hw
    cases fnk <;> simp_all [WF, mathName]
  -- 42 anything else is outside the verified fragment
  · intro side ι k aux args c
    intros
    intro hw
    unfold WF at hw
    split at hw <;> simp_all
  -- 43-48 comparisons
  · intro side ι aux a b iha ihb hw ι' hι
    simp only [WFC, Bool.and_eq_true, List.isEmpty_iff, trueScalar] at hw
    obtain ⟨⟨⟨wa, wb⟩, sa, _⟩, sb, _⟩ := hw
    simp only [renameIdx, renameIdxL, evalB]
    rw [iha wa (by simp [sa]) ι' hι, ihb wb (by simp [sb]) ι' hι]
  · intro side ι aux a b iha ihb hw ι' hι
    simp only [WFC, Bool.and_eq_true, List.isEmpty_iff, trueScalar] at hw
    obtain ⟨⟨⟨wa, wb⟩, sa, _⟩, sb, _⟩ := hw
    simp only [renameIdx, renameIdxL, evalB]
    rw [iha wa (by simp [sa]) ι' hι, ihb wb (by simp [sb]) ι' hι]
  · intro side ι aux a b iha ihb hw ι' hι
    simp only [WFC, Bool.and_eq_true, List.isEmpty_iff, trueScalar] at hw
    obtain ⟨⟨⟨wa, wb⟩, sa, _⟩, sb, _⟩ := hw
    simp only [renameIdx, renameIdxL, evalB]
    rw [iha wa (by simp [sa]) ι' hι, ihb wb (by simp [sb]) ι' hι]
  · intro side ι aux a b ihb iha hw ι' hι
    simp only [WFC, Bool.and_eq_true, List.isEmpty_iff, trueScalar] at hw
    obtain ⟨⟨⟨wa, wb⟩, sa, _⟩, sb, _⟩ := hw
    simp only [renameIdx, renameIdxL, evalB]
    rw [iha wa (by simp [sa]) ι' hι, ihb wb (by simp [sb]) ι' hι]
  · intro side ι aux a b ihb iha hw ι' hι
    simp only [WFC, Bool.and_eq_true, List.isEmpty_iff, trueScalar] at hw
    obtain ⟨⟨⟨wa, wb⟩, sa, _⟩, sb, _⟩ := hw
    simp only [renameIdx, renameIdxL, evalB]
    rw [iha wa (by simp [sa]) ι' hι, ihb wb (by simp [sb]) ι' hι]
  · intro side ι aux a b iha ihb hw ι' hι
    simp only [WFC, Bool.and_eq_true, List.isEmpty_iff, trueScalar] at hw
    obtain ⟨⟨⟨wa, wb⟩, sa, _⟩, sb, _⟩ := hw
    simp only [renameIdx, renameIdxL, evalB]
    rw [iha wa (by simp [sa]) ι' hι, ihb wb (by simp [sb]) ι' hι]
  -- 49-51 and / or / not
  · intro side ι aux a b iha ihb hw ι' hι
    simp only [WFC, Bool.and_eq_true] at hw
    simp only [renameIdx, renameIdxL, evalB]; rw [iha hw.1 ι' hι, ihb hw.2 ι' hι]
  · intro side ι aux a b iha ihb hw ι' hι
    simp only [WFC, Bool.and_eq_true] at hw
    simp only [renameIdx, renameIdxL, evalB]; rw [iha hw.1 ι' hι, ihb hw.2 ι' hι]
  · intro side ι aux a ih hw ι' hι
    simp only [WFC] at hw
    simp only [renameIdx, renameIdxL, evalB]; rw [ih hw ι' hι]
  -- 52-53 not a condition
  · intro side ι k aux args
    intros
    intro hw
    unfold WFC at hw
    split at hw <;> simp_all
  · intro side ι t
    intros
    intro hw
    unfold WFC at hw
    split at hw <;> simp_all
  -- 54-56 component selection in a list tensor
  · intro side ι n c _ _ ι' _; simp [renameIdxL, evalNth]
  · intro side ι x tail c ih hw hc ι' hι
    simp only [WFL, Bool.and_eq_true] at hw
    simp only [renameIdxL, evalNth]
    exact ih hw.1 (hc x (by simp)) ι' hι
  · intro side ι x xs n c ih hw hc ι' hι
    simp only [WFL, Bool.and_eq_true] at hw
    simp only [renameIdxL, evalNth]
    exact ih hw.2 (fun y hy => hc y (by simp [hy])) ι' hι


/-! ## Property theorems -/

/-- **C10r (static data).**  Renaming the index counts of a well-formed expression by an injective
    map keeps its shape, turns its free indices into exactly the renamed ones with the same extents
    (nothing else becomes free), and keeps it well formed. -/
theorem C10_rename_fi (σ : Nat → Nat) (hσ : Function.Injective σ) (e : Expr) (hw : WF e = true) :
    shape (renameIdx σ e) = shape e ∧
    (∀ i, FI.has (σ i) (fi (renameIdx σ e)) = FI.has i (fi e) ∧ FI.dimOf (σ i) (fi (renameIdx σ e)) = FI.dimOf i (fi e)) ∧
    (∀ k, FI.has k (fi (renameIdx σ e)) = true → ∃ i, k = σ i) ∧
    WF (renameIdx σ e) = true := by
  obtain ⟨hs, hr, hw'⟩ := (rename_aux hσ).1 e hw
  exact ⟨hs, fun i => ⟨hr.has i, hr.dim i⟩, hr.img, hw'⟩

/-- the same fact as an equation: the free-index list of the renamed expression is the renamed and
    re-sorted free-index list (what `Zero` nodes store) -/
theorem C10_rename_fi_eq (σ : Nat → Nat) (hσ : Function.Injective σ) (e : Expr) (hw : WF e = true) :
    fi (renameIdx σ e) = renameFI σ (fi e) := by
  obtain ⟨_, hr, hw'⟩ := (rename_aux hσ).1 e hw
  exact ren_unique hr (ren_renameFI hσ (fi e)) (fi_sorted _ hw') (renameFI_sorted σ (fi e))

/-- conditions stay well formed -/
theorem C10_rename_cond_wf (σ : Nat → Nat) (hσ : Function.Injective σ) (p : Expr) (hw : WFC p = true) :
    WFC (renameIdx σ p) = true := (rename_aux hσ).2.1 p hw

/-- **C10r (value).**  For every well-formed expression (any size), injective renaming `σ`,
    valuation, side, index environment `ι` and component: the value of the renamed expression under
    `ι` is the value of the original under `ι ∘ σ` — bound indices (of index sums and component
    tensors) included, since they are renamed consistently with their binders. -/
theorem C10_rename_value (ρ : Env K) (σ : Nat → Nat) (hσ : Function.Injective σ) (side : Side) (ι : IdxEnv)
    (e : Expr) (c : List Nat) (hw : WF e = true) (hc : c.length = (shape e).length) :
    eval ρ side ι (renameIdx σ e) c = eval ρ side (fun i => ι (σ i)) e c :=
  (value_aux ρ hσ).1 side (fun i => ι (σ i)) e c hw hc ι (fun _ => rfl)

/-- the same for conditions -/
theorem C10_rename_cond (ρ : Env K) (σ : Nat → Nat) (hσ : Function.Injective σ) (side : Side) (ι : IdxEnv)
    (p : Expr) (hw : WFC p = true) :
    evalB ρ side ι (renameIdx σ p) = evalB ρ side (fun i => ι (σ i)) p :=
  (value_aux ρ hσ).2.1 side (fun i => ι (σ i)) p hw ι (fun _ => rfl)

/-- renaming does not change the value of an expression without free indices -/
theorem C10_rename_closed (ρ : Env K) (σ : Nat → Nat) (hσ : Function.Injective σ) (side : Side) (ι : IdxEnv)
    (e : Expr) (c : List Nat) (hw : WF e = true) (hc : c.length = (shape e).length) (hf : fi e = []) :
    eval ρ side ι (renameIdx σ e) c = eval ρ side ι e c := by
  rw [C10_rename_value ρ σ hσ side ι e c hw hc]
  apply eval_congr ρ side e hw c hc
  intro i hi
  rw [hf] at hi
  cases hi

/-! ### the numbering used by `renumber_indices` -/

/-- `newNumber order` is injective (seen counts go to their position, unseen ones beyond the end) -/
theorem newNumber_injective (order : List Nat) : Function.Injective (newNumber order) := by
  intro a b h
  unfold newNumber at h
  cases ha : List.idxOf? a order with
  | none =>
    cases hb : List.idxOf? b order with
    | none => rw [ha, hb] at h; simp only at h; omega
    | some kb =>
      rw [ha, hb] at h; simp only at h
      obtain ⟨hlt, _, _⟩ := List.idxOf?_eq_some_iff.mp hb
      omega
  | some ka =>
    cases hb : List.idxOf? b order with
    | none =>
      rw [ha, hb] at h; simp only at h
      obtain ⟨hlt, _, _⟩ := List.idxOf?_eq_some_iff.mp ha
      omega
    | some kb =>
      rw [ha, hb] at h; simp only at h
      subst h
      obtain ⟨_, e1, _⟩ := List.idxOf?_eq_some_iff.mp ha
      obtain ⟨_, e2, _⟩ := List.idxOf?_eq_some_iff.mp hb
      rw [← e1, ← e2]

/-- **C10r (numbering).**  The new numbers are pairwise distinct. -/
theorem C10_newNumber_injective (order : List Nat) (_h : order.Nodup) : Function.Injective (newNumber order) :=
  newNumber_injective order

/-- for a duplicate-free order the `k`-th count met gets the number `k`: the new numbers of the
    counts that occur are exactly `0 .. n-1` -/
theorem C10_newNumber_position (order : List Nat) (h : order.Nodup) (k : Nat) (hk : k < order.length) :
    newNumber order order[k] = k := by
  have : List.idxOf? order[k] order = some k := by
    rw [List.idxOf?_eq_some_iff]
    refine ⟨hk, rfl, ?_⟩
    intro j hj e
    have := (h.getElem_inj_iff (hi := by omega) (hj := hk)).mp e
    omega
  simp [newNumber, this]

theorem addNew_nodup (acc : List Nat) (c : Nat) (h : acc.Nodup) : (addNew acc c).Nodup := by
  unfold addNew
  split
  · exact h
  · rename_i hc
    rw [List.nodup_append]
    refine ⟨h, List.nodup_singleton c, ?_⟩
    intro a ha b hb e
    simp only [List.mem_singleton] at hb
    subst hb; subst e
    exact hc (by simpa using ha)

theorem foldl_nodup {α : Type} (g : List Nat → α → List Nat) (hg : ∀ acc x, acc.Nodup → (g acc x).Nodup) :
    ∀ (l : List α) (acc : List Nat), acc.Nodup → (l.foldl g acc).Nodup
  | [], _, h => h
  | x :: xs, acc, h => foldl_nodup g hg xs _ (hg acc x h)

mutual
theorem firstSeen_nodup : ∀ (e : Expr) (acc : List Nat), acc.Nodup → (firstSeen e acc).Nodup
  | .mi is, acc, h => by
    simp only [firstSeen]
    exact foldl_nodup _ (fun a i ha => by cases i <;> simp [addNew_nodup, ha]) is acc h
  | .zero _ f, acc, h => by
    simp only [firstSeen]
    exact foldl_nodup _ (fun a p ha => addNew_nodup a p.1 ha) f acc h
  | .op _ _ args, acc, h => by
    simp only [firstSeen]
    exact firstSeenL_nodup args acc h
  | .int _, acc, h | .real _ _, acc, h | .cplx _ _ _ _, acc, h | .term _, acc, h => by
    simpa [firstSeen] using h
theorem firstSeenL_nodup : ∀ (xs : List Expr) (acc : List Nat), acc.Nodup → (firstSeenL xs acc).Nodup
  | [], acc, h => by simpa [firstSeenL] using h
  | a :: as, acc, h => by
    simp only [firstSeenL]
    exact firstSeen_nodup a _ (firstSeenL_nodup as acc h)
end

/-- **C10r (first-seen order).**  The relabeller meets every index count once. -/
theorem C10_firstSeen_nodup (e : Expr) : (firstSeen e []).Nodup := firstSeen_nodup e [] List.nodup_nil

/-- the numbering chosen by `renumber_indices` is injective -/
theorem C10_renumber_injective (e : Expr) : Function.Injective (newNumber (firstSeen e [])) :=
  C10_newNumber_injective _ (C10_firstSeen_nodup e)

/-- **C10r (renumbering, static data).**  `renumber_indices`' renaming keeps shape and
    well-formedness and renames the free indices with their extents. -/
theorem C10_renumber_plain_fi (e : Expr) (hw : WF e = true) :
    shape (renameIdx (newNumber (firstSeen e [])) e) = shape e ∧
    fi (renameIdx (newNumber (firstSeen e [])) e) = renameFI (newNumber (firstSeen e [])) (fi e) ∧
    WF (renameIdx (newNumber (firstSeen e [])) e) = true :=
  ⟨(C10_rename_fi _ (C10_renumber_injective e) e hw).1, C10_rename_fi_eq _ (C10_renumber_injective e) e hw,
   (C10_rename_fi _ (C10_renumber_injective e) e hw).2.2.2⟩

/-- **C10r (renumbering, value).**  The renumbered expression under `ι` has the value of the
    original under `ι ∘ newNumber`. -/
theorem C10_renumber_plain_value (ρ : Env K) (side : Side) (ι : IdxEnv) (e : Expr) (c : List Nat)
    (hw : WF e = true) (hc : c.length = (shape e).length) :
    eval ρ side ι (renameIdx (newNumber (firstSeen e [])) e) c =
      eval ρ side (fun i => ι (newNumber (firstSeen e []) i)) e c :=
  C10_rename_value ρ _ (C10_renumber_injective e) side ι e c hw hc

/-- **C10r (renumbering of closed expressions).**  Without free indices the value does not depend
    on the index environment, so renumbering leaves it unchanged. -/
theorem C10_renumber_closed (ρ : Env K) (side : Side) (ι : IdxEnv) (e : Expr) (c : List Nat)
    (hw : WF e = true) (hc : c.length = (shape e).length) (hf : fi e = []) :
    eval ρ side ι (renameIdx (newNumber (firstSeen e [])) e) c = eval ρ side ι e c :=
  C10_rename_closed ρ _ (C10_renumber_injective e) side ι e c hw hc hf

/-! ### non-vacuity -/

/-- `sum_i A[i, j]` with the bound index 3 and the free index 5 (extent 3) -/
def exA : Expr := .term { cls := "Coefficient", key := "A", shape := [2, 3] }
def exE : Expr := .op .indexSum [] [.op .indexed [] [exA, .mi [.free 3, .free 5]], .mi [.free 3]]
/-- the closed expression `sum_j (sum_i A[i, j]) * (sum_i A[i, j])` (no free index left) -/
def exC : Expr := .op .indexSum [] [.op .product [] [exE, exE], .mi [.free 5]]

example : WF exE = true ∧ fi exE = [(5, 3)] ∧ shape exE = [] := by decide
example : firstSeen exE [] = [3, 5] := by decide
example : beq (renameIdx (newNumber (firstSeen exE [])) exE)
    (.op .indexSum [] [.op .indexed [] [exA, .mi [.free 0, .free 1]], .mi [.free 0]]) = true := by decide
example : beq (renameIdx (newNumber (firstSeen exE [])) exE) exE = false := by decide
example : fi (renameIdx (newNumber (firstSeen exE [])) exE) = [(1, 3)] := by decide
/-- the hypotheses of the value theorem hold for it -/
example (ρ : Env K) (ι : IdxEnv) :
    eval ρ .none ι (renameIdx (newNumber (firstSeen exE [])) exE) [] =
      eval ρ .none (fun i => ι (newNumber (firstSeen exE []) i)) exE [] :=
  C10_renumber_plain_value ρ .none ι exE [] (by decide) (by decide)
/-- an explicit injective renaming (shift by 10) -/
example (ρ : Env K) (ι : IdxEnv) :
    eval ρ .none ι (renameIdx (· + 10) exE) [] = eval ρ .none (fun i => ι (i + 10)) exE [] :=
  C10_rename_value ρ (· + 10) (fun a b h => by simpa using h) .none ι exE [] (by decide) (by decide)
/-- a closed expression that renumbering changes as a tree but not in value -/
example : WF exC = true ∧ fi exC = [] ∧ beq (renameIdx (newNumber (firstSeen exC [])) exC) exC = false := by decide
example (ρ : Env K) (ι : IdxEnv) :
    eval ρ .none ι (renameIdx (newNumber (firstSeen exC [])) exC) [] = eval ρ .none ι exC [] :=
  C10_renumber_closed ρ .none ι exC [] (by decide) (by decide) (by decide)
/-- injectivity cannot be dropped: collapsing the two indices of `A[i, j]` (extents 2 and 3) makes
    the expression ill formed -/
example : WF (.op .indexed [] [exA, .mi [.free 3, .free 5]]) = true ∧
    WF (renameIdx (fun _ => 0) (.op .indexed [] [exA, .mi [.free 3, .free 5]])) = false := by decide

end UflVerif.C10r
