/-
C15  Integral grouping preserves what is integrated on each subdomain.

Theorems about the model of `group_form_integrals` / `build_integral_data` (Model/FormModel.lean), for all
forms: any number of integrals, any mix of subdomain ids (ints, tuples with repetitions, everywhere),
any metadata, any stacks of coordinate derivatives, both append options, integrands in an arbitrary
additive commutative monoid.
-/
import UflVerif.Model.FormModel
import Mathlib.Algebra.BigOperators.Group.List.Basic
import Mathlib.Algebra.Group.Hom.Defs
import Mathlib.Data.List.Nodup
import Mathlib.Tactic.Abel

set_option linter.unusedSectionVars false

namespace UflVerif
namespace FormModel
open List

/-! ## Sums over lists -/
section Sums
variable {V : Type} [AddCommMonoid V]

theorem sum_map_perm {α : Type} {l₁ l₂ : List α} (h : l₁ ~ l₂) (f : α → V) : (l₁.map f).sum = (l₂.map f).sum :=
  (h.map f).sum_eq

theorem sum_map_append {α : Type} (l₁ l₂ : List α) (f : α → V) :
    ((l₁ ++ l₂).map f).sum = (l₁.map f).sum + (l₂.map f).sum := by
  simp

theorem sum_map_flatMap {α β : Type} (l : List α) (g : α → List β) (f : β → V) :
    ((l.flatMap g).map f).sum = (l.map fun a => ((g a).map f).sum).sum := by
  induction l with
  | nil => simp
  | cons a l ih => simp [List.flatMap_cons, ih]

theorem sum_map_zero' {α : Type} (l : List α) (f : α → V) (h : ∀ a ∈ l, f a = 0) : (l.map f).sum = 0 := by
  induction l with
  | nil => simp
  | cons a l ih =>
    simp only [map_cons, sum_cons]
    rw [h a (by simp), ih (fun b hb => h b (by simp [hb])), add_zero]

theorem sum_map_const_zero {α : Type} (l : List α) : (l.map fun _ => (0 : V)).sum = 0 :=
  sum_map_zero' l _ (fun _ _ => rfl)

theorem sum_map_congr {α : Type} (l : List α) (f g : α → V) (h : ∀ a ∈ l, f a = g a) : (l.map f).sum = (l.map g).sum := by
  induction l with
  | nil => simp
  | cons a l ih =>
    simp only [map_cons, sum_cons]
    rw [h a (by simp), ih (fun b hb => h b (by simp [hb]))]

theorem sum_map_add' {α : Type} (l : List α) (f g : α → V) :
    (l.map fun a => f a + g a).sum = (l.map f).sum + (l.map g).sum := by
  induction l with
  | nil => simp
  | cons a l ih => simp only [map_cons, sum_cons, ih]; abel

theorem sum_map_filter_ite {α : Type} (l : List α) (p : α → Prop) [DecidablePred p] (f : α → V) :
    ((l.filter (fun a => decide (p a))).map f).sum = (l.map fun a => if p a then f a else 0).sum := by
  induction l with
  | nil => simp
  | cons a l ih =>
    by_cases h : p a <;> simp [h, ih]

theorem sum_map_nsmul_const {α : Type} (l : List α) (p : α → Prop) [DecidablePred p] (v : V) :
    (l.map fun a => (if p a then 1 else 0 : Nat) • v).sum = (l.countP (fun a => decide (p a))) • v := by
  induction l with
  | nil => simp
  | cons a l ih =>
    by_cases h : p a
    · simp only [map_cons, sum_cons, ih, h, if_true, countP_cons, decide_true]
      rw [add_nsmul, add_comm]
    · simp only [map_cons, sum_cons, ih, h, if_false, countP_cons, decide_false, zero_nsmul, zero_add]
      simp

theorem hom_sum_map {W : Type} [AddCommMonoid W] {α : Type} (h : V →+ W) (l : List α) (f : α → V) :
    h ((l.map f).sum) = (l.map fun a => h (f a)).sum := by
  induction l with
  | nil => simp
  | cons a l ih => simp [ih]

end Sums

/-! ## Sorting -/

theorem insertBy_perm {α : Type} (le : α → α → Bool) (a : α) (l : List α) : insertBy le a l ~ a :: l := by
  induction l with
  | nil => simp [insertBy]
  | cons b l ih =>
    unfold insertBy
    split
    · exact Perm.refl _
    · exact (Perm.cons b ih).trans (Perm.swap a b l)

theorem stableSort_perm {α : Type} (le : α → α → Bool) (l : List α) : stableSort le l ~ l := by
  induction l with
  | nil => simp [stableSort]
  | cons a l ih => exact (insertBy_perm le a _).trans (Perm.cons a ih)

/-! ## Insertion-ordered dicts of lists -/
section Dict
variable {K α : Type} [DecidableEq K]

/-- `d.get(k, [])` -/
def lookupL : List (K × List α) → K → List α
  | [], _ => []
  | (k', l) :: rest, k => if k' = k then l else lookupL rest k

theorem lookupL_dictAppend (d : List (K × List α)) (k k' : K) (v : α) :
    lookupL (dictAppend d k v) k' = if k' = k then lookupL d k ++ [v] else lookupL d k' := by
  induction d with
  | nil =>
    by_cases h : k' = k
    · subst h; simp [dictAppend, lookupL]
    · have h' : ¬ k = k' := fun e => h e.symm
      simp [dictAppend, lookupL, h, h']
  | cons p d ih =>
    obtain ⟨k₀, l⟩ := p
    by_cases h0 : k₀ = k
    · subst h0
      by_cases h : k' = k₀
      · subst h; simp [dictAppend, lookupL]
      · have h' : ¬ k₀ = k' := fun e => h e.symm
        simp [dictAppend, lookupL, h, h']
    · by_cases h : k' = k
      · subst h; simp [dictAppend, lookupL, h0, ih]
      · by_cases h1 : k₀ = k'
        · subst h1; simp [dictAppend, lookupL, h]
        · simp [dictAppend, lookupL, h0, h1, ih, h]

theorem keys_dictAppend (d : List (K × List α)) (k : K) (v : α) :
    (dictAppend d k v).map (·.1) = if k ∈ d.map (·.1) then d.map (·.1) else d.map (·.1) ++ [k] := by
  induction d with
  | nil => simp [dictAppend]
  | cons p d ih =>
    obtain ⟨k₀, l⟩ := p
    by_cases h0 : k₀ = k
    · subst h0; simp [dictAppend]
    · have h0' : ¬ k = k₀ := fun e => h0 e.symm
      simp only [dictAppend, h0, if_false, map_cons, ih, mem_cons, h0', false_or]
      by_cases hm : k ∈ d.map (·.1) <;> simp [hm]

theorem dictAppend_flat_perm (d : List (K × List α)) (k : K) (v : α) :
    (dictAppend d k v).flatMap (·.2) ~ d.flatMap (·.2) ++ [v] := by
  induction d with
  | nil => simp [dictAppend]
  | cons p d ih =>
    obtain ⟨k₀, l⟩ := p
    by_cases h0 : k₀ = k
    · subst h0
      simp only [dictAppend, if_true, flatMap_cons, append_assoc]
      exact Perm.append_left l perm_append_comm
    · simp only [dictAppend, h0, if_false, flatMap_cons, append_assoc]
      exact Perm.append_left l ih

theorem lookupL_of_not_mem (d : List (K × List α)) (k : K) (h : k ∉ d.map (·.1)) : lookupL d k = [] := by
  induction d with
  | nil => rfl
  | cons p d ih =>
    obtain ⟨k₀, l⟩ := p
    simp only [map_cons, mem_cons, not_or] at h
    have h0 : ¬ k₀ = k := fun e => h.1 e.symm
    simp [lookupL, h0, ih h.2]

theorem lookupL_of_mem (d : List (K × List α)) (hnd : (d.map (·.1)).Nodup) (p : K × List α) (hp : p ∈ d) :
    lookupL d p.1 = p.2 := by
  induction d with
  | nil => simp at hp
  | cons q d ih =>
    obtain ⟨k₀, l⟩ := q
    simp only [map_cons, nodup_cons] at hnd
    rcases mem_cons.1 hp with rfl | hp'
    · simp [lookupL]
    · have : ¬ k₀ = p.1 := by
        intro e
        exact hnd.1 (e ▸ mem_map_of_mem hp')
      simp [lookupL, this, ih hnd.2 hp']

section Fold
variable (key : α → K)

theorem lookupL_fold (xs : List α) (d : List (K × List α)) (k : K) :
    lookupL (xs.foldl (fun d x => dictAppend d (key x) x) d) k = lookupL d k ++ xs.filter (fun x => decide (key x = k)) := by
  induction xs generalizing d with
  | nil => simp
  | cons x xs ih =>
    simp only [foldl_cons, ih, lookupL_dictAppend]
    by_cases h : k = key x
    · subst h; simp
    · have h' : ¬ key x = k := fun e => h e.symm
      simp [h, h']

theorem keys_fold_nodup (xs : List α) (d : List (K × List α)) (h : (d.map (·.1)).Nodup) :
    ((xs.foldl (fun d x => dictAppend d (key x) x) d).map (·.1)).Nodup := by
  induction xs generalizing d with
  | nil => simpa
  | cons x xs ih =>
    simp only [foldl_cons]
    apply ih
    rw [keys_dictAppend]
    by_cases hm : key x ∈ d.map (·.1)
    · simpa [hm] using h
    · simp only [hm, if_false]
      exact Nodup.append h (by simp) (by simpa using hm)

theorem mem_keys_fold (xs : List α) (d : List (K × List α)) (k : K) :
    k ∈ (xs.foldl (fun d x => dictAppend d (key x) x) d).map (·.1) ↔ k ∈ d.map (·.1) ∨ ∃ x ∈ xs, key x = k := by
  induction xs generalizing d with
  | nil => simp
  | cons x xs ih =>
    simp only [foldl_cons, ih, keys_dictAppend]
    by_cases hm : key x ∈ d.map (·.1)
    · simp only [hm, if_true, mem_cons, exists_eq_or_imp]
      constructor
      · rintro (h | h)
        · exact Or.inl h
        · exact Or.inr (Or.inr h)
      · rintro (h | h | h)
        · exact Or.inl h
        · exact Or.inl (h ▸ hm)
        · exact Or.inr h
    · simp only [hm, if_false, mem_append, mem_cons, exists_eq_or_imp, not_mem_nil, or_false]
      constructor
      · rintro ((h | h) | h)
        · exact Or.inl h
        · exact Or.inr (Or.inl h.symm)
        · exact Or.inr (Or.inr h)
      · rintro (h | h | h)
        · exact Or.inl (Or.inl h)
        · exact Or.inl (Or.inr h.symm)
        · exact Or.inr h

theorem fold_flat_perm (xs : List α) (d : List (K × List α)) :
    (xs.foldl (fun d x => dictAppend d (key x) x) d).flatMap (·.2) ~ d.flatMap (·.2) ++ xs := by
  induction xs generalizing d with
  | nil => simp
  | cons x xs ih =>
    simp only [foldl_cons]
    refine (ih _).trans ?_
    refine ((dictAppend_flat_perm d (key x) x).append_right xs).trans ?_
    simp

end Fold

theorem lookupL_groupBy (key : α → K) (xs : List α) (k : K) :
    lookupL (groupBy key xs) k = xs.filter (fun x => decide (key x = k)) := by
  simp [groupBy, lookupL_fold, lookupL]

theorem groupBy_keys_nodup (key : α → K) (xs : List α) : ((groupBy key xs).map (·.1)).Nodup :=
  keys_fold_nodup key xs [] (by simp)

theorem mem_groupBy_keys (key : α → K) (xs : List α) (k : K) :
    k ∈ (groupBy key xs).map (·.1) ↔ ∃ x ∈ xs, key x = k := by
  simp [groupBy, mem_keys_fold]

theorem groupBy_perm (key : α → K) (xs : List α) : (groupBy key xs).flatMap (·.2) ~ xs := by
  simpa [groupBy] using fold_flat_perm key xs []

/-- every entry of the dict is the list of all elements with that key, in their original order -/
theorem groupBy_entry (key : α → K) (xs : List α) (p : K × List α) (hp : p ∈ groupBy key xs) :
    p.2 = xs.filter (fun x => decide (key x = p.1)) := by
  rw [← lookupL_groupBy, lookupL_of_mem _ (groupBy_keys_nodup key xs) p hp]

theorem groupBy_entry_key (key : α → K) (xs : List α) (p : K × List α) (hp : p ∈ groupBy key xs) :
    ∀ x ∈ p.2, key x = p.1 := by
  intro x hx
  rw [groupBy_entry key xs p hp] at hx
  simpa using (mem_filter.1 hx).2

theorem groupBy_entry_sub (key : α → K) (xs : List α) (p : K × List α) (hp : p ∈ groupBy key xs) :
    ∀ x ∈ p.2, x ∈ xs := by
  intro x hx
  rw [groupBy_entry key xs p hp] at hx
  exact (mem_filter.1 hx).1

theorem sortByKey_perm {β : Type} (le : K → K → Bool) (d : List (K × β)) : sortByKey le d ~ d :=
  stableSort_perm _ _

variable {V : Type} [AddCommMonoid V]

/-- a sum over the entries that selects one key is the value at that key's list -/
theorem sum_select (d : List (K × List α)) (hnd : (d.map (·.1)).Nodup) (x : K) (φ : List α → V) (h0 : φ [] = 0) :
    (d.map fun p => if p.1 = x then φ p.2 else 0).sum = φ (lookupL d x) := by
  induction d with
  | nil => simp [lookupL, h0]
  | cons q d ih =>
    obtain ⟨k₀, l⟩ := q
    simp only [map_cons, nodup_cons] at hnd
    by_cases h : k₀ = x
    · subst h
      have hz : (d.map fun p => if p.1 = k₀ then φ p.2 else 0).sum = 0 := by
        apply sum_map_zero'
        intro p hp
        have : ¬ p.1 = k₀ := fun e => hnd.1 (e ▸ mem_map_of_mem hp)
        simp [this]
      simp [lookupL, hz]
    · simp [lookupL, h, ih hnd.2]

/-- summing a function of the entries over the whole dict is summing it over the grouped list -/
theorem sum_groupBy (key : α → K) (xs : List α) (f : α → V) :
    ((groupBy key xs).map fun p => (p.2.map f).sum).sum = (xs.map f).sum := by
  rw [← sum_map_flatMap, sum_map_perm (groupBy_perm key xs)]

end Dict

/-! ## Meaning of integrands -/

/-- an interpretation of integrands in an additive commutative monoid: base integrands have values, a stack
    of coordinate derivatives acts additively on values -/
structure Sem (M V : Type) [AddCommMonoid V] where
  val : M → V
  cd : List CDTok → V →+ V

section Meaning
variable {M MD H V : Type} [DecidableEq M] [DecidableEq H] [DecidableEq MD] [AddCommMonoid V]

def Sem.full (S : Sem M V) (i : CDI M) : V := S.cd i.cds (S.val i.base)

/-- the integrand operations mean what they say (`+` adds values: C05; renumbering keeps values: C10) -/
structure Lawful (ops : Ops M MD H) (S : Sem M V) : Prop where
  val_add : ∀ a b, S.val (ops.add a b) = S.val a + S.val b
  val_renum : ∀ a, S.val (ops.renum a) = S.val a

variable {ops : Ops M MD H} {S : Sem M V}

omit [DecidableEq M] [DecidableEq H] [DecidableEq MD] in
theorem val_foldl_add (law : Lawful ops S) (xs : List M) (x : M) :
    S.val (xs.foldl ops.add x) = S.val x + (xs.map S.val).sum := by
  induction xs generalizing x with
  | nil => simp
  | cons y ys ih => simp only [foldl_cons, ih, law.val_add, map_cons, sum_cons, add_assoc]

theorem val_sumSorted (law : Lawful ops S) (l : List M) (hl : l ≠ []) :
    ∃ s, sumSorted ops l = some s ∧ S.val s = (l.map S.val).sum := by
  have hp := stableSort_perm (fun a b => ops.cmp a b != .gt) l
  unfold sumSorted
  cases hm : stableSort (fun a b => ops.cmp a b != .gt) l with
  | nil =>
    rw [hm] at hp
    exact absurd hp.symm.eq_nil hl
  | cons x xs =>
    refine ⟨_, rfl, ?_⟩
    rw [val_foldl_add law, ← sum_map_perm hp S.val, hm]
    simp

theorem sum_map_filterMap {α β : Type} (l : List α) (F : α → Option β) (w : β → V) :
    ((l.filterMap F).map w).sum = (l.map fun a => match F a with | some b => w b | none => 0).sum := by
  induction l with
  | nil => simp
  | cons a l ih =>
    cases h : F a <;> simp [h, ih]

/-- the grouping key of the metadata (canonicalisation, then hash) is injective on the metadata of the list -/
def MdInj {I : Type} (ops : Ops M MD H) (L : List (Integral I MD)) : Prop :=
  ∀ a ∈ L, ∀ b ∈ L, ops.mdkey a.md = ops.mdkey b.md → a.md = b.md

instance {I : Type} (ops : Ops M MD H) (L : List (Integral I MD)) : Decidable (MdInj ops L) := by
  unfold MdInj; infer_instance

theorem sum_accumulated (law : Lawful ops S) (B : List (Integral M MD)) (hinj : MdInj ops B) (md : MD) :
    ((accumulated ops B).map fun em => if em.2 = md then S.val em.1 else 0).sum
      = (B.map fun i => if i.md = md then S.val i.integrand else 0).sum := by
  unfold accumulated
  rw [sum_map_filterMap, ← sum_groupBy (fun i => ops.mdkey i.md) B]
  apply sum_map_congr
  intro p hp
  have hk := groupBy_entry_key _ B p hp
  have hsub := groupBy_entry_sub _ B p hp
  cases hp2 : p.2 with
  | nil => simp
  | cons i rest =>
    obtain ⟨s, hs, hv⟩ := val_sumSorted law (p.2.map (·.integrand)) (by simp [hp2])
    rw [hp2] at hs hv
    simp only [hs]
    have hmd : ∀ j ∈ i :: rest, j.md = i.md := by
      intro j hj
      rw [← hp2] at hj
      apply hinj j (hsub j hj) i (hsub i (by simp [hp2]))
      rw [hk j hj, hk i (by simp [hp2])]
    by_cases hmm : i.md = md
    · simp only [hmm, if_true, hv]
      rw [map_map]
      apply sum_map_congr
      intro j hj
      simp [← hmm, hmd j hj]
    · simp only [hmm, if_false]
      symm
      apply sum_map_zero'
      intro j hj
      have : ¬ j.md = md := by rw [hmd j hj]; exact hmm
      simp [this]

theorem sum_accumulate (law : Lawful ops S) (B : List (Integral M MD)) (hinj : MdInj ops B) (md : MD) :
    ((accumulate ops B).map fun em => if em.2 = md then S.val em.1 else 0).sum
      = (B.map fun i => if i.md = md then S.val i.integrand else 0).sum := by
  unfold accumulate
  rw [sum_map_perm (stableSort_perm _ _), sum_accumulated law B hinj md]

theorem accumulate_md_sub (B : List (Integral M MD)) (em : M × MD) (h : em ∈ accumulate ops B) :
    ∃ i ∈ B, em.2 = i.md := by
  unfold accumulate at h
  have h' := (stableSort_perm _ _).subset h
  unfold accumulated at h'
  obtain ⟨p, hp, hF⟩ := mem_filterMap.1 h'
  have hsub := groupBy_entry_sub _ B p hp
  cases hp2 : p.2 with
  | nil => simp [hp2] at hF
  | cons i rest =>
    rw [hp2] at hF
    simp only [map_cons] at hF
    cases hs : sumSorted ops (i.integrand :: map (fun x => x.integrand) rest) with
    | none => rw [hs] at hF; simp at hF
    | some s =>
      rw [hs] at hF
      simp only [Option.some.injEq] at hF
      exact ⟨i, hsub i (by simp [hp2]), by rw [← hF]⟩

/-! ## What a form integrates where -/

/-- a place where something is integrated: domain, integral type, extra-domain map, subdomain label, metadata -/
structure Key (MD : Type) where
  domain : Nat
  itype : String
  extra : Nat
  sid : Sid
  md : MD

/-- the integral belongs to the key's domain, type, extra-domain map and metadata -/
def Key.fits {I : Type} (κ : Key MD) (o : Integral I MD) : Prop :=
  o.domain = κ.domain ∧ o.itype = κ.itype ∧ o.extra = κ.extra ∧ o.md = κ.md

instance {I : Type} (κ : Key MD) (o : Integral I MD) : Decidable (κ.fits o) := by
  unfold Key.fits; infer_instance

/-- what a grouped integral contributes at a key: its integrand, once per occurrence of the label in its
    subdomain id -/
def weight (S : Sem M V) (κ : Key MD) (o : Integral (CDI M) MD) : V :=
  if κ.fits o then (o.sid.count κ.sid) • S.full o.integrand else 0

/-- the total integrand a (grouped) form integrates at a key -/
def total (S : Sem M V) (G : Form (CDI M) MD) (κ : Key MD) : V := (G.map (weight S κ)).sum

theorem total_perm (S : Sem M V) {G₁ G₂ : Form (CDI M) MD} (h : G₁ ~ G₂) (κ : Key MD) : total S G₁ κ = total S G₂ κ :=
  sum_map_perm h _

theorem total_flatMap {α : Type} (S : Sem M V) (l : List α) (g : α → Form (CDI M) MD) (κ : Key MD) :
    total S (l.flatMap g) κ = (l.map fun a => total S (g a) κ).sum :=
  sum_map_flatMap l g _

/-- coordinate-derivative stacks that `calc_hash` does not separate act in the same way -/
def CdCompat {MD : Type} (S : Sem M V) (L : List (Integral (CDI M) MD)) : Prop :=
  ∀ a ∈ L, ∀ b ∈ L, calcHash a.integrand.cds = calcHash b.integrand.cds → S.cd a.integrand.cds = S.cd b.integrand.cds

theorem total_emitSubdomain (law : Lawful ops S) (t : String) (d x : Nat) (s : Sid) (ss : List (Integral (CDI M) MD))
    (hinj : MdInj ops ss) (hcd : CdCompat S ss) (κ : Key MD) :
    total S (emitSubdomain ops t d x s ss) κ
      = if d = κ.domain ∧ t = κ.itype ∧ x = κ.extra ∧ s = κ.sid then
          (ss.map fun i => if i.md = κ.md then S.full i.integrand else 0).sum
        else 0 := by
  unfold emitSubdomain
  simp only []
  rw [total_flatMap, sum_map_perm (sortByKey_perm _ _)]
  -- per coordinate-derivative group
  have key : ∀ g ∈ groupBy (fun p : Integral M MD × List CDTok => calcHash p.2) (ss.map strip),
      total S (match g.2 with
        | [] => []
        | first :: _ => (accumulate ops (g.2.map Prod.fst)).map fun em =>
            ({ integrand := { cds := first.2, base := em.1 }, itype := t, domain := d, sid := .one s, md := em.2, extra := x } : Integral (CDI M) MD)) κ
      = (g.2.map fun p => if d = κ.domain ∧ t = κ.itype ∧ x = κ.extra ∧ s = κ.sid then
            (if p.1.md = κ.md then S.cd p.2 (S.val p.1.integrand) else 0) else 0).sum := by
    intro g hg
    have hk := groupBy_entry_key _ _ g hg
    have hsub := groupBy_entry_sub _ _ g hg
    cases hg2 : g.2 with
    | nil => simp [total]
    | cons first rest =>
      simp only []
      by_cases hC : d = κ.domain ∧ t = κ.itype ∧ x = κ.extra ∧ s = κ.sid
      · obtain ⟨h1, h2, h3, h4⟩ := hC
        subst h1 h2 h3 h4
        simp only [and_self, if_true]
        unfold total
        rw [map_map]
        -- members of the group come from `ss`
        have hmem : ∀ p ∈ first :: rest, ∃ i ∈ ss, p = strip i := by
          intro p hp
          rw [← hg2] at hp
          obtain ⟨i, hi, e⟩ := mem_map.1 (hsub p hp)
          exact ⟨i, hi, e.symm⟩
        have hinj' : MdInj ops ((first :: rest).map Prod.fst) := by
          intro a ha b hb hab
          obtain ⟨pa, hpa, rfl⟩ := mem_map.1 ha
          obtain ⟨pb, hpb, rfl⟩ := mem_map.1 hb
          obtain ⟨ia, hia, rfl⟩ := hmem pa hpa
          obtain ⟨ib, hib, rfl⟩ := hmem pb hpb
          exact hinj ia hia ib hib hab
        have hacc := sum_accumulate law ((first :: rest).map Prod.fst) hinj' κ.md
        have step : ((accumulate ops ((first :: rest).map Prod.fst)).map
              (weight S κ ∘ fun em => ({ integrand := { cds := first.2, base := em.1 }, itype := κ.itype, domain := κ.domain, sid := .one κ.sid, md := em.2, extra := κ.extra } : Integral (CDI M) MD))).sum
            = ((accumulate ops ((first :: rest).map Prod.fst)).map fun em => S.cd first.2 (if em.2 = κ.md then S.val em.1 else 0)).sum := by
          apply sum_map_congr
          intro em _
          by_cases hm : em.2 = κ.md
          · simp [weight, Key.fits, SubId.count, Sem.full, hm, one_nsmul]
          · simp [weight, Key.fits, hm]
        rw [step, ← hom_sum_map, hacc, hom_sum_map, map_map]
        apply sum_map_congr
        intro p hp
        have hcdp : S.cd first.2 = S.cd p.2 := by
          obtain ⟨ip, hip, rfl⟩ := hmem p hp
          obtain ⟨i1, hi1, e1⟩ := hmem first (by simp)
          rw [e1]
          apply hcd i1 hi1 ip hip
          have := hk first (by rw [hg2]; simp)
          have h2 := hk (strip ip) (by rw [hg2]; exact hp)
          rw [e1] at this
          simp only [strip] at this h2
          rw [this, h2]
        by_cases hm : p.1.md = κ.md
        · simp [hm, hcdp]
        · simp [hm]
      · simp only [hC, if_false]
        rw [sum_map_zero' _ _ (fun _ _ => rfl)]
        unfold total
        apply sum_map_zero'
        intro o ho
        obtain ⟨em, _, rfl⟩ := mem_map.1 ho
        unfold weight Key.fits SubId.count
        by_cases hf : d = κ.domain ∧ t = κ.itype ∧ x = κ.extra ∧ em.2 = κ.md
        · have hs : ¬ s = κ.sid := fun e => hC ⟨hf.1, hf.2.1, hf.2.2.1, e⟩
          simp [hs]
        · simp [hf]
  refine (sum_map_congr _ _ _ key).trans ?_
  rw [sum_groupBy (fun p : Integral M MD × List CDTok => calcHash p.2) (ss.map strip)
    (fun p => if d = κ.domain ∧ t = κ.itype ∧ x = κ.extra ∧ s = κ.sid then
            (if p.1.md = κ.md then S.cd p.2 (S.val p.1.integrand) else 0) else 0), map_map]
  by_cases hC : d = κ.domain ∧ t = κ.itype ∧ x = κ.extra ∧ s = κ.sid
  · simp only [hC, and_self, if_true]
    apply sum_map_congr
    intro i _
    by_cases hm : i.md = κ.md <;> simp [strip, Sem.full, hm]
  · simp only [hC, if_false]
    exact sum_map_zero' _ _ (fun _ _ => rfl)

/-! ## The specification: what the original form integrates where -/

/-- how many times an integral with subdomain id `sid` is integrated over the label `s`: once per occurrence
    of an integer label in its id; an 'everywhere' integral once on 'otherwise' and, with the append option,
    once on every integer label `present` in its (domain, type, extra-map) bucket -/
def appliesIn (opt : Bool) (present : List Int) (sid : SubId) (s : Sid) : Nat :=
  match s with
  | .int j => (match integralSubdomainIds sid with
      | some (.ids l) => l.count j
      | some .everywhere => if opt = true ∧ j ∈ present then 1 else 0
      | _ => 0)
  | .otherwise => (match integralSubdomainIds sid with
      | some .everywhere => 1
      | _ => 0)
  | _ => 0

section Rearrange
variable {I : Type}

theorem rearrange_eq (B : List (Integral I MD)) (opt : Bool) :
    rearrange B opt =
      ((groupBy Prod.fst (subdomainPairs B)).map fun p =>
        (Sid.int p.1, p.2.map Prod.snd ++ (if opt then (B.filter isEverywhere).map fun e => { e with sid := .one (.int p.1) } else [])))
      ++ (if (B.filter isEverywhere).isEmpty then []
          else [(Sid.otherwise, (B.filter isEverywhere).map fun e => { e with sid := .one .otherwise })]) := by
  unfold rearrange
  cases opt <;> cases h : (B.filter isEverywhere).isEmpty <;> simp [h, map_map, Function.comp_def]

theorem isEverywhere_iff (i : Integral I MD) : isEverywhere i = true ↔ integralSubdomainIds i.sid = some .everywhere := by
  unfold isEverywhere
  cases hs : i.sid with
  | one s => cases s <;> simp [integralSubdomainIds]
  | tup ss =>
    simp only [integralSubdomainIds, Bool.false_eq_true, false_iff]
    cases ss.mapM sidInt? <;> simp

theorem sum_ite_count (l : List Int) (j : Int) (v : V) :
    (l.map fun k => if k = j then v else 0).sum = (l.count j) • v := by
  induction l with
  | nil => simp
  | cons k l ih =>
    by_cases h : k = j
    · subst h
      simp only [map_cons, sum_cons, ih, if_true, count_cons_self, add_nsmul, one_nsmul]
      exact add_comm _ _
    · simp [ih, h]

theorem sum_select_const {K α : Type} [DecidableEq K] (d : List (K × List α)) (hnd : (d.map (·.1)).Nodup) (x : K) (v : V) :
    (d.map fun p => if p.1 = x then v else 0).sum = if x ∈ d.map (·.1) then v else 0 := by
  induction d with
  | nil => simp
  | cons q d ih =>
    obtain ⟨k₀, l⟩ := q
    simp only [map_cons, nodup_cons] at hnd
    by_cases h : k₀ = x
    · subst h
      have hz : (d.map fun p => if p.1 = k₀ then v else 0).sum = 0 := by
        apply sum_map_zero'
        intro p hp
        have : ¬ p.1 = k₀ := fun e => hnd.1 (e ▸ mem_map_of_mem hp)
        simp [this]
      simp [hz]
    · have h' : ¬ x = k₀ := fun e => h e.symm
      simp only [map_cons, sum_cons, h, if_false, zero_add, ih hnd.2, mem_cons, h', false_or]

theorem rearrange_keys_nodup (B : List (Integral I MD)) (opt : Bool) : ((rearrange B opt).map (·.1)).Nodup := by
  rw [rearrange_eq]
  have h1 := groupBy_keys_nodup Prod.fst (subdomainPairs B)
  have inj : Function.Injective Sid.int := fun a b e => by injection e
  have h2 : ((groupBy Prod.fst (subdomainPairs B)).map fun p => Sid.int p.1).Nodup := by
    have := h1.map inj
    simpa [map_map, Function.comp_def] using this
  by_cases hE : (B.filter isEverywhere).isEmpty = true
  · rw [if_pos hE]
    simpa [map_map, Function.comp_def] using h2
  · rw [if_neg hE]
    simp only [map_append, map_map, Function.comp_def, map_cons, map_nil]
    refine Nodup.append h2 (by simp) ?_
    simp

theorem rearrange_sub (B : List (Integral I MD)) (opt : Bool) (p : Sid × List (Integral I MD)) (hp : p ∈ rearrange B opt) :
    ∀ e ∈ p.2, ∃ i ∈ B, e.integrand = i.integrand ∧ e.md = i.md := by
  intro e he
  have hev : ∀ i ∈ B.filter isEverywhere, i ∈ B := fun i hi => (mem_filter.1 hi).1
  have hpairs : ∀ q ∈ subdomainPairs B, ∃ i ∈ B, q.2.integrand = i.integrand ∧ q.2.md = i.md := by
    intro q hq
    unfold subdomainPairs at hq
    obtain ⟨i, hi, hq'⟩ := mem_flatMap.1 hq
    refine ⟨i, hi, ?_⟩
    cases hids : integralSubdomainIds i.sid with
    | none => simp [hids] at hq'
    | some ds =>
      cases ds with
      | ids l =>
        simp only [hids, mem_map] at hq'
        obtain ⟨k, _, rfl⟩ := hq'
        exact ⟨rfl, rfl⟩
      | everywhere => simp [hids] at hq'
      | otherwise => simp [hids] at hq'
  rw [rearrange_eq] at hp
  rcases mem_append.1 hp with hp | hp
  · obtain ⟨g, hg, rfl⟩ := mem_map.1 hp
    rcases mem_append.1 he with he | he
    · obtain ⟨q, hq, rfl⟩ := mem_map.1 he
      exact hpairs q (groupBy_entry_sub _ _ g hg q hq)
    · cases opt with
      | false => simp at he
      | true =>
        simp only [if_true, mem_map] at he
        obtain ⟨i, hi, rfl⟩ := he
        exact ⟨i, hev i hi, rfl, rfl⟩
  · by_cases hE : (B.filter isEverywhere).isEmpty = true
    · rw [if_pos hE] at hp; simp at hp
    · rw [if_neg hE] at hp
      simp only [mem_singleton] at hp
      subst hp
      obtain ⟨i, hi, rfl⟩ := mem_map.1 he
      exact ⟨i, hev i hi, rfl, rfl⟩

theorem sum_rearrange (B : List (Integral I MD)) (opt : Bool) (s : Sid) (c : I → MD → V) :
    ((rearrange B opt).map fun p => if p.1 = s then (p.2.map fun i => c i.integrand i.md).sum else 0).sum
      = (B.map fun i => appliesIn opt ((subdomainPairs B).map Prod.fst) i.sid s • c i.integrand i.md).sum := by
  -- the everywhere integrals
  have hE : ((B.filter isEverywhere).map fun i => c i.integrand i.md).sum
      = (B.map fun i => if integralSubdomainIds i.sid = some .everywhere then c i.integrand i.md else 0).sum := by
    have := sum_map_filter_ite B (fun i => integralSubdomainIds i.sid = some Dids.everywhere) (fun i => c i.integrand i.md)
    rw [← this]
    congr 2
    apply filter_congr
    intro i _
    by_cases h : integralSubdomainIds i.sid = some Dids.everywhere
    · simp [h, (isEverywhere_iff i).2 h]
    · have : ¬ isEverywhere i = true := fun e => h ((isEverywhere_iff i).1 e)
      simp [h, this]
  rw [rearrange_eq, map_append, sum_append, map_map]
  cases s with
  | int j =>
    -- the 'otherwise' entry does not match
    have hO : ((if (B.filter isEverywhere).isEmpty then []
          else [(Sid.otherwise, (B.filter isEverywhere).map fun e => ({ e with sid := .one .otherwise } : Integral I MD))]).map
        fun p => if p.1 = Sid.int j then (p.2.map fun i => c i.integrand i.md).sum else 0).sum = 0 := by
      split <;> simp
    rw [hO, add_zero]
    -- split each entry into its own integrals and the appended everywhere integrals
    have hsplit : ∀ p ∈ groupBy Prod.fst (subdomainPairs B),
        ((fun p : Sid × List (Integral I MD) => if p.1 = Sid.int j then (p.2.map fun i => c i.integrand i.md).sum else 0) ∘
          fun p : Int × List (Int × Integral I MD) =>
            (Sid.int p.1, p.2.map Prod.snd ++ (if opt then (B.filter isEverywhere).map fun e => { e with sid := .one (.int p.1) } else []))) p
        = (if p.1 = j then (p.2.map fun q => c q.2.integrand q.2.md).sum else 0)
          + (if p.1 = j then (if opt then ((B.filter isEverywhere).map fun i => c i.integrand i.md).sum else 0) else 0) := by
      intro p _
      by_cases h : p.1 = j
      · cases opt <;> simp [h, map_map, Function.comp_def]
      · simp [h]
    rw [sum_map_congr _ _ _ hsplit, sum_map_add',
      sum_select _ (groupBy_keys_nodup _ _) j (fun g => (g.map fun q : Int × Integral I MD => c q.2.integrand q.2.md).sum) (by simp),
      sum_select_const _ (groupBy_keys_nodup _ _) j, lookupL_groupBy, sum_map_filter_ite]
    -- the bucket's own integrals
    have hown : ((subdomainPairs B).map fun q => if q.1 = j then c q.2.integrand q.2.md else 0).sum
        = (B.map fun i => (match integralSubdomainIds i.sid with | some (.ids l) => l.count j | _ => 0) • c i.integrand i.md).sum := by
      unfold subdomainPairs
      rw [sum_map_flatMap]
      apply sum_map_congr
      intro i _
      cases hids : integralSubdomainIds i.sid with
      | none => simp
      | some ds =>
        cases ds with
        | ids l => simp only [map_map, Function.comp_def]; exact sum_ite_count l j _
        | everywhere => simp
        | otherwise => simp
    have hmem : (j ∈ (groupBy Prod.fst (subdomainPairs B)).map (·.1)) ↔ j ∈ (subdomainPairs B).map Prod.fst := by
      rw [mem_groupBy_keys]; simp
    rw [hown, hE]
    have hev : (if j ∈ (groupBy Prod.fst (subdomainPairs B)).map (·.1) then
          (if opt then (B.map fun i => if integralSubdomainIds i.sid = some .everywhere then c i.integrand i.md else 0).sum else 0) else 0)
        = (B.map fun i => (match integralSubdomainIds i.sid with
            | some .everywhere => if opt = true ∧ j ∈ (subdomainPairs B).map Prod.fst then 1 else 0 | _ => 0) • c i.integrand i.md).sum := by
      by_cases hj : j ∈ (subdomainPairs B).map Prod.fst
      · cases opt with
        | true =>
          simp only [hmem.2 hj, if_true, hj, and_self]
          apply sum_map_congr
          intro i _
          cases hids : integralSubdomainIds i.sid with
          | none => simp
          | some ds => cases ds <;> simp [one_nsmul]
        | false =>
          simp only [hmem.2 hj, if_true, Bool.false_eq_true, if_false, false_and]
          symm; apply sum_map_zero'
          intro i _
          cases hids : integralSubdomainIds i.sid with
          | none => simp
          | some ds => cases ds <;> simp
      · have : ¬ j ∈ (groupBy Prod.fst (subdomainPairs B)).map (·.1) := fun e => hj (hmem.1 e)
        simp only [this, if_false, hj, and_false]
        symm; apply sum_map_zero'
        intro i _
        cases hids : integralSubdomainIds i.sid with
        | none => simp
        | some ds => cases ds <;> simp
    rw [hev, ← sum_map_add']
    apply sum_map_congr
    intro i _
    unfold appliesIn
    cases hids : integralSubdomainIds i.sid with
    | none => simp
    | some ds => cases ds <;> simp
  | otherwise =>
    have hz : ((groupBy Prod.fst (subdomainPairs B)).map
        ((fun p : Sid × List (Integral I MD) => if p.1 = Sid.otherwise then (p.2.map fun i => c i.integrand i.md).sum else 0) ∘
          fun p : Int × List (Int × Integral I MD) =>
            (Sid.int p.1, p.2.map Prod.snd ++ (if opt then (B.filter isEverywhere).map fun e => { e with sid := .one (.int p.1) } else [])))).sum = 0 := by
      apply sum_map_zero'
      intro p _
      simp
    rw [hz, zero_add]
    have hO : ((if (B.filter isEverywhere).isEmpty then []
          else [(Sid.otherwise, (B.filter isEverywhere).map fun e => ({ e with sid := .one .otherwise } : Integral I MD))]).map
        fun p => if p.1 = Sid.otherwise then (p.2.map fun i => c i.integrand i.md).sum else 0).sum
        = ((B.filter isEverywhere).map fun i => c i.integrand i.md).sum := by
      by_cases hE' : (B.filter isEverywhere).isEmpty = true
      · rw [if_pos hE']
        rw [List.isEmpty_iff] at hE'
        simp [hE']
      · rw [if_neg hE']; simp [map_map, Function.comp_def]
    rw [hO, hE]
    apply sum_map_congr
    intro i _
    unfold appliesIn
    cases hids : integralSubdomainIds i.sid with
    | none => simp
    | some ds => cases ds <;> simp [one_nsmul]
  | everywhere =>
    have hz1 : ((groupBy Prod.fst (subdomainPairs B)).map
        ((fun p : Sid × List (Integral I MD) => if p.1 = Sid.everywhere then (p.2.map fun i => c i.integrand i.md).sum else 0) ∘
          fun p : Int × List (Int × Integral I MD) =>
            (Sid.int p.1, p.2.map Prod.snd ++ (if opt then (B.filter isEverywhere).map fun e => { e with sid := .one (.int p.1) } else [])))).sum = 0 := by
      apply sum_map_zero'
      intro p _
      simp
    have hz2 : ((if (B.filter isEverywhere).isEmpty then []
          else [(Sid.otherwise, (B.filter isEverywhere).map fun e => ({ e with sid := .one .otherwise } : Integral I MD))]).map
        fun p => if p.1 = Sid.everywhere then (p.2.map fun i => c i.integrand i.md).sum else 0).sum = 0 := by
      by_cases hE' : (B.filter isEverywhere).isEmpty = true
      · rw [if_pos hE']; simp
      · rw [if_neg hE']; simp
    rw [hz1, hz2, add_zero]
    symm; apply sum_map_zero'
    intro i _
    simp [appliesIn]
  | bad =>
    have hz1 : ((groupBy Prod.fst (subdomainPairs B)).map
        ((fun p : Sid × List (Integral I MD) => if p.1 = Sid.bad then (p.2.map fun i => c i.integrand i.md).sum else 0) ∘
          fun p : Int × List (Int × Integral I MD) =>
            (Sid.int p.1, p.2.map Prod.snd ++ (if opt then (B.filter isEverywhere).map fun e => { e with sid := .one (.int p.1) } else [])))).sum = 0 := by
      apply sum_map_zero'
      intro p _
      simp
    have hz2 : ((if (B.filter isEverywhere).isEmpty then []
          else [(Sid.otherwise, (B.filter isEverywhere).map fun e => ({ e with sid := .one .otherwise } : Integral I MD))]).map
        fun p => if p.1 = Sid.bad then (p.2.map fun i => c i.integrand i.md).sum else 0).sum = 0 := by
      by_cases hE' : (B.filter isEverywhere).isEmpty = true
      · rw [if_pos hE']; simp
      · rw [if_neg hE']; simp
    rw [hz1, hz2, add_zero]
    symm; apply sum_map_zero'
    intro i _
    simp [appliesIn]

end Rearrange

/-- the integrals of a form with a given domain, type and extra-domain map -/
def bucketOf {I : Type} (F : Form I MD) (d : Nat) (t : String) (x : Nat) : List (Integral I MD) :=
  F.filter fun i => decide (i.domain = d ∧ i.itype = t ∧ i.extra = x)

/-- the integer subdomain labels named by the integrals of a bucket -/
def presentIds {I : Type} (F : Form I MD) (d : Nat) (t : String) (x : Nat) : List Int :=
  (subdomainPairs (bucketOf F d t x)).map Prod.fst

/-- how many times the integral `i` of the form `F` is integrated over the label `s` -/
def applies {I : Type} (opt : Bool) (F : Form I MD) (i : Integral I MD) (s : Sid) : Nat :=
  appliesIn opt (presentIds F i.domain i.itype i.extra) i.sid s

/-- the sum of the original integrands that apply at a key ('everywhere' integrals included per the append
    option and on 'otherwise') -/
def expected (S : Sem M V) (opt : Bool) (F : Form (CDI M) MD) (κ : Key MD) : V :=
  (F.map fun i => if κ.fits i then applies opt F i κ.sid • S.full i.integrand else 0).sum

theorem sum_ite_eq_nodup {α : Type} [DecidableEq α] (l : List α) (hnd : l.Nodup) (x : α) (g : α → V) :
    (l.map fun a => if a = x then g a else 0).sum = if x ∈ l then g x else 0 := by
  induction l with
  | nil => simp
  | cons a l ih =>
    simp only [nodup_cons] at hnd
    by_cases h : a = x
    · subst h
      have hz : (l.map fun b => if b = a then g b else 0).sum = 0 := by
        apply sum_map_zero'
        intro b hb
        have : ¬ b = a := fun e => hnd.1 (e ▸ hb)
        simp [this]
      simp [hz]
    · have h' : ¬ x = a := fun e => h e.symm
      simp only [map_cons, sum_cons, h, if_false, zero_add, ih hnd.2, mem_cons, h', false_or]

theorem lookupL_buckets {I : Type} (F : Form I MD) (d : Nat) (t : String) (x : Nat) :
    lookupL (buckets F d t) x = bucketOf F d t x := by
  unfold buckets bucketOf
  rw [lookupL_groupBy, filter_filter]
  apply filter_congr
  intro i _
  by_cases h1 : i.domain = d <;> by_cases h2 : i.itype = t <;> by_cases h3 : i.extra = x <;> simp [h1, h2, h3]

theorem buckets_sub {I : Type} (F : Form I MD) (d : Nat) (t : String) (b : Nat × List (Integral I MD))
    (hb : b ∈ buckets F d t) : ∀ i ∈ b.2, i ∈ F := by
  intro i hi
  exact (mem_filter.1 (groupBy_entry_sub _ _ b hb i hi)).1

theorem emit_out (t : String) (d x : Nat) (s : Sid) (ss : List (Integral (CDI M) MD)) (o : Integral (CDI M) MD)
    (ho : o ∈ emitSubdomain ops t d x s ss) : o.sid = .one s ∧ ∃ i ∈ ss, o.md = i.md := by
  unfold emitSubdomain at ho
  simp only [] at ho
  obtain ⟨g, hg, ho⟩ := mem_flatMap.1 ho
  have hg' := (sortByKey_perm _ _).subset hg
  have hsub := groupBy_entry_sub _ _ g hg'
  cases hg2 : g.2 with
  | nil => simp [hg2] at ho
  | cons first rest =>
    rw [hg2] at ho
    simp only [mem_map] at ho
    obtain ⟨em, hem, rfl⟩ := ho
    refine ⟨rfl, ?_⟩
    obtain ⟨i', hi', e⟩ := accumulate_md_sub _ em hem
    obtain ⟨q, hq, rfl⟩ := mem_map.1 hi'
    rw [← hg2] at hq
    obtain ⟨i, hi, rfl⟩ := mem_map.1 (hsub q hq)
    exact ⟨i, hi, by simpa [strip] using e⟩

theorem phase1_out (domains : List Nat) (itypes : List String) (opt : Bool) (F : Form (CDI M) MD)
    (o : Integral (CDI M) MD) (ho : o ∈ phase1 ops domains itypes opt F) :
    (∃ s, o.sid = .one s) ∧ ∃ i ∈ F, o.md = i.md := by
  unfold phase1 at ho
  obtain ⟨d, _, ho⟩ := mem_flatMap.1 ho
  obtain ⟨t, _, ho⟩ := mem_flatMap.1 ho
  obtain ⟨b, hb, ho⟩ := mem_flatMap.1 ho
  obtain ⟨p, hp, ho⟩ := mem_flatMap.1 ho
  have hp' := (sortByKey_perm _ _).subset hp
  obtain ⟨h1, i, hi, hmd⟩ := emit_out t d b.1 p.1 p.2 o ho
  obtain ⟨i', hi', _, hmd'⟩ := rearrange_sub b.2 opt p hp' i hi
  exact ⟨⟨_, h1⟩, i', buckets_sub F d t b hb i' hi', by rw [hmd, hmd']⟩

/-- the first loop nest of `group_form_integrals` integrates at every key what the specification says -/
theorem total_phase1 (law : Lawful ops S) (domains : List Nat) (itypes : List String) (opt : Bool)
    (F : Form (CDI M) MD) (hd : domains.Nodup) (ht : itypes.Nodup)
    (hcov : ∀ i ∈ F, i.domain ∈ domains ∧ i.itype ∈ itypes) (hinj : MdInj ops F) (hcd : CdCompat S F) (κ : Key MD) :
    total S (phase1 ops domains itypes opt F) κ = expected S opt F κ := by
  -- what a bucket contributes
  let R : List (Integral (CDI M) MD) → V := fun B =>
    (B.map fun i => appliesIn opt ((subdomainPairs B).map Prod.fst) i.sid κ.sid •
      (if i.md = κ.md then S.full i.integrand else 0)).sum
  have hbucket : ∀ d t, ∀ b ∈ buckets F d t,
      total S ((sortByKey Sid.le (rearrange b.2 opt)).flatMap fun p => emitSubdomain ops t d b.1 p.1 p.2) κ
        = if d = κ.domain ∧ t = κ.itype then (if b.1 = κ.extra then R b.2 else 0) else 0 := by
    intro d t b hb
    rw [total_flatMap, sum_map_perm (sortByKey_perm _ _)]
    have hp : ∀ p ∈ rearrange b.2 opt, total S (emitSubdomain ops t d b.1 p.1 p.2) κ
        = if d = κ.domain ∧ t = κ.itype ∧ b.1 = κ.extra then
            (if p.1 = κ.sid then (p.2.map fun i => (fun int md => if md = κ.md then S.full int else 0) i.integrand i.md).sum else 0)
          else 0 := by
      intro p hp
      have hsub := rearrange_sub b.2 opt p hp
      have hinj' : MdInj ops p.2 := by
        intro a ha c hc hac
        obtain ⟨ia, hia, _, ea⟩ := hsub a ha
        obtain ⟨ic, hic, _, ec⟩ := hsub c hc
        rw [ea, ec] at hac ⊢
        exact hinj ia (buckets_sub F d t b hb ia hia) ic (buckets_sub F d t b hb ic hic) hac
      have hcd' : CdCompat S p.2 := by
        intro a ha c hc hac
        obtain ⟨ia, hia, ea, _⟩ := hsub a ha
        obtain ⟨ic, hic, ec, _⟩ := hsub c hc
        rw [ea, ec] at hac ⊢
        exact hcd ia (buckets_sub F d t b hb ia hia) ic (buckets_sub F d t b hb ic hic) hac
      rw [total_emitSubdomain law t d b.1 p.1 p.2 hinj' hcd' κ]
      by_cases h1 : d = κ.domain <;> by_cases h2 : t = κ.itype <;> by_cases h3 : b.1 = κ.extra <;>
        by_cases h4 : p.1 = κ.sid <;> simp [h1, h2, h3, h4]
    refine (sum_map_congr _ _ _ hp).trans ?_
    by_cases hC : d = κ.domain ∧ t = κ.itype ∧ b.1 = κ.extra
    · simp only [hC, and_self, if_true]
      exact sum_rearrange (V := V) b.2 opt κ.sid (fun int md => if md = κ.md then S.full int else 0)
    · simp only [hC, if_false]
      rw [sum_map_const_zero]
      by_cases h1 : d = κ.domain <;> by_cases h2 : t = κ.itype <;> by_cases h3 : b.1 = κ.extra <;> simp_all
  have hR0 : R [] = 0 := by simp [R]
  have hdt : ∀ d t, total S ((buckets F d t).flatMap fun b =>
        (sortByKey Sid.le (rearrange b.2 opt)).flatMap fun p => emitSubdomain ops t d b.1 p.1 p.2) κ
      = if d = κ.domain then (if t = κ.itype then R (bucketOf F d t κ.extra) else 0) else 0 := by
    intro d t
    rw [total_flatMap]
    refine (sum_map_congr _ _ _ (hbucket d t)).trans ?_
    by_cases hC : d = κ.domain ∧ t = κ.itype
    · simp only [hC, and_self, if_true]
      have hs := sum_select (buckets F κ.domain κ.itype) (by unfold buckets; exact groupBy_keys_nodup _ _) κ.extra R hR0
      rw [hs, lookupL_buckets]
    · simp only [hC, if_false]
      rw [sum_map_const_zero]
      by_cases h1 : d = κ.domain <;> by_cases h2 : t = κ.itype <;> simp_all
  unfold phase1
  rw [total_flatMap]
  have hd' : ∀ d ∈ domains, total S (itypes.flatMap fun t => (buckets F d t).flatMap fun b =>
        (sortByKey Sid.le (rearrange b.2 opt)).flatMap fun p => emitSubdomain ops t d b.1 p.1 p.2) κ
      = if d = κ.domain then (if κ.itype ∈ itypes then R (bucketOf F d κ.itype κ.extra) else 0) else 0 := by
    intro d _
    rw [total_flatMap]
    refine (sum_map_congr _ _ _ (fun t _ => hdt d t)).trans ?_
    by_cases h1 : d = κ.domain
    · simp only [h1, if_true]
      exact sum_ite_eq_nodup itypes ht κ.itype (fun t => R (bucketOf F κ.domain t κ.extra))
    · simp only [h1, if_false]
      exact sum_map_const_zero _
  refine (sum_map_congr _ _ _ hd').trans ?_
  rw [sum_ite_eq_nodup domains hd κ.domain (fun d => if κ.itype ∈ itypes then R (bucketOf F d κ.itype κ.extra) else 0)]
  -- the specification, restricted to the bucket
  have hexp : expected S opt F κ = R (bucketOf F κ.domain κ.itype κ.extra) := by
    unfold expected
    simp only [R]
    unfold bucketOf
    rw [sum_map_filter_ite]
    apply sum_map_congr
    intro i _
    unfold Key.fits applies presentIds bucketOf
    by_cases h1 : i.domain = κ.domain
    · by_cases h2 : i.itype = κ.itype
      · by_cases h3 : i.extra = κ.extra
        · by_cases h4 : i.md = κ.md
          · simp [h1, h2, h3, h4]
          · simp [h1, h2, h3, h4]
        · simp [h1, h2, h3]
      · simp [h1, h2]
    · simp [h1]
  rw [hexp]
  by_cases hdm : κ.domain ∈ domains
  · by_cases htm : κ.itype ∈ itypes
    · simp [hdm, htm]
    · simp only [hdm, htm, if_true, if_false]
      have : bucketOf F κ.domain κ.itype κ.extra = [] := by
        unfold bucketOf
        apply filter_eq_nil_iff.2
        intro i hi
        have := (hcov i hi).2
        simp only [decide_eq_true_eq, not_and]
        intro _ h2
        exact absurd (h2 ▸ this) htm
      rw [this, hR0]
  · simp only [hdm, if_false]
    have : bucketOf F κ.domain κ.itype κ.extra = [] := by
      unfold bucketOf
      apply filter_eq_nil_iff.2
      intro i hi
      have := (hcov i hi).1
      simp only [decide_eq_true_eq, not_and]
      intro h1
      exact absurd (h1 ▸ this) hdm
    rw [this, hR0]

theorem sum_ite_count_map {α β : Type} [DecidableEq β] (l : List α) (f : α → β) (x : β) (v : V) :
    (l.map fun a => (if f a = x then 1 else 0 : Nat) • v).sum = (count x (l.map f)) • v := by
  induction l with
  | nil => simp
  | cons a l ih =>
    by_cases h : f a = x
    · subst h
      simp only [map_cons, sum_cons, ih, if_true, count_cons_self, add_nsmul, one_nsmul]
      exact add_comm _ _
    · have hne : ¬ (f a == x) = true := by simpa using h
      simp only [map_cons, sum_cons, ih, h, if_false, zero_nsmul, zero_add, count_cons, hne]
      simp

/-- merging the integrals with a common integrand into one integral over a tuple of subdomains changes no total -/
theorem total_phase2 (law : Lawful ops S) (L : Form (CDI M) MD) (hone : ∀ o ∈ L, ∃ s, o.sid = .one s)
    (hinj : MdInj ops L) (κ : Key MD) : total S (phase2 ops L) κ = total S L κ := by
  unfold phase2 total
  rw [sum_map_filterMap, ← sum_groupBy (ukey ops) L (weight S κ)]
  apply sum_map_congr
  intro p hp
  have hk := groupBy_entry_key _ _ p hp
  have hsub := groupBy_entry_sub _ _ p hp
  cases hl : p.2.getLast? with
  | none =>
    have : p.2 = [] := getLast?_eq_none_iff.1 hl
    simp [this]
  | some last =>
    simp only []
    have hlast : last ∈ p.2 := mem_of_getLast? hl
    have hmd : ∀ i ∈ p.2, i.md = last.md := by
      intro i hi
      apply hinj i (hsub i hi) last (hsub last hlast)
      have h1 := hk i hi
      have h2 := hk last hlast
      have : (ukey ops i).mh = (ukey ops last).mh := by rw [h1, h2]
      simpa [ukey] using this
    have hfull : ∀ i ∈ p.2, S.full i.integrand = S.full p.1.integrand := by
      intro i hi
      rw [← hk i hi]
      simp [ukey, renumI, Sem.full, law.val_renum]
    have hfits : ∀ i ∈ p.2, (κ.fits i ↔ (p.1.domain = κ.domain ∧ p.1.itype = κ.itype ∧ p.1.extra = κ.extra ∧ last.md = κ.md)) := by
      intro i hi
      rw [← hk i hi, ← hmd i hi]
      simp [Key.fits, ukey]
    by_cases hf : p.1.domain = κ.domain ∧ p.1.itype = κ.itype ∧ p.1.extra = κ.extra ∧ last.md = κ.md
    · have e1 : weight S κ { integrand := p.1.integrand, itype := p.1.itype, domain := p.1.domain, sid := SubId.tup (p.2.map fun i => oneSid i.sid), md := last.md, extra := p.1.extra }
          = (count κ.sid (p.2.map fun i => oneSid i.sid)) • S.full p.1.integrand := by
        simp [weight, Key.fits, hf, SubId.count]
      rw [e1, ← sum_ite_count_map]
      apply sum_map_congr
      intro i hi
      obtain ⟨s, hs⟩ := hone i (hsub i hi)
      simp only [weight, (hfits i hi).2 hf, if_true, hfull i hi, hs, SubId.count, oneSid]
    · have e1 : weight S κ { integrand := p.1.integrand, itype := p.1.itype, domain := p.1.domain, sid := SubId.tup (p.2.map fun i => oneSid i.sid), md := last.md, extra := p.1.extra } = 0 := by
        unfold weight Key.fits
        exact if_neg hf
      rw [e1]
      symm
      apply sum_map_zero'
      intro i hi
      have : ¬ κ.fits i := fun e => hf ((hfits i hi).1 e)
      simp [weight, this]

theorem sortedIntegrals_perm {I : Type} (F : Form I MD) : sortedIntegrals F ~ F := by
  unfold sortedIntegrals
  exact ((sortByKey_perm _ _).flatMap_right _).trans (groupBy_perm fkey F)

theorem phase1_mdInj (domains : List Nat) (itypes : List String) (opt : Bool) (F : Form (CDI M) MD)
    (hinj : MdInj ops F) : MdInj ops (phase1 ops domains itypes opt F) := by
  intro a ha b hb hab
  obtain ⟨_, ia, hia, ea⟩ := phase1_out domains itypes opt F a ha
  obtain ⟨_, ib, hib, eb⟩ := phase1_out domains itypes opt F b hb
  rw [ea, eb] at hab ⊢
  exact hinj ia hia ib hib hab

theorem groupFormIntegrals_eq (domains : List Nat) (itypes : List String) (opt : Bool) (F G : Form (CDI M) MD)
    (hG : groupFormIntegrals ops domains itypes opt F = some G) :
    G = sortedIntegrals (phase2 ops (phase1 ops domains itypes opt F)) := by
  unfold groupFormIntegrals at hG
  split at hG
  · simp at hG
  · simpa using hG.symm

end Meaning

/-! ## C15: the theorems -/
section Theorems
variable {M MD H V : Type} [DecidableEq M] [DecidableEq H] [DecidableEq MD] [AddCommMonoid V]

/-
The property, at full strength:

  for every form F, list of domains, append option and interpretation of integrands, if
  `group_form_integrals` returns G then for every key κ = (domain, integral type, extra-domain map,
  subdomain label, metadata):   total G κ = expected F κ

is FALSE of the code as it stands (`C15_meaning_counterexample`): `canonicalize_metadata` is not injective
(numpy arrays are canonicalised by `str()`, which rounds to 8 digits and elides the middle of arrays with more
than 1000 entries; `str()` also confuses 2 with '2' and None with 'None'), so integrals whose metadata differ
can share the grouping key.  What holds is the statement with that injectivity as a side condition
(`MdInj`), and with `CdCompat`: `calc_hash` adds the hashes of the coordinate-derivative operands, so stacks
that differ only in their order (or collide otherwise) are merged under the first stack.
-/

/-- **C15, meaning** (restricted).  After `group_form_integrals`, the total integrand integrated at every
    (domain, integral type, extra-domain map, subdomain label, metadata) is the sum of the original integrands
    that apply there — provided the grouping key of the metadata is injective on the metadata used in the form
    and coordinate-derivative stacks with the same hash sum act equally. -/
theorem C15_meaning_partial (ops : Ops M MD H) (S : Sem M V) (law : Lawful ops S)
    (domains : List Nat) (itypes : List String) (opt : Bool) (F G : Form (CDI M) MD)
    (hd : domains.Nodup) (ht : itypes.Nodup) (hcov : ∀ i ∈ F, i.domain ∈ domains ∧ i.itype ∈ itypes)
    (hinj : MdInj ops F) (hcd : CdCompat S F)
    (hG : groupFormIntegrals ops domains itypes opt F = some G) (κ : Key MD) :
    total S G κ = expected S opt F κ := by
  rw [groupFormIntegrals_eq domains itypes opt F G hG, total_perm S (sortedIntegrals_perm _),
    total_phase2 law _ (fun o ho => (phase1_out domains itypes opt F o ho).1) (phase1_mdInj domains itypes opt F hinj),
    total_phase1 law domains itypes opt F hd ht hcov hinj hcd]

/-- **C15, no merging across metadata** (restricted), as non-interference: what the grouped form integrates
    under metadata `κ.md` does not depend on the integrands of the integrals whose metadata differ from `κ.md`.
    `F'` is `F` with the integrands of those integrals replaced arbitrarily. -/
theorem C15_no_merge_partial (ops : Ops M MD H) (S : Sem M V) (law : Lawful ops S)
    (domains : List Nat) (itypes : List String) (opt : Bool) (F : Form (CDI M) MD) (κ : Key MD)
    (r : Integral (CDI M) MD → CDI M) (G G' : Form (CDI M) MD)
    (hd : domains.Nodup) (ht : itypes.Nodup) (hcov : ∀ i ∈ F, i.domain ∈ domains ∧ i.itype ∈ itypes)
    (hinj : MdInj ops F) (hcd : CdCompat S F)
    (hcd' : CdCompat S (F.map fun i => if i.md = κ.md then i else { i with integrand := r i }))
    (hG : groupFormIntegrals ops domains itypes opt F = some G)
    (hG' : groupFormIntegrals ops domains itypes opt (F.map fun i => if i.md = κ.md then i else { i with integrand := r i }) = some G') :
    total S G' κ = total S G κ := by
  set F' := F.map fun i => if i.md = κ.md then i else { i with integrand := r i } with hF'
  have hsame : ∀ i : Integral (CDI M) MD,
      (if i.md = κ.md then i else { i with integrand := r i }).domain = i.domain ∧
      (if i.md = κ.md then i else { i with integrand := r i }).itype = i.itype ∧
      (if i.md = κ.md then i else { i with integrand := r i }).extra = i.extra ∧
      (if i.md = κ.md then i else { i with integrand := r i }).sid = i.sid ∧
      (if i.md = κ.md then i else { i with integrand := r i }).md = i.md := by
    intro i; by_cases h : i.md = κ.md <;> simp [h]
  have hcov' : ∀ i ∈ F', i.domain ∈ domains ∧ i.itype ∈ itypes := by
    intro i hi
    obtain ⟨j, hj, rfl⟩ := mem_map.1 hi
    rw [(hsame j).1, (hsame j).2.1]
    exact hcov j hj
  have hinj' : MdInj ops F' := by
    intro a ha b hb hab
    obtain ⟨ja, hja, rfl⟩ := mem_map.1 ha
    obtain ⟨jb, hjb, rfl⟩ := mem_map.1 hb
    rw [(hsame ja).2.2.2.2, (hsame jb).2.2.2.2] at hab ⊢
    exact hinj ja hja jb hjb hab
  rw [C15_meaning_partial ops S law domains itypes opt F' G' hd ht hcov' hinj' hcd' hG' κ,
    C15_meaning_partial ops S law domains itypes opt F G hd ht hcov hinj hcd hG κ]
  -- the specification only reads subdomain ids, and integrands under metadata κ.md
  have hpairs : ∀ d t x, (subdomainPairs (bucketOf F' d t x)).map Prod.fst = (subdomainPairs (bucketOf F d t x)).map Prod.fst := by
    intro d t x
    unfold bucketOf subdomainPairs
    rw [hF', filter_map, flatMap_map, map_flatMap, map_flatMap]
    have hf : (filter ((fun i : Integral (CDI M) MD => decide (i.domain = d ∧ i.itype = t ∧ i.extra = x)) ∘
          fun i => if i.md = κ.md then i else { i with integrand := r i }) F)
        = filter (fun i => decide (i.domain = d ∧ i.itype = t ∧ i.extra = x)) F := by
      apply filter_congr
      intro i _
      simp only [Function.comp, (hsame i).1, (hsame i).2.1, (hsame i).2.2.1]
    rw [hf]
    apply flatMap_congr
    intro i _
    rw [(hsame i).2.2.2.1]
    cases integralSubdomainIds i.sid with
    | none => rfl
    | some ds => cases ds <;> simp [map_map, Function.comp_def]
  unfold expected
  rw [hF', map_map]
  apply sum_map_congr
  intro i _
  simp only [Function.comp]
  have h5 := hsame i
  by_cases hm : i.md = κ.md
  · simp only [hm, if_true]
    unfold applies presentIds
    rw [hpairs]
  · have hnf : ¬ κ.fits i := fun e => hm e.2.2.2
    have hnf' : ¬ κ.fits ({ i with integrand := r i } : Integral (CDI M) MD) := fun e => hm e.2.2.2
    simp [hm, hnf, hnf']

/-- **C15, integral data**: `build_integral_data` files every integral of the grouped form in exactly one
    IntegralData (the integral lists are a partition of the form's integrals) ... -/
theorem C15_integral_data_partition {I : Type} (F : Form I MD) (ids : List (IntegralData I MD))
    (h : buildIntegralData F = some ids) : ids.flatMap (·.integrals) ~ F := by
  unfold buildIntegralData at h
  split at h
  · simp at h
  · simp only [Option.some.injEq] at h
    subst h
    rw [flatMap_map]
    exact ((sortByKey_perm _ _).flatMap_right _).trans (groupBy_perm fkey F)

/-- ... whose domain, integral type, subdomain id and extra-domain map are those of the IntegralData, no two
    IntegralData share them, and none is empty. -/
theorem C15_integral_data_keys {I : Type} (F : Form I MD) (ids : List (IntegralData I MD))
    (h : buildIntegralData F = some ids) :
    (ids.map fun d => (⟨d.domain, d.itype, d.extra, d.sid⟩ : FKey)).Nodup ∧
    ∀ d ∈ ids, d.integrals ≠ [] ∧
      ∀ i ∈ d.integrals, i.domain = d.domain ∧ i.itype = d.itype ∧ i.sid = d.sid ∧ i.extra = d.extra := by
  unfold buildIntegralData at h
  split at h
  · simp at h
  · simp only [Option.some.injEq] at h
    subst h
    constructor
    · rw [map_map]
      have h1 := groupBy_keys_nodup fkey F
      have h2 : ((sortByKey IDKey.le (groupBy fkey F)).map (·.1)).Nodup :=
        ((sortByKey_perm IDKey.le (groupBy fkey F)).map (·.1)).nodup_iff.2 h1
      exact h2
    · intro d hd
      obtain ⟨p, hp, rfl⟩ := mem_map.1 hd
      have hp' := (sortByKey_perm _ _).subset hp
      constructor
      · simp only
        intro he
        have hmem := (mem_groupBy_keys fkey F p.1).1 (mem_map_of_mem (f := (·.1)) hp')
        obtain ⟨x, hx, hk⟩ := hmem
        have := groupBy_entry fkey F p hp'
        rw [he] at this
        have hx' : x ∈ filter (fun x => decide (fkey x = p.1)) F := mem_filter.2 ⟨hx, by simpa using hk⟩
        rw [← this] at hx'
        simp at hx'
      · intro i hi
        have := groupBy_entry_key fkey F p hp' i hi
        simp only
        rw [← this]
        simp [fkey]

/-- `reconstruct_form_from_integral_data` (FormData.preprocessed_form) integrates at every key what the grouped
    form does -/
theorem C15_reconstruct_total (S : Sem M V) (F : Form (CDI M) MD) (ids : List (IntegralData (CDI M) MD))
    (h : buildIntegralData F = some ids) (κ : Key MD) : total S (reconstructForm ids) κ = total S F κ := by
  unfold reconstructForm
  rw [total_perm S (sortedIntegrals_perm _), total_perm S (C15_integral_data_partition F ids h)]

/-- `calc_hash` does not see the order of a stack of coordinate derivatives: stacks that are permutations of
    each other always share a group (and the group keeps the order of its first member) -/
theorem C15_cd_key_order_insensitive (l₁ l₂ : List CDTok) (h : l₁ ~ l₂) : calcHash l₁ = calcHash l₂ := by
  unfold calcHash
  exact (h.map _).sum_eq

theorem any_false_of {α : Type} {l : List α} {p : α → Bool} (h : ∀ x ∈ l, p x = false) : l.any p = false :=
  any_eq_false.2 (fun x hx => by rw [h x hx]; simp)

theorem hasBadTie_false (ops : Ops M MD H) (hlt : ∀ a b, ops.mdlt a b ≠ none) (l : List (M × MD)) :
    hasBadTie ops l = false := by
  induction l with
  | nil => rfl
  | cons a l ih =>
    unfold hasBadTie
    rw [ih, Bool.or_false]
    apply any_false_of
    intro b _
    have h1 : (ops.mdlt a.2 b.2).isNone = false := by
      cases h : ops.mdlt a.2 b.2 with
      | none => exact absurd h (hlt _ _)
      | some _ => rfl
    have h2 : (ops.mdlt b.2 a.2).isNone = false := by
      cases h : ops.mdlt b.2 a.2 with
      | none => exact absurd h (hlt _ _)
      | some _ => rfl
    simp [h1, h2]

/-- **C15, no spurious rejection**: if every subdomain id of the form is an integer, a tuple of integers or
    'everywhere' and canonical metadata are always comparable, `group_form_integrals` returns a form -/
theorem C15_group_defined (ops : Ops M MD H) (domains : List Nat) (itypes : List String) (opt : Bool)
    (F : Form (CDI M) MD)
    (hsid : ∀ i ∈ F, ∃ ds, integralSubdomainIds i.sid = some ds ∧ ds ≠ Dids.otherwise)
    (hlt : ∀ a b, ops.mdlt a b ≠ none) :
    ∃ G, groupFormIntegrals ops domains itypes opt F = some G := by
  have hno : phase1Raises ops domains itypes opt F = false := by
    unfold phase1Raises
    apply any_false_of; intro d _
    apply any_false_of; intro t _
    apply any_false_of; intro b hb
    have hr : rearrangeRaises b.2 = false := by
      unfold rearrangeRaises
      apply any_false_of
      intro i hi
      obtain ⟨ds, h1, h2⟩ := hsid i (buckets_sub F d t b hb i hi)
      rw [h1]
      cases ds with
      | ids l => rfl
      | everywhere => rfl
      | otherwise => exact absurd rfl h2
    have he : ((rearrange b.2 opt).any fun p => emitSubdomainRaises ops p.2) = false := by
      apply any_false_of
      intro p _
      unfold emitSubdomainRaises
      apply any_false_of
      intro g _
      unfold accumulateRaises
      exact hasBadTie_false ops hlt _
    rw [hr, he]; rfl
  unfold groupFormIntegrals
  rw [hno]
  exact ⟨_, rfl⟩

end Theorems

/-! ## The unrestricted statements are false of the code: concrete witnesses -/
section Witnesses

/-- integrands that are natural numbers (`+` is addition, `cmp_expr` compares the numbers, nothing to renumber);
    metadata are canonicalised by the model of `canonicalize_metadata` with the given leaf treatment -/
def natOps (c : CanonCfg) : Ops Nat MDV Canon where
  add := (· + ·)
  cmp := compare
  renum := id
  mdkey := canonWith c
  mdlt := fun a b => Canon.lt (canonWith c a) (canonWith c b)

/-- values are the numbers themselves; a stack of coordinate derivatives multiplies by the product of
    (token id + 2): an additive action that does not depend on the order of the stack -/
def natSem : Sem Nat Nat where
  val := id
  cd := fun cds => (cds.map fun c => c.id + 2).prod • AddMonoidHom.id Nat

theorem natLaw (c : CanonCfg) : Lawful (natOps c) natSem := ⟨fun _ _ => rfl, fun _ => rfl⟩

/-- `{'quadrature_weights': array([0.5, 0.5])}` -/
def mdA : MDV := .dict ["quadrature_weights"]
  [.arr (.seq false [.leaf "float" "0.5" "0.5", .leaf "float" "0.5" "0.5"]) "[0.5 0.5]"]
/-- `{'quadrature_weights': array([0.5, 0.5000000001])}`: numpy prints it as `[0.5 0.5]` too -/
def mdB : MDV := .dict ["quadrature_weights"]
  [.arr (.seq false [.leaf "float" "0.5" "0.5", .leaf "float" "0.5000000001" "0.5000000001"]) "[0.5 0.5]"]
/-- `{'quadrature_degree': 2}` and `{'quadrature_degree': '2'}` -/
def mdInt : MDV := .dict ["quadrature_degree"] [.leaf "int" "2" "2"]
def mdStr : MDV := .dict ["quadrature_degree"] [.leaf "str" "'2'" "2"]

/-- `1*dx(1, metadata=mdA) + 10*dx(1, metadata=mdB)` -/
def cexF (g : Nat) : Form (CDI Nat) MDV :=
  [⟨⟨[], 1⟩, "cell", 0, .one (.int 1), mdA, 0⟩, ⟨⟨[], g⟩, "cell", 0, .one (.int 1), mdB, 0⟩]

def κA : Key MDV := ⟨0, "cell", 0, .int 1, mdA⟩

/-- `canonicalize_metadata` is not injective: different quadrature weights, and an int and a string -/
theorem C15_canon_not_injective :
    mdA ≠ mdB ∧ canon mdA = canon mdB ∧ mdInt ≠ mdStr ∧ canon mdInt = canon mdStr := by decide +kernel

/-- canonicalising arrays through `tolist()` (fix_C15_1) separates the two quadrature rules; canonicalising
    strings by `repr` (fix_C15_2) separates the int from the string -/
theorem C15_repaired_canon_separates :
    canonWith { arrTolist := true } mdA ≠ canonWith { arrTolist := true } mdB ∧
    canonWith { strRepr := true } mdInt ≠ canonWith { strRepr := true } mdStr := by decide +kernel

/-- the unrestricted meaning statement fails: on subdomain 1 under the metadata `mdA` the grouped form
    integrates 1 + 10, the original form 1 -/
theorem C15_meaning_counterexample :
    ¬ ∀ (F G : Form (CDI Nat) MDV) (opt : Bool) (κ : Key MDV),
        (∀ i ∈ F, i.domain ∈ [0] ∧ i.itype ∈ ["cell"]) →
        groupFormIntegrals (natOps {}) [0] ["cell"] opt F = some G →
        total natSem G κ = expected natSem opt F κ := by
  intro h
  have h1 : (groupFormIntegrals (natOps {}) [0] ["cell"] true (cexF 10)).map (fun G => total natSem G κA) = some 11 := by
    decide +kernel
  have h2 : expected natSem true (cexF 10) κA = 1 := by decide +kernel
  cases hG : groupFormIntegrals (natOps {}) [0] ["cell"] true (cexF 10) with
  | none => rw [hG] at h1; simp at h1
  | some G =>
    rw [hG] at h1
    simp only [Option.map_some, Option.some.injEq] at h1
    have h3 := h (cexF 10) G true κA (by decide) hG
    omega

/-- integrals whose metadata differ are merged: changing the integrand integrated under `mdB` changes what
    the grouped form integrates under `mdA` -/
theorem C15_no_merge_counterexample :
    ¬ ∀ (g g' : Nat) (G G' : Form (CDI Nat) MDV),
        groupFormIntegrals (natOps {}) [0] ["cell"] true (cexF g) = some G →
        groupFormIntegrals (natOps {}) [0] ["cell"] true (cexF g') = some G' →
        total natSem G' κA = total natSem G κA := by
  intro h
  have h1 : (groupFormIntegrals (natOps {}) [0] ["cell"] true (cexF 10)).map (fun G => total natSem G κA) = some 11 := by
    decide +kernel
  have h2 : (groupFormIntegrals (natOps {}) [0] ["cell"] true (cexF 20)).map (fun G => total natSem G κA) = some 21 := by
    decide +kernel
  cases hG : groupFormIntegrals (natOps {}) [0] ["cell"] true (cexF 10) with
  | none => rw [hG] at h1; simp at h1
  | some G =>
    cases hG' : groupFormIntegrals (natOps {}) [0] ["cell"] true (cexF 20) with
    | none => rw [hG'] at h2; simp at h2
    | some G' =>
      rw [hG] at h1; rw [hG'] at h2
      simp only [Option.map_some, Option.some.injEq] at h1 h2
      have := h 10 20 G G' hG hG'
      omega

/-- with the arrays canonicalised through `tolist()` the same form is grouped correctly -/
theorem C15_meaning_repaired_witness :
    (groupFormIntegrals (natOps { arrTolist := true }) [0] ["cell"] true (cexF 10)).map (fun G => total natSem G κA) = some 1 := by
  decide +kernel

/-- a reading of coordinate derivatives in which the outermost one matters (multiply by its id + 2) -/
def outerSem : Sem Nat Nat where
  val := id
  cd := fun cds => match cds with
    | [] => AddMonoidHom.id Nat
    | c :: _ => (c.id + 2) • AddMonoidHom.id Nat

/-- `CD_a(CD_b(1))*dx(1) + CD_b(CD_a(10))*dx(1)`: the two stacks have the same hash sum whatever the hashes are -/
def cdF : Form (CDI Nat) MDV :=
  [⟨⟨[⟨0, 5, 7, 11⟩, ⟨1, 5, 13, 11⟩], 1⟩, "cell", 0, .one (.int 1), mdInt, 0⟩,
   ⟨⟨[⟨1, 5, 13, 11⟩, ⟨0, 5, 7, 11⟩], 10⟩, "cell", 0, .one (.int 1), mdInt, 0⟩]

/-- the side condition `CdCompat` cannot be dropped: under an order-sensitive reading of the stacks the grouped
    form integrates CD_a(CD_b(1 + 10)) where the original form integrates CD_a(CD_b(1)) + CD_b(CD_a(10)) -/
theorem C15_cd_order_counterexample :
    (groupFormIntegrals (natOps {}) [0] ["cell"] true cdF).map (fun G => total outerSem G ⟨0, "cell", 0, .int 1, mdInt⟩) = some 22 ∧
    expected outerSem true cdF ⟨0, "cell", 0, .int 1, mdInt⟩ = 32 ∧ MdInj (natOps {}) cdF := by
  decide +kernel

end Witnesses

/-! ## The hypotheses are satisfiable by non-trivial forms -/
section Examples

def tokA : CDTok := ⟨0, 5, 7, 11⟩
def tokB : CDTok := ⟨1, 5, 13, 11⟩

/-- everywhere, tuple (with a repeated label) and single ids, two metadata values with different canonical
    forms, two integral types, coordinate-derivative stacks in both orders (same hash sum, same action) -/
def exF : Form (CDI Nat) MDV :=
  [⟨⟨[], 1⟩, "cell", 0, .one .everywhere, mdInt, 0⟩,
   ⟨⟨[], 10⟩, "cell", 0, .tup [.int 1, .int 2, .int 1], mdInt, 0⟩,
   ⟨⟨[], 100⟩, "cell", 0, .one (.int 2), mdA, 0⟩,
   ⟨⟨[tokA, tokB], 1000⟩, "cell", 0, .one (.int 3), mdA, 0⟩,
   ⟨⟨[tokB, tokA], 10000⟩, "cell", 0, .one (.int 3), mdA, 0⟩,
   ⟨⟨[], 7⟩, "exterior_facet", 0, .one .everywhere, mdInt, 0⟩]

example : MdInj (natOps {}) exF := by decide +kernel

example : CdCompat natSem exF := by
  intro a ha b hb hab
  simp only [exF, mem_cons, not_mem_nil, or_false] at ha hb
  rcases ha with rfl | rfl | rfl | rfl | rfl | rfl <;> rcases hb with rfl | rfl | rfl | rfl | rfl | rfl <;>
    first | rfl | (exfalso; revert hab; decide)

/-- on this form the grouping succeeds, and e.g. on subdomain 1 under `mdInt` it integrates the tuple integral
    twice and the everywhere integral once: 10 + 10 + 1 -/
example : (groupFormIntegrals (natOps {}) [0] ["cell", "exterior_facet"] true exF).map
    (fun G => (total natSem G ⟨0, "cell", 0, .int 1, mdInt⟩, total natSem G ⟨0, "cell", 0, .int 3, mdA⟩,
               total natSem G ⟨0, "cell", 0, .otherwise, mdInt⟩)) = some (21, 66000, 1) := by decide +kernel

example : expected natSem true exF ⟨0, "cell", 0, .int 1, mdInt⟩ = 21 := by decide +kernel

end Examples

end FormModel
end UflVerif
