/-
C19 (extension): state shared between calls.

1. post-order traversals with an ARBITRARY caller-owned `visited` set, and sequences of traversals
   sharing one set (`C19_post_visited`, `C19_post_visited_closed`, `C19_shared_visited_sequence`);
   the pre-order traversal with an arbitrary set (`C19_pre_visited`).
2. `map_expr_dags` over several expressions with caller-owned `vcache`/`rcache`, with and without
   `compress` (`C19_map_dags_shared_cache`).
3. `DAGTraverser` with keyword arguments: cache key (node, kwargs items), `@postorder`,
   `@postorder_only_children` (`C19_dag_kwargs`, `C19_dag_postorder`, `C19_dag_postorder_only`) and
   what goes wrong when the key drops the kwargs (`C19_dag_kwargs_key_matters`).
All statements are for every tree / list of trees of any size and every handler.
-/
import UflVerif.Props.C19
import UflVerif.Model.TraversalShared

namespace UflVerif.C19
open UflVerif.Trav

/-! ## 1. post-order traversal with a caller-owned `visited` set -/

/-- what the code reaches from `root` given the initial set `V`: the root itself (never tested),
    and every operand `c ∉ V` of a reached node that is not of a cut-off type -/
inductive Reach (cut : Tree → Bool) (V : List Tree) (root : Tree) : Tree → Prop
  | root : Reach cut V root root
  | step {n c : Tree} : Reach cut V root n → cut n = false → c ∈ n.children → c ∉ V → Reach cut V root c

theorem Reach.mono {cut : Tree → Bool} {V V' : List Tree} {root x : Tree}
    (h : Reach cut V' root x) (hs : ∀ v ∈ V, v ∈ V') : Reach cut V root x := by
  induction h with
  | root => exact .root
  | step _ hc hm hv ih => exact .step ih hc hm (fun h => hv (hs _ h))

theorem Reach.prepend {cut : Tree → Bool} {V : List Tree} {t c x : Tree}
    (hct : cut t = false) (hm : c ∈ t.children) (hv : c ∉ V) (h : Reach cut V c x) : Reach cut V t x := by
  induction h with
  | root => exact .step .root hct hm hv
  | step _ hc hm' hv' ih => exact .step ih hc hm' hv'

theorem Reach.subterm {cut : Tree → Bool} {V : List Tree} {t x : Tree} (h : Reach cut V t x) : x ∈ subterms t := by
  induction h with
  | root => exact mem_subterms_self t
  | step _ _ hm _ ih => exact subterms_trans t _ _ ih (child_mem_subterms _ _ hm)

mutual
theorem trav_reach (cut : Tree → Bool) (rev : Bool) : ∀ (t : Tree) (vis : List Tree) (x : Tree),
    x ∈ (trav cut rev t vis).1 → Reach cut vis t x
  | .node l cs, vis, x, hx => by
    unfold trav at hx
    by_cases hc : cut (.node l cs) = true
    · simp only [hc, ↓reduceIte, List.mem_singleton] at hx; rw [hx]; exact .root
    · have hc' : cut (.node l cs) = false := by simpa using hc
      simp only [hc, Bool.false_eq_true, ↓reduceIte] at hx
      cases rev with
      | false =>
        simp only [Bool.false_eq_true, ↓reduceIte, List.mem_append, List.mem_singleton] at hx
        cases hx with
        | inl h =>
          obtain ⟨c, hcm, hcv, hr⟩ := travL_reach cut false cs vis x h
          exact Reach.prepend hc' (by simpa [Tree.children] using hcm) hcv hr
        | inr h => rw [h]; exact .root
      | true =>
        simp only [↓reduceIte, List.mem_append, List.mem_singleton] at hx
        cases hx with
        | inl h =>
          obtain ⟨c, hcm, hcv, hr⟩ := travLR_reach cut true cs vis x h
          exact Reach.prepend hc' (by simpa [Tree.children] using hcm) hcv hr
        | inr h => rw [h]; exact .root
theorem travL_reach (cut : Tree → Bool) (rev : Bool) : ∀ (cs : List Tree) (vis : List Tree) (x : Tree),
    x ∈ (travL cut rev cs vis).1 → ∃ c ∈ cs, c ∉ vis ∧ Reach cut vis c x
  | [], vis, x, hx => by simp [travL] at hx
  | c :: cs, vis, x, hx => by
    unfold travL at hx
    by_cases hv : c ∈ vis
    · simp only [hv, ↓reduceIte] at hx
      obtain ⟨d, hd, hdv, hr⟩ := travL_reach cut rev cs vis x hx
      exact ⟨d, List.mem_cons_of_mem _ hd, hdv, hr⟩
    · simp only [hv, ↓reduceIte, List.mem_append] at hx
      cases hx with
      | inl h => exact ⟨c, by simp, hv, trav_reach cut rev c vis x h⟩
      | inr h =>
        obtain ⟨d, hd, hdv, hr⟩ := travL_reach cut rev cs (trav cut rev c vis).2 x h
        have hsub : ∀ v ∈ vis, v ∈ (trav cut rev c vis).2 :=
          fun v hv' => ((trav_spec cut rev c vis hv).1.mem v).mpr (Or.inl hv')
        exact ⟨d, List.mem_cons_of_mem _ hd, fun h => hdv (hsub _ h), hr.mono hsub⟩
theorem travLR_reach (cut : Tree → Bool) (rev : Bool) : ∀ (cs : List Tree) (vis : List Tree) (x : Tree),
    x ∈ (travLR cut rev cs vis).1 → ∃ c ∈ cs, c ∉ vis ∧ Reach cut vis c x
  | [], vis, x, hx => by simp [travLR] at hx
  | c :: cs, vis, x, hx => by
    unfold travLR at hx
    have hsub : ∀ v ∈ vis, v ∈ (travLR cut rev cs vis).2 :=
      fun v h => ((travLR_spec cut rev cs vis).1.mem v).mpr (Or.inl h)
    by_cases hv : c ∈ (travLR cut rev cs vis).2
    · simp only [hv, ↓reduceIte] at hx
      obtain ⟨d, hd, hdv, hr⟩ := travLR_reach cut rev cs vis x hx
      exact ⟨d, List.mem_cons_of_mem _ hd, hdv, hr⟩
    · simp only [hv, ↓reduceIte, List.mem_append] at hx
      cases hx with
      | inl h =>
        obtain ⟨d, hd, hdv, hr⟩ := travLR_reach cut rev cs vis x h
        exact ⟨d, List.mem_cons_of_mem _ hd, hdv, hr⟩
      | inr h =>
        exact ⟨c, by simp, fun h => hv (hsub _ h), (trav_reach cut rev c _ x h).mono hsub⟩
end

/-- the top-level call, for ANY `vis` (the root may be in it): operands are scanned against `vis`,
    then the root is yielded and added -/
theorem trav_top (cut : Tree → Bool) (rev : Bool) (t : Tree) (vis : List Tree) :
    ∃ body v1, Spec cut vis body v1 ∧ (∀ x ∈ body, x ∈ subtermsL t.children) ∧
      (cut t = false → ∀ c ∈ t.children, c ∈ v1) ∧ trav cut rev t vis = (body ++ [t], t :: v1) := by
  cases t with
  | node l cs =>
    unfold trav
    by_cases hc : cut (.node l cs) = true
    · exact ⟨[], vis, Spec.nil cut vis, by simp, (by intro h; rw [hc] at h; cases h), by simp [hc]⟩
    · simp only [hc, Bool.false_eq_true, ↓reduceIte]
      cases rev with
      | false =>
        obtain ⟨hs, hsub, hall⟩ := travL_spec cut false cs vis
        exact ⟨_, _, hs, by simpa [Tree.children] using hsub, by intro _; simpa [Tree.children] using hall, by simp⟩
      | true =>
        obtain ⟨hs, hsub, hall⟩ := travLR_spec cut true cs vis
        exact ⟨_, _, hs, by simpa [Tree.children] using hsub, by intro _; simpa [Tree.children] using hall, by simp⟩

theorem not_mem_subtermsL_children (t : Tree) : t ∉ subtermsL t.children := by
  cases t with
  | node l cs => simpa [Tree.children] using not_mem_subtermsL_self l cs

/-- **`unique_post_traversal(t, visited)` / `cutoff_unique_post_traversal(t, cutoff, visited)` for an
    arbitrary caller-supplied set** (`rev = false`, `cut = fun _ => false` is the former).
    The yielded list is exactly the set `Reach` (the root — whether or not it is in `visited` — and
    everything reachable through operands that are not initially visited, not descending below cut-off
    nodes); no node is yielded twice; the root comes last and everything before it was not in the set;
    operands of a yielded non-cut-off node are initially visited or yielded earlier; the caller's set
    ends up being the initial set plus the yielded nodes. -/
theorem C19_post_visited (cut : Tree → Bool) (rev : Bool) (t : Tree) (vis : List Tree) :
    (∀ x, x ∈ (trav cut rev t vis).1 ↔ Reach cut vis t x) ∧
    (trav cut rev t vis).1.Nodup ∧
    (∃ body, (trav cut rev t vis).1 = body ++ [t] ∧ ∀ x ∈ body, x ∉ vis) ∧
    (∀ pre n suf, (trav cut rev t vis).1 = pre ++ n :: suf → cut n = false → ∀ c ∈ n.children, c ∈ vis ∨ c ∈ pre) ∧
    (∀ x, x ∈ (trav cut rev t vis).2 ↔ x ∈ vis ∨ x ∈ (trav cut rev t vis).1) := by
  obtain ⟨body, v1, hs, hsub, hall, he⟩ := trav_top cut rev t vis
  have hord : ∀ pre n suf, body ++ [t] = pre ++ n :: suf → cut n = false → ∀ c ∈ n.children, c ∈ vis ∨ c ∈ pre := by
    intro pre n suf he' hcn c hcc
    rcases List.eq_nil_or_concat suf with rfl | ⟨suf', z, rfl⟩
    · have h2 := List.append_inj' he' rfl
      obtain ⟨h2a, h2b⟩ := h2
      simp only [List.cons.injEq, and_true] at h2b
      subst h2b; subst h2a
      exact (hs.mem c).mp (hall hcn c hcc)
    · have he'' : body ++ [t] = (pre ++ n :: suf') ++ [z] := by simpa using he'
      obtain ⟨h2a, _⟩ := List.append_inj' he'' rfl
      exact hs.ord pre n suf' h2a hcn c hcc
  rw [he]
  refine ⟨?_, ?_, ⟨body, rfl, hs.fresh⟩, hord, ?_⟩
  · intro x
    constructor
    · intro hx; exact trav_reach cut rev t vis x (by rw [he]; exact hx)
    · intro hr
      induction hr with
      | root => simp
      | step _ hcn hm hv ih =>
        obtain ⟨pre, suf, hp⟩ := List.append_of_mem ih
        cases hord pre _ suf hp hcn _ hm with
        | inl h => exact absurd h hv
        | inr h => rw [hp]; exact List.mem_append.mpr (Or.inl h)
  · rw [List.nodup_append]
    refine ⟨hs.nodup, by simp, ?_⟩
    intro a ha b hb hab
    simp only [List.mem_singleton] at hb
    subst hb; subst hab
    exact not_mem_subtermsL_children a (hsub a ha)
  · intro x
    simp only [List.mem_cons, List.mem_append, List.not_mem_nil, or_false, hs.mem x]
    constructor
    · rintro (h | h | h)
      · exact Or.inr (Or.inr h)
      · exact Or.inl h
      · exact Or.inr (Or.inl h)
    · rintro (h | h | h)
      · exact Or.inr (Or.inl h)
      · exact Or.inr (Or.inr h)
      · exact Or.inl h

/-- a set is operand-closed when it holds the operands of its members; every set produced by
    traversals without cut-off from the empty set is (C19_shared_visited_sequence) -/
def Closed (S : List Tree) : Prop := ∀ n ∈ S, ∀ c ∈ n.children, c ∈ S

/-- with an operand-closed caller set and no cut-off types, the traversal yields **exactly the
    subexpressions of `t` that are not yet in the set** (and `t` itself), and leaves the set closed -/
theorem C19_post_visited_closed (rev : Bool) (t : Tree) (vis : List Tree) (hcl : Closed vis) :
    (∀ x, x ∈ (trav (fun _ => false) rev t vis).1 ↔ x = t ∨ (x ∈ subterms t ∧ x ∉ vis)) ∧
    Closed (trav (fun _ => false) rev t vis).2 := by
  obtain ⟨hreach, _, ⟨body, hb, hfresh⟩, hord, hmem⟩ := C19_post_visited (fun _ => false) rev t vis
  have hclosed' : Closed (trav (fun _ => false) rev t vis).2 := by
    intro n hn c hc
    rw [hmem]
    cases (hmem n).mp hn with
    | inl h => exact Or.inl (hcl n h c hc)
    | inr h =>
      obtain ⟨pre, suf, hp⟩ := List.append_of_mem h
      cases hord pre n suf hp rfl c hc with
      | inl h' => exact Or.inl h'
      | inr h' => exact Or.inr (by rw [hp]; exact List.mem_append.mpr (Or.inl h'))
  refine ⟨?_, hclosed'⟩
  intro x
  constructor
  · intro hx
    have hsubt := ((hreach x).mp hx).subterm
    rw [hb] at hx
    cases List.mem_append.mp hx with
    | inl h => exact Or.inr ⟨hsubt, hfresh x h⟩
    | inr h => exact Or.inl (by simpa using h)
  · rintro (h | ⟨h1, h2⟩)
    · rw [h, hb]; simp
    · have ht : t ∈ (trav (fun _ => false) rev t vis).2 := (hmem t).mpr (Or.inr (by rw [hb]; simp))
      have := closed_subterms _ hclosed' t ht x h1
      cases (hmem x).mp this with
      | inl h => exact absurd h h2
      | inr h => exact h

/-! ### several traversals sharing one set -/

theorem travSeq_spec (cut : Tree → Bool) (rev : Bool) : ∀ (ts vis : List Tree),
    (travSeq cut rev ts vis).1.length = ts.length ∧
    (∀ x, x ∈ (travSeq cut rev ts vis).2 ↔ x ∈ vis ∨ x ∈ (travSeq cut rev ts vis).1.flatten) ∧
    (∀ x ∈ (travSeq cut rev ts vis).1.flatten, ∃ t ∈ ts, x ∈ subterms t) ∧
    (∀ t ∈ ts, t ∈ (travSeq cut rev ts vis).1.flatten) ∧
    ((∀ t ∈ ts, t ∉ vis) → ts.Pairwise (fun a b => b ∉ subterms a) →
      (travSeq cut rev ts vis).1.flatten.Nodup ∧ ∀ x ∈ (travSeq cut rev ts vis).1.flatten, x ∉ vis)
  | [], vis => by simp [travSeq]
  | t :: ts, vis => by
    obtain ⟨hreach, hnd, ⟨body, hb, hfresh⟩, _, hmem⟩ := C19_post_visited cut rev t vis
    obtain ⟨i1, i2, i3, i4, i5⟩ := travSeq_spec cut rev ts (trav cut rev t vis).2
    simp only [travSeq, List.length_cons, List.flatten_cons, List.mem_append]
    refine ⟨by rw [i1], ?_, ?_, ?_, ?_⟩
    · intro x; rw [i2 x, hmem x]
      constructor
      · rintro ((h | h) | h)
        · exact Or.inl h
        · exact Or.inr (Or.inl h)
        · exact Or.inr (Or.inr h)
      · rintro (h | h | h)
        · exact Or.inl (Or.inl h)
        · exact Or.inl (Or.inr h)
        · exact Or.inr h
    · intro x hx
      cases hx with
      | inl h => exact ⟨t, by simp, ((hreach x).mp h).subterm⟩
      | inr h => obtain ⟨u, hu, hxu⟩ := i3 x h; exact ⟨u, List.mem_cons_of_mem _ hu, hxu⟩
    · intro u hu
      cases List.mem_cons.mp hu with
      | inl h => rw [h]; exact Or.inl ((hreach t).mpr .root)
      | inr h => exact Or.inr (i4 u h)
    · intro hnv hpw
      have htv : t ∉ vis := hnv t (by simp)
      have hfr : ∀ x ∈ (trav cut rev t vis).1, x ∉ vis := by
        intro x hx; rw [hb] at hx
        cases List.mem_append.mp hx with
        | inl h => exact hfresh x h
        | inr h => simp only [List.mem_singleton] at h; rw [h]; exact htv
      obtain ⟨hpt, hpts⟩ := List.pairwise_cons.mp hpw
      obtain ⟨j1, j2⟩ := i5 (by
        intro u hu hv
        cases (hmem u).mp hv with
        | inl h => exact hnv u (List.mem_cons_of_mem _ hu) h
        | inr h => exact hpt u hu ((hreach u).mp h).subterm) hpts
      refine ⟨?_, ?_⟩
      · rw [List.nodup_append]
        refine ⟨hnd, j1, ?_⟩
        intro a ha b hb' hab
        subst hab
        exact j2 a hb' ((hmem a).mpr (Or.inr ha))
      · intro x hx
        cases hx with
        | inl h => exact hfr x h
        | inr h => exact fun hv => j2 x h ((hmem x).mpr (Or.inl hv))

theorem travSeq_closed (rev : Bool) : ∀ (ts vis : List Tree), Closed vis →
    Closed (travSeq (fun _ => false) rev ts vis).2 ∧
    ∀ t ∈ ts, ∀ x ∈ subterms t, x ∈ (travSeq (fun _ => false) rev ts vis).2
  | [], vis, h => by simpa [travSeq] using h
  | t :: ts, vis, h => by
    obtain ⟨h1, h2⟩ := C19_post_visited_closed rev t vis h
    obtain ⟨k1, k2⟩ := travSeq_closed rev ts _ h2
    simp only [travSeq]
    refine ⟨k1, ?_⟩
    intro u hu x hx
    cases List.mem_cons.mp hu with
    | inl e =>
      subst e
      have : x ∈ (trav (fun _ => false) rev u vis).2 := by
        rw [(C19_post_visited (fun _ => false) rev u vis).2.2.2.2 x]
        by_cases hv : x ∈ vis
        · exact Or.inl hv
        · exact Or.inr ((h1 x).mpr (Or.inr ⟨hx, hv⟩))
      exact ((travSeq_spec (fun _ => false) rev ts _).2.1 x).mpr (Or.inl this)
    | inr e => exact k2 u e x hx

/-- **A sequence of traversals sharing one `visited` set** (starting empty, as `map_expr_dags`
    creates it; `rev = false`: `unique_post_traversal`, `rev = true`: the cut-off variant with no
    cut-off type).  The concatenation of the yields lists every distinct subexpression of the
    expressions, nothing else, and the shared set ends up holding exactly these; **if no expression is
    a subexpression of an earlier one, every distinct node is listed exactly once.**  (Without that
    hypothesis the statement is false: the root of a traversal is yielded even when it is already
    in the set — `C19_shared_visited_sequence_root_repeat`.) -/
theorem C19_shared_visited_sequence (rev : Bool) (ts : List Tree) :
    (travSeq (fun _ => false) rev ts []).1.length = ts.length ∧
    (∀ x, x ∈ (travSeq (fun _ => false) rev ts []).1.flatten ↔ ∃ t ∈ ts, x ∈ subterms t) ∧
    (∀ x, x ∈ (travSeq (fun _ => false) rev ts []).2 ↔ ∃ t ∈ ts, x ∈ subterms t) ∧
    (ts.Pairwise (fun a b => b ∉ subterms a) → (travSeq (fun _ => false) rev ts []).1.flatten.Nodup) := by
  obtain ⟨i1, i2, i3, _, i5⟩ := travSeq_spec (fun _ => false) rev ts []
  obtain ⟨_, k2⟩ := travSeq_closed rev ts [] (by intro n hn; cases hn)
  have hflat : ∀ x, x ∈ (travSeq (fun _ => false) rev ts []).1.flatten ↔ ∃ t ∈ ts, x ∈ subterms t := by
    intro x
    constructor
    · exact i3 x
    · rintro ⟨t, ht, hx⟩
      have := (i2 x).mp (k2 t ht x hx)
      simpa using this
  refine ⟨i1, hflat, ?_, fun hp => (i5 (by simp) hp).1⟩
  intro x; rw [i2 x, hflat x]; simp

/-- the same for cut-off traversals, as far as it holds with cut-off types: no duplicates under the
    same hypothesis, only subexpressions, every root yielded, final set = union of the yields -/
theorem C19_shared_visited_sequence_cutoff (cut : Tree → Bool) (rev : Bool) (ts : List Tree) :
    (∀ x, x ∈ (travSeq cut rev ts []).2 ↔ x ∈ (travSeq cut rev ts []).1.flatten) ∧
    (∀ x ∈ (travSeq cut rev ts []).1.flatten, ∃ t ∈ ts, x ∈ subterms t) ∧
    (∀ t ∈ ts, t ∈ (travSeq cut rev ts []).1.flatten) ∧
    (ts.Pairwise (fun a b => b ∉ subterms a) → (travSeq cut rev ts []).1.flatten.Nodup) := by
  obtain ⟨_, i2, i3, i4, i5⟩ := travSeq_spec cut rev ts []
  exact ⟨by intro x; rw [i2 x]; simp, i3, i4, fun hp => (i5 (by simp) hp).1⟩

/-- the full "exactly once" statement fails without the hypothesis: traversing the same expression
    (or a subexpression of an earlier one) again yields its root again -/
theorem C19_shared_visited_sequence_root_repeat :
    ∃ ts : List Tree, ¬ (travSeq (fun _ => false) false ts []).1.flatten.Nodup :=
  ⟨[.node 0 [.node 1 []], .node 1 []], by decide⟩

example : (travSeq (fun _ => false) false [exT, .node 3 [.node 1 [.node 2 []]], .node 9 [exT, .node 7 []]] []).1.map (·.map Tree.label)
    = [[2, 1, 3, 0], [3], [7, 9]] := by decide

/-! ### `unique_pre_traversal(expr, visited)` with a caller-owned set -/

structure PreInvV (t : Tree) (V0 stack vis Y : List Tree) : Prop where
  nodup : (Y ++ stack).Nodup
  vis_iff : ∀ x, x ∈ vis ↔ x ∈ V0 ∨ x ∈ Y ∨ x ∈ stack
  closed : ∀ n ∈ Y, ∀ c ∈ n.children, c ∈ vis
  good : ∀ x, x ∈ Y ∨ x ∈ stack → x ∈ subterms t ∧ (x = t ∨ x ∉ V0) ∧ Reach (fun _ => false) V0 t x

theorem preLoopV_spec (t : Tree) (V0 : List Tree) : ∀ (fuel : Nat) (stack vis Y : List Tree), PreInvV t V0 stack vis Y →
    t.size ≤ fuel + Y.length →
    (Y ++ preLoop fuel stack vis).Nodup ∧ (∀ x ∈ stack, x ∈ preLoop fuel stack vis) ∧
    (∀ n ∈ Y ++ preLoop fuel stack vis, ∀ c ∈ n.children, c ∈ V0 ∨ c ∈ Y ++ preLoop fuel stack vis) ∧
    (∀ x ∈ preLoop fuel stack vis, (x = t ∨ x ∉ V0) ∧ Reach (fun _ => false) V0 t x) := by
  intro fuel
  induction fuel with
  | zero =>
    intro stack vis Y inv hf
    have hlen : (Y ++ stack).length ≤ t.size := by
      rw [← subterms_length t]
      apply List.Nodup.length_le_of_subset inv.nodup
      intro x hx
      exact (inv.good x (List.mem_append.mp hx)).1
    have hs : stack = [] := by
      cases stack with
      | nil => rfl
      | cons a as => simp only [List.length_append, List.length_cons] at hlen; omega
    subst hs
    simp only [preLoop, List.append_nil]
    refine ⟨by simpa using inv.nodup, by simp, ?_, by simp⟩
    intro n hn c hc
    have := (inv.vis_iff c).mp (inv.closed n hn c hc)
    simpa using this
  | succ fuel ih =>
    intro stack vis Y inv hf
    cases stack with
    | nil =>
      simp only [preLoop, List.append_nil]
      refine ⟨by simpa using inv.nodup, by simp, ?_, by simp⟩
      intro n hn c hc
      have := (inv.vis_iff c).mp (inv.closed n hn c hc)
      simpa using this
    | cons n rest =>
      simp only [preLoop]
      have hnd := inv.nodup
      rw [List.nodup_append] at hnd
      obtain ⟨hY, hst, hdis⟩ := hnd
      have hrest : rest.Nodup := (List.nodup_cons.mp hst).2
      have hnrest : n ∉ rest := (List.nodup_cons.mp hst).1
      have hrv : ∀ x ∈ rest, x ∈ vis := fun x hx => (inv.vis_iff x).mpr (Or.inr (Or.inr (List.mem_cons_of_mem _ hx)))
      obtain ⟨p1, p2, p3⟩ := pushNew_spec n.children rest vis hrest hrv
      have hnvis : n ∈ vis := (inv.vis_iff n).mpr (Or.inr (Or.inr (by simp)))
      have hnY : n ∉ Y := fun h => hdis n h n (by simp) rfl
      have hngood := inv.good n (Or.inr (by simp))
      have inv' : PreInvV t V0 (pushNew n.children rest vis).1 (pushNew n.children rest vis).2 (Y ++ [n]) := by
        refine ⟨?_, ?_, ?_, ?_⟩
        · rw [List.nodup_append]
          refine ⟨?_, p1, ?_⟩
          · rw [List.nodup_append]
            exact ⟨hY, by simp, by intro a ha b hb e; simp only [List.mem_singleton] at hb; subst hb; subst e; exact hnY ha⟩
          · intro a ha b hb e
            subst e
            cases List.mem_append.mp ha with
            | inl ha =>
              cases (p2 a).mp hb with
              | inl h => exact hdis a ha a (List.mem_cons_of_mem _ h) rfl
              | inr h => exact h.2 ((inv.vis_iff a).mpr (Or.inr (Or.inl ha)))
            | inr ha =>
              simp only [List.mem_singleton] at ha; subst ha
              cases (p2 a).mp hb with
              | inl h => exact hnrest h
              | inr h => exact h.2 hnvis
        · intro x; rw [p3 x, p2 x, inv.vis_iff x]
          simp only [List.mem_append, List.mem_cons]
          by_cases h0 : x ∈ V0 <;> by_cases ha : x ∈ Y <;> by_cases hb : x = n <;> by_cases hc : x ∈ rest <;>
            by_cases hd : x ∈ n.children <;> simp [h0, ha, hb, hc, hd]
        · intro m hm c hc
          rw [p3 c]
          cases List.mem_append.mp hm with
          | inl hm => exact Or.inl (inv.closed m hm c hc)
          | inr hm => simp only [List.mem_singleton] at hm; subst hm; exact Or.inr hc
        · intro x hx
          rcases hx with hx | hx
          · cases List.mem_append.mp hx with
            | inl h => exact inv.good x (Or.inl h)
            | inr h => simp only [List.mem_singleton] at h; rw [h]; exact hngood
          · cases (p2 x).mp hx with
            | inl h => exact inv.good x (Or.inr (List.mem_cons_of_mem _ h))
            | inr h =>
              have hx0 : x ∉ V0 := fun h0 => h.2 ((inv.vis_iff x).mpr (Or.inl h0))
              exact ⟨subterms_trans t n x hngood.1 (child_mem_subterms n x h.1), Or.inr hx0,
                     .step hngood.2.2 rfl h.1 hx0⟩
      obtain ⟨q1, q2, q3, q4⟩ := ih _ _ (Y ++ [n]) inv' (by simp only [List.length_append, List.length_cons, List.length_nil]; omega)
      simp only [List.append_assoc, List.singleton_append] at q1 q3
      refine ⟨q1, ?_, q3, ?_⟩
      · intro x hx
        cases List.mem_cons.mp hx with
        | inl e => simp [e]
        | inr e => exact List.mem_cons_of_mem _ (q2 x ((p2 x).mpr (Or.inl e)))
      · intro x hx
        cases List.mem_cons.mp hx with
        | inl e => rw [e]; exact hngood.2
        | inr e => exact q4 x e

/-- **`unique_pre_traversal(t, visited)` for an arbitrary caller-supplied set**: no node twice, the
    root first (whether or not it is in the set), every other yielded node was not in the set, and the
    yielded nodes are exactly those reachable from the root through operands outside the set. -/
theorem C19_pre_visited (t : Tree) (vis : List Tree) :
    (preV t vis).Nodup ∧ (preV t vis).head? = some t ∧
    (∀ x, x ∈ preV t vis ↔ Reach (fun _ => false) vis t x) ∧
    (∀ x ∈ preV t vis, x = t ∨ x ∉ vis) := by
  have inv : PreInvV t vis [t] (t :: vis) [] := by
    refine ⟨by simp, ?_, by simp, ?_⟩
    · intro x; simp only [List.mem_cons, List.not_mem_nil, false_or, or_false]
      constructor
      · rintro (h | h)
        · exact Or.inr h
        · exact Or.inl h
      · rintro (h | h)
        · exact Or.inr h
        · exact Or.inl h
    · intro x hx
      simp only [List.not_mem_nil, false_or, List.mem_singleton] at hx
      rw [hx]; exact ⟨mem_subterms_self t, Or.inl rfl, .root⟩
  obtain ⟨h1, h2, h3, h4⟩ := preLoopV_spec t vis t.size [t] (t :: vis) [] inv (by simp)
  simp only [List.nil_append] at h1 h3
  refine ⟨h1, ?_, ?_, fun x hx => (h4 x hx).1⟩
  · unfold preV
    cases t with
    | node l cs =>
      simp only [Tree.size]
      rw [show 1 + Tree.sizeL cs = Tree.sizeL cs + 1 from Nat.add_comm _ _]
      simp [preLoop]
  · intro x
    constructor
    · intro hx; exact (h4 x hx).2
    · intro hr
      induction hr with
      | root => exact h2 t (by simp)
      | step _ _ hm hv ih =>
        cases h3 _ ih _ hm with
        | inl h => exact absurd h hv
        | inr h => exact h

/-- with an operand-closed set: exactly the subexpressions not yet in the set (and the root) -/
theorem C19_pre_visited_closed (t : Tree) (vis : List Tree) (hcl : Closed vis) :
    ∀ x, x ∈ preV t vis ↔ x = t ∨ (x ∈ subterms t ∧ x ∉ vis) := by
  obtain ⟨_, _, hreach, hfresh⟩ := C19_pre_visited t vis
  intro x
  constructor
  · intro hx
    cases hfresh x hx with
    | inl h => exact Or.inl h
    | inr h => exact Or.inr ⟨((hreach x).mp hx).subterm, h⟩
  · rintro (h | ⟨h1, h2⟩)
    · rw [h]; exact (hreach t).mpr .root
    · -- vis ++ yields contains t and is closed under operands
      have hS : Closed (vis ++ preV t vis) := by
        intro n hn c hc
        cases List.mem_append.mp hn with
        | inl h => exact List.mem_append.mpr (Or.inl (hcl n h c hc))
        | inr h =>
          by_cases hv : c ∈ vis
          · exact List.mem_append.mpr (Or.inl hv)
          · exact List.mem_append.mpr (Or.inr ((hreach c).mpr (.step ((hreach n).mp h) rfl hc hv)))
      have := closed_subterms _ hS t (List.mem_append.mpr (Or.inr ((hreach t).mpr .root))) x h1
      cases List.mem_append.mp this with
      | inl h => exact absurd h h2
      | inr h => exact h

/-! ## 2. `map_expr_dags` over several expressions with caller-owned `vcache` / `rcache` -/

section MapShared
variable {R : Type} [DecidableEq R] (cut : Tree → Bool) (h : Tree → List (Option R) → R)

/-- `compress` never changes the VALUE that is stored (the result cache returns an `==` object) -/
theorem compressR_fst (rc : List R) (r : R) : (compressR rc r).1 = r := by
  unfold compressR
  cases hf : rc.find? (fun x => x == r) with
  | none => rfl
  | some r2 => have := List.find?_some hf; simpa using this

/-- ... and afterwards the result cache holds the value, and everything it held before -/
theorem compressR_snd (rc : List R) (r : R) : r ∈ (compressR rc r).2 ∧ ∀ x ∈ rc, x ∈ (compressR rc r).2 := by
  unfold compressR
  cases hf : rc.find? (fun x => x == r) with
  | none => simp only [List.mem_cons, true_or, true_and]; exact fun x hx => Or.inr hx
  | some r2 =>
    have h1 := List.find?_some hf
    have h2 := List.mem_of_find?_eq_some hf
    simp only [beq_iff_eq] at h1
    subst h1
    exact ⟨h2, fun x hx => hx⟩

theorem mapStepC_fst (compress : Bool) (st : List (Tree × R) × List R) (v : Tree) :
    (mapStepC cut h compress st v).1 = mapStep cut h st.1 v := by
  unfold mapStepC mapStep
  cases lookup st.1 v with
  | some _ => rfl
  | none => cases compress <;> simp [compressR_fst]

theorem foldl_mapStepC_fst (compress : Bool) : ∀ (l : List Tree) (st : List (Tree × R) × List R),
    (l.foldl (mapStepC cut h compress) st).1 = l.foldl (mapStep cut h) st.1
  | [], _ => rfl
  | v :: l, st => by
    simp only [List.foldl_cons]
    rw [foldl_mapStepC_fst compress l, mapStepC_fst]

theorem mapDagsLoop_spec (anyCut : Bool) (hcut : anyCut = false → ∀ x, cut x = false) (compress : Bool) :
    ∀ (ts vis : List Tree) (st : List (Tree × R) × List R), VcOK cut h st.1 vis →
      VcOK cut h (mapDagsLoop cut anyCut h compress ts vis st).2.1 (mapDagsLoop cut anyCut h compress ts vis st).1 ∧
      (∀ x ∈ vis, x ∈ (mapDagsLoop cut anyCut h compress ts vis st).1) ∧
      (∀ t ∈ ts, t ∈ (mapDagsLoop cut anyCut h compress ts vis st).1)
  | [], vis, st, hv => by simpa [mapDagsLoop] using hv
  | t :: ts, vis, st, hv => by
    -- one traversal + fold keeps the invariant, for either traversal function
    have key : ∀ (cut' : Tree → Bool) (rev : Bool), (∀ n, cut n = false → cut' n = false) →
        VcOK cut h ((trav cut' rev t vis).1.foldl (mapStepC cut h compress) st).1 (trav cut' rev t vis).2 ∧
        (∀ x ∈ vis, x ∈ (trav cut' rev t vis).2) ∧ t ∈ (trav cut' rev t vis).2 := by
      intro cut' rev hcc
      obtain ⟨hreach, _, _, hord, hmem⟩ := C19_post_visited cut' rev t vis
      have hf := fold_ok cut h (trav cut' rev t vis).1 vis st.1 hv
        (fun p n s he hc c hcm => hord p n s he (hcc n hc) c hcm)
      rw [foldl_mapStepC_fst]
      refine ⟨⟨hf.1, ?_⟩, fun x hx => (hmem x).mpr (Or.inl hx), (hmem t).mpr (Or.inr ((hreach t).mpr .root))⟩
      intro x hx
      exact hf.2 x (List.mem_append.mpr ((hmem x).mp hx))
    unfold mapDagsLoop
    cases anyCut with
    | true =>
      simp only [↓reduceIte]
      obtain ⟨k1, k2, k3⟩ := key cut true (fun _ hn => hn)
      obtain ⟨i1, i2, i3⟩ := mapDagsLoop_spec true hcut compress ts _ _ k1
      refine ⟨i1, fun x hx => i2 x (k2 x hx), ?_⟩
      intro u hu
      cases List.mem_cons.mp hu with
      | inl e => rw [e]; exact i2 t k3
      | inr e => exact i3 u e
    | false =>
      simp only [Bool.false_eq_true, ↓reduceIte]
      obtain ⟨k1, k2, k3⟩ := key (fun _ => false) false (fun _ _ => rfl)
      obtain ⟨i1, i2, i3⟩ := mapDagsLoop_spec false hcut compress ts _ _ k1
      refine ⟨i1, fun x hx => i2 x (k2 x hx), ?_⟩
      intro u hu
      cases List.mem_cons.mp hu with
      | inl e => rw [e]; exact i2 t k3
      | inr e => exact i3 u e

/-- **`map_expr_dags(function, expressions, compress, vcache, rcache)`**: for every list of
    expressions (any sharing inside and between them, repeated expressions included), every handler,
    with and without cut-off types, with and without `compress`, any `rcache`, and any caller
    `vcache` that only holds results of the same function (in particular the empty one, or the one
    left by an earlier call), **each result is the per-expression recursion over the tree**, and the
    `vcache` handed back again only holds such results (so it can be shared with the next call). -/
theorem C19_map_dags_shared_cache (anyCut : Bool) (hcut : anyCut = false → ∀ x, cut x = false) (compress : Bool)
    (ts : List Tree) (vc : List (Tree × R)) (rc : List R)
    (hvc : ∀ x r, lookup vc x = some r → r = mapTree cut h x) :
    (mapDags cut anyCut h compress ts vc rc).1 = ts.map (fun t => some (mapTree cut h t)) ∧
    (∀ x r, lookup (mapDags cut anyCut h compress ts vc rc).2.1 x = some r → r = mapTree cut h x) := by
  obtain ⟨i1, _, i3⟩ := mapDagsLoop_spec cut h anyCut hcut compress ts [] (vc, rc) ⟨hvc, by simp⟩
  unfold mapDags
  refine ⟨?_, i1.1⟩
  apply List.map_congr_left
  intro t ht
  obtain ⟨r, hr⟩ := i1.2 t (i3 t ht)
  rw [hr, i1.1 t r hr]

/-- two calls sharing `vcache` and `rcache` (the pattern of apply_restrictions /
    remove_component_tensors): the second call still returns the tree recursion -/
theorem C19_map_dags_two_calls (anyCut : Bool) (hcut : anyCut = false → ∀ x, cut x = false) (c1 c2 : Bool)
    (ts1 ts2 : List Tree) :
    (mapDags cut anyCut h c2 ts2 (mapDags cut anyCut h c1 ts1 [] []).2.1 (mapDags cut anyCut h c1 ts1 [] []).2.2).1
      = ts2.map (fun t => some (mapTree cut h t)) :=
  (C19_map_dags_shared_cache cut h anyCut hcut c2 ts2 _ _
    (C19_map_dags_shared_cache cut h anyCut hcut c1 ts1 [] [] (by intro x r hx; simp [lookup] at hx)).2).1

/-! ### what `compress` adds: every result stored by the call is in the result cache afterwards -/

theorem mapStepC_rc (vc0 : List (Tree × R)) (st : List (Tree × R) × List R) (v : Tree)
    (hst : ∀ x r, lookup st.1 x = some r → lookup vc0 x = some r ∨ r ∈ st.2) :
    (∀ x r, lookup (mapStepC cut h true st v).1 x = some r → lookup vc0 x = some r ∨ r ∈ (mapStepC cut h true st v).2) ∧
    (∀ r ∈ st.2, r ∈ (mapStepC cut h true st v).2) := by
  unfold mapStepC
  cases hl : lookup st.1 v with
  | some _ => exact ⟨hst, fun r hr => hr⟩
  | none =>
    simp only [↓reduceIte]
    generalize (if cut v = true then h v [] else h v (List.map (lookup st.1) v.children)) = r0
    obtain ⟨c1, c2⟩ := compressR_snd st.2 r0
    refine ⟨?_, c2⟩
    intro x r hx
    rw [lookup_cons] at hx
    split at hx
    · simp only [Option.some.injEq] at hx
      rw [← hx, compressR_fst]; exact Or.inr c1
    · cases hst x r hx with
      | inl h' => exact Or.inl h'
      | inr h' => exact Or.inr (c2 r h')

theorem foldl_mapStepC_rc (vc0 : List (Tree × R)) : ∀ (l : List Tree) (st : List (Tree × R) × List R),
    (∀ x r, lookup st.1 x = some r → lookup vc0 x = some r ∨ r ∈ st.2) →
    (∀ x r, lookup (l.foldl (mapStepC cut h true) st).1 x = some r → lookup vc0 x = some r ∨ r ∈ (l.foldl (mapStepC cut h true) st).2)
  | [], _, hst => hst
  | v :: l, st, hst => by
    simp only [List.foldl_cons]
    exact foldl_mapStepC_rc vc0 l _ (mapStepC_rc cut h vc0 st v hst).1

theorem mapDagsLoop_rc (anyCut : Bool) (vc0 : List (Tree × R)) : ∀ (ts vis : List Tree) (st : List (Tree × R) × List R),
    (∀ x r, lookup st.1 x = some r → lookup vc0 x = some r ∨ r ∈ st.2) →
    (∀ x r, lookup (mapDagsLoop cut anyCut h true ts vis st).2.1 x = some r →
      lookup vc0 x = some r ∨ r ∈ (mapDagsLoop cut anyCut h true ts vis st).2.2)
  | [], _, _, hst => hst
  | t :: ts, vis, st, hst => by
    unfold mapDagsLoop
    exact mapDagsLoop_rc anyCut vc0 ts _ _ (foldl_mapStepC_rc cut h vc0 _ st hst)

/-- **`compress=True`**: every result in the `vcache` handed back was either already in the caller's
    `vcache` or is held by the `rcache` handed back (so a later equal result is replaced by that
    object); by `C19_map_dags_shared_cache` the values are the same with and without `compress`. -/
theorem C19_map_dags_compress_rcache (anyCut : Bool) (ts : List Tree) (vc : List (Tree × R)) (rc : List R) :
    ∀ x r, lookup (mapDags cut anyCut h true ts vc rc).2.1 x = some r →
      lookup vc x = some r ∨ r ∈ (mapDags cut anyCut h true ts vc rc).2.2 :=
  mapDagsLoop_rc cut h anyCut vc ts [] (vc, rc) (fun _ _ hx => Or.inl hx)

end MapShared

/-! ## 3. `DAGTraverser` with keyword arguments -/

section DagKw
variable {R : Type} [DecidableEq R] (H : Handler R)

/-- every entry of the visited cache is the plain recursion for ITS node and ITS keyword arguments -/
def CacheOK2 (c : Cache R) : Prop := ∀ t ctx r, lookupK c (t, ctx) = some r → r = dagTree2 H t ctx

/-- a memoised operand closure agrees with the reference closure on every sound state -/
def KidOK (f : Ctx → DState R → R × DState R) (g : Ctx → R) : Prop :=
  ∀ kw st, CacheOK2 H st.1 → (f kw st).1 = g kw ∧ CacheOK2 H (f kw st).2.1

def KidsOK (kids : List (Ctx → DState R → R × DState R)) (kidsT : List (Ctx → R)) : Prop :=
  ∀ i : Nat, (kids[i]? = none ∧ kidsT[i]? = none) ∨ ∃ f g, kids[i]? = some f ∧ kidsT[i]? = some g ∧ KidOK H f g

omit [DecidableEq R] in
theorem runCalls_spec (kids : List (Ctx → DState R → R × DState R)) (kidsT : List (Ctx → R))
    (hk : KidsOK H kids kidsT) : ∀ (calls : List (Nat × Ctx)) (st : DState R), CacheOK2 H st.1 →
      (runCalls kids calls st).1 = runCallsT kidsT calls ∧ CacheOK2 H (runCalls kids calls st).2.1
  | [], st, hst => by simpa [runCalls, runCallsT] using hst
  | (i, kw) :: rest, st, hst => by
    unfold runCalls runCallsT
    rcases hk i with ⟨h1, h2⟩ | ⟨f, g, h1, h2, hfg⟩
    · rw [h1, h2]; exact runCalls_spec kids kidsT hk rest st hst
    · rw [h1, h2]
      obtain ⟨a1, a2⟩ := hfg kw st hst
      obtain ⟨b1, b2⟩ := runCalls_spec kids kidsT hk rest (f kw st).2 a2
      simp only
      exact ⟨by rw [a1, b1], b2⟩

mutual
theorem dagCall2_spec (compress : Bool) : ∀ t : Tree, KidOK H (dagCall2 H compress id t) (dagTree2 H t)
  | .node l cs => by
    intro kw st hst
    unfold dagCall2
    simp only [id]
    cases hl : lookupK st.1 (.node l cs, kw) with
    | some r => exact ⟨hst _ _ r hl, hst⟩
    | none =>
      obtain ⟨h1, h2⟩ := runCalls_spec H _ _ (dagKids2_spec compress cs) (H.calls (.node l cs) kw) st hst
      have hq : ∀ (rc : List R) (r : R), (if compress = true then compressR rc r else (r, rc)).1 = r := by
        intro rc r; cases compress <;> simp [compressR_fst]
      simp only [hq, h1]
      refine ⟨by simp [dagTree2], ?_⟩
      intro t' ctx' r' hr
      rw [lookupK_cons] at hr
      split at hr
      · rename_i e
        simp only [Option.some.injEq] at hr
        cases e
        rw [← hr]; simp [dagTree2]
      · exact h2 t' ctx' r' hr
theorem dagKids2_spec (compress : Bool) : ∀ cs : List Tree, KidsOK H (dagKids2 H compress id cs) (dagKidsT H cs)
  | [] => fun i => Or.inl (by simp [dagKids2, dagKidsT])
  | c :: cs => by
    intro i
    cases i with
    | zero => exact Or.inr ⟨_, _, by simp [dagKids2], by simp [dagKidsT], dagCall2_spec compress c⟩
    | succ j => simpa [dagKids2, dagKidsT] using dagKids2_spec compress cs j
end

/-- **`DAGTraverser.__call__` with keyword arguments**: for every rule set whose rules are functions
    of (node, processed operands, kwargs) — whichever operands they process, in whichever order, under
    whichever changed keyword arguments —, every expression, every keyword context, with and without
    `compress`, and whatever earlier calls of the same traverser left in the visited cache, the
    memoised result is the plain recursion over the tree **with the same keyword arguments at every
    node**, and the cache stays sound for the next call. -/
theorem C19_dag_kwargs (compress : Bool) (t : Tree) (kw : Ctx) (cache : Cache R) (rc : List R)
    (hc : CacheOK2 H cache) :
    (dagCall2 H compress id t kw (cache, rc)).1 = dagTree2 H t kw ∧
    CacheOK2 H (dagCall2 H compress id t kw (cache, rc)).2.1 :=
  dagCall2_spec H compress t kw (cache, rc) hc

theorem C19_dag_kwargs_fresh (compress : Bool) (t : Tree) (kw : Ctx) :
    (dagCall2 H compress id t kw ([], [])).1 = dagTree2 H t kw :=
  (C19_dag_kwargs H compress t kw [] [] (by intro t ctx r h; simp [lookupK] at h)).1

end DagKw

/-! ### the decorators -/
section Decorators
variable {R : Type}

theorem runCallsT_shift (k : Ctx → R) (ks : List (Ctx → R)) : ∀ calls : List (Nat × Ctx),
    runCallsT (k :: ks) (calls.map (fun p => (p.1 + 1, p.2))) = runCallsT ks calls
  | [] => rfl
  | (i, kw) :: rest => by
    simp only [List.map_cons, runCallsT, List.getElem?_cons_succ]
    rw [runCallsT_shift k ks rest]

theorem runCallsT_all (kw : Ctx) : ∀ ks : List (Ctx → R),
    runCallsT ks ((List.range ks.length).map (fun i => (i, kw))) = ks.map (fun f => f kw)
  | [] => rfl
  | k :: ks => by
    rw [List.length_cons, List.range_succ_eq_map, List.map_cons, List.map_map]
    have : ((fun i => (i, kw)) ∘ Nat.succ) = (fun p : Nat × Ctx => (p.1 + 1, p.2)) ∘ (fun i => (i, kw)) := rfl
    rw [this, ← List.map_map, runCallsT]
    simp only [List.getElem?_cons_zero, List.map_cons]
    rw [runCallsT_shift, runCallsT_all kw ks]

theorem dagKidsT_length (H : Handler R) : ∀ cs : List Tree, (dagKidsT H cs).length = cs.length
  | [] => rfl
  | _ :: cs => by simp [dagKidsT, dagKidsT_length H cs]

theorem dagKidsT_get (H : Handler R) : ∀ (cs : List Tree) (i : Nat),
    (dagKidsT H cs)[i]? = (cs[i]?).map (fun c kw => dagTree2 H c kw)
  | [], i => by simp [dagKidsT]
  | c :: cs, 0 => by simp [dagKidsT]
  | c :: cs, i + 1 => by simpa [dagKidsT] using dagKidsT_get H cs i

mutual
theorem dagTree2_postorder (m : Tree → Ctx → List R → R) : ∀ (t : Tree) (kw : Ctx),
    dagTree2 (postorder m) t kw = postTree m t kw
  | .node l cs, kw => by
    have := runCallsT_all kw (dagKidsT (postorder m) cs)
    rw [dagKidsT_length] at this
    simp only [dagTree2, postTree]
    show m _ _ (runCallsT _ ((List.range cs.length).map (fun i => (i, kw)))) = _
    rw [this, dagKidsT_postorder m cs kw]
theorem dagKidsT_postorder (m : Tree → Ctx → List R → R) : ∀ (cs : List Tree) (kw : Ctx),
    (dagKidsT (postorder m) cs).map (fun f => f kw) = postTreeL m cs kw
  | [], _ => rfl
  | c :: cs, kw => by
    simp only [dagKidsT, List.map_cons, postTreeL]
    rw [dagTree2_postorder m c kw, dagKidsT_postorder m cs kw]
end

/-- **`@DAGTraverser.postorder`**: the keyword context given at the root reaches every node —
    the memoised result is `method(o, *[recursion on every operand, same kwargs], **kwargs)`. -/
theorem C19_dag_postorder [DecidableEq R] (m : Tree → Ctx → List R → R) (compress : Bool) (t : Tree) (kw : Ctx)
    (cache : Cache R) (rc : List R) (hc : CacheOK2 (postorder m) cache) :
    (dagCall2 (postorder m) compress id t kw (cache, rc)).1 = postTree m t kw := by
  rw [(C19_dag_kwargs (postorder m) compress t kw cache rc hc).1, dagTree2_postorder]

/-- two root calls of one traverser under different keyword arguments (shared caches) -/
theorem C19_dag_postorder_two_calls [DecidableEq R] (m : Tree → Ctx → List R → R) (compress : Bool) (t1 t2 : Tree)
    (kw1 kw2 : Ctx) :
    (dagCall2 (postorder m) compress id t2 kw2 (dagCall2 (postorder m) compress id t1 kw1 ([], [])).2).1
      = postTree m t2 kw2 := by
  have h1 := (C19_dag_kwargs (postorder m) compress t1 kw1 [] [] (by intro t ctx r h; simp [lookupK] at h)).2
  generalize dagCall2 (postorder m) compress id t1 kw1 ([], []) = s at h1 ⊢
  obtain ⟨r, c, rc⟩ := s
  exact C19_dag_postorder m compress t2 kw2 c rc h1

theorem runCallsT_only (H : Handler R) (cs : List Tree) (kw : Ctx) : ∀ idx : List Nat,
    runCallsT (dagKidsT H cs) (idx.map (fun i => (i, kw))) =
      idx.filterMap (fun i => (cs[i]?).map (fun c => dagTree2 H c kw))
  | [] => rfl
  | i :: idx => by
    simp only [List.map_cons, runCallsT, dagKidsT_get, List.filterMap_cons]
    cases cs[i]? with
    | none => simpa using runCallsT_only H cs kw idx
    | some c => simp [runCallsT_only H cs kw idx]

/-- **`@DAGTraverser.postorder_only_children(indices)`**: the method receives the recursion's results
    for the operands `indices` names, in that order (repetitions included), each computed under the
    keyword arguments of the call. -/
theorem C19_dag_postorder_only [DecidableEq R] (idx : List Nat) (m : Tree → Ctx → List R → R) (compress : Bool)
    (l : Nat) (cs : List Tree) (kw : Ctx) (cache : Cache R) (rc : List R)
    (hc : CacheOK2 (postorderOnly idx m) cache) :
    (dagCall2 (postorderOnly idx m) compress id (.node l cs) kw (cache, rc)).1 =
      m (.node l cs) kw (idx.filterMap (fun i => (cs[i]?).map (fun c => dagTree2 (postorderOnly idx m) c kw))) := by
  rw [(C19_dag_kwargs (postorderOnly idx m) compress (.node l cs) kw cache rc hc).1]
  simp only [dagTree2]
  show m _ _ (runCallsT _ (idx.map (fun i => (i, kw)))) = _
  rw [runCallsT_only]

end Decorators

/-! ### why the keyword arguments are part of the cache key -/

/-- a post-order rule on numbers: the sum of the keyword values plus ten times the operand results -/
def sumRule : Tree → Ctx → List Nat → Nat := fun _ kw rs => (kw.map (·.2)).sum + 10 * rs.sum

/-- **If the cache key dropped the keyword arguments** (`keyf = fun _ => []`), a traverser called on
    the same expression under `scale=1` and then under `scale=2` would return the `scale=1` result the
    second time — with the code's key (`keyf = id`) it returns the recursion (C19_dag_kwargs). -/
theorem C19_dag_kwargs_key_matters :
    ∃ (t : Tree) (kw1 kw2 : Ctx),
      (dagCall2 (postorder sumRule) false (fun _ => []) t kw2
        (dagCall2 (postorder sumRule) false (fun _ => []) t kw1 ([], [])).2).1 ≠ postTree sumRule t kw2 ∧
      (dagCall2 (postorder sumRule) false id t kw2
        (dagCall2 (postorder sumRule) false id t kw1 ([], [])).2).1 = postTree sumRule t kw2 :=
  ⟨.node 0 [.node 1 [], .node 1 []], [("scale", 1)], [("scale", 2)], by decide,
    C19_dag_postorder_two_calls sumRule false _ _ _ _⟩

/-- ... and inside ONE call, when a rule passes different keyword arguments to two occurrences of
    the same operand, the second occurrence would get the first one's result -/
def twoScales : Handler Nat where
  calls := fun t _ => if t.label = 0 then [(0, [("scale", 1)]), (1, [("scale", 2)])] else []
  combine := sumRule

theorem C19_dag_kwargs_key_matters_inner :
    (dagCall2 twoScales false (fun _ => []) (.node 0 [.node 1 [], .node 1 []]) [] ([], [])).1 = 20 ∧
    dagTree2 twoScales (.node 0 [.node 1 [], .node 1 []]) [] = 30 := by decide

/-! ## non-vacuity of the hypotheses -/

/-- an operand-closed set that is neither empty nor everything -/
example : Closed (uniquePost (.node 3 [.node 1 [.node 2 []]])) := by unfold Closed; decide
example : ∀ x, x ∈ (trav (fun _ => false) false exT (uniquePost (.node 3 [.node 1 [.node 2 []]]))).1 ↔
    x = exT ∨ (x ∈ subterms exT ∧ x ∉ uniquePost (.node 3 [.node 1 [.node 2 []]])) :=
  (C19_post_visited_closed false exT _ (by unfold Closed; decide)).1
/-- roots none of which is a subexpression of an earlier one, sharing nodes -/
example : ([.node 2 [], .node 1 [.node 2 []], exT] : List Tree).Pairwise (fun a b => b ∉ subterms a) := by decide
/-- a non-empty sound `vcache`: the one an earlier call leaves behind -/
def sumH : Tree → List (Option Nat) → Nat := fun t rs => t.label + (rs.map (fun r => r.getD 0)).sum
example : (mapDags (fun _ => false) false sumH true [exT] [] []).2.1.length = 4 ∧
    (mapDags (fun _ => false) false sumH true [exT] [] []).1 = [some 11] := by decide
/-- a non-empty sound visited cache of a traverser, with keyword arguments in the keys -/
example : (dagCall2 (postorder sumRule) true id exT [("scale", 3)] ([], [])).2.1.length = 4 ∧
    CacheOK2 (postorder sumRule) (dagCall2 (postorder sumRule) true id exT [("scale", 3)] ([], [])).2.1 :=
  ⟨by decide, (C19_dag_kwargs (postorder sumRule) true exT [("scale", 3)] [] [] (by intro t ctx r h; simp [lookupK] at h)).2⟩

end UflVerif.C19
