/-
C11  Forms with different compiled meaning never share a signature.

Statement (properties.jsonl): if two forms differ in anything a form compiler uses (integrand structure after canonical
renumbering, literals, elements, domains, integral types, subdomain ids, metadata values, base-form-operator data), their
signatures differ; equal forms always have equal signatures.

Formalisation.  `Sig.formData z f` (Model/Signature.lean, tied hex-exactly to `form.signature()` by the C12/C11 harnesses) is the
tree whose `str` is hashed by `compute_form_signature`; its Merkle nodes are the constructor `SigData.hash`.  Two forms are
*indistinguishable for a form compiler* when they have the same normal form

    normalize z f  =  integrals in the canonical order of `Form.__init__`; every index count replaced by its number in the order
                      of first visit, every coefficient / constant / label count by its rank among the objects of its class
                      (creation order), every mesh id by its domain number; derived data forgotten (`core`)

(`Inj.Equiv z f g := normalize z f = normalize z g`; Model/SigInj.lean).  Unfolded (`C11_normalize_is_renaming`,
`C11_equiv_is_renaming`): equivalent forms are related by one renaming of index / coefficient / constant / label counts and mesh ids
that is injective on the counts of the form, up to the order of integrals `Form.__init__` sorts away and `core`; every renumbering
that keeps the creation order stays inside the equivalence (`C11_rename_equiv`).  The property is

    (FULL)   formData z f = formData z g   <->   Equiv z f g            for all forms f g whose signature does not raise

and, on top of the tree: the digests of the Merkle nodes and Python's `str` do not merge two trees (`C11_flatten_injective`
for an injective digest `H`, `C11_toks_injective` for the printing of the tree structure).

(FULL) is proved for forms without base form operators (`C11_inj`, `C11_eq`, `C11_iff`): `formData z f = some (encForm z
(normalize z f))` (`C11_data_is_encoding`) and `encForm` is injective on normal forms.  It is FALSE of the current code in two ways,
each proved with a concrete witness and replayed on the implementation by harness/props/c11.py:
  1. the hash data of an operator node is `[typecode, hashes of the operands]`: the `derivatives`, function space and argument
     slots of a base form operator (`ExternalOperator`, `Interpolate`) are not operands and are not hashed
     (`C11_inj_counterexample_bfo`; `_partial` side condition `noBFOForm`);
  2. `canonicalize_metadata` applies `str()` to ints, floats, bools, None and strings alike: metadata `{'k': 2}` and `{'k': '2'}`
     give one signature (`C11_full_counterexample_metadata`; `C11_full_partial` has the side condition that the canonicalisation
     separates the metadata values that occur; with `repr()` for string leaves (fix_C15_2.diff) the witness is separated).
A third collision is outside the model and shown by the harness only: with `ufl.constantvalue.precision` set, the repr of a
`FloatValue` is rounded and the identity of a literal in the hash data is its repr (see `core`).
-/
import UflVerif.Props.C11.Cover
import UflVerif.Props.C11.Meaning
import UflVerif.Props.C11.Explicit
import UflVerif.Props.C11.Print
import UflVerif.Props.C12.SigData

namespace UflVerif.C11
open UflVerif CExpr L Sig Inj UflVerif.C12

/-! ## 0. the normal form of a well-formed form is well-formed -/

mutual
theorem wfE_ren (env : Env) : ∀ e : CExpr, wfE (renE env e) = wfE e
  | .op k aux args => by simp only [renE, wfE, wfL_ren env args]
  | .int _ | .real .. | .cplx .. | .mi _ | .term _ => by simp [renE, wfE]
  | .zero sh f => by cases h : env.zfix <;> simp [renE, wfE, h]
theorem wfL_ren (env : Env) : ∀ l : List CExpr, wfL (renL env l) = wfL l
  | [] => rfl
  | a :: as => by simp only [renL, wfL, wfE_ren env a, wfL_ren env as]
end

mutual
theorem noBFO_ren (env : Env) : ∀ e : CExpr, noBFO (renE env e) = noBFO e
  | .op k aux args => by simp only [renE, noBFO, noBFOL_ren env args]
  | .int _ | .real .. | .cplx .. | .mi _ | .term _ => by simp [renE, noBFO]
  | .zero sh f => by cases h : env.zfix <;> simp [renE, noBFO, h]
theorem noBFOL_ren (env : Env) : ∀ l : List CExpr, noBFOL (renL env l) = noBFOL l
  | [] => rfl
  | a :: as => by simp only [renL, noBFOL, noBFO_ren env a, noBFOL_ren env as]
end

theorem all_sortIntegrals (p : CIntegral → Bool) (f : CForm) : (sortIntegrals f).all p = f.all p := by
  rw [Bool.eq_iff_iff]
  simp only [List.all_eq_true, sortIntegrals]
  constructor
  · intro h i hi; exact h i ((mem_sortS _ _ _).mpr hi)
  · intro h i hi; exact h i ((mem_sortS _ _ _).mp hi)

theorem wfForm_renSorted (z : Bool) (f : CForm) :
    wfForm ((sortIntegrals f).map (renIntegral (envOf z f))) = wfForm f := by
  simp only [wfForm, List.all_map]
  rw [← all_sortIntegrals (fun i => wfE i.integrand) f]
  congr 1
  funext i
  simp [renIntegral, wfE_ren]

theorem noBFOForm_renSorted (z : Bool) (f : CForm) :
    noBFOForm ((sortIntegrals f).map (renIntegral (envOf z f))) = noBFOForm f := by
  simp only [noBFOForm, List.all_map]
  rw [← all_sortIntegrals (fun i => noBFO i.integrand) f]
  congr 1
  funext i
  simp [renIntegral, noBFO_ren]

/-! ## 1. the signature data is the encoding of the normal form -/

/-- **`compute_form_signature` hashes an encoding of the normal form** (every form whose signature does not raise; no
    side condition on its content): the renumbering done on the fly by `compute_terminal_hashdata` and the
    `_ufl_signature_data_` methods is `renE`, nothing of the form beyond `normalize z f` is read -/
theorem C11_data_is_encoding (z : Bool) (f : CForm) (hr : raises f = false) :
    formData z f = some (encForm z (normalize z f)) := by
  unfold formData normalize
  rw [hr]
  simp only [Bool.false_eq_true, if_false, Option.some.injEq]
  rw [encForm_core]
  have hall : (sortIntegrals f).all (foundIntegral (envOf z f)) = true := by
    rw [List.all_eq_true]
    intro i hi
    exact found_envOf z f i ((mem_sortS _ _ _).mp hi)
  rw [map_sigIntegral_enc _ _ hall]
  rfl

/-! ## 2. injectivity and its converse -/

/- FULL (false, see the header and section 4):
   ∀ z f g, raises f = false → raises g = false → wfForm f → wfForm g → formData z f = formData z g → Equiv z f g -/

/-- **partial (side condition: no base form operators)**: two forms with the same signature data have the same normal form —
    they are equal up to the numbering of indices, coefficients, constants, labels and meshes, the order of integrals that
    `Form.__init__` sorts, and data that is a function of what is hashed -/
theorem C11_inj (z : Bool) (f g : CForm) (hf : raises f = false) (hg : raises g = false)
    (wf : wfForm f = true) (wg : wfForm g = true) (nf : noBFOForm f = true) (ng : noBFOForm g = true)
    (h : formData z f = formData z g) : Equiv z f g := by
  rw [C11_data_is_encoding z f hf, C11_data_is_encoding z g hg, Option.some.injEq] at h
  unfold normalize at h
  rw [encForm_core, encForm_core] at h
  unfold Equiv normalize
  exact encForm_inj z _ _ (by rw [wfForm_renSorted]; exact wf) (by rw [wfForm_renSorted]; exact wg)
    (by rw [noBFOForm_renSorted]; exact nf) (by rw [noBFOForm_renSorted]; exact ng) h

/-- **equal forms have equal signatures** — and so have forms with equal normal forms (full strength, base form operators
    included) -/
theorem C11_eq (z : Bool) (f g : CForm) (hf : raises f = false) (hg : raises g = false) (h : Equiv z f g) :
    formData z f = formData z g := by
  rw [C11_data_is_encoding z f hf, C11_data_is_encoding z g hg, show normalize z f = normalize z g from h]

theorem C11_iff (z : Bool) (f g : CForm) (hf : raises f = false) (hg : raises g = false)
    (wf : wfForm f = true) (wg : wfForm g = true) (nf : noBFOForm f = true) (ng : noBFOForm g = true) :
    formData z f = formData z g ↔ Equiv z f g :=
  ⟨C11_inj z f g hf hg wf wg nf ng, C11_eq z f g hf hg⟩

/-- the same for the signatures (the outer digest is a constructor of the tree) -/
theorem C11_signature_inj (f g : CForm) (hf : raises f = false) (hg : raises g = false)
    (wf : wfForm f = true) (wg : wfForm g = true) (nf : noBFOForm f = true) (ng : noBFOForm g = true)
    (h : signatureZ f = signatureZ g) : Equiv true f g := by
  apply C11_inj true f g hf hg wf wg nf ng
  unfold signatureZ at h
  cases h1 : formData true f <;> cases h2 : formData true g <;> simp_all

/-- a form whose signature raises is not confused with one whose signature does not -/
theorem C11_raises_separate (z : Bool) (f g : CForm) (hf : raises f = true) (hg : raises g = false) :
    formData z f ≠ formData z g := by
  simp [formData, hf, hg]

/-! ### the equivalence contains every renumbering that keeps the creation order (link with C12) -/

mutual
theorem wfE_rename (σ : Ren) : ∀ e : CExpr, wfE (e.rename σ) = wfE e
  | .op k aux args => by simp only [CExpr.rename, wfE, wfL_rename σ args]
  | .int _ | .real .. | .cplx .. | .mi _ | .term _ | .zero .. => by simp [CExpr.rename, wfE]
theorem wfL_rename (σ : Ren) : ∀ l : List CExpr, wfL (renameL σ l) = wfL l
  | [] => rfl
  | a :: as => by simp only [renameL, wfL, wfE_rename σ a, wfL_rename σ as]
end

mutual
theorem noBFO_rename (σ : Ren) : ∀ e : CExpr, noBFO (e.rename σ) = noBFO e
  | .op k aux args => by simp only [CExpr.rename, noBFO, noBFOL_rename σ args]
  | .int _ | .real .. | .cplx .. | .mi _ | .term _ | .zero .. => by simp [CExpr.rename, noBFO]
theorem noBFOL_rename (σ : Ren) : ∀ l : List CExpr, noBFOL (renameL σ l) = noBFOL l
  | [] => rfl
  | a :: as => by simp only [renameL, noBFOL, noBFO_rename σ a, noBFOL_rename σ as]
end

/-- **renumbering is invisible**: a form and the same form built under another state of the global counters (a strictly
    monotone renaming of the index / coefficient / constant / label counts and mesh ids) have the same normal form.  (With the
    unrepaired `Zero` hash data: if the form has no `Zero` with free indices.) -/
theorem C11_rename_equiv {σ : Ren} (hσ : Mono σ) (z : Bool) (f : CForm) (hz : z = true ∨ FormNoFreeZero f = true)
    (hf : raises f = false) (wf : wfForm f = true) (nf : noBFOForm f = true) : Equiv z (f.rename σ) f := by
  apply C11_inj z _ _ (by rw [raises_rename hσ]; exact hf) hf _ wf _ nf (formData_rename hσ z f hz)
  · simp only [wfForm, CForm.rename, List.all_map] at wf ⊢
    rw [← wf]; congr 1; funext i; simp [CIntegral.rename, wfE_rename]
  · simp only [noBFOForm, CForm.rename, List.all_map] at nf ⊢
    rw [← nf]; congr 1; funext i; simp [CIntegral.rename, noBFO_rename]

/-! ## 3. metadata: the whole of `compute_form_signature` -/

theorem normalize_metadata (z : Bool) (F : CForm) : (normalize z F).map (·.metadata) = (sortIntegrals F).map (·.metadata) := by
  simp [normalize, coreForm, List.map_map, Function.comp_def, coreIntegral, renIntegral]

/-- the integrals of a form with raw metadata, in the canonical order -/
def sortF (cfg : FormModel.CanonCfg) (f : FForm) : FForm := sortS (fun a b => ltIntegral (a.canon cfg) (b.canon cfg)) f

theorem sortIntegrals_canonForm (cfg : FormModel.CanonCfg) (f : FForm) :
    sortIntegrals (canonForm cfg f) = (sortF cfg f).map (FIntegral.canon cfg) := by
  unfold sortIntegrals canonForm sortF
  exact sortS_map _ _ _ f (fun _ _ _ _ => rfl)

/-- `compute_form_signature` (with `canonicalize_metadata`) hashes an encoding of the normal form of the form with canonicalised
    metadata -/
theorem C11_full_is_encoding (cfg : FormModel.CanonCfg) (z : Bool) (f : FForm) (hr : raises (canonForm cfg f) = false) :
    fullData cfg z f = some (encForm z (normalize z (canonForm cfg f))) :=
  C11_data_is_encoding z _ hr

/- FULL (false: `C11_full_counterexample_metadata`):  fullData cfg z f = fullData cfg z g  →  the forms without metadata are
   equivalent and the metadata of corresponding integrals are equal -/

/-- two forms with the same signature data are equivalent after `canonicalize_metadata`; in particular corresponding integrals
    (in canonical order) have the same *canonicalised* metadata -/
theorem C11_full_inj (cfg : FormModel.CanonCfg) (z : Bool) (f g : FForm)
    (hf : raises (canonForm cfg f) = false) (hg : raises (canonForm cfg g) = false)
    (wf : wfForm (canonForm cfg f) = true) (wg : wfForm (canonForm cfg g) = true)
    (nf : noBFOForm (canonForm cfg f) = true) (ng : noBFOForm (canonForm cfg g) = true)
    (h : fullData cfg z f = fullData cfg z g) :
    Equiv z (canonForm cfg f) (canonForm cfg g) ∧
    (sortF cfg f).map (fun i => FormModel.canonWith cfg i.md) = (sortF cfg g).map (fun i => FormModel.canonWith cfg i.md) := by
  have he := C11_inj z _ _ hf hg wf wg nf ng h
  refine ⟨he, ?_⟩
  have := congrArg (fun F : CForm => F.map (·.metadata)) he
  simp only [normalize_metadata, sortIntegrals_canonForm, List.map_map] at this
  exact this

theorem map_eq_of_inj_on {α β γ : Type} (φ : α → β) (c : β → γ) : ∀ (l₁ l₂ : List α),
    (∀ a ∈ l₁, ∀ b ∈ l₂, c (φ a) = c (φ b) → φ a = φ b) → l₁.map (fun a => c (φ a)) = l₂.map (fun a => c (φ a)) →
    l₁.map φ = l₂.map φ
  | [], [], _, _ => rfl
  | [], _ :: _, _, h => by simp at h
  | _ :: _, [], _, h => by simp at h
  | a :: l₁, b :: l₂, hi, h => by
    simp only [List.map_cons, List.cons.injEq] at h ⊢
    exact ⟨hi a List.mem_cons_self b List.mem_cons_self h.1,
      map_eq_of_inj_on φ c l₁ l₂ (fun x hx y hy => hi x (List.mem_cons_of_mem _ hx) y (List.mem_cons_of_mem _ hy)) h.2⟩

/-- **partial (side conditions: no base form operators; the canonicalisation separates the metadata values that occur)**:
    corresponding integrals have the same metadata -/
theorem C11_full_partial (cfg : FormModel.CanonCfg) (z : Bool) (f g : FForm)
    (hf : raises (canonForm cfg f) = false) (hg : raises (canonForm cfg g) = false)
    (wf : wfForm (canonForm cfg f) = true) (wg : wfForm (canonForm cfg g) = true)
    (nf : noBFOForm (canonForm cfg f) = true) (ng : noBFOForm (canonForm cfg g) = true)
    (hsep : ∀ a ∈ f, ∀ b ∈ g, FormModel.canonWith cfg a.md = FormModel.canonWith cfg b.md → a.md = b.md)
    (h : fullData cfg z f = fullData cfg z g) :
    Equiv z (canonForm cfg f) (canonForm cfg g) ∧ (sortF cfg f).map (·.md) = (sortF cfg g).map (·.md) := by
  obtain ⟨he, hm⟩ := C11_full_inj cfg z f g hf hg wf wg nf ng h
  refine ⟨he, map_eq_of_inj_on FIntegral.md (FormModel.canonWith cfg) _ _ ?_ hm⟩
  intro a ha b hb
  exact hsep a ((mem_sortS _ _ _).mp ha) b ((mem_sortS _ _ _).mp hb)

/-! ## 4. witnesses -/

mutual
theorem sigBeq_eq : ∀ a b : SigData, SigData.beq a b = true → a = b
  | .str a, .str b, h => by simp only [SigData.beq, beq_iff_eq] at h; rw [h]
  | .raw a, .raw b, h => by simp only [SigData.beq, beq_iff_eq] at h; rw [h]
  | .int a, .int b, h => by simp only [SigData.beq, beq_iff_eq] at h; rw [h]
  | .none, .none, _ => rfl
  | .tup a, .tup b, h => by simp only [SigData.beq] at h; rw [sigBeqL_eq a b h]
  | .lst a, .lst b, h => by simp only [SigData.beq] at h; rw [sigBeqL_eq a b h]
  | .fmt a, .fmt b, h => by simp only [SigData.beq] at h; rw [sigBeqL_eq a b h]
  | .hash a, .hash b, h => by simp only [SigData.beq] at h; rw [sigBeq_eq a b h]
  | .str _, .raw _, h | .str _, .int _, h | .str _, .none, h | .str _, .tup _, h | .str _, .lst _, h | .str _, .fmt _, h | .str _, .hash _, h
  | .raw _, .str _, h | .raw _, .int _, h | .raw _, .none, h | .raw _, .tup _, h | .raw _, .lst _, h | .raw _, .fmt _, h | .raw _, .hash _, h
  | .int _, .str _, h | .int _, .raw _, h | .int _, .none, h | .int _, .tup _, h | .int _, .lst _, h | .int _, .fmt _, h | .int _, .hash _, h
  | .none, .str _, h | .none, .raw _, h | .none, .int _, h | .none, .tup _, h | .none, .lst _, h | .none, .fmt _, h | .none, .hash _, h
  | .tup _, .str _, h | .tup _, .raw _, h | .tup _, .int _, h | .tup _, .none, h | .tup _, .lst _, h | .tup _, .fmt _, h | .tup _, .hash _, h
  | .lst _, .str _, h | .lst _, .raw _, h | .lst _, .int _, h | .lst _, .none, h | .lst _, .tup _, h | .lst _, .fmt _, h | .lst _, .hash _, h
  | .fmt _, .str _, h | .fmt _, .raw _, h | .fmt _, .int _, h | .fmt _, .none, h | .fmt _, .tup _, h | .fmt _, .lst _, h | .fmt _, .hash _, h
  | .hash _, .str _, h | .hash _, .raw _, h | .hash _, .int _, h | .hash _, .none, h | .hash _, .tup _, h | .hash _, .lst _, h | .hash _, .fmt _, h => by
    simp [SigData.beq] at h
theorem sigBeqL_eq : ∀ as bs : List SigData, SigData.beqL as bs = true → as = bs
  | [], [], _ => rfl
  | a :: as, b :: bs, h => by
    simp only [SigData.beqL, Bool.and_eq_true] at h
    rw [sigBeq_eq a b h.1, sigBeqL_eq as bs h.2]
  | [], _ :: _, h => by simp [SigData.beqL] at h
  | _ :: _, [], h => by simp [SigData.beqL] at h
end

mutual
theorem sigBeq_refl : ∀ d : SigData, SigData.beq d d = true
  | .str _ | .raw _ | .int _ => by simp [SigData.beq]
  | .none => rfl
  | .tup xs | .lst xs | .fmt xs => by simp [SigData.beq, sigBeqL_refl xs]
  | .hash d => by simp [SigData.beq, sigBeq_refl d]
theorem sigBeqL_refl : ∀ l : List SigData, SigData.beqL l l = true
  | [] => rfl
  | a :: as => by simp [SigData.beqL, sigBeq_refl a, sigBeqL_refl as]
end

def optBeq : Option SigData → Option SigData → Bool
  | some a, some b => SigData.beq a b
  | none, none => true
  | _, _ => false

theorem eq_of_optBeq {a b : Option SigData} (h : optBeq a b = true) : a = b := by
  cases a <;> cases b <;> simp only [optBeq, Bool.false_eq_true] at h
  · rfl
  · rw [sigBeq_eq _ _ h]

def mesh1 : MeshD := { id := 1, gdim := 2, tdim := 2, celem := "P1v" }
def ucoef : CExpr := .term (.coeff 0 { mesh := mesh1, elem := "P1" } [])
/-- `ExternalOperator(u, function_space=V, derivatives=(d,))` -/
def extOp (d : Nat) : CExpr := .op (.other "ExternalOperator") [d] [ucoef]
def oneIntegral (e : CExpr) : CForm := [{ integrand := e, itype := "cell", mesh := mesh1, sub := .str "everywhere", metadata := .t [] }]

/-- the aux data of the first integrand -/
def headAux (f : CForm) : List Nat := match f with
  | { integrand := .op _ aux _, .. } :: _ => aux
  | _ => []

/-- **`N*dx` and `dN/du*dx` share a signature**: the derivative multi-index of a base form operator is not hashed -/
theorem C11_inj_counterexample_bfo :
    ¬ (∀ (z : Bool) (f g : CForm), raises f = false → raises g = false → wfForm f = true → wfForm g = true →
        formData z f = formData z g → Equiv z f g) := by
  intro hall
  have h := hall true (oneIntegral (extOp 0)) (oneIntegral (extOp 1)) (by decide +kernel) (by decide +kernel) (by decide +kernel)
    (by decide +kernel) (eq_of_optBeq (by decide +kernel))
  have := congrArg headAux h
  revert this
  decide +kernel

/-- the witness is a base form operator: exactly what `C11_inj` excludes -/
example : noBFOForm (oneIntegral (extOp 0)) = false := by decide +kernel

def mdInt : FormModel.MDV := .dict ["k"] [.leaf "int" "2" "2"]
def mdStr : FormModel.MDV := .dict ["k"] [.leaf "str" "'2'" "2"]
def mdNone : FormModel.MDV := .dict ["k"] [.leaf "NoneType" "None" "None"]
def mdNoneStr : FormModel.MDV := .dict ["k"] [.leaf "str" "'None'" "None"]
def withMeta (md : FormModel.MDV) : FForm := [{ integrand := ucoef, itype := "cell", mesh := mesh1, sub := .str "everywhere", md := md }]

/-- **`u*dx(metadata={'k': 2})` and `u*dx(metadata={'k': '2'})` share a signature** (also `None` / `'None'`) -/
theorem C11_full_counterexample_metadata :
    ¬ (∀ (z : Bool) (f g : FForm), raises (canonForm cfgNow f) = false → raises (canonForm cfgNow g) = false →
        wfForm (canonForm cfgNow f) = true → wfForm (canonForm cfgNow g) = true →
        noBFOForm (canonForm cfgNow f) = true → noBFOForm (canonForm cfgNow g) = true →
        fullData cfgNow z f = fullData cfgNow z g → (sortF cfgNow f).map (·.md) = (sortF cfgNow g).map (·.md)) := by
  intro hall
  have h := hall true (withMeta mdInt) (withMeta mdStr) (by decide +kernel) (by decide +kernel) (by decide +kernel) (by decide +kernel)
    (by decide +kernel) (by decide +kernel) (eq_of_optBeq (by decide +kernel))
  revert h
  decide +kernel

theorem C11_full_counterexample_metadata_none :
    fullData cfgNow true (withMeta mdNone) = fullData cfgNow true (withMeta mdNoneStr) ∧ mdNone ≠ mdNoneStr :=
  ⟨eq_of_optBeq (by decide +kernel), by decide +kernel⟩

/-- with `repr()` for string leaves (fix_C15_2.diff) the two witnesses get different signature data -/
theorem C11_full_repaired_separates :
    optBeq (fullData { arrTolist := true, strRepr := true } true (withMeta mdInt)) (fullData { arrTolist := true, strRepr := true } true (withMeta mdStr)) = false ∧
    optBeq (fullData { arrTolist := true, strRepr := true } true (withMeta mdNone)) (fullData { arrTolist := true, strRepr := true } true (withMeta mdNoneStr)) = false := by
  decide +kernel

/-- non-vacuity of `C11_full_partial`: metadata `{'k': 2}` / `{'k': 3}` are separated by the canonicalisation, the forms do not
    raise and are well formed; their signature data differ -/
example :
    let f := withMeta mdInt
    let g := withMeta (.dict ["k"] [.leaf "int" "3" "3"])
    raises (canonForm cfgNow f) = false ∧ wfForm (canonForm cfgNow f) = true ∧ noBFOForm (canonForm cfgNow f) = true ∧
    (∀ a ∈ f, ∀ b ∈ g, FormModel.canonWith cfgNow a.md = FormModel.canonWith cfgNow b.md → a.md = b.md) ∧
    optBeq (fullData cfgNow true f) (fullData cfgNow true g) = false := by
  decide +kernel

/-! ## 5. what the equivalence is: a renaming of counts -/

/-- **the normal form is a renaming**: for a form in which a count identifies its object (no two different coefficients /
    constants / labels with one count, no two meshes with one id — every form whose objects come from the global counters), the
    normal form is the canonically ordered form with every index / coefficient / constant / label count and mesh id replaced by its
    number (`renOf`), derived data forgotten.  So `Equiv z f g` says: the two forms become the same form after renaming their
    counts to the numbers 0, 1, 2, ... in order of first visit (indices) resp. of creation (counted objects, meshes). -/
theorem C11_normalize_is_renaming (z : Bool) (f : CForm) (ha : Admissible (envOf z f) = true)
    (hz : z = true ∨ FormNoFreeZero f = true) :
    normalize z f = coreForm z ((sortIntegrals f).rename (renOf (envOf z f))) :=
  normalize_is_renaming z f ha hz

/-- ... and that renaming identifies no two counts of the form (indices; the same holds for the other four classes) -/
theorem C11_renaming_injective (z : Bool) (f : CForm) (c c' : Nat) (hc : c ∈ (envOf z f).idx) (hc' : c' ∈ (envOf z f).idx)
    (h : (renOf (envOf z f)).idx c = (renOf (envOf z f)).idx c') : c = c' :=
  posNat_inj c c' _ hc hc' h

theorem C11_renaming_injective_coeff (z : Bool) (f : CForm) (c c' : Nat) (hc : c ∈ (envOf z f).coeff.map CTermCount)
    (hc' : c' ∈ (envOf z f).coeff.map CTermCount) (h : (renOf (envOf z f)).coeff c = (renOf (envOf z f)).coeff c') : c = c' :=
  posNat_inj c c' _ hc hc' h

theorem C11_renaming_injective_const (z : Bool) (f : CForm) (c c' : Nat) (hc : c ∈ (envOf z f).const.map CTermCount)
    (hc' : c' ∈ (envOf z f).const.map CTermCount) (h : (renOf (envOf z f)).const c = (renOf (envOf z f)).const c') : c = c' :=
  posNat_inj c c' _ hc hc' h

theorem C11_renaming_injective_label (z : Bool) (f : CForm) (c c' : Nat) (hc : c ∈ (envOf z f).label.map CTermCount)
    (hc' : c' ∈ (envOf z f).label.map CTermCount) (h : (renOf (envOf z f)).label c = (renOf (envOf z f)).label c') : c = c' :=
  posNat_inj c c' _ hc hc' h

theorem C11_renaming_injective_mesh (z : Bool) (f : CForm) (c c' : Nat) (hc : c ∈ (envOf z f).mesh.map (·.id))
    (hc' : c' ∈ (envOf z f).mesh.map (·.id)) (h : (renOf (envOf z f)).mesh c = (renOf (envOf z f)).mesh c') : c = c' :=
  posNat_inj c c' _ hc hc' h

/-- **the equivalence, unfolded**: two equivalent forms (whose counts identify their objects) are related by ONE renaming `σ` of index /
    coefficient / constant / label counts and mesh ids: the second form, its integrals in the canonical order, is the first form, its
    integrals in the canonical order, with the counts renamed — up to data that is a function of what the signature reads (`coreForm`).
    Together with `C11_inj`: forms with the same signature differ only by such a renaming and by the order of integrals that
    `Form.__init__` sorts away. -/
theorem C11_equiv_is_renaming (z : Bool) (f g : CForm) (haf : Admissible (envOf z f) = true) (hag : Admissible (envOf z g) = true)
    (hzf : z = true ∨ FormNoFreeZero f = true) (hzg : z = true ∨ FormNoFreeZero g = true) (h : Equiv z f g) :
    ∃ σ : Ren, coreForm z ((sortIntegrals f).rename σ) = coreForm z (sortIntegrals g) :=
  equiv_is_renaming z f g haf hag hzf hzg h

/-- the traversal that numbers the indices reaches every node (used above; also of independent interest: the fuel of the model is
    enough, `unique_pre_traversal` is complete) -/
theorem C11_traversal_complete (e : CExpr) : ∀ y ∈ nodes e, y ∈ uniquePre e := uniquePre_complete e

/-! ## 6. below the tree: digests and printing -/

/-- **the Merkle digests merge nothing if the digest function is injective**: `flatten H` replaces every `hash d` node by
    `H(flatten d)` — what `compute_expression_hashdata` does with `H = sha512 ∘ encode ∘ str`.  The assumption that `sha512` has no
    collisions on the data printed is exactly `hH`. -/
theorem C11_flatten_injective {D : Type} (H : Flat D → D) (hH : ∀ x y, H x = H y → x = y) (a b : SigData)
    (h : flatten H a = flatten H b) : a = b :=
  flatten_inj H hH a b h

/-- **`str` of the data is uniquely readable**, as far as the structure goes: the tokens of Python's printing of nested tuples and
    lists (brackets, `, ` separators, the trailing comma of a 1-tuple, atoms as single tokens) determine the tree.  What is *not*
    proved is the lexical level: that the characters determine the tokens (true for `repr` of str / bytes / int / None, which
    Python can read back; for an element object it is a requirement on the `__repr__` of the element class; inside the f-string of
    a `Constant` the pieces are taken as separate tokens). -/
theorem C11_toks_injective {D : Type} (x y : Flat D) (h : toks x = toks y) : x = y := toks_inj x y h

/-- the chain: equal printed data of the form => equal normal forms -/
theorem C11_printed_inj {D : Type} (H : Flat D → D) (hH : ∀ x y, H x = H y → x = y) (z : Bool) (f g : CForm)
    (hf : raises f = false) (hg : raises g = false) (wf : wfForm f = true) (wg : wfForm g = true)
    (nf : noBFOForm f = true) (ng : noBFOForm g = true)
    (h : (formData z f).map (fun d => toks (flatten H d)) = (formData z g).map (fun d => toks (flatten H d))) : Equiv z f g := by
  apply C11_inj z f g hf hg wf wg nf ng
  cases h1 : formData z f <;> cases h2 : formData z g <;> simp only [h1, h2, Option.map_some, Option.map_none, Option.some.injEq, reduceCtorEq] at h
  · rfl
  · rw [C11_flatten_injective H hH _ _ (C11_toks_injective _ _ h)]

/-! ## 7. the hypotheses are satisfiable; the equivalence is not trivial -/

def vcoef2 : CExpr := .term (.coeff 7 { mesh := { id := 4, gdim := 2, tdim := 2, celem := "P1v" }, elem := "P1t" } [2, 2])
def mesh4 : MeshD := { id := 4, gdim := 2, tdim := 2, celem := "P1v" }
/-- `A[i,j]*A[j,i]` summed over both, with index counts i, j -/
def contr (i j : Nat) (swap : Bool) : CExpr :=
  .op .indexSum [] [.op .indexSum [] [.op .product [] [.op .indexed [] [vcoef2, .mi [.free i, .free j]],
      .op .indexed [] [vcoef2, .mi (if swap then [.free j, .free i] else [.free i, .free j])]], .mi [.free j]], .mi [.free i]]
def formOf (e : CExpr) : CForm := [{ integrand := e, itype := "cell", mesh := mesh4, sub := .int 3, metadata := .t [] }]

/-- `A[i,j]A[j,i]` with (i, j) = (10, 11) and with (20, 25): the hypotheses of `C11_iff` hold, the forms are equivalent and have one
    signature; `A[i,j]A[i,j]` is not equivalent to them and has another signature -/
example :
    raises (formOf (contr 10 11 true)) = false ∧ wfForm (formOf (contr 10 11 true)) = true ∧ noBFOForm (formOf (contr 10 11 true)) = true ∧
    Admissible (envOf true (formOf (contr 10 11 true))) = true ∧
    optBeq (signatureZ (formOf (contr 10 11 true))) (signatureZ (formOf (contr 20 25 true))) = true ∧
    optBeq (signatureZ (formOf (contr 10 11 true))) (signatureZ (formOf (contr 10 11 false))) = false := by
  decide +kernel

example : Equiv true (formOf (contr 10 11 true)) (formOf (contr 20 25 true)) :=
  C11_inj true _ _ (by decide +kernel) (by decide +kernel) (by decide +kernel) (by decide +kernel) (by decide +kernel) (by decide +kernel)
    (eq_of_optBeq (by decide +kernel))

example : ¬ Equiv true (formOf (contr 10 11 true)) (formOf (contr 10 11 false)) := by
  intro h
  have := C11_eq true _ _ (by decide +kernel) (by decide +kernel) h
  have hb : optBeq (formData true (formOf (contr 10 11 true))) (formData true (formOf (contr 10 11 false))) = true := by
    rw [this]; cases formData true (formOf (contr 10 11 false)) <;> simp [optBeq, sigBeq_refl]
  revert hb
  decide +kernel

end UflVerif.C11
