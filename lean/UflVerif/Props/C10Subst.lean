/-
C10s  index substitution and `remove_component_tensors` on plain trees.

`substIdx fm e` (Model/IndexSubst.lean) is `IndexReplacer` without constructor rebuild: every free
index `c` of every multi-index and `Zero` inside `e` is replaced by `fm.get c` (an index or a fixed
value), also under binders.  `rctPlain` is `IndexRemover`: `Indexed(ComponentTensor(o2, i2), i1)`
becomes `o2[i2 := i1]` when no index of i1, i2 is bound again inside o2.

One induction (`sim_aux`) proves, for a substitution `θ : Nat → Idx` that is hygienic for `e` (no
index bound inside `e` is touched) and compatible with the extents of the free indices of `e`:
a tree `r` obtained from `e` by substituting in every multi-index / `Zero` — and, at any operator
node, possibly by an arbitrary tree already known to be equivalent (`BB`) — is well formed, has the
shape of `e`, the images of its free indices, and under `ι` the value of `e` under `ι ∘ θ`.
With the black boxes unused this is the substitution theorem `C10_substIdx_value`; with `θ` the
identity it is the congruence used for the pass-level theorem `C10_rct_plain_value`.
-/
import UflVerif.Sem.IdxSubst
import UflVerif.Props.C10Rename
import UflVerif.Props.C10

namespace UflVerif.C10s
open UflVerif Expr FIlemmas Rename IdxSubst

variable {K : Type} [Add K] [Mul K] [Sub K] [Neg K] [Div K] [Zero K] [One K] [IntCast K] [NatCast K]

/-- the index environment seen by the original expression: `ι ∘ θ` -/
def thS (θ : Nat → Idx) (ι : IdxEnv) : IdxEnv := fun i => Idx.resolve ι (θ i)

/-- `r` stands for `e` under `θ`: same shape, the images of the free indices, well formed, and the
    value of `e` under `ι ∘ θ` -/
def Full1 (ρ : Env K) (θ : Nat → Idx) (e r : Expr) : Prop :=
  shape r = shape e ∧ Sub θ (fi e) (fi r) ∧ WF r = true ∧
  ∀ side ι c, c.length = (shape e).length → eval ρ side ι r c = eval ρ side (thS θ ι) e c

/-- the same for conditions -/
def Full2 (ρ : Env K) (θ : Nat → Idx) (p r : Expr) : Prop :=
  WFC r = true ∧ ∀ side ι, evalB ρ side ι r = evalB ρ side (thS θ ι) p

/-- a replacement already known to be good (a terminal chain under gradients must stay itself:
    `Grad` is evaluated through the derivative of its terminal, not compositionally) -/
def BB (ρ : Env K) (θ : Nat → Idx) (x y : Expr) : Prop :=
  (WF x = true → Full1 ρ θ x y) ∧ (WFC x = true → Full2 ρ θ x y) ∧ (∀ p, gradChain x = some p → y = x)

mutual
/-- `r` is `e` with `θ` applied to every multi-index and `Zero`, operator nodes kept — or replaced
    by a black box -/
def Sim (ρ : Env K) (θ : Nat → Idx) : Expr → Expr → Prop
  | .op k aux as, r => BB ρ θ (.op k aux as) r ∨ ∃ bs, r = .op k aux bs ∧ SimL ρ θ as bs
  | .mi is, r => r = .mi (is.map (substI θ))
  | .zero sh f, r => ∃ g, r = .zero sh g ∧ (Sorted f → Sub θ f g ∧ Sorted g)
  | e, r => r = e
def SimL (ρ : Env K) (θ : Nat → Idx) : List Expr → List Expr → Prop
  | [], bs => bs = []
  | a :: as, bs => ∃ x xs, bs = x :: xs ∧ Sim ρ θ a x ∧ SimL ρ θ as xs
end

/-- hygiene as a proposition: the indices bound inside `e` are left alone by `θ` -/
def HygP (θ : Nat → Idx) (e : Expr) : Prop := ∀ c ∈ boundCounts e, HygJ θ c
def HygPL (θ : Nat → Idx) (xs : List Expr) : Prop := ∀ c ∈ boundCountsL xs, HygJ θ c

variable {θ : Nat → Idx}

theorem boundCountsL_mem (c : Nat) : ∀ xs : List Expr, c ∈ boundCountsL xs ↔ ∃ x ∈ xs, c ∈ boundCounts x
  | [] => by simp [boundCountsL]
  | x :: xs => by simp [boundCountsL, boundCountsL_mem c xs]

theorem HygP.args {k : Op} {aux : List Nat} {args : List Expr} (h : HygP θ (.op k aux args)) : HygPL θ args := by
  intro c hc
  apply h c
  simp only [boundCounts, List.mem_append]
  exact Or.inr hc

theorem HygPL.mem {xs : List Expr} (h : HygPL θ xs) {x : Expr} (hx : x ∈ xs) : HygP θ x :=
  fun c hc => h c ((boundCountsL_mem c xs).mpr ⟨x, hx, hc⟩)

theorem HygP.arg {k : Op} {aux : List Nat} {args : List Expr} (h : HygP θ (.op k aux args)) {x : Expr} (hx : x ∈ args) :
    HygP θ x := h.args.mem hx

theorem HygPL.tail {x : Expr} {xs : List Expr} (h : HygPL θ (x :: xs)) : HygPL θ xs :=
  fun c hc => h c (by simp only [boundCountsL, List.mem_append]; exact Or.inr hc)

theorem HygP.indexSum {aux : List Nat} {a : Expr} {j : Nat} (h : HygP θ (.op .indexSum aux [a, .mi [.free j]])) : HygJ θ j :=
  h j (by simp [boundCounts, freeCounts])

theorem HygP.ct {aux : List Nat} {a : Expr} {is : List Idx} (h : HygP θ (.op .componentTensor aux [a, .mi is])) :
    ∀ c ∈ freeCounts is, HygJ θ c :=
  fun c hc => h c (by simp only [boundCounts, List.mem_append]; exact Or.inl hc)

theorem thS_set (hj : HygJ θ j) (ι : IdxEnv) (v : Nat) : thS θ (ι.set j v) = (thS θ ι).set j v := by
  funext i
  simp only [thS, IdxEnv.set]
  cases ht : θ i with
  | fixed u =>
    have : i ≠ j := by intro e; subst e; rw [hj.1] at ht; cases ht
    simp [Idx.resolve, this]
  | free d =>
    simp only [Idx.resolve]
    by_cases hd : d = j
    · subst hd
      have := hj.2 i ht
      simp [this, IdxEnv.set]
    · have : i ≠ j := by
        intro e; subst e; rw [hj.1] at ht; exact hd (Idx.free.inj ht).symm
      simp [hd, this, IdxEnv.set]

theorem thS_bind : ∀ (is : List Idx) (c : List Nat) (ι : IdxEnv), (∀ x ∈ freeCounts is, HygJ θ x) →
    thS θ (ι.bind is c) = (thS θ ι).bind is c
  | [], _, _, _ => by simp [IdxEnv.bind]
  | .fixed v :: is, [], _, _ => by simp [IdxEnv.bind]
  | .free j :: is, [], _, _ => by simp [IdxEnv.bind]
  | .fixed v :: is, x :: c, ι, h => by
    simp only [IdxEnv.bind]
    exact thS_bind is c ι (fun y hy => h y (by simpa [freeCounts] using hy))
  | .free j :: is, x :: c, ι, h => by
    simp only [IdxEnv.bind]
    rw [thS_bind is c _ (fun y hy => h y (by simp only [freeCounts, List.filterMap_cons, List.mem_cons]; exact Or.inr hy)),
      thS_set (h j (by simp [freeCounts]))]

theorem map_substI_hyg : ∀ (is : List Idx), (∀ x ∈ freeCounts is, HygJ θ x) → is.map (substI θ) = is
  | [], _ => rfl
  | .fixed v :: is, h => by
    simp only [List.map_cons, substI_fixed]
    rw [map_substI_hyg is (fun y hy => h y (by simpa [freeCounts] using hy))]
  | .free j :: is, h => by
    simp only [List.map_cons, substI_free]
    rw [map_substI_hyg is (fun y hy => h y (by simp only [freeCounts, List.filterMap_cons, List.mem_cons]; exact Or.inr hy)),
      (h j (by simp [freeCounts])).1]

theorem sim_gradChain (ρ : Env K) : ∀ (a : Expr) (p : TermData × Nat), gradChain a = some p → ∀ ra, Sim ρ θ a ra → ra = a := by
  intro a
  fun_induction gradChain a with
  | case1 d => intro p _ ra h; simpa only [Sim] using h
  | case2 aux a d k hk ih =>
    intro p hp ra h
    simp only [Sim, SimL] at h
    rcases h with hb | ⟨bs, rfl, x, xs, rfl, hx, rfl⟩
    · exact hb.2.2 p (by simp only [gradChain, hk]; exact hp)
    · rw [ih _ hk x hx]
  | case3 aux a hk ih => intro p h; simp at h
  | case4 e h1 h2 => intro p h; simp at h

theorem Full1.scalar {ρ : Env K} {e r : Expr} (h : Full1 ρ θ e r) (ht : trueScalar e = true) : trueScalar r = true := by
  simp only [trueScalar, Bool.and_eq_true, List.isEmpty_iff] at ht ⊢
  obtain ⟨hs, hr, _⟩ := h
  rw [ht.2] at hr
  exact ⟨by rw [hs]; exact ht.1, hr.nil_eq⟩

theorem ext_of_scalar {e : Expr} (ht : trueScalar e = true) : Ext θ (fi e) := by
  simp only [trueScalar, Bool.and_eq_true, List.isEmpty_iff] at ht
  rw [ht.2]; exact Ext.nil

/-! ### list tensors -/

abbrev RowOK (ρ : Env K) (θ : Nat → Idx) (x r : Expr) : Prop := Ext θ (fi x) → Full1 ρ θ x r

theorem rows_wfl {ρ : Env K} {xs rs : List Expr} (h : List.Forall₂ (RowOK ρ θ) xs rs) (hx : ∀ x ∈ xs, Ext θ (fi x)) :
    WFL rs = true := by
  induction h with
  | nil => rfl
  | cons h1 _ ih =>
    simp only [WFL, Bool.and_eq_true]
    exact ⟨(h1 (hx _ (by simp))).2.2.1, ih (fun x hx' => hx x (by simp [hx']))⟩

theorem rows_same {ρ : Env K} {xs rs : List Expr} {a ra : Expr} (h : List.Forall₂ (RowOK ρ θ) xs rs)
    (hx : ∀ x ∈ xs, Ext θ (fi x)) (ha : Full1 ρ θ a ra) (hsame : ∀ x ∈ xs, shape x = shape a ∧ fi x = fi a) :
    rs.all (fun e => shape e == shape ra && fi e == fi ra) = true := by
  induction h with
  | nil => rfl
  | @cons x r xs rs h1 _ ih =>
    simp only [List.all_cons, Bool.and_eq_true, beq_iff_eq]
    obtain ⟨s1, f1, w1, _⟩ := h1 (hx _ (by simp))
    obtain ⟨s2, f2, w2, _⟩ := ha
    have hs := hsame x (by simp)
    refine ⟨⟨by rw [s1, s2, hs.1], ?_⟩, ih (fun y hy => hx y (by simp [hy])) (fun y hy => hsame y (by simp [hy]))⟩
    rw [hs.2] at f1
    exact Sub.unique f1 f2 (fi_sorted _ w1) (fi_sorted _ w2)

theorem rows_evalNth {ρ : Env K} {xs rs : List Expr} (h : List.Forall₂ (RowOK ρ θ) xs rs) (hx : ∀ x ∈ xs, Ext θ (fi x))
    (side : Side) (ι : IdxEnv) (c : List Nat) (hc : ∀ x ∈ xs, c.length = (shape x).length) :
    ∀ n, evalNth ρ side ι rs n c = evalNth ρ side (thS θ ι) xs n c := by
  induction h with
  | nil => intro n; simp [evalNth]
  | @cons x r xs rs h1 _ ih =>
    intro n
    cases n with
    | zero =>
      simp only [evalNth]
      exact (h1 (hx _ (by simp))).2.2.2 side ι c (hc x (by simp))
    | succ n =>
      simp only [evalNth]
      exact ih (fun y hy => hx y (by simp [hy])) (fun y hy => hc y (by simp [hy])) n


theorem resolve_subst (θ : Nat → Idx) (ι : IdxEnv) : ∀ is : List Idx,
    (is.map (substI θ)).map (Idx.resolve ι) = is.map (Idx.resolve (thS θ ι))
  | [] => rfl
  | .fixed v :: is => by simp only [List.map_cons, substI_fixed, Idx.resolve, resolve_subst θ ι is]
  | .free c :: is => by simp only [List.map_cons, substI_free, Idx.resolve, resolve_subst θ ι is, thS]

theorem full1_leaf (ρ : Env K) (θ : Nat → Idx) (e : Expr) (hf : fi e = []) (hw : WF e = true)
    (hv : ∀ side ι ι' c, eval ρ side ι e c = eval ρ side ι' e c) : Full1 ρ θ e e :=
  ⟨rfl, by rw [hf]; exact Sub.nil, hw, fun side ι c _ => hv side _ _ c⟩

/-! ### the main induction -/

theorem sim_aux (ρ : Env K) (θ : Nat → Idx) :
    (∀ e : Expr, WF e = true → ∀ r, Sim ρ θ e r → HygP θ e → Ext θ (fi e) → Full1 ρ θ e r) ∧
    (∀ p : Expr, WFC p = true → ∀ r, Sim ρ θ p r → HygP θ p → Full2 ρ θ p r) ∧
    (∀ xs : List Expr, WFL xs = true → ∀ rs, SimL ρ θ xs rs → HygPL θ xs → List.Forall₂ (RowOK ρ θ) xs rs) := by
  apply WF.mutual_induct
    (motive_1 := fun e => WF e = true → ∀ r, Sim ρ θ e r → HygP θ e → Ext θ (fi e) → Full1 ρ θ e r)
    (motive_2 := fun p => WFC p = true → ∀ r, Sim ρ θ p r → HygP θ p → Full2 ρ θ p r)
    (motive_3 := fun xs => WFL xs = true → ∀ rs, SimL ρ θ xs rs → HygPL θ xs → List.Forall₂ (RowOK ρ θ) xs rs)
  -- 1-4 literals, terminals
  · intro v hw r hs _ _
    simp only [Sim] at hs; subst hs
    exact full1_leaf ρ θ _ rfl hw (fun _ _ _ _ => by simp [eval])
  · intro n d hw r hs _ _
    simp only [Sim] at hs; subst hs
    exact full1_leaf ρ θ _ rfl hw (fun _ _ _ _ => by simp [eval])
  · intro a b c d hw r hs _ _
    simp only [Sim] at hs; subst hs
    exact full1_leaf ρ θ _ rfl hw (fun _ _ _ _ => by simp [eval])
  · intro d hw r hs _ _
    simp only [Sim] at hs; subst hs
    exact full1_leaf ρ θ _ rfl hw (fun _ _ _ _ => by simp [eval])
  -- 5 zero
  · intro sh f hw r hs _ _
    simp only [Sim] at hs
    obtain ⟨g, rfl, hg⟩ := hs
    simp only [WF] at hw
    obtain ⟨hsub, sg⟩ := hg ((sortedFI_iff f).mp hw)
    exact ⟨rfl, by simp only [fi]; exact hsub, by simp only [WF]; exact (sortedFI_iff g).mpr sg,
      fun side ι c _ => by simp [eval]⟩
  -- 6 multi-index
  · intro is hw; simp [WF] at hw
  -- 7 sum
  · intro aux a b iha ihb hw r hs hy hx
    have hw0 := hw
    simp only [WF, Bool.and_eq_true, beq_iff_eq] at hw
    obtain ⟨⟨⟨wa, wb⟩, hsh⟩, hfi⟩ := hw
    simp only [Sim, SimL] at hs
    rcases hs with hb | ⟨bs, rfl, ra, xs, rfl, sa, rb, xs', rfl, sb, rfl⟩
    · exact hb.1 hw0
    have hxa : Ext θ (fi a) := by simpa only [fi] using hx
    obtain ⟨s1, f1, w1, v1⟩ := iha wa ra sa (hy.arg (by simp)) hxa
    obtain ⟨s2, f2, w2, v2⟩ := ihb wb rb sb (hy.arg (by simp)) (by rw [← hfi]; exact hxa)
    have hfr : fi ra = fi rb := Sub.unique f1 (by rw [hfi]; exact f2) (fi_sorted _ w1) (fi_sorted _ w2)
    refine ⟨by simp only [shape]; exact s1, by simp only [fi]; exact f1,
      by simp only [WF, w1, w2, s1, s2, hsh, hfr, Bool.and_self, beq_self_eq_true], ?_⟩
    intro side ι c hc
    simp only [shape] at hc
    simp only [eval]
    rw [v1 side ι c hc, v2 side ι c (by rw [← hsh]; exact hc)]
  -- 8 product
  · intro aux a b iha ihb hw r hs hy hx
    have hw0 := hw
    simp only [WF, Bool.and_eq_true, List.isEmpty_iff] at hw
    obtain ⟨⟨⟨⟨wa, wb⟩, ea⟩, eb⟩, hd⟩ := hw
    simp only [Sim, SimL] at hs
    rcases hs with hb | ⟨bs, rfl, ra, xs, rfl, sa, rb, xs', rfl, sb, rfl⟩
    · exact hb.1 hw0
    simp only [fi] at hx
    have sfa := fi_sorted a wa
    have la := FIle.merge_left (fi a) (fi b) sfa
    have lb := FIle.merge_right (fi a) (fi b) sfa ((dimsAgree_iff _ _ sfa).mp hd)
    obtain ⟨s1, f1, w1, v1⟩ := iha wa ra sa (hy.arg (by simp)) (hx.of_le la)
    obtain ⟨s2, f2, w2, v2⟩ := ihb wb rb sb (hy.arg (by simp)) (hx.of_le lb)
    have hd' : dimsAgree (fi ra) (fi rb) = true :=
      (dimsAgree_iff _ _ (fi_sorted _ w1)).mpr (Sub.dimsAgree f1 f2 hx.1 la lb)
    refine ⟨by simp only [shape], by simp only [fi]; exact Sub.merge sfa (fi_sorted _ w1) f1 f2 hx.1,
      by simp only [WF, w1, w2, s1, s2, ea, eb, List.isEmpty_nil, hd', Bool.and_self], ?_⟩
    intro side ι c _
    simp only [eval]
    rw [v1 side ι [] (by rw [ea]), v2 side ι [] (by rw [eb])]
  -- 9 division
  · intro aux a b iha ihb hw r hs hy hx
    have hw0 := hw
    simp only [WF, Bool.and_eq_true, List.isEmpty_iff] at hw
    obtain ⟨⟨⟨wa, wb⟩, ea⟩, tb⟩ := hw
    simp only [Sim, SimL] at hs
    rcases hs with hb | ⟨bs, rfl, ra, xs, rfl, sa, rb, xs', rfl, sb, rfl⟩
    · exact hb.1 hw0
    obtain ⟨s1, f1, w1, v1⟩ := iha wa ra sa (hy.arg (by simp)) (by simpa only [fi] using hx)
    have p2 := ihb wb rb sb (hy.arg (by simp)) (ext_of_scalar tb)
    have tb' := p2.scalar tb
    obtain ⟨s2, f2, w2, v2⟩ := p2
    simp only [trueScalar, Bool.and_eq_true, List.isEmpty_iff] at tb
    refine ⟨by simp only [shape], by simp only [fi]; exact f1,
      by simp only [WF, w1, w2, s1, ea, List.isEmpty_nil, tb', Bool.and_self], ?_⟩
    intro side ι c hc
    simp only [shape, List.length_nil] at hc
    simp only [eval]
    rw [v1 side ι c (by rw [ea]; exact hc), v2 side ι c (by rw [tb.1]; exact hc)]
  -- 10 power
  · intro aux a b iha ihb hw r hs hy hx
    have hw0 := hw
    simp only [WF, Bool.and_eq_true] at hw
    obtain ⟨⟨⟨wa, wb⟩, ta⟩, tb⟩ := hw
    simp only [Sim, SimL] at hs
    rcases hs with hb | ⟨bs, rfl, ra, xs, rfl, sa, rb, xs', rfl, sb, rfl⟩
    · exact hb.1 hw0
    have p1 := iha wa ra sa (hy.arg (by simp)) (ext_of_scalar ta)
    have p2 := ihb wb rb sb (hy.arg (by simp)) (ext_of_scalar tb)
    have ta' := p1.scalar ta
    have tb' := p2.scalar tb
    obtain ⟨s1, f1, w1, v1⟩ := p1
    obtain ⟨s2, f2, w2, v2⟩ := p2
    simp only [trueScalar, Bool.and_eq_true, List.isEmpty_iff] at ta tb
    refine ⟨by simp only [shape], by simp only [fi]; exact f1, by simp only [WF, w1, w2, ta', tb', Bool.and_self], ?_⟩
    intro side ι c hc
    simp only [shape, List.length_nil] at hc
    simp only [eval]
    rw [v1 side ι c (by rw [ta.1]; exact hc), v2 side ι c (by rw [tb.1]; exact hc)]
  -- 11-14 abs conj real imag
  · intro aux a ih hw r hs hy hx
    have hw0 := hw
    simp only [WF] at hw
    simp only [Sim, SimL] at hs
    rcases hs with hb | ⟨bs, rfl, ra, xs, rfl, sa, rfl⟩
    · exact hb.1 hw0
    obtain ⟨s1, f1, w1, v1⟩ := ih hw ra sa (hy.arg (by simp)) (by simpa only [fi] using hx)
    refine ⟨by simp only [shape]; exact s1, by simp only [fi]; exact f1, by simp only [WF]; exact w1, ?_⟩
    intro side ι c hc
    simp only [shape] at hc
    simp only [eval]; rw [v1 _ ι c hc]
  · intro aux a ih hw r hs hy hx
    have hw0 := hw
    simp only [WF] at hw
    simp only [Sim, SimL] at hs
    rcases hs with hb | ⟨bs, rfl, ra, xs, rfl, sa, rfl⟩
    · exact hb.1 hw0
    obtain ⟨s1, f1, w1, v1⟩ := ih hw ra sa (hy.arg (by simp)) (by simpa only [fi] using hx)
    refine ⟨by simp only [shape]; exact s1, by simp only [fi]; exact f1, by simp only [WF]; exact w1, ?_⟩
    intro side ι c hc
    simp only [shape] at hc
    simp only [eval]; rw [v1 _ ι c hc]
  · intro aux a ih hw r hs hy hx
    have hw0 := hw
    simp only [WF] at hw
    simp only [Sim, SimL] at hs
    rcases hs with hb | ⟨bs, rfl, ra, xs, rfl, sa, rfl⟩
    · exact hb.1 hw0
    obtain ⟨s1, f1, w1, v1⟩ := ih hw ra sa (hy.arg (by simp)) (by simpa only [fi] using hx)
    refine ⟨by simp only [shape]; exact s1, by simp only [fi]; exact f1, by simp only [WF]; exact w1, ?_⟩
    intro side ι c hc
    simp only [shape] at hc
    simp only [eval]; rw [v1 _ ι c hc]
  · intro aux a ih hw r hs hy hx
    have hw0 := hw
    simp only [WF] at hw
    simp only [Sim, SimL] at hs
    rcases hs with hb | ⟨bs, rfl, ra, xs, rfl, sa, rfl⟩
    · exact hb.1 hw0
    obtain ⟨s1, f1, w1, v1⟩ := ih hw ra sa (hy.arg (by simp)) (by simpa only [fi] using hx)
    refine ⟨by simp only [shape]; exact s1, by simp only [fi]; exact f1, by simp only [WF]; exact w1, ?_⟩
    intro side ι c hc
    simp only [shape] at hc
    simp only [eval]; rw [v1 _ ι c hc]
  -- 15 indexed
  · intro aux a is ih hw r hs hy hx
    have hw0 := hw
    simp only [WF, Bool.and_eq_true, beq_iff_eq] at hw
    obtain ⟨⟨⟨wa, hl⟩, hr⟩, hi⟩ := hw
    simp only [Sim, SimL] at hs
    rcases hs with hb | ⟨bs, rfl, ra, xs, rfl, sa, x2, xs', rfl, rfl, rfl⟩
    · exact hb.1 hw0
    simp only [fi] at hx
    have sfa := fi_sorted a wa
    obtain ⟨s1, f1, w1, v1⟩ := ih wa ra sa (hy.arg (by simp)) (hx.of_le (FIle.foldl_insert _ _ sfa))
    have sfr := fi_sorted ra w1
    rw [indexedFI_insAll _ _ _ hl] at hi
    obtain ⟨g, hg⟩ := Option.isSome_iff_exists.mp hi
    obtain ⟨eg, hd⟩ := insAll_facts _ _ g sfa hg
    subst eg
    obtain ⟨hsome, hsub⟩ := Sub.insert_pairs _ sfa sfr f1 hd hx.1
    have hfix : ∀ c k v, (Idx.free c, k) ∈ is.zipIdx → θ c = .fixed v → v < (shape a).getD k 0 := by
      intro c k v hm ht
      have hp := mem_idxPairs (shape a) _ c k hm
      have := hx.2 c v ((has_foldl_insert_iff _ _ c).mpr (Or.inr ⟨_, hp, rfl⟩)) ht
      rwa [hd _ hp] at this
    have hlen : (is.map (substI θ)).length = (shape a).length := by simpa using hl
    refine ⟨by simp only [shape], ?_, ?_, ?_⟩
    · simp only [fi, s1, zipIdx_subst, idxPairs_subst]; exact hsub
    · simp only [WF, w1, s1, hlen, beq_self_eq_true, fixedInRange_subst θ (shape a) is hr hfix, Bool.true_and]
      rw [indexedFI_insAll _ _ _ hlen, zipIdx_subst, idxPairs_subst]
      exact hsome
    · intro side ι c _
      simp only [eval, resolve_subst]
      exact v1 side ι _ (by simp [hl])
  -- 16 index sum
  · intro aux a j ih hw r hs hy hx
    have hw0 := hw
    simp only [WF, Bool.and_eq_true] at hw
    obtain ⟨wa, hj⟩ := hw
    have hJ := hy.indexSum
    simp only [Sim, SimL, List.map_cons, List.map_nil, substI_free, hJ.1] at hs
    rcases hs with hb | ⟨bs, rfl, ra, xs, rfl, sa, x2, xs', rfl, rfl, rfl⟩
    · exact hb.1 hw0
    simp only [fi] at hx
    obtain ⟨s1, f1, w1, v1⟩ := ih wa ra sa (hy.arg (by simp)) (Ext.unremove hJ hx)
    obtain ⟨hj', dj⟩ := f1.fwd j j hj hJ.1
    refine ⟨by simp only [shape]; exact s1, by simp only [fi]; exact Sub.remove hJ f1,
      by simp only [WF, w1, hj', Bool.and_self], ?_⟩
    intro side ι c hc
    simp only [shape] at hc
    simp only [eval, dj]
    congr 1
    funext v
    rw [v1 side (ι.set j v) c hc, thS_set hJ]
  -- 17 component tensor
  · intro aux a is ih hw r hs hy hx
    have hw0 := hw
    simp only [WF, Bool.and_eq_true, List.isEmpty_iff] at hw
    obtain ⟨⟨wa, ea⟩, hm⟩ := hw
    have hC := hy.ct
    simp only [Sim, SimL, map_substI_hyg is hC] at hs
    rcases hs with hb | ⟨bs, rfl, ra, xs, rfl, sa, x2, xs', rfl, rfl, rfl⟩
    · exact hb.1 hw0
    simp only [fi] at hx
    obtain ⟨s1, f1, w1, v1⟩ := ih wa ra sa (hy.arg (by simp)) (Ext.unremove_foldl _ _ hC hx)
    cases haf : allFree is with
    | none => simp [haf] at hm
    | some cs =>
      simp only [haf, Bool.and_eq_true, List.all_eq_true] at hm
      obtain ⟨h1, _, _⟩ := allFree_spec is cs haf
      have hdim : ∀ c ∈ freeCounts is, FI.has c (fi ra) = true ∧ FI.dimOf c (fi ra) = FI.dimOf c (fi a) :=
        fun c hc => f1.fwd c c (hm.2 c (by rw [← h1]; exact hc)) (hC c hc).1
      refine ⟨?_, by simp only [fi]; exact Sub.foldl_remove _ hC f1, ?_, ?_⟩
      · simp only [shape]
        exact List.map_congr_left (fun c hc => (hdim c hc).2)
      · simp only [WF, w1, s1, ea, List.isEmpty_nil, haf, hm.1, Bool.true_and, List.all_eq_true]
        intro c hc
        exact (hdim c (by rw [h1]; exact hc)).1
      · intro side ι c _
        simp only [eval]
        rw [v1 side (ι.bind is c) [] (by rw [ea]), thS_bind is c ι hC]
  -- 18 list tensor
  · intro aux a as iha ihas hw r hs hy hx
    have hw0 := hw
    simp only [WF, Bool.and_eq_true, List.all_eq_true, beq_iff_eq] at hw
    obtain ⟨⟨wa, was⟩, hsame⟩ := hw
    simp only [Sim, SimL] at hs
    rcases hs with hb | ⟨bs, rfl, ra, ras, rfl, sa, sas⟩
    · exact hb.1 hw0
    simp only [fi] at hx
    have pa := iha wa ra sa (hy.arg (by simp)) hx
    have rows := ihas was ras sas hy.args.tail
    have hxs : ∀ x ∈ as, Ext θ (fi x) := fun x hx' => by rw [(hsame x hx').2]; exact hx
    have hlen := rows.length_eq
    obtain ⟨s1, f1, w1, v1⟩ := pa
    refine ⟨by simp only [shape, s1, hlen], by simp only [fi]; exact f1, ?_, ?_⟩
    · simp only [WF, w1, rows_wfl rows hxs, rows_same rows hxs ⟨s1, f1, w1, v1⟩ hsame, Bool.and_self]
    · intro side ι c hc
      simp only [shape, List.length_cons] at hc
      cases c with
      | nil => simp [eval]
      | cons v c' =>
        simp only [eval]
        simp only [List.length_cons, Nat.add_right_cancel_iff] at hc
        have rows' : List.Forall₂ (RowOK ρ θ) (a :: as) (ra :: ras) := List.Forall₂.cons (fun _ => ⟨s1, f1, w1, v1⟩) rows
        apply rows_evalNth rows' (fun x hx' => by
          cases List.mem_cons.mp hx' with
          | inl e => rw [e]; exact hx
          | inr e => exact hxs x e) side ι c'
        intro x hx'
        cases List.mem_cons.mp hx' with
        | inl e => rw [e]; exact hc
        | inr e => rw [(hsame x e).1]; exact hc
  -- 19 conditional
  · intro aux c t f ihc iht ihf hw r hs hy hx
    have hw0 := hw
    simp only [WF, Bool.and_eq_true, beq_iff_eq] at hw
    obtain ⟨⟨⟨⟨wc, wt⟩, wf⟩, hsh⟩, hfi⟩ := hw
    simp only [Sim, SimL] at hs
    rcases hs with hb | ⟨bs, rfl, rc, xs, rfl, sc, rt, xs', rfl, st, rf, xs'', rfl, sf, rfl⟩
    · exact hb.1 hw0
    simp only [fi] at hx
    obtain ⟨wc', vc⟩ := ihc wc rc sc (hy.arg (by simp))
    obtain ⟨s1, f1, w1, v1⟩ := iht wt rt st (hy.arg (by simp)) hx
    obtain ⟨s2, f2, w2, v2⟩ := ihf wf rf sf (hy.arg (by simp)) (by rw [← hfi]; exact hx)
    have hfr : fi rt = fi rf := Sub.unique f1 (by rw [hfi]; exact f2) (fi_sorted _ w1) (fi_sorted _ w2)
    refine ⟨by simp only [shape]; exact s1, by simp only [fi]; exact f1,
      by simp only [WF, wc', w1, w2, s1, s2, hsh, hfr, Bool.and_self, beq_self_eq_true], ?_⟩
    intro side ι c hc
    simp only [shape] at hc
    simp only [eval]
    rw [vc side ι, v1 side ι c hc, v2 side ι c (by rw [← hsh]; exact hc)]
  -- 20-22 min max atan2
  · intro aux a b iha ihb hw r hs hy hx
    have hw0 := hw
    simp only [WF, Bool.and_eq_true] at hw
    obtain ⟨⟨⟨wa, wb⟩, ta⟩, tb⟩ := hw
    simp only [Sim, SimL] at hs
    rcases hs with hb | ⟨bs, rfl, ra, xs, rfl, sa, rb, xs', rfl, sb, rfl⟩
    · exact hb.1 hw0
    have p1 := iha wa ra sa (hy.arg (by simp)) (ext_of_scalar ta)
    have p2 := ihb wb rb sb (hy.arg (by simp)) (ext_of_scalar tb)
    have ta' := p1.scalar ta
    have tb' := p2.scalar tb
    obtain ⟨s1, f1, w1, v1⟩ := p1
    obtain ⟨s2, f2, w2, v2⟩ := p2
    simp only [trueScalar, Bool.and_eq_true, List.isEmpty_iff] at ta tb
    refine ⟨by simp only [shape], by simp only [fi]; exact f1, by simp only [WF, w1, w2, ta', tb', Bool.and_self], ?_⟩
    intro side ι c hc
    simp only [shape, List.length_nil] at hc
    simp only [eval]
    rw [v1 side ι c (by rw [ta.1]; exact hc), v2 side ι c (by rw [tb.1]; exact hc)]
  · intro aux a b iha ihb hw r hs hy hx
    have hw0 := hw
    simp only [WF, Bool.and_eq_true] at hw
    obtain ⟨⟨⟨wa, wb⟩, ta⟩, tb⟩ := hw
    simp only [Sim, SimL] at hs
    rcases hs with hb | ⟨bs, rfl, ra, xs, rfl, sa, rb, xs', rfl, sb, rfl⟩
    · exact hb.1 hw0
    have p1 := iha wa ra sa (hy.arg (by simp)) (ext_of_scalar ta)
    have p2 := ihb wb rb sb (hy.arg (by simp)) (ext_of_scalar tb)
    have ta' := p1.scalar ta
    have tb' := p2.scalar tb
    obtain ⟨s1, f1, w1, v1⟩ := p1
    obtain ⟨s2, f2, w2, v2⟩ := p2
    simp only [trueScalar, Bool.and_eq_true, List.isEmpty_iff] at ta tb
    refine ⟨by simp only [shape], by simp only [fi]; exact f1, by simp only [WF, w1, w2, ta', tb', Bool.and_self], ?_⟩
    intro side ι c hc
    simp only [shape, List.length_nil] at hc
    simp only [eval]
    rw [v1 side ι c (by rw [ta.1]; exact hc), v2 side ι c (by rw [tb.1]; exact hc)]
  · intro aux a b iha ihb hw r hs hy hx
    have hw0 := hw
    simp only [WF, Bool.and_eq_true] at hw
    obtain ⟨⟨⟨wa, wb⟩, ta⟩, tb⟩ := hw
    simp only [Sim, SimL] at hs
    rcases hs with hb | ⟨bs, rfl, ra, xs, rfl, sa, rb, xs', rfl, sb, rfl⟩
    · exact hb.1 hw0
    have p1 := iha wa ra sa (hy.arg (by simp)) (ext_of_scalar ta)
    have p2 := ihb wb rb sb (hy.arg (by simp)) (ext_of_scalar tb)
    have ta' := p1.scalar ta
    have tb' := p2.scalar tb
    obtain ⟨s1, f1, w1, v1⟩ := p1
    obtain ⟨s2, f2, w2, v2⟩ := p2
    simp only [trueScalar, Bool.and_eq_true, List.isEmpty_iff] at ta tb
    refine ⟨by simp only [shape], by simp only [fi]; exact f1, by simp only [WF, w1, w2, ta', tb', Bool.and_self], ?_⟩
    intro side ι c hc
    simp only [shape, List.length_nil] at hc
    simp only [eval]
    rw [v1 side ι c (by rw [ta.1]; exact hc), v2 side ι c (by rw [tb.1]; exact hc)]
  -- 23 variable
  · intro aux a d ih hw r hs hy hx
    have hw0 := hw
    simp only [WF] at hw
    simp only [Sim, SimL] at hs
    rcases hs with hb | ⟨bs, rfl, ra, xs, rfl, sa, x2, xs', rfl, rfl, rfl⟩
    · exact hb.1 hw0
    obtain ⟨s1, f1, w1, v1⟩ := ih hw ra sa (hy.arg (by simp)) (by simpa only [fi] using hx)
    refine ⟨by simp only [shape]; exact s1, by simp only [fi]; exact f1, by simp only [WF]; exact w1, ?_⟩
    intro side ι c hc
    simp only [shape] at hc
    simp only [eval]; rw [v1 _ ι c hc]
  -- 24-25 restrictions
  · intro aux a ih hw r hs hy hx
    have hw0 := hw
    simp only [WF] at hw
    simp only [Sim, SimL] at hs
    rcases hs with hb | ⟨bs, rfl, ra, xs, rfl, sa, rfl⟩
    · exact hb.1 hw0
    obtain ⟨s1, f1, w1, v1⟩ := ih hw ra sa (hy.arg (by simp)) (by simpa only [fi] using hx)
    refine ⟨by simp only [shape]; exact s1, by simp only [fi]; exact f1, by simp only [WF]; exact w1, ?_⟩
    intro side ι c hc
    simp only [shape] at hc
    simp only [eval]; rw [v1 _ ι c hc]
  · intro aux a ih hw r hs hy hx
    have hw0 := hw
    simp only [WF] at hw
    simp only [Sim, SimL] at hs
    rcases hs with hb | ⟨bs, rfl, ra, xs, rfl, sa, rfl⟩
    · exact hb.1 hw0
    obtain ⟨s1, f1, w1, v1⟩ := ih hw ra sa (hy.arg (by simp)) (by simpa only [fi] using hx)
    refine ⟨by simp only [shape]; exact s1, by simp only [fi]; exact f1, by simp only [WF]; exact w1, ?_⟩
    intro side ι c hc
    simp only [shape] at hc
    simp only [eval]; rw [v1 _ ι c hc]
  -- 26 grad of a terminal chain
  · intro aux a hw r hs hy hx
    have hw0 := hw
    simp only [WF, Option.isSome_iff_exists] at hw
    obtain ⟨p, hp⟩ := hw
    simp only [Sim, SimL] at hs
    rcases hs with hb | ⟨bs, rfl, ra, xs, rfl, sa, rfl⟩
    · exact hb.1 hw0
    rw [sim_gradChain ρ a p hp ra sa]
    exact full1_leaf ρ θ _ (by simp only [fi]; exact gradChain_fi a p hp) hw0 (fun _ _ _ _ => by simp [eval, hp])
  -- 27 math functions
  · intro aux fnk a h1 h2 h3 h4 h5 h6 h7 h8 ih hw r hs hy hx
    have hw0 := hw
    have hwf : ∀ x : Expr, WF (.op fnk aux [x]) = ((mathName fnk).isSome && WF x && trueScalar x) := by
      intro x; cases fnk <;> simp_all [WF, mathName]
    rw [hwf] at hw
    simp only [Bool.and_eq_true] at hw
    obtain ⟨⟨hm, wa⟩, ta⟩ := hw
    obtain ⟨n, hn⟩ := Option.isSome_iff_exists.mp hm
    have hsh : ∀ x : Expr, shape (.op fnk aux [x]) = [] := by
      intro x; cases fnk <;> simp_all [shape, mathName]
    have hfi : ∀ x : Expr, fi (.op fnk aux [x]) = fi x := by
      intro x; cases fnk <;> simp_all [fi, mathName]
    have hev : ∀ (side : Side) (ι₁ : IdxEnv) (x : Expr) (c : List Nat),
        eval ρ side ι₁ (.op fnk aux [x]) c = ρ.fn n (eval ρ side ι₁ x c) := by
      intro side ι₁ x c; cases fnk <;> simp_all [eval, mathName]
    simp only [Sim, SimL] at hs
    rcases hs with hb | ⟨bs, rfl, ra, xs, rfl, sa, rfl⟩
    · exact hb.1 hw0
    have p1 := ih wa ra sa (hy.arg (by simp)) (ext_of_scalar ta)
    have ta' := p1.scalar ta
    obtain ⟨s1, f1, w1, v1⟩ := p1
    simp only [trueScalar, Bool.and_eq_true, List.isEmpty_iff] at ta
    refine ⟨by rw [hsh, hsh], by rw [hfi, hfi]; exact f1, by rw [hwf, hm, w1, ta']; rfl, ?_⟩
    intro side ι c hc
    rw [hsh] at hc
    rw [hev, hev, v1 side ι c (by rw [ta.1]; exact hc)]
  -- 28 anything else is not well formed
  · intro k aux args
    intros
    rename_i hw r hs hy hx
    unfold WF at hw
    split at hw <;> simp_all
  -- 29-34 comparisons
  · intro aux a b iha ihb hw r hs hy
    have hw0 := hw
    simp only [WFC, Bool.and_eq_true] at hw
    obtain ⟨⟨⟨wa, wb⟩, ta⟩, tb⟩ := hw
    simp only [Sim, SimL] at hs
    rcases hs with hb | ⟨bs, rfl, ra, xs, rfl, sa, rb, xs', rfl, sb, rfl⟩
    · exact hb.2.1 hw0
    have p1 := iha wa ra sa (hy.arg (by simp)) (ext_of_scalar ta)
    have p2 := ihb wb rb sb (hy.arg (by simp)) (ext_of_scalar tb)
    have ta' := p1.scalar ta
    have tb' := p2.scalar tb
    obtain ⟨s1, f1, w1, v1⟩ := p1
    obtain ⟨s2, f2, w2, v2⟩ := p2
    simp only [trueScalar, Bool.and_eq_true, List.isEmpty_iff] at ta tb
    refine ⟨by simp only [WFC, w1, w2, ta', tb', Bool.and_self], ?_⟩
    intro side ι
    simp only [evalB]
    rw [v1 side ι [] (by rw [ta.1]), v2 side ι [] (by rw [tb.1])]
  · intro aux a b iha ihb hw r hs hy
    have hw0 := hw
    simp only [WFC, Bool.and_eq_true] at hw
    obtain ⟨⟨⟨wa, wb⟩, ta⟩, tb⟩ := hw
    simp only [Sim, SimL] at hs
    rcases hs with hb | ⟨bs, rfl, ra, xs, rfl, sa, rb, xs', rfl, sb, rfl⟩
    · exact hb.2.1 hw0
    have p1 := iha wa ra sa (hy.arg (by simp)) (ext_of_scalar ta)
    have p2 := ihb wb rb sb (hy.arg (by simp)) (ext_of_scalar tb)
    have ta' := p1.scalar ta
    have tb' := p2.scalar tb
    obtain ⟨s1, f1, w1, v1⟩ := p1
    obtain ⟨s2, f2, w2, v2⟩ := p2
    simp only [trueScalar, Bool.and_eq_true, List.isEmpty_iff] at ta tb
    refine ⟨by simp only [WFC, w1, w2, ta', tb', Bool.and_self], ?_⟩
    intro side ι
    simp only [evalB]
    rw [v1 side ι [] (by rw [ta.1]), v2 side ι [] (by rw [tb.1])]
  · intro aux a b iha ihb hw r hs hy
    have hw0 := hw
    simp only [WFC, Bool.and_eq_true] at hw
    obtain ⟨⟨⟨wa, wb⟩, ta⟩, tb⟩ := hw
    simp only [Sim, SimL] at hs
    rcases hs with hb | ⟨bs, rfl, ra, xs, rfl, sa, rb, xs', rfl, sb, rfl⟩
    · exact hb.2.1 hw0
    have p1 := iha wa ra sa (hy.arg (by simp)) (ext_of_scalar ta)
    have p2 := ihb wb rb sb (hy.arg (by simp)) (ext_of_scalar tb)
    have ta' := p1.scalar ta
    have tb' := p2.scalar tb
    obtain ⟨s1, f1, w1, v1⟩ := p1
    obtain ⟨s2, f2, w2, v2⟩ := p2
    simp only [trueScalar, Bool.and_eq_true, List.isEmpty_iff] at ta tb
    refine ⟨by simp only [WFC, w1, w2, ta', tb', Bool.and_self], ?_⟩
    intro side ι
    simp only [evalB]
    rw [v1 side ι [] (by rw [ta.1]), v2 side ι [] (by rw [tb.1])]
  · intro aux a b iha ihb hw r hs hy
    have hw0 := hw
    simp only [WFC, Bool.and_eq_true] at hw
    obtain ⟨⟨⟨wa, wb⟩, ta⟩, tb⟩ := hw
    simp only [Sim, SimL] at hs
    rcases hs with hb | ⟨bs, rfl, ra, xs, rfl, sa, rb, xs', rfl, sb, rfl⟩
    · exact hb.2.1 hw0
    have p1 := iha wa ra sa (hy.arg (by simp)) (ext_of_scalar ta)
    have p2 := ihb wb rb sb (hy.arg (by simp)) (ext_of_scalar tb)
    have ta' := p1.scalar ta
    have tb' := p2.scalar tb
    obtain ⟨s1, f1, w1, v1⟩ := p1
    obtain ⟨s2, f2, w2, v2⟩ := p2
    simp only [trueScalar, Bool.and_eq_true, List.isEmpty_iff] at ta tb
    refine ⟨by simp only [WFC, w1, w2, ta', tb', Bool.and_self], ?_⟩
    intro side ι
    simp only [evalB]
    rw [v1 side ι [] (by rw [ta.1]), v2 side ι [] (by rw [tb.1])]
  · intro aux a b iha ihb hw r hs hy
    have hw0 := hw
    simp only [WFC, Bool.and_eq_true] at hw
    obtain ⟨⟨⟨wa, wb⟩, ta⟩, tb⟩ := hw
    simp only [Sim, SimL] at hs
    rcases hs with hb | ⟨bs, rfl, ra, xs, rfl, sa, rb, xs', rfl, sb, rfl⟩
    · exact hb.2.1 hw0
    have p1 := iha wa ra sa (hy.arg (by simp)) (ext_of_scalar ta)
    have p2 := ihb wb rb sb (hy.arg (by simp)) (ext_of_scalar tb)
    have ta' := p1.scalar ta
    have tb' := p2.scalar tb
    obtain ⟨s1, f1, w1, v1⟩ := p1
    obtain ⟨s2, f2, w2, v2⟩ := p2
    simp only [trueScalar, Bool.and_eq_true, List.isEmpty_iff] at ta tb
    refine ⟨by simp only [WFC, w1, w2, ta', tb', Bool.and_self], ?_⟩
    intro side ι
    simp only [evalB]
    rw [v1 side ι [] (by rw [ta.1]), v2 side ι [] (by rw [tb.1])]
  · intro aux a b iha ihb hw r hs hy
    have hw0 := hw
    simp only [WFC, Bool.and_eq_true] at hw
    obtain ⟨⟨⟨wa, wb⟩, ta⟩, tb⟩ := hw
    simp only [Sim, SimL] at hs
    rcases hs with hb | ⟨bs, rfl, ra, xs, rfl, sa, rb, xs', rfl, sb, rfl⟩
    · exact hb.2.1 hw0
    have p1 := iha wa ra sa (hy.arg (by simp)) (ext_of_scalar ta)
    have p2 := ihb wb rb sb (hy.arg (by simp)) (ext_of_scalar tb)
    have ta' := p1.scalar ta
    have tb' := p2.scalar tb
    obtain ⟨s1, f1, w1, v1⟩ := p1
    obtain ⟨s2, f2, w2, v2⟩ := p2
    simp only [trueScalar, Bool.and_eq_true, List.isEmpty_iff] at ta tb
    refine ⟨by simp only [WFC, w1, w2, ta', tb', Bool.and_self], ?_⟩
    intro side ι
    simp only [evalB]
    rw [v1 side ι [] (by rw [ta.1]), v2 side ι [] (by rw [tb.1])]
  -- 35-37 and / or / not
  · intro aux a b iha ihb hw r hs hy
    have hw0 := hw
    simp only [WFC, Bool.and_eq_true] at hw
    simp only [Sim, SimL] at hs
    rcases hs with hb | ⟨bs, rfl, ra, xs, rfl, sa, rb, xs', rfl, sb, rfl⟩
    · exact hb.2.1 hw0
    obtain ⟨w1, v1⟩ := iha hw.1 ra sa (hy.arg (by simp))
    obtain ⟨w2, v2⟩ := ihb hw.2 rb sb (hy.arg (by simp))
    refine ⟨by simp only [WFC, w1, w2, Bool.and_self], ?_⟩
    intro side ι
    simp only [evalB]; rw [v1 side ι, v2 side ι]
  · intro aux a b iha ihb hw r hs hy
    have hw0 := hw
    simp only [WFC, Bool.and_eq_true] at hw
    simp only [Sim, SimL] at hs
    rcases hs with hb | ⟨bs, rfl, ra, xs, rfl, sa, rb, xs', rfl, sb, rfl⟩
    · exact hb.2.1 hw0
    obtain ⟨w1, v1⟩ := iha hw.1 ra sa (hy.arg (by simp))
    obtain ⟨w2, v2⟩ := ihb hw.2 rb sb (hy.arg (by simp))
    refine ⟨by simp only [WFC, w1, w2, Bool.and_self], ?_⟩
    intro side ι
    simp only [evalB]; rw [v1 side ι, v2 side ι]
  · intro aux a ih hw r hs hy
    have hw0 := hw
    simp only [WFC] at hw
    simp only [Sim, SimL] at hs
    rcases hs with hb | ⟨bs, rfl, ra, xs, rfl, sa, rfl⟩
    · exact hb.2.1 hw0
    obtain ⟨w1, v1⟩ := ih hw ra sa (hy.arg (by simp))
    refine ⟨by simp only [WFC, w1], ?_⟩
    intro side ι
    simp only [evalB]; rw [v1 side ι]
  -- 38-39 not a condition
  · intro k aux args
    intros
    rename_i hw r hs hy
    unfold WFC at hw
    split at hw <;> simp_all
  · intro t
    intros
    rename_i hw r hs hy
    unfold WFC at hw
    split at hw <;> simp_all
  -- 40-41 lists
  · intro _ rs hs _
    simp only [SimL] at hs; subst hs
    exact List.Forall₂.nil
  · intro a as iha ihas hw rs hs hy
    simp only [WFL, Bool.and_eq_true] at hw
    simp only [SimL] at hs
    obtain ⟨x, xs, rfl, sa, sas⟩ := hs
    exact List.Forall₂.cons (fun hx => iha hw.1 x sa (hy.mem (by simp)) hx) (ihas hw.2 xs sas hy.tail)


/-! ### from the executable substitution and the Boolean hypotheses to the induction -/

theorem replMI_eq (fm : FiMap) (is : List Idx) : replMI fm is = is.map (substI (thetaI fm)) := by
  unfold replMI
  apply List.map_congr_left
  intro i _
  cases i <;> rfl

mutual
theorem substIdx_sim (ρ : Env K) (fm : FiMap) : ∀ (e r : Expr), substIdx fm e = some r → Sim ρ (thetaI fm) e r
  | .mi is, r, h => by
    simp only [substIdx, Option.some.injEq] at h
    subst h
    simp only [Sim, replMI_eq]
  | .zero sh f, r, h => by
    simp only [substIdx] at h
    simp only [Sim]
    exact replZero_spec fm sh f r h
  | .op k aux args, r, h => by
    simp only [substIdx] at h
    cases hl : substIdxL fm args with
    | none => simp [hl] at h
    | some bs =>
      simp only [hl, Option.some.injEq] at h
      subst h
      simp only [Sim]
      exact Or.inr ⟨bs, rfl, substIdxL_sim ρ fm args bs hl⟩
  | .int _, r, h | .real _ _, r, h | .cplx _ _ _ _, r, h | .term _, r, h => by
    simp only [substIdx, Option.some.injEq] at h
    subst h
    simp only [Sim]
theorem substIdxL_sim (ρ : Env K) (fm : FiMap) : ∀ (as bs : List Expr), substIdxL fm as = some bs → SimL ρ (thetaI fm) as bs
  | [], bs, h => by
    simp only [substIdxL, Option.some.injEq] at h
    subst h
    simp only [SimL]
  | a :: as, bs, h => by
    simp only [substIdxL] at h
    cases ha : substIdx fm a with
    | none => simp [ha] at h
    | some x =>
      cases hl : substIdxL fm as with
      | none => simp [ha, hl] at h
      | some xs =>
        simp only [ha, hl, Option.some.injEq] at h
        subst h
        simp only [SimL]
        exact ⟨x, xs, rfl, substIdx_sim ρ fm a x ha, substIdxL_sim ρ fm as xs hl⟩
end

theorem get_cons (c : Nat) (x : Idx) (fm : FiMap) (i : Nat) :
    FiMap.get ((c, x) :: fm) i = if c = i then some x else FiMap.get fm i := by
  unfold FiMap.get
  simp only [List.find?_cons]
  by_cases h : c = i
  · simp [h]
  · have hb : (c == i) = false := by simp [h]
    simp only [hb, h, ↓reduceIte]

theorem get_some_mem : ∀ (fm : FiMap) (i : Nat) (x : Idx), fm.get i = some x → (i, x) ∈ fm
  | [], i, x, h => by simp [FiMap.get] at h
  | (c, y) :: fm, i, x, h => by
    rw [get_cons] at h
    by_cases hc : c = i
    · simp only [hc, ↓reduceIte, Option.some.injEq] at h
      subst h; subst hc; simp
    · simp only [hc, ↓reduceIte] at h
      exact List.mem_cons_of_mem _ (get_some_mem fm i x h)

theorem get_isSome_of_mem : ∀ (fm : FiMap) (i : Nat) (x : Idx), (i, x) ∈ fm → (fm.get i).isSome = true
  | [], _, _, h => by cases h
  | (c, y) :: fm, i, x, h => by
    rw [get_cons]
    by_cases hc : c = i
    · simp [hc]
    · simp only [hc, ↓reduceIte]
      cases List.mem_cons.mp h with
      | inl e => simp only [Prod.mk.injEq] at e; exact absurd e.1.symm hc
      | inr e => exact get_isSome_of_mem fm i x e

theorem get_zip_nodup : ∀ (cs : List Nat) (xs : List Idx) (i : Nat) (x : Idx), nodupNat cs = true →
    (i, x) ∈ cs.zip xs → FiMap.get (cs.zip xs) i = some x
  | [], _, _, _, _, h => by simp at h
  | _ :: _, [], _, _, _, h => by simp at h
  | c :: cs, y :: xs, i, x, hn, h => by
    simp only [nodupNat, Bool.and_eq_true, Bool.not_eq_true'] at hn
    simp only [List.zip_cons_cons, List.mem_cons, Prod.mk.injEq] at h
    simp only [List.zip_cons_cons]
    rw [get_cons]
    rcases h with ⟨rfl, rfl⟩ | h
    · simp
    · have hi : i ∈ cs := (List.of_mem_zip h).1
      have : c ≠ i := by
        intro e; subst e
        have : cs.contains c = true := by simpa using hi
        rw [hn.1] at this; cases this
      simp only [this, ↓reduceIte]
      exact get_zip_nodup cs xs i x hn.2 h

theorem hygP_of_hygienic (fm : FiMap) (e : Expr) (h : Hygienic fm e = true) : HygP (thetaI fm) e := by
  intro c hc
  unfold Hygienic at h
  rw [List.all_eq_true] at h
  have hc' := h c hc
  simp only [Bool.and_eq_true, Option.isNone_iff_eq_none, List.all_eq_true, bne_iff_ne, ne_eq] at hc'
  refine ⟨by simp [thetaI, hc'.1], ?_⟩
  intro i hi
  unfold thetaI at hi
  cases hg : fm.get i with
  | none => rw [hg] at hi; exact Idx.free.inj hi
  | some v =>
    rw [hg] at hi
    simp only [Option.getD_some] at hi
    exact absurd hi (hc'.2 (i, v) (get_some_mem fm i v hg))

theorem ext_of_extOK (fm : FiMap) (f : FI) (sf : Sorted f) (h : extOK fm f = true) : Ext (thetaI fm) f := by
  unfold extOK at h
  simp only [Bool.and_eq_true, List.all_eq_true] at h
  refine ⟨fun i i' k hi hi' ti ti' => ?_, fun i v hi ti => ?_⟩
  · obtain ⟨p, hp, rfl⟩ := (has_iff i f).mp hi
    obtain ⟨q, hq, rfl⟩ := (has_iff i' f).mp hi'
    have := h.1 p hp q hq
    rw [ti, ti'] at this
    simp only [bne_self_eq_false, Bool.false_or, beq_iff_eq] at this
    rw [dimOf_mem f sf p hp, dimOf_mem f sf q hq]
    exact this
  · obtain ⟨p, hp, rfl⟩ := (has_iff i f).mp hi
    have := h.2 p hp
    rw [ti] at this
    simp only [decide_eq_true_eq] at this
    rw [dimOf_mem f sf p hp]
    exact this

theorem thS_thetaI (fm : FiMap) (ι : IdxEnv) :
    thS (thetaI fm) ι = fun i => match fm.get i with | some j => Idx.resolve ι j | none => ι i := by
  funext i
  simp only [thS, thetaI]
  cases fm.get i <;> rfl

theorem substIdx_full (ρ : Env K) (fm : FiMap) (e r : Expr) (hw : WF e = true) (hh : Hygienic fm e = true)
    (hx : extOK fm (fi e) = true) (hs : substIdx fm e = some r) : Full1 ρ (thetaI fm) e r :=
  (sim_aux ρ (thetaI fm)).1 e hw r (substIdx_sim ρ fm e r hs) (hygP_of_hygienic fm e hh)
    (ext_of_extOK fm (fi e) (fi_sorted e hw) hx)

/-- an environment to instantiate the value-free part of the theorems -/
def env0 : Env Int :=
  { term := fun _ _ _ => 0, jet := fun _ _ _ _ => 0, fn := fun _ x => x, fn2 := fun _ x _ => x, abs := id, conj := id,
    re := id, im := id, i := 0, lt := fun _ _ => false, eq := fun _ _ => false }

/-! ## Property theorems: substitution -/

/-- **C10s (substitution, static data).**  For a well-formed `e`, a replacement map `fm` that is
    hygienic for `e` and compatible with the extents of the free indices of `e`: the substituted tree
    is well formed, has the shape of `e`, and its free indices are exactly the free images of the free
    indices of `e`, with their extents (an index sent to a fixed value disappears). -/
theorem C10_substIdx_static (fm : FiMap) (e r : Expr) (hw : WF e = true) (hh : Hygienic fm e = true)
    (hx : extOK fm (fi e) = true) (hs : substIdx fm e = some r) :
    WF r = true ∧ shape r = shape e ∧
    (∀ i k, FI.has i (fi e) = true → thetaI fm i = .free k →
      FI.has k (fi r) = true ∧ FI.dimOf k (fi r) = FI.dimOf i (fi e)) ∧
    (∀ k, FI.has k (fi r) = true → ∃ i, FI.has i (fi e) = true ∧ thetaI fm i = .free k) := by
  obtain ⟨s1, f1, w1, _⟩ := substIdx_full env0 fm e r hw hh hx hs
  exact ⟨w1, s1, f1.fwd, f1.bwd⟩

/-- **C10s (substitution, value).**  Under the same hypotheses the substituted tree has, under `ι`,
    the value of `e` under the environment that reads a replaced index from its image. -/
theorem C10_substIdx_value (ρ : Env K) (fm : FiMap) (e r : Expr) (hw : WF e = true) (hh : Hygienic fm e = true)
    (hx : extOK fm (fi e) = true) (hs : substIdx fm e = some r) (side : Side) (ι : IdxEnv) (c : List Nat)
    (hc : c.length = (shape e).length) :
    eval ρ side ι r c =
      eval ρ side (fun i => match fm.get i with | some j => Idx.resolve ι j | none => ι i) e c := by
  rw [← thS_thetaI]
  exact (substIdx_full ρ fm e r hw hh hx hs).2.2.2 side ι c hc

/-! ### the redex `Indexed(ComponentTensor(o2, i2), i1)` -/

/-- image of a (binder, index) pair of the redex on the extents of the tensor body -/
def zipImg (D : Nat → Nat) (p : Nat × Idx) : Option (Nat × Nat) :=
  match p.2 with
  | .free k => some (k, D p.1)
  | .fixed _ => none

theorem idxPairs_zip (D : Nat → Nat) : ∀ (cs : List Nat) (xs : List Idx) (pre : List Nat), cs.length = xs.length →
    idxPairs (pre ++ cs.map D) (xs.zipIdx pre.length) = (cs.zip xs).filterMap (zipImg D)
  | [], [], _, _ => rfl
  | [], _ :: _, _, h => by simp at h
  | _ :: _, [], _, h => by simp at h
  | c :: cs, x :: xs, pre, h => by
    have ih := idxPairs_zip D cs xs (pre ++ [D c]) (by simpa using h)
    simp only [List.length_append, List.length_singleton, List.append_assoc, List.singleton_append] at ih
    have hget : (pre ++ D c :: List.map D cs).getD pre.length 0 = D c := by simp
    cases x with
    | fixed v =>
      simp only [List.map_cons, List.zipIdx_cons, idxPairs, List.zip_cons_cons, List.filterMap_cons, zipImg]
      exact ih
    | free k =>
      simp only [List.map_cons, List.zipIdx_cons, idxPairs, List.zip_cons_cons, List.filterMap_cons, zipImg, hget]
      rw [ih]

theorem fixedInRange_zip (D : Nat → Nat) : ∀ (cs : List Nat) (xs : List Idx) (pre : List Nat), cs.length = xs.length →
    (∀ p ∈ xs.zipIdx pre.length, ∀ v, p.1 = Idx.fixed v → v < (pre ++ cs.map D).getD p.2 0) →
    ∀ c v, (c, Idx.fixed v) ∈ cs.zip xs → v < D c
  | [], [], _, _, _ => by intro c v h; simp at h
  | [], _ :: _, _, h, _ => by simp at h
  | _ :: _, [], _, h, _ => by simp at h
  | c :: cs, x :: xs, pre, h, hall => by
    intro c' v hm
    simp only [List.map_cons, List.zipIdx_cons, List.mem_cons] at hall
    have hget : (pre ++ D c :: List.map D cs).getD pre.length 0 = D c := by simp
    simp only [List.zip_cons_cons, List.mem_cons, Prod.mk.injEq] at hm
    rcases hm with ⟨rfl, rfl⟩ | hm
    · have := hall (Idx.fixed v, pre.length) (Or.inl rfl) v rfl
      simpa [hget] using this
    · have ih := fixedInRange_zip D cs xs (pre ++ [D c]) (by simpa using h)
      simp only [List.length_append, List.length_singleton, List.append_assoc, List.singleton_append] at ih
      exact ih (fun p hp => hall p (Or.inr hp)) c' v hm

theorem fixedInRange_spec (sh : List Nat) (is : List Idx) (h : fixedInRange sh is = true) :
    ∀ p ∈ is.zipIdx, ∀ v, p.1 = Idx.fixed v → v < sh.getD p.2 0 := by
  unfold fixedInRange at h
  rw [List.all_eq_true] at h
  intro p hp v hv
  have := h p hp
  rw [hv] at this
  simpa using this

theorem mem_freeCounts (c : Nat) : ∀ is : List Idx, c ∈ freeCounts is ↔ Idx.free c ∈ is
  | [] => by simp [freeCounts]
  | .fixed v :: is => by
    have := mem_freeCounts c is
    simp only [freeCounts, List.filterMap_cons] at this ⊢
    simp [this]
  | .free d :: is => by
    have := mem_freeCounts c is
    simp only [freeCounts, List.filterMap_cons, List.mem_cons] at this ⊢
    simp [this]

/-- the guard of `IndexRemover` gives hygiene of the replacement map -/
theorem hygienic_of_guard (o2 : Expr) (i1 i2 : List Idx)
    (hg : (freeCounts i1 ++ freeCounts i2).any (fun c => (boundCounts o2).contains c) = false) :
    Hygienic ((freeCounts i2).zip i1) o2 = true := by
  rw [List.any_eq_false] at hg
  unfold Hygienic
  rw [List.all_eq_true]
  intro c hc
  have hcb : (boundCounts o2).contains c = true := by simpa using hc
  simp only [Bool.and_eq_true, Option.isNone_iff_eq_none, List.all_eq_true, bne_iff_ne, ne_eq]
  constructor
  · cases hgc : FiMap.get ((freeCounts i2).zip i1) c with
    | none => rfl
    | some x =>
      have hm := get_some_mem _ c x hgc
      have := hg c (by rw [List.mem_append]; exact Or.inr (List.of_mem_zip hm).1)
      rw [hcb] at this; exact absurd rfl this
  · intro p hp e
    have h2 : p.2 ∈ i1 := (List.of_mem_zip (a := p.1) (b := p.2) hp).2
    rw [e] at h2
    have := hg c (by rw [List.mem_append]; exact Or.inl ((mem_freeCounts c i1).mpr h2))
    rw [hcb] at this; exact absurd rfl this

theorem bind_zip : ∀ (cs : List Nat) (xs : List Idx) (ι0 ι : IdxEnv), nodupNat cs = true → cs.length = xs.length →
    ∀ i, (ι.bind (cs.map Idx.free) (xs.map (Idx.resolve ι0))) i =
      match FiMap.get (cs.zip xs) i with | some j => Idx.resolve ι0 j | none => ι i
  | [], [], _, _, _, _, i => by simp [IdxEnv.bind, FiMap.get]
  | [], _ :: _, _, _, _, h, _ => by simp at h
  | _ :: _, [], _, _, _, h, _ => by simp at h
  | c :: cs, x :: xs, ι0, ι, hn, h, i => by
    simp only [nodupNat, Bool.and_eq_true, Bool.not_eq_true'] at hn
    simp only [List.map_cons, IdxEnv.bind, List.zip_cons_cons]
    rw [bind_zip cs xs ι0 _ hn.2 (by simpa using h) i, get_cons]
    by_cases hc : c = i
    · subst hc
      have : FiMap.get (cs.zip xs) c = none := by
        cases hg : FiMap.get (cs.zip xs) c with
        | none => rfl
        | some y =>
          have := (List.of_mem_zip (get_some_mem _ c y hg)).1
          have : cs.contains c = true := by simpa using this
          rw [hn.1] at this; cases this
      simp [this, IdxEnv.set]
    · have hi : i ≠ c := fun e => hc e.symm
      simp only [hc, ↓reduceIte]
      cases FiMap.get (cs.zip xs) i <;> simp [IdxEnv.set, hi]

theorem mem_zip_of_mem_left (i : Nat) : ∀ (cs : List Nat) (xs : List Idx), cs.length = xs.length → i ∈ cs →
    ∃ x, (i, x) ∈ cs.zip xs
  | [], _, _, h => by cases h
  | _ :: _, [], h, _ => by simp at h
  | c :: cs, x :: xs, h, hi => by
    cases List.mem_cons.mp hi with
    | inl e => exact ⟨x, by simp [e]⟩
    | inr e =>
      obtain ⟨y, hy⟩ := mem_zip_of_mem_left i cs xs (by simpa using h) e
      exact ⟨y, by simp [hy]⟩

theorem thS_free (ι : IdxEnv) : thS Idx.free ι = ι := rfl

theorem WF_indexed_eq (aux : List Nat) (A : Expr) (is : List Idx) :
    WF (.op .indexed aux [A, .mi is]) =
      (WF A && is.length == (shape A).length && fixedInRange (shape A) is && (indexedFI (fi A) (shape A) is).isSome) := by
  simp only [WF]

theorem WF_ct_iff (aux : List Nat) (a : Expr) (is : List Idx) :
    WF (.op .componentTensor aux [a, .mi is]) = true ↔
      WF a = true ∧ shape a = [] ∧ ∃ cs, allFree is = some cs ∧ nodupNat cs = true ∧ ∀ c ∈ cs, FI.has c (fi a) = true := by
  simp only [WF, Bool.and_eq_true, List.isEmpty_iff]
  cases allFree is with
  | none => simp
  | some cs => simp [and_assoc]

/-- **the rewrite step of `remove_component_tensors` is sound**: `o2[i2 := i1]` stands for
    `Indexed(ComponentTensor(o2, i2), i1)` -/
theorem redex_full (ρ : Env K) (aux aux2 : List Nat) (o2 : Expr) (i2 i1 : List Idx) (r : Expr)
    (hw : WF (.op .indexed aux [.op .componentTensor aux2 [o2, .mi i2], .mi i1]) = true)
    (hg : (freeCounts i1 ++ freeCounts i2).any (fun c => (boundCounts o2).contains c) = false)
    (hlen : i2.length = i1.length) (hs : substIdx ((freeCounts i2).zip i1) o2 = some r) :
    Full1 ρ Idx.free (.op .indexed aux [.op .componentTensor aux2 [o2, .mi i2], .mi i1]) r := by
  rw [WF_indexed_eq] at hw
  simp only [Bool.and_eq_true, beq_iff_eq] at hw
  obtain ⟨⟨⟨wct, hl1⟩, hr1⟩, hi1⟩ := hw
  have wct0 := wct
  rw [WF_ct_iff] at wct
  obtain ⟨wa, ea, cs, haf, hnd, hall⟩ := wct
  · obtain ⟨h1, h2, h3⟩ := allFree_spec i2 cs haf
    have hlc : cs.length = i1.length := by rw [h2]; exact hlen
    have hshape : shape (.op .componentTensor aux2 [o2, .mi i2]) = cs.map (fun c => FI.dimOf c (fi o2)) := by
      simp only [shape, h1]
    have hfict : fi (.op .componentTensor aux2 [o2, .mi i2]) = cs.foldl (fun acc c => FI.remove c acc) (fi o2) := by
      simp only [fi, h1]
    rw [hshape] at hl1 hr1 hi1
    rw [hfict] at hi1
    rw [h1] at hs
    have sfo := fi_sorted o2 wa
    have sct : Sorted (cs.foldl (fun acc c => FI.remove c acc) (fi o2)) := foldl_remove_sorted cs _ sfo
    -- the free indices of the redex
    rw [indexedFI_insAll _ _ _ hl1] at hi1
    obtain ⟨E, hE⟩ := Option.isSome_iff_exists.mp hi1
    obtain ⟨eE, hdE⟩ := insAll_facts _ _ E sct hE
    have hP := idxPairs_zip (fun c => FI.dimOf c (fi o2)) cs i1 [] hlc
    simp only [List.nil_append, List.length_nil] at hP
    have hfiX : fi (.op .indexed aux [.op .componentTensor aux2 [o2, .mi i2], .mi i1]) = E := by
      rw [eE]; simp only [fi, h1, hshape]
    have hasE : ∀ c, FI.has c E = true ↔ FI.has c (cs.foldl (fun acc c => FI.remove c acc) (fi o2)) = true ∨
        ∃ p ∈ (cs.zip i1).filterMap (zipImg (fun c => FI.dimOf c (fi o2))), p.1 = c := by
      intro c; rw [eE, has_foldl_insert_iff, hP]
    have hfixz := fixedInRange_zip (fun c => FI.dimOf c (fi o2)) cs i1 [] hlc (by
      simpa only [List.nil_append, List.length_nil] using fixedInRange_spec _ _ hr1)
    -- the replacement map
    have hget_none : ∀ i, i ∉ cs → FiMap.get (cs.zip i1) i = none := by
      intro i hi
      cases hgi : FiMap.get (cs.zip i1) i with
      | none => rfl
      | some x => exact absurd (List.of_mem_zip (get_some_mem _ i x hgi)).1 hi
    have hθ_none : ∀ i, i ∉ cs → thetaI (cs.zip i1) i = .free i := by
      intro i hi; simp [thetaI, hget_none i hi]
    have hθ_in : ∀ c x, (c, x) ∈ cs.zip i1 → thetaI (cs.zip i1) c = x := by
      intro c x hm; simp [thetaI, get_zip_nodup cs i1 c x hnd hm]
    have hremove : ∀ i, FI.has i (cs.foldl (fun acc c => FI.remove c acc) (fi o2)) = true ↔
        FI.has i (fi o2) = true ∧ i ∉ cs := by
      intro i; rw [has_foldl_remove]; simp
    have K1 : ∀ i k, FI.has i (fi o2) = true → thetaI (cs.zip i1) i = .free k →
        FI.has k E = true ∧ FI.dimOf i (fi o2) = FI.dimOf k E := by
      intro i k hi ti
      cases hgi : FiMap.get (cs.zip i1) i with
      | none =>
        have hic : i ∉ cs := by
          intro hmem
          obtain ⟨x, hx⟩ := mem_zip_of_mem_left i cs i1 hlc hmem
          have := get_isSome_of_mem _ i x hx
          rw [hgi] at this; cases this
        rw [hθ_none i hic] at ti
        cases ti
        have hct := (hremove i).mpr ⟨hi, hic⟩
        have hle := (FIle.foldl_remove cs (fi o2)) i hct
        have hle2 := (FIle.foldl_insert (idxPairs (cs.map fun c => FI.dimOf c (fi o2)) i1.zipIdx) _ sct) i hct
        rw [← eE] at hle2
        exact ⟨hle2.1, by rw [← hle.2, hle2.2]⟩
      | some x =>
        have hm := get_some_mem _ i x hgi
        have : x = .free k := by rw [← hθ_in i x hm]; exact ti
        subst this
        have hp : (k, FI.dimOf i (fi o2)) ∈ (cs.zip i1).filterMap (zipImg (fun c => FI.dimOf c (fi o2))) :=
          List.mem_filterMap.mpr ⟨(i, .free k), hm, rfl⟩
        refine ⟨(hasE k).mpr (Or.inr ⟨_, hp, rfl⟩), ?_⟩
        have := hdE (k, FI.dimOf i (fi o2)) (by rw [hP]; exact hp)
        exact this.symm
    have K2 : ∀ k, FI.has k E = true → ∃ i, FI.has i (fi o2) = true ∧ thetaI (cs.zip i1) i = .free k := by
      intro k hk
      rcases (hasE k).mp hk with hk' | ⟨p, hp, rfl⟩
      · obtain ⟨h1', h2'⟩ := (hremove k).mp hk'
        exact ⟨k, h1', hθ_none k h2'⟩
      · obtain ⟨q, hq, hz⟩ := List.mem_filterMap.mp hp
        obtain ⟨c, x⟩ := q
        cases x with
        | fixed v => simp [zipImg] at hz
        | free k' =>
          simp only [zipImg, Option.some.injEq] at hz
          subst hz
          exact ⟨c, hall c (List.of_mem_zip hq).1, hθ_in c _ hq⟩
    have hExt : Ext (thetaI (cs.zip i1)) (fi o2) := by
      refine ⟨fun i i' k hi hi' ti ti' => ?_, fun i v hi ti => ?_⟩
      · rw [(K1 i k hi ti).2, (K1 i' k hi' ti').2]
      · cases hgi : FiMap.get (cs.zip i1) i with
        | none =>
          have : thetaI (cs.zip i1) i = .free i := by simp [thetaI, hgi]
          rw [this] at ti; cases ti
        | some x =>
          have hm := get_some_mem _ i x hgi
          have : x = .fixed v := by rw [← hθ_in i x hm]; exact ti
          subst this
          exact hfixz i v hm
    have hh := hygienic_of_guard o2 i1 i2 hg
    rw [h1] at hh
    obtain ⟨s1, f1, w1, v1⟩ := (sim_aux ρ (thetaI (cs.zip i1))).1 o2 wa r (substIdx_sim ρ _ o2 r hs)
      (hygP_of_hygienic _ o2 hh) hExt
    refine ⟨by rw [s1, ea]; simp only [shape], ?_, w1, ?_⟩
    · rw [hfiX]
      refine ⟨fun i k hi ti => ?_, fun k hk => ?_⟩
      · cases ti
        obtain ⟨c, hc, tc⟩ := K2 i hi
        obtain ⟨h1', h2'⟩ := f1.fwd c i hc tc
        exact ⟨h1', by rw [h2', (K1 c i hc tc).2]⟩
      · obtain ⟨i, hi, ti⟩ := f1.bwd k hk
        exact ⟨k, (K1 i k hi ti).1, rfl⟩
    · intro side ι c hc
      simp only [shape, List.length_nil, List.length_eq_zero_iff] at hc
      subst hc
      rw [thS_free, v1 side ι [] (by rw [ea])]
      simp only [eval]
      congr 1
      funext i
      rw [h3, bind_zip cs i1 ι ι hnd hlc i]
      simp only [thS, thetaI]
      cases FiMap.get (cs.zip i1) i <;> rfl


/-! ### the pass on plain trees -/

theorem hygJ_free (c : Nat) : HygJ Idx.free c := ⟨rfl, fun _ h => Idx.free.inj h⟩

theorem ext_free (f : FI) : Ext Idx.free f :=
  ⟨fun i i' k _ _ ti ti' => by cases ti; cases ti'; rfl, fun i v _ ti => by cases ti⟩

theorem map_substI_free : ∀ is : List Idx, is.map (substI Idx.free) = is
  | [] => rfl
  | .fixed v :: is => by simp only [List.map_cons, substI_fixed, map_substI_free is]
  | .free c :: is => by simp only [List.map_cons, substI_free, map_substI_free is]

theorem sub_free_refl (f : FI) : Sub Idx.free f f :=
  ⟨fun i k hi ti => by cases ti; exact ⟨hi, rfl⟩, fun k hk => ⟨k, hk, rfl⟩⟩

theorem sub_free_trans {f g h : FI} (h1 : Sub Idx.free f g) (h2 : Sub Idx.free g h) : Sub Idx.free f h := by
  refine ⟨fun i k hi ti => ?_, fun k hk => ?_⟩
  · cases ti
    obtain ⟨a1, a2⟩ := h1.fwd i i hi rfl
    obtain ⟨b1, b2⟩ := h2.fwd i i a1 rfl
    exact ⟨b1, by rw [b2, a2]⟩
  · obtain ⟨i, hi, ti⟩ := h2.bwd k hk
    cases ti
    obtain ⟨j, hj, tj⟩ := h1.bwd k hi
    cases tj
    exact ⟨k, hj, rfl⟩

theorem Full1.free_trans {ρ : Env K} {a b c : Expr} (h1 : Full1 ρ Idx.free a b) (h2 : Full1 ρ Idx.free b c) :
    Full1 ρ Idx.free a c := by
  obtain ⟨s1, f1, _, v1⟩ := h1
  obtain ⟨s2, f2, w2, v2⟩ := h2
  refine ⟨by rw [s2, s1], sub_free_trans f1 f2, w2, ?_⟩
  intro side ι x hx
  simp only [thS_free] at v1 v2 ⊢
  rw [v2 side ι x (by rw [s1]; exact hx), v1 side ι x hx]

/-- a tree related to `e` by the identity substitution with black boxes is itself a black box for `e` -/
theorem bb_of_sim (ρ : Env K) (e r : Expr) (h : Sim ρ Idx.free e r) : BB ρ Idx.free e r :=
  ⟨fun hw => (sim_aux ρ Idx.free).1 e hw r h (fun c _ => hygJ_free c) (ext_free _),
   fun hw => (sim_aux ρ Idx.free).2.1 e hw r h (fun c _ => hygJ_free c),
   fun p hp => sim_gradChain ρ e p hp r h⟩

theorem sim_of_rct (ρ : Env K) (a x : Expr) (h : rctPlain a = some x)
    (hop : ∀ k aux as, a = .op k aux as → BB ρ Idx.free a x) : Sim ρ Idx.free a x := by
  cases a with
  | op k aux as => simp only [Sim]; exact Or.inl (hop k aux as rfl)
  | mi is =>
    simp only [rctPlain, Option.some.injEq] at h; subst h
    simp only [Sim, map_substI_free]
  | zero sh f =>
    simp only [rctPlain, Option.some.injEq] at h; subst h
    simp only [Sim]
    exact ⟨f, rfl, fun sf => ⟨sub_free_refl f, sf⟩⟩
  | int v => simp only [rctPlain, Option.some.injEq] at h; subst h; simp only [Sim]
  | real n d => simp only [rctPlain, Option.some.injEq] at h; subst h; simp only [Sim]
  | cplx a b c d => simp only [rctPlain, Option.some.injEq] at h; subst h; simp only [Sim]
  | term d => simp only [rctPlain, Option.some.injEq] at h; subst h; simp only [Sim]

mutual
theorem rctPlain_bb (ρ : Env K) : ∀ (e r : Expr), rctPlain e = some r → BB ρ Idx.free e r
  | .op k aux args, r, h => by
    simp only [rctPlain] at h
    cases hl : rctPlainL args with
    | none => simp [hl] at h
    | some args' =>
      simp only [hl] at h
      have hsimL := rctPlainL_sim ρ args args' hl
      have bb1 : BB ρ Idx.free (.op k aux args) (.op k aux args') :=
        bb_of_sim ρ _ _ (by simp only [Sim]; exact Or.inr ⟨args', rfl, hsimL⟩)
      split at h
      · rename_i aux2 o2 i2 i1
        split at h
        · simp only [Option.some.injEq] at h; subst h; exact bb1
        · rename_i hg
          split at h
          · cases h
          · rename_i hlen
            have hg' : (freeCounts i1 ++ freeCounts i2).any (fun c => (boundCounts o2).contains c) = false := by
              simpa using hg
            have hlen' : i2.length = i1.length := by simpa using hlen
            refine ⟨fun hw => ?_, fun hw => by simp [WFC] at hw, fun p hp => by simp [gradChain] at hp⟩
            have f1 := bb1.1 hw
            exact f1.free_trans (redex_full ρ aux aux2 o2 i2 i1 r f1.2.2.1 hg' hlen' h)
      · simp only [Option.some.injEq] at h; subst h; exact bb1
  | .int _, r, h | .real _ _, r, h | .cplx _ _ _ _, r, h | .term _, r, h | .mi _, r, h | .zero _ _, r, h =>
    bb_of_sim ρ _ r (sim_of_rct ρ _ r h (fun k aux as e => by cases e))
theorem rctPlainL_sim (ρ : Env K) : ∀ (as bs : List Expr), rctPlainL as = some bs → SimL ρ Idx.free as bs
  | [], bs, h => by
    simp only [rctPlainL, Option.some.injEq] at h
    subst h
    simp only [SimL]
  | a :: as, bs, h => by
    simp only [rctPlainL] at h
    cases ha : rctPlain a with
    | none => simp [ha] at h
    | some x =>
      cases hl : rctPlainL as with
      | none => simp [ha, hl] at h
      | some xs =>
        simp only [ha, hl, Option.some.injEq] at h
        subst h
        simp only [SimL]
        exact ⟨x, xs, rfl, sim_of_rct ρ a x ha (fun k aux as' e => rctPlain_bb ρ a x ha), rctPlainL_sim ρ as xs hl⟩
end

/-! ## Property theorems: the pass -/

/-- **C10s (remove_component_tensors on plain trees).**  For every well-formed expression (any size):
    whatever `rctPlain` returns is well formed, has the same value for every valuation, side, index
    environment and component, the same shape and the same free indices with the same extents. -/
theorem C10_rct_plain_value (ρ : Env K) (e r : Expr) (hw : WF e = true) (h : rctPlain e = some r)
    (side : Side) (ι : IdxEnv) (c : List Nat) (hc : c.length = (shape e).length) :
    eval ρ side ι r c = eval ρ side ι e c ∧ shape r = shape e ∧ C05.FIeq (fi r) (fi e) ∧ WF r = true := by
  obtain ⟨s1, f1, w1, v1⟩ := (rctPlain_bb ρ e r h).1 hw
  refine ⟨v1 side ι c hc, s1, ?_, w1⟩
  intro i
  cases hi : FI.has i (fi r) with
  | true =>
    obtain ⟨j, hj, tj⟩ := f1.bwd i hi
    cases tj
    exact ⟨hj.symm, (f1.fwd i i hj rfl).2⟩
  | false =>
    cases hi' : FI.has i (fi e) with
    | true => rw [(f1.fwd i i hi' rfl).1] at hi; cases hi
    | false => exact ⟨rfl, by rw [C05.dim_nothas _ _ hi, C05.dim_nothas _ _ hi']⟩

/-- the free-index lists are even equal -/
theorem C10_rct_plain_fi (e r : Expr) (hw : WF e = true) (h : rctPlain e = some r) : fi r = fi e := by
  obtain ⟨_, _, hfi, w1⟩ := C10_rct_plain_value env0 e r hw h .none (fun _ => 0) (List.replicate (shape e).length 0) (by simp)
  exact sorted_ext _ _ (fi_sorted r w1) (fi_sorted e hw) (fun k => (hfi k).1) (fun k => (hfi k).2)

/-- conditions are processed consistently -/
theorem C10_rct_plain_cond (ρ : Env K) (p r : Expr) (hw : WFC p = true) (h : rctPlain p = some r)
    (side : Side) (ι : IdxEnv) : evalB ρ side ι r = evalB ρ side ι p ∧ WFC r = true := by
  obtain ⟨w1, v1⟩ := (rctPlain_bb ρ p r h).2.1 hw
  exact ⟨v1 side ι, w1⟩


/-! ## Necessity of the hypotheses, non-vacuity -/

/-- the body of `C10.capture`: `sum_j w[j] * A[i, j]` with i = 8, j = 9 -/
def capBody : Expr :=
  .op .indexSum [] [.op .product [] [.op .indexed [] [C10.tw, .mi [.free 9]], .op .indexed [] [C10.tA, .mi [.free 8, .free 9]]], .mi [.free 9]]

/-- what the substitution `i ↦ j` makes of it: `sum_j w[j] * A[j, j]` -/
def capBodyR : Expr :=
  .op .indexSum [] [.op .product [] [.op .indexed [] [C10.tw, .mi [.free 9]], .op .indexed [] [C10.tA, .mi [.free 9, .free 9]]], .mi [.free 9]]

theorem capBody_subst : substIdx [(8, .free 9)] capBody = some capBodyR := by rfl

/-- a valuation over ℤ: `A` the identity matrix, every other terminal 1 -/
def envC : Env Int :=
  { env0 with term := fun _ key c => if key = "A" then (match c with | [i, j] => if i = j then 1 else 0 | _ => 0) else 1 }

/-- **Without hygiene the substitution theorem is false** (static part): `i ↦ j` under the binder
    of `j` — all other hypotheses hold, the free index `i` has the free image `j`, but `j` is not
    free in the result. -/
theorem C10_substIdx_counterexample_fi :
    ¬ (∀ (fm : FiMap) (e r : Expr), WF e = true → extOK fm (fi e) = true → substIdx fm e = some r →
        ∀ i k, FI.has i (fi e) = true → thetaI fm i = .free k → FI.has k (fi r) = true) := by
  intro h
  have := h [(8, .free 9)] capBody capBodyR (by decide) (by decide) capBody_subst 8 9 (by decide) (by decide)
  revert this
  decide

/-- **Without hygiene the substitution theorem is false** (value part): with `A` the identity and
    `w = 1` the captured tree evaluates to the trace-like sum 2, the original under `ι ∘ θ` to 1. -/
theorem C10_substIdx_counterexample_value :
    ¬ (∀ (fm : FiMap) (e r : Expr), WF e = true → extOK fm (fi e) = true → substIdx fm e = some r →
        ∀ (ι : IdxEnv), eval envC .none ι r [] =
          eval envC .none (fun i => match fm.get i with | some j => Idx.resolve ι j | none => ι i) e []) := by
  intro h
  have := h [(8, .free 9)] capBody capBodyR (by decide) (by decide) capBody_subst (fun _ => 0)
  revert this
  decide

/-- the hygiene predicate rejects exactly this map -/
example : Hygienic [(8, .free 9)] capBody = false := by decide

def tV2 : Expr := .term { cls := "Coefficient", key := "u", shape := [2] }
def tV3 : Expr := .term { cls := "Coefficient", key := "v", shape := [3] }

/-- **Compatible extents are needed**: `u[i] * v[j]` with extents 2 and 3 and `i ↦ j`: hygienic, but
    the result `u[j] * v[j]` is not well formed (one index, two extents). -/
theorem C10_substIdx_needs_extents :
    WF (.op .product [] [.op .indexed [] [tV2, .mi [.free 3]], .op .indexed [] [tV3, .mi [.free 5]]]) = true ∧
    Hygienic [(3, .free 5)] (.op .product [] [.op .indexed [] [tV2, .mi [.free 3]], .op .indexed [] [tV3, .mi [.free 5]]]) = true ∧
    extOK [(3, .free 5)] (fi (.op .product [] [.op .indexed [] [tV2, .mi [.free 3]], .op .indexed [] [tV3, .mi [.free 5]]])) = false ∧
    (substIdx [(3, .free 5)] (.op .product [] [.op .indexed [] [tV2, .mi [.free 3]], .op .indexed [] [tV3, .mi [.free 5]]])).map WF
      = some false := by decide

/-- **Fixed images must be in range**: `u[i]` with extent 2 and `i ↦ 5` gives `u[5]`, not well formed. -/
theorem C10_substIdx_needs_range :
    WF (.op .indexed [] [tV2, .mi [.free 3]]) = true ∧ Hygienic [(3, .fixed 5)] (.op .indexed [] [tV2, .mi [.free 3]]) = true ∧
    extOK [(3, .fixed 5)] (fi (.op .indexed [] [tV2, .mi [.free 3]])) = false ∧
    (substIdx [(3, .fixed 5)] (.op .indexed [] [tV2, .mi [.free 3]])).map WF = some false := by decide

/-- a non-injective substitution is fine when the extents agree: `A[i, j]` with `i ↦ j` becomes
    `A[j, j]` (a repeated index in one multi-index is well formed when both axes have the same extent) -/
example : extOK [(8, .free 9)] (fi (.op .indexed [] [C10.tA, .mi [.free 8, .free 9]])) = true ∧
    (substIdx [(8, .free 9)] (.op .indexed [] [C10.tA, .mi [.free 8, .free 9]])).map (fun r => (WF r, fi r))
      = some (true, [(9, 2)]) := by decide

/-- a fixed image drops the index: `A[i, j]` with `i ↦ 1` -/
example : (substIdx [(8, .fixed 1)] (.op .indexed [] [C10.tA, .mi [.free 8, .free 9]])).map (fun r => (WF r, fi r))
      = some (true, [(9, 2)]) := by decide

/-- `as_vector(sum_j w[j] * A[i, j], i)[k]` (k = 7): the pass applies -/
def exR : Expr := .op .indexed [] [.op .componentTensor [] [capBody, .mi [.free 8]], .mi [.free 7]]

example : WF exR = true ∧ fi exR = [(7, 2)] := by decide
example : (rctPlain exR).map (fun r => beq r
    (.op .indexSum [] [.op .product [] [.op .indexed [] [C10.tw, .mi [.free 9]], .op .indexed [] [C10.tA, .mi [.free 7, .free 9]]], .mi [.free 9]]))
      = some true := by decide
example (ρ : Env K) (ι : IdxEnv) (r : Expr) (h : rctPlain exR = some r) : eval ρ .none ι r [] = eval ρ .none ι exR [] :=
  (C10_rct_plain_value ρ exR r (by decide) h .none ι [] (by decide)).1
/-- the capture example is left alone by the plain pass too -/
example : (rctPlain C10.capture).map (fun r => beq r C10.capture) = some true := by decide
/-- the hypotheses of the substitution theorem hold for the map the pass uses on `exR` -/
example : Hygienic [(8, .free 7)] capBody = true ∧ extOK [(8, .free 7)] (fi capBody) = true := by decide

end UflVerif.C10s
