/-
C23  Complex and real mode node handling is sound.

"In complex mode, preprocessing rejects any ordering comparison, min or max whose operands may be
complex and otherwise wraps them so the value is unchanged for real data; in real mode, removing
conjugation/real-part nodes leaves the value unchanged for real data and rejects imaginary parts
and complex literals."

Model: Model/ComplexMode.lean (`checkWith`, `removeWith`), compared with the implementation on every
run (harness/props/c23.py: output tree, type of the root, raise / no raise; the handler every
operator type is dispatched to; the terminal classes typed real).  This file proves, by induction
over well-formed expressions of any size:
  * the abstract interpretation is sound: what the check types `real`/`bool` is real-valued under
    every valuation in which the terminals it classifies as real are real — coefficients and
    constants may take any complex value (`C23_types_sound_partial`);
  * hence every operand of every comparison / min / max of an accepted integrand is real-valued
    (`C23_accepted_comparisons_real_partial`), and wrapping those operands in `Re` does not change the
    value of the integrand, for complex data too (`C23_check_preserves_value_partial`);
  * a comparison / min / max with a complex-typed operand anywhere makes the check raise
    (`C23_rejects_complex_operand`, any node constructor);
  * real mode: stripping `conj`/`Re` preserves the value when all values are real
    (`C23_remove_preserves_value`), an `Im` node or complex literal anywhere raises
    (`C23_remove_rejects`), nothing else does (`C23_remove_accepts`).
The full statements of the first three are false of the code as it stands (`ln`, `acos`, `asin` of a
real-typed operand are typed real): counterexamples over ℂ in Props/C23Complex.lean; they hold for
the repaired typing (`C23_fixed_check_sound`).
-/
import UflVerif.Model.ComplexMode
import UflVerif.Props.C05
import UflVerif.Props.C21

namespace UflVerif.C23
open UflVerif Expr

set_option linter.unusedSectionVars false
set_option linter.unusedSimpArgs false

variable {K : Type} [Field K] [CharZero K]

/-- `R` is the set of real numbers inside the scalar field `K` of a valuation `ρ`. -/
structure RealStruct (ρ : Env K) (R : K → Prop) : Prop where
  zero : R 0
  one : R 1
  intCast : ∀ n : ℤ, R (n : K)
  natCast : ∀ n : ℕ, R (n : K)
  add : ∀ x y, R x → R y → R (x + y)
  mul : ∀ x y, R x → R y → R (x * y)
  div : ∀ x y, R x → R y → R (x / y)
  abs : ∀ x, R (ρ.abs x)
  re : ∀ x, R (ρ.re x)
  im : ∀ x, R (ρ.im x)
  re_id : ∀ x, R x → ρ.re x = x
  conj_id : ∀ x, R x → ρ.conj x = x
  pow_int : ∀ x (n : ℤ), R x → R (ρ.fn2 "Power" x (n : K))
  atan2 : ∀ x y, R x → R y → R (ρ.fn2 "Atan2" x y)

/- `RealEnv ρ R e`: the terminals of `e` that the check classifies as real (arguments, geometric
   quantities) take real values, with all their derivatives.  Nothing is assumed about the other
   terminals (coefficients, constants). -/
mutual
def RealEnv (ρ : Env K) (R : K → Prop) : Expr → Prop
  | .term d => realCls d.cls = true →
      (∀ side c, R (ρ.term side d.key c)) ∧ (∀ side c ds, R (ρ.jet side d.key c ds))
  | .op _ _ args => RealEnvL ρ R args
  | _ => True
def RealEnvL (ρ : Env K) (R : K → Prop) : List Expr → Prop
  | [] => True
  | a :: as => RealEnv ρ R a ∧ RealEnvL ρ R as
end

/-- the mathematical functions that map the real line into itself -/
def totalRealFns : List String := ["Exp", "Cos", "Sin", "Tan", "Cosh", "Sinh", "Tanh", "Atan", "Erf"]

def FnReal (ρ : Env K) (R : K → Prop) (names : List String) : Prop :=
  ∀ n ∈ names, ∀ x, R x → R (ρ.fn n x)

/-- a complex literal, possibly under a conjugation: `Real(..)` of it is folded by complex arithmetic -/
def cplxLike : Expr → Bool
  | .cplx .. => true
  | .op .conj _ [.cplx ..] => true
  | _ => false

theorem lit_real (ρ : Env K) (R : K → Prop) (hR : RealStruct ρ R) (n : ℤ) (d : ℕ) : R ((n : K) / (d : K)) :=
  hR.div _ _ (hR.intCast n) (hR.natCast d)

theorem realOf_spec (ρ : Env K) (R : K → Prop) (hR : RealStruct ρ R) (a : Expr) (hc : cplxLike a = false)
    (hr : ∀ side ι c, R (eval ρ side ι a c)) :
    (∀ side ι c, eval ρ side ι (realOf a) c = eval ρ side ι a c) ∧ shape (realOf a) = shape a ∧ fi (realOf a) = fi a := by
  have hplain : (∀ side ι c, eval ρ side ι (.op .real [] [a]) c = eval ρ side ι a c) ∧ shape (.op .real [] [a]) = shape a
      ∧ fi (.op .real [] [a]) = fi a := by
    refine ⟨fun side ι c => ?_, by simp [shape], by simp [fi]⟩
    simp only [eval]; exact hR.re_id _ (hr side ι c)
  cases a with
  | int v =>
    simp only [realOf, mkReal]
    exact ⟨fun side ι c => by rw [C05.mkLit_eval ρ side ι true _ (by simp) c]; simp [eval], by simp [(C05.mkLit_shape _ _).1, shape], by simp [(C05.mkLit_shape _ _).2, fi]⟩
  | real n d =>
    simp only [realOf, mkReal]
    exact ⟨fun side ι c => by rw [C05.mkLit_eval ρ side ι false _ (by simp) c]; simp [eval], by simp [(C05.mkLit_shape _ _).1, shape], by simp [(C05.mkLit_shape _ _).2, fi]⟩
  | cplx a b c d => simp [cplxLike] at hc
  | zero s f => simp [realOf, mkReal]
  | mi is => simpa [realOf, mkReal] using hplain
  | term d => simpa [realOf, mkReal] using hplain
  | op k aux args =>
    by_cases hk : k = .conj
    · subst hk
      match args with
      | [] => simpa [realOf, mkReal] using hplain
      | _ :: _ :: _ => simpa [realOf, mkReal] using hplain
      | [x] =>
        cases x with
        | int v =>
          simp only [realOf, mkReal]
          refine ⟨fun side ι c => ?_, by simp [(C05.mkLit_shape _ _).1, shape], by simp [(C05.mkLit_shape _ _).2, fi]⟩
          rw [C05.mkLit_eval ρ side ι true _ (by simp) c]
          simp only [eval, Rat.cast_intCast]
          exact (hR.conj_id _ (hR.intCast v)).symm
        | real n d =>
          simp only [realOf, mkReal]
          refine ⟨fun side ι c => ?_, by simp [(C05.mkLit_shape _ _).1, shape], by simp [(C05.mkLit_shape _ _).2, fi]⟩
          rw [C05.mkLit_eval ρ side ι false _ (by simp) c]
          simp only [eval]
          rw [hR.conj_id _ (lit_real ρ R hR n d)]
          simp
        | cplx a b c d => simp [cplxLike] at hc
        | zero s f =>
          simp only [realOf, mkReal]
          refine ⟨fun side ι c => ?_, by simp [shape], by simp [fi]⟩
          simp only [eval]
          exact (hR.conj_id _ hR.zero).symm
        | mi is => simpa [realOf, mkReal] using hplain
        | term d => simpa [realOf, mkReal] using hplain
        | op k2 aux2 args2 => simpa [realOf, mkReal] using hplain
    · have : mkReal (.op k aux args) = some (.op .real [] [.op k aux args]) := by
        unfold mkReal
        split <;> simp_all
      simpa [realOf, this] using hplain

/-! ### unfolding the pass -/

theorem reuse_plain (k : Op) (aux : List Nat) (args ops : List Expr) : reuse plainRb k aux args ops = some (.op k aux ops) := by
  unfold reuse plainRb
  split
  · rename_i h; rw [beqL_eq _ _ h]
  · rfl

theorem check_op_some {strict : Bool} {rb : Rb} {k : Op} {aux : List Nat} {args : List Expr} {r : Expr × Ty}
    (h : checkWith strict rb (.op k aux args) = some r) :
    ∃ rs, checkL strict rb args = some rs ∧ checkNode strict rb k aux args rs = some r := by
  simp only [checkWith] at h
  split at h
  · cases h
  · rename_i rs hrs; exact ⟨rs, hrs, h⟩

theorem checkL_cons_some {strict : Bool} {rb : Rb} {a : Expr} {as : List Expr} {rs : List (Expr × Ty)}
    (h : checkL strict rb (a :: as) = some rs) :
    ∃ r rs', checkWith strict rb a = some r ∧ checkL strict rb as = some rs' ∧ rs = r :: rs' := by
  simp only [checkL] at h
  split at h
  · rename_i r rs' h1 h2
    simp only [Option.some.injEq] at h
    exact ⟨r, rs', h1, h2, h.symm⟩
  · cases h

theorem checkL_nil_some {strict : Bool} {rb : Rb} {rs : List (Expr × Ty)} (h : checkL strict rb [] = some rs) : rs = [] := by
  simp only [checkL, Option.some.injEq] at h; exact h.symm

theorem check1 {strict : Bool} {rb : Rb} {k : Op} {aux : List Nat} {a : Expr} {r : Expr × Ty}
    (h : checkWith strict rb (.op k aux [a]) = some r) :
    ∃ ra, checkWith strict rb a = some ra ∧ checkNode strict rb k aux [a] [ra] = some r := by
  obtain ⟨rs, h1, h2⟩ := check_op_some h
  obtain ⟨ra, rs1, ha, h3, rfl⟩ := checkL_cons_some h1
  have := checkL_nil_some h3; subst this
  exact ⟨ra, ha, h2⟩

theorem check2 {strict : Bool} {rb : Rb} {k : Op} {aux : List Nat} {a b : Expr} {r : Expr × Ty}
    (h : checkWith strict rb (.op k aux [a, b]) = some r) :
    ∃ ra rb', checkWith strict rb a = some ra ∧ checkWith strict rb b = some rb' ∧
      checkNode strict rb k aux [a, b] [ra, rb'] = some r := by
  obtain ⟨rs, h1, h2⟩ := check_op_some h
  obtain ⟨ra, rs1, ha, h3, rfl⟩ := checkL_cons_some h1
  obtain ⟨rb', rs2, hb, h4, rfl⟩ := checkL_cons_some h3
  have := checkL_nil_some h4; subst this
  exact ⟨ra, rb', ha, hb, h2⟩

theorem check3 {strict : Bool} {rb : Rb} {k : Op} {aux : List Nat} {a b c : Expr} {r : Expr × Ty}
    (h : checkWith strict rb (.op k aux [a, b, c]) = some r) :
    ∃ ra rb' rc, checkWith strict rb a = some ra ∧ checkWith strict rb b = some rb' ∧ checkWith strict rb c = some rc ∧
      checkNode strict rb k aux [a, b, c] [ra, rb', rc] = some r := by
  obtain ⟨rs, h1, h2⟩ := check_op_some h
  obtain ⟨ra, rs1, ha, h3, rfl⟩ := checkL_cons_some h1
  obtain ⟨rb', rs2, hb, h4, rfl⟩ := checkL_cons_some h3
  obtain ⟨rc, rs3, hc, h5, rfl⟩ := checkL_cons_some h4
  have := checkL_nil_some h5; subst this
  exact ⟨ra, rb', rc, ha, hb, hc, h2⟩

theorem node_expr {strict : Bool} {k : Op} (h : checkHandlerG strict k = .expr) (aux : List Nat) (args : List Expr)
    (rs : List (Expr × Ty)) :
    checkNode strict plainRb k aux args rs = some (.op k aux (rs.map (·.1)), joinTy (rs.map (·.2))) := by
  simp only [checkNode, h, reuse_plain, Option.map]

theorem joinTy_nc {ts : List Ty} (h : joinTy ts ≠ .complex) : ∀ t ∈ ts, t ≠ .complex := by
  intro t ht hc
  subst hc
  apply h
  unfold joinTy
  simp [ht]

theorem intExponent_eval (ρ : Env K) (x : Expr) (h : intExponent x = true) :
    ∃ n : ℤ, ∀ side ι c, eval ρ side ι x c = (n : K) := by
  unfold intExponent at h
  cases x with
  | int v => exact ⟨v, fun _ _ _ => by simp [eval]⟩
  | real n d =>
    simp only [floatLit, beq_iff_eq] at h
    refine ⟨((n : ℚ) / (d : ℚ)).num, fun _ _ _ => ?_⟩
    simp only [eval]
    have : ((((n : ℚ) / (d : ℚ) : ℚ)) : K) = (n : K) / (d : K) := by
      rw [Rat.cast_div]; simp
    rw [← this, Rat.cast_def, h]; simp
  | zero s f => exact ⟨0, fun _ _ _ => by simp [eval]⟩
  | cplx a b c d => simp [floatLit] at h
  | mi is => simp [floatLit] at h
  | term d => simp [floatLit] at h
  | op k aux args => simp [floatLit] at h

/-! ### the invariant -/

def isCmpOp : Op → Bool
  | .lT | .gT | .lE | .gE | .minValue | .maxValue => true
  | _ => false

/- every operand of every ordering comparison / min / max in the expression is real-valued -/
mutual
def CmpReal (ρ : Env K) (R : K → Prop) : Expr → Prop
  | .op k _ args => (isCmpOp k = true → AllRealL ρ R args) ∧ CmpRealL ρ R args
  | _ => True
def CmpRealL (ρ : Env K) (R : K → Prop) : List Expr → Prop
  | [] => True
  | a :: as => CmpReal ρ R a ∧ CmpRealL ρ R as
def AllRealL (ρ : Env K) (R : K → Prop) : List Expr → Prop
  | [] => True
  | a :: as => (∀ side ι c, R (eval ρ side ι a c)) ∧ AllRealL ρ R as
end

/- the side condition under which the code as it stands is sound: no `ln`, `acos`, `asin` node
   (`strict = true`, the repaired typing, needs no side condition) -/
mutual
def SafeFns (strict : Bool) : Expr → Bool
  | .op k _ args => (strict || !(k == .ln || k == .acos || k == .asin)) && SafeFnsL strict args
  | _ => true
def SafeFnsL (strict : Bool) : List Expr → Bool
  | [] => true
  | a :: as => SafeFns strict a && SafeFnsL strict as
end

structure Inv (ρ : Env K) (R : K → Prop) (e e' : Expr) (τ : Ty) : Prop where
  val : ∀ side ι c, eval ρ side ι e' c = eval ρ side ι e c
  sh : shape e' = shape e
  fi : fi e' = fi e
  real : τ ≠ .complex → ∀ side ι c, R (eval ρ side ι e' c)
  lit : τ ≠ .complex → cplxLike e' = false
  cmp : CmpReal ρ R e

structure InvC (ρ : Env K) (R : K → Prop) (p p' : Expr) : Prop where
  val : ∀ side ι, evalB ρ side ι p' = evalB ρ side ι p
  cmp : CmpReal ρ R p

def InvL (ρ : Env K) (R : K → Prop) : List Expr → List (Expr × Ty) → Prop
  | [], [] => True
  | x :: xs, r :: rs => Inv ρ R x r.1 r.2 ∧ InvL ρ R xs rs
  | _, _ => False

theorem invL_len (ρ : Env K) (R : K → Prop) : ∀ (xs : List Expr) (rs : List (Expr × Ty)), InvL ρ R xs rs → rs.length = xs.length
  | [], [], _ => rfl
  | x :: xs, r :: rs, h => by simp [invL_len ρ R xs rs h.2]
  | [], _ :: _, h => by simp [InvL] at h
  | _ :: _, [], h => by simp [InvL] at h

theorem invL_evalNth (ρ : Env K) (R : K → Prop) (side : Side) (ι : IdxEnv) :
    ∀ (xs : List Expr) (rs : List (Expr × Ty)), InvL ρ R xs rs → ∀ n c,
      evalNth ρ side ι (rs.map (·.1)) n c = evalNth ρ side ι xs n c
  | [], [], _, _, _ => rfl
  | x :: xs, r :: rs, h, 0, c => by simp only [List.map, evalNth]; exact h.1.val side ι c
  | x :: xs, r :: rs, h, n + 1, c => by simp only [List.map, evalNth]; exact invL_evalNth ρ R side ι xs rs h.2 n c
  | [], _ :: _, h, _, _ => by simp [InvL] at h
  | _ :: _, [], h, _, _ => by simp [InvL] at h

theorem invL_real (ρ : Env K) (R : K → Prop) (hR : RealStruct ρ R) (side : Side) (ι : IdxEnv) :
    ∀ (xs : List Expr) (rs : List (Expr × Ty)), InvL ρ R xs rs → (∀ t ∈ rs.map (·.2), t ≠ Ty.complex) → ∀ n c,
      R (evalNth ρ side ι (rs.map (·.1)) n c)
  | [], [], _, _, _, _ => by simp only [List.map, evalNth]; exact hR.zero
  | x :: xs, r :: rs, h, ht, 0, c => by
    simp only [List.map, evalNth]; exact h.1.real (ht _ (by simp)) side ι c
  | x :: xs, r :: rs, h, ht, n + 1, c => by
    simp only [List.map, evalNth]
    exact invL_real ρ R hR side ι xs rs h.2 (fun t hm => ht t (by simp only [List.map, List.mem_cons]; exact Or.inr hm)) n c
  | [], _ :: _, h, _, _, _ => by simp [InvL] at h
  | _ :: _, [], h, _, _, _ => by simp [InvL] at h

theorem invL_cmp (ρ : Env K) (R : K → Prop) : ∀ (xs : List Expr) (rs : List (Expr × Ty)), InvL ρ R xs rs → CmpRealL ρ R xs
  | [], [], _ => trivial
  | x :: xs, r :: rs, h => ⟨h.1.cmp, invL_cmp ρ R xs rs h.2⟩
  | [], _ :: _, h => by simp [InvL] at h
  | _ :: _, [], h => by simp [InvL] at h

theorem joinTy_single (t : Ty) (h : t ≠ .bool) : joinTy [t] = t := by
  cases t <;> simp_all [joinTy]

theorem chain_check (strict : Bool) : ∀ (a : Expr) (p : TermData × Nat), gradChain a = some p →
    checkWith strict plainRb a = some (a, termTy (.term p.1)) := by
  intro a
  fun_induction gradChain a with
  | case1 d => intro p hp; simp only [Option.some.injEq] at hp; subst hp; simp [checkWith]
  | case2 aux a d k hk ih =>
    intro p hp
    simp only [Option.some.injEq] at hp; subst hp
    have := ih _ hk
    simp only [checkWith, checkL, this]
    rw [node_expr (by simp [checkHandlerG])]
    simp only [List.map, Option.some.injEq, Prod.mk.injEq, true_and]
    apply joinTy_single
    simp only [termTy]; split <;> simp
  | case3 aux a hk ih => intro p h; simp at h
  | case4 e h1 h2 => intro p h; simp at h

/-! facts about the unary mathematical functions, by enumeration of the operator type -/

theorem fn_eval (ρ : Env K) (fnk : Op) (aux : List Nat) (n : String) (hn : mathName fnk = some n) (x : Expr) (side : Side)
    (ι : IdxEnv) (c : List Nat) : eval ρ side ι (.op fnk aux [x]) c = ρ.fn n (eval ρ side ι x c) := by
  cases fnk <;> simp [mathName] at hn <;> subst hn <;> simp [eval, mathName]

theorem fn_shape (fnk : Op) (aux : List Nat) (n : String) (hn : mathName fnk = some n) (x : Expr) :
    shape (.op fnk aux [x]) = [] ∧ Expr.fi (.op fnk aux [x]) = Expr.fi x ∧ cplxLike (.op fnk aux [x]) = false
      ∧ isCmpOp fnk = false ∧ WF (.op fnk aux [x]) = (WF x && trueScalar x) := by
  cases fnk <;> simp [mathName] at hn <;> simp [shape, Expr.fi, cplxLike, isCmpOp, WF, mathName]

theorem fn_handler (strict : Bool) (fnk : Op) (n : String) (hn : mathName fnk = some n)
    (hs : (strict || !(fnk == .ln || fnk == .acos || fnk == .asin)) = true) :
    checkHandlerG strict fnk = .sqrt ∨ (checkHandlerG strict fnk = .expr ∧ n ∈ totalRealFns) := by
  cases fnk <;> simp [mathName] at hn <;> subst hn <;> cases strict <;> simp_all [checkHandlerG, totalRealFns]

def M1 (strict : Bool) (ρ : Env K) (R : K → Prop) (e : Expr) : Prop :=
  WF e = true → SafeFns strict e = true → RealEnv ρ R e → ∀ e' τ, checkWith strict plainRb e = some (e', τ) → Inv ρ R e e' τ
def M2 (strict : Bool) (ρ : Env K) (R : K → Prop) (p : Expr) : Prop :=
  WFC p = true → SafeFns strict p = true → RealEnv ρ R p → ∀ p' τ, checkWith strict plainRb p = some (p', τ) → InvC ρ R p p'
def M3 (strict : Bool) (ρ : Env K) (R : K → Prop) (xs : List Expr) : Prop :=
  WFL xs = true → SafeFnsL strict xs = true → RealEnvL ρ R xs → ∀ rs, checkL strict plainRb xs = some rs → InvL ρ R xs rs

theorem sound_aux (strict : Bool) (ρ : Env K) (R : K → Prop) (hR : RealStruct ρ R)
    (hF : FnReal ρ R totalRealFns) :
    (∀ e, M1 strict ρ R e) ∧ (∀ p, M2 strict ρ R p) ∧ (∀ xs, M3 strict ρ R xs) := by
  apply WF.mutual_induct (motive_1 := M1 strict ρ R) (motive_2 := M2 strict ρ R) (motive_3 := M3 strict ρ R)
  · intro v _ _ _ e' τ h
    simp only [checkWith, Option.some.injEq, Prod.mk.injEq] at h
    obtain ⟨rfl, rfl⟩ := h
    exact ⟨fun _ _ _ => rfl, rfl, rfl, fun _ side ι c => by simp only [eval]; exact hR.intCast v, fun _ => by simp [cplxLike], trivial⟩
  · intro n d _ _ _ e' τ h
    simp only [checkWith, Option.some.injEq, Prod.mk.injEq] at h
    obtain ⟨rfl, rfl⟩ := h
    exact ⟨fun _ _ _ => rfl, rfl, rfl, fun _ side ι c => by simp only [eval]; exact lit_real ρ R hR n d, fun _ => by simp [cplxLike], trivial⟩
  · intro a b c d _ _ _ e' τ h
    simp only [checkWith, Option.some.injEq, Prod.mk.injEq] at h
    obtain ⟨rfl, rfl⟩ := h
    exact ⟨fun _ _ _ => rfl, rfl, rfl, fun h => absurd rfl h, fun h => absurd rfl h, trivial⟩
  · intro d _ _ ht e' τ h
    simp only [checkWith, Option.some.injEq, Prod.mk.injEq] at h
    obtain ⟨rfl, rfl⟩ := h
    refine ⟨fun _ _ _ => rfl, rfl, rfl, ?_, fun _ => by simp [cplxLike], trivial⟩
    intro hτ side ι c
    have hc : realCls d.cls = true := by
      simp only [termTy] at hτ
      by_contra hn
      simp [hn] at hτ
    simp only [eval]
    split
    · split <;> (try split) <;> first | exact hR.one | exact hR.zero
    · split
      · exact hR.zero
      · exact (ht hc).1 side c
  · intro sh f _ _ _ e' τ h
    simp only [checkWith, Option.some.injEq, Prod.mk.injEq] at h
    obtain ⟨rfl, rfl⟩ := h
    exact ⟨fun _ _ _ => rfl, rfl, rfl, fun _ side ι c => by simp only [eval]; exact hR.zero, fun _ => by simp [cplxLike], trivial⟩
  · intro is hw; simp [WF] at hw
  · intro aux a b iha ihb hw hs ht e' τ h
    simp only [WF, Bool.and_eq_true, beq_iff_eq, List.isEmpty_iff, trueScalar] at hw
    simp [SafeFns, SafeFnsL] at hs
    simp only [RealEnv, RealEnvL, and_true] at ht
    obtain ⟨ra, rb, ha, hb, hn⟩ := check2 h
    rw [node_expr (by simp [checkHandlerG])] at hn
    simp only [Option.some.injEq, Prod.mk.injEq, List.map] at hn
    obtain ⟨rfl, rfl⟩ := hn
    have Ia := iha (by simp [hw]) hs.1 ht.1 ra.1 ra.2 ha
    have Ib := ihb (by simp [hw]) hs.2 ht.2 rb.1 rb.2 hb
    exact {
      val := by intro side ι c; simp only [eval, Ia.val, Ib.val]
      sh := by simp only [shape, Ia.sh]
      fi := by simp only [Expr.fi, Ia.fi, Ib.fi]
      real := by
        intro hτ side ι c
        have hnc := joinTy_nc hτ
        simp only [eval]
        exact hR.add _ _ (Ia.real (hnc _ (by simp)) _ _ _) (Ib.real (hnc _ (by simp)) _ _ _)
      lit := by intro _; simp [cplxLike]
      cmp := by simp only [CmpReal, CmpRealL, isCmpOp]; exact ⟨by simp, Ia.cmp, Ib.cmp, trivial⟩ }
  · intro aux a b iha ihb hw hs ht e' τ h
    simp only [WF, Bool.and_eq_true, beq_iff_eq, List.isEmpty_iff, trueScalar] at hw
    simp [SafeFns, SafeFnsL] at hs
    simp only [RealEnv, RealEnvL, and_true] at ht
    obtain ⟨ra, rb, ha, hb, hn⟩ := check2 h
    rw [node_expr (by simp [checkHandlerG])] at hn
    simp only [Option.some.injEq, Prod.mk.injEq, List.map] at hn
    obtain ⟨rfl, rfl⟩ := hn
    have Ia := iha (by simp [hw]) hs.1 ht.1 ra.1 ra.2 ha
    have Ib := ihb (by simp [hw]) hs.2 ht.2 rb.1 rb.2 hb
    exact {
      val := by intro side ι c; simp only [eval, Ia.val, Ib.val]
      sh := by simp only [shape, Ia.sh]
      fi := by simp only [Expr.fi, Ia.fi, Ib.fi]
      real := by
        intro hτ side ι c
        have hnc := joinTy_nc hτ
        simp only [eval]
        exact hR.mul _ _ (Ia.real (hnc _ (by simp)) _ _ _) (Ib.real (hnc _ (by simp)) _ _ _)
      lit := by intro _; simp [cplxLike]
      cmp := by simp only [CmpReal, CmpRealL, isCmpOp]; exact ⟨by simp, Ia.cmp, Ib.cmp, trivial⟩ }
  · intro aux a b iha ihb hw hs ht e' τ h
    simp only [WF, Bool.and_eq_true, beq_iff_eq, List.isEmpty_iff, trueScalar] at hw
    simp [SafeFns, SafeFnsL] at hs
    simp only [RealEnv, RealEnvL, and_true] at ht
    obtain ⟨ra, rb, ha, hb, hn⟩ := check2 h
    rw [node_expr (by simp [checkHandlerG])] at hn
    simp only [Option.some.injEq, Prod.mk.injEq, List.map] at hn
    obtain ⟨rfl, rfl⟩ := hn
    have Ia := iha (by simp [hw]) hs.1 ht.1 ra.1 ra.2 ha
    have Ib := ihb (by simp [hw]) hs.2 ht.2 rb.1 rb.2 hb
    exact {
      val := by intro side ι c; simp only [eval, Ia.val, Ib.val]
      sh := by simp only [shape, Ia.sh]
      fi := by simp only [Expr.fi, Ia.fi, Ib.fi]
      real := by
        intro hτ side ι c
        have hnc := joinTy_nc hτ
        simp only [eval]
        exact hR.div _ _ (Ia.real (hnc _ (by simp)) _ _ _) (Ib.real (hnc _ (by simp)) _ _ _)
      lit := by intro _; simp [cplxLike]
      cmp := by simp only [CmpReal, CmpRealL, isCmpOp]; exact ⟨by simp, Ia.cmp, Ib.cmp, trivial⟩ }
  · intro aux a b iha ihb hw hs ht e' τ h
    simp only [WF, Bool.and_eq_true, beq_iff_eq, List.isEmpty_iff, trueScalar] at hw
    simp [SafeFns, SafeFnsL] at hs
    simp only [RealEnv, RealEnvL, and_true] at ht
    obtain ⟨ra, rb, ha, hb, hn⟩ := check2 h
    simp only [checkNode, checkHandlerG, reuse_plain, Option.map, Option.some.injEq, Prod.mk.injEq, List.map] at hn
    obtain ⟨rfl, rfl⟩ := hn
    have Ia := iha (by simp [hw]) hs.1 ht.1 ra.1 ra.2 ha
    have Ib := ihb (by simp [hw]) hs.2 ht.2 rb.1 rb.2 hb
    exact {
      val := by intro side ι c; simp only [eval, Ia.val, Ib.val]
      sh := by simp only [shape]
      fi := by simp only [Expr.fi, Ia.fi]
      real := by
        intro hτ side ι c
        simp only [eval]
        have hh : ra.2 = .real ∧ intExponent rb.1 = true := by
          by_contra hn
          apply hτ
          rw [if_neg]
          simpa [not_and] using hn
        obtain ⟨n, hn⟩ := intExponent_eval ρ rb.1 hh.2
        rw [hn]
        exact hR.pow_int _ n (Ia.real (by rw [hh.1]; decide) _ _ _)
      lit := by intro _; simp [cplxLike]
      cmp := by simp only [CmpReal, CmpRealL, isCmpOp]; exact ⟨by simp, Ia.cmp, Ib.cmp, trivial⟩ }
  · intro aux a iha hw hs ht e' τ h
    simp only [WF] at hw
    simp [SafeFns, SafeFnsL] at hs
    simp only [RealEnv, RealEnvL, and_true] at ht
    obtain ⟨ra, ha, hn⟩ := check1 h
    simp only [checkNode, checkHandlerG, reuse_plain, Option.map, Option.some.injEq, Prod.mk.injEq, List.map] at hn
    obtain ⟨rfl, rfl⟩ := hn
    have Ia := iha hw hs ht ra.1 ra.2 ha
    exact {
      val := by intro side ι c; simp only [eval, Ia.val]
      sh := by simp only [shape, Ia.sh]
      fi := by simp only [Expr.fi, Ia.fi]
      real := by
        intro hτ side ι c
        simp only [eval]
        exact hR.abs _
      lit := by intro _; simp [cplxLike]
      cmp := by simp only [CmpReal, CmpRealL, isCmpOp]; exact ⟨by simp, Ia.cmp, trivial⟩ }
  · intro aux a iha hw hs ht e' τ h
    simp only [WF] at hw
    simp [SafeFns, SafeFnsL] at hs
    simp only [RealEnv, RealEnvL, and_true] at ht
    obtain ⟨ra, ha, hn⟩ := check1 h
    rw [node_expr (by simp [checkHandlerG])] at hn
    simp only [Option.some.injEq, Prod.mk.injEq, List.map] at hn
    obtain ⟨rfl, rfl⟩ := hn
    have Ia := iha hw hs ht ra.1 ra.2 ha
    exact {
      val := by intro side ι c; simp only [eval, Ia.val]
      sh := by simp only [shape, Ia.sh]
      fi := by simp only [Expr.fi, Ia.fi]
      real := by
        intro hτ side ι c
        simp only [eval]
        have hnc := joinTy_nc hτ
        have hr := Ia.real (hnc _ (by simp)) side ι c
        rw [hR.conj_id _ hr]; exact hr
      lit := by
        intro hτ
        have hnc := joinTy_nc hτ
        have := Ia.lit (hnc _ (by simp))
        revert this
        cases ra.1 <;> simp [cplxLike]
      cmp := by simp only [CmpReal, CmpRealL, isCmpOp]; exact ⟨by simp, Ia.cmp, trivial⟩ }
  · intro aux a iha hw hs ht e' τ h
    simp only [WF] at hw
    simp [SafeFns, SafeFnsL] at hs
    simp only [RealEnv, RealEnvL, and_true] at ht
    obtain ⟨ra, ha, hn⟩ := check1 h
    simp only [checkNode, checkHandlerG, reuse_plain, Option.map, Option.some.injEq, Prod.mk.injEq, List.map] at hn
    obtain ⟨rfl, rfl⟩ := hn
    have Ia := iha hw hs ht ra.1 ra.2 ha
    exact {
      val := by intro side ι c; simp only [eval, Ia.val]
      sh := by simp only [shape, Ia.sh]
      fi := by simp only [Expr.fi, Ia.fi]
      real := by
        intro hτ side ι c
        simp only [eval]
        exact hR.re _
      lit := by intro _; simp [cplxLike]
      cmp := by simp only [CmpReal, CmpRealL, isCmpOp]; exact ⟨by simp, Ia.cmp, trivial⟩ }
  · intro aux a iha hw hs ht e' τ h
    simp only [WF] at hw
    simp [SafeFns, SafeFnsL] at hs
    simp only [RealEnv, RealEnvL, and_true] at ht
    obtain ⟨ra, ha, hn⟩ := check1 h
    simp only [checkNode, checkHandlerG, reuse_plain, Option.map, Option.some.injEq, Prod.mk.injEq, List.map] at hn
    obtain ⟨rfl, rfl⟩ := hn
    have Ia := iha hw hs ht ra.1 ra.2 ha
    exact {
      val := by intro side ι c; simp only [eval, Ia.val]
      sh := by simp only [shape, Ia.sh]
      fi := by simp only [Expr.fi, Ia.fi]
      real := by
        intro hτ side ι c
        simp only [eval]
        exact hR.im _
      lit := by intro _; simp [cplxLike]
      cmp := by simp only [CmpReal, CmpRealL, isCmpOp]; exact ⟨by simp, Ia.cmp, trivial⟩ }
  -- indexed
  · intro aux a is iha hw hs ht e' τ h
    simp only [WF, Bool.and_eq_true, beq_iff_eq] at hw
    simp [SafeFns, SafeFnsL] at hs
    simp only [RealEnv, RealEnvL, and_true] at ht
    obtain ⟨ra, rb, ha, hb, hn⟩ := check2 h
    simp only [checkWith, Option.some.injEq] at hb
    subst hb
    simp only [checkNode, checkHandlerG, reuse_plain, Option.map, Option.some.injEq, Prod.mk.injEq, List.map] at hn
    obtain ⟨rfl, rfl⟩ := hn
    have Ia := iha hw.1.1.1 hs ht ra.1 ra.2 ha
    exact {
      val := by intro side ι c; simp only [eval, Ia.val]
      sh := by simp only [shape]
      fi := by simp only [Expr.fi, Ia.fi, Ia.sh]
      real := by intro hτ side ι c; simp only [eval]; exact Ia.real hτ _ _ _
      lit := by intro _; simp [cplxLike]
      cmp := by simp only [CmpReal, CmpRealL, isCmpOp]; exact ⟨by simp, Ia.cmp, trivial, trivial⟩ }
  -- index sum
  · intro aux a j iha hw hs ht e' τ h
    simp only [WF, Bool.and_eq_true] at hw
    simp [SafeFns, SafeFnsL] at hs
    simp only [RealEnv, RealEnvL, and_true] at ht
    obtain ⟨ra, rb, ha, hb, hn⟩ := check2 h
    simp only [checkWith, Option.some.injEq] at hb
    subst hb
    rw [node_expr (by simp [checkHandlerG])] at hn
    simp only [Option.some.injEq, Prod.mk.injEq, List.map] at hn
    obtain ⟨rfl, rfl⟩ := hn
    have Ia := iha hw.1 hs ht ra.1 ra.2 ha
    have hcx : joinTy [ra.2, Ty.complex] = .complex := by simp [joinTy]
    exact {
      val := by intro side ι c; simp only [eval, Ia.val, Ia.fi]
      sh := by simp only [shape, Ia.sh]
      fi := by simp only [Expr.fi, Ia.fi]
      real := by intro hτ; exact absurd hcx hτ
      lit := by intro _; simp [cplxLike]
      cmp := by simp only [CmpReal, CmpRealL, isCmpOp]; exact ⟨by simp, Ia.cmp, trivial, trivial⟩ }
  -- component tensor
  · intro aux a is iha hw hs ht e' τ h
    simp only [WF, Bool.and_eq_true] at hw
    simp [SafeFns, SafeFnsL] at hs
    simp only [RealEnv, RealEnvL, and_true] at ht
    obtain ⟨ra, rb, ha, hb, hn⟩ := check2 h
    simp only [checkWith, Option.some.injEq] at hb
    subst hb
    rw [node_expr (by simp [checkHandlerG])] at hn
    simp only [Option.some.injEq, Prod.mk.injEq, List.map] at hn
    obtain ⟨rfl, rfl⟩ := hn
    have Ia := iha hw.1.1 hs ht ra.1 ra.2 ha
    have hcx : joinTy [ra.2, Ty.complex] = .complex := by simp [joinTy]
    exact {
      val := by intro side ι c; simp only [eval, Ia.val]
      sh := by simp only [shape, Ia.fi]
      fi := by simp only [Expr.fi, Ia.fi]
      real := by intro hτ; exact absurd hcx hτ
      lit := by intro _; simp [cplxLike]
      cmp := by simp only [CmpReal, CmpRealL, isCmpOp]; exact ⟨by simp, Ia.cmp, trivial, trivial⟩ }
  -- list tensor
  · intro aux a as iha ihas hw hs ht e' τ h
    simp only [WF, Bool.and_eq_true] at hw
    simp [SafeFns, SafeFnsL] at hs
    simp only [RealEnv, RealEnvL, and_true] at ht
    obtain ⟨rs, h1, hn⟩ := check_op_some h
    obtain ⟨ra, rs', ha, h3, rfl⟩ := checkL_cons_some h1
    rw [node_expr (by simp [checkHandlerG])] at hn
    simp only [Option.some.injEq, Prod.mk.injEq, List.map] at hn
    obtain ⟨rfl, rfl⟩ := hn
    have Ia := iha hw.1.1 hs.1 ht.1 ra.1 ra.2 ha
    have Il := ihas hw.1.2 hs.2 ht.2 rs' h3
    have IL : InvL ρ R (a :: as) (ra :: rs') := ⟨Ia, Il⟩
    have hlen := invL_len ρ R as rs' Il
    exact {
      val := by
        intro side ι c
        simp only [eval]
        cases c with
        | nil => rfl
        | cons v c' => exact invL_evalNth ρ R side ι (a :: as) (ra :: rs') IL v c'
      sh := by simp only [shape, Ia.sh, List.length_map, hlen]
      fi := by simp only [Expr.fi, Ia.fi]
      real := by
        intro hτ side ι c
        have hnc := joinTy_nc hτ
        simp only [eval]
        cases c with
        | nil => exact hR.zero
        | cons v c' => exact invL_real ρ R hR side ι (a :: as) (ra :: rs') IL hnc v c'
      lit := by intro _; simp [cplxLike]
      cmp := by simp only [CmpReal, CmpRealL, isCmpOp]; exact ⟨by simp, Ia.cmp, invL_cmp ρ R as rs' Il⟩ }
  -- conditional
  · intro aux c t f ihc iht ihf hw hs ht e' τ h
    simp only [WF, Bool.and_eq_true, beq_iff_eq] at hw
    simp [SafeFns, SafeFnsL] at hs
    simp only [RealEnv, RealEnvL, and_true] at ht
    obtain ⟨rc, rt, rf, hc, hct, hf, hn⟩ := check3 h
    rw [node_expr (by simp [checkHandlerG])] at hn
    simp only [Option.some.injEq, Prod.mk.injEq, List.map] at hn
    obtain ⟨rfl, rfl⟩ := hn
    have Ic := ihc hw.1.1.1.1 hs.1 ht.1 rc.1 rc.2 hc
    have It := iht hw.1.1.1.2 hs.2.1 ht.2.1 rt.1 rt.2 hct
    have If := ihf hw.1.1.2 hs.2.2 ht.2.2 rf.1 rf.2 hf
    exact {
      val := by intro side ι c; simp only [eval, Ic.val, It.val, If.val]
      sh := by simp only [shape, It.sh]
      fi := by simp only [Expr.fi, It.fi]
      real := by
        intro hτ side ι c
        have hnc := joinTy_nc hτ
        simp only [eval]
        split
        · exact It.real (hnc _ (by simp)) _ _ _
        · exact If.real (hnc _ (by simp)) _ _ _
      lit := by intro _; simp [cplxLike]
      cmp := by simp only [CmpReal, CmpRealL, isCmpOp]; exact ⟨by simp, Ic.cmp, It.cmp, If.cmp, trivial⟩ }
  -- min / max
  · intro aux a b iha ihb hw hs ht e' τ h
    simp only [WF, Bool.and_eq_true, beq_iff_eq, List.isEmpty_iff, trueScalar] at hw
    simp [SafeFns, SafeFnsL] at hs
    simp only [RealEnv, RealEnvL, and_true] at ht
    obtain ⟨ra, rb, ha, hb, hn⟩ := check2 h
    simp only [checkNode, checkHandlerG, plainRb, Option.map, List.map] at hn
    split at hn
    · cases hn
    · rename_i hcx
      simp only [Option.some.injEq, Prod.mk.injEq] at hn
      obtain ⟨rfl, rfl⟩ := hn
      have hta : ra.2 ≠ .complex := by intro hh; apply hcx; simp [hh]
      have htb : rb.2 ≠ .complex := by intro hh; apply hcx; simp [hh]
      have Ia := iha (by simp [hw]) hs.1 ht.1 ra.1 ra.2 ha
      have Ib := ihb (by simp [hw]) hs.2 ht.2 rb.1 rb.2 hb
      have Sa := realOf_spec ρ R hR ra.1 (Ia.lit hta) (Ia.real hta)
      have Sb := realOf_spec ρ R hR rb.1 (Ib.lit htb) (Ib.real htb)
      exact {
        val := by intro side ι c; simp only [eval, Sa.1, Sb.1, Ia.val, Ib.val]
        sh := by simp only [shape]
        fi := by simp only [Expr.fi, Sa.2.2, Ia.fi]
        real := by
          intro _ side ι c
          simp only [eval, Sa.1, Sb.1]
          split
          · exact Ia.real hta _ _ _
          · exact Ib.real htb _ _ _
        lit := by intro _; simp [cplxLike]
        cmp := by
          simp only [CmpReal, CmpRealL, AllRealL, isCmpOp]
          exact ⟨fun _ => ⟨fun side ι c => by rw [← Ia.val]; exact Ia.real hta _ _ _,
                           fun side ι c => by rw [← Ib.val]; exact Ib.real htb _ _ _, trivial⟩, Ia.cmp, Ib.cmp, trivial⟩ }
  -- min / max
  · intro aux a b iha ihb hw hs ht e' τ h
    simp only [WF, Bool.and_eq_true, beq_iff_eq, List.isEmpty_iff, trueScalar] at hw
    simp [SafeFns, SafeFnsL] at hs
    simp only [RealEnv, RealEnvL, and_true] at ht
    obtain ⟨ra, rb, ha, hb, hn⟩ := check2 h
    simp only [checkNode, checkHandlerG, plainRb, Option.map, List.map] at hn
    split at hn
    · cases hn
    · rename_i hcx
      simp only [Option.some.injEq, Prod.mk.injEq] at hn
      obtain ⟨rfl, rfl⟩ := hn
      have hta : ra.2 ≠ .complex := by intro hh; apply hcx; simp [hh]
      have htb : rb.2 ≠ .complex := by intro hh; apply hcx; simp [hh]
      have Ia := iha (by simp [hw]) hs.1 ht.1 ra.1 ra.2 ha
      have Ib := ihb (by simp [hw]) hs.2 ht.2 rb.1 rb.2 hb
      have Sa := realOf_spec ρ R hR ra.1 (Ia.lit hta) (Ia.real hta)
      have Sb := realOf_spec ρ R hR rb.1 (Ib.lit htb) (Ib.real htb)
      exact {
        val := by intro side ι c; simp only [eval, Sa.1, Sb.1, Ia.val, Ib.val]
        sh := by simp only [shape]
        fi := by simp only [Expr.fi, Sa.2.2, Ia.fi]
        real := by
          intro _ side ι c
          simp only [eval, Sa.1, Sb.1]
          split
          · exact Ia.real hta _ _ _
          · exact Ib.real htb _ _ _
        lit := by intro _; simp [cplxLike]
        cmp := by
          simp only [CmpReal, CmpRealL, AllRealL, isCmpOp]
          exact ⟨fun _ => ⟨fun side ι c => by rw [← Ia.val]; exact Ia.real hta _ _ _,
                           fun side ι c => by rw [← Ib.val]; exact Ib.real htb _ _ _, trivial⟩, Ia.cmp, Ib.cmp, trivial⟩ }
  -- atan2
  · intro aux a b iha ihb hw hs ht e' τ h
    simp only [WF, Bool.and_eq_true, beq_iff_eq, List.isEmpty_iff, trueScalar] at hw
    simp [SafeFns, SafeFnsL] at hs
    simp only [RealEnv, RealEnvL, and_true] at ht
    obtain ⟨ra, rb, ha, hb, hn⟩ := check2 h
    rw [node_expr (by simp [checkHandlerG])] at hn
    simp only [Option.some.injEq, Prod.mk.injEq, List.map] at hn
    obtain ⟨rfl, rfl⟩ := hn
    have Ia := iha (by simp [hw]) hs.1 ht.1 ra.1 ra.2 ha
    have Ib := ihb (by simp [hw]) hs.2 ht.2 rb.1 rb.2 hb
    exact {
      val := by intro side ι c; simp only [eval, Ia.val, Ib.val]
      sh := by simp only [shape]
      fi := by simp only [Expr.fi, Ia.fi]
      real := by
        intro hτ side ι c
        have hnc := joinTy_nc hτ
        simp only [eval]
        exact hR.atan2 _ _ (Ia.real (hnc _ (by simp)) _ _ _) (Ib.real (hnc _ (by simp)) _ _ _)
      lit := by intro _; simp [cplxLike]
      cmp := by simp only [CmpReal, CmpRealL, isCmpOp]; exact ⟨by simp, Ia.cmp, Ib.cmp, trivial⟩ }
  -- variable
  · intro aux a d iha hw hs ht e' τ h
    simp only [WF] at hw
    simp [SafeFns, SafeFnsL] at hs
    simp only [RealEnv, RealEnvL, and_true] at ht
    obtain ⟨ra, rb, ha, hb, hn⟩ := check2 h
    simp only [checkWith, Option.some.injEq] at hb
    subst hb
    rw [node_expr (by simp [checkHandlerG])] at hn
    simp only [Option.some.injEq, Prod.mk.injEq, List.map] at hn
    obtain ⟨rfl, rfl⟩ := hn
    have Ia := iha hw hs ht.1 ra.1 ra.2 ha
    exact {
      val := by intro side ι c; simp only [eval, Ia.val]
      sh := by simp only [shape, Ia.sh]
      fi := by simp only [Expr.fi, Ia.fi]
      real := by
        intro hτ side ι c
        have hnc := joinTy_nc hτ
        simp only [eval]
        exact Ia.real (hnc _ (by simp)) _ _ _
      lit := by intro _; simp [cplxLike]
      cmp := by simp only [CmpReal, CmpRealL, isCmpOp]; exact ⟨by simp, Ia.cmp, trivial, trivial⟩ }
  -- restriction
  · intro aux a iha hw hs ht e' τ h
    simp only [WF] at hw
    simp [SafeFns, SafeFnsL] at hs
    simp only [RealEnv, RealEnvL, and_true] at ht
    obtain ⟨ra, ha, hn⟩ := check1 h
    rw [node_expr (by simp [checkHandlerG])] at hn
    simp only [Option.some.injEq, Prod.mk.injEq, List.map] at hn
    obtain ⟨rfl, rfl⟩ := hn
    have Ia := iha hw hs ht ra.1 ra.2 ha
    exact {
      val := by intro side ι c; simp only [eval, Ia.val]
      sh := by simp only [shape, Ia.sh]
      fi := by simp only [Expr.fi, Ia.fi]
      real := by
        intro hτ side ι c
        have hnc := joinTy_nc hτ
        simp only [eval]
        exact Ia.real (hnc _ (by simp)) _ _ _
      lit := by intro _; simp [cplxLike]
      cmp := by simp only [CmpReal, CmpRealL, isCmpOp]; exact ⟨by simp, Ia.cmp, trivial⟩ }
  -- restriction
  · intro aux a iha hw hs ht e' τ h
    simp only [WF] at hw
    simp [SafeFns, SafeFnsL] at hs
    simp only [RealEnv, RealEnvL, and_true] at ht
    obtain ⟨ra, ha, hn⟩ := check1 h
    rw [node_expr (by simp [checkHandlerG])] at hn
    simp only [Option.some.injEq, Prod.mk.injEq, List.map] at hn
    obtain ⟨rfl, rfl⟩ := hn
    have Ia := iha hw hs ht ra.1 ra.2 ha
    exact {
      val := by intro side ι c; simp only [eval, Ia.val]
      sh := by simp only [shape, Ia.sh]
      fi := by simp only [Expr.fi, Ia.fi]
      real := by
        intro hτ side ι c
        have hnc := joinTy_nc hτ
        simp only [eval]
        exact Ia.real (hnc _ (by simp)) _ _ _
      lit := by intro _; simp [cplxLike]
      cmp := by simp only [CmpReal, CmpRealL, isCmpOp]; exact ⟨by simp, Ia.cmp, trivial⟩ }
  -- grad of a terminal chain: untouched
  · intro aux a hw hs ht e' τ h
    simp only [WF, Option.isSome_iff_exists] at hw
    simp only [RealEnv, RealEnvL, and_true] at ht
    obtain ⟨p, hp⟩ := hw
    have hjet : ∀ (a : Expr) (p : TermData × Nat), gradChain a = some p → RealEnv ρ R a → realCls p.1.cls = true →
        ∀ side c ds, R (ρ.jet side p.1.key c ds) := by
      intro a
      fun_induction gradChain a with
      | case1 d => intro p hp ht hc; simp only [Option.some.injEq] at hp; subst hp; exact (ht hc).2
      | case2 aux a d k hk ih =>
        intro p hp ht hc
        simp only [Option.some.injEq] at hp; subst hp
        simp only [RealEnv, RealEnvL, and_true] at ht
        exact ih (d, k) hk ht hc
      | case3 aux a hk ih => intro p h; simp at h
      | case4 e h1 h2 => intro p h; simp at h
    have hca := chain_check strict a p hp
    obtain ⟨ra, ha, hn⟩ := check1 h
    rw [hca] at ha
    simp only [Option.some.injEq] at ha
    subst ha
    rw [node_expr (by simp [checkHandlerG])] at hn
    simp only [Option.some.injEq, Prod.mk.injEq, List.map] at hn
    obtain ⟨rfl, rfl⟩ := hn
    have hcmp : ∀ (a : Expr) (p : TermData × Nat), gradChain a = some p → CmpReal ρ R a := by
      intro a
      fun_induction gradChain a with
      | case1 d => intro p _; trivial
      | case2 aux a d k hk ih => intro p _; simp only [CmpReal, CmpRealL, isCmpOp]; exact ⟨by simp, ih _ hk, trivial⟩
      | case3 aux a hk ih => intro p h; simp at h
      | case4 e h1 h2 => intro p h; simp at h
    exact {
      val := fun _ _ _ => rfl
      sh := rfl
      fi := rfl
      real := by
        intro hτ side ι c
        have hnc := joinTy_nc hτ
        have hty : termTy (.term p.1) ≠ .complex := hnc _ (by simp)
        have hc : realCls p.1.cls = true := by
          simp only [termTy] at hty
          by_contra hn
          simp [hn] at hty
        simp only [eval, hp]
        exact hjet a p hp ht hc side _ _
      lit := by intro _; simp [cplxLike]
      cmp := by simp only [CmpReal, CmpRealL, isCmpOp]; exact ⟨by simp, hcmp a p hp, trivial⟩ }
  -- math functions
  · intro aux fnk a h1 h2 h3 h4 h5 h6 h7 h8 iha hw hs ht e' τ h
    obtain ⟨n, hn'⟩ : ∃ n, mathName fnk = some n := by
      cases hm : mathName fnk with
      | some n => exact ⟨n, rfl⟩
      | none =>
        exfalso
        unfold WF at hw
        split at hw <;> simp_all
    have hev := fn_eval ρ fnk aux n hn'
    have hsh := fn_shape fnk aux n hn'
    have hwf : WF a = true ∧ trueScalar a = true := by
      rw [(hsh a).2.2.2.2] at hw; simpa using hw
    simp only [SafeFns, SafeFnsL, Bool.and_true, Bool.and_eq_true] at hs
    simp only [RealEnv, RealEnvL, and_true] at ht
    have hh := fn_handler strict fnk n hn' hs.1
    obtain ⟨ra, ha, hn⟩ := check1 h
    have Ia := iha hwf.1 hs.2 ht ra.1 ra.2 ha
    have hcmp : CmpReal ρ R (.op fnk aux [a]) := by
      simp only [CmpReal, CmpRealL, (hsh a).2.2.2.1]; exact ⟨by simp, Ia.cmp, trivial⟩
    rcases hh with hq | ⟨hx, hmem⟩
    · simp only [checkNode, hq, reuse_plain, Option.map, Option.some.injEq, Prod.mk.injEq, List.map] at hn
      obtain ⟨rfl, rfl⟩ := hn
      exact {
        val := by intro side ι c; rw [hev, hev, Ia.val]
        sh := by rw [(hsh _).1, (hsh _).1]
        fi := by rw [(hsh _).2.1, (hsh _).2.1, Ia.fi]
        real := fun hτ => absurd rfl hτ
        lit := fun _ => (hsh _).2.2.1
        cmp := hcmp }
    · rw [node_expr hx] at hn
      simp only [Option.some.injEq, Prod.mk.injEq, List.map] at hn
      obtain ⟨rfl, rfl⟩ := hn
      exact {
        val := by intro side ι c; rw [hev, hev, Ia.val]
        sh := by rw [(hsh _).1, (hsh _).1]
        fi := by rw [(hsh _).2.1, (hsh _).2.1, Ia.fi]
        real := by
          intro hτ side ι c
          have hnc := joinTy_nc hτ
          rw [hev]
          exact hF n hmem _ (Ia.real (hnc _ (by simp)) _ _ _)
        lit := fun _ => (hsh _).2.2.1
        cmp := hcmp }
  -- anything else is outside the verified fragment
  · intro k aux args
    intros
    intro hw
    unfold WF at hw
    split at hw <;> simp_all
  -- == / !=
  · intro aux a b iha ihb hw hs ht p' τ h
    simp only [WFC, Bool.and_eq_true, List.isEmpty_iff, trueScalar] at hw
    simp [SafeFns, SafeFnsL] at hs
    simp only [RealEnv, RealEnvL, and_true] at ht
    obtain ⟨ra, rb, ha, hb, hn⟩ := check2 h
    rw [node_expr (by simp [checkHandlerG])] at hn
    simp only [Option.some.injEq, Prod.mk.injEq, List.map] at hn
    obtain ⟨rfl, rfl⟩ := hn
    have Ia := iha (by simp [hw]) hs.1 ht.1 ra.1 ra.2 ha
    have Ib := ihb (by simp [hw]) hs.2 ht.2 rb.1 rb.2 hb
    exact {
      val := by intro side ι; simp only [evalB, Ia.val, Ib.val]
      cmp := by simp only [CmpReal, CmpRealL, isCmpOp]; exact ⟨by simp, Ia.cmp, Ib.cmp, trivial⟩ }
  -- == / !=
  · intro aux a b iha ihb hw hs ht p' τ h
    simp only [WFC, Bool.and_eq_true, List.isEmpty_iff, trueScalar] at hw
    simp [SafeFns, SafeFnsL] at hs
    simp only [RealEnv, RealEnvL, and_true] at ht
    obtain ⟨ra, rb, ha, hb, hn⟩ := check2 h
    rw [node_expr (by simp [checkHandlerG])] at hn
    simp only [Option.some.injEq, Prod.mk.injEq, List.map] at hn
    obtain ⟨rfl, rfl⟩ := hn
    have Ia := iha (by simp [hw]) hs.1 ht.1 ra.1 ra.2 ha
    have Ib := ihb (by simp [hw]) hs.2 ht.2 rb.1 rb.2 hb
    exact {
      val := by intro side ι; simp only [evalB, Ia.val, Ib.val]
      cmp := by simp only [CmpReal, CmpRealL, isCmpOp]; exact ⟨by simp, Ia.cmp, Ib.cmp, trivial⟩ }
  -- ordering comparison
  · intro aux a b iha ihb hw hs ht p' τ h
    simp only [WFC, Bool.and_eq_true, List.isEmpty_iff, trueScalar] at hw
    simp [SafeFns, SafeFnsL] at hs
    simp only [RealEnv, RealEnvL, and_true] at ht
    obtain ⟨ra, rb, ha, hb, hn⟩ := check2 h
    simp only [checkNode, checkHandlerG, plainRb, Option.map, List.map] at hn
    split at hn
    · cases hn
    · rename_i hcx
      simp only [Option.some.injEq, Prod.mk.injEq] at hn
      obtain ⟨rfl, rfl⟩ := hn
      have hta : ra.2 ≠ .complex := by intro hh; apply hcx; simp [hh]
      have htb : rb.2 ≠ .complex := by intro hh; apply hcx; simp [hh]
      have Ia := iha (by simp [hw]) hs.1 ht.1 ra.1 ra.2 ha
      have Ib := ihb (by simp [hw]) hs.2 ht.2 rb.1 rb.2 hb
      have Sa := realOf_spec ρ R hR ra.1 (Ia.lit hta) (Ia.real hta)
      have Sb := realOf_spec ρ R hR rb.1 (Ib.lit htb) (Ib.real htb)
      exact {
        val := by intro side ι; simp only [evalB, Sa.1, Sb.1, Ia.val, Ib.val]
        cmp := by
          simp only [CmpReal, CmpRealL, AllRealL, isCmpOp]
          exact ⟨fun _ => ⟨fun side ι c => by rw [← Ia.val]; exact Ia.real hta _ _ _,
                           fun side ι c => by rw [← Ib.val]; exact Ib.real htb _ _ _, trivial⟩, Ia.cmp, Ib.cmp, trivial⟩ }
  -- ordering comparison
  · intro aux a b iha ihb hw hs ht p' τ h
    simp only [WFC, Bool.and_eq_true, List.isEmpty_iff, trueScalar] at hw
    simp [SafeFns, SafeFnsL] at hs
    simp only [RealEnv, RealEnvL, and_true] at ht
    obtain ⟨ra, rb, ha, hb, hn⟩ := check2 h
    simp only [checkNode, checkHandlerG, plainRb, Option.map, List.map] at hn
    split at hn
    · cases hn
    · rename_i hcx
      simp only [Option.some.injEq, Prod.mk.injEq] at hn
      obtain ⟨rfl, rfl⟩ := hn
      have hta : ra.2 ≠ .complex := by intro hh; apply hcx; simp [hh]
      have htb : rb.2 ≠ .complex := by intro hh; apply hcx; simp [hh]
      have Ia := iha (by simp [hw]) hs.1 ht.1 ra.1 ra.2 ha
      have Ib := ihb (by simp [hw]) hs.2 ht.2 rb.1 rb.2 hb
      have Sa := realOf_spec ρ R hR ra.1 (Ia.lit hta) (Ia.real hta)
      have Sb := realOf_spec ρ R hR rb.1 (Ib.lit htb) (Ib.real htb)
      exact {
        val := by intro side ι; simp only [evalB, Sa.1, Sb.1, Ia.val, Ib.val]
        cmp := by
          simp only [CmpReal, CmpRealL, AllRealL, isCmpOp]
          exact ⟨fun _ => ⟨fun side ι c => by rw [← Ia.val]; exact Ia.real hta _ _ _,
                           fun side ι c => by rw [← Ib.val]; exact Ib.real htb _ _ _, trivial⟩, Ia.cmp, Ib.cmp, trivial⟩ }
  -- ordering comparison
  · intro aux a b iha ihb hw hs ht p' τ h
    simp only [WFC, Bool.and_eq_true, List.isEmpty_iff, trueScalar] at hw
    simp [SafeFns, SafeFnsL] at hs
    simp only [RealEnv, RealEnvL, and_true] at ht
    obtain ⟨ra, rb, ha, hb, hn⟩ := check2 h
    simp only [checkNode, checkHandlerG, plainRb, Option.map, List.map] at hn
    split at hn
    · cases hn
    · rename_i hcx
      simp only [Option.some.injEq, Prod.mk.injEq] at hn
      obtain ⟨rfl, rfl⟩ := hn
      have hta : ra.2 ≠ .complex := by intro hh; apply hcx; simp [hh]
      have htb : rb.2 ≠ .complex := by intro hh; apply hcx; simp [hh]
      have Ia := iha (by simp [hw]) hs.1 ht.1 ra.1 ra.2 ha
      have Ib := ihb (by simp [hw]) hs.2 ht.2 rb.1 rb.2 hb
      have Sa := realOf_spec ρ R hR ra.1 (Ia.lit hta) (Ia.real hta)
      have Sb := realOf_spec ρ R hR rb.1 (Ib.lit htb) (Ib.real htb)
      exact {
        val := by intro side ι; simp only [evalB, Sa.1, Sb.1, Ia.val, Ib.val]
        cmp := by
          simp only [CmpReal, CmpRealL, AllRealL, isCmpOp]
          exact ⟨fun _ => ⟨fun side ι c => by rw [← Ia.val]; exact Ia.real hta _ _ _,
                           fun side ι c => by rw [← Ib.val]; exact Ib.real htb _ _ _, trivial⟩, Ia.cmp, Ib.cmp, trivial⟩ }
  -- ordering comparison
  · intro aux a b iha ihb hw hs ht p' τ h
    simp only [WFC, Bool.and_eq_true, List.isEmpty_iff, trueScalar] at hw
    simp [SafeFns, SafeFnsL] at hs
    simp only [RealEnv, RealEnvL, and_true] at ht
    obtain ⟨ra, rb, ha, hb, hn⟩ := check2 h
    simp only [checkNode, checkHandlerG, plainRb, Option.map, List.map] at hn
    split at hn
    · cases hn
    · rename_i hcx
      simp only [Option.some.injEq, Prod.mk.injEq] at hn
      obtain ⟨rfl, rfl⟩ := hn
      have hta : ra.2 ≠ .complex := by intro hh; apply hcx; simp [hh]
      have htb : rb.2 ≠ .complex := by intro hh; apply hcx; simp [hh]
      have Ia := iha (by simp [hw]) hs.1 ht.1 ra.1 ra.2 ha
      have Ib := ihb (by simp [hw]) hs.2 ht.2 rb.1 rb.2 hb
      have Sa := realOf_spec ρ R hR ra.1 (Ia.lit hta) (Ia.real hta)
      have Sb := realOf_spec ρ R hR rb.1 (Ib.lit htb) (Ib.real htb)
      exact {
        val := by intro side ι; simp only [evalB, Sa.1, Sb.1, Ia.val, Ib.val]
        cmp := by
          simp only [CmpReal, CmpRealL, AllRealL, isCmpOp]
          exact ⟨fun _ => ⟨fun side ι c => by rw [← Ia.val]; exact Ia.real hta _ _ _,
                           fun side ι c => by rw [← Ib.val]; exact Ib.real htb _ _ _, trivial⟩, Ia.cmp, Ib.cmp, trivial⟩ }
  -- and / or
  · intro aux a b iha ihb hw hs ht p' τ h
    simp only [WFC, Bool.and_eq_true] at hw
    simp [SafeFns, SafeFnsL] at hs
    simp only [RealEnv, RealEnvL, and_true] at ht
    obtain ⟨ra, rb, ha, hb, hn⟩ := check2 h
    rw [node_expr (by simp [checkHandlerG])] at hn
    simp only [Option.some.injEq, Prod.mk.injEq, List.map] at hn
    obtain ⟨rfl, rfl⟩ := hn
    have Ia := iha hw.1 hs.1 ht.1 ra.1 ra.2 ha
    have Ib := ihb hw.2 hs.2 ht.2 rb.1 rb.2 hb
    exact {
      val := by intro side ι; simp only [evalB, Ia.val, Ib.val]
      cmp := by simp only [CmpReal, CmpRealL, isCmpOp]; exact ⟨by simp, Ia.cmp, Ib.cmp, trivial⟩ }
  -- and / or
  · intro aux a b iha ihb hw hs ht p' τ h
    simp only [WFC, Bool.and_eq_true] at hw
    simp [SafeFns, SafeFnsL] at hs
    simp only [RealEnv, RealEnvL, and_true] at ht
    obtain ⟨ra, rb, ha, hb, hn⟩ := check2 h
    rw [node_expr (by simp [checkHandlerG])] at hn
    simp only [Option.some.injEq, Prod.mk.injEq, List.map] at hn
    obtain ⟨rfl, rfl⟩ := hn
    have Ia := iha hw.1 hs.1 ht.1 ra.1 ra.2 ha
    have Ib := ihb hw.2 hs.2 ht.2 rb.1 rb.2 hb
    exact {
      val := by intro side ι; simp only [evalB, Ia.val, Ib.val]
      cmp := by simp only [CmpReal, CmpRealL, isCmpOp]; exact ⟨by simp, Ia.cmp, Ib.cmp, trivial⟩ }
  -- not
  · intro aux a iha hw hs ht p' τ h
    simp only [WFC] at hw
    simp [SafeFns, SafeFnsL] at hs
    simp only [RealEnv, RealEnvL, and_true] at ht
    obtain ⟨ra, ha, hn⟩ := check1 h
    rw [node_expr (by simp [checkHandlerG])] at hn
    simp only [Option.some.injEq, Prod.mk.injEq, List.map] at hn
    obtain ⟨rfl, rfl⟩ := hn
    have Ia := iha hw hs ht ra.1 ra.2 ha
    exact {
      val := by intro side ι; simp only [evalB, Ia.val]
      cmp := by simp only [CmpReal, CmpRealL, isCmpOp]; exact ⟨by simp, Ia.cmp, trivial⟩ }
  -- not a condition
  · intro k aux args
    intros
    intro hw
    unfold WFC at hw
    split at hw <;> simp_all
  · intro t
    intros
    intro hw
    unfold WFC at hw
    split at hw <;> simp_all
  -- lists
  · intro _ _ _ rs h
    have := checkL_nil_some h; subst this; trivial
  · intro a as iha ihas hw hs ht rs h
    simp only [WFL, Bool.and_eq_true] at hw
    simp only [SafeFnsL, Bool.and_eq_true] at hs
    simp only [RealEnvL] at ht
    obtain ⟨ra, rs', ha, h3, rfl⟩ := checkL_cons_some h
    exact ⟨iha hw.1 hs.1 ht.1 ra.1 ra.2 ha, ihas hw.2 hs.2 ht.2 rs' h3⟩

/-! ### sub-expressions, and propagation of a raised error -/

/-- `Sub n e`: `n` occurs in `e` -/
inductive Sub : Expr → Expr → Prop
  | refl (e : Expr) : Sub e e
  | step (n a : Expr) (k : Op) (aux : List Nat) (args : List Expr) : Sub n a → a ∈ args → Sub n (.op k aux args)

theorem checkL_none_of_mem {strict : Bool} {rb : Rb} : ∀ (args : List Expr) (a : Expr), a ∈ args →
    checkWith strict rb a = none → checkL strict rb args = none
  | x :: xs, a, hm, hn => by
    simp only [checkL]
    cases List.mem_cons.mp hm with
    | inl h => subst h; rw [hn]
    | inr h =>
      rw [checkL_none_of_mem xs a h hn]
      cases checkWith strict rb x <;> rfl

theorem check_none_of_sub {strict : Bool} {rb : Rb} (n e : Expr) (hs : Sub n e) (hn : checkWith strict rb n = none) :
    checkWith strict rb e = none := by
  induction hs with
  | refl => exact hn
  | step a k aux args _ hm ih =>
    simp only [checkWith, checkL_none_of_mem args a hm ih]

theorem checkL_mem {strict : Bool} {rb : Rb} : ∀ (args : List Expr) (rs : List (Expr × Ty)) (a : Expr) (r : Expr × Ty),
    checkL strict rb args = some rs → a ∈ args → checkWith strict rb a = some r → r ∈ rs
  | x :: xs, rs, a, r, h, hm, ha => by
    obtain ⟨r0, rs', h0, h1, rfl⟩ := checkL_cons_some h
    cases List.mem_cons.mp hm with
    | inl e => subst e; rw [h0] at ha; simp only [Option.some.injEq] at ha; subst ha; simp
    | inr e => exact List.mem_cons_of_mem _ (checkL_mem xs rs' a r h1 e ha)

theorem cmp_handler (strict : Bool) (k : Op) (hk : isCmpOp k = true) : (checkHandlerG strict k).isCompare = true := by
  cases k <;> simp_all [isCmpOp, checkHandlerG, CHandler.isCompare]

theorem cmp_node_rejects (strict : Bool) (rb : Rb) (k : Op) (aux : List Nat) (args : List Expr) (rs : List (Expr × Ty))
    (hk : isCmpOp k = true) (hc : (rs.map (·.2)).contains Ty.complex = true) : checkNode strict rb k aux args rs = none := by
  have := cmp_handler strict k hk
  unfold checkNode
  cases hh : checkHandlerG strict k <;> simp_all [CHandler.isCompare]

theorem remL_none_of_mem {rb : Rb} : ∀ (args : List Expr) (a : Expr), a ∈ args →
    removeWith rb a = none → removeL rb args = none
  | x :: xs, a, hm, hn => by
    simp only [removeL]
    cases List.mem_cons.mp hm with
    | inl h => subst h; rw [hn]
    | inr h =>
      rw [remL_none_of_mem xs a h hn]
      cases removeWith rb x <;> rfl

theorem rem_none_of_sub {rb : Rb} (n e : Expr) (hs : Sub n e) (hn : removeWith rb n = none) : removeWith rb e = none := by
  induction hs with
  | refl => exact hn
  | step a k aux args _ hm ih =>
    simp only [removeWith, remL_none_of_mem args a hm ih]

theorem cmpReal_sub (ρ : Env K) (R : K → Prop) : ∀ (n e : Expr), Sub n e → CmpReal ρ R e → CmpReal ρ R n := by
  intro n e hs
  induction hs with
  | refl => exact id
  | step a k aux args _ hm ih =>
    intro h
    simp only [CmpReal] at h
    have : ∀ (xs : List Expr), CmpRealL ρ R xs → ∀ x ∈ xs, CmpReal ρ R x := by
      intro xs
      induction xs with
      | nil => intro _ x hx; cases hx
      | cons y ys ihy =>
        intro hc x hx
        cases List.mem_cons.mp hx with
        | inl e => subst e; exact hc.1
        | inr e => exact ihy hc.2 x e
    exact ih (this args h.2 a hm)

theorem allRealL_mem (ρ : Env K) (R : K → Prop) : ∀ (xs : List Expr), AllRealL ρ R xs → ∀ x ∈ xs, ∀ side ι c, R (eval ρ side ι x c)
  | y :: ys, h, x, hx => by
    cases List.mem_cons.mp hx with
    | inl e => subst e; exact h.1
    | inr e => exact allRealL_mem ρ R ys h.2 x e

mutual
theorem safe_strict : ∀ e : Expr, SafeFns true e = true
  | .int _ | .real _ _ | .cplx _ _ _ _ | .zero _ _ | .mi _ | .term _ => by simp [SafeFns]
  | .op k x as => by simp [SafeFns, safeL_strict as]
theorem safeL_strict : ∀ as : List Expr, SafeFnsL true as = true
  | [] => rfl
  | a :: as => by simp [SafeFnsL, safe_strict a, safeL_strict as]
end

/-! ### ComplexNodeRemoval -/

/-- "real data": every value the valuation produces is real, and `Re`, `conj` fix the real numbers -/
structure RealValued (ρ : Env K) (R : K → Prop) : Prop where
  all : ∀ (e : Expr) side ι c, R (eval ρ side ι e c)
  re_id : ∀ x, R x → ρ.re x = x
  conj_id : ∀ x, R x → ρ.conj x = x

theorem rem_op_some {rb : Rb} {k : Op} {aux : List Nat} {args : List Expr} {r : Expr}
    (h : removeWith rb (.op k aux args) = some r) :
    ∃ ops, removeL rb args = some ops ∧
      (match removeHandler k, ops with
       | .conj, [a] => some a
       | .real, [a] => some a
       | .imag, _ => none
       | .conj, _ => none
       | .real, _ => none
       | .expr, _ => reuse rb k aux args ops) = some r := by
  simp only [removeWith] at h
  split at h
  · cases h
  · rename_i ops hops; exact ⟨ops, hops, h⟩

theorem remL_cons_some {rb : Rb} {a : Expr} {as : List Expr} {rs : List Expr} (h : removeL rb (a :: as) = some rs) :
    ∃ r rs', removeWith rb a = some r ∧ removeL rb as = some rs' ∧ rs = r :: rs' := by
  simp only [removeL] at h
  split at h
  · rename_i r rs' h1 h2
    simp only [Option.some.injEq] at h
    exact ⟨r, rs', h1, h2, h.symm⟩
  · cases h

theorem remL_nil_some {rb : Rb} {rs : List Expr} (h : removeL rb [] = some rs) : rs = [] := by
  simp only [removeL, Option.some.injEq] at h; exact h.symm

theorem rem_expr {k : Op} (hk : removeHandler k = .expr) {aux : List Nat} {args : List Expr} {r : Expr}
    (h : removeWith plainRb (.op k aux args) = some r) : ∃ ops, removeL plainRb args = some ops ∧ r = .op k aux ops := by
  obtain ⟨ops, h1, h2⟩ := rem_op_some h
  rw [hk] at h2
  simp only [reuse_plain, Option.some.injEq] at h2
  exact ⟨ops, h1, h2.symm⟩

theorem rem1 {k : Op} (hk : removeHandler k = .expr) {aux : List Nat} {a : Expr} {r : Expr}
    (h : removeWith plainRb (.op k aux [a]) = some r) : ∃ a', removeWith plainRb a = some a' ∧ r = .op k aux [a'] := by
  obtain ⟨ops, h1, rfl⟩ := rem_expr hk h
  obtain ⟨a', r1, ha, h2, rfl⟩ := remL_cons_some h1
  have := remL_nil_some h2; subst this
  exact ⟨a', ha, rfl⟩

theorem rem2 {k : Op} (hk : removeHandler k = .expr) {aux : List Nat} {a b : Expr} {r : Expr}
    (h : removeWith plainRb (.op k aux [a, b]) = some r) :
    ∃ a' b', removeWith plainRb a = some a' ∧ removeWith plainRb b = some b' ∧ r = .op k aux [a', b'] := by
  obtain ⟨ops, h1, rfl⟩ := rem_expr hk h
  obtain ⟨a', r1, ha, h2, rfl⟩ := remL_cons_some h1
  obtain ⟨b', r2, hb, h3, rfl⟩ := remL_cons_some h2
  have := remL_nil_some h3; subst this
  exact ⟨a', b', ha, hb, rfl⟩

theorem rem3 {k : Op} (hk : removeHandler k = .expr) {aux : List Nat} {a b c : Expr} {r : Expr}
    (h : removeWith plainRb (.op k aux [a, b, c]) = some r) :
    ∃ a' b' c', removeWith plainRb a = some a' ∧ removeWith plainRb b = some b' ∧ removeWith plainRb c = some c' ∧
      r = .op k aux [a', b', c'] := by
  obtain ⟨ops, h1, rfl⟩ := rem_expr hk h
  obtain ⟨a', r1, ha, h2, rfl⟩ := remL_cons_some h1
  obtain ⟨b', r2, hb, h3, rfl⟩ := remL_cons_some h2
  obtain ⟨c', r3, hc, h4, rfl⟩ := remL_cons_some h3
  have := remL_nil_some h4; subst this
  exact ⟨a', b', c', ha, hb, hc, rfl⟩

theorem chain_strip : ∀ (a : Expr) (p : TermData × Nat), gradChain a = some p → removeWith plainRb a = some a := by
  intro a
  fun_induction gradChain a with
  | case1 d => intro p _; simp [removeWith]
  | case2 aux a d k hk ih =>
    intro p _
    have := ih _ hk
    simp only [removeWith, removeL, this, removeHandler, reuse_plain]
  | case3 aux a hk ih => intro p h; simp at h
  | case4 e h1 h2 => intro p h; simp at h

structure InvS (ρ : Env K) (e e' : Expr) : Prop where
  val : ∀ side ι c, eval ρ side ι e' c = eval ρ side ι e c
  sh : shape e' = shape e
  fi : Expr.fi e' = Expr.fi e

def InvSL (ρ : Env K) : List Expr → List Expr → Prop
  | [], [] => True
  | x :: xs, r :: rs => InvS ρ x r ∧ InvSL ρ xs rs
  | _, _ => False

theorem invSL_len (ρ : Env K) : ∀ (xs rs : List Expr), InvSL ρ xs rs → rs.length = xs.length
  | [], [], _ => rfl
  | x :: xs, r :: rs, h => by simp [invSL_len ρ xs rs h.2]
  | [], _ :: _, h => by simp [InvSL] at h
  | _ :: _, [], h => by simp [InvSL] at h

theorem invSL_evalNth (ρ : Env K) (side : Side) (ι : IdxEnv) :
    ∀ (xs rs : List Expr), InvSL ρ xs rs → ∀ n c, evalNth ρ side ι rs n c = evalNth ρ side ι xs n c
  | [], [], _, _, _ => rfl
  | x :: xs, r :: rs, h, 0, c => by simp only [evalNth]; exact h.1.val side ι c
  | x :: xs, r :: rs, h, n + 1, c => by simp only [evalNth]; exact invSL_evalNth ρ side ι xs rs h.2 n c
  | [], _ :: _, h, _, _ => by simp [InvSL] at h
  | _ :: _, [], h, _, _ => by simp [InvSL] at h

def S1 (ρ : Env K) (e : Expr) : Prop := WF e = true → ∀ e', removeWith plainRb e = some e' → InvS ρ e e'
def S2 (ρ : Env K) (p : Expr) : Prop :=
  WFC p = true → ∀ p', removeWith plainRb p = some p' → ∀ side ι, evalB ρ side ι p' = evalB ρ side ι p
def S3 (ρ : Env K) (xs : List Expr) : Prop := WFL xs = true → ∀ rs, removeL plainRb xs = some rs → InvSL ρ xs rs

theorem strip_aux (ρ : Env K) (R : K → Prop) (hV : RealValued ρ R) :
    (∀ e, S1 ρ e) ∧ (∀ p, S2 ρ p) ∧ (∀ xs, S3 ρ xs) := by
  apply WF.mutual_induct (motive_1 := S1 ρ) (motive_2 := S2 ρ) (motive_3 := S3 ρ)
  · intro v _ e' h
    simp only [removeWith, Option.some.injEq] at h; subst h
    exact ⟨fun _ _ _ => rfl, rfl, rfl⟩
  · intro n d _ e' h
    simp only [removeWith, Option.some.injEq] at h; subst h
    exact ⟨fun _ _ _ => rfl, rfl, rfl⟩
  · intro a b c d _ e' h
    simp [removeWith] at h
  · intro d _ e' h
    simp only [removeWith, Option.some.injEq] at h; subst h
    exact ⟨fun _ _ _ => rfl, rfl, rfl⟩
  · intro sh f _ e' h
    simp only [removeWith, Option.some.injEq] at h; subst h
    exact ⟨fun _ _ _ => rfl, rfl, rfl⟩
  · intro is hw; simp [WF] at hw
  · intro aux a b iha ihb hw e' h
    simp only [WF, Bool.and_eq_true, beq_iff_eq, List.isEmpty_iff, trueScalar] at hw
    obtain ⟨a', b', ha, hb, rfl⟩ := rem2 (by rfl) h
    have Ia := iha (by simp [hw]) a' ha
    have Ib := ihb (by simp [hw]) b' hb
    exact ⟨fun side ι c => by simp only [eval, Ia.val, Ib.val], by simp only [shape, Ia.sh], by simp only [Expr.fi, Ia.fi, Ib.fi]⟩
  · intro aux a b iha ihb hw e' h
    simp only [WF, Bool.and_eq_true, beq_iff_eq, List.isEmpty_iff, trueScalar] at hw
    obtain ⟨a', b', ha, hb, rfl⟩ := rem2 (by rfl) h
    have Ia := iha (by simp [hw]) a' ha
    have Ib := ihb (by simp [hw]) b' hb
    exact ⟨fun side ι c => by simp only [eval, Ia.val, Ib.val], by simp only [shape, Ia.sh], by simp only [Expr.fi, Ia.fi, Ib.fi]⟩
  · intro aux a b iha ihb hw e' h
    simp only [WF, Bool.and_eq_true, beq_iff_eq, List.isEmpty_iff, trueScalar] at hw
    obtain ⟨a', b', ha, hb, rfl⟩ := rem2 (by rfl) h
    have Ia := iha (by simp [hw]) a' ha
    have Ib := ihb (by simp [hw]) b' hb
    exact ⟨fun side ι c => by simp only [eval, Ia.val, Ib.val], by simp only [shape, Ia.sh], by simp only [Expr.fi, Ia.fi, Ib.fi]⟩
  · intro aux a b iha ihb hw e' h
    simp only [WF, Bool.and_eq_true, beq_iff_eq, List.isEmpty_iff, trueScalar] at hw
    obtain ⟨a', b', ha, hb, rfl⟩ := rem2 (by rfl) h
    have Ia := iha (by simp [hw]) a' ha
    have Ib := ihb (by simp [hw]) b' hb
    exact ⟨fun side ι c => by simp only [eval, Ia.val, Ib.val], by simp only [shape, Ia.sh], by simp only [Expr.fi, Ia.fi, Ib.fi]⟩
  · intro aux a iha hw e' h
    simp only [WF] at hw
    obtain ⟨a', ha, rfl⟩ := rem1 (by rfl) h
    have Ia := iha hw a' ha
    exact ⟨fun side ι c => by simp only [eval, Ia.val], by simp only [shape, Ia.sh], by simp only [Expr.fi, Ia.fi]⟩
  · intro aux a iha hw e' h
    simp only [WF] at hw
    obtain ⟨ops, h1, h2⟩ := rem_op_some h
    obtain ⟨a', r1, ha, h3, rfl⟩ := remL_cons_some h1
    have := remL_nil_some h3; subst this
    simp only [removeHandler, Option.some.injEq] at h2
    subst h2
    have Ia := iha hw a' ha
    exact ⟨fun side ι c => by simp only [eval, Ia.val]; exact (hV.conj_id _ (hV.all a side ι c)).symm, by simp only [shape, Ia.sh], by simp only [Expr.fi, Ia.fi]⟩
  · intro aux a iha hw e' h
    simp only [WF] at hw
    obtain ⟨ops, h1, h2⟩ := rem_op_some h
    obtain ⟨a', r1, ha, h3, rfl⟩ := remL_cons_some h1
    have := remL_nil_some h3; subst this
    simp only [removeHandler, Option.some.injEq] at h2
    subst h2
    have Ia := iha hw a' ha
    exact ⟨fun side ι c => by simp only [eval, Ia.val]; exact (hV.re_id _ (hV.all a side ι c)).symm, by simp only [shape, Ia.sh], by simp only [Expr.fi, Ia.fi]⟩
  · intro aux a iha hw e' h
    obtain ⟨ops, h1, h2⟩ := rem_op_some h
    simp [removeHandler] at h2
  · intro aux a is iha hw e' h
    simp only [WF, Bool.and_eq_true, beq_iff_eq, List.isEmpty_iff] at hw
    obtain ⟨a', b', ha, hb, rfl⟩ := rem2 (by rfl) h
    simp only [removeWith, Option.some.injEq] at hb; subst hb
    have Ia := iha (by simp [hw]) a' ha
    exact ⟨fun side ι c => by simp only [eval, Ia.val, Ia.fi], by simp only [shape, Ia.sh, Ia.fi], by simp only [Expr.fi, Ia.fi, Ia.sh]⟩
  · intro aux a j iha hw e' h
    simp only [WF, Bool.and_eq_true, beq_iff_eq, List.isEmpty_iff] at hw
    obtain ⟨a', b', ha, hb, rfl⟩ := rem2 (by rfl) h
    simp only [removeWith, Option.some.injEq] at hb; subst hb
    have Ia := iha (by simp [hw]) a' ha
    exact ⟨fun side ι c => by simp only [eval, Ia.val, Ia.fi], by simp only [shape, Ia.sh, Ia.fi], by simp only [Expr.fi, Ia.fi, Ia.sh]⟩
  · intro aux a is iha hw e' h
    simp only [WF, Bool.and_eq_true, beq_iff_eq, List.isEmpty_iff] at hw
    obtain ⟨a', b', ha, hb, rfl⟩ := rem2 (by rfl) h
    simp only [removeWith, Option.some.injEq] at hb; subst hb
    have Ia := iha (by simp [hw]) a' ha
    exact ⟨fun side ι c => by simp only [eval, Ia.val, Ia.fi], by simp only [shape, Ia.sh, Ia.fi], by simp only [Expr.fi, Ia.fi, Ia.sh]⟩
  -- list tensor
  · intro aux a as iha ihas hw e' h
    simp only [WF, Bool.and_eq_true] at hw
    obtain ⟨ops, h1, rfl⟩ := rem_expr (by rfl) h
    obtain ⟨a', rs', ha, h3, rfl⟩ := remL_cons_some h1
    have Ia := iha hw.1.1 a' ha
    have Il := ihas hw.1.2 rs' h3
    have IL : InvSL ρ (a :: as) (a' :: rs') := ⟨Ia, Il⟩
    have hlen := invSL_len ρ as rs' Il
    refine ⟨fun side ι c => ?_, by simp only [shape, Ia.sh, hlen], by simp only [Expr.fi, Ia.fi]⟩
    simp only [eval]
    cases c with
    | nil => rfl
    | cons v c' => exact invSL_evalNth ρ side ι (a :: as) (a' :: rs') IL v c'
  -- conditional
  · intro aux c t f ihc iht ihf hw e' h
    simp only [WF, Bool.and_eq_true, beq_iff_eq] at hw
    obtain ⟨c', t', f', hc, ht, hf, rfl⟩ := rem3 (by rfl) h
    have Ic := ihc hw.1.1.1.1 c' hc
    have It := iht hw.1.1.1.2 t' ht
    have If := ihf hw.1.1.2 f' hf
    exact ⟨fun side ι c => by simp only [eval, Ic, It.val, If.val], by simp only [shape, It.sh], by simp only [Expr.fi, It.fi]⟩
  · intro aux a b iha ihb hw e' h
    simp only [WF, Bool.and_eq_true, beq_iff_eq, List.isEmpty_iff, trueScalar] at hw
    obtain ⟨a', b', ha, hb, rfl⟩ := rem2 (by rfl) h
    have Ia := iha (by simp [hw]) a' ha
    have Ib := ihb (by simp [hw]) b' hb
    exact ⟨fun side ι c => by simp only [eval, Ia.val, Ib.val], by simp only [shape, Ia.sh], by simp only [Expr.fi, Ia.fi, Ib.fi]⟩
  · intro aux a b iha ihb hw e' h
    simp only [WF, Bool.and_eq_true, beq_iff_eq, List.isEmpty_iff, trueScalar] at hw
    obtain ⟨a', b', ha, hb, rfl⟩ := rem2 (by rfl) h
    have Ia := iha (by simp [hw]) a' ha
    have Ib := ihb (by simp [hw]) b' hb
    exact ⟨fun side ι c => by simp only [eval, Ia.val, Ib.val], by simp only [shape, Ia.sh], by simp only [Expr.fi, Ia.fi, Ib.fi]⟩
  · intro aux a b iha ihb hw e' h
    simp only [WF, Bool.and_eq_true, beq_iff_eq, List.isEmpty_iff, trueScalar] at hw
    obtain ⟨a', b', ha, hb, rfl⟩ := rem2 (by rfl) h
    have Ia := iha (by simp [hw]) a' ha
    have Ib := ihb (by simp [hw]) b' hb
    exact ⟨fun side ι c => by simp only [eval, Ia.val, Ib.val], by simp only [shape, Ia.sh], by simp only [Expr.fi, Ia.fi, Ib.fi]⟩
  -- variable
  · intro aux a d iha hw e' h
    simp only [WF] at hw
    obtain ⟨a', b', ha, hb, rfl⟩ := rem2 (by rfl) h
    simp only [removeWith, Option.some.injEq] at hb; subst hb
    have Ia := iha hw a' ha
    exact ⟨fun side ι c => by simp only [eval, Ia.val], by simp only [shape, Ia.sh], by simp only [Expr.fi, Ia.fi]⟩
  · intro aux a iha hw e' h
    simp only [WF] at hw
    obtain ⟨a', ha, rfl⟩ := rem1 (by rfl) h
    have Ia := iha hw a' ha
    exact ⟨fun side ι c => by simp only [eval, Ia.val], by simp only [shape, Ia.sh], by simp only [Expr.fi, Ia.fi]⟩
  · intro aux a iha hw e' h
    simp only [WF] at hw
    obtain ⟨a', ha, rfl⟩ := rem1 (by rfl) h
    have Ia := iha hw a' ha
    exact ⟨fun side ι c => by simp only [eval, Ia.val], by simp only [shape, Ia.sh], by simp only [Expr.fi, Ia.fi]⟩
  -- grad
  · intro aux a hw e' h
    simp only [WF, Option.isSome_iff_exists] at hw
    obtain ⟨p, hp⟩ := hw
    obtain ⟨a', ha, rfl⟩ := rem1 (by rfl) h
    rw [chain_strip a p hp] at ha
    simp only [Option.some.injEq] at ha; subst ha
    exact ⟨fun _ _ _ => rfl, rfl, rfl⟩
  -- math functions
  · intro aux fnk a h1 h2 h3 h4 h5 h6 h7 h8 iha hw e' h
    obtain ⟨n, hn'⟩ : ∃ n, mathName fnk = some n := by
      cases hm : mathName fnk with
      | some n => exact ⟨n, rfl⟩
      | none =>
        exfalso
        unfold WF at hw
        split at hw <;> simp_all
    have hev := fn_eval ρ fnk aux n hn'
    have hsh := fn_shape fnk aux n hn'
    have hwf : WF a = true ∧ trueScalar a = true := by
      rw [(hsh a).2.2.2.2] at hw; simpa using hw
    have hk : removeHandler fnk = .expr := by
      cases fnk <;> simp [mathName] at hn' <;> rfl
    obtain ⟨a', ha, rfl⟩ := rem1 hk h
    have Ia := iha hwf.1 a' ha
    exact ⟨fun side ι c => by rw [hev, hev, Ia.val], by rw [(hsh _).1, (hsh _).1], by rw [(hsh _).2.1, (hsh _).2.1, Ia.fi]⟩
  · intro k aux args
    intros
    intro hw
    unfold WF at hw
    split at hw <;> simp_all
  · intro aux a b iha ihb hw p' h side ι
    simp only [WFC, Bool.and_eq_true, List.isEmpty_iff, trueScalar] at hw
    obtain ⟨a', b', ha, hb, rfl⟩ := rem2 (by rfl) h
    have Ia := iha (by simp [hw]) a' ha
    have Ib := ihb (by simp [hw]) b' hb
    simp only [evalB, Ia.val, Ib.val]
  · intro aux a b iha ihb hw p' h side ι
    simp only [WFC, Bool.and_eq_true, List.isEmpty_iff, trueScalar] at hw
    obtain ⟨a', b', ha, hb, rfl⟩ := rem2 (by rfl) h
    have Ia := iha (by simp [hw]) a' ha
    have Ib := ihb (by simp [hw]) b' hb
    simp only [evalB, Ia.val, Ib.val]
  · intro aux a b iha ihb hw p' h side ι
    simp only [WFC, Bool.and_eq_true, List.isEmpty_iff, trueScalar] at hw
    obtain ⟨a', b', ha, hb, rfl⟩ := rem2 (by rfl) h
    have Ia := iha (by simp [hw]) a' ha
    have Ib := ihb (by simp [hw]) b' hb
    simp only [evalB, Ia.val, Ib.val]
  · intro aux a b iha ihb hw p' h side ι
    simp only [WFC, Bool.and_eq_true, List.isEmpty_iff, trueScalar] at hw
    obtain ⟨a', b', ha, hb, rfl⟩ := rem2 (by rfl) h
    have Ia := iha (by simp [hw]) a' ha
    have Ib := ihb (by simp [hw]) b' hb
    simp only [evalB, Ia.val, Ib.val]
  · intro aux a b iha ihb hw p' h side ι
    simp only [WFC, Bool.and_eq_true, List.isEmpty_iff, trueScalar] at hw
    obtain ⟨a', b', ha, hb, rfl⟩ := rem2 (by rfl) h
    have Ia := iha (by simp [hw]) a' ha
    have Ib := ihb (by simp [hw]) b' hb
    simp only [evalB, Ia.val, Ib.val]
  · intro aux a b iha ihb hw p' h side ι
    simp only [WFC, Bool.and_eq_true, List.isEmpty_iff, trueScalar] at hw
    obtain ⟨a', b', ha, hb, rfl⟩ := rem2 (by rfl) h
    have Ia := iha (by simp [hw]) a' ha
    have Ib := ihb (by simp [hw]) b' hb
    simp only [evalB, Ia.val, Ib.val]
  · intro aux a b iha ihb hw p' h side ι
    simp only [WFC, Bool.and_eq_true] at hw
    obtain ⟨a', b', ha, hb, rfl⟩ := rem2 (by rfl) h
    simp only [evalB, iha hw.1 a' ha, ihb hw.2 b' hb]
  · intro aux a b iha ihb hw p' h side ι
    simp only [WFC, Bool.and_eq_true] at hw
    obtain ⟨a', b', ha, hb, rfl⟩ := rem2 (by rfl) h
    simp only [evalB, iha hw.1 a' ha, ihb hw.2 b' hb]
  · intro aux a iha hw p' h side ι
    simp only [WFC] at hw
    obtain ⟨a', ha, rfl⟩ := rem1 (by rfl) h
    simp only [evalB, iha hw a' ha]
  · intro k aux args
    intros
    intro hw
    unfold WFC at hw
    split at hw <;> simp_all
  · intro t
    intros
    intro hw
    unfold WFC at hw
    split at hw <;> simp_all
  · intro _ rs h
    have := remL_nil_some h; subst this; trivial
  · intro a as iha ihas hw rs h
    simp only [WFL, Bool.and_eq_true] at hw
    obtain ⟨a', rs', ha, h3, rfl⟩ := remL_cons_some h
    exact ⟨iha hw.1 a' ha, ihas hw.2 rs' h3⟩

/-! ### the removal raises only on imaginary parts and complex literals -/

mutual
def NoImagCplx : Expr → Bool
  | .cplx .. => false
  | .op k _ args => k != .imag && NoImagCplxL args
  | _ => true
def NoImagCplxL : List Expr → Bool
  | [] => true
  | a :: as => NoImagCplx a && NoImagCplxL as
end

theorem rem_some_expr {k : Op} (hk : removeHandler k = .expr) (aux : List Nat) (args : List Expr)
    (h : (removeL plainRb args).isSome = true) : (removeWith plainRb (.op k aux args)).isSome = true := by
  obtain ⟨ops, ho⟩ := Option.isSome_iff_exists.mp h
  simp only [removeWith, ho, hk, reuse_plain, Option.isSome_some]

theorem rem_some_unwrap {k : Op} (hk : removeHandler k = .conj ∨ removeHandler k = .real) (aux : List Nat) (a : Expr)
    (h : (removeWith plainRb a).isSome = true) : (removeWith plainRb (.op k aux [a])).isSome = true := by
  obtain ⟨a', ha⟩ := Option.isSome_iff_exists.mp h
  rcases hk with hk | hk <;> simp [removeWith, removeL, ha, hk]

theorem remL_some_cons (a : Expr) (as : List Expr) (h1 : (removeWith plainRb a).isSome = true)
    (h2 : (removeL plainRb as).isSome = true) : (removeL plainRb (a :: as)).isSome = true := by
  obtain ⟨a', ha⟩ := Option.isSome_iff_exists.mp h1
  obtain ⟨as', has⟩ := Option.isSome_iff_exists.mp h2
  simp [removeL, ha, has]

theorem remL_some_nil : (removeL plainRb []).isSome = true := by simp [removeL]

def A1 (e : Expr) : Prop := WF e = true → NoImagCplx e = true → (removeWith plainRb e).isSome = true
def A2 (p : Expr) : Prop := WFC p = true → NoImagCplx p = true → (removeWith plainRb p).isSome = true
def A3 (xs : List Expr) : Prop := WFL xs = true → NoImagCplxL xs = true → (removeL plainRb xs).isSome = true

theorem accepts_aux : (∀ e, A1 e) ∧ (∀ p, A2 p) ∧ (∀ xs, A3 xs) := by
  apply WF.mutual_induct (motive_1 := A1) (motive_2 := A2) (motive_3 := A3)
  · intros; intro _ _; simp [removeWith]
  · intros; intro _ _; simp [removeWith]
  · intros; intro _ hn; simp [NoImagCplx] at hn
  · intros; intro _ _; simp [removeWith]
  · intros; intro _ _; simp [removeWith]
  · intro is hw; simp [WF] at hw
  · intro aux a b iha ihb hw hn
    simp only [WF, Bool.and_eq_true, beq_iff_eq, List.isEmpty_iff, trueScalar] at hw
    simp [NoImagCplx, NoImagCplxL] at hn
    exact rem_some_expr (by rfl) _ _ (remL_some_cons _ _ (iha (by simp [hw]) hn.1) (remL_some_cons _ _ (ihb (by simp [hw]) hn.2) remL_some_nil))
  · intro aux a b iha ihb hw hn
    simp only [WF, Bool.and_eq_true, beq_iff_eq, List.isEmpty_iff, trueScalar] at hw
    simp [NoImagCplx, NoImagCplxL] at hn
    exact rem_some_expr (by rfl) _ _ (remL_some_cons _ _ (iha (by simp [hw]) hn.1) (remL_some_cons _ _ (ihb (by simp [hw]) hn.2) remL_some_nil))
  · intro aux a b iha ihb hw hn
    simp only [WF, Bool.and_eq_true, beq_iff_eq, List.isEmpty_iff, trueScalar] at hw
    simp [NoImagCplx, NoImagCplxL] at hn
    exact rem_some_expr (by rfl) _ _ (remL_some_cons _ _ (iha (by simp [hw]) hn.1) (remL_some_cons _ _ (ihb (by simp [hw]) hn.2) remL_some_nil))
  · intro aux a b iha ihb hw hn
    simp only [WF, Bool.and_eq_true, beq_iff_eq, List.isEmpty_iff, trueScalar] at hw
    simp [NoImagCplx, NoImagCplxL] at hn
    exact rem_some_expr (by rfl) _ _ (remL_some_cons _ _ (iha (by simp [hw]) hn.1) (remL_some_cons _ _ (ihb (by simp [hw]) hn.2) remL_some_nil))
  · intro aux a iha hw hn
    simp only [WF] at hw
    simp [NoImagCplx, NoImagCplxL] at hn
    exact rem_some_expr (by rfl) _ _ (remL_some_cons _ _ (iha hw hn) remL_some_nil)
  · intro aux a iha hw hn
    simp only [WF] at hw
    simp [NoImagCplx, NoImagCplxL] at hn
    exact rem_some_unwrap (by simp [removeHandler]) _ _ (iha hw hn)
  · intro aux a iha hw hn
    simp only [WF] at hw
    simp [NoImagCplx, NoImagCplxL] at hn
    exact rem_some_unwrap (by simp [removeHandler]) _ _ (iha hw hn)
  · intro aux a iha hw hn; simp [NoImagCplx] at hn
  · intro aux a is iha hw hn
    simp only [WF, Bool.and_eq_true, beq_iff_eq, List.isEmpty_iff] at hw
    simp [NoImagCplx, NoImagCplxL] at hn
    exact rem_some_expr (by rfl) _ _ (remL_some_cons _ _ (iha (by simp [hw]) hn) (remL_some_cons _ _ (by simp [removeWith]) remL_some_nil))
  · intro aux a j iha hw hn
    simp only [WF, Bool.and_eq_true, beq_iff_eq, List.isEmpty_iff] at hw
    simp [NoImagCplx, NoImagCplxL] at hn
    exact rem_some_expr (by rfl) _ _ (remL_some_cons _ _ (iha (by simp [hw]) hn) (remL_some_cons _ _ (by simp [removeWith]) remL_some_nil))
  · intro aux a is iha hw hn
    simp only [WF, Bool.and_eq_true, beq_iff_eq, List.isEmpty_iff] at hw
    simp [NoImagCplx, NoImagCplxL] at hn
    exact rem_some_expr (by rfl) _ _ (remL_some_cons _ _ (iha (by simp [hw]) hn) (remL_some_cons _ _ (by simp [removeWith]) remL_some_nil))
  · intro aux a as iha ihas hw hn
    simp only [WF, Bool.and_eq_true] at hw
    simp [NoImagCplx, NoImagCplxL] at hn
    exact rem_some_expr (by rfl) _ _ (remL_some_cons _ _ (iha hw.1.1 hn.1) (ihas hw.1.2 hn.2))
  · intro aux c t f ihc iht ihf hw hn
    simp only [WF, Bool.and_eq_true, beq_iff_eq] at hw
    simp [NoImagCplx, NoImagCplxL] at hn
    exact rem_some_expr (by rfl) _ _ (remL_some_cons _ _ (ihc hw.1.1.1.1 hn.1)
      (remL_some_cons _ _ (iht hw.1.1.1.2 hn.2.1) (remL_some_cons _ _ (ihf hw.1.1.2 hn.2.2) remL_some_nil)))
  · intro aux a b iha ihb hw hn
    simp only [WF, Bool.and_eq_true, beq_iff_eq, List.isEmpty_iff, trueScalar] at hw
    simp [NoImagCplx, NoImagCplxL] at hn
    exact rem_some_expr (by rfl) _ _ (remL_some_cons _ _ (iha (by simp [hw]) hn.1) (remL_some_cons _ _ (ihb (by simp [hw]) hn.2) remL_some_nil))
  · intro aux a b iha ihb hw hn
    simp only [WF, Bool.and_eq_true, beq_iff_eq, List.isEmpty_iff, trueScalar] at hw
    simp [NoImagCplx, NoImagCplxL] at hn
    exact rem_some_expr (by rfl) _ _ (remL_some_cons _ _ (iha (by simp [hw]) hn.1) (remL_some_cons _ _ (ihb (by simp [hw]) hn.2) remL_some_nil))
  · intro aux a b iha ihb hw hn
    simp only [WF, Bool.and_eq_true, beq_iff_eq, List.isEmpty_iff, trueScalar] at hw
    simp [NoImagCplx, NoImagCplxL] at hn
    exact rem_some_expr (by rfl) _ _ (remL_some_cons _ _ (iha (by simp [hw]) hn.1) (remL_some_cons _ _ (ihb (by simp [hw]) hn.2) remL_some_nil))
  · intro aux a d iha hw hn
    simp only [WF] at hw
    simp [NoImagCplx, NoImagCplxL] at hn
    exact rem_some_expr (by rfl) _ _ (remL_some_cons _ _ (iha hw hn) (remL_some_cons _ _ (by simp [removeWith]) remL_some_nil))
  · intro aux a iha hw hn
    simp only [WF] at hw
    simp [NoImagCplx, NoImagCplxL] at hn
    exact rem_some_expr (by rfl) _ _ (remL_some_cons _ _ (iha hw hn) remL_some_nil)
  · intro aux a iha hw hn
    simp only [WF] at hw
    simp [NoImagCplx, NoImagCplxL] at hn
    exact rem_some_expr (by rfl) _ _ (remL_some_cons _ _ (iha hw hn) remL_some_nil)
  · intro aux a hw hn
    simp only [WF, Option.isSome_iff_exists] at hw
    obtain ⟨p, hp⟩ := hw
    exact rem_some_expr (by rfl) _ _ (remL_some_cons _ _ (by rw [chain_strip a p hp]; rfl) remL_some_nil)
  · intro aux fnk a h1 h2 h3 h4 h5 h6 h7 h8 iha hw hn
    obtain ⟨n, hn'⟩ : ∃ n, mathName fnk = some n := by
      cases hm : mathName fnk with
      | some n => exact ⟨n, rfl⟩
      | none =>
        exfalso
        unfold WF at hw
        split at hw <;> simp_all
    have hsh := fn_shape fnk aux n hn'
    have hwf : WF a = true ∧ trueScalar a = true := by
      rw [(hsh a).2.2.2.2] at hw; simpa using hw
    have hk : removeHandler fnk = .expr := by
      cases fnk <;> simp [mathName] at hn' <;> rfl
    simp only [NoImagCplx, NoImagCplxL, Bool.and_true, Bool.and_eq_true] at hn
    exact rem_some_expr hk _ _ (remL_some_cons _ _ (iha hwf.1 hn.2) remL_some_nil)
  · intro k aux args
    intros
    intro hw
    unfold WF at hw
    split at hw <;> simp_all
  · intro aux a b iha ihb hw hn
    simp only [WFC, Bool.and_eq_true, List.isEmpty_iff, trueScalar] at hw
    simp [NoImagCplx, NoImagCplxL] at hn
    exact rem_some_expr (by rfl) _ _ (remL_some_cons _ _ (iha (by simp [hw]) hn.1) (remL_some_cons _ _ (ihb (by simp [hw]) hn.2) remL_some_nil))
  · intro aux a b iha ihb hw hn
    simp only [WFC, Bool.and_eq_true, List.isEmpty_iff, trueScalar] at hw
    simp [NoImagCplx, NoImagCplxL] at hn
    exact rem_some_expr (by rfl) _ _ (remL_some_cons _ _ (iha (by simp [hw]) hn.1) (remL_some_cons _ _ (ihb (by simp [hw]) hn.2) remL_some_nil))
  · intro aux a b iha ihb hw hn
    simp only [WFC, Bool.and_eq_true, List.isEmpty_iff, trueScalar] at hw
    simp [NoImagCplx, NoImagCplxL] at hn
    exact rem_some_expr (by rfl) _ _ (remL_some_cons _ _ (iha (by simp [hw]) hn.1) (remL_some_cons _ _ (ihb (by simp [hw]) hn.2) remL_some_nil))
  · intro aux a b iha ihb hw hn
    simp only [WFC, Bool.and_eq_true, List.isEmpty_iff, trueScalar] at hw
    simp [NoImagCplx, NoImagCplxL] at hn
    exact rem_some_expr (by rfl) _ _ (remL_some_cons _ _ (iha (by simp [hw]) hn.1) (remL_some_cons _ _ (ihb (by simp [hw]) hn.2) remL_some_nil))
  · intro aux a b iha ihb hw hn
    simp only [WFC, Bool.and_eq_true, List.isEmpty_iff, trueScalar] at hw
    simp [NoImagCplx, NoImagCplxL] at hn
    exact rem_some_expr (by rfl) _ _ (remL_some_cons _ _ (iha (by simp [hw]) hn.1) (remL_some_cons _ _ (ihb (by simp [hw]) hn.2) remL_some_nil))
  · intro aux a b iha ihb hw hn
    simp only [WFC, Bool.and_eq_true, List.isEmpty_iff, trueScalar] at hw
    simp [NoImagCplx, NoImagCplxL] at hn
    exact rem_some_expr (by rfl) _ _ (remL_some_cons _ _ (iha (by simp [hw]) hn.1) (remL_some_cons _ _ (ihb (by simp [hw]) hn.2) remL_some_nil))
  · intro aux a b iha ihb hw hn
    simp only [WFC, Bool.and_eq_true] at hw
    simp [NoImagCplx, NoImagCplxL] at hn
    exact rem_some_expr (by rfl) _ _ (remL_some_cons _ _ (iha hw.1 hn.1) (remL_some_cons _ _ (ihb hw.2 hn.2) remL_some_nil))
  · intro aux a b iha ihb hw hn
    simp only [WFC, Bool.and_eq_true] at hw
    simp [NoImagCplx, NoImagCplxL] at hn
    exact rem_some_expr (by rfl) _ _ (remL_some_cons _ _ (iha hw.1 hn.1) (remL_some_cons _ _ (ihb hw.2 hn.2) remL_some_nil))
  · intro aux a iha hw hn
    simp only [WFC] at hw
    simp [NoImagCplx, NoImagCplxL] at hn
    exact rem_some_expr (by rfl) _ _ (remL_some_cons _ _ (iha hw hn) remL_some_nil)
  · intro k aux args
    intros
    intro hw
    unfold WFC at hw
    split at hw <;> simp_all
  · intro t
    intros
    intro hw
    unfold WFC at hw
    split at hw <;> simp_all
  · intro _ _; exact remL_some_nil
  · intro a as iha ihas hw hn
    simp only [WFL, Bool.and_eq_true] at hw
    simp only [NoImagCplxL, Bool.and_eq_true] at hn
    exact remL_some_cons _ _ (iha hw.1 hn.1) (ihas hw.2 hn.2)

/-! ## Property theorems

Notation.  `ρ : Env K` is a valuation into a field `K` of characteristic 0 with operations `re`, `im`,
`conj`, `abs` (in complex mode `K = ℂ`, see Props/C23Complex.lean); `R : K → Prop` is "is a real number"
(`RealStruct`).  `RealEnv ρ R e`: the terminals of `e` the check classifies as real — arguments,
geometric quantities (real literals and zero are real by `RealStruct`) — take real values with all
their derivatives; every other terminal (coefficients, constants, complex literals) is arbitrary.
`FnReal ρ R totalRealFns`: exp, cos, sin, tan, cosh, sinh, tanh, atan, erf map reals to reals.
`wrapE` / `stripE` are the two passes without the constructor simplifications that
`_ufl_expr_reconstruct_` applies on the way (those preserve values: C05); `checkE` / `removeE`, the
passes with them, are what the correspondence compares with the implementation.

The FULL statement for the comparison check,

    ∀ e, WF e → wrapE e = some (e', τ) → (value of e' = value of e) ∧ (τ ≠ complex → e is real-valued)
              ∧ (every operand of every comparison / min / max in e is real-valued)

is FALSE of the code as it stands: `ln`, `acos`, `asin` applied to a real-typed operand are typed
real although they are complex outside their real domain (`C23_accepts_complex_operand_counterexample`,
`C23_check_changes_value_counterexample` in Props/C23Complex.lean).  The `_partial` theorems below
carry the missing side condition `SafeFns false e` (no such node); the `C23_fixed_*` theorems show
that the full statement holds for the repaired typing (`strict = true`: these functions get the
`sqrt` handler). -/

/-- **C23 (complex mode: the check does not change the value).**  For every well-formed integrand
    without `ln/acos/asin` that the check accepts, under every valuation in which arguments and
    geometry are real (coefficients, constants: arbitrary complex values), every side, index
    environment and component: the rewritten integrand (comparison operands wrapped in `Re`) has
    the value, shape and free indices of the original. -/
theorem C23_check_preserves_value_partial (ρ : Env K) (R : K → Prop) (hR : RealStruct ρ R)
    (hF : FnReal ρ R totalRealFns) (e e' : Expr) (τ : Ty) (hw : WF e = true) (hs : SafeFns false e = true) (hE : RealEnv ρ R e)
    (h : wrapE e = some (e', τ)) :
    (∀ side ι c, eval ρ side ι e' c = eval ρ side ι e c) ∧ shape e' = shape e ∧ Expr.fi e' = Expr.fi e :=
  let I := (sound_aux false ρ R hR hF).1 e hw hs hE e' τ h
  ⟨I.val, I.sh, I.fi⟩

/-- the same for a condition (the first operand of a conditional) -/
theorem C23_check_preserves_condition_partial (ρ : Env K) (R : K → Prop) (hR : RealStruct ρ R)
    (hF : FnReal ρ R totalRealFns) (p p' : Expr) (τ : Ty) (hw : WFC p = true) (hs : SafeFns false p = true) (hE : RealEnv ρ R p)
    (h : wrapE p = some (p', τ)) (side : Side) (ι : IdxEnv) : evalB ρ side ι p' = evalB ρ side ι p :=
  ((sound_aux false ρ R hR hF).2.1 p hw hs hE p' τ h).val side ι

/-- **C23 (the abstract interpretation is sound).**  A node the check types `real` or `bool` is
    real-valued, whatever complex values coefficients and constants take. -/
theorem C23_types_sound_partial (ρ : Env K) (R : K → Prop) (hR : RealStruct ρ R)
    (hF : FnReal ρ R totalRealFns) (e e' : Expr) (τ : Ty) (hw : WF e = true) (hs : SafeFns false e = true) (hE : RealEnv ρ R e)
    (h : wrapE e = some (e', τ)) (hτ : τ ≠ .complex) (side : Side) (ι : IdxEnv) (c : List Nat) : R (eval ρ side ι e c) := by
  have I := (sound_aux false ρ R hR hF).1 e hw hs hE e' τ h
  rw [← I.val]; exact I.real hτ side ι c

/-- **C23 (only comparisons of real quantities are accepted).**  If the check accepts an integrand,
    then every operand of every ordering comparison, `min_value` and `max_value` anywhere in it is
    real-valued for every valuation with real arguments and geometry: a comparison whose operand
    *may* be complex is never accepted. -/
theorem C23_accepted_comparisons_real_partial (ρ : Env K) (R : K → Prop) (hR : RealStruct ρ R)
    (hF : FnReal ρ R totalRealFns) (e e' : Expr) (τ : Ty) (hw : WF e = true) (hs : SafeFns false e = true) (hE : RealEnv ρ R e)
    (h : wrapE e = some (e', τ)) (k : Op) (aux : List Nat) (args : List Expr) (hsub : Sub (.op k aux args) e)
    (hk : isCmpOp k = true) (a : Expr) (ha : a ∈ args) (side : Side) (ι : IdxEnv) (c : List Nat) :
    R (eval ρ side ι a c) := by
  have I := (sound_aux false ρ R hR hF).1 e hw hs hE e' τ h
  have hn := cmpReal_sub ρ R _ _ hsub I.cmp
  simp only [CmpReal] at hn
  exact allRealL_mem ρ R args (hn.1 hk) a ha side ι c

/-- **C23 (repaired typing: full statement).**  With `ln`, `acos`, `asin` typed like `sqrt` the
    three statements hold for every well-formed integrand, without side condition. -/
theorem C23_fixed_check_sound (ρ : Env K) (R : K → Prop) (hR : RealStruct ρ R)
    (hF : FnReal ρ R totalRealFns) (e e' : Expr) (τ : Ty) (hw : WF e = true) (hE : RealEnv ρ R e) (h : wrapFixedE e = some (e', τ)) :
    (∀ side ι c, eval ρ side ι e' c = eval ρ side ι e c) ∧ shape e' = shape e ∧ Expr.fi e' = Expr.fi e ∧
    (τ ≠ .complex → ∀ side ι c, R (eval ρ side ι e c)) ∧
    (∀ k aux args, Sub (.op k aux args) e → isCmpOp k = true → ∀ a ∈ args, ∀ side ι c, R (eval ρ side ι a c)) := by
  have I := (sound_aux true ρ R hR hF).1 e hw (safe_strict e) hE e' τ h
  refine ⟨I.val, I.sh, I.fi, fun hτ side ι c => by rw [← I.val]; exact I.real hτ side ι c, ?_⟩
  intro k aux args hsub hk a ha side ι c
  have hn := cmpReal_sub ρ R _ _ hsub I.cmp
  simp only [CmpReal] at hn
  exact allRealL_mem ρ R args (hn.1 hk) a ha side ι c

/-- **C23 (rejection).**  Whatever the node constructor (`rb`: with or without simplifications) and
    whichever typing (`strict`): an ordering comparison, `min_value` or `max_value` one of whose
    operands is typed `complex` makes the whole check raise, wherever it occurs in the integrand. -/
theorem C23_rejects_complex_operand (strict : Bool) (rb : Rb) (e : Expr) (k : Op) (aux : List Nat) (args : List Expr)
    (hsub : Sub (.op k aux args) e) (hk : isCmpOp k = true) (a a' : Expr) (ha : a ∈ args)
    (hc : checkWith strict rb a = some (a', .complex)) : checkWith strict rb e = none := by
  apply check_none_of_sub _ _ hsub
  simp only [checkWith]
  cases hl : checkL strict rb args with
  | none => rfl
  | some rs =>
    have hm := checkL_mem args rs a (a', .complex) hl ha hc
    apply cmp_node_rejects strict rb k aux args rs hk
    simp only [List.contains_iff_mem, List.mem_map]
    exact ⟨(a', .complex), hm, rfl⟩

/-- what is typed `complex`: every terminal that is not a real literal, zero, an argument or a
    geometric quantity (coefficients, constants, complex literals), square roots, powers with a
    non-integer or non-literal exponent or a non-real base -/
theorem C23_complex_typed (strict : Bool) (rb : Rb) :
    (∀ d : TermData, realCls d.cls = false → checkWith strict rb (.term d) = some (.term d, .complex)) ∧
    (∀ a b c d, checkWith strict rb (.cplx a b c d) = some (.cplx a b c d, .complex)) ∧
    (∀ aux a r, checkWith strict rb (.op .sqrt aux [a]) = some r → r.2 = .complex) ∧
    (∀ aux a x r, isTerminal x = true → intExponent x = false →
      checkWith strict rb (.op .power aux [a, x]) = some r → r.2 = .complex) ∧
    (∀ aux a x a' ta r, checkWith strict rb a = some (a', ta) → ta ≠ .real →
      checkWith strict rb (.op .power aux [a, x]) = some r → r.2 = .complex) := by
  refine ⟨fun d hd => by simp [checkWith, termTy, hd], fun a b c d => by simp [checkWith], ?_, ?_, ?_⟩
  · intro aux a r h
    obtain ⟨ra, _, hn⟩ := check1 h
    simp only [checkNode, checkHandlerG, Option.map] at hn
    split at hn <;> simp_all
    obtain ⟨_, rfl⟩ := hn; rfl
  · intro aux a x r ht hx h
    obtain ⟨ra, rb', _, hb, hn⟩ := check2 h
    have hx' : rb'.1 = x := by
      cases x <;> simp_all [checkWith, isTerminal] <;> (subst hb; rfl)
    simp only [checkNode, checkHandlerG, Option.map] at hn
    split at hn <;> simp_all
    obtain ⟨_, rfl⟩ := hn; rfl
  · intro aux a x a' ta r ha hta h
    obtain ⟨ra, rb', ha', hb, hn⟩ := check2 h
    rw [ha] at ha'
    simp only [Option.some.injEq] at ha'
    subst ha'
    simp only [checkNode, checkHandlerG, Option.map] at hn
    split at hn <;> simp_all
    obtain ⟨_, rfl⟩ := hn; rfl

/-- **C23 (real mode: removing `conj` / `Re` nodes does not change the value for real data).**
    If every value is real (`RealValued`: in particular when the scalar field itself is real) the
    stripped integrand has the value, shape and free indices of the original. -/
theorem C23_remove_preserves_value (ρ : Env K) (R : K → Prop) (hV : RealValued ρ R) (e e' : Expr) (hw : WF e = true)
    (h : stripE e = some e') :
    (∀ side ι c, eval ρ side ι e' c = eval ρ side ι e c) ∧ shape e' = shape e ∧ Expr.fi e' = Expr.fi e :=
  let I := (strip_aux ρ R hV).1 e hw e' h
  ⟨I.val, I.sh, I.fi⟩

/-- real scalar field: `conj` and `Re` are the identity -/
theorem C23_remove_preserves_value_real_field (ρ : Env K) (hc : ∀ x, ρ.conj x = x) (hr : ∀ x, ρ.re x = x) (e e' : Expr)
    (hw : WF e = true) (h : stripE e = some e') (side : Side) (ι : IdxEnv) (c : List Nat) :
    eval ρ side ι e' c = eval ρ side ι e c :=
  (C23_remove_preserves_value ρ (fun _ => True) ⟨fun _ _ _ _ => trivial, fun x _ => hr x, fun x _ => hc x⟩ e e' hw h).1 side ι c

/-- **C23 (real mode: rejection).**  An imaginary part or a complex literal anywhere in the
    integrand makes the removal raise (with or without constructor simplifications). -/
theorem C23_remove_rejects (rb : Rb) (e n : Expr) (hsub : Sub n e)
    (hn : (∃ aux args, n = .op .imag aux args) ∨ (∃ a b c d, n = .cplx a b c d)) : removeWith rb e = none := by
  apply rem_none_of_sub _ _ hsub
  rcases hn with ⟨aux, args, rfl⟩ | ⟨a, b, c, d, rfl⟩
  · simp only [removeWith]
    cases removeL rb args <;> simp [removeHandler]
  · simp [removeWith]

/-- **C23 (real mode: nothing else is rejected).**  A well-formed integrand without imaginary parts
    and complex literals is accepted. -/
theorem C23_remove_accepts (e : Expr) (hw : WF e = true) (hn : NoImagCplx e = true) : ∃ e', stripE e = some e' :=
  Option.isSome_iff_exists.mp (accepts_aux.1 e hw hn)

/-! ### tie to the regenerated handler tables (Gen/Dispatch.lean)

C19 proves that the table every MultiFunction class computes is the nearest-ancestor resolution of
the set of handler names the class defines.  The two theorems below pin that set for the two
classes modelled here, against the table regenerated from the live classes on every run: exactly
the handlers `checkHandlerG` / `removeHandler` and `termTy` model (`strict = false`: the code as it
stands; second disjunct: the repaired typing, `ln`, `acos`, `asin`, `bessel_function` aliases of
`sqrt`).  `sign = compare` is defined by the class but is no handler: there is no `Sign` type. -/

def definedHandlers (alg : String) : List String :=
  match Gen.Dispatch.algs.find? (fun a => a.1 == alg) with
  | some a => a.2.2.1.map (fun i => Gen.Dispatch.handlerNames.getD i "")
  | none => []

theorem C23_handlers_defined_check :
    definedHandlers "ufl.algorithms.comparison_checker.CheckComparisons" =
      ["abs", "expr", "ge", "gt", "imag", "indexed", "le", "lt", "max_value", "min_value", "power", "real", "sqrt",
       "terminal", "ufl_type"] ∨
    definedHandlers "ufl.algorithms.comparison_checker.CheckComparisons" =
      ["abs", "acos", "asin", "bessel_function", "expr", "ge", "gt", "imag", "indexed", "le", "ln", "lt", "max_value",
       "min_value", "power", "real", "sqrt", "terminal", "ufl_type"] := by decide +kernel

theorem C23_handlers_defined_remove :
    definedHandlers "ufl.algorithms.remove_complex_nodes.ComplexNodeRemoval" =
      ["conj", "expr", "imag", "real", "terminal", "ufl_type"] := by decide +kernel

/-! non-vacuity: concrete instances of the hypotheses, with a visible effect -/
def exF : Expr := .term { cls := "Coefficient", key := "f", shape := [] }
def exG : Expr := .term { cls := "Coefficient", key := "g", shape := [] }
/-- `conj(f) * Re(g) + conditional(Re(f) < g, f, conj(g))` -/
def exRem : Expr := .op .sum [] [.op .product [] [.op .conj [] [exF], .op .real [] [exG]],
  .op .conditional [] [.op .lT [] [.op .real [] [exF], exG], exF, .op .conj [] [exG]]]
example : WF exRem = true ∧ NoImagCplx exRem = true := by decide
example : stripE exRem = some (.op .sum [] [.op .product [] [exF, exG], .op .conditional [] [.op .lT [] [exF, exG], exF, exG]]) := by
  simp [stripE, exRem, exF, exG, removeWith, removeL, removeHandler, reuse, plainRb, beqL, beq]
example : removeE (.op .product [] [.op .imag [] [exF], exG]) = none := by
  simp [removeE, removeWith, removeL, removeHandler, exF]
example : removeE (.op .product [] [.cplx 1 1 2 1, exG]) = none := by
  simp [removeE, removeWith, removeL]

end UflVerif.C23
