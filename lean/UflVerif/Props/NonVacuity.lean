/-
Non-vacuity audit of the property theorems C05 C06 C07 C08 C10 C13 C19 C20 C21 C24 C25 C26 C29.

Background: `C21_substitution` was vacuous (its hypothesis `MapOK m` is unsatisfiable for every mapping that maps
anything, see `C21.MapOK_vacuous`) and nobody noticed because the `example`s next to it never instantiated the
hypothesis.  This file INSTANTIATES THE THEOREMS THEMSELVES: for every property theorem with a hypothesis that is not
an obviously satisfiable decidable fact about an arbitrary input (structure-valued assumptions such as `LitSem ρ`,
`ConjOK ρ`, `PowOK ρ`, `JetSymm ρ`, `TermsOK T`, `TermEquiv T`; `Function.Injective σ`; relations between several
arguments such as `mkX a b = some r`, `uniquePost t = pre ++ n :: suf`, `lt a b = some r`; predicates over all
terminals / all registered types; non-degeneracy of a cell) there is an `example := C.._theorem <concrete arguments>`
in which every hypothesis is discharged, on an input that exercises the interesting branch.

Result: no further vacuous theorem.  Every hypothesis of every theorem in scope is jointly satisfiable by a
non-trivial instance; `LitSem` and `ConjOK` are moreover satisfiable in complex mode (true conjugation), not only by
the rational valuation with `conj = id`.  See REPORT_audit.txt for the theorem-by-theorem table.
-/
import UflVerif.Props.C05Rebuild
import UflVerif.Props.C10
import UflVerif.Props.C10Rename
import UflVerif.Props.C13
import UflVerif.Props.C19
import UflVerif.Props.C19Dispatch
import UflVerif.Props.C20
import UflVerif.Props.C24
import UflVerif.Props.C25
import UflVerif.Props.C26
import UflVerif.Props.C29
import UflVerif.Props.C06
import UflVerif.Props.C07
import UflVerif.Props.C08
import Mathlib.Tactic.NormNum
import Mathlib.Analysis.SpecialFunctions.Pow.Complex

namespace UflVerif.NonVacuity
open UflVerif Expr

/-- decidable equality of expressions from the executable `beq` (so that `mkX a b = some r` is `decide`-able) -/
instance instDecEqExpr : DecidableEq Expr := fun a b =>
  if h : beq a b = true then isTrue (beq_eq a b h)
  else isFalse (fun e => h (e ▸ C21.beq_refl a))

def f : Expr := .term { cls := "Coefficient", key := "f", shape := [], count := 0 }
def g : Expr := .term { cls := "Coefficient", key := "g", shape := [], count := 1 }
def v : Expr := .term { cls := "Coefficient", key := "v", shape := [2], count := 2 }
def w : Expr := .term { cls := "Coefficient", key := "w", shape := [2], count := 3 }
def A : Expr := .term { cls := "Coefficient", key := "A", shape := [2, 2], count := 4 }

/-- a rational valuation with distinct values for every component -/
def raw : RawEnv :=
  { vals := [("f", [], 2), ("g", [], -3), ("v", [0], 5), ("v", [1], 7), ("w", [0], 11), ("w", [1], 13),
             ("h", [], 23), ("A", [0, 0], 1), ("A", [0, 1], 2), ("A", [1, 0], 3), ("A", [1, 1], 4)],
    jets := [("f", [], [0], 17), ("f", [], [1], 19)] }
def ρ0 : Env ℚ := raw.rat
theorem hρ0 : C05.LitSem ρ0 := C05.litSem_rat raw
/-- a non-constant index environment -/
def ι0 : IdxEnv := fun i => i % 2

end UflVerif.NonVacuity

namespace UflVerif.NonVacuity.C05
open UflVerif Expr UflVerif.C05 UflVerif.NonVacuity

/-! ## C05 (Props/C05.lean) — no `example` existed in that file -/

/-- the valuation is not trivial: `LitSem` is instantiated by `litSem_rat` on a table with ten distinct values -/
example : eval ρ0 .none ι0 (.op .sum [] [f, g]) [] = -1 := by decide +kernel

-- C05_mkSum: operands given in the "wrong" order are sorted (g + f ↦ Sum(f, g)) ...
example := C05_mkSum ρ0 .none ι0 g f (.op .sum [] [f, g]) (by decide +kernel) (by decide +kernel)
-- ... literal folding 2 + 1/2 ↦ FloatValue(5/2) ...
example := C05_mkSum ρ0 .none ι0 (.int 2) (.real 1 2) (.real 5 2) (by decide +kernel) (by decide +kernel)
-- ... and zero folding on a vector with a free index: Zero + v ↦ v
example := C05_mkSum ρ0 .plus ι0 (.zero [2] []) v v (by decide +kernel) (by decide +kernel)

-- C05_mkProduct: sorting (g * f ↦ Product(f, g)), one-folding (1 * f ↦ f), literal folding (2 * 3/2 ↦ 3.0)
example := C05_mkProduct ρ0 .none ι0 g f (.op .product [] [f, g]) (by decide +kernel) (by decide +kernel)
example := C05_mkProduct ρ0 .none ι0 (.int 1) f f (by decide +kernel) (by decide +kernel)
example := C05_mkProduct ρ0 .none ι0 (.int 2) (.real 3 2) (.real 3 1) (by decide +kernel) (by decide +kernel)

-- C05_mkDivision: literal folding 3 / 2 ↦ FloatValue(3/2); plain node f / g
example := C05_mkDivision ρ0 .none ι0 (.int 3) (.int 2) (.real 3 2) (by decide +kernel) (by decide +kernel)
example := C05_mkDivision ρ0 .none ι0 f g (.op .division [] [f, g]) (by decide +kernel) (by decide +kernel)

/-- v[i] * w[j] with i = 7, j = 8 -/
def vw : Expr := .op .product [] [.op .indexed [] [v, .mi [.free 7]], .op .indexed [] [w, .mi [.free 8]]]
-- C05_mkIndexSum: the sum over j is pushed into the factor that carries j: Σ_j v[i] w[j] ↦ v[i] * Σ_j w[j]
example : mkIndexSum vw 8 =
    some (.op .product [] [.op .indexed [] [v, .mi [.free 7]], .op .indexSum [] [.op .indexed [] [w, .mi [.free 8]], .mi [.free 8]]]) := by
  decide +kernel
example := C05_mkIndexSum ρ0 .none vw 8 ι0
  (.op .product [] [.op .indexed [] [v, .mi [.free 7]], .op .indexSum [] [.op .indexed [] [w, .mi [.free 8]], .mi [.free 8]]])
  (by decide +kernel) (by decide +kernel) (by decide +kernel) [] (by decide +kernel)

-- C05_mkIndexed_partial: (v + [f, g])[1] ↦ distribution over the sum, selection of the list-tensor row: v[1] + g
def vfg : Expr := .op .sum [] [v, .op .listTensor [] [f, g]]
example : mkIndexed vfg [.fixed 1] = some (.op .sum [] [.op .indexed [] [v, .mi [.fixed 1]], g]) := by decide +kernel
example := C05_mkIndexed_partial ρ0 .none vfg [.fixed 1] (.op .sum [] [.op .indexed [] [v, .mi [.fixed 1]], g])
  (by decide +kernel) (by decide +kernel) (by decide +kernel) (by decide +kernel) (by decide +kernel) (by decide +kernel)
-- ... indexing inside an index sum, (Σ_j [A[0,j], A[1,j]])[1] ↦ Σ_j A[1,j]; with the summation index itself the node stays outside
def S8 : Expr := .op .indexSum [] [.op .listTensor [] [.op .indexed [] [A, .mi [.fixed 0, .free 8]], .op .indexed [] [A, .mi [.fixed 1, .free 8]]], .mi [.free 8]]
example := C05_mkIndexed_partial ρ0 .none S8 [.fixed 1] (.op .indexSum [] [.op .indexed [] [A, .mi [.fixed 1, .free 8]], .mi [.free 8]])
  (by decide +kernel) (by decide +kernel) (by decide +kernel) (by decide +kernel) (by decide +kernel) (by decide +kernel)
example := C05_mkIndexed_partial ρ0 .none S8 [.free 8] (.op .indexed [] [S8, .mi [.free 8]])
  (by decide +kernel) (by decide +kernel) (by decide +kernel) (by decide +kernel) (by decide +kernel) (by decide +kernel)

-- C05_mkComponentTensor, the shortcut as_tensor(A[i, j], (i, j)) ↦ A: `hsc` is discharged (i, j distinct and not free in A)
example := C05_mkComponentTensor ρ0 .none ι0 (.op .indexed [] [A, .mi [.free 7, .free 8]]) [.free 7, .free 8] A
  (by decide +kernel) (by decide +kernel)
  (by
    intro x A' h
    have hA : A' = A := by injection h with _ _ h3; injection h3 with h4 _; exact h4.symm
    subst hA
    exact ⟨[7, 8], by decide +kernel, by decide +kernel, by decide +kernel⟩)
  [1, 0] (by decide +kernel)
-- ... and the plain node as_tensor(v[i] * f, (i,))
example := C05_mkComponentTensor ρ0 .none ι0 (.op .product [] [.op .indexed [] [v, .mi [.free 7]], f]) [.free 7]
  (.op .componentTensor [] [.op .product [] [.op .indexed [] [v, .mi [.free 7]], f], .mi [.free 7]])
  (by decide +kernel) (by decide +kernel) (by intro x A' h; cases h) [1] (by decide +kernel)

-- C05_mkConditional: conditional(f < g, v, w) (plain) and equal branches folding
example := C05_mkConditional ρ0 .none ι0 (.op .lT [] [f, g]) v w (.op .conditional [] [.op .lT [] [f, g], v, w]) (by decide +kernel) [1]
example := C05_mkConditional ρ0 .none ι0 (.op .lT [] [f, g]) v v v (by decide +kernel) [1]

-- C05_mkListTensor_partial: the collapse [v[0], v[1]] ↦ v, read at component 1; `hno` and `hc` discharged
example := C05_mkListTensor_partial ρ0 .none ι0 [.op .indexed [] [v, .mi [.fixed 0]], .op .indexed [] [v, .mi [.fixed 1]]] v
  (by decide +kernel) (by decide +kernel) ⟨_, List.mem_cons_self, by decide +kernel⟩ 1 (by decide +kernel) []
  (by intro x hx; simp only [List.mem_cons, List.not_mem_nil, or_false] at hx; rcases hx with rfl | rfl <;> decide +kernel)

/-! ## C05 (Props/C05Rebuild.lean): the constructors that need `LitSem` — instantiated with `litSem_rat` -/

-- C05_mkAbs: |−3| ↦ 3, Abs(Conj(f)) ↦ Abs(f)
example := C05_mkAbs ρ0 hρ0 .none ι0 (.int (-3)) (.int 3) (by decide +kernel) (by decide +kernel) []
example := C05_mkAbs ρ0 hρ0 .none ι0 (.op .conj [] [g]) (.op .abs [] [g]) (by decide +kernel) (by decide +kernel) []
-- C05_mkConj: Conj(Conj(f)) ↦ f
example := C05_mkConj ρ0 hρ0 .none ι0 (.op .conj [] [f]) f (by decide +kernel) (by decide +kernel) []
-- C05_mkReal: Real(Conj(v)) keeps the original operand
example := C05_mkReal ρ0 hρ0 .none ι0 (.op .conj [] [v]) (.op .real [] [.op .conj [] [v]]) (by decide +kernel) (by decide +kernel) [1]
-- C05_mkImag: Imag(Abs(f)) ↦ Zero
example := C05_mkImag ρ0 hρ0 .none ι0 (.op .abs [] [f]) (.zero [] []) (by decide +kernel) (by decide +kernel) []
-- C05_mkPower: 2 ** 3 ↦ 8, (1/2) ** -2 ↦ 4.0, f ** 1 ↦ f, Zero ** 2 ↦ Zero; `powSC` discharged
example := C05_mkPower ρ0 hρ0 .none ι0 (.int 2) (.int 3) (.int 8) (by decide +kernel) (by decide +kernel) (by decide +kernel) []
example := C05_mkPower ρ0 hρ0 .none ι0 (.real 1 2) (.int (-2)) (.real 4 1) (by decide +kernel) (by decide +kernel) (by decide +kernel) []
example := C05_mkPower ρ0 hρ0 .none ι0 f (.int 1) f (by decide +kernel) (by decide +kernel) (by decide +kernel) []
example := C05_mkPower ρ0 hρ0 .none ι0 (.zero [] []) (.int 2) (.zero [] []) (by decide +kernel) (by decide +kernel) (by decide +kernel) []
-- C05_mkMinMax / C05_mkCondition / C05_mkNot (argument checks only)
example := C05_mkMinMax ρ0 .none ι0 .minValue (Or.inl rfl) [] f g (.op .minValue [] [f, g]) (by decide +kernel) []
example := C05_mkMinMax ρ0 .none ι0 .maxValue (Or.inr rfl) [] f g (.op .maxValue [] [f, g]) (by decide +kernel) []
example := C05_mkCondition ρ0 .none ι0 .lT [] f g (.op .lT [] [f, g]) (by decide +kernel)
example := C05_mkCondition ρ0 .none ι0 .andCondition [] (.op .lT [] [f, g]) (.op .eQ [] [f, g])
  (.op .andCondition [] [.op .lT [] [f, g], .op .eQ [] [f, g]]) (by decide +kernel)
example := C05_mkNot ρ0 .none ι0 [] (.op .lT [] [f, g]) (.op .notCondition [] [.op .lT [] [f, g]]) (by decide +kernel)
-- C05_mkListTensor_plain: [f, g·f] (no collapse pattern), and the all-zero folding
example := C05_mkListTensor_plain ρ0 .none ι0 [] [f, .op .product [] [f, g]] (.op .listTensor [] [f, .op .product [] [f, g]])
  (by decide +kernel) (by decide +kernel) (by decide +kernel)
example := C05_mkListTensor_plain ρ0 .none ι0 [] [.zero [2] [], .zero [2] []] (.zero [2, 2] [])
  (by decide +kernel) (by decide +kernel) (by decide +kernel)
-- C05_mkPower_zero_literal_counterexample (takes `LitSem`)
example := C05_mkPower_zero_literal_counterexample ρ0 hρ0 .none ι0

/-! ### `rebuild_sound_partial` / `rebuild_sound_cond` (not C-named, but every C21 `_partial` theorem rests on them) -/
example := rebuild_sound_partial ρ0 hρ0 .none ι0 .power [] [.int 2, .int 3] (.int 8) (by decide +kernel) (by decide +kernel)
  (by decide +kernel) (by decide +kernel)
example := rebuild_sound_partial ρ0 hρ0 .none ι0 .indexed [] [vfg, .mi [.fixed 1]] (.op .sum [] [.op .indexed [] [v, .mi [.fixed 1]], g])
  (by decide +kernel) (by decide +kernel) (by decide +kernel) (by decide +kernel)
example := rebuild_sound_partial ρ0 hρ0 .none ι0 .componentTensor [] [.op .indexed [] [A, .mi [.free 7, .free 8]], .mi [.free 7, .free 8]] A
  (by decide +kernel) (by decide +kernel) (by decide +kernel) (by decide +kernel)

end UflVerif.NonVacuity.C05

namespace UflVerif.NonVacuity.C21
open UflVerif Expr UflVerif.C05 UflVerif.C21 UflVerif.NonVacuity

/-! ## C21 (Props/C05Rebuild.lean, Props/C21.lean)

The existing `example` for `C21_replace_value_partial` keeps `ρ` and `hρ : LitSem ρ` as variables;
here every hypothesis including `LitSem` is instantiated (`ρ0`, `hρ0 = litSem_rat raw`), on the mapping
v ↦ [g, h] and `exE3 = v[1] * Σ_i v[i] w[i]` (the result differs from plain substitution). -/

def r3 : Expr :=
  .op .product [] [exH, .op .indexSum [] [.op .product [] [.op .indexed [] [.op .listTensor [] [exG, exH], .mi [.free 7]],
    .op .indexed [] [exW, .mi [.free 7]]], .mi [.free 7]]]

example : r3 ≠ substE exM3 exE3 := by decide +kernel

-- C21_replace_value_partial
example := C21_replace_value_partial ρ0 hρ0 exM3 ι0 .none ι0 exE3 r3 (by decide +kernel) (by decide +kernel) (by decide +kernel)
  (by decide +kernel) (by decide +kernel) (by decide +kernel) [] (by decide +kernel)
-- ... the two sides really are the non-trivial number 23 * (-3 * 11 + 23 * 13)
example : eval ρ0 .none ι0 r3 [] = 23 * (-3 * 11 + 23 * 13) := by decide +kernel

-- C21_replace_wf_partial
example := C21_replace_wf_partial exM3 exE3 r3 (by decide +kernel) (by decide +kernel) (by decide +kernel)
  (by decide +kernel) (by decide +kernel) (by decide +kernel)

-- C21_replace_eq_subst_partial
example := C21_replace_eq_subst_partial ρ0 hρ0 exM3 .none ι0 exE3 r3 (by decide +kernel) (by decide +kernel) (by decide +kernel)
  (by decide +kernel) (by decide +kernel) (by decide +kernel) [] (by decide +kernel)

-- C21_substitution_on (plain substitution), on a vector-valued expression with a free index: (v + w) * w[i], component [1]
def eOpen : Expr := .op .componentTensor [] [.op .product [] [.op .indexed [] [.op .sum [] [exV, exW], .mi [.free 5]],
  .op .indexed [] [exV, .mi [.free 6]]], .mi [.free 5]]
example : shape eOpen = [2] ∧ fi eOpen = [(6, 2)] := by decide +kernel
example := C21_substitution_on ρ0 exM3 ι0 .none ι0 eOpen [1] (by decide +kernel) (by decide +kernel) (by decide +kernel)
  (by decide +kernel) (by decide +kernel)
-- ... and with a `Variable` whose label is not mapped (VarOK exercised)
def eVar : Expr := .op .variable [] [.op .indexed [] [exV, .mi [.fixed 0]], .term { cls := "Label", key := "L", shape := [] }]
example := C21_substitution_on ρ0 exM3 ι0 .none ι0 eVar [] (by decide +kernel) (by decide +kernel) (by decide +kernel)
  (by decide +kernel) (by decide +kernel)

-- C21_replace_cond_partial: (v[0] < f) ∧ ¬(v[1] == h)  ↦  (g < f) ∧ ¬(h == h)
def cnd : Expr := .op .andCondition [] [.op .lT [] [.op .indexed [] [exV, .mi [.fixed 0]], exF],
  .op .notCondition [] [.op .eQ [] [.op .indexed [] [exV, .mi [.fixed 1]], exH]]]
def cnd' : Expr := .op .andCondition [] [.op .lT [] [exG, exF], .op .notCondition [] [.op .eQ [] [exH, exH]]]
example := C21_replace_cond_partial ρ0 hρ0 exM3 ι0 .none ι0 cnd cnd' (by decide +kernel) (by decide +kernel) (by decide +kernel)
  (by decide +kernel) (by decide +kernel) (by decide +kernel)

-- C21_identity: a mapping that maps something, applied to an expression in which it does not occur
example := C21_identity exM3 (.op .product [] [exF, .op .indexed [] [exW, .mi [.fixed 1]]]) (by decide +kernel) (by decide +kernel)
-- C21_rejects_shape: v (shape [2]) ↦ g (scalar)
example := C21_rejects_shape [("f", exF), ("v", exG)] (fun k => if k = "v" then some [2] else none) "v" exG [2]
  (by simp) (by simp) (by decide +kernel)
-- C21_rejects_unapplied_derivative has no hypothesis
example := C21_rejects_unapplied_derivative exM3 [] [exV, exW]

end UflVerif.NonVacuity.C21

namespace UflVerif.NonVacuity.C10
open UflVerif Expr UflVerif.C10r UflVerif.NonVacuity

/-! ## C10 (Props/C10Rename.lean)

Already covered there by `example`s that instantiate the theorem with all hypotheses discharged on an
expression with a bound and a free index: `C10_rename_value` (σ = · + 10), `C10_renumber_plain_value`,
`C10_renumber_closed`.  The others are instantiated here with a renaming that is injective but NOT
monotone (the transposition 3 ↔ 5), so that free-index lists have to be re-sorted. -/

def swap35 (i : Nat) : Nat := if i = 3 then 5 else if i = 5 then 3 else i
theorem swap35_inj : Function.Injective swap35 := by
  intro a b h
  unfold swap35 at h
  split at h <;> split at h <;> (try split at h) <;> (try split at h) <;> omega

/-- `A[i, j] + Zero(i, j)` with i = 3 (extent 2), j = 5 (extent 3): two free indices, one `Zero` node that stores them -/
def e2 : Expr := .op .sum [] [.op .indexed [] [exA, .mi [.free 3, .free 5]], .zero [] [(3, 2), (5, 3)]]
example : WF e2 = true ∧ fi e2 = [(3, 2), (5, 3)] ∧ fi (renameIdx swap35 e2) = [(3, 3), (5, 2)] := by decide +kernel

-- C10_rename_fi, C10_rename_fi_eq
example := C10_rename_fi swap35 swap35_inj e2 (by decide +kernel)
example := C10_rename_fi_eq swap35 swap35_inj e2 (by decide +kernel)
-- C10_rename_value with the non-monotone renaming (the existing example uses a shift)
def ι1 : IdxEnv := fun i => if i = 5 then 1 else 0
example := C10_rename_value ρ0 swap35 swap35_inj .none ι1 e2 [] (by decide +kernel) (by decide +kernel)
example : eval ρ0 .none ι1 (renameIdx swap35 e2) [] = 3 ∧ eval ρ0 .none ι1 e2 [] = 2 := by decide +kernel

-- C10_rename_closed: the closed `exC` (bound indices 3 and 5)
example := C10_rename_closed ρ0 swap35 swap35_inj .none ι0 exC [] (by decide +kernel) (by decide +kernel) (by decide +kernel)
example : renameIdx swap35 exC ≠ exC := by decide +kernel

-- C10_rename_cond_wf, C10_rename_cond: a condition over closed operands with bound indices
def p : Expr := .op .andCondition [] [.op .lT [] [exC, .int 3], .op .notCondition [] [.op .eQ [] [exC, exC]]]
example := C10_rename_cond_wf swap35 swap35_inj p (by decide +kernel)
example := C10_rename_cond ρ0 swap35 swap35_inj .none ι0 p (by decide +kernel)

-- C10_newNumber_injective, C10_newNumber_position: a duplicate-free first-seen order
example := C10_newNumber_injective [5, 3, 9] (by decide)
example := C10_newNumber_position [5, 3, 9] (by decide) 2 (by decide)
-- C10_renumber_plain_fi
example := C10_renumber_plain_fi e2 (by decide +kernel)
example := C10_renumber_plain_fi exE (by decide +kernel)

end UflVerif.NonVacuity.C10

/-! ## C13 (Props/C13.lean): `TermsOK T`, `TermEquiv T` — no instance of `TermObs` existed -/
namespace UflVerif.NonVacuity.C13
open UflVerif Expr UflVerif.C13 UflVerif.NonVacuity

/-- terminal observers that are NOT syntactic equality: a terminal's `count` is invisible to ==, hash and repr -/
def norm : Expr → Expr
  | .term d => .term { d with count := 0 }
  | e => e
def T0 : TermObs where
  teq a b := beq (norm a) (norm b)
  thash a := (reprOf (norm a)).length
  trepr a := reprOf (norm a)
  mix name hs := hs.foldl (fun acc h => 31 * acc + h) name.length

theorem T0_ok : TermsOK T0 := by
  intro a b _ _ h
  have e : norm a = norm b := beq_eq _ _ h
  simp only [T0, e, and_self]
theorem T0_equiv : TermEquiv T0 where
  refl a _ := C21.beq_refl _
  symm a b _ _ h := by
    have e : norm a = norm b := beq_eq _ _ h
    simp only [T0, e]; exact C21.beq_refl _
  trans a b c _ _ _ h1 h2 := by
    have e1 : norm a = norm b := beq_eq _ _ h1
    have e2 : norm b = norm c := beq_eq _ _ h2
    simp only [T0, e1, e2]; exact C21.beq_refl _

/-- two expressions that are == without being the same tree (different `aux`, different terminal count) -/
def a : Expr := .op .sum [3] [.term { cls := "Coefficient", key := "f", shape := [], count := 0 }, .op .abs [] [g]]
def b : Expr := .op .sum [] [.term { cls := "Coefficient", key := "f", shape := [], count := 9 }, .op .abs [1] [g]]
example : a ≠ b ∧ eqE T0 a b = true ∧ eqE T0 a (.op .sum [] [g, .op .abs [] [g]]) = false := by decide +kernel

example := C13_eq_implies_hash_repr T0 T0_ok a b (by decide +kernel)
example := C13_equivalence T0 T0_equiv
example := C13_compare_is_pure T0 T0_ok T0_equiv a b (by decide +kernel)
example : share a b ≠ a := by decide +kernel
end UflVerif.NonVacuity.C13

/-! ## C19 (Props/C19.lean) -/
namespace UflVerif.NonVacuity.C19
open UflVerif.Trav UflVerif.C19

-- C19_post_operands_first: the split of the post-order of `exT` (sharing at two depths) at the node labelled 3
example := C19_post_operands_first exT [.node 2 [], .node 1 [.node 2 []]] [exT] (.node 3 [.node 1 [.node 2 []]]) (by decide)
-- C19_map_dag_eq_tree: with a cut-off type (`hcut` has a false premise) and without (`hcut` proved), a handler that depends on
-- the node and on every operand result
def h (t : Tree) (rs : List (Option Nat)) : Nat := rs.foldl (fun acc r => 10 * acc + r.getD 7) (t.label + 1)
example := C19_map_dag_eq_tree (R := Nat) (fun t => t.label == 1) h true (fun e => by cases e) exT
example := C19_map_dag_eq_tree (R := Nat) (fun _ => false) h false (fun _ _ => rfl) exT
example : mapTree (fun t => t.label == 1) h exT ≠ mapTree (fun _ => false) h exT := by decide
-- C19_post_exactly_once, C19_cutoff_post, C19_pre_exactly_once, C19_dag_traverser_memo_sound and the four
-- C19_dispatch_* theorems have no hypothesis beyond the universally quantified input.
end UflVerif.NonVacuity.C19

/-! ## C20 (Props/C20.lean): the existing `example` evaluates the model but does not instantiate a theorem -/
namespace UflVerif.NonVacuity.C20
open UflVerif.Dispatch UflVerif.C20

def algB : Alg := { name := "B", defined := ["operator", "sum", "ufl_type"] }
def algs : List Alg := [{ name := "A", defined := ["expr", "ufl_type"] }, algB]
/-- a history with a LATE registration: class B is instantiated (table cached), then a type is registered -/
def late : List Dispatch.Op := [.inst 1, .inst 0, .reg exNew, .inst 1]
def early : List Dispatch.Op := [.reg ["terminal", "expr", "ufl_type"], .reg exNew]

theorem hty : ∀ m ∈ exTypes, WFMro m := by simp [exTypes, WFMro]
theorem hlate : ∀ t, Dispatch.Op.reg t ∈ late → WFMro t := by
  intro t ht; simp [late] at ht; subst ht; simp [WFMro, exNew]
theorem hearly : ∀ t, Dispatch.Op.reg t ∈ early → WFMro t := by
  intro t ht; simp [early] at ht; rcases ht with rfl | rfl <;> simp [WFMro, exNew]

-- C20_total: class B applied to the type registered after B's table was cached
example := C20_total algs exTypes late hty hlate 1 1 algB exNew (by decide) (by simp [WFAlg, algB]) (by decide)
example : (step algs (run algs (init exTypes) late) (.apply 1 1)).2 = .handler "operator" := by decide
-- C20_history_independent: the same type has index 1 after `late` and index 2 after `early`
example := C20_history_independent algs exTypes late early hty hlate hearly 1 1 2 algB exNew (by decide) (by simp [WFAlg, algB]) (by decide) (by decide)
-- C20_cache_current
example := C20_cache_current algs exTypes late 1 algB (by decide)
end UflVerif.NonVacuity.C20

/-! ## C24 (Props/C24.lean): the existing `example`s evaluate `evalI` but do not instantiate the theorems, and their valuation
has `jet = 0`, for which `JetSymm` is trivial -/
namespace UflVerif.NonVacuity.C24
open UflVerif Expr UflVerif.C24 UflVerif.NonVacuity

/-- derivative jets that depend on key, component and the multiset of directions -/
def ρJ : Env ℚ := { ρ0 with jet := fun _ key c ds => ((key.length + 10 * c.sum + 100 * ds.sum + 1000 * ds.length : Nat) : ℚ) }
theorem hJ : JetSymm ρJ := by intro sd key c ds; simp [ρJ, List.sum_reverse]

/-- Σ_i (as_vector(v[i]·g, i))[i] · v[i]: the same index bound by the component tensor and by the sum -/
def eSum : Expr :=
  .op .indexSum [] [.op .product [] [.op .indexed [] [.op .componentTensor [] [.op .product [] [.op .indexed [] [v, .mi [.free 7]], g], .mi [.free 7]], .mi [.free 7]],
                                     .op .indexed [] [v, .mi [.free 7]]], .mi [.free 7]]
-- C24_sound
example := C24_sound ρJ hJ eSum (by decide +kernel) [] ι0 (-222) (by decide +kernel)
-- C24_sound_open: inside a binder, non-empty stack, an index environment that agrees with it
def ι7 : IdxEnv := fun i => if i = 7 then 1 else 0
theorem agree7 : Agree [(7, 1)] ι7 := by
  intro c x h
  by_cases hc : c = 7
  · subst hc; simp [Stack.get] at h; simp [ι7, h]
  · have : ¬ 7 = c := fun e => hc e.symm
    simp [Stack.get, this] at h
example := C24_sound_open ρJ hJ (.op .product [] [.op .indexed [] [v, .mi [.free 7]], g]) (by decide +kernel) [(7, 1)] [] ι7 agree7 (-21)
  (by decide +kernel)
-- C24_sound_grad: grad(grad(v))[1, 0, 1]
example := C24_sound_grad ρJ hJ (.op .grad [2] [.op .grad [2] [v]]) (by decide +kernel)
  { cls := "Coefficient", key := "v", shape := [2], count := 2 } 2 (by decide +kernel) (by decide) [1, 0, 1] ι0 2111
  (by decide +kernel)
end UflVerif.NonVacuity.C24

/-! ## C25 (Props/C25.lean): the existing `example`s check `InDim` and `lt` but do not instantiate the theorems -/
namespace UflVerif.NonVacuity.C25
open UflVerif.Sobolev UflVerif.Gen.Sobolev UflVerif.C25

theorem inH1 : InDim 2 (.named "H1") := by show "H1" ∈ names; decide +kernel
theorem inHDiv : InDim 2 (.named "HDiv") := by show "HDiv" ∈ names; decide +kernel
/-- D(2,1) ⊂ H1 ⊂ D(1,0) in two dimensions: a chain mixing directional and named spaces -/
def dA : Space := .dir [.o2, .o1]
def dC : Space := .dir [.o1, .o0]

example := C25_lt_iff_proper_subspace 2 (by decide) dA (.named "H1") rfl inH1 true (by decide +kernel)
example := C25_lt_iff_proper_subspace 2 (by decide) (.dir [.o1, .o0]) (.dir [.o0, .o1]) rfl rfl false (by decide +kernel)
example := C25_lt_iff_proper_subspace 2 (by decide) (.named "H1") (.named "HDiv") inH1 inHDiv true (by decide +kernel)
example := C25_eq_iff 2 (by decide) (.dir [.o1, .o1]) (.named "H1") rfl inH1
example : eqS (.dir [.o1, .o1]) (.named "H1") = true := by decide +kernel
example := C25_irreflexive 2 (by decide) dA rfl
example := C25_transitive 2 (by decide) dA (.named "H1") dC rfl inH1 rfl (by decide +kernel) (by decide +kernel) true (by decide +kernel)
example := C25_asymmetric 2 (by decide) dA (.named "H1") rfl inH1 (by decide +kernel)
example := C25_le_iff_subspace 2 (by decide) (.named "H1") dC inH1 rfl true (by decide +kernel)
example := C25_le_iff_subspace 2 (by decide) dC (.named "HDiv") rfl inHDiv false (by decide +kernel)
-- C25_table_is_declared_lattice, C25_derived_operators, C25_defined, C25_old_rule_counterexample: no hypothesis
end UflVerif.NonVacuity.C25


/-! ## C26 (Props/C26.lean): closed statements over regenerated tables; the inner premises `numSub d = some n`,
`numFacets = some n` of `C26_products` are not vacuous -/
namespace UflVerif.NonVacuity.C26
open UflVerif.Gen.Cells
example : prods.any (fun p => p.tdim == 3 && p.factors.length == 2 && p.numSub.getD 2 none == some 5 && p.numFacets == some 5) = true := by
  decide +kernel
end UflVerif.NonVacuity.C26

/-! ## C29 (Props/C29.lean): the existing `example` checks `Sane` of one expression but does not instantiate a theorem -/
namespace UflVerif.NonVacuity.C29
open UflVerif Expr UflVerif.C29

def eA : Expr := ix (cf 1 [2, 2]) [0, 1]
def eB : Expr := ix (cf 2 [2]) [0]
def eC : Expr := ix (cf 3 [2, 2]) [0, 0]
/-- two different expressions that tie: B[i] and B[j] (free indices compare equal) -/
def t1 : Expr := .op .indexed [] [cf 2 [2], .mi [.free 3]]
def t2 : Expr := .op .indexed [] [cf 2 [2], .mi [.free 4]]
example : cmp t1 t2 = .eq ∧ beq t1 t2 = false := by decide +kernel

example := C29_consistent eA eB eC (by decide +kernel) (by decide +kernel) (by decide +kernel)
example := C29_antisym eA eB (by decide +kernel) (by decide +kernel)
example : cmp eA eB = .gt := by decide +kernel
example := C29_trans eB eC eA (by decide +kernel) (by decide +kernel) (by decide +kernel) (by decide +kernel) (by decide +kernel)
example := C29_tie_congr t1 t2 eA (by decide +kernel) (by decide +kernel) (by decide +kernel) (by decide +kernel)
example := C29_sort2_order_independent eA eB (by decide +kernel) (by decide +kernel) (by decide +kernel)
example := C29_sort2_tie t1 t2 (by decide +kernel)
-- C29_typecodes_injective, C29_refl, C29_old_cycle_counterexample: no hypothesis
end UflVerif.NonVacuity.C29

/-! ## C07 (Props/C07/*.lean): no `example` existed.  One concrete non-degenerate cell (origin (1,1,1), sheared edges,
orientation −1, non-zero reference normal) discharges every non-degeneracy hypothesis. -/
namespace UflVerif.NonVacuity.C07
open UflVerif Expr UflVerif.C07

/-- vertices v₀ = (1,1,1), v₁ = v₀ + (2,1,0), v₂ = v₀ + (1,3,0), v₃ = v₀ + (0,0,4); the point x; orientation −1 -/
noncomputable def cell (t : Nat) : Cell where
  tdim := t
  v := fun i k => 1 + (if i = k + 1 then (k : ℝ) + 2 else 0) + (if i = 2 ∧ k = 0 then 1 else 0) + (if i = 1 ∧ k = 1 then 1 else 0)
  x := fun k => 3 / 2 + k
  co := -1
  rfj := fun i j => if i = j then 1 else (i : ℝ) - 2
  rrj := fun i _ => (i : ℝ) + 1
  rn := fun i => (i : ℝ) + 1
  fev := fun e k => (e : ℝ) - k

macro "cell_nn" : tactic =>
  `(tactic| norm_num [cell, Cell.J, Tri2.det, Tet3.det, Tri3.gram, Tri3.nx, Tri3.ny, Tri3.nz, ilen2])

theorem h1 : (cell 1).v 1 0 - (cell 1).v 0 0 ≠ 0 := by cell_nn
theorem hl2 : ilen2 (cell 1) 2 ≠ 0 := by cell_nn
theorem hl3 : ilen2 (cell 1) 3 ≠ 0 := by cell_nn
theorem hd2 : Tri2.det (cell 2) ≠ 0 := by cell_nn
theorem hg : Tri3.gram (cell 2) ≠ 0 := by cell_nn
theorem hd3 : Tet3.det (cell 3) ≠ 0 := by cell_nn
theorem hco (t : Nat) : |(cell t).co| = 1 := by cell_nn
theorem hco2 (t : Nat) : (cell t).co ^ 2 = 1 := by cell_nn
/-- the determinants are not ±1 or other degenerate values: 5, 25, 20 -/
example : Tri2.det (cell 2) = 5 ∧ Tri3.gram (cell 2) = 25 ∧ Tet3.det (cell 3) = 20 ∧ ilen2 (cell 1) 3 = 5 := by
  refine ⟨?_, ?_, ?_, ?_⟩ <;> cell_nn

-- interval in 1D
example := Int1.C07_int1_K (cell 1) h1
example := Int1.C07_int1_X (cell 1) h1
example := Int1.C07_int1_lengths (cell 1) rfl
example := Int1.C07_int1_circumcentre (cell 1) rfl
example := Int1.C07_int1_facet_normal (cell 1) h1 (by cell_nn)
example := Int1.C07_int1_facet_normal_unit (cell 1) h1
-- interval in 2D
example := Int2.C07_int2_K (cell 1) hl2
example := Int2.C07_int2_lengths (cell 1) rfl (hco 1)
example := Int2.C07_int2_cell_normal (cell 1) hl2 (hco2 1)
example := Int2.C07_int2_facet_normal (cell 1) hl2
-- interval in 3D
example := Int3.C07_int3_K (cell 1) hl3
example := Int3.C07_int3_lengths (cell 1) rfl (hco 1)
-- triangle in 2D
example := Tri2.C07_tri2_K (cell 2) hd2
example := Tri2.C07_tri2_X (cell 2) hd2
example := Tri2.C07_tri2_volume (cell 2) rfl
example := Tri2.C07_tri2_circumradius (cell 2) rfl hd2
example := Tri2.C07_tri2_min_edge (cell 2) rfl
example := Tri2.C07_tri2_max_edge (cell 2) rfl
example := Tri2.C07_tri2_diameter (cell 2) rfl
example := Tri2.C07_tri2_facet_area (cell 2) rfl
example := Tri2.C07_tri2_facet_normal (cell 2) hd2 (Or.inl (by cell_nn))
-- triangle in 3D
example := Tri3.C07_tri3_K (cell 2) hg
example := Tri3.C07_tri3_volume (cell 2) rfl (hco 2)
example := Tri3.C07_tri3_cell_normal (cell 2) hg (hco2 2)
example := Tri3.C07_tri3_circumradius (cell 2) rfl hg (hco 2)
-- tetrahedron
example := Tet3.C07_tet3_K (cell 3) hd3
example := Tet3.C07_tet3_X (cell 3) hd3
example := Tet3.C07_tet3_volume (cell 3) rfl
example := Tet3.C07_tet3_facet_normal (cell 3) hd3 (Or.inl (by cell_nn))
example := Tet3.C07_tet3_circumradius (cell 3) rfl hd3
example := Tet3.C07_tet3_min_edge (cell 3) rfl
example := Tet3.C07_tet3_max_edge (cell 3) rfl
example := Tet3.C07_tet3_diameter (cell 3) rfl
example := Tet3.C07_tet3_facet_area (cell 3) rfl
-- C07_*_detJ, C07_tri2_facet_jacobian, C07_tet3_facet_jacobian, C07_tet3_facet_edges, C07_combined_*: no hypothesis on the cell
end UflVerif.NonVacuity.C07

/-! ## C06 (Props/C06/*.lean): the theorems have no hypothesis (any field, any valuation); `C06_inv` / `C06_pinv` carry the
premise `det ≠ 0` inside the statement — it holds for a concrete operand, for every size of the family. -/
namespace UflVerif.NonVacuity.C06
open UflVerif Expr UflVerif.C06 Gen.Compound

/-- operand A upper triangular with diagonal 2 and ones above: det = 2ⁿ, full column rank -/
def ρU : Env ℚ :=
  { term := fun _ key c => if key = "A" then (match c with | [i, j] => if i = j then 2 else if i < j then 1 else 0 | _ => 0) else 3
    jet := fun _ _ _ _ => 0, fn := fun _ x => x, fn2 := fun _ x _ => x, abs := id, conj := id, re := id, im := fun _ => 0, i := 0
    lt := fun x y => decide (x < y), eq := fun x y => decide (x = y) }

example : ∀ n ∈ [1, 2, 3, 4], detSpec (ρU.term .none "A") n ≠ 0 := by
  simp [detSpec, Matrix.det_fin_two, Matrix.det_fin_three, det_fin_four, Matrix.of_apply, ρU]
example : gramDetSpec (ρU.term .none "A") 2 1 ≠ 0 ∧ gramDetSpec (ρU.term .none "A") 3 1 ≠ 0 ∧ gramDetSpec (ρU.term .none "A") 3 2 ≠ 0 := by
  simp [gramDetSpec, detSpec, gram, S, sumRange, List.range, List.range.loop, Matrix.det_fin_two, Matrix.of_apply, ρU]
  norm_num
-- the theorems at this valuation
example := C06_inv ρU .none (fun _ => 0)
example := C06_pinv ρU .none (fun _ => 0)
-- the instance families are not empty: `C06_family_complete` (in Props/C06/Shapes.lean) pins every family size
end UflVerif.NonVacuity.C06

/-! ## C08 (Props/C08/*.lean): `PowOK ρ` -/
namespace UflVerif.NonVacuity.C08
open UflVerif Expr UflVerif.C08 Gen.Pullbacks

/-- a valuation with pairwise different values for J, K, detJ and the reference value r, and `Power x 2 = x * x` -/
def ρP : Env ℚ :=
  { term := fun _ key c => ((key.length + c.foldl (fun a k => 3 * a + k + 1) 0 : Nat) : ℚ)
    jet := fun _ _ _ _ => 0, fn := fun _ x => x, fn2 := fun n x y => if n = "Power" ∧ y = 2 then x * x else 0
    abs := id, conj := id, re := id, im := fun _ => 0, i := 0
    lt := fun x y => decide (x < y), eq := fun x y => decide (x = y) }
theorem hP : PowOK ρP := by intro x; simp [ρP]

example := C08_pushforward_interval1 ρP .none (fun _ => 0) hP
example := C08_pushforward_interval2 ρP .none (fun _ => 0) hP
example := C08_pushforward_interval3 ρP .none (fun _ => 0) hP
example := C08_pushforward_triangle2 ρP .none (fun _ => 0) hP
example := C08_pushforward_triangle3 ρP .none (fun _ => 0) hP
example := C08_pushforward_tetrahedron3 ρP .none (fun _ => 0) hP
/-- the regenerated instance families are not empty (nothing in Props/C08 pins their size: `Holds` and `shapesOK` are
    true of an empty family) -/
example : interval1.length = 23 ∧ interval2.length = 23 ∧ interval3.length = 23 ∧ triangle2.length = 25 ∧
    triangle3.length = 25 ∧ tetrahedron3.length = 25 := by decide +kernel
end UflVerif.NonVacuity.C08

/-! ## `LitSem` and `ConjOK` in complex mode

`litSem_rat` (the only instance in the Props files) has `conj = re = id`, `im = 0`.  Both structures are also satisfied by the
complex numbers with the true conjugation, modulus, real / imaginary part and complex power, so the theorems that assume them
speak about complex mode too. -/
namespace UflVerif.NonVacuity.Cplx
open UflVerif Expr UflVerif.NonVacuity

noncomputable def ρC : Env ℂ where
  term := fun _ key c => ⟨(key.length : ℝ) + (c.sum : ℝ), (c.length : ℝ) + 1⟩
  jet := fun _ _ _ _ => 0
  fn := fun _ x => x
  fn2 := fun n x y => if n = "Power" then x ^ y else 0
  abs := fun z => ((‖z‖ : ℝ) : ℂ)
  conj := starRingEnd ℂ
  re := fun z => ((z.re : ℝ) : ℂ)
  im := fun z => ((z.im : ℝ) : ℂ)
  i := Complex.I
  lt := fun x y => @decide (x.re < y.re) (Classical.propDecidable _)
  eq := fun x y => @decide (x = y) (Classical.propDecidable _)

theorem ratCast_eq (q : ℚ) : ((q : ℚ) : ℂ) = (((q : ℝ)) : ℂ) := (Complex.ofReal_ratCast q).symm

theorem litSemC : C05.LitSem ρC where
  pow_lit x n := by
    simp only [ρC, ↓reduceIte]
    rw [C05.ratPowInt_cast, Complex.cpow_intCast]
  pow_zero_exp x := by simp [ρC]
  pow_one_exp x := by simp [ρC]
  pow_zero_base q hq := by
    simp only [ρC, ↓reduceIte]
    exact Complex.zero_cpow (by exact_mod_cast hq.ne')
  abs_lit q := by
    simp only [ρC]
    rw [ratCast_eq q, Complex.norm_real, Real.norm_eq_abs, ratCast_eq]
    congr 1
    by_cases h : q < 0
    · have : (q : ℝ) < 0 := by exact_mod_cast h
      simp [h, abs_of_neg this]
    · have : (0 : ℝ) ≤ q := by exact_mod_cast (not_lt.mp h)
      simp [h, abs_of_nonneg this]
  abs_abs x := by simp [ρC]
  abs_conj x := by simp [ρC]
  conj_lit q := by simp [ρC]
  conj_conj x := by simp [ρC]
  conj_abs x := by simp [ρC]
  conj_re x := by simp [ρC]
  conj_im x := by simp [ρC]
  re_lit q := by simp [ρC]
  im_lit q := by simp [ρC]
  im_re x := by simp [ρC]
  im_im x := by simp [ρC]
  im_abs x := by simp [ρC]

theorem conjOKC : C06.ConjOK ρC where
  add x y := by simp [ρC]
  mul x y := by simp [ρC]
  invol x := by simp [ρC]
  zero := by simp [ρC]

/-- the conjugation of this valuation is not the identity -/
example : ρC.conj (ρC.term .none "f" []) ≠ ρC.term .none "f" [] := by
  intro h
  have := congrArg Complex.im h
  simp [ρC] at this
  norm_num at this

-- C06_inner_swapped with a conjugation that is not the identity
example := C06.C06_inner_swapped ρC .none ι0 conjOKC
-- the `LitSem` theorems in complex mode
example := C05.C05_mkConj ρC litSemC .none ι0 (.op .conj [] [f]) f (by decide +kernel) (by decide +kernel) []
example := C05.C05_mkAbs ρC litSemC .none ι0 (.op .conj [] [g]) (.op .abs [] [g]) (by decide +kernel) (by decide +kernel) []
example := C05.C05_mkImag ρC litSemC .none ι0 (.op .real [] [f]) (.zero [] []) (by decide +kernel) (by decide +kernel) []
example := C05.C05_mkReal ρC litSemC .none ι0 (.op .conj [] [v]) (.op .real [] [.op .conj [] [v]]) (by decide +kernel) (by decide +kernel) [1]
example := C05.C05_mkPower ρC litSemC .none ι0 (.real 1 2) (.int (-2)) (.real 4 1) (by decide +kernel) (by decide +kernel) (by decide +kernel) []
example := C21.C21_replace_value_partial ρC litSemC C21.exM2 ι0 .none ι0 C21.exE2 (.op .product [] [.int 8, C21.exG])
  (by decide +kernel) (by decide +kernel) (by decide +kernel) (by decide +kernel) (by decide +kernel) (by decide +kernel) [] (by decide +kernel)

end UflVerif.NonVacuity.Cplx
