/-
C05x  Rebuild soundness.

`rebuild k aux args` (Model/Replace.lean) is the model of `type(o)(*operands)`: it dispatches to the
modelled class constructors of Model/Construct.lean.  This file

1. proves the value theorems for the constructors C05.lean leaves out (Power, Abs, Conj, Real, Imag,
   MinValue/MaxValue, the condition classes).  These constructors fold literals, so the theorems
   need facts about the abstract functions of the valuation; they are collected in `LitSem`.
2. proves the uniform statement `rebuild_sound_partial`: whatever `rebuild` returns has the value,
   shape and free indices of the plain node `.op k aux args` and is well formed (side conditions of
   the `_partial` constructor theorems of C05.lean are carried in the decidable predicate `RebuildSC`),
   and `rebuild_sound_cond` for the condition classes.
3. closes the gap left open in C21.lean: `C21_replace_value_partial` — the value of `replace(e, m)`
   (model `replaceE`, which rebuilds every touched node) is the value of `e` under the valuation in
   which every mapped terminal takes the value of its image.
-/
import Mathlib.Data.Rat.Cast.CharZero
import Mathlib.Tactic.Ring
import Mathlib.Algebra.Order.Ring.Rat
import Mathlib.Algebra.Order.Field.Basic
import UflVerif.Props.C05
import UflVerif.Props.C21
import UflVerif.Model.Driver

namespace UflVerif.C05
open UflVerif Expr FIlemmas

variable {K : Type} [Field K] [CharZero K]

/-! ## semantic assumptions on the valuation -/

/-- What the literal folding of `Power/Abs/Conj/Real/Imag.__new__` assumes about the abstract
    functions of a valuation.  Rational literals are embedded by `Rat.cast`; `ratPowInt` is the
    model's exact integer power (`x ^ n`, and `(1/x) ^ (-n)` for negative `n`). -/
structure LitSem (ρ : Env K) : Prop where
  /-- `Power` of a rational literal to an integer literal is the exact integer power (`a._value ** b._value`) -/
  pow_lit : ∀ (x : ℚ) (n : ℤ), ρ.fn2 "Power" (x : K) (n : K) = ((ratPowInt x n : ℚ) : K)
  /-- `f ** 0 = 1` (`Power(a, Zero) -> IntValue(1)`) -/
  pow_zero_exp : ∀ x : K, ρ.fn2 "Power" x 0 = 1
  /-- `f ** 1 = f` -/
  pow_one_exp : ∀ x : K, ρ.fn2 "Power" x 1 = x
  /-- `0 ** q = 0` for a positive literal exponent (`Power(Zero, q) -> Zero`) -/
  pow_zero_base : ∀ q : ℚ, 0 < q → ρ.fn2 "Power" 0 (q : K) = 0
  /-- `abs` of a rational literal (`abs(a._value)`) -/
  abs_lit : ∀ q : ℚ, ρ.abs (q : K) = ((if q < 0 then -q else q : ℚ) : K)
  /-- `Abs(Abs(f)) -> Abs(f)` -/
  abs_abs : ∀ x : K, ρ.abs (ρ.abs x) = ρ.abs x
  /-- `Abs(Conj(f)) -> Abs(f)` -/
  abs_conj : ∀ x : K, ρ.abs (ρ.conj x) = ρ.abs x
  /-- conjugation fixes real literals -/
  conj_lit : ∀ q : ℚ, ρ.conj (q : K) = (q : K)
  /-- `Conj(Conj(f)) -> f` -/
  conj_conj : ∀ x : K, ρ.conj (ρ.conj x) = x
  /-- `Conj(Abs(f)) -> Abs(f)`, `Conj(Real(f)) -> Real(f)`, `Conj(Imag(f)) -> Imag(f)`: these are real -/
  conj_abs : ∀ x : K, ρ.conj (ρ.abs x) = ρ.abs x
  conj_re : ∀ x : K, ρ.conj (ρ.re x) = ρ.re x
  conj_im : ∀ x : K, ρ.conj (ρ.im x) = ρ.im x
  /-- real part of a real literal -/
  re_lit : ∀ q : ℚ, ρ.re (q : K) = (q : K)
  /-- imaginary part of a real literal, and of the real-valued `Real(f)`, `Imag(f)`, `Abs(f)` -/
  im_lit : ∀ q : ℚ, ρ.im (q : K) = 0
  im_re : ∀ x : K, ρ.im (ρ.re x) = 0
  im_im : ∀ x : K, ρ.im (ρ.im x) = 0
  im_abs : ∀ x : K, ρ.im (ρ.abs x) = 0

namespace LitSem
variable {ρ : Env K} (hρ : LitSem ρ)
include hρ

theorem abs_zero : ρ.abs 0 = 0 := by simpa using hρ.abs_lit 0
theorem conj_zero : ρ.conj 0 = 0 := by simpa using hρ.conj_lit 0
theorem re_zero : ρ.re 0 = 0 := by simpa using hρ.re_lit 0
theorem im_zero : ρ.im 0 = 0 := by simpa using hρ.im_lit 0

end LitSem

/-- the exact integer power of the model is the power of the field (`0 ^ n = 0` for negative `n`,
    the usual convention of a Lean field; UFL never has a zero-valued literal) -/
theorem ratPowInt_cast (x : ℚ) (n : ℤ) : ((ratPowInt x n : ℚ) : K) = (x : K) ^ n := by
  unfold ratPowInt
  split
  · rename_i h
    obtain ⟨k, rfl⟩ := Int.eq_ofNat_of_zero_le h
    have := Rat.cast_zpow (α := K) x (k : ℤ)
    simpa using this
  · rename_i h
    obtain ⟨k, hk⟩ : ∃ k : ℕ, n = -(k : ℤ) := ⟨(-n).toNat, by omega⟩
    subst hk
    have := Rat.cast_zpow (α := K) x (k : ℤ)
    simp only [zpow_natCast] at this
    simp [this]

/-- the executable rational valuation of the correspondence driver satisfies `LitSem` -/
theorem litSem_rat (r : RawEnv) : LitSem (K := ℚ) r.rat where
  pow_lit x n := by
    simp only [RawEnv.rat, Rat.cast_id, beq_self_eq_true, Bool.true_and]
    have : ((n : ℚ)).den = 1 := Rat.den_intCast n
    simp [this, ratPow, ratPowInt]
  pow_zero_exp x := by simp [RawEnv.rat, ratPow]
  pow_one_exp x := by simp [RawEnv.rat, ratPow]
  pow_zero_base q hq := by
    simp only [RawEnv.rat, Rat.cast_id, beq_self_eq_true, Bool.true_and]
    split
    · have hn : 0 < q.num := Rat.num_pos.mpr hq
      have : ¬ q.num.toNat = 0 := by omega
      simp [ratPow, hn.le, this]
    · rfl
  abs_lit q := by simp [RawEnv.rat]
  abs_abs x := by
    simp only [RawEnv.rat]
    by_cases h : x < 0
    · have : ¬ (-x < 0) := by simp; exact h.le
      simp [h, this]
    · simp [h]
  abs_conj x := by simp [RawEnv.rat]
  conj_lit q := by simp [RawEnv.rat]
  conj_conj x := by simp [RawEnv.rat]
  conj_abs x := by simp [RawEnv.rat]
  conj_re x := by simp [RawEnv.rat]
  conj_im x := by simp [RawEnv.rat]
  re_lit q := by simp [RawEnv.rat]
  im_lit q := by simp [RawEnv.rat]
  im_re x := by simp [RawEnv.rat]
  im_im x := by simp [RawEnv.rat]
  im_abs x := by simp [RawEnv.rat]

/-! ## Abs, Conj, Real, Imag -/

theorem absq_int (v : ℤ) : (if v < 0 then -(v : ℚ) else (v : ℚ)) = (if (v : ℚ) < 0 then -(v : ℚ) else (v : ℚ)) := by
  have : ((v : ℚ) < 0) ↔ v < 0 := by exact_mod_cast Iff.rfl
  simp [this]

theorem absq_real (n : ℤ) (d : ℕ) : (if n < 0 then -((n : ℚ) / (d : ℚ)) else (n : ℚ) / (d : ℚ)) =
    (if (n : ℚ) / (d : ℚ) < 0 then -((n : ℚ) / (d : ℚ)) else (n : ℚ) / (d : ℚ)) := by
  rcases Nat.eq_zero_or_pos d with hd | hd
  · subst hd; simp
  · have hd' : (0 : ℚ) < d := by exact_mod_cast hd
    have : ((n : ℚ) / (d : ℚ) < 0) ↔ n < 0 := by
      rw [div_lt_iff₀ hd']; simp
    simp [this]

section unary
variable (ρ : Env K) (hρ : LitSem ρ) (s : Side) (ι : IdxEnv)
include hρ

theorem abs_node_fix (x : List Nat) (as : List Expr) (c : List Nat) :
    ρ.abs (eval ρ s ι (.op .abs x as) c) = eval ρ s ι (.op .abs x as) c := by
  rcases as with _ | ⟨y, _ | ⟨z, t⟩⟩
  · simp [eval, hρ.abs_zero]
  · simp [eval, hρ.abs_abs]
  · simp [eval, hρ.abs_zero]

theorem conj_abs_node (x : List Nat) (as : List Expr) (c : List Nat) :
    ρ.conj (eval ρ s ι (.op .abs x as) c) = eval ρ s ι (.op .abs x as) c := by
  rcases as with _ | ⟨y, _ | ⟨z, t⟩⟩
  · simp [eval, hρ.conj_zero]
  · simp [eval, hρ.conj_abs]
  · simp [eval, hρ.conj_zero]

theorem conj_real_node (x : List Nat) (as : List Expr) (c : List Nat) :
    ρ.conj (eval ρ s ι (.op .real x as) c) = eval ρ s ι (.op .real x as) c := by
  rcases as with _ | ⟨y, _ | ⟨z, t⟩⟩
  · simp [eval, hρ.conj_zero]
  · simp [eval, hρ.conj_re]
  · simp [eval, hρ.conj_zero]

theorem conj_imag_node (x : List Nat) (as : List Expr) (c : List Nat) :
    ρ.conj (eval ρ s ι (.op .imag x as) c) = eval ρ s ι (.op .imag x as) c := by
  rcases as with _ | ⟨y, _ | ⟨z, t⟩⟩
  · simp [eval, hρ.conj_zero]
  · simp [eval, hρ.conj_im]
  · simp [eval, hρ.conj_zero]

theorem im_abs_node (x : List Nat) (as : List Expr) (c : List Nat) :
    ρ.im (eval ρ s ι (.op .abs x as) c) = 0 := by
  rcases as with _ | ⟨y, _ | ⟨z, t⟩⟩
  · simp [eval, hρ.im_zero]
  · simp [eval, hρ.im_abs]
  · simp [eval, hρ.im_zero]

theorem im_real_node (x : List Nat) (as : List Expr) (c : List Nat) :
    ρ.im (eval ρ s ι (.op .real x as) c) = 0 := by
  rcases as with _ | ⟨y, _ | ⟨z, t⟩⟩
  · simp [eval, hρ.im_zero]
  · simp [eval, hρ.im_re]
  · simp [eval, hρ.im_zero]

theorem im_imag_node (x : List Nat) (as : List Expr) (c : List Nat) :
    ρ.im (eval ρ s ι (.op .imag x as) c) = 0 := by
  rcases as with _ | ⟨y, _ | ⟨z, t⟩⟩
  · simp [eval, hρ.im_zero]
  · simp [eval, hρ.im_im]
  · simp [eval, hρ.im_zero]

omit hρ in
theorem absq_den (q : ℚ) (h : q.den = 1) : (if q < 0 then -q else q).den = 1 := by
  split <;> simp [h]

omit hρ in
theorem eval_abs1 (x : List Nat) (a : Expr) (c : List Nat) : eval ρ s ι (.op .abs x [a]) c = ρ.abs (eval ρ s ι a c) := by simp [eval]
omit hρ in
theorem eval_conj1 (x : List Nat) (a : Expr) (c : List Nat) : eval ρ s ι (.op .conj x [a]) c = ρ.conj (eval ρ s ι a c) := by simp [eval]
omit hρ in
theorem eval_real1 (x : List Nat) (a : Expr) (c : List Nat) : eval ρ s ι (.op .real x [a]) c = ρ.re (eval ρ s ι a c) := by simp [eval]
omit hρ in
theorem eval_imag1 (x : List Nat) (a : Expr) (c : List Nat) : eval ρ s ι (.op .imag x [a]) c = ρ.im (eval ρ s ι a c) := by simp [eval]
omit hρ in
theorem eval_int (v : Int) (c : List Nat) : eval ρ s ι (.int v) c = ((v : ℚ) : K) := by simp [eval]
omit hρ in
theorem eval_real (n : Int) (d : Nat) (c : List Nat) : eval ρ s ι (.real n d) c = (((n : ℚ) / (d : ℚ) : ℚ) : K) := by simp [eval]
omit hρ in
theorem eval_zero' (sh : List Nat) (f : FI) (c : List Nat) : eval ρ s ι (.zero sh f) c = ((0 : ℚ) : K) := by simp [eval]

/-- `Abs(a)`: |value of a|; `Abs(Zero)`, `Abs(Abs(f))`, `Abs(Conj(f))` and literals fold -/
theorem C05_mkAbs (a r : Expr) (h : mkAbs a = some r) (hu : isUnsupported r = false) (c : List Nat) :
    eval ρ s ι r c = ρ.abs (eval ρ s ι a c) := by
  unfold mkAbs at h
  split at h
  all_goals (try (simp only [Option.some.injEq] at h; subst h))
  · simp [eval, hρ.abs_zero]
  · rw [abs_node_fix ρ hρ]
  · split at h
    all_goals (simp only [Option.some.injEq] at h; subst h)
    · simp [eval, hρ.abs_zero, hρ.conj_zero]
    · rw [eval_conj1, hρ.abs_conj, abs_node_fix ρ hρ]
    · rename_i v
      rw [mkLit_eval ρ s ι true _ (by intro _; split <;> simp), eval_conj1, hρ.abs_conj, eval_int, hρ.abs_lit, absq_int]
    · rename_i n d
      rw [mkLit_eval ρ s ι false _ (by simp), eval_conj1, hρ.abs_conj, eval_real, hρ.abs_lit, absq_real]
    · simp [isUnsupported, unsupported] at hu
    · rw [eval_conj1, hρ.abs_conj, eval_abs1]
  · rename_i v
    rw [mkLit_eval ρ s ι true _ (by intro _; split <;> simp), eval_int, hρ.abs_lit, absq_int]
  · rename_i n d
    rw [mkLit_eval ρ s ι false _ (by simp), eval_real, hρ.abs_lit, absq_real]
  · simp [isUnsupported, unsupported] at hu
  · rw [eval_abs1]

/-- `Conj(a)`: the conjugate; folds on Zero, on the real-valued Abs/Real/Imag, on Conj and on real literals -/
theorem C05_mkConj (a r : Expr) (h : mkConj a = some r) (hu : isUnsupported r = false) (c : List Nat) :
    eval ρ s ι r c = ρ.conj (eval ρ s ι a c) := by
  unfold mkConj at h
  split at h
  all_goals (simp only [Option.some.injEq] at h; subst h)
  · simp [eval, hρ.conj_zero]
  · rw [conj_abs_node ρ hρ]
  · rw [conj_real_node ρ hρ]
  · rw [conj_imag_node ρ hρ]
  · rw [eval_conj1, hρ.conj_conj]
  · rw [eval_int, hρ.conj_lit]
  · rw [eval_real, hρ.conj_lit]
  · simp [isUnsupported, unsupported] at hu
  · rw [eval_conj1]

/-- `Real(a)`: the real part; a `Conj` below is looked through, Zero and real literals fold -/
theorem C05_mkReal (a r : Expr) (h : mkReal a = some r) (hu : isUnsupported r = false) (c : List Nat) :
    eval ρ s ι r c = ρ.re (eval ρ s ι a c) := by
  unfold mkReal at h
  simp only at h
  split at h
  all_goals (simp only [Option.some.injEq] at h; subst h)
  · rename_i sh f heq
    split at heq
    · subst heq; simp [eval, hρ.re_zero, hρ.conj_zero]
    · subst heq; simp [eval, hρ.re_zero]
  · rename_i v heq
    rw [mkLit_eval ρ s ι true _ (by simp)]
    split at heq
    · subst heq; rw [eval_conj1, eval_int, hρ.conj_lit, hρ.re_lit]
    · subst heq; rw [eval_int, hρ.re_lit]
  · rename_i n d heq
    rw [mkLit_eval ρ s ι false _ (by simp)]
    split at heq
    · subst heq; rw [eval_conj1, eval_real, hρ.conj_lit, hρ.re_lit]
    · subst heq; rw [eval_real, hρ.re_lit]
  · simp [isUnsupported, unsupported] at hu
  · rw [eval_real1]

/-- `Imag(a)`: the imaginary part; zero on Zero, on the real-valued Real/Imag/Abs and on real literals -/
theorem C05_mkImag (a r : Expr) (h : mkImag a = some r) (hu : isUnsupported r = false) (c : List Nat) :
    eval ρ s ι r c = ρ.im (eval ρ s ι a c) := by
  unfold mkImag at h
  split at h
  all_goals (simp only [Option.some.injEq] at h; subst h)
  · simp [eval, hρ.im_zero]
  · rw [im_real_node ρ hρ]; simp [eval]
  · rw [im_imag_node ρ hρ]; simp [eval]
  · rw [im_abs_node ρ hρ]; simp [eval]
  · rw [eval_int, hρ.im_lit]; simp [eval]
  · rw [eval_real, hρ.im_lit]; simp [eval]
  · simp [isUnsupported, unsupported] at hu
  · rw [eval_imag1]

omit hρ in
theorem mkAbs_wf (a r : Expr) (hw : WF a = true) (h : mkAbs a = some r) (hu : isUnsupported r = false) :
    WF r = true ∧ shape r = shape a ∧ fi r = fi a := by
  unfold mkAbs at h
  split at h
  all_goals (try (simp only [Option.some.injEq] at h; subst h))
  · exact ⟨hw, rfl, rfl⟩
  · exact ⟨hw, rfl, rfl⟩
  · simp only [WF] at hw
    split at h
    all_goals (simp only [Option.some.injEq] at h; subst h)
    · exact ⟨hw, by simp [shape], by simp [fi]⟩
    · exact ⟨hw, by simp [shape], by simp [fi]⟩
    · exact ⟨mkLit_wf _ _, by simp [(mkLit_shape _ _).1, shape], by simp [(mkLit_shape _ _).2, fi]⟩
    · exact ⟨mkLit_wf _ _, by simp [(mkLit_shape _ _).1, shape], by simp [(mkLit_shape _ _).2, fi]⟩
    · simp [isUnsupported, unsupported] at hu
    · exact ⟨by simp [WF, hw], by simp [shape], by simp [fi]⟩
  · exact ⟨mkLit_wf _ _, by simp [(mkLit_shape _ _).1, shape], by simp [(mkLit_shape _ _).2, fi]⟩
  · exact ⟨mkLit_wf _ _, by simp [(mkLit_shape _ _).1, shape], by simp [(mkLit_shape _ _).2, fi]⟩
  · simp [isUnsupported, unsupported] at hu
  · exact ⟨by simp [WF, hw], by simp [shape], by simp [fi]⟩

omit hρ in
theorem mkConj_wf (a r : Expr) (hw : WF a = true) (h : mkConj a = some r) (hu : isUnsupported r = false) :
    WF r = true ∧ shape r = shape a ∧ fi r = fi a := by
  unfold mkConj at h
  split at h
  all_goals (simp only [Option.some.injEq] at h; subst h)
  · exact ⟨hw, rfl, rfl⟩
  · exact ⟨hw, rfl, rfl⟩
  · exact ⟨hw, rfl, rfl⟩
  · exact ⟨hw, rfl, rfl⟩
  · simp only [WF] at hw; exact ⟨hw, by simp [shape], by simp [fi]⟩
  · exact ⟨hw, rfl, rfl⟩
  · exact ⟨hw, rfl, rfl⟩
  · simp [isUnsupported, unsupported] at hu
  · exact ⟨by simp [WF, hw], by simp [shape], by simp [fi]⟩

omit hρ in
theorem mkReal_wf (a r : Expr) (hw : WF a = true) (h : mkReal a = some r) (hu : isUnsupported r = false) :
    WF r = true ∧ shape r = shape a ∧ fi r = fi a := by
  unfold mkReal at h
  simp only at h
  split at h
  all_goals (simp only [Option.some.injEq] at h; subst h)
  · rename_i sh f heq
    split at heq
    · subst heq; simp only [WF] at hw; exact ⟨hw, by simp [shape], by simp [fi]⟩
    · subst heq; exact ⟨hw, rfl, rfl⟩
  · rename_i v heq
    refine ⟨mkLit_wf _ _, ?_, ?_⟩
    · rw [(mkLit_shape _ _).1]; split at heq <;> (subst heq; simp [shape])
    · rw [(mkLit_shape _ _).2]; split at heq <;> (subst heq; simp [fi])
  · rename_i n d heq
    refine ⟨mkLit_wf _ _, ?_, ?_⟩
    · rw [(mkLit_shape _ _).1]; split at heq <;> (subst heq; simp [shape])
    · rw [(mkLit_shape _ _).2]; split at heq <;> (subst heq; simp [fi])
  · simp [isUnsupported, unsupported] at hu
  · exact ⟨by simp [WF, hw], by simp [shape], by simp [fi]⟩

omit hρ in
theorem mkImag_wf (a r : Expr) (hw : WF a = true) (h : mkImag a = some r) (hu : isUnsupported r = false) :
    WF r = true ∧ shape r = shape a ∧ fi r = fi a := by
  unfold mkImag at h
  split at h
  all_goals (simp only [Option.some.injEq] at h; subst h)
  · exact ⟨hw, rfl, rfl⟩
  · exact ⟨by simp only [WF]; exact (sortedFI_iff _).mpr (fi_sorted _ hw), by simp [shape], by simp [fi]⟩
  · exact ⟨by simp only [WF]; exact (sortedFI_iff _).mpr (fi_sorted _ hw), by simp [shape], by simp [fi]⟩
  · exact ⟨by simp only [WF]; exact (sortedFI_iff _).mpr (fi_sorted _ hw), by simp [shape], by simp [fi]⟩
  · exact ⟨by simp [WF, sortedFI], by simp [shape], by simp [fi]⟩
  · exact ⟨by simp [WF, sortedFI], by simp [shape], by simp [fi]⟩
  · simp [isUnsupported, unsupported] at hu
  · exact ⟨by simp [WF, hw], by simp [shape], by simp [fi]⟩

end unary

/-! ## Power -/

theorem rat_eq_num (q : ℚ) (h : q.den = 1) : q = (q.num : ℚ) := by
  conv_lhs => rw [← Rat.num_div_den q, h]
  simp

theorem ratPowInt_den (x : ℚ) (n : ℤ) (hx : x.den = 1) (hn : 0 ≤ n) : (ratPowInt x n).den = 1 := by
  unfold ratPowInt
  simp only [ge_iff_le, hn, ↓reduceIte]
  rw [Rat.den_pow, hx, one_pow]

/-- side condition of `C05_mkPower`: a literal exponent under a `Zero` base is not a zero-valued
    literal (`IntValue(0)` / `FloatValue(0.0)` do not exist in UFL: the classes return `Zero`) -/
def powSC (a b : Expr) : Bool :=
  !(isZero a && (match litVal b with | some (_, v) => v == 0 | none => false))

/-- `Power(a, b)`: `a ** b`; literal ** integer literal folds exactly, `f ** 0 = 1`, `0 ** q = 0` for a
    positive literal q (negative: refused), `f ** 1 = f` -/
theorem C05_mkPower (ρ : Env K) (hρ : LitSem ρ) (s : Side) (ι : IdxEnv) (a b r : Expr) (hsc : powSC a b = true)
    (h : mkPower a b = some r) (hu : isUnsupported r = false) (c : List Nat) :
    eval ρ s ι r c = ρ.fn2 "Power" (eval ρ s ι a c) (eval ρ s ι b c) := by
  unfold mkPower at h
  split at h
  · cases h
  · split at h
    · rename_i ia va ib vb ha hb
      split at h
      · rename_i hden
        simp only [Option.some.injEq] at h; subst h
        rw [litVal_eval ρ s ι a ia va ha, litVal_eval ρ s ι b ib vb hb, mkLit_eval]
        · conv_rhs => rw [rat_eq_num vb hden]
          rw [Rat.cast_intCast, hρ.pow_lit]
        · intro hi
          simp only [Bool.and_eq_true, decide_eq_true_eq] at hi
          exact ratPowInt_den va vb.num (litVal_int a va (by rw [ha, hi.1.1])) (Rat.num_nonneg.mpr hi.2)
      · simp only [Option.some.injEq] at h; subst h; simp [isUnsupported, unsupported] at hu
    · split at h
      · simp only [Option.some.injEq] at h; subst h; simp [isUnsupported, unsupported] at hu
      · split at h
        · rename_i hz
          simp only [Option.some.injEq] at h; subst h
          rw [eval_zero ρ s ι b hz, hρ.pow_zero_exp]; simp [eval]
        · split at h
          · rename_i hza
            split at h
            · rename_i ib vb hb
              split at h
              · cases h
              · rename_i hneg
                simp only [Option.some.injEq] at h; subst h
                have hv0 : vb ≠ 0 := by
                  intro e
                  simp [powSC, hza, hb, e] at hsc
                have hpos : 0 < vb := lt_of_le_of_ne (not_lt.mp hneg) (Ne.symm hv0)
                rw [eval_zero ρ s ι a hza, litVal_eval ρ s ι b ib vb hb, hρ.pow_zero_base vb hpos]; simp [eval]
            · split at h
              · simp only [Option.some.injEq] at h; subst h; simp [isUnsupported, unsupported] at hu
              · simp only [Option.some.injEq] at h; subst h; simp [eval]
          · split at h
            · rename_i ib vb hb
              split at h
              · rename_i h1
                simp only [Option.some.injEq] at h; subst h
                rw [litVal_eval ρ s ι b ib vb hb, h1]; simp [hρ.pow_one_exp]
              · simp only [Option.some.injEq] at h; subst h; simp [eval]
            · simp only [Option.some.injEq] at h; subst h; simp [eval]

theorem mkPower_wf (a b r : Expr) (ha : WF a = true) (hb : WF b = true) (h : mkPower a b = some r) (hu : isUnsupported r = false) :
    WF r = true ∧ shape r = [] ∧ fi r = [] := by
  unfold mkPower at h
  split at h
  · cases h
  · rename_i hts
    simp only [Bool.or_eq_true, Bool.not_eq_true', not_or, Bool.not_eq_false] at hts
    have hts' := hts
    simp only [trueScalar, Bool.and_eq_true, List.isEmpty_iff] at hts'
    have plain : WF (.op .power [] [a, b]) = true ∧ shape (.op .power [] [a, b]) = [] ∧ fi (.op .power [] [a, b]) = [] :=
      ⟨by simp [WF, ha, hb, hts.1, hts.2], by simp [shape], by simp [fi, hts'.1.2]⟩
    split at h
    · split at h
      · simp only [Option.some.injEq] at h; subst h
        exact ⟨mkLit_wf _ _, (mkLit_shape _ _).1, (mkLit_shape _ _).2⟩
      · simp only [Option.some.injEq] at h; subst h; simp [isUnsupported, unsupported] at hu
    · split at h
      · simp only [Option.some.injEq] at h; subst h; simp [isUnsupported, unsupported] at hu
      · split at h
        · simp only [Option.some.injEq] at h; subst h; simp [WF, shape, fi]
        · split at h
          · split at h
            · split at h
              · cases h
              · simp only [Option.some.injEq] at h; subst h; simp [WF, shape, fi, sortedFI]
            · split at h
              · simp only [Option.some.injEq] at h; subst h; simp [isUnsupported, unsupported] at hu
              · simp only [Option.some.injEq] at h; subst h; exact plain
          · split at h
            · split at h
              · simp only [Option.some.injEq] at h; subst h; exact ⟨ha, hts'.1.1, hts'.1.2⟩
              · simp only [Option.some.injEq] at h; subst h; exact plain
            · simp only [Option.some.injEq] at h; subst h; exact plain

/-! ## MinValue / MaxValue and the condition classes: plain nodes behind an argument check -/

/-- `MinValue(a, b)` / `MaxValue(a, b)`: the plain node (its value is min / max by definition of `eval`) -/
theorem C05_mkMinMax (ρ : Env K) (s : Side) (ι : IdxEnv) (k : Op) (hk : k = .minValue ∨ k = .maxValue) (aux : List Nat)
    (a b r : Expr) (h : mkMinMax k a b = some r) (c : List Nat) :
    eval ρ s ι r c = eval ρ s ι (.op k aux [a, b]) c ∧ (WF (.op k aux [a, b]) = true → WF r = true) ∧
    shape r = shape (.op k aux [a, b]) ∧ fi r = fi (.op k aux [a, b]) := by
  unfold mkMinMax at h
  split at h
  · simp only [Option.some.injEq] at h; subst h
    rcases hk with rfl | rfl <;> simp [eval, WF, shape, fi]
  · cases h

/-- the comparison and logical condition classes: the plain node, with the truth value `evalB` gives it -/
theorem C05_mkCondition (ρ : Env K) (s : Side) (ι : IdxEnv) (k : Op) (aux : List Nat) (a b r : Expr)
    (h : mkCondition k a b = some r) :
    evalB ρ s ι r = evalB ρ s ι (.op k aux [a, b]) ∧ (WFC (.op k aux [a, b]) = true → WFC r = true) := by
  unfold mkCondition at h
  split at h
  all_goals (try (split at h))
  all_goals (first | (simp only [Option.some.injEq] at h; subst h; simp [evalB, WFC]) | cases h)

/-- `NotCondition(a)`: the plain node -/
theorem C05_mkNot (ρ : Env K) (s : Side) (ι : IdxEnv) (aux : List Nat) (a r : Expr) (h : mkNot a = some r) :
    evalB ρ s ι r = evalB ρ s ι (.op .notCondition aux [a]) ∧ (WFC (.op .notCondition aux [a]) = true → WFC r = true) := by
  unfold mkNot at h
  split at h
  · simp only [Option.some.injEq] at h; subst h; simp [evalB, WFC]
  · cases h

/-! ## closure lemmas for the remaining constructors of C05.lean -/

theorem mkDivision_wf (a b r : Expr) (ha : WF a = true) (hb : WF b = true) (h : mkDivision a b = some r)
    (hu : isUnsupported r = false) : WF r = true ∧ shape r = [] ∧ fi r = fi a := by
  unfold mkDivision at h
  split at h
  · cases h
  · rename_i hsa
    have hsa' : shape a = [] := by simpa using hsa
    split at h
    · cases h
    · rename_i htb
      have htb' : trueScalar b = true := by simpa using htb
      have plain : WF (.op .division [] [a, b]) = true ∧ shape (.op .division [] [a, b]) = [] ∧ fi (.op .division [] [a, b]) = fi a :=
        ⟨by simp [WF, ha, hb, hsa', htb'], by simp [shape], by simp [fi]⟩
      split at h
      · cases h
      · split at h
        · simp only [Option.some.injEq] at h; subst h; exact ⟨ha, hsa', rfl⟩
        · split at h
          · split at h
            · simp only [Option.some.injEq] at h; subst h; exact ⟨ha, hsa', rfl⟩
            · split at h
              · rename_i ia va hla
                simp only [Option.some.injEq] at h; subst h
                exact ⟨mkLit_wf _ _, (mkLit_shape _ _).1, by rw [(mkLit_shape _ _).2, (lit_shape a ia va hla).2]⟩
              · split at h
                · simp only [Option.some.injEq] at h; subst h; simp [isUnsupported, unsupported] at hu
                · simp only [Option.some.injEq] at h; subst h; exact plain
          · split at h
            · simp only [Option.some.injEq] at h; subst h; simp [isUnsupported, unsupported] at hu
            · simp only [Option.some.injEq] at h; subst h; exact plain

theorem mkConditional_wf (c t f r : Expr) (aux : List Nat) (hw : WF (.op .conditional aux [c, t, f]) = true)
    (h : mkConditional c t f = some r) : WF r = true ∧ shape r = shape t ∧ fi r = fi t := by
  have hw' := hw
  simp only [WF, Bool.and_eq_true, beq_iff_eq] at hw'
  obtain ⟨⟨⟨⟨wc, wt⟩, wf⟩, hs⟩, hf⟩ := hw'
  have plain : WF (.op .conditional [] [c, t, f]) = true ∧ shape (.op .conditional [] [c, t, f]) = shape t ∧
      fi (.op .conditional [] [c, t, f]) = fi t := ⟨by simpa [WF] using hw, by simp [shape], by simp [fi]⟩
  unfold mkConditional at h
  split at h
  · simp only [Option.some.injEq] at h; subst h; exact ⟨wt, rfl, rfl⟩
  · split at h
    · cases h
    · split at h
      · cases h
      · split at h
        · split at h
          · simp only [Option.some.injEq] at h; subst h; exact plain
          · cases h
        · split at h
          · simp only [Option.some.injEq] at h; subst h; exact plain
          · cases h
        · simp only [Option.some.injEq] at h; subst h; exact plain

/-! ## sorted free-index lists are determined by membership and extents -/

theorem has_cons (i : Nat) (p : Nat × Nat) (f : FI) : FI.has i (p :: f) = (p.1 == i || FI.has i f) := by
  simp [FI.has]

theorem FIeq_eq : ∀ (f g : FI), Sorted f → Sorted g → FIeq f g → f = g
  | [], [], _, _, _ => rfl
  | [], q :: qs, _, _, h => by
    have := (h q.1).1
    simp [FI.has] at this
  | p :: ps, [], _, _, h => by
    have := (h p.1).1
    simp [FI.has] at this
  | p :: ps, q :: qs, hf, hg, h => by
    have hf' := List.pairwise_cons.mp hf
    have hg' := List.pairwise_cons.mp hg
    have hps : FI.has p.1 ps = false := not_has_of_lt _ _ hf'.1
    have hqs : FI.has q.1 qs = false := not_has_of_lt _ _ hg'.1
    have e1 : p.1 = q.1 := by
      rcases Nat.lt_trichotomy p.1 q.1 with hlt | heq | hgt
      · have : FI.has p.1 (q :: qs) = false := not_has_of_lt _ _ (by
          intro x hx
          cases List.mem_cons.mp hx with
          | inl e => rw [e]; exact hlt
          | inr e => exact Nat.lt_trans hlt (hg'.1 x e))
        have h1 := (h p.1).1
        rw [this] at h1; simp [FI.has] at h1
      · exact heq
      · have : FI.has q.1 (p :: ps) = false := not_has_of_lt _ _ (by
          intro x hx
          cases List.mem_cons.mp hx with
          | inl e => rw [e]; exact hgt
          | inr e => exact Nat.lt_trans hgt (hf'.1 x e))
        have h1 := (h q.1).1
        rw [this] at h1; simp [FI.has] at h1
    have e2 : p.2 = q.2 := by
      have h2 := (h p.1).2
      rw [dimOf_cons, dimOf_cons] at h2
      simpa [e1] using h2
    have epq : p = q := Prod.ext e1 e2
    subst epq
    have : ps = qs := by
      apply FIeq_eq ps qs hf'.2 hg'.2
      intro i
      by_cases hi : i = p.1
      · subst hi
        exact ⟨by rw [hps, hqs], by rw [dim_nothas _ _ hps, dim_nothas _ _ hqs]⟩
      · have hi' : ¬ p.1 = i := fun e => hi e.symm
        have h1 := (h i).1
        have h2 := (h i).2
        rw [has_cons, has_cons] at h1
        rw [dimOf_cons, dimOf_cons] at h2
        have hb : (p.1 == i) = false := by simp [hi']
        simp only [hb, Bool.false_or] at h1
        simp only [hi', ↓reduceIte] at h2
        exact ⟨h1, h2⟩
    rw [this]

theorem FIeq_of_eq {f g : FI} (h : f = g) : FIeq f g := by subst h; exact FIeq.rfl' f

/-! ## ComponentTensor: shape, free indices, well-formedness of what the constructor returns -/

theorem removeAll_eq : ∀ (cs : List Nat) (f f' : FI), removeAll f cs = some f' → f' = cs.foldl (fun acc c => FI.remove c acc) f
  | [], f, f', h => by simp [removeAll] at h; simp [h]
  | c :: cs, f, f', h => by
    simp only [removeAll] at h
    split at h
    · simp only [List.foldl_cons]; exact removeAll_eq cs _ f' h
    · cases h

theorem dimOf_foldl_remove (i : Nat) : ∀ (cs : List Nat) (f : FI), cs.contains i = false →
    FI.dimOf i (cs.foldl (fun acc c => FI.remove c acc) f) = FI.dimOf i f
  | [], f, _ => rfl
  | c :: cs, f, h => by
    simp only [List.contains_cons, Bool.or_eq_false_iff, beq_eq_false_iff_ne, ne_eq] at h
    simp only [List.foldl_cons]
    rw [dimOf_foldl_remove i cs _ h.2, dimOf_remove i c h.1]

theorem idxPairs_free (sh : List Nat) : ∀ (cs : List Nat) (o : Nat),
    idxPairs sh (List.zipIdx (cs.map Idx.free) o) = (cs.zipIdx o).map (fun p => (p.1, sh.getD p.2 0))
  | [], o => by simp [idxPairs]
  | c :: cs, o => by
    simp only [List.map_cons, List.zipIdx_cons, idxPairs]
    rw [idxPairs_free sh cs (o + 1)]

theorem dims_of_pairs (sh : List Nat) : ∀ (cs : List Nat) (o : Nat), nodupNat cs = true →
    cs.map (fun c => FI.dimOf c ((cs.zipIdx o).map (fun p => (p.1, sh.getD p.2 0)))) = (List.range' o cs.length).map (fun k => sh.getD k 0)
  | [], o, _ => by simp
  | c :: cs, o, hn => by
    simp only [nodupNat, Bool.and_eq_true, Bool.not_eq_true'] at hn
    simp only [List.zipIdx_cons, List.map_cons, List.length_cons, List.range'_succ]
    congr 1
    · rw [dimOf_cons]; simp
    · rw [← dims_of_pairs sh cs (o + 1) hn.2]
      apply List.map_congr_left
      intro c' hc'
      rw [dimOf_cons]
      have : ¬ c = c' := by
        intro e; subst e
        have : cs.contains c = true := by simpa using hc'
        rw [hn.1] at this; cases this
      simp [this]

theorem range_getD (sh : List Nat) : (List.range' 0 sh.length).map (fun k => sh.getD k 0) = sh := by
  apply List.ext_getElem
  · simp
  · intro i h1 h2
    simp only [List.length_map, List.length_range'] at h1
    simp [List.getD, h1]

/-- shape of `as_tensor(A[is], is)` for distinct bound indices that are not free in A: the shape of A -/
theorem ct_indexed_shape (A : Expr) (cs : List Nat) (x : List Nat) (hw : WF A = true) (hn : nodupNat cs = true)
    (hl : cs.length = (shape A).length) (hd : ∀ c ∈ cs, FI.has c (fi A) = false) :
    cs.map (fun c => FI.dimOf c (fi (.op .indexed x [A, .mi (cs.map Idx.free)]))) = shape A := by
  have : ∀ c ∈ cs, FI.dimOf c (fi (.op .indexed x [A, .mi (cs.map Idx.free)])) =
      FI.dimOf c ((cs.zipIdx 0).map (fun p => (p.1, (shape A).getD p.2 0))) := by
    intro c hc
    simp only [fi]
    rw [dimOf_foldl_insert_nothas c _ _ (fi_sorted A hw) (hd c hc)]
    rw [idxPairs_free (shape A) cs 0]
  rw [List.map_congr_left this, dims_of_pairs (shape A) cs 0 hn, hl, range_getD]

theorem mkComponentTensor_wf (a : Expr) (is : List Idx) (aux : List Nat) (r : Expr)
    (hw : WF (.op .componentTensor aux [a, .mi is]) = true) (h : mkComponentTensor a is = some r)
    (hsc : ∀ x A, a = .op .indexed x [A, .mi is] → ∀ j ∈ freeCounts is, FI.has j (fi A) = false) :
    WF r = true ∧ shape r = shape (.op .componentTensor aux [a, .mi is]) ∧ FIeq (fi r) (fi (.op .componentTensor aux [a, .mi is])) := by
  have hw' := hw
  simp only [WF, Bool.and_eq_true, List.isEmpty_iff] at hw'
  obtain ⟨⟨wa, sa⟩, hm⟩ := hw'
  unfold mkComponentTensor at h
  split at h
  · cases h
  · rename_i cs hcs
    obtain ⟨h1, h2, h3⟩ := allFree_spec is cs hcs
    simp only [hcs, Bool.and_eq_true, List.all_eq_true] at hm
    have plain : WF (.op .componentTensor [] [a, .mi is]) = true ∧
        shape (.op .componentTensor [] [a, .mi is]) = shape (.op .componentTensor aux [a, .mi is]) ∧
        FIeq (fi (.op .componentTensor [] [a, .mi is])) (fi (.op .componentTensor aux [a, .mi is])) :=
      ⟨by simpa [WF] using hw, by simp [shape], by simp only [fi]; exact FIeq.rfl' _⟩
    split at h
    · rename_i sh f
      split at h
      · rename_i f' hf'
        simp only [Option.some.injEq] at h; subst h
        have e := removeAll_eq cs f f' hf'
        simp only [WF] at wa
        refine ⟨?_, by simp [shape, fi, h1], by simp only [fi, h1]; rw [e]; exact FIeq.rfl' _⟩
        simp only [WF]; rw [e]
        exact (sortedFI_iff _).mpr (foldl_remove_sorted _ _ ((sortedFI_iff f).mp wa))
      · cases h
    · simp only [Option.orElse] at h
      split at h
      · rename_i x heq
        split at heq
        · rename_i y A ii hnz
          split at heq
          · rename_i hii
            simp only [Option.some.injEq] at heq h
            subst hii
            rw [← heq] at h; subst h
            have hd := hsc y A rfl
            rw [h1] at hd
            have wa' := wa
            simp only [WF, Bool.and_eq_true, beq_iff_eq] at wa'
            obtain ⟨⟨⟨wA, hlA⟩, _⟩, _⟩ := wa'
            refine ⟨wA, ?_, ?_⟩
            · simp only [shape, h1]
              rw [h3]
              exact (ct_indexed_shape A cs y wA hm.1 (by omega) hd).symm
            · intro i
              simp only [fi, h1]
              have hh := has_indexed_fi A ii y i
              simp only [fi] at hh
              by_cases hic : cs.contains i = true
              · have hi : i ∈ cs := by simpa using hic
                have hA := hd i hi
                constructor
                · rw [has_foldl_remove, hA, hic]; simp
                · rw [dim_nothas _ _ hA, dim_nothas]
                  rw [has_foldl_remove, hic]; simp
              · have hic' : cs.contains i = false := by simpa using hic
                have hni : ii.contains (Idx.free i) = false := by
                  rw [h3]
                  rw [Bool.eq_false_iff]
                  intro hc
                  have : i ∈ cs := by simpa using hc
                  have : cs.contains i = true := by simpa using this
                  rw [hic'] at this; cases this
                constructor
                · rw [has_foldl_remove, hh, hni, hic']; simp
                · rw [dimOf_foldl_remove i cs _ hic']
                  have := (indexed_fi_facts A ii wA).2.2 i hni
                  simp only [fi] at this
                  exact this.symm
          · cases heq
        · cases heq
      · split at h
        · cases h
        · split at h
          · simp only [Option.some.injEq] at h; subst h; exact plain
          · cases h

/-! ## ListTensor without a collapse pattern -/

/-- side condition for `ListTensor(*xs)`: some row is not an `Indexed` node and some row is not a
    component tensor of an `Indexed` node, so neither collapse rule `[A[..,0], .., A[..,n-1]] -> A` applies.
    (The collapse is value-preserving only on components within the shape of A: the total `eval` gives an
    out-of-range component of the list tensor the value 0 and leaves it to the valuation for A.) -/
def ltSC (xs : List Expr) : Bool :=
  xs.any (fun x => (indexedParts x).isNone) && xs.any (fun x => (ctIndexedParts x).isNone)

theorem allSome_map_none {α : Type} (f : Expr → Option α) : ∀ xs : List Expr, (∃ x ∈ xs, f x = none) → allSome (xs.map f) = none
  | [], h => by obtain ⟨x, hx, _⟩ := h; cases hx
  | y :: ys, h => by
    simp only [List.map_cons]
    cases hy : f y with
    | none => simp [allSome]
    | some v =>
      obtain ⟨x, hx, hn⟩ := h
      cases List.mem_cons.mp hx with
      | inl e => subst e; rw [hy] at hn; cases hn
      | inr e => simp [allSome, allSome_map_none f ys ⟨x, e, hn⟩]

theorem mkListTensor_plain (xs : List Expr) (r : Expr) (hsc : ltSC xs = true) (h : mkListTensor xs = some r) :
    (xs.all isZero = true ∧ ∃ e0 rest, xs = e0 :: rest ∧ r = .zero (xs.length :: shape e0) (fi e0)) ∨
    r = .op .listTensor [] xs := by
  simp only [ltSC, Bool.and_eq_true, List.any_eq_true, Option.isNone_iff_eq_none] at hsc
  have n1 := allSome_map_none indexedParts xs hsc.1
  have n2 := allSome_map_none ctIndexedParts xs hsc.2
  unfold mkListTensor at h
  cases xs with
  | nil => cases h
  | cons e0 rest =>
    simp only at h
    split at h
    · cases h
    · split at h
      · rename_i hz
        simp only [Option.some.injEq] at h; subst h
        exact Or.inl ⟨hz, e0, rest, rfl, rfl⟩
      · rw [n1, n2] at h
        simp only [Option.some.injEq] at h; subst h
        exact Or.inr rfl

/-- `ListTensor(*xs)` when no collapse rule applies: the plain node, or `Zero` for all-zero rows -/
theorem C05_mkListTensor_plain (ρ : Env K) (s : Side) (ι : IdxEnv) (aux : List Nat) (xs : List Expr) (r : Expr)
    (hw : WF (.op .listTensor aux xs) = true) (hsc : ltSC xs = true) (h : mkListTensor xs = some r) :
    (∀ c, eval ρ s ι r c = eval ρ s ι (.op .listTensor aux xs) c) ∧ WF r = true ∧
    shape r = shape (.op .listTensor aux xs) ∧ fi r = fi (.op .listTensor aux xs) := by
  rcases mkListTensor_plain xs r hsc h with ⟨hz, e0, rest, rfl, rfl⟩ | rfl
  · refine ⟨fun c => ?_, ?_, by simp [shape], by simp [fi]⟩
    · cases c with
      | nil => simp [eval]
      | cons v c' =>
        have := evalNth_zero ρ s ι (e0 :: rest) v c' hz
        simp only [eval] at this ⊢
        rw [this]
    · simp only [WF, Bool.and_eq_true] at hw
      simp only [WF]
      exact (sortedFI_iff _).mpr (fi_sorted e0 hw.1.1)
  · refine ⟨fun c => by simp [eval], ?_, ?_, ?_⟩
    · cases xs with
      | nil => simp [WF] at hw
      | cons a as => simpa [WF] using hw
    · cases xs <;> simp [shape]
    · cases xs <;> simp [fi]

/-! ## Indexed: the extents of all free indices of the result (C05.lean records those of A only) -/

theorem plainIndexed_eq (A : Expr) (is : List Idx) (r : Expr) (h : plainIndexed A is = some r) :
    r = .op .indexed [] [A, .mi is] := by
  unfold plainIndexed at h
  simp only at h
  split at h
  · cases h
  · split at h
    · cases h
    · split at h
      · simp only [Option.some.injEq] at h; exact h.symm
      · cases h

theorem dimOf_foldl_insert (i : Nat) (ps : List (Nat × Nat)) (f : FI) (hs : Sorted f) :
    FI.dimOf i (ps.foldl (fun acc p => FI.insert p acc) f) = if FI.has i f = true then FI.dimOf i f else FI.dimOf i ps := by
  by_cases h : FI.has i f = true
  · simp [h, dimOf_foldl_insert_has i ps f hs h]
  · have h' : FI.has i f = false := by simpa using h
    simp [h', dimOf_foldl_insert_nothas i ps f hs h']

theorem idxPairs_shift (n : Nat) (sh : List Nat) : ∀ (ks : List Idx) (o : Nat),
    idxPairs (n :: sh) (List.zipIdx ks (o + 1)) = idxPairs sh (List.zipIdx ks o)
  | [], o => by simp [idxPairs]
  | .fixed v :: ks, o => by
    simp only [List.zipIdx_cons, idxPairs]
    exact idxPairs_shift n sh ks (o + 1)
  | .free c :: ks, o => by
    simp only [List.zipIdx_cons, idxPairs, List.getD_cons_succ]
    rw [idxPairs_shift n sh ks (o + 1)]

theorem mkIndexedF_dims (ρ : Env K) (s : Side) : ∀ (fuel : Nat) (A : Expr) (is : List Idx) (r : Expr),
    WF A = true → Hyg A = true → mkIndexedF fuel A is = some r → isUnsupported r = false →
    is.length = (shape A).length → fixedInRange (shape A) is = true →
    ∀ i, FI.dimOf i (fi r) = FI.dimOf i (fi (.op .indexed [] [A, .mi is])) := by
  intro fuel
  induction fuel with
  | zero => intro A is r _ _ h; simp [mkIndexedF] at h
  | succ fuel ih =>
    intro A is r hw hy h hu hl hr i
    cases is with
    | nil =>
      simp only [mkIndexedF, Option.some.injEq] at h
      rw [← h]; simp [fi, idxPairs]
    | cons k ks =>
      unfold mkIndexedF at h
      simp only at h
      split at h
      · -- Zero
        rename_i sh f
        split at h
        · rename_i f' hf
          simp only [Option.some.injEq] at h; subst h
          have e := indexedFI_spec (.zero sh f) (k :: ks) f' hl (by simpa [fi, shape] using hf)
          simp only [fi] at e ⊢
          rw [e]
        · cases h
      · -- Sum
        rename_i x a b
        obtain ⟨xa, hxa, uxa, h⟩ := bindU_some _ _ r h hu
        obtain ⟨xb, hxb, uxb, h⟩ := bindU_some _ _ r h hu
        simp only [WF, Bool.and_eq_true, beq_iff_eq] at hw
        obtain ⟨⟨⟨wa, wb⟩, hs⟩, hf⟩ := hw
        have hya : Hyg a = true ∧ Hyg b = true := by simpa [Hyg, HygL] using hy
        simp only [shape] at hl hr
        have d1 := ih a (k :: ks) xa wa hya.1 hxa uxa hl hr i
        obtain ⟨_, _, fir⟩ := C05_mkSum ρ s (fun _ => 0) xa xb r h hu
        rw [fir, d1]
        simp only [fi, shape]
      · -- IndexSum
        rename_i x A' j
        split at h
        · rw [plainIndexed_eq _ _ r h]
        · rename_i hj
          have hj' : (k :: ks).contains (.free j) = false := by simpa using hj
          obtain ⟨xa, hxa, uxa, h⟩ := bindU_some _ _ r h hu
          have hw0 := hw
          simp only [WF, Bool.and_eq_true] at hw
          have hyA : Hyg A' = true := by simpa [Hyg, HygL] using hy
          simp only [shape] at hl hr
          obtain ⟨w1, s1, has1, dim1, ev1⟩ := mkIndexedF_spec ρ s fuel A' (k :: ks) xa hw.1 hyA hxa uxa hl hr
          have d1 := ih A' (k :: ks) xa hw.1 hyA hxa uxa hl hr
          obtain ⟨wr, sr, hasr, dimr⟩ := mkIndexSum_wf xa j r w1 h hu
          by_cases hij : i = j
          · subst hij
            rw [dim_nothas _ _ (by rw [hasr]; simp), dim_nothas]
            rw [has_indexed_fi, hj']; simp only [fi]; rw [has_remove]; simp
          · rw [dimr i hij, d1 i]
            simp only [fi, shape]
            rw [dimOf_foldl_insert i _ _ (fi_sorted A' hw.1), dimOf_foldl_insert i _ _ (remove_sorted j _ (fi_sorted A' hw.1)),
              has_remove, dimOf_remove i j hij]
            simp [hij]
      · -- ListTensor
        rename_i x xs
        cases k with
        | free c => rw [plainIndexed_eq _ _ r h]
        | fixed v =>
          simp only at h
          cases hrow : xs[v]? with
          | none => simp [hrow] at h
          | some row =>
            simp only [hrow] at h
            cases xs with
            | nil => simp at hrow
            | cons x0 rest =>
              simp only [WF, Bool.and_eq_true, List.all_eq_true, beq_iff_eq] at hw
              obtain ⟨⟨w0, wr⟩, hsame⟩ := hw
              have wfl : WFL (x0 :: rest) = true := by simp [WFL, w0, wr]
              have wrow := wfl_get _ v row wfl hrow
              have hyl : HygL (x0 :: rest) = true := by simpa [Hyg] using hy
              have hyrow := hygl_get _ v row hyl hrow
              have hrow_in : row ∈ x0 :: rest := List.mem_of_getElem? hrow
              have srow : shape row = shape x0 ∧ fi row = fi x0 := by
                cases List.mem_cons.mp hrow_in with
                | inl e => rw [e]; exact ⟨rfl, rfl⟩
                | inr e => exact hsame row e
              simp only [shape] at hl hr
              have hl' : ks.length = (shape row).length := by rw [srow.1]; simpa using hl
              have hr' : fixedInRange (shape row) ks = true := by rw [srow.1]; exact fixedInRange_tail _ _ _ _ hr
              rw [ih row ks r wrow hyrow h hu hl' hr' i]
              simp only [fi, shape, srow.1, srow.2]
              have : idxPairs ((rest.length + 1) :: shape x0) (Idx.fixed v :: ks).zipIdx = idxPairs (shape x0) ks.zipIdx := by
                simp only [List.zipIdx, List.zipIdx_cons, idxPairs]
                exact idxPairs_shift _ _ ks 0
              rw [this]
      · -- ComponentTensor: no shortcut under `Hyg`
        rename_i x B jj
        split at h
        · cases h
        · have hB : ∀ y args, B ≠ .op .indexed y args := by
            intro y args e; subst e; simp [Hyg] at hy
          split at h
          · rename_i heq
            split at heq
            · rename_i y rows kk; exact absurd rfl (hB _ _)
            · simp only at heq
              exact absurd heq (hB _ _)
          · rw [plainIndexed_eq _ _ r h]
      · rw [plainIndexed_eq _ _ r h]

/-! ## the uniform statement -/

/-- side conditions of `rebuild_sound_partial`, per operator (everything else: none) -/
def RebuildSC (k : Op) (args : List Expr) : Bool :=
  match k, args with
  | .power, [a, b] => powSC a b
  | .indexed, [a, .mi _] => Hyg a
  | .componentTensor, [.op .indexed _ [A, .mi ii], .mi is] => ii != is || (freeCounts is).all (fun c => !FI.has c (fi A))
  | .listTensor, xs => ltSC xs
  | _, _ => true

/-- **Rebuild soundness.**  Whatever `rebuild k aux args` (= `type(o)(*operands)`, the class constructor
    with all its simplifications) returns has, for every valuation satisfying `LitSem`, every side, index
    environment and component of the right rank, the value of the plain node `.op k aux args`; it has the
    node's shape and free indices (with the same extents) and is well formed.

    `_partial`: the side conditions `RebuildSC k args` inherited from the `_partial` constructor theorems are
    * `Indexed(a, is)`: `Hyg a` — no component tensor inside `a` has a plain `Indexed` body (the rewriting
      `as_tensor(C[kk], jj)[is] -> C[kk with jj := is]` is not covered; `C05_mkIndexed_partial`);
    * `ListTensor(*xs)`: `ltSC xs` — some row is not an `Indexed` node and some row is not a component tensor
      of an `Indexed` node, i.e. neither collapse `[A[..,0], .., A[..,n-1]] -> A` applies (the second is not
      covered by `C05_mkListTensor_partial`; the first preserves values only on components within the shape
      of A, see `C05_mkListTensor_collapse_counterexample`);
    * `ComponentTensor(A[is], is)` (the shortcut returning A): no bound index is free in A
      (`C05_mkComponentTensor`; distinctness of the bound indices follows from `WF`);
    * `Power(Zero, b)`: b is not a zero-valued literal (`powSC`; not a UFL object, see
      `C05_mkPower_zero_literal_counterexample`).
    Every other operator has no side condition (`rebuild_sound_simple_ops`).  The `unsupported` marker
    (complex-literal / non-integer-power folding, fresh-index shortcut) is excluded by `hu`. -/
theorem rebuild_sound_partial (ρ : Env K) (hρ : LitSem ρ) (s : Side) (ι : IdxEnv) (k : Op) (aux : List Nat) (args : List Expr) (r : Expr)
    (hw : WF (.op k aux args) = true) (hy : RebuildSC k args = true)
    (h : rebuild k aux args = some r) (hu : isUnsupported r = false) :
    (∀ c, c.length = (shape (.op k aux args)).length → eval ρ s ι r c = eval ρ s ι (.op k aux args) c) ∧
    shape r = shape (.op k aux args) ∧ FIeq (fi r) (fi (.op k aux args)) ∧ WF r = true := by
  unfold rebuild at h
  split at h
  · -- Sum
    rename_i a b
    have hw' := hw
    simp only [WF, Bool.and_eq_true, beq_iff_eq] at hw'
    obtain ⟨⟨⟨wa, wb⟩, _⟩, _⟩ := hw'
    obtain ⟨ev, shr, fir⟩ := C05_mkSum ρ s ι a b r h hu
    exact ⟨fun c _ => by rw [ev c]; simp [eval], by rw [shr]; simp [shape], by rw [fir]; simp only [fi]; exact FIeq.rfl' _,
      mkSum_wf a b r wa wb h hu⟩
  · -- Product
    rename_i a b
    have hw' := hw
    simp only [WF, Bool.and_eq_true, List.isEmpty_iff] at hw'
    obtain ⟨⟨⟨⟨wa, wb⟩, _⟩, _⟩, dpq⟩ := hw'
    have dag := (dimsAgree_iff _ _ (fi_sorted a wa)).mp dpq
    obtain ⟨wr, sr, hasr, dimr⟩ := mkProduct_wf a b r wa wb dag h hu
    refine ⟨fun c hc => ?_, by rw [sr]; simp [shape], fun i => ⟨?_, ?_⟩, wr⟩
    · simp only [shape, List.length_nil, List.length_eq_zero_iff] at hc
      subst hc
      rw [(C05_mkProduct ρ s ι a b r h hu).1]; simp [eval]
    · rw [hasr]; simp only [fi]; rw [has_merge]
    · rw [dimr]; simp only [fi]; rw [merge_dim _ _ (fi_sorted a wa)]
  · -- Division
    rename_i a b
    have hw' := hw
    simp only [WF, Bool.and_eq_true, List.isEmpty_iff] at hw'
    obtain ⟨⟨⟨wa, wb⟩, _⟩, _⟩ := hw'
    obtain ⟨wr, sr, fr⟩ := mkDivision_wf a b r wa wb h hu
    refine ⟨fun c hc => ?_, by rw [sr]; simp [shape], by rw [fr]; simp only [fi]; exact FIeq.rfl' _, wr⟩
    simp only [shape, List.length_nil, List.length_eq_zero_iff] at hc
    subst hc
    rw [C05_mkDivision ρ s ι a b r h hu]; simp [eval]
  · -- Power
    rename_i a b
    have hw' := hw
    simp only [WF, Bool.and_eq_true, trueScalar, List.isEmpty_iff] at hw'
    obtain ⟨⟨⟨wa, wb⟩, _, fa⟩, _⟩ := hw'
    obtain ⟨wr, sr, fr⟩ := mkPower_wf a b r wa wb h hu
    refine ⟨fun c _ => ?_, by rw [sr]; simp [shape], by rw [fr]; simp only [fi]; rw [fa]; exact FIeq.rfl' _, wr⟩
    rw [C05_mkPower ρ hρ s ι a b r (by simpa [RebuildSC] using hy) h hu c]; simp [eval]
  · -- Abs
    rename_i a
    have wa : WF a = true := by simpa [WF] using hw
    obtain ⟨wr, sr, fr⟩ := mkAbs_wf a r wa h hu
    exact ⟨fun c _ => by rw [C05_mkAbs ρ hρ s ι a r h hu c]; simp [eval], by rw [sr]; simp [shape],
      by rw [fr]; simp only [fi]; exact FIeq.rfl' _, wr⟩
  · -- Conj
    rename_i a
    have wa : WF a = true := by simpa [WF] using hw
    obtain ⟨wr, sr, fr⟩ := mkConj_wf a r wa h hu
    exact ⟨fun c _ => by rw [C05_mkConj ρ hρ s ι a r h hu c]; simp [eval], by rw [sr]; simp [shape],
      by rw [fr]; simp only [fi]; exact FIeq.rfl' _, wr⟩
  · -- Real
    rename_i a
    have wa : WF a = true := by simpa [WF] using hw
    obtain ⟨wr, sr, fr⟩ := mkReal_wf a r wa h hu
    exact ⟨fun c _ => by rw [C05_mkReal ρ hρ s ι a r h hu c]; simp [eval], by rw [sr]; simp [shape],
      by rw [fr]; simp only [fi]; exact FIeq.rfl' _, wr⟩
  · -- Imag
    rename_i a
    have wa : WF a = true := by simpa [WF] using hw
    obtain ⟨wr, sr, fr⟩ := mkImag_wf a r wa h hu
    exact ⟨fun c _ => by rw [C05_mkImag ρ hρ s ι a r h hu c]; simp [eval], by rw [sr]; simp [shape],
      by rw [fr]; simp only [fi]; exact FIeq.rfl' _, wr⟩
  · -- Indexed
    rename_i a is
    have hw' := hw
    simp only [WF, Bool.and_eq_true, beq_iff_eq] at hw'
    obtain ⟨⟨⟨wa, hl⟩, hr⟩, _⟩ := hw'
    have hya : Hyg a = true := by simpa [RebuildSC] using hy
    obtain ⟨wr, sr, hasr, _, ev⟩ := C05_mkIndexed_partial ρ s a is r wa hya h hu hl hr
    have dims := mkIndexedF_dims ρ s (a.size + 1) a is r wa hya h hu hl hr
    refine ⟨fun c hc => ?_, by rw [sr]; simp [shape], fun i => ⟨?_, ?_⟩, wr⟩
    · simp only [shape, List.length_nil, List.length_eq_zero_iff] at hc
      subst hc
      rw [ev ι]; simp [eval]
    · rw [hasr, has_indexed_fi]
    · rw [dims i]; simp only [fi]
  · -- IndexSum
    rename_i a j
    have hw' := hw
    simp only [WF, Bool.and_eq_true] at hw'
    obtain ⟨wr, sr, hasr, dimr⟩ := mkIndexSum_wf a j r hw'.1 h hu
    refine ⟨fun c hc => ?_, by rw [sr]; simp [shape], fun i => ⟨?_, ?_⟩, wr⟩
    · simp only [shape] at hc
      rw [C05_mkIndexSum ρ s a j ι r hw'.1 h hu c hc]
      simp only [eval]; rw [sumRange_eq_sum]
    · rw [hasr]; simp only [fi]; rw [has_remove]
    · by_cases hij : i = j
      · subst hij
        rw [dim_nothas _ _ (by rw [hasr]; simp)]; simp only [fi]; rw [dimOf_remove_self]
      · rw [dimr i hij]; simp only [fi]; rw [dimOf_remove i j hij]
  · -- ComponentTensor
    rename_i a is
    have hw' := hw
    simp only [WF, Bool.and_eq_true, List.isEmpty_iff] at hw'
    obtain ⟨⟨wa, sa⟩, hm⟩ := hw'
    have hsc : ∀ x A, a = .op .indexed x [A, .mi is] → ∀ j ∈ freeCounts is, FI.has j (fi A) = false := by
      intro x A e; subst e
      simpa [RebuildSC] using hy
    obtain ⟨wr, sr, fr⟩ := mkComponentTensor_wf a is aux r hw h hsc
    refine ⟨fun c hc => ?_, sr, fr, wr⟩
    cases hcs : allFree is with
    | none => simp [hcs] at hm
    | some cs =>
      obtain ⟨h1, h2, h3⟩ := allFree_spec is cs hcs
      simp only [hcs, Bool.and_eq_true] at hm
      rw [C05_mkComponentTensor ρ s ι a is r wa h (fun x A e => ⟨cs, hcs, hm.1, by rw [← h1]; exact hsc x A e⟩) c
        (by simp only [shape, h1, List.length_map] at hc; omega)]
      simp [eval]
  · -- ListTensor
    obtain ⟨ev, wr, sr, fr⟩ := C05_mkListTensor_plain ρ s ι aux args r hw (by simpa [RebuildSC] using hy) h
    exact ⟨fun c _ => ev c, sr, FIeq_of_eq fr, wr⟩
  · -- Conditional
    rename_i c t f
    obtain ⟨wr, sr, fr⟩ := mkConditional_wf c t f r aux hw h
    exact ⟨fun comp _ => by rw [C05_mkConditional ρ s ι c t f r h comp]; simp [eval], by rw [sr]; simp [shape],
      by rw [fr]; simp only [fi]; exact FIeq.rfl' _, wr⟩
  · -- MinValue
    rename_i a b
    have := fun c => C05_mkMinMax ρ s ι .minValue (Or.inl rfl) aux a b r h c
    exact ⟨fun c _ => (this c).1, (this []).2.2.1, FIeq_of_eq (this []).2.2.2, (this []).2.1 hw⟩
  · -- MaxValue
    rename_i a b
    have := fun c => C05_mkMinMax ρ s ι .maxValue (Or.inr rfl) aux a b r h c
    exact ⟨fun c _ => (this c).1, (this []).2.2.1, FIeq_of_eq (this []).2.2.2, (this []).2.1 hw⟩
  -- the condition classes are not tensor-valued expressions
  all_goals try (exfalso; simp [WF, mathName] at hw; done)
  -- every other operator is rebuilt as the plain node
  simp only [Option.some.injEq] at h; subst h
  exact ⟨fun c _ => rfl, rfl, FIeq.rfl' _, hw⟩

/-- `rebuild_sound_partial` without side condition, for every operator other than the four that have one -/
theorem rebuild_sound_simple_ops (ρ : Env K) (hρ : LitSem ρ) (s : Side) (ι : IdxEnv) (k : Op) (aux : List Nat) (args : List Expr) (r : Expr)
    (hk : k ≠ .power ∧ k ≠ .indexed ∧ k ≠ .componentTensor ∧ k ≠ .listTensor)
    (hw : WF (.op k aux args) = true) (h : rebuild k aux args = some r) (hu : isUnsupported r = false) :
    (∀ c, c.length = (shape (.op k aux args)).length → eval ρ s ι r c = eval ρ s ι (.op k aux args) c) ∧
    shape r = shape (.op k aux args) ∧ FIeq (fi r) (fi (.op k aux args)) ∧ WF r = true := by
  refine rebuild_sound_partial ρ hρ s ι k aux args r hw ?_ h hu
  unfold RebuildSC
  split <;> simp_all

/-- the same for the condition classes: the rebuilt condition has the truth value of the plain node
    and is a well-formed condition (no side condition, no literal folding) -/
theorem rebuild_sound_cond (ρ : Env K) (s : Side) (ι : IdxEnv) (k : Op) (aux : List Nat) (args : List Expr) (r : Expr)
    (hw : WFC (.op k aux args) = true) (h : rebuild k aux args = some r) :
    evalB ρ s ι r = evalB ρ s ι (.op k aux args) ∧ WFC r = true ∧ isUnsupported r = false := by
  have hnu : ∀ x, WFC x = true → isUnsupported x = false := by
    intro x hx; cases x <;> simp_all [WFC, isUnsupported]
  suffices evalB ρ s ι r = evalB ρ s ι (.op k aux args) ∧ WFC r = true from ⟨this.1, this.2, hnu r this.2⟩
  unfold rebuild at h
  split at h
  all_goals try (exfalso; simp [WFC] at hw; done)
  · rename_i a b; have := C05_mkCondition ρ s ι .eQ aux a b r h; exact ⟨this.1, this.2 hw⟩
  · rename_i a b; have := C05_mkCondition ρ s ι .nE aux a b r h; exact ⟨this.1, this.2 hw⟩
  · rename_i a b; have := C05_mkCondition ρ s ι .lT aux a b r h; exact ⟨this.1, this.2 hw⟩
  · rename_i a b; have := C05_mkCondition ρ s ι .gT aux a b r h; exact ⟨this.1, this.2 hw⟩
  · rename_i a b; have := C05_mkCondition ρ s ι .lE aux a b r h; exact ⟨this.1, this.2 hw⟩
  · rename_i a b; have := C05_mkCondition ρ s ι .gE aux a b r h; exact ⟨this.1, this.2 hw⟩
  · rename_i a b; have := C05_mkCondition ρ s ι .andCondition aux a b r h; exact ⟨this.1, this.2 hw⟩
  · rename_i a b; have := C05_mkCondition ρ s ι .orCondition aux a b r h; exact ⟨this.1, this.2 hw⟩
  · rename_i a; have := C05_mkNot ρ s ι aux a r h; exact ⟨this.1, this.2 hw⟩

/-! ## why the side conditions are there: two concrete witnesses -/

/-- `Power(Zero, <literal 0>)`: the model folds it to `Zero`, but `f ** 0 = 1`.  The operand `.int 0`
    is not a UFL object (`IntValue(0)` is `Zero()`, for which the constructor returns `IntValue(1)`), so
    this is a corner of the model's input space only; `powSC` excludes it. -/
theorem C05_mkPower_zero_literal_counterexample (ρ : Env K) (hρ : LitSem ρ) (s : Side) (ι : IdxEnv) :
    mkPower (.zero [] []) (.int 0) = some (.zero [] []) ∧
    eval ρ s ι (.zero [] []) [] ≠ eval ρ s ι (.op .power [] [.zero [] [], .int 0]) [] := by
  refine ⟨by rfl, ?_⟩
  simp [eval, hρ.pow_zero_exp]

/-- The collapse `[A[0], A[1]] -> A`: on the out-of-range component `[2]` the list tensor has the value 0
    (total `eval`) while A has whatever the valuation says.  Components of UFL expressions are always
    within the shape, so this is an artefact of the total semantics; `ltSC` excludes the collapse from
    `rebuild_sound_partial` (within the shape it is `C05_mkListTensor_partial`). -/
theorem C05_mkListTensor_collapse_counterexample :
    let A : Expr := .term { cls := "Coefficient", key := "A", shape := [2] }
    let xs : List Expr := [.op .indexed [] [A, .mi [.fixed 0]], .op .indexed [] [A, .mi [.fixed 1]]]
    WF (.op .listTensor [] xs) = true ∧ (mkListTensor xs).map (fun r => beq r A) = some true ∧
    ∃ ρ : Env ℚ, eval ρ .none (fun _ => 0) A [2] ≠ eval ρ .none (fun _ => 0) (.op .listTensor [] xs) [2] := by
  refine ⟨by decide +kernel, by decide +kernel, ⟨{ (RawEnv.rat ⟨[], []⟩) with term := fun _ _ _ => 1 }, ?_⟩⟩
  simp [eval, evalNth]

end UflVerif.C05

/-! # `replace` rebuilds through the constructors without changing values -/

namespace UflVerif.C21
open UflVerif Expr FIlemmas UflVerif.C05

variable {K : Type} [Field K] [CharZero K]

/-- how a replaced sub-expression `x'` (read in the valuation ρ) relates to the original `x` (read in
    the valuation ρ' in which mapped terminals take the values of their images) -/
def Rel (ρ ρ' : Env K) (m : Mapping) (x' x : Expr) : Prop :=
  (WF x = true → WF x' = true ∧ shape x' = shape x ∧ fi x' = fi x ∧
     ∀ s ι c, c.length = (shape x).length → eval ρ s ι x' c = eval ρ' s ι x c) ∧
  (WFC x = true → WFC x' = true ∧ ∀ s ι, evalB ρ s ι x' = evalB ρ' s ι x) ∧
  (∀ is, x = .mi is → x' = x) ∧
  (∀ d, x = .term d → m.get d.key = none → x' = x)

def RelL (R : Expr → Expr → Prop) : List Expr → List Expr → Prop
  | [], [] => True
  | x' :: xs', x :: xs => R x' x ∧ RelL R xs' xs
  | _, _ => False

theorem relL1 {R : Expr → Expr → Prop} {args' : List Expr} {a : Expr} (h : RelL R args' [a]) :
    ∃ a', args' = [a'] ∧ R a' a := by
  rcases args' with _ | ⟨a', _ | ⟨b', t⟩⟩ <;> simp [RelL] at h
  exact ⟨a', rfl, h⟩

theorem relL2 {R : Expr → Expr → Prop} {args' : List Expr} {a b : Expr} (h : RelL R args' [a, b]) :
    ∃ a' b', args' = [a', b'] ∧ R a' a ∧ R b' b := by
  rcases args' with _ | ⟨a', _ | ⟨b', _ | ⟨c', t⟩⟩⟩ <;> simp [RelL] at h
  exact ⟨a', b', rfl, h⟩

theorem relL3 {R : Expr → Expr → Prop} {args' : List Expr} {a b c : Expr} (h : RelL R args' [a, b, c]) :
    ∃ a' b' c', args' = [a', b', c'] ∧ R a' a ∧ R b' b ∧ R c' c := by
  rcases args' with _ | ⟨a', _ | ⟨b', _ | ⟨c', _ | ⟨d', t⟩⟩⟩⟩ <;> simp [RelL] at h
  exact ⟨a', b', c', rfl, h⟩

theorem relL_cons {R : Expr → Expr → Prop} {args' : List Expr} {a : Expr} {as : List Expr} (h : RelL R args' (a :: as)) :
    ∃ a' as', args' = a' :: as' ∧ R a' a ∧ RelL R as' as := by
  rcases args' with _ | ⟨a', as'⟩ <;> simp [RelL] at h
  exact ⟨a', as', rfl, h⟩

section congr
variable (ρ : Env K) (t : Side → String → List Nat → K) (m : Mapping)

/-- rows of a list tensor -/
theorem relL_rows : ∀ (as' as : List Expr), RelL (Rel ρ { ρ with term := t } m) as' as → WFL as = true →
    WFL as' = true ∧ as'.length = as.length ∧
    (∀ sh f, as.all (fun e => shape e == sh && fi e == f) = true → as'.all (fun e => shape e == sh && fi e == f) = true) ∧
    (∀ s ι n c, (∀ x ∈ as, c.length = (shape x).length) → evalNth ρ s ι as' n c = evalNth { ρ with term := t } s ι as n c)
  | [], [], _, _ => ⟨rfl, rfl, fun _ _ h => h, fun s ι n c _ => by simp [evalNth]⟩
  | [], _ :: _, h, _ => by simp [RelL] at h
  | _ :: _, [], h, _ => by simp [RelL] at h
  | a' :: as', a :: as, h, hw => by
    simp only [RelL] at h
    simp only [WFL, Bool.and_eq_true] at hw
    obtain ⟨wa', sa', fa', ea⟩ := h.1.1 hw.1
    obtain ⟨w, l, al, ev⟩ := relL_rows as' as h.2 hw.2
    refine ⟨by simp [WFL, wa', w], by simp [l], fun sh f hall => ?_, fun s ι n c hc => ?_⟩
    · simp only [List.all_cons, Bool.and_eq_true] at hall ⊢
      exact ⟨by rw [sa', fa']; exact hall.1, al sh f hall.2⟩
    · cases n with
      | zero => simp only [evalNth]; exact ea s ι c (hc a (by simp))
      | succ n => simp only [evalNth]; exact ev s ι n c (fun x hx => hc x (by simp [hx]))


omit [CharZero K] in
theorem math_facts (fnk : Op) (n : String) (hn : mathName fnk = some n) (aux : List Nat) (x : Expr) :
    WF (.op fnk aux [x]) = (WF x && trueScalar x) ∧ shape (.op fnk aux [x]) = [] ∧ fi (.op fnk aux [x]) = fi x ∧
    ∀ (ρ₁ : Env K) s ι c, eval ρ₁ s ι (.op fnk aux [x]) c = ρ₁.fn n (eval ρ₁ s ι x c) := by
  cases fnk <;> simp [mathName] at hn <;> subst hn <;> simp [WF, shape, fi, eval, mathName]

theorem op_congr_wf (k : Op) (aux : List Nat) (args' args : List Expr)
    (hrel : RelL (Rel ρ { ρ with term := t } m) args' args)
    (hvar : ∀ a d, k = .variable → args = [a, .term d] → m.get d.key = none)
    (hgrad : k = .grad → args' = args)
    (hw : WF (.op k aux args) = true) :
    WF (.op k aux args') = true ∧ shape (.op k aux args') = shape (.op k aux args) ∧
    fi (.op k aux args') = fi (.op k aux args) ∧
    ∀ s ι c, c.length = (shape (.op k aux args)).length →
      eval ρ s ι (.op k aux args') c = eval { ρ with term := t } s ι (.op k aux args) c := by
  have hw0 := hw
  unfold WF at hw
  split at hw
  · -- sum
    rename_i a b
    obtain ⟨a', b', rfl, ra, rb⟩ := relL2 hrel
    simp only [Bool.and_eq_true, beq_iff_eq] at hw
    obtain ⟨⟨⟨wa, wb⟩, hs⟩, hf⟩ := hw
    obtain ⟨wa', sa', fa', ea⟩ := ra.1 wa
    obtain ⟨wb', sb', fb', eb⟩ := rb.1 wb
    refine ⟨by simpa only [WF, wa, wb, wa', wb', sa', sb', fa', fb'] using hw0, by simp only [shape, sa'], by simp only [fi, fa'], fun s ι c hc => ?_⟩
    simp only [shape] at hc
    simp only [eval]
    rw [ea s ι c hc, eb s ι c (by rw [← hs]; exact hc)]
  · -- product
    rename_i a b
    obtain ⟨a', b', rfl, ra, rb⟩ := relL2 hrel
    simp only [Bool.and_eq_true, List.isEmpty_iff] at hw
    obtain ⟨⟨⟨⟨wa, wb⟩, sa⟩, sb⟩, _⟩ := hw
    obtain ⟨wa', sa', fa', ea⟩ := ra.1 wa
    obtain ⟨wb', sb', fb', eb⟩ := rb.1 wb
    refine ⟨by simpa only [WF, wa, wb, wa', wb', sa', sb', fa', fb'] using hw0, by simp only [shape], by simp only [fi, fa', fb'], fun s ι c _ => ?_⟩
    simp only [eval]
    rw [ea s ι [] (by simp [sa]), eb s ι [] (by simp [sb])]
  · -- division
    rename_i a b
    obtain ⟨a', b', rfl, ra, rb⟩ := relL2 hrel
    simp only [Bool.and_eq_true, trueScalar, List.isEmpty_iff] at hw
    obtain ⟨⟨⟨wa, wb⟩, sa⟩, sb, fb⟩ := hw
    obtain ⟨wa', sa', fa', ea⟩ := ra.1 wa
    obtain ⟨wb', sb', fb', eb⟩ := rb.1 wb
    refine ⟨by simpa only [WF, wa, wb, wa', wb', sa', sb', fa', fb', trueScalar] using hw0, by simp only [shape], by simp only [fi, fa'], fun s ι c hc => ?_⟩
    simp only [shape, List.length_nil] at hc
    simp only [eval]
    rw [ea s ι c (by simp [sa, hc]), eb s ι c (by simp [sb, hc])]
  · -- power
    rename_i a b
    obtain ⟨a', b', rfl, ra, rb⟩ := relL2 hrel
    simp only [Bool.and_eq_true, trueScalar, List.isEmpty_iff] at hw
    obtain ⟨⟨⟨wa, wb⟩, sa, fa⟩, sb, fb⟩ := hw
    obtain ⟨wa', sa', fa', ea⟩ := ra.1 wa
    obtain ⟨wb', sb', fb', eb⟩ := rb.1 wb
    refine ⟨by simpa only [WF, wa, wb, wa', wb', sa', sb', fa', fb', trueScalar] using hw0, by simp only [shape], by simp only [fi, fa'], fun s ι c hc => ?_⟩
    simp only [shape, List.length_nil] at hc
    simp only [eval]
    rw [ea s ι c (by simp [sa, hc]), eb s ι c (by simp [sb, hc])]
  · -- abs
    rename_i a
    obtain ⟨a', rfl, ra⟩ := relL1 hrel
    obtain ⟨wa', sa', fa', ea⟩ := ra.1 hw
    refine ⟨by simpa only [WF, wa'] using hw, by simp only [shape, sa'], by simp only [fi, fa'], fun s ι c hc => ?_⟩
    simp only [shape] at hc
    simp only [eval]
    rw [ea s ι c hc]
  · -- conj
    rename_i a
    obtain ⟨a', rfl, ra⟩ := relL1 hrel
    obtain ⟨wa', sa', fa', ea⟩ := ra.1 hw
    refine ⟨by simpa only [WF, wa'] using hw, by simp only [shape, sa'], by simp only [fi, fa'], fun s ι c hc => ?_⟩
    simp only [shape] at hc
    simp only [eval]
    rw [ea s ι c hc]
  · -- real
    rename_i a
    obtain ⟨a', rfl, ra⟩ := relL1 hrel
    obtain ⟨wa', sa', fa', ea⟩ := ra.1 hw
    refine ⟨by simpa only [WF, wa'] using hw, by simp only [shape, sa'], by simp only [fi, fa'], fun s ι c hc => ?_⟩
    simp only [shape] at hc
    simp only [eval]
    rw [ea s ι c hc]
  · -- imag
    rename_i a
    obtain ⟨a', rfl, ra⟩ := relL1 hrel
    obtain ⟨wa', sa', fa', ea⟩ := ra.1 hw
    refine ⟨by simpa only [WF, wa'] using hw, by simp only [shape, sa'], by simp only [fi, fa'], fun s ι c hc => ?_⟩
    simp only [shape] at hc
    simp only [eval]
    rw [ea s ι c hc]
  · -- indexed
    rename_i a is
    obtain ⟨a', x', rfl, ra, rx⟩ := relL2 hrel
    have := rx.2.2.1 is rfl; subst this
    simp only [Bool.and_eq_true, beq_iff_eq] at hw
    obtain ⟨⟨⟨wa, hl⟩, _⟩, _⟩ := hw
    obtain ⟨wa', sa', fa', ea⟩ := ra.1 wa
    refine ⟨by simpa only [WF, wa, wa', sa', fa'] using hw0, by simp only [shape], by simp only [fi, fa', sa'], fun s ι c _ => ?_⟩
    simp only [eval]
    exact ea s ι _ (by simp [hl])
  · -- index sum
    rename_i a j
    obtain ⟨a', x', rfl, ra, rx⟩ := relL2 hrel
    have := rx.2.2.1 _ rfl; subst this
    simp only [Bool.and_eq_true] at hw
    obtain ⟨wa', sa', fa', ea⟩ := ra.1 hw.1
    refine ⟨by simpa only [WF, hw.1, wa', fa'] using hw0, by simp only [shape, sa'], by simp only [fi, fa'], fun s ι c hc => ?_⟩
    simp only [shape] at hc
    simp only [eval, fa']
    congr 1
    funext v
    exact ea s _ c hc
  · -- component tensor
    rename_i a is
    obtain ⟨a', x', rfl, ra, rx⟩ := relL2 hrel
    have := rx.2.2.1 _ rfl; subst this
    simp only [Bool.and_eq_true, List.isEmpty_iff] at hw
    obtain ⟨wa', sa', fa', ea⟩ := ra.1 hw.1.1
    refine ⟨by simpa only [WF, hw.1.1, wa', sa', fa'] using hw0, by simp only [shape, fa'], by simp only [fi, fa'], fun s ι c _ => ?_⟩
    simp only [eval]
    exact ea s _ [] (by simp [hw.1.2])
  · -- list tensor
    rename_i a as
    obtain ⟨a', as', rfl, ra, ras⟩ := relL_cons hrel
    simp only [Bool.and_eq_true] at hw
    obtain ⟨⟨wa, was⟩, hall⟩ := hw
    obtain ⟨wa', sa', fa', ea⟩ := ra.1 wa
    obtain ⟨was', hlen, hall', ev⟩ := relL_rows ρ t m as' as ras was
    have hsame : ∀ x ∈ as, shape x = shape a ∧ fi x = fi a := by
      intro x hx; simpa using (List.all_eq_true.mp hall) x hx
    refine ⟨?_, by simp only [shape, hlen, sa'], by simp only [fi, fa'], fun s ι c hc => ?_⟩
    · simp only [WF, wa', was', Bool.true_and]
      rw [sa', fa']; exact hall' _ _ hall
    · simp only [shape, List.length_cons, Nat.add_right_cancel_iff] at hc
      simp only [eval]
      cases c with
      | nil => rfl
      | cons v c' =>
        simp only [List.length_cons, Nat.add_right_cancel_iff] at hc
        simp only
        cases v with
        | zero => simp only [evalNth]; exact ea s ι c' hc
        | succ n =>
          simp only [evalNth]
          exact ev s ι n c' (fun x hx => by rw [(hsame x hx).1]; exact hc)
  · -- conditional
    rename_i p tt ff
    obtain ⟨p', t', f', rfl, rp, rt, rf⟩ := relL3 hrel
    simp only [Bool.and_eq_true, beq_iff_eq] at hw
    obtain ⟨⟨⟨⟨wp, wt⟩, wf⟩, hs⟩, hf⟩ := hw
    obtain ⟨wp', ep⟩ := rp.2.1 wp
    obtain ⟨wt', st', ft', et⟩ := rt.1 wt
    obtain ⟨wf', sf', ff', ef⟩ := rf.1 wf
    refine ⟨by simpa only [WF, wp, wt, wf, wp', wt', wf', st', sf', ft', ff'] using hw0, by simp only [shape, st'], by simp only [fi, ft'], fun s ι c hc => ?_⟩
    simp only [shape] at hc
    simp only [eval]
    rw [ep s ι, et s ι c hc, ef s ι c (by rw [← hs]; exact hc)]
  · -- min
    rename_i a b
    obtain ⟨a', b', rfl, ra, rb⟩ := relL2 hrel
    simp only [Bool.and_eq_true, trueScalar, List.isEmpty_iff] at hw
    obtain ⟨⟨⟨wa, wb⟩, sa, fa⟩, sb, fb⟩ := hw
    obtain ⟨wa', sa', fa', ea⟩ := ra.1 wa
    obtain ⟨wb', sb', fb', eb⟩ := rb.1 wb
    refine ⟨by simpa only [WF, wa, wb, wa', wb', sa', sb', fa', fb', trueScalar] using hw0, by simp only [shape], by simp only [fi, fa'], fun s ι c hc => ?_⟩
    simp only [shape, List.length_nil] at hc
    simp only [eval]
    rw [ea s ι c (by simp [sa, hc]), eb s ι c (by simp [sb, hc])]
  · -- max
    rename_i a b
    obtain ⟨a', b', rfl, ra, rb⟩ := relL2 hrel
    simp only [Bool.and_eq_true, trueScalar, List.isEmpty_iff] at hw
    obtain ⟨⟨⟨wa, wb⟩, sa, fa⟩, sb, fb⟩ := hw
    obtain ⟨wa', sa', fa', ea⟩ := ra.1 wa
    obtain ⟨wb', sb', fb', eb⟩ := rb.1 wb
    refine ⟨by simpa only [WF, wa, wb, wa', wb', sa', sb', fa', fb', trueScalar] using hw0, by simp only [shape], by simp only [fi, fa'], fun s ι c hc => ?_⟩
    simp only [shape, List.length_nil] at hc
    simp only [eval]
    rw [ea s ι c (by simp [sa, hc]), eb s ι c (by simp [sb, hc])]
  · -- atan2
    rename_i a b
    obtain ⟨a', b', rfl, ra, rb⟩ := relL2 hrel
    simp only [Bool.and_eq_true, trueScalar, List.isEmpty_iff] at hw
    obtain ⟨⟨⟨wa, wb⟩, sa, fa⟩, sb, fb⟩ := hw
    obtain ⟨wa', sa', fa', ea⟩ := ra.1 wa
    obtain ⟨wb', sb', fb', eb⟩ := rb.1 wb
    refine ⟨by simpa only [WF, wa, wb, wa', wb', sa', sb', fa', fb', trueScalar] using hw0, by simp only [shape], by simp only [fi, fa'], fun s ι c hc => ?_⟩
    simp only [shape, List.length_nil] at hc
    simp only [eval]
    rw [ea s ι c (by simp [sa, hc]), eb s ι c (by simp [sb, hc])]
  · -- variable
    rename_i a d
    obtain ⟨a', x', rfl, ra, rx⟩ := relL2 hrel
    have := rx.2.2.2 d rfl (hvar a d rfl rfl); subst this
    obtain ⟨wa', sa', fa', ea⟩ := ra.1 hw
    refine ⟨by simpa only [WF, wa'] using hw, by simp only [shape, sa'], by simp only [fi, fa'], fun s ι c hc => ?_⟩
    simp only [shape] at hc
    simp only [eval]
    exact ea s ι c hc
  · -- positive restriction
    rename_i a
    obtain ⟨a', rfl, ra⟩ := relL1 hrel
    obtain ⟨wa', sa', fa', ea⟩ := ra.1 hw
    refine ⟨by simpa only [WF, wa'] using hw, by simp only [shape, sa'], by simp only [fi, fa'], fun s ι c hc => ?_⟩
    simp only [shape] at hc
    simp only [eval]
    rw [ea .plus ι c hc]
  · -- negative restriction
    rename_i a
    obtain ⟨a', rfl, ra⟩ := relL1 hrel
    obtain ⟨wa', sa', fa', ea⟩ := ra.1 hw
    refine ⟨by simpa only [WF, wa'] using hw, by simp only [shape, sa'], by simp only [fi, fa'], fun s ι c hc => ?_⟩
    simp only [shape] at hc
    simp only [eval]
    rw [ea .minus ι c hc]
  · -- grad: untouched
    rename_i a
    have := hgrad rfl; subst this
    refine ⟨hw0, rfl, rfl, fun s ι c _ => ?_⟩
    simp only [eval]
  · -- math functions
    rename_i a _ _ _ _ _ _ _ _
    obtain ⟨a', rfl, ra⟩ := relL1 hrel
    simp only [Bool.and_eq_true, Option.isSome_iff_exists] at hw
    obtain ⟨⟨⟨n, hn⟩, wa⟩, ta⟩ := hw
    obtain ⟨wa', sa', fa', ea⟩ := ra.1 wa
    obtain ⟨m1, m2, m3, m4⟩ := math_facts (K := K) k n hn aux a
    obtain ⟨m1', m2', m3', m4'⟩ := math_facts (K := K) k n hn aux a'
    have ta' : trueScalar a' = true := by simpa only [trueScalar, sa', fa'] using ta
    refine ⟨by rw [m1', wa', ta']; rfl, by rw [m2, m2'], by rw [m3, m3', fa'], fun s ι c hc => ?_⟩
    rw [m2] at hc
    simp only [trueScalar, Bool.and_eq_true, List.isEmpty_iff] at ta
    rw [m4, m4', ea s ι c (by rw [ta.1]; exact hc)]
  · cases hw

theorem op_congr_wfc (k : Op) (aux : List Nat) (args' args : List Expr)
    (hrel : RelL (Rel ρ { ρ with term := t } m) args' args) (hw : WFC (.op k aux args) = true) :
    WFC (.op k aux args') = true ∧
    ∀ s ι, evalB ρ s ι (.op k aux args') = evalB { ρ with term := t } s ι (.op k aux args) := by
  have hw0 := hw
  unfold WFC at hw
  split at hw
  · rename_i a b
    obtain ⟨a', b', rfl, ra, rb⟩ := relL2 hrel
    simp only [Bool.and_eq_true, trueScalar, List.isEmpty_iff] at hw
    obtain ⟨⟨⟨wa, wb⟩, sa, fa⟩, sb, fb⟩ := hw
    obtain ⟨wa', sa', fa', ea⟩ := ra.1 wa
    obtain ⟨wb', sb', fb', eb⟩ := rb.1 wb
    refine ⟨by simpa only [WFC, wa, wb, wa', wb', sa', sb', fa', fb', trueScalar] using hw0, fun s ι => ?_⟩
    simp only [evalB]
    rw [ea s ι [] (by simp [sa]), eb s ι [] (by simp [sb])]
  · rename_i a b
    obtain ⟨a', b', rfl, ra, rb⟩ := relL2 hrel
    simp only [Bool.and_eq_true, trueScalar, List.isEmpty_iff] at hw
    obtain ⟨⟨⟨wa, wb⟩, sa, fa⟩, sb, fb⟩ := hw
    obtain ⟨wa', sa', fa', ea⟩ := ra.1 wa
    obtain ⟨wb', sb', fb', eb⟩ := rb.1 wb
    refine ⟨by simpa only [WFC, wa, wb, wa', wb', sa', sb', fa', fb', trueScalar] using hw0, fun s ι => ?_⟩
    simp only [evalB]
    rw [ea s ι [] (by simp [sa]), eb s ι [] (by simp [sb])]
  · rename_i a b
    obtain ⟨a', b', rfl, ra, rb⟩ := relL2 hrel
    simp only [Bool.and_eq_true, trueScalar, List.isEmpty_iff] at hw
    obtain ⟨⟨⟨wa, wb⟩, sa, fa⟩, sb, fb⟩ := hw
    obtain ⟨wa', sa', fa', ea⟩ := ra.1 wa
    obtain ⟨wb', sb', fb', eb⟩ := rb.1 wb
    refine ⟨by simpa only [WFC, wa, wb, wa', wb', sa', sb', fa', fb', trueScalar] using hw0, fun s ι => ?_⟩
    simp only [evalB]
    rw [ea s ι [] (by simp [sa]), eb s ι [] (by simp [sb])]
  · rename_i a b
    obtain ⟨a', b', rfl, ra, rb⟩ := relL2 hrel
    simp only [Bool.and_eq_true, trueScalar, List.isEmpty_iff] at hw
    obtain ⟨⟨⟨wa, wb⟩, sa, fa⟩, sb, fb⟩ := hw
    obtain ⟨wa', sa', fa', ea⟩ := ra.1 wa
    obtain ⟨wb', sb', fb', eb⟩ := rb.1 wb
    refine ⟨by simpa only [WFC, wa, wb, wa', wb', sa', sb', fa', fb', trueScalar] using hw0, fun s ι => ?_⟩
    simp only [evalB]
    rw [ea s ι [] (by simp [sa]), eb s ι [] (by simp [sb])]
  · rename_i a b
    obtain ⟨a', b', rfl, ra, rb⟩ := relL2 hrel
    simp only [Bool.and_eq_true, trueScalar, List.isEmpty_iff] at hw
    obtain ⟨⟨⟨wa, wb⟩, sa, fa⟩, sb, fb⟩ := hw
    obtain ⟨wa', sa', fa', ea⟩ := ra.1 wa
    obtain ⟨wb', sb', fb', eb⟩ := rb.1 wb
    refine ⟨by simpa only [WFC, wa, wb, wa', wb', sa', sb', fa', fb', trueScalar] using hw0, fun s ι => ?_⟩
    simp only [evalB]
    rw [ea s ι [] (by simp [sa]), eb s ι [] (by simp [sb])]
  · rename_i a b
    obtain ⟨a', b', rfl, ra, rb⟩ := relL2 hrel
    simp only [Bool.and_eq_true, trueScalar, List.isEmpty_iff] at hw
    obtain ⟨⟨⟨wa, wb⟩, sa, fa⟩, sb, fb⟩ := hw
    obtain ⟨wa', sa', fa', ea⟩ := ra.1 wa
    obtain ⟨wb', sb', fb', eb⟩ := rb.1 wb
    refine ⟨by simpa only [WFC, wa, wb, wa', wb', sa', sb', fa', fb', trueScalar] using hw0, fun s ι => ?_⟩
    simp only [evalB]
    rw [ea s ι [] (by simp [sa]), eb s ι [] (by simp [sb])]
  · rename_i a b
    obtain ⟨a', b', rfl, ra, rb⟩ := relL2 hrel
    simp only [Bool.and_eq_true] at hw
    obtain ⟨wa', ea⟩ := ra.2.1 hw.1
    obtain ⟨wb', eb⟩ := rb.2.1 hw.2
    refine ⟨by simp only [WFC, wa', wb', Bool.and_self], fun s ι => ?_⟩
    simp only [evalB]
    rw [ea s ι, eb s ι]
  · rename_i a b
    obtain ⟨a', b', rfl, ra, rb⟩ := relL2 hrel
    simp only [Bool.and_eq_true] at hw
    obtain ⟨wa', ea⟩ := ra.2.1 hw.1
    obtain ⟨wb', eb⟩ := rb.2.1 hw.2
    refine ⟨by simp only [WFC, wa', wb', Bool.and_self], fun s ι => ?_⟩
    simp only [evalB]
    rw [ea s ι, eb s ι]
  · rename_i a
    obtain ⟨a', rfl, ra⟩ := relL1 hrel
    obtain ⟨wa', ea⟩ := ra.2.1 hw
    refine ⟨by simp only [WFC, wa'], fun s ι => ?_⟩
    simp only [evalB]
    rw [ea s ι]
  · cases hw

end congr

/-! ## the induction over `replaceE` -/

/-- **Finding about C21.lean.**  `MapOK m` quantifies over *all* terminal data `d` with a mapped key,
    including `d.cls = "Identity"`, and demands `d.cls ≠ "Identity"`: it is satisfiable only by mappings
    in which every lookup fails.  `C21_substitution` (hypothesis `MapOK m`) is therefore vacuous for
    every mapping that maps something; the theorems below use `MapOKOn m e` instead, which asks the same
    of the terminals that occur in `e` only. -/
theorem MapOK_vacuous (m : Mapping) (hm : MapOK m) (key : String) : m.get key = none := by
  cases h : m.get key with
  | none => rfl
  | some img => exact absurd rfl (hm { cls := "Identity", key := key, shape := [] } img h).2.2.2.1

/- `MapOK` restricted to the terminals of `e`: the image of a mapped terminal of `e` has the shape of
   the terminal, no free indices, is well formed, and the terminal is not one whose value is fixed by its
   class (Identity, Label). Decidable. -/
mutual
def MapOKOn (m : Mapping) : Expr → Bool
  | .term d => match m.get d.key with
    | some img => shape img == d.shape && (fi img).isEmpty && WF img && d.cls != "Identity" && d.cls != "Label"
    | none => true
  | .op _ _ args => MapOKOnL m args
  | _ => true
def MapOKOnL (m : Mapping) : List Expr → Bool
  | [] => true
  | a :: as => MapOKOn m a && MapOKOnL m as
end

mutual
theorem MapOKOn_of_MapOK (m : Mapping) (hm : MapOK m) : ∀ e : Expr, MapOKOn m e = true
  | .int _ | .real _ _ | .cplx _ _ _ _ | .zero _ _ | .mi _ => by simp [MapOKOn]
  | .term d => by simp [MapOKOn, MapOK_vacuous m hm d.key]
  | .op _ _ args => by simp only [MapOKOn]; exact MapOKOnL_of_MapOK m hm args
theorem MapOKOnL_of_MapOK (m : Mapping) (hm : MapOK m) : ∀ as : List Expr, MapOKOnL m as = true
  | [] => rfl
  | a :: as => by simp [MapOKOnL, MapOKOn_of_MapOK m hm a, MapOKOnL_of_MapOK m hm as]
end

/- Side conditions of `C21_replace_value_partial`, checked along the traversal of `replaceE`:
   at every node whose operands changed, the operands handed to the constructor satisfy the side
   conditions `RebuildSC` of `rebuild_sound_partial`; and the label of a `Variable` is not mapped. -/
mutual
def ReplOK (m : Mapping) : Expr → Bool
  | .op k _ args =>
    ReplOKL m args &&
    (match k, args with
     | .variable, [_, .term d] => (m.get d.key).isNone
     | _, _ => true) &&
    (match replaceL m args with
     | some args' => beqL args' args || RebuildSC k args'
     | none => true)
  | _ => true
def ReplOKL (m : Mapping) : List Expr → Bool
  | [] => true
  | a :: as => ReplOK m a && ReplOKL m as
end

/-- a gradient chain over an unmapped terminal is returned unchanged (or hits the `unsupported` marker) -/
theorem chain_replace (m : Mapping) : ∀ (a : Expr) (p : TermData × Nat), gradChain a = some p → m.get p.1.key = none →
    ∀ a', replaceE m a = some a' → a' = a ∨ isUnsupported a' = true := by
  intro a
  fun_induction gradChain a with
  | case1 d =>
    intro p hp hn a' h
    simp only [Option.some.injEq] at hp; subst hp
    simp only [replaceE, hn, Option.some.injEq] at h
    exact Or.inl h.symm
  | case2 aux a d k hk ih =>
    intro p hp hn a' h
    simp only [Option.some.injEq] at hp; subst hp
    simp only [replaceE, replaceL] at h
    cases hx : replaceE m a with
    | none => simp [hx] at h
    | some x =>
      simp only [hx] at h
      have hcd : (Op.grad == Op.coefficientDerivative) = false := by decide
      simp only [hcd, Bool.false_eq_true, ↓reduceIte, List.any_cons, List.any_nil, Bool.or_false] at h
      rcases ih (d, k) hk hn x hx with rfl | hux
      · split at h
        · simp only [Option.some.injEq] at h; subst h; right; simp [isUnsupported, unsupported]
        · simp only [beqL, beq_refl, Bool.and_self, ↓reduceIte, Option.some.injEq] at h
          exact Or.inl h.symm
      · simp only [hux, ↓reduceIte, Option.some.injEq] at h
        subst h; right; simp [isUnsupported, unsupported]
  | case3 aux a hk ih => intro p h; simp at h
  | case4 e h1 h2 => intro p h; simp at h

theorem gradFree_op (m : Mapping) (k : Op) (aux : List Nat) (args : List Expr) (hk : k ≠ .grad) :
    GradFree m (.op k aux args) = GradFreeL m args := by
  unfold GradFree
  split
  · rename_i heq; injection heq with h1 _ _; exact absurd h1 hk
  · rename_i heq; injection heq with h1 h2 h3; subst h3; rfl
  · rename_i h1 h2; exact absurd rfl (h2 k aux args)

theorem rel_vacuous (ρ ρ' : Env K) (m : Mapping) (r : Expr) (k : Op) (aux : List Nat) (args : List Expr)
    (h1 : ¬ WF (.op k aux args) = true) (h2 : ¬ WFC (.op k aux args) = true) : Rel ρ ρ' m r (.op k aux args) :=
  ⟨fun hw => absurd hw h1, fun hw => absurd hw h2, (fun _ e => by cases e), (fun _ e => by cases e)⟩

mutual
theorem repl_rel (ρ : Env K) (hρ : LitSem ρ) (m : Mapping) (ι₀ : IdxEnv) :
    ∀ (e r : Expr), replaceE m e = some r → isUnsupported r = false → GradFree m e = true → ReplOK m e = true →
      MapOKOn m e = true → Rel ρ (substEnv ρ m ι₀) m r e
  | .int v, r, h, _, _, _, _ => by
    simp only [replaceE, Option.some.injEq] at h; subst h
    exact ⟨fun _ => ⟨rfl, rfl, rfl, (fun s ι c _ => by simp [eval])⟩, (fun hw => by simp [WFC] at hw), (fun _ e => by cases e), (fun _ e => by cases e)⟩
  | .real n d, r, h, _, _, _, _ => by
    simp only [replaceE, Option.some.injEq] at h; subst h
    exact ⟨fun _ => ⟨rfl, rfl, rfl, (fun s ι c _ => by simp [eval])⟩, (fun hw => by simp [WFC] at hw), (fun _ e => by cases e), (fun _ e => by cases e)⟩
  | .cplx a b c d, r, h, _, _, _, _ => by
    simp only [replaceE, Option.some.injEq] at h; subst h
    exact ⟨fun _ => ⟨rfl, rfl, rfl, (fun s ι c _ => by simp [eval, substEnv])⟩, (fun hw => by simp [WFC] at hw), (fun _ e => by cases e), (fun _ e => by cases e)⟩
  | .zero sh f, r, h, _, _, _, _ => by
    simp only [replaceE, Option.some.injEq] at h; subst h
    exact ⟨fun hw => ⟨hw, rfl, rfl, (fun s ι c _ => by simp [eval])⟩, (fun hw => by simp [WFC] at hw), (fun _ e => by cases e), (fun _ e => by cases e)⟩
  | .mi is, r, h, _, _, _, _ => by
    simp only [replaceE, Option.some.injEq] at h; subst h
    exact ⟨(fun hw => by simp [WF] at hw), (fun hw => by simp [WFC] at hw), fun _ _ => rfl, (fun _ e => by cases e)⟩
  | .term d, r, h, _, _, _, hm => by
    simp only [replaceE] at h
    cases hget : m.get d.key with
    | none =>
      simp only [hget, Option.some.injEq] at h; subst h
      refine ⟨fun _ => ⟨rfl, rfl, rfl, fun s ι c _ => ?_⟩, (fun hw => by simp [WFC] at hw), (fun _ e => by cases e), fun _ _ _ => rfl⟩
      simp only [eval, substEnv, hget]
    | some img =>
      simp only [hget, Option.some.injEq] at h; subst h
      simp only [MapOKOn, hget, Bool.and_eq_true, beq_iff_eq, List.isEmpty_iff, bne_iff_ne, ne_eq] at hm
      obtain ⟨⟨⟨⟨hs, hf⟩, hwi⟩, hnI⟩, hnL⟩ := hm
      refine ⟨fun _ => ⟨hwi, by rw [hs]; simp [shape], by rw [hf]; simp [fi], fun s ι c hc => ?_⟩, (fun hw => by simp [WFC] at hw),
        (fun _ e => by cases e), fun d' e hn => ?_⟩
      · simp only [eval, hnI, hnL, ↓reduceIte, substEnv, hget]
        apply eval_congr ρ s img hwi c (by rw [hs]; simpa [shape] using hc)
        intro i hi; rw [hf] at hi; simp [FI.has] at hi
      · cases e; rw [hget] at hn; cases hn
  | .op k aux args, r, h, hu, hg, hok, hm => by
    by_cases hW : WF (.op k aux args) = true ∨ WFC (.op k aux args) = true
    swap
    · exact rel_vacuous ρ _ m r k aux args (fun h' => hW (Or.inl h')) (fun h' => hW (Or.inr h'))
    simp only [replaceE] at h
    cases hL : replaceL m args with
    | none => simp [hL] at h
    | some args' =>
      simp only [hL] at h
      split at h
      · cases h
      · split at h
        · simp only [Option.some.injEq] at h; subst h; simp [isUnsupported, unsupported] at hu
        · rename_i hany
          have hany' : args'.any isUnsupported = false := by simpa using hany
          by_cases hk : k = .grad
          · -- a gradient: well formed only over a chain of gradients of an unmapped terminal
            subst hk
            have hWF : WF (.op .grad aux args) = true := by
              rcases hW with h' | h'
              · exact h'
              · simp [WFC] at h'
            have hargs : ∃ a, args = [a] := by
              unfold WF at hWF
              split at hWF <;> first | (exact ⟨_, rfl⟩) | (simp_all) 
            obtain ⟨a, rfl⟩ := hargs
            simp only [WF, Option.isSome_iff_exists] at hWF
            obtain ⟨⟨d, n⟩, hch⟩ := hWF
            simp only [GradFree, hch, Option.isNone_iff_eq_none] at hg
            simp only [replaceL] at hL
            cases hx : replaceE m a with
            | none => simp [hx] at hL
            | some x =>
              simp only [hx, Option.some.injEq] at hL; subst hL
              simp only [List.any_cons, List.any_nil, Bool.or_false] at hany'
              rcases chain_replace m a (d, n) hch hg x hx with rfl | hux
              · simp only [beqL, beq_refl, Bool.and_self, ↓reduceIte, Option.some.injEq] at h
                subst h
                refine ⟨fun hw => ⟨hw, rfl, rfl, fun s ι c _ => ?_⟩, (fun hw => by simp [WFC] at hw), (fun _ e => by cases e), (fun _ e => by cases e)⟩
                simp only [eval, substEnv]
              · rw [hany'] at hux; cases hux
          · -- any other operator: congruence, then the constructor
            have hgL : GradFreeL m args = true := by rw [← gradFree_op m k aux args hk]; exact hg
            simp only [ReplOK, hL, Bool.and_eq_true] at hok
            obtain ⟨⟨okL, okvar⟩, oksc⟩ := hok
            have relL := repl_relL ρ hρ m ι₀ args args' hL hany' hgL okL (by simpa only [MapOKOn] using hm)
            have hvar : ∀ a d, k = .variable → args = [a, .term d] → m.get d.key = none := by
              intro a d e1 e2; subst e1; subst e2
              simpa using okvar
            have cw := op_congr_wf ρ (substEnv ρ m ι₀).term m k aux args' args relL hvar (fun e => absurd e hk)
            have cc := op_congr_wfc ρ (substEnv ρ m ι₀).term m k aux args' args relL
            split at h
            · rename_i hbeq
              simp only [Option.some.injEq] at h; subst h
              have := beqL_eq args' args hbeq; subst this
              exact ⟨fun hw => cw hw, fun hw => cc hw, (fun _ e => by cases e), (fun _ e => by cases e)⟩
            · rename_i hbeq
              have sc : RebuildSC k args' = true := by simpa [hbeq] using oksc
              have h : rebuild k aux args' = some r := rebuildU_eq k aux args' r h hu
              refine ⟨fun hw => ?_, fun hw => ?_, (fun _ e => by cases e), (fun _ e => by cases e)⟩
              · obtain ⟨wN, sN, fN, eN⟩ := cw hw
                obtain ⟨_, sr, fr, wr⟩ := rebuild_sound_partial ρ hρ .none (fun _ => 0) k aux args' r wN sc h hu
                refine ⟨wr, by rw [sr, sN], by rw [FIeq_eq _ _ (fi_sorted r wr) (fi_sorted _ wN) fr, fN], fun s ι c hc => ?_⟩
                rw [(rebuild_sound_partial ρ hρ s ι k aux args' r wN sc h hu).1 c (by rw [sN]; exact hc)]
                exact eN s ι c hc
              · obtain ⟨wN, eN⟩ := cc hw
                refine ⟨(rebuild_sound_cond ρ .none (fun _ => 0) k aux args' r wN h).2.1, fun s ι => ?_⟩
                rw [(rebuild_sound_cond ρ s ι k aux args' r wN h).1]
                exact eN s ι
theorem repl_relL (ρ : Env K) (hρ : LitSem ρ) (m : Mapping) (ι₀ : IdxEnv) :
    ∀ (args args' : List Expr), replaceL m args = some args' → args'.any isUnsupported = false →
      GradFreeL m args = true → ReplOKL m args = true → MapOKOnL m args = true → RelL (Rel ρ (substEnv ρ m ι₀) m) args' args
  | [], args', h, _, _, _, _ => by
    simp only [replaceL, Option.some.injEq] at h; subst h; simp [RelL]
  | a :: as, args', h, hany, hg, hok, hm => by
    simp only [replaceL] at h
    cases hx : replaceE m a with
    | none => simp [hx] at h
    | some x =>
      cases hxs : replaceL m as with
      | none => simp [hx, hxs] at h
      | some xs =>
        simp only [hx, hxs, Option.some.injEq] at h; subst h
        simp only [List.any_cons, Bool.or_eq_false_iff] at hany
        simp only [GradFreeL, Bool.and_eq_true] at hg
        simp only [ReplOKL, Bool.and_eq_true] at hok
        simp only [MapOKOnL, Bool.and_eq_true] at hm
        exact ⟨repl_rel ρ hρ m ι₀ a x hx hany.1 hg.1 hok.1 hm.1, repl_relL ρ hρ m ι₀ as xs hxs hany.2 hg.2 hok.2 hm.2⟩
end

/-! ## Property theorems -/

/-- **C21 (value of `replace`), closing the gap of C21.lean.**  Let `replaceE m e = some r` (the model of
    `ufl.replace`: every node whose operands changed is rebuilt through its class constructor, with all
    the constructor's simplifications).  Then `r` has, for every valuation ρ satisfying `LitSem`, every
    side, index environment and component, the value of `e` under the valuation in which each mapped
    terminal takes the value of its image.

    Hypotheses, all decidable predicates on `(m, e)`:
    * `WF e`; `GradFree m e` (no mapped terminal under a gradient);
    * `MapOKOn m e`: images of the mapped terminals of `e` have the terminal's shape, no free indices, are
      well formed, and no Identity/Label is mapped (`MapOK` of C21.lean is unsatisfiable, see `MapOK_vacuous`);
    * `ReplOK m e`: at every rebuilt node the operands satisfy `RebuildSC` — the side conditions
      inherited from the `_partial` constructor theorems (indexing only expressions in which no component
      tensor has an `Indexed` body; list tensors that match no collapse pattern; the bound indices of an
      `as_tensor(A[is], is)` shortcut not free in A; no zero-valued literal exponent under a Zero base) —
      and the label of a `Variable` is not mapped;
    * `r` is not the `unsupported` marker (complex / non-integer-power literal folding, fresh-index shortcut). -/
theorem C21_replace_value_partial (ρ : Env K) (hρ : LitSem ρ) (m : Mapping) (ι₀ : IdxEnv) (side : Side) (ι : IdxEnv)
    (e r : Expr) (hm : MapOKOn m e = true) (hw : WF e = true) (hg : GradFree m e = true) (hok : ReplOK m e = true)
    (h : replaceE m e = some r) (hu : isUnsupported r = false) (c : List Nat) (hc : c.length = (shape e).length) :
    eval ρ side ι r c = eval (substEnv ρ m ι₀) side ι e c :=
  ((repl_rel ρ hρ m ι₀ e r h hu hg hok hm).1 hw).2.2.2 side ι c hc

/-- the same for conditions -/
theorem C21_replace_cond_partial (ρ : Env K) (hρ : LitSem ρ) (m : Mapping) (ι₀ : IdxEnv) (side : Side) (ι : IdxEnv)
    (p r : Expr) (hm : MapOKOn m p = true) (hw : WFC p = true) (hg : GradFree m p = true) (hok : ReplOK m p = true)
    (h : replaceE m p = some r) (hu : isUnsupported r = false) :
    WFC r = true ∧ evalB ρ side ι r = evalB (substEnv ρ m ι₀) side ι p :=
  ⟨((repl_rel ρ hρ m ι₀ p r h hu hg hok hm).2.1 hw).1, ((repl_rel ρ hρ m ι₀ p r h hu hg hok hm).2.1 hw).2 side ι⟩

/-- what `replace` returns is well formed and has the shape and the free indices of `e`
    (it can stand wherever `e` stood) -/
theorem C21_replace_wf_partial (m : Mapping) (e r : Expr) (hm : MapOKOn m e = true) (hw : WF e = true)
    (hg : GradFree m e = true) (hok : ReplOK m e = true) (h : replaceE m e = some r) (hu : isUnsupported r = false) :
    WF r = true ∧ shape r = shape e ∧ fi r = fi e := by
  have := (repl_rel (RawEnv.rat ⟨[], []⟩) (litSem_rat _) m (fun _ => 0) e r h hu hg hok hm).1 hw
  exact ⟨this.1, this.2.1, this.2.2.1⟩

/-! ### the substitution lemma of C21.lean under the satisfiable hypothesis -/

/- the label of a `Variable` is not mapped -/
mutual
def VarOK (m : Mapping) : Expr → Bool
  | .op k _ args =>
    VarOKL m args &&
    (match k, args with
     | .variable, [_, .term d] => (m.get d.key).isNone
     | _, _ => true)
  | _ => true
def VarOKL (m : Mapping) : List Expr → Bool
  | [] => true
  | a :: as => VarOK m a && VarOKL m as
end

theorem chain_subst (m : Mapping) : ∀ (a : Expr) (p : TermData × Nat), gradChain a = some p → m.get p.1.key = none →
    substE m a = a := by
  intro a
  fun_induction gradChain a with
  | case1 d => intro p hp hn; simp only [Option.some.injEq] at hp; subst hp; simp [substE, hn]
  | case2 aux a d k hk ih => intro p hp hn; simp only [Option.some.injEq] at hp; subst hp; simp [substE, substL, ih _ hk hn]
  | case3 aux a hk ih => intro p h; simp at h
  | case4 e h1 h2 => intro p h; simp at h

mutual
theorem subst_rel (ρ : Env K) (m : Mapping) (ι₀ : IdxEnv) :
    ∀ (e : Expr), GradFree m e = true → VarOK m e = true → MapOKOn m e = true → Rel ρ (substEnv ρ m ι₀) m (substE m e) e
  | .int v, _, _, _ =>
    ⟨fun _ => ⟨rfl, rfl, rfl, (fun s ι c _ => by simp [substE, eval])⟩, (fun hw => by simp [WFC] at hw), (fun _ e => by cases e), (fun _ e => by cases e)⟩
  | .real n d, _, _, _ =>
    ⟨fun _ => ⟨rfl, rfl, rfl, (fun s ι c _ => by simp [substE, eval])⟩, (fun hw => by simp [WFC] at hw), (fun _ e => by cases e), (fun _ e => by cases e)⟩
  | .cplx a b c d, _, _, _ =>
    ⟨fun _ => ⟨rfl, rfl, rfl, (fun s ι c _ => by simp [substE, eval, substEnv])⟩, (fun hw => by simp [WFC] at hw), (fun _ e => by cases e), (fun _ e => by cases e)⟩
  | .zero sh f, _, _, _ =>
    ⟨fun hw => ⟨hw, rfl, rfl, (fun s ι c _ => by simp [substE, eval])⟩, (fun hw => by simp [WFC] at hw), (fun _ e => by cases e), (fun _ e => by cases e)⟩
  | .mi is, _, _, _ =>
    ⟨(fun hw => by simp [WF] at hw), (fun hw => by simp [WFC] at hw), (fun _ _ => rfl), (fun _ e => by cases e)⟩
  | .term d, _, _, hm => by
    simp only [substE]
    cases hget : m.get d.key with
    | none =>
      refine ⟨fun _ => ⟨rfl, rfl, rfl, fun s ι c _ => ?_⟩, (fun hw => by simp [WFC] at hw), (fun _ e => by cases e), fun _ _ _ => rfl⟩
      simp only [eval, substEnv, hget]
    | some img =>
      simp only [MapOKOn, hget, Bool.and_eq_true, beq_iff_eq, List.isEmpty_iff, bne_iff_ne, ne_eq] at hm
      obtain ⟨⟨⟨⟨hs, hf⟩, hwi⟩, hnI⟩, hnL⟩ := hm
      refine ⟨fun _ => ⟨hwi, by rw [hs]; simp [shape], by rw [hf]; simp [fi], fun s ι c hc => ?_⟩, (fun hw => by simp [WFC] at hw),
        (fun _ e => by cases e), fun d' e hn => ?_⟩
      · simp only [eval, hnI, hnL, ↓reduceIte, substEnv, hget]
        apply eval_congr ρ s img hwi c (by rw [hs]; simpa [shape] using hc)
        intro i hi; rw [hf] at hi; simp [FI.has] at hi
      · cases e; rw [hget] at hn; cases hn
  | .op k aux args, hg, hv, hm => by
    by_cases hW : WF (.op k aux args) = true ∨ WFC (.op k aux args) = true
    swap
    · exact rel_vacuous ρ _ m _ k aux args (fun h' => hW (Or.inl h')) (fun h' => hW (Or.inr h'))
    simp only [substE]
    by_cases hk : k = .grad
    · subst hk
      have hWF : WF (.op .grad aux args) = true := by
        rcases hW with h' | h'
        · exact h'
        · simp [WFC] at h'
      have hargs : ∃ a, args = [a] := by
        unfold WF at hWF
        split at hWF <;> first | (exact ⟨_, rfl⟩) | (simp_all)
      obtain ⟨a, rfl⟩ := hargs
      simp only [WF, Option.isSome_iff_exists] at hWF
      obtain ⟨⟨d, n⟩, hch⟩ := hWF
      simp only [GradFree, hch, Option.isNone_iff_eq_none] at hg
      simp only [substL, chain_subst m a (d, n) hch hg]
      refine ⟨fun hw => ⟨hw, rfl, rfl, fun s ι c _ => ?_⟩, (fun hw => by simp [WFC] at hw), (fun _ e => by cases e), (fun _ e => by cases e)⟩
      simp only [eval, substEnv]
    · have hgL : GradFreeL m args = true := by rw [← gradFree_op m k aux args hk]; exact hg
      simp only [VarOK, Bool.and_eq_true] at hv
      have relL := subst_relL ρ m ι₀ args hgL hv.1 (by simpa only [MapOKOn] using hm)
      have hvar : ∀ a d, k = .variable → args = [a, .term d] → m.get d.key = none := by
        intro a d e1 e2; subst e1; subst e2
        simpa using hv.2
      exact ⟨fun hw => op_congr_wf ρ (substEnv ρ m ι₀).term m k aux _ args relL hvar (fun e => absurd e hk) hw,
        fun hw => op_congr_wfc ρ (substEnv ρ m ι₀).term m k aux _ args relL hw, (fun _ e => by cases e), (fun _ e => by cases e)⟩
theorem subst_relL (ρ : Env K) (m : Mapping) (ι₀ : IdxEnv) :
    ∀ (args : List Expr), GradFreeL m args = true → VarOKL m args = true → MapOKOnL m args = true →
      RelL (Rel ρ (substEnv ρ m ι₀) m) (substL m args) args
  | [], _, _, _ => by simp [substL, RelL]
  | a :: as, hg, hv, hm => by
    simp only [GradFreeL, Bool.and_eq_true] at hg
    simp only [VarOKL, Bool.and_eq_true] at hv
    simp only [MapOKOnL, Bool.and_eq_true] at hm
    exact ⟨subst_rel ρ m ι₀ a hg.1 hv.1 hm.1, subst_relL ρ m ι₀ as hg.2 hv.2 hm.2⟩
end

/-- **C21 (substitution lemma), with a satisfiable hypothesis on the mapping.**  The statement of
    `C21_substitution` with `MapOKOn m e` in place of the unsatisfiable `MapOK m` (and the label of a
    `Variable` not mapped): plain substitution has the value of `e` under the valuation in which each
    mapped terminal takes the value of its image, keeps shape and free indices, and is well formed. -/
theorem C21_substitution_on (ρ : Env K) (m : Mapping) (ι₀ : IdxEnv) (side : Side) (ι : IdxEnv) (e : Expr) (c : List Nat)
    (hm : MapOKOn m e = true) (hv : VarOK m e = true) (hw : WF e = true) (hg : GradFree m e = true)
    (hc : c.length = (shape e).length) :
    eval ρ side ι (substE m e) c = eval (substEnv ρ m ι₀) side ι e c ∧
    WF (substE m e) = true ∧ shape (substE m e) = shape e ∧ fi (substE m e) = fi e := by
  have := (subst_rel ρ m ι₀ e hg hv hm).1 hw
  exact ⟨this.2.2.2 side ι c hc, this.1, this.2.1, this.2.2.1⟩

mutual
theorem VarOK_of_ReplOK (m : Mapping) : ∀ e : Expr, ReplOK m e = true → VarOK m e = true
  | .int _, _ | .real _ _, _ | .cplx _ _ _ _, _ | .zero _ _, _ | .mi _, _ | .term _, _ => by simp [VarOK]
  | .op k aux args, h => by
    simp only [ReplOK, Bool.and_eq_true] at h
    simp only [VarOK, Bool.and_eq_true]
    exact ⟨VarOKL_of_ReplOKL m args h.1.1, h.1.2⟩
theorem VarOKL_of_ReplOKL (m : Mapping) : ∀ as : List Expr, ReplOKL m as = true → VarOKL m as = true
  | [], _ => rfl
  | a :: as, h => by
    simp only [ReplOKL, Bool.and_eq_true] at h
    simp only [VarOKL, Bool.and_eq_true]
    exact ⟨VarOK_of_ReplOK m a h.1, VarOKL_of_ReplOKL m as h.2⟩
end

/-- `replace` and plain substitution have the same value: the constructor rebuild changes nothing -/
theorem C21_replace_eq_subst_partial (ρ : Env K) (hρ : LitSem ρ) (m : Mapping) (side : Side) (ι : IdxEnv)
    (e r : Expr) (hm : MapOKOn m e = true) (hw : WF e = true) (hg : GradFree m e = true) (hok : ReplOK m e = true)
    (h : replaceE m e = some r) (hu : isUnsupported r = false) (c : List Nat)
    (hc : c.length = (shape e).length) :
    eval ρ side ι r c = eval ρ side ι (substE m e) c := by
  rw [C21_replace_value_partial ρ hρ m ι side ι e r hm hw hg hok h hu c hc,
    (C21_substitution_on ρ m ι side ι e c hm (VarOK_of_ReplOK m e hok) hw hg hc).1]

/-! ### non-vacuity: concrete instances in which the constructors do fold -/

def exH : Expr := .term { cls := "Coefficient", key := "h", shape := [] }
/-- f ↦ 0 in f*g + h: the product folds to Zero, the sum to h -/
def exM0 : Mapping := [("f", .zero [] [])]
def exE0 : Expr := .op .sum [] [.op .product [] [exF, exG], exH]
example : MapOKOn exM0 exE0 = true ∧ WF exE0 = true ∧ GradFree exM0 exE0 = true ∧ ReplOK exM0 exE0 = true ∧
    (replaceE exM0 exE0).map (fun r => beq r exH && !isUnsupported r) = some true := by decide +kernel
/-- f ↦ 2 in (f ** 3) * g: the power folds to the literal 8 -/
def exM2 : Mapping := [("f", .int 2)]
def exE2 : Expr := .op .product [] [.op .power [] [exF, .int 3], exG]
example : MapOKOn exM2 exE2 = true ∧ WF exE2 = true ∧ GradFree exM2 exE2 = true ∧ ReplOK exM2 exE2 = true ∧
    (replaceE exM2 exE2).map (fun r => beq r (.op .product [] [.int 8, exG]) && !isUnsupported r) = some true := by decide +kernel

/-- v ↦ [g, h] in v[1] * v[i] * w[i] summed over i: `Indexed` selects the row h for the fixed index and stays a
    plain node for the free one; the hypotheses hold and the result differs from plain substitution -/
def exV : Expr := .term { cls := "Coefficient", key := "v", shape := [2] }
def exW : Expr := .term { cls := "Coefficient", key := "w", shape := [2] }
def exM3 : Mapping := [("v", .op .listTensor [] [exG, exH])]
def exE3 : Expr :=
  .op .product [] [.op .indexed [] [exV, .mi [.fixed 1]],
    .op .indexSum [] [.op .product [] [.op .indexed [] [exV, .mi [.free 7]], .op .indexed [] [exW, .mi [.free 7]]], .mi [.free 7]]]
example : MapOKOn exM3 exE3 = true ∧ WF exE3 = true ∧ GradFree exM3 exE3 = true ∧ ReplOK exM3 exE3 = true ∧
    (replaceE exM3 exE3).map (fun r => !isUnsupported r && !beq r (substE exM3 exE3)) = some true := by decide +kernel

/-- the theorem applied: h has the value of f*g + h when f is 0 -/
example (ρ : Env K) (hρ : LitSem ρ) (ι₀ : IdxEnv) (s : Side) (ι : IdxEnv) :
    eval ρ s ι exH [] = eval (substEnv ρ exM0 ι₀) s ι exE0 [] :=
  C21_replace_value_partial ρ hρ exM0 ι₀ s ι exE0 exH (by decide +kernel) (by decide +kernel) (by decide +kernel)
    (by decide +kernel) (by rfl) (by decide +kernel) [] (by decide +kernel)

end UflVerif.C21
