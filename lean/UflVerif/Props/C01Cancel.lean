/-
C01 / `cancel_jacobian_products` (option do_cancel_jacobian_products): the one pass on which the end-to-end oracle of
C01 found the pipeline changing the value of an integrand.

The defect (found by the oracle of harness/props/c01.py on the pinned tree, independently of C09; repaired in /repo by
commit fff45c2 "ReciprocalCanceller merges nested powers only through an integer outer exponent"):
`_as_base_exponent` read `(b ** p) ** q` as `b ** (p * q)` for every real q, so
    ((f**2)**0.5 * (1/f)) * g * dx      was rewritten to      g * dx
by compute_form_data(.., do_apply_geometry_lowering=True, do_cancel_jacobian_products=True): |f|/f = sign(f) became 1.

  `C01_old_cancel_counterexample`   the rule with the OLD exponent reader (`recipProductOld`) does not preserve values:
                                    witness a = (f ** 2) ** 0.5, b = 1 / f, f = -1: result 1, value of a * b is -1.
  `C01_cancel_witness_kept`         the CURRENT rule (`recipProduct`, tied tree-for-tree to the implementation on every run)
                                    leaves the witness alone.
  `C01_cancel_partial`              the current exponent reader is sound on factors whose powers all have integer exponents
                                    (`IntOuter`; the patterns the pass is for: detJ**2 * (1/detJ)**2): value = base ^ exponent.
  `C01_cancel_fractional_kept`      ... and a power with a non-integer exponent is read as itself: its own base, its own
                                    exponent, nothing merged.
The remaining obligation - the whole of cancel_jacobian_products preserves values - is C09's property; for C01 it is the
hypothesis `hpres cancelJ` of `C01_pipeline_preserves`, needed only when the pass runs (`C01_cancel_only_if_requested`).
-/
import UflVerif.Model.Reciprocal
import UflVerif.Props.C05
import UflVerif.Sem.Beq

namespace UflVerif.C01
open UflVerif Expr Reciprocal

/-- the witness: a scalar coefficient f -/
def fW : Expr := .term { cls := "Coefficient", key := "w_0", shape := [] }
/-- `(f ** 2) ** 0.5` -/
def aW : Expr := .op .power [] [.op .power [] [fW, .int 2], .real 1 2]
/-- `1 / f` -/
def bW : Expr := .op .division [] [.int 1, fW]

/-- a rational valuation: f = -1, and a power function that is the real power on the two points the witness visits
    ((-1)^2 = 1 and 1^(1/2) = 1) -/
def ρW : Env Rat where
  term := fun _ key _ => if key = "w_0" then -1 else 0
  jet := fun _ _ _ _ => 0
  fn := fun _ x => x
  fn2 := fun name x y => if name = "Power" then (if y = 2 then x * x else if y = 1 / 2 then (if x = 1 then 1 else 0) else 0) else 0
  abs := fun x => if x < 0 then -x else x
  conj := id
  re := id
  im := fun _ => 0
  i := 0
  lt := fun a b => decide (a < b)
  eq := fun a b => decide (a = b)

theorem witness_rewritten : (match recipProductOld aW bW with | some r => r.beq (.int 1) | none => false) = true := by decide +kernel

theorem witness_values :
    eval ρW .none (fun _ => 0) aW [] * eval ρW .none (fun _ => 0) bW [] = -1 ∧ eval ρW .none (fun _ => 0) (.int 1) [] = 1 := by
  decide +kernel

/-- **C01_old_cancel_counterexample** (the code before fff45c2): the Product rule of `ReciprocalCanceller` returned an
    expression whose value differs from the product of its operands -/
theorem C01_old_cancel_counterexample :
    ¬ (∀ (ρ : Env Rat) (s : Side) (ι : IdxEnv) (a b r : Expr), recipProductOld a b = some r →
        eval ρ s ι r [] = eval ρ s ι a [] * eval ρ s ι b []) := by
  intro h
  have hr : recipProductOld aW bW = some (.int 1) := by
    have := witness_rewritten
    cases hq : recipProductOld aW bW with
    | none => rw [hq] at this; cases this
    | some r => rw [hq] at this; rw [beq_eq r (.int 1) this]
  have := h ρW .none (fun _ => 0) aW bW (.int 1) hr
  have hv := witness_values
  rw [hv.1, hv.2] at this
  exact absurd this (by decide)

/-- **C01_cancel_witness_kept**: the current rule returns the product of the witness unchanged -/
theorem C01_cancel_witness_kept :
    (match recipProduct aW bW, mkProduct aW bW with | some r, some p => r.beq p | _, _ => false) = true := by decide +kernel

/-! ## the side condition under which the exponent reading is sound -/

/-- every Power met by `_as_base_exponent` on the way to the base has an integer exponent -/
def IntOuter : Expr → Bool
  | .op .power _ [base, e] =>
    (match realScalar e with
     | some q => q.den == 1 && IntOuter base
     | none => true)
  | .op .division _ [num, den] =>
    (match realScalar num with
     | some n => if n = 1 then IntOuter den else true
     | none => true)
  | _ => true

variable {K : Type} [Field K] [CharZero K]

theorem realScalar_eval (ρ : Env K) (s : Side) (ι : IdxEnv) (e : Expr) (q : ℚ) (h : realScalar e = some q) (c : List Nat) :
    eval ρ s ι e c = (q : K) := by
  cases e <;> simp only [realScalar, Option.some.injEq, reduceCtorEq] at h
  · subst h; simp [eval]
  · subst h; simp [eval]

/-- **C01_cancel_partial**: when only integer exponents are merged (`IntOuter`), `_as_base_exponent` reads a factor
    correctly: the factor's value is base ^ exponent (integer power in the field; `Power` with an integer literal exponent
    is assumed to be that power).  The witness of `C01_cancel_counterexample` violates exactly `IntOuter`. -/
theorem C01_cancel_partial (ρ : Env K) (hpow : ∀ (x : K) (n : ℤ), ρ.fn2 "Power" x (n : K) = x ^ n)
    (s : Side) (ι : IdxEnv) (f b : Expr) (q : ℚ) (hI : IntOuter f = true) (h : asBaseExp f = some (b, q)) :
    q.den = 1 ∧ eval ρ s ι f [] = eval ρ s ι b [] ^ q.num := by
  fun_induction asBaseExp f generalizing b q with
  | case1 aux base e qe hq hden b' inner hb ih =>
    simp only [Option.some.injEq, Prod.mk.injEq] at h
    obtain ⟨rfl, rfl⟩ := h
    simp only [IntOuter, hq, Bool.and_eq_true, beq_iff_eq] at hI
    obtain ⟨_, hIb⟩ := hI
    obtain ⟨hd, hv⟩ := ih b' inner hIb hb
    have e1 : inner = (inner.num : ℚ) := by conv_lhs => rw [← Rat.num_div_den inner, hd]; simp
    have e2 : qe = (qe.num : ℚ) := by conv_lhs => rw [← Rat.num_div_den qe, hden]; simp
    have hprod : inner * qe = ((inner.num * qe.num : ℤ) : ℚ) := by rw [e1, e2]; push_cast; simp
    constructor
    · rw [hprod]; exact Rat.den_intCast _
    · have : eval ρ s ι (.op .power aux [base, e]) [] = ρ.fn2 "Power" (eval ρ s ι base []) (eval ρ s ι e []) := by simp [eval]
      have hnum : (inner * qe).num = inner.num * qe.num := by rw [hprod, Rat.num_intCast]
      have hqK : (qe : K) = ((qe.num : ℤ) : K) := by
        conv_lhs => rw [e2]
        simp
      rw [this, realScalar_eval ρ s ι e qe hq, hv, hqK, hpow, ← zpow_mul, hnum]
  | case2 aux base e qe hq hden hb ih => cases h
  | case3 aux base e qe hq hden x hb ih =>
    simp only [IntOuter, hq, Bool.and_eq_true, beq_iff_eq] at hI
    exact absurd hI.1 hden
  | case4 aux base e qe hq hden hb ih => cases h
  | case5 aux base e hq => cases h
  | case6 aux num den b' inner hb hn ih =>
    simp only [Option.some.injEq, Prod.mk.injEq] at h
    obtain ⟨rfl, rfl⟩ := h
    simp only [IntOuter, hn, if_true] at hI
    obtain ⟨hd, hv⟩ := ih b' inner hI hb
    constructor
    · simpa using hd
    · have : eval ρ s ι (.op .division aux [num, den]) [] = eval ρ s ι num [] / eval ρ s ι den [] := by simp [eval]
      rw [this, realScalar_eval ρ s ι num 1 hn, hv]
      simp [zpow_neg]
  | case7 aux num den hb hn ih => cases h
  | case8 aux num den n hn hne => cases h
  | case9 aux num den hn => cases h
  | case10 f h1 h2 =>
    simp only [Option.some.injEq, Prod.mk.injEq] at h
    obtain ⟨rfl, rfl⟩ := h
    simp

/-- **C01_cancel_fractional_kept**: a power with a non-integer exponent is never merged with what is below it: the reader
    returns the power's own base and its own exponent (so the reading `value = Power(value of base, q)` is the definition
    of the node's value) -/
theorem C01_cancel_fractional_kept (aux : List Nat) (base e b : Expr) (q qe : ℚ) (hq : realScalar e = some qe) (hden : qe.den ≠ 1)
    (h : asBaseExp (.op .power aux [base, e]) = some (b, q)) : b = base ∧ q = qe := by
  unfold asBaseExp at h
  simp only [hq, hden, if_false] at h
  cases hb : asBaseExp base with
  | none => rw [hb] at h; cases h
  | some p =>
    rw [hb] at h
    simp only [Option.some.injEq, Prod.mk.injEq] at h
    exact ⟨h.1.symm, h.2.symm⟩

example : IntOuter aW = false := by decide +kernel
/-- the pattern the pass was written for, `detJ**2 * (1/detJ)**2`, satisfies the side condition -/
example : IntOuter (.op .power [] [.op .division [] [.int 1, fW], .int 2]) = true ∧
    (asBaseExp (.op .power [] [.op .division [] [.int 1, fW], .int 2])).map (·.2) = some (-2) := by decide +kernel

end UflVerif.C01
