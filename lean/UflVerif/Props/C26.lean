/-
C26  Reference cell topology is internally consistent.

Every statement below is about `UflVerif.Gen.Cells`, which the translator regenerates from
`/repo/ufl/cell.py` (the table `_sub_entity_celltypes` *and* the values the live `Cell` /
`TensorProductCell` API returns) on every run; the kernel re-checks each theorem against the
regenerated data.  The quantifier of the property is a finite set (10 named cells, 66 tensor
products of <= 3 named factors with total dimension <= 3); it is enumerated completely.
-/
import UflVerif.Gen.Cells

namespace UflVerif.C26
open UflVerif.Gen.Cells

/-- Alternating sum  n_0 - n_1 + n_2 - ...  as an integer. -/
def altSum : List Nat → Int
  | [] => 0
  | n :: ns => (n : Int) - altSum ns

def lookup (name : String) : Option CellObs := obs.find? (·.name == name)

/-- f-vector (n_0 .. n_tdim) of a named cell, read from the *observed API*. -/
def fvec (c : CellObs) : List Nat := c.numSub.take (c.tdim + 1)

/-- number of facets of a named cell (0 for a vertex) -/
def nFacets (name : String) : Nat :=
  match lookup name with
  | some c => if c.tdim = 0 then 0 else c.numSub.getD (c.tdim - 1) 0
  | none => 0

/-! ### Named cells -/

/-- Euler characteristic: with the cell itself counted, Σ_d (-1)^d n_d = 1 (i.e. the boundary
    of a d-polytope has χ = 1 - (-1)^d). -/
theorem C26_euler : ∀ c ∈ obs, altSum (fvec c) = 1 := by decide

/-- The API's counts are the lengths of the table rows, zero above the cell's dimension and for
    negative dimension, and the top entity is the cell itself. -/
theorem C26_counts : ∀ c ∈ obs,
    c.table.length = c.tdim + 1 ∧
    c.numSub = (c.table.map List.length) ++ List.replicate (6 - (c.tdim + 1)) 0 ∧
    c.numSubNeg = 0 ∧
    c.subNames = c.table ++ List.replicate (6 - (c.tdim + 1)) [] ∧
    c.table.getLast? = some [c.name] := by decide

/-- Each sub-entity of dimension d is a named cell of topological dimension d (both by the
    table of that cell and as reported by the sub-entity object itself). -/
theorem C26_subentity_dims : ∀ c ∈ obs, ∀ d ∈ List.range 6,
    (∀ s ∈ c.subNames.getD d [], (lookup s).map (·.tdim) = some d) ∧
    c.subTdims.getD d [] = List.replicate (c.numSub.getD d 0) d := by decide

/-- ... whose own sub-entity counts are consistent: every sub-entity again satisfies Euler's
    relation, and has no more vertices than the cell it lies in. -/
theorem C26_subentity_consistent : ∀ c ∈ obs, ∀ row ∈ c.table, ∀ s ∈ row,
    ∃ c' ∈ obs, c'.name = s ∧ altSum (fvec c') = 1 ∧ c'.numVertices ≤ c.numVertices := by decide

/-- Diamond property of polytopes: every ridge lies in exactly two facets, so the facets'
    own facet counts add up to twice the number of ridges. -/
theorem C26_ridges_in_two_facets : ∀ c ∈ obs,
    (c.facets.map nFacets).sum = 2 * c.numRidges := by decide

/-- vertices/edges/faces are the entities of dimension 0/1/2 and facets/ridges/peaks those of
    dimension tdim-1, tdim-2, tdim-3 (empty when that is negative); counts, entity tuples and the
    "types" tuples agree. -/
theorem C26_named_entities : ∀ c ∈ obs,
    c.numVertices = c.numSub.getD 0 0 ∧ c.numEdges = c.numSub.getD 1 0 ∧ c.numFaces = c.numSub.getD 2 0 ∧
    c.vertices = c.subNames.getD 0 [] ∧ c.edges = c.subNames.getD 1 [] ∧ c.faces = c.subNames.getD 2 [] ∧
    c.numFacets = (if 1 ≤ c.tdim then c.numSub.getD (c.tdim - 1) 0 else 0) ∧
    c.numRidges = (if 2 ≤ c.tdim then c.numSub.getD (c.tdim - 2) 0 else 0) ∧
    c.numPeaks = (if 3 ≤ c.tdim then c.numSub.getD (c.tdim - 3) 0 else 0) ∧
    c.facets = (if 1 ≤ c.tdim then c.subNames.getD (c.tdim - 1) [] else []) ∧
    c.ridges = (if 2 ≤ c.tdim then c.subNames.getD (c.tdim - 2) [] else []) ∧
    c.peaks = (if 3 ≤ c.tdim then c.subNames.getD (c.tdim - 3) [] else []) ∧
    c.facets.length = c.numFacets ∧ c.ridges.length = c.numRidges ∧ c.peaks.length = c.numPeaks := by decide

/-- The `*_types` tuples contain exactly the distinct names of the corresponding entities. -/
theorem C26_types : ∀ c ∈ obs,
    (∀ d ∈ List.range 6, (∀ s ∈ c.subTypes.getD d [], s ∈ c.subNames.getD d []) ∧
                         (∀ s ∈ c.subNames.getD d [], s ∈ c.subTypes.getD d []) ∧
                         (c.subTypes.getD d []).Nodup) ∧
    (∀ s ∈ c.facetTypes, s ∈ c.facets) ∧ (∀ s ∈ c.facets, s ∈ c.facetTypes) ∧
    (∀ s ∈ c.ridgeTypes, s ∈ c.ridges) ∧ (∀ s ∈ c.ridges, s ∈ c.ridgeTypes) ∧
    (∀ s ∈ c.peakTypes, s ∈ c.peaks) ∧ (∀ s ∈ c.peaks, s ∈ c.peakTypes) := by decide


/-! ### Tensor product cells (total dimension <= 3, at most three named factors) -/

/-- f-vector of a product polytope: convolution of the factors' f-vectors. -/
def conv : List Nat → List Nat → List Nat
  | [], _ => []
  | [a], bs => bs.map (a * ·)
  | a :: as, bs => List.zipWith (· + ·) ((bs.map (a * ·)) ++ List.replicate as.length 0) (0 :: conv as bs)

def prodFvec (factors : List String) : List Nat :=
  factors.foldl (fun acc f => match lookup f with
                              | some c => conv acc (fvec c)
                              | none => []) [1]

/-- Wherever `TensorProductCell.num_sub_entities(d)` returns a number it is the number of
    d-faces of the product polytope; the topological dimension is the sum of the factors';
    dimension-0 entities are that many vertices; the top entity is the cell itself;
    outside 0..tdim the count is 0. -/
theorem C26_products : ∀ p ∈ prods,
    (prodFvec p.factors).length = p.tdim + 1 ∧
    altSum (prodFvec p.factors) = 1 ∧
    (∀ d ∈ List.range 5, ∀ n, p.numSub.getD d none = some n → n = (prodFvec p.factors).getD d 0) ∧
    p.numSub.getD 0 none = some ((prodFvec p.factors).getD 0 0) ∧
    p.numSub.getD p.tdim none = some 1 ∧
    p.numSubNeg = 0 ∧
    p.nVertEntities = (prodFvec p.factors).getD 0 0 ∧ p.vertNames = ["vertex"] ∧
    p.numVertices = (prodFvec p.factors).getD 0 0 ∧
    (∀ n, p.numFacets = some n → 1 ≤ p.tdim → n = (prodFvec p.factors).getD (p.tdim - 1) 0) ∧
    p.topIsSelf = true := by decide +kernel

/-! ### The cell ordering -/

/-- Generic: a relation that agrees with `<` on positions of a duplicate-free enumeration is a
    strict total order on the enumerated set. -/
theorem strict_total_of_rank (n : Nat) (lt : Nat → Nat → Bool)
    (h : ∀ i j, i < n → j < n → lt i j = decide (i < j)) :
    (∀ i, i < n → lt i i = false) ∧
    (∀ i j k, i < n → j < n → k < n → lt i j = true → lt j k = true → lt i k = true) ∧
    (∀ i j, i < n → j < n → i ≠ j → (lt i j = true ∧ lt j i = false) ∨ (lt j i = true ∧ lt i j = false)) := by
  refine ⟨?_, ?_, ?_⟩
  · intro i hi; simp [h i i hi hi]
  · intro i j k hi hj hk h1 h2
    rw [h i j hi hj] at h1; rw [h j k hj hk] at h2; rw [h i k hi hk]
    simp at *; omega
  · intro i j hi hj hne
    rw [h i j hi hj, h j i hj hi]; simp
    omega

def ltAt (i j : Nat) : Bool := (ltTable.getD i []).getD j false
def eqAt (i j : Nat) : Bool := (eqTable.getD i []).getD j false

/-- The implementation's `<`, evaluated on every ordered pair of the 76 cells, coincides with
    position in the implementation-sorted list; `==` is the diagonal. -/
theorem C26_order_table :
    ltTable = (List.range order.length).map (fun i => (List.range order.length).map (fun j => decide (i < j))) ∧
    eqTable = (List.range order.length).map (fun i => (List.range order.length).map (fun j => decide (i = j))) ∧
    order.Nodup := by decide +kernel

theorem ltAt_spec : ∀ i j, i < order.length → j < order.length → ltAt i j = decide (i < j) := by
  intro i j hi hj
  unfold ltAt
  rw [C26_order_table.1]
  simp [List.getD, hi, hj]

/-- The cell ordering is a strict total order on all named and tensor-product cells:
    irreflexive, transitive, and exactly one of a<b, b<a for distinct cells. -/
theorem C26_order_strict_total :
    (∀ i, i < order.length → ltAt i i = false) ∧
    (∀ i j k, i < order.length → j < order.length → k < order.length →
        ltAt i j = true → ltAt j k = true → ltAt i k = true) ∧
    (∀ i j, i < order.length → j < order.length → i ≠ j →
        (ltAt i j = true ∧ ltAt j i = false) ∨ (ltAt j i = true ∧ ltAt i j = false)) :=
  strict_total_of_rank order.length ltAt ltAt_spec

/-- all ten named cells and all products take part in the ordering -/
theorem C26_order_covers :
    (∀ c ∈ obs, ("N:" ++ c.name) ∈ order) ∧ order.length = obs.length + prods.length := by decide +kernel

/-- non-vacuity: the tables are the expected size -/
example : obs.length = 10 ∧ prods.length = 66 ∧ order.length = 76 := by decide

end UflVerif.C26
