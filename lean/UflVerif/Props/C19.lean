/-
C19  DAG traversal and mapping visit every distinct node correctly.

Part 1 (this file, hand model + correspondence): unique post/pre traversal and `map_expr_dags`
on labelled trees with structural equality (Model/Traversal.lean).  All statements are for every
tree (any size, any sharing — sharing *is* structural equality of subtrees) and every handler.
Part 2 (Props/C19Dispatch.lean, translator): the handler table every algorithm class computes is
the nearest-ancestor table, over tables regenerated from the live classes.
-/
import UflVerif.Model.Traversal

namespace UflVerif.C19
open UflVerif.Trav

/-! ## sizes and subterms -/

mutual
theorem size_le_of_mem_subterms : ∀ (t x : Tree), x ∈ subterms t → x.size ≤ t.size
  | .node l cs, x, h => by
    simp only [subterms, List.mem_cons] at h
    cases h with
    | inl h => rw [h]; exact Nat.le_refl _
    | inr h =>
      have := size_le_of_mem_subtermsL cs x h
      simp only [Tree.size]; omega
theorem size_le_of_mem_subtermsL : ∀ (cs : List Tree) (x : Tree), x ∈ subtermsL cs → x.size ≤ Tree.sizeL cs
  | [], x, h => by simp [subtermsL] at h
  | c :: cs, x, h => by
    simp only [subtermsL, List.mem_append] at h
    simp only [Tree.sizeL]
    cases h with
    | inl h => have := size_le_of_mem_subterms c x h; omega
    | inr h => have := size_le_of_mem_subtermsL cs x h; omega
end

theorem not_mem_subtermsL_self (l : Nat) (cs : List Tree) : Tree.node l cs ∉ subtermsL cs := by
  intro h
  have := size_le_of_mem_subtermsL cs _ h
  simp only [Tree.size] at this; omega

theorem mem_subterms_self : ∀ t : Tree, t ∈ subterms t
  | .node l cs => by simp [subterms]

theorem subterms_child (_l : Nat) (cs : List Tree) (c : Tree) (hc : c ∈ cs) : ∀ x ∈ subterms c, x ∈ subtermsL cs := by
  induction cs with
  | nil => cases hc
  | cons d ds ih =>
    intro x hx
    simp only [subtermsL, List.mem_append]
    cases List.mem_cons.mp hc with
    | inl h => subst h; exact Or.inl hx
    | inr h => exact Or.inr (ih h x hx)

/-! ## the specification every traversal call satisfies -/

structure Spec (cut : Tree → Bool) (vis out vis' : List Tree) : Prop where
  mem : ∀ x, x ∈ vis' ↔ x ∈ vis ∨ x ∈ out
  nodup : out.Nodup
  fresh : ∀ x ∈ out, x ∉ vis
  ord : ∀ pre n suf, out = pre ++ n :: suf → cut n = false → ∀ c ∈ n.children, c ∈ vis ∨ c ∈ pre

theorem Spec.nil (cut : Tree → Bool) (vis : List Tree) : Spec cut vis [] vis :=
  ⟨by simp, List.nodup_nil, by simp, by intro pre n suf h; simp at h⟩

theorem Spec.append {cut : Tree → Bool} {vis o1 v1 o2 v2 : List Tree}
    (h1 : Spec cut vis o1 v1) (h2 : Spec cut v1 o2 v2) : Spec cut vis (o1 ++ o2) v2 := by
  refine ⟨?_, ?_, ?_, ?_⟩
  · intro x; rw [h2.mem, h1.mem, List.mem_append]; exact or_assoc
  · rw [List.nodup_append]
    refine ⟨h1.nodup, h2.nodup, ?_⟩
    intro a ha b hb hab
    subst hab
    exact h2.fresh a hb ((h1.mem a).mpr (Or.inr ha))
  · intro x hx hv
    cases List.mem_append.mp hx with
    | inl h => exact h1.fresh x h hv
    | inr h => exact h2.fresh x h ((h1.mem x).mpr (Or.inl hv))
  · intro pre n suf he hc c hcc
    rcases List.append_eq_append_iff.mp he with ⟨a', h1', h2'⟩ | ⟨c', h1', h2'⟩
    · -- pre = o1 ++ a', o2 = a' ++ n :: suf
      have := h2.ord a' n suf h2' hc c hcc
      rw [h1']
      cases this with
      | inl h =>
        cases (h1.mem c).mp h with
        | inl h => exact Or.inl h
        | inr h => exact Or.inr (List.mem_append.mpr (Or.inl h))
      | inr h => exact Or.inr (List.mem_append.mpr (Or.inr h))
    · -- o1 = pre ++ c', n :: suf = c' ++ o2
      cases c' with
      | nil =>
        simp only [List.nil_append] at h2'
        simp only [List.append_nil] at h1'
        have := h2.ord [] n suf (by rw [← h2']; rfl) hc c hcc
        cases this with
        | inl h =>
          cases (h1.mem c).mp h with
          | inl h => exact Or.inl h
          | inr h => exact Or.inr (by rw [← h1']; exact h)
        | inr h => simp at h
      | cons d ds =>
        simp only [List.cons_append, List.cons.injEq] at h2'
        obtain ⟨hd, _⟩ := h2'
        subst hd
        exact h1.ord pre n ds h1' hc c hcc

theorem Spec.snoc {cut : Tree → Bool} {vis o v' : List Tree} (n : Tree)
    (h : Spec cut vis o v') (hn : n ∉ vis) (hno : n ∉ o) (hch : cut n = false → ∀ c ∈ n.children, c ∈ v') :
    Spec cut vis (o ++ [n]) (n :: v') := by
  have h2 : Spec cut v' [n] (n :: v') := by
    refine ⟨by intro x; simp [or_comm], by simp, ?_, ?_⟩
    · intro x hx; simp only [List.mem_singleton] at hx; subst hx
      intro hv; cases (h.mem x).mp hv with
      | inl h => exact hn h
      | inr h => exact hno h
    · intro pre m suf he hc c hcc
      cases pre with
      | nil => simp only [List.nil_append, List.cons.injEq] at he; obtain ⟨rfl, _⟩ := he
               exact Or.inl (hch hc c hcc)
      | cons a as => simp at he
  exact h.append h2

/-! ## the traversal satisfies the spec (mutual structural induction) -/

mutual
theorem trav_spec (cut : Tree → Bool) (rev : Bool) : ∀ (t : Tree) (vis : List Tree), t ∉ vis →
    Spec cut vis (trav cut rev t vis).1 (trav cut rev t vis).2 ∧
    (∀ x ∈ (trav cut rev t vis).1, x ∈ subterms t) ∧ t ∈ (trav cut rev t vis).1
  | .node l cs, vis, hn => by
    unfold trav
    by_cases hc : cut (.node l cs) = true
    · simp only [hc, ↓reduceIte]
      refine ⟨?_, ?_, by simp⟩
      · have := Spec.snoc (cut := cut) (.node l cs) (Spec.nil cut vis) hn (by simp) (by intro h; rw [hc] at h; cases h)
        simpa using this
      · intro x hx; simp only [List.mem_singleton] at hx; rw [hx]; exact mem_subterms_self _
    · simp only [hc, Bool.false_eq_true, ↓reduceIte]
      have hc' : cut (.node l cs) = false := by simpa using hc
      cases rev with
      | false =>
        obtain ⟨hs, hsub, hall⟩ := travL_spec cut false cs vis
        simp only [Bool.false_eq_true, ↓reduceIte]
        refine ⟨?_, ?_, by simp⟩
        · exact Spec.snoc _ hs hn (fun h => not_mem_subtermsL_self l cs (hsub _ h)) (fun _ c hcc => hall c hcc)
        · intro x hx
          simp only [List.mem_append, List.mem_singleton] at hx
          cases hx with
          | inl h => simp only [subterms, List.mem_cons]; exact Or.inr (hsub x h)
          | inr h => rw [h]; exact mem_subterms_self _
      | true =>
        obtain ⟨hs, hsub, hall⟩ := travLR_spec cut true cs vis
        simp only [↓reduceIte]
        refine ⟨?_, ?_, by simp⟩
        · exact Spec.snoc _ hs hn (fun h => not_mem_subtermsL_self l cs (hsub _ h)) (fun _ c hcc => hall c hcc)
        · intro x hx
          simp only [List.mem_append, List.mem_singleton] at hx
          cases hx with
          | inl h => simp only [subterms, List.mem_cons]; exact Or.inr (hsub x h)
          | inr h => rw [h]; exact mem_subterms_self _
theorem travL_spec (cut : Tree → Bool) (rev : Bool) : ∀ (cs : List Tree) (vis : List Tree),
    Spec cut vis (travL cut rev cs vis).1 (travL cut rev cs vis).2 ∧
    (∀ x ∈ (travL cut rev cs vis).1, x ∈ subtermsL cs) ∧ (∀ c ∈ cs, c ∈ (travL cut rev cs vis).2)
  | [], vis => by
    unfold travL
    exact ⟨Spec.nil cut vis, by simp, by simp⟩
  | c :: cs, vis => by
    unfold travL
    by_cases hv : c ∈ vis
    · simp only [hv, ↓reduceIte]
      obtain ⟨hs, hsub, hall⟩ := travL_spec cut rev cs vis
      refine ⟨hs, ?_, ?_⟩
      · intro x hx; simp only [subtermsL, List.mem_append]; exact Or.inr (hsub x hx)
      · intro d hd
        cases List.mem_cons.mp hd with
        | inl h => rw [h]; exact (hs.mem c).mpr (Or.inl hv)
        | inr h => exact hall d h
    · simp only [hv, ↓reduceIte]
      obtain ⟨hs1, hsub1, hin1⟩ := trav_spec cut rev c vis hv
      obtain ⟨hs2, hsub2, hall2⟩ := travL_spec cut rev cs (trav cut rev c vis).2
      refine ⟨hs1.append hs2, ?_, ?_⟩
      · intro x hx
        simp only [subtermsL, List.mem_append] at hx ⊢
        cases hx with
        | inl h => exact Or.inl (hsub1 x h)
        | inr h => exact Or.inr (hsub2 x h)
      · intro d hd
        cases List.mem_cons.mp hd with
        | inl h => rw [h]; exact (hs2.mem c).mpr (Or.inl ((hs1.mem c).mpr (Or.inr hin1)))
        | inr h => exact hall2 d h
theorem travLR_spec (cut : Tree → Bool) (rev : Bool) : ∀ (cs : List Tree) (vis : List Tree),
    Spec cut vis (travLR cut rev cs vis).1 (travLR cut rev cs vis).2 ∧
    (∀ x ∈ (travLR cut rev cs vis).1, x ∈ subtermsL cs) ∧ (∀ c ∈ cs, c ∈ (travLR cut rev cs vis).2)
  | [], vis => by
    unfold travLR
    exact ⟨Spec.nil cut vis, by simp, by simp⟩
  | c :: cs, vis => by
    unfold travLR
    obtain ⟨hs2, hsub2, hall2⟩ := travLR_spec cut rev cs vis
    by_cases hv : c ∈ (travLR cut rev cs vis).2
    · simp only [hv, ↓reduceIte]
      refine ⟨hs2, ?_, ?_⟩
      · intro x hx; simp only [subtermsL, List.mem_append]; exact Or.inr (hsub2 x hx)
      · intro d hd
        cases List.mem_cons.mp hd with
        | inl h => rw [h]; exact hv
        | inr h => exact hall2 d h
    · simp only [hv, ↓reduceIte]
      obtain ⟨hs1, hsub1, hin1⟩ := trav_spec cut rev c (travLR cut rev cs vis).2 hv
      refine ⟨hs2.append hs1, ?_, ?_⟩
      · intro x hx
        simp only [subtermsL, List.mem_append] at hx ⊢
        cases hx with
        | inl h => exact Or.inr (hsub2 x h)
        | inr h => exact Or.inl (hsub1 x h)
      · intro d hd
        cases List.mem_cons.mp hd with
        | inl h => rw [h]; exact (hs1.mem c).mpr (Or.inr hin1)
        | inr h => exact (hs1.mem d).mpr (Or.inl (hall2 d h))
end

/-! ## consequences for `unique_post_traversal` -/

/- a set of nodes containing t and closed under taking operands contains every subexpression -/
mutual
theorem closed_subterms (S : List Tree) (hS : ∀ n ∈ S, ∀ c ∈ n.children, c ∈ S) :
    ∀ t : Tree, t ∈ S → ∀ x ∈ subterms t, x ∈ S
  | .node l cs, ht, x, hx => by
    simp only [subterms, List.mem_cons] at hx
    cases hx with
    | inl h => rw [h]; exact ht
    | inr h => exact closed_subtermsL S hS cs (fun c hc => hS _ ht c hc) x h
theorem closed_subtermsL (S : List Tree) (hS : ∀ n ∈ S, ∀ c ∈ n.children, c ∈ S) :
    ∀ cs : List Tree, (∀ c ∈ cs, c ∈ S) → ∀ x ∈ subtermsL cs, x ∈ S
  | [], _, x, hx => by simp [subtermsL] at hx
  | c :: cs, hcs, x, hx => by
    simp only [subtermsL, List.mem_append] at hx
    cases hx with
    | inl h => exact closed_subterms S hS c (hcs c (by simp)) x h
    | inr h => exact closed_subtermsL S hS cs (fun d hd => hcs d (by simp [hd])) x h
end

theorem uniquePost_spec (t : Tree) :
    Spec (fun _ => false) [] (uniquePost t) (trav (fun _ => false) false t []).2 ∧
    (∀ x ∈ uniquePost t, x ∈ subterms t) ∧ t ∈ uniquePost t :=
  trav_spec (fun _ => false) false t [] (by simp)

/-- each structurally distinct subexpression is visited **exactly once** -/
theorem C19_post_exactly_once (t : Tree) :
    (uniquePost t).Nodup ∧ ∀ x, x ∈ uniquePost t ↔ x ∈ subterms t := by
  obtain ⟨hs, hsub, hin⟩ := uniquePost_spec t
  refine ⟨hs.nodup, fun x => ⟨hsub x, ?_⟩⟩
  apply closed_subterms (uniquePost t) _ t hin
  intro n hn c hc
  obtain ⟨pre, suf, he⟩ := List.append_of_mem hn
  cases hs.ord pre n suf he rfl c hc with
  | inl h => simp at h
  | inr h => rw [he]; exact List.mem_append.mpr (Or.inl h)

/-- post-order: **operands before users** -/
theorem C19_post_operands_first (t : Tree) (pre suf : List Tree) (n : Tree)
    (h : uniquePost t = pre ++ n :: suf) : ∀ c ∈ n.children, c ∈ pre := by
  intro c hc
  cases (uniquePost_spec t).1.ord pre n suf h rfl c hc with
  | inl h => simp at h
  | inr h => exact h

/-- cut-off variant: no node twice, operands of every non-cut-off node come first, only
    subexpressions are yielded and the root is among them -/
theorem C19_cutoff_post (cut : Tree → Bool) (t : Tree) :
    (cutoffUniquePost cut t).Nodup ∧ t ∈ cutoffUniquePost cut t ∧
    (∀ x ∈ cutoffUniquePost cut t, x ∈ subterms t) ∧
    (∀ pre n suf, cutoffUniquePost cut t = pre ++ n :: suf → cut n = false → ∀ c ∈ n.children, c ∈ pre) := by
  obtain ⟨hs, hsub, hin⟩ := trav_spec cut true t [] (by simp)
  refine ⟨hs.nodup, hin, hsub, ?_⟩
  intro pre n suf he hc c hcc
  cases hs.ord pre n suf he hc c hcc with
  | inl h => simp at h
  | inr h => exact h

/-! ## `map_expr_dags` = recursive application to the tree -/

section Map
variable {R : Type} (cut : Tree → Bool) (h : Tree → List (Option R) → R)

theorem lookup_cons (vc : List (Tree × R)) (v x : Tree) (r : R) :
    lookup ((v, r) :: vc) x = if v = x then some r else lookup vc x := by
  unfold lookup
  by_cases e : v = x
  · simp [e]
  · simp [e]

theorem map_children (vc : List (Tree × R)) :
    ∀ cs : List Tree, (∀ c ∈ cs, lookup vc c = some (mapTree cut h c)) → cs.map (lookup vc) = mapTreeL cut h cs
  | [], _ => by simp [mapTreeL]
  | c :: cs, hc => by
    simp only [List.map, mapTreeL]
    rw [hc c (by simp), map_children vc cs (fun d hd => hc d (by simp [hd]))]

def VcOK (vc : List (Tree × R)) (done : List Tree) : Prop :=
  (∀ x r, lookup vc x = some r → r = mapTree cut h x) ∧ (∀ x ∈ done, ∃ r, lookup vc x = some r)

theorem mapTree_node (n : Tree) :
    mapTree cut h n = if cut n then h n [] else h n (mapTreeL cut h n.children) := by
  cases n with
  | node l cs => simp [mapTree, Tree.children]

theorem fold_ok : ∀ (suf done : List Tree) (vc : List (Tree × R)), VcOK cut h vc done →
    (∀ p n s, suf = p ++ n :: s → cut n = false → ∀ c ∈ n.children, c ∈ done ∨ c ∈ p) →
    VcOK cut h (suf.foldl (mapStep cut h) vc) (done ++ suf)
  | [], done, vc, hv, _ => by simpa using hv
  | n :: s, done, vc, hv, hord => by
    simp only [List.foldl_cons]
    have hstep : VcOK cut h (mapStep cut h vc n) (done ++ [n]) := by
      unfold mapStep
      cases hl : lookup vc n with
      | some r =>
        simp only
        refine ⟨hv.1, ?_⟩
        intro x hx
        cases List.mem_append.mp hx with
        | inl hx => exact hv.2 x hx
        | inr hx => simp only [List.mem_singleton] at hx; subst hx; exact ⟨r, hl⟩
      | none =>
        simp only
        have hval : (if cut n then h n [] else h n (n.children.map (lookup vc))) = mapTree cut h n := by
          rw [mapTree_node]
          cases hc : cut n with
          | true => rfl
          | false =>
            simp only [Bool.false_eq_true, ↓reduceIte]
            congr 1
            apply map_children
            intro c hcc
            cases hord [] n s rfl hc c hcc with
            | inl hd =>
              obtain ⟨r, hr⟩ := hv.2 c hd
              rw [hr, hv.1 c r hr]
            | inr hd => simp at hd
        rw [hval]
        refine ⟨?_, ?_⟩
        · intro x r hx
          rw [lookup_cons] at hx
          split at hx
          · rename_i e; subst e; simp only [Option.some.injEq] at hx; exact hx.symm
          · exact hv.1 x r hx
        · intro x hx
          rw [lookup_cons]
          cases List.mem_append.mp hx with
          | inl hx =>
            split
            · exact ⟨_, rfl⟩
            · exact hv.2 x hx
          | inr hx => simp only [List.mem_singleton] at hx; subst hx; simp
    have := fold_ok s (done ++ [n]) (mapStep cut h vc n) hstep (by
      intro p m s' he hc c hcc
      cases hord (n :: p) m s' (by rw [he]; rfl) hc c hcc with
      | inl hd => exact Or.inl (List.mem_append.mpr (Or.inl hd))
      | inr hd =>
        cases List.mem_cons.mp hd with
        | inl e => exact Or.inl (List.mem_append.mpr (Or.inr (by simp [e])))
        | inr e => exact Or.inr e)
    simpa [List.append_assoc] using this

/-- **Mapping a handler over the DAG gives the same result as applying it recursively to the
    tree**, for every handler, with and without cut-off types. -/
theorem C19_map_dag_eq_tree (anyCut : Bool) (hcut : anyCut = false → ∀ x, cut x = false) (t : Tree) :
    mapDag cut anyCut h t = some (mapTree cut h t) := by
  unfold mapDag
  cases anyCut with
  | true =>
    simp only [↓reduceIte]
    obtain ⟨_, hin, _, hord⟩ := C19_cutoff_post cut t
    have := fold_ok cut h (cutoffUniquePost cut t) [] [] ⟨by intro x r hx; simp [lookup] at hx, by simp⟩
      (by intro p n s he hc c hcc; exact Or.inr (hord p n s he hc c hcc))
    obtain ⟨r, hr⟩ := this.2 t (by simpa using hin)
    rw [hr, this.1 t r hr]
  | false =>
    simp only [Bool.false_eq_true, ↓reduceIte]
    have hc := hcut rfl
    have hin := (uniquePost_spec t).2.2
    have := fold_ok cut h (uniquePost t) [] [] ⟨by intro x r hx; simp [lookup] at hx, by simp⟩
      (by intro p n s he _ c hcc; exact Or.inr (C19_post_operands_first t p s n he c hcc))
    obtain ⟨r, hr⟩ := this.2 t (by simpa using hin)
    rw [hr, this.1 t r hr]

end Map


/-! ## `unique_pre_traversal`: the LIFO worklist visits every distinct subexpression exactly once -/

mutual
theorem subterms_length : ∀ t : Tree, (subterms t).length = t.size
  | .node l cs => by simp only [subterms, List.length_cons, Tree.size, subtermsL_length cs]; omega
theorem subtermsL_length : ∀ cs : List Tree, (subtermsL cs).length = Tree.sizeL cs
  | [] => rfl
  | c :: cs => by simp only [subtermsL, List.length_append, Tree.sizeL, subterms_length c, subtermsL_length cs]
end

mutual
theorem subterms_trans : ∀ (t n x : Tree), n ∈ subterms t → x ∈ subterms n → x ∈ subterms t
  | .node l cs, n, x, hn, hx => by
    simp only [subterms, List.mem_cons] at hn
    cases hn with
    | inl h => rw [h] at hx; exact hx
    | inr h => simp only [subterms, List.mem_cons]; exact Or.inr (subtermsL_trans cs n x h hx)
theorem subtermsL_trans : ∀ (cs : List Tree) (n x : Tree), n ∈ subtermsL cs → x ∈ subterms n → x ∈ subtermsL cs
  | [], n, x, hn, _ => by simp [subtermsL] at hn
  | c :: cs, n, x, hn, hx => by
    simp only [subtermsL, List.mem_append] at hn ⊢
    cases hn with
    | inl h => exact Or.inl (subterms_trans c n x h hx)
    | inr h => exact Or.inr (subtermsL_trans cs n x h hx)
end

theorem child_mem_subterms (n c : Tree) (hc : c ∈ n.children) : c ∈ subterms n := by
  cases n with
  | node l cs =>
    simp only [subterms, List.mem_cons]
    exact Or.inr (subterms_child l cs c hc c (mem_subterms_self c))

theorem pushNew_spec : ∀ (cs stack vis : List Tree), stack.Nodup → (∀ x ∈ stack, x ∈ vis) →
    (pushNew cs stack vis).1.Nodup ∧
    (∀ x, x ∈ (pushNew cs stack vis).1 ↔ x ∈ stack ∨ (x ∈ cs ∧ x ∉ vis)) ∧
    (∀ x, x ∈ (pushNew cs stack vis).2 ↔ x ∈ vis ∨ x ∈ cs)
  | [], stack, vis, hn, _ => by simp [pushNew, hn]
  | c :: cs, stack, vis, hn, hsub => by
    unfold pushNew
    by_cases hv : c ∈ vis
    · simp only [hv, ↓reduceIte]
      obtain ⟨h1, h2, h3⟩ := pushNew_spec cs stack vis hn hsub
      refine ⟨h1, ?_, ?_⟩
      · intro x; rw [h2 x]
        constructor
        · rintro (h | ⟨h, h'⟩)
          · exact Or.inl h
          · exact Or.inr ⟨by simp [h], h'⟩
        · rintro (h | ⟨h, h'⟩)
          · exact Or.inl h
          · cases List.mem_cons.mp h with
            | inl e => subst e; exact absurd hv h'
            | inr e => exact Or.inr ⟨e, h'⟩
      · intro x; rw [h3 x]
        constructor
        · rintro (h | h)
          · exact Or.inl h
          · exact Or.inr (by simp [h])
        · rintro (h | h)
          · exact Or.inl h
          · cases List.mem_cons.mp h with
            | inl e => subst e; exact Or.inl hv
            | inr e => exact Or.inr e
    · simp only [hv, ↓reduceIte]
      have hc : c ∉ stack := fun h => hv (hsub c h)
      obtain ⟨h1, h2, h3⟩ := pushNew_spec cs (c :: stack) (c :: vis) (List.nodup_cons.mpr ⟨hc, hn⟩)
        (by intro x hx; cases List.mem_cons.mp hx with
            | inl e => simp [e]
            | inr e => exact List.mem_cons_of_mem _ (hsub x e))
      refine ⟨h1, ?_, ?_⟩
      · intro x; rw [h2 x]
        simp only [List.mem_cons, not_or]
        constructor
        · rintro ((h | h) | ⟨h, h', h''⟩)
          · subst h; exact Or.inr ⟨Or.inl rfl, hv⟩
          · exact Or.inl h
          · exact Or.inr ⟨Or.inr h, h''⟩
        · rintro (h | ⟨h | h, h'⟩)
          · exact Or.inl (Or.inr h)
          · exact Or.inl (Or.inl h)
          · by_cases e : x = c
            · exact Or.inl (Or.inl e)
            · exact Or.inr ⟨h, e, h'⟩
      · intro x; rw [h3 x]
        simp only [List.mem_cons]
        constructor
        · rintro ((h | h) | h)
          · exact Or.inr (Or.inl h)
          · exact Or.inl h
          · exact Or.inr (Or.inr h)
        · rintro (h | h | h)
          · exact Or.inl (Or.inr h)
          · exact Or.inl (Or.inl h)
          · exact Or.inr h

structure PreInv (t : Tree) (stack vis Y : List Tree) : Prop where
  nodup : (Y ++ stack).Nodup
  vis_iff : ∀ x, x ∈ vis ↔ x ∈ Y ∨ x ∈ stack
  closed : ∀ n ∈ Y, ∀ c ∈ n.children, c ∈ vis
  sub : ∀ x ∈ vis, x ∈ subterms t

theorem preLoop_spec (t : Tree) : ∀ (fuel : Nat) (stack vis Y : List Tree), PreInv t stack vis Y →
    t.size ≤ fuel + Y.length →
    (Y ++ preLoop fuel stack vis).Nodup ∧ (∀ x ∈ stack, x ∈ preLoop fuel stack vis) ∧
    (∀ n ∈ Y ++ preLoop fuel stack vis, ∀ c ∈ n.children, c ∈ Y ++ preLoop fuel stack vis) ∧
    (∀ x ∈ preLoop fuel stack vis, x ∈ subterms t) := by
  intro fuel
  induction fuel with
  | zero =>
    intro stack vis Y inv hf
    have hlen : (Y ++ stack).length ≤ t.size := by
      rw [← subterms_length t]
      apply List.Nodup.length_le_of_subset inv.nodup
      intro x hx
      exact inv.sub x ((inv.vis_iff x).mpr (List.mem_append.mp hx))
    have hs : stack = [] := by
      cases stack with
      | nil => rfl
      | cons a as => simp only [List.length_append, List.length_cons] at hlen; omega
    subst hs
    simp only [preLoop, List.append_nil]
    refine ⟨by simpa using inv.nodup, by simp, ?_, by simp⟩
    intro n hn c hc
    have := (inv.vis_iff c).mp (inv.closed n hn c hc)
    simpa using this
  | succ fuel ih =>
    intro stack vis Y inv hf
    cases stack with
    | nil =>
      simp only [preLoop, List.append_nil]
      refine ⟨by simpa using inv.nodup, by simp, ?_, by simp⟩
      intro n hn c hc
      have := (inv.vis_iff c).mp (inv.closed n hn c hc)
      simpa using this
    | cons n rest =>
      simp only [preLoop]
      have hnd := inv.nodup
      rw [List.nodup_append] at hnd
      obtain ⟨hY, hst, hdis⟩ := hnd
      have hrest : rest.Nodup := (List.nodup_cons.mp hst).2
      have hnrest : n ∉ rest := (List.nodup_cons.mp hst).1
      have hrv : ∀ x ∈ rest, x ∈ vis := fun x hx => (inv.vis_iff x).mpr (Or.inr (List.mem_cons_of_mem _ hx))
      obtain ⟨p1, p2, p3⟩ := pushNew_spec n.children rest vis hrest hrv
      have hnvis : n ∈ vis := (inv.vis_iff n).mpr (Or.inr (by simp))
      have hnY : n ∉ Y := fun h => hdis n h n (by simp) rfl
      have inv' : PreInv t (pushNew n.children rest vis).1 (pushNew n.children rest vis).2 (Y ++ [n]) := by
        refine ⟨?_, ?_, ?_, ?_⟩
        · rw [List.nodup_append]
          refine ⟨?_, p1, ?_⟩
          · rw [List.nodup_append]
            exact ⟨hY, by simp, by intro a ha b hb e; simp only [List.mem_singleton] at hb; subst hb; subst e; exact hnY ha⟩
          · intro a ha b hb e
            subst e
            cases List.mem_append.mp ha with
            | inl ha =>
              cases (p2 a).mp hb with
              | inl h => exact hdis a ha a (List.mem_cons_of_mem _ h) rfl
              | inr h => exact h.2 ((inv.vis_iff a).mpr (Or.inl ha))
            | inr ha =>
              simp only [List.mem_singleton] at ha; subst ha
              cases (p2 a).mp hb with
              | inl h => exact hnrest h
              | inr h => exact h.2 hnvis
        · intro x; rw [p3 x, p2 x, inv.vis_iff x]
          simp only [List.mem_append, List.mem_cons]
          by_cases ha : x ∈ Y <;> by_cases hb : x = n <;> by_cases hc : x ∈ rest <;> by_cases hd : x ∈ n.children <;>
            simp [ha, hb, hc, hd]
        · intro m hm c hc
          rw [p3 c]
          cases List.mem_append.mp hm with
          | inl hm => exact Or.inl (inv.closed m hm c hc)
          | inr hm => simp only [List.mem_singleton] at hm; subst hm; exact Or.inr hc
        · intro x hx
          cases (p3 x).mp hx with
          | inl h => exact inv.sub x h
          | inr h => exact subterms_trans t n x (inv.sub n hnvis) (child_mem_subterms n x h)
      obtain ⟨q1, q2, q3, q4⟩ := ih _ _ (Y ++ [n]) inv' (by simp only [List.length_append, List.length_cons, List.length_nil]; omega)
      simp only [List.append_assoc, List.singleton_append] at q1 q3
      refine ⟨q1, ?_, q3, ?_⟩
      · intro x hx
        cases List.mem_cons.mp hx with
        | inl e => simp [e]
        | inr e => exact List.mem_cons_of_mem _ (q2 x ((p2 x).mpr (Or.inl e)))
      · intro x hx
        cases List.mem_cons.mp hx with
        | inl e => rw [e]; exact inv.sub n hnvis
        | inr e => exact q4 x e

/-- `unique_pre_traversal` yields each structurally distinct subexpression **exactly once**,
    the root first. -/
theorem C19_pre_exactly_once (t : Tree) :
    (uniquePre t).Nodup ∧ (∀ x, x ∈ uniquePre t ↔ x ∈ subterms t) ∧ (uniquePre t).head? = some t := by
  have inv : PreInv t [t] [t] [] :=
    ⟨by simp, by simp, by simp, by intro x hx; simp only [List.mem_singleton] at hx; rw [hx]; exact mem_subterms_self t⟩
  obtain ⟨h1, h2, h3, h4⟩ := preLoop_spec t t.size [t] [t] [] inv (by simp)
  simp only [List.nil_append] at h1 h3
  refine ⟨h1, fun x => ⟨h4 x, ?_⟩, ?_⟩
  · exact closed_subterms _ h3 t (h2 t (by simp)) x
  · unfold uniquePre
    cases t with
    | node l cs =>
      simp only [Tree.size]
      rw [show 1 + Tree.sizeL cs = Tree.sizeL cs + 1 from Nat.add_comm _ _]
      simp [preLoop]

/-! ## non-vacuity: a DAG with sharing at two depths -/
def exT : Tree := .node 0 [.node 1 [.node 2 []], .node 2 [], .node 3 [.node 1 [.node 2 []]]]
example : (uniquePost exT).map Tree.label = [2, 1, 3, 0] := by decide
example : (uniquePre exT).map Tree.label = [0, 3, 2, 1] := by decide

end UflVerif.C19

/-! ## `DAGTraverser.__call__`: memoisation keyed on (node, keyword items) is sound -/
namespace UflVerif.C19
open UflVerif.Trav

section Dag
variable {R : Type} (ru : Rules R)

def CacheOK (c : Cache R) : Prop := ∀ t ctx r, lookupK c (t, ctx) = some r → r = dagTree ru t ctx

theorem lookupK_cons (c : Cache R) (k k' : Tree × Ctx) (r : R) :
    lookupK ((k, r) :: c) k' = if k = k' then some r else lookupK c k' := by
  unfold lookupK
  by_cases e : k = k'
  · simp [e]
  · simp [e]

mutual
theorem dagCall_spec : ∀ (t : Tree) (ctx : Ctx) (c : Cache R), CacheOK ru c →
    (dagCall ru t ctx c).1 = dagTree ru t ctx ∧ CacheOK ru (dagCall ru t ctx c).2
  | .node l cs, ctx, c, hc => by
    unfold dagCall
    cases hl : lookupK c (.node l cs, ctx) with
    | some r => exact ⟨hc _ _ r hl, hc⟩
    | none =>
      obtain ⟨h1, h2⟩ := dagCallL_spec (.node l cs) ctx cs 0 c hc
      simp only
      refine ⟨by rw [h1]; simp [dagTree], ?_⟩
      intro t' ctx' r' hr
      rw [lookupK_cons] at hr
      split at hr
      · rename_i e
        simp only [Option.some.injEq] at hr
        cases e
        rw [← hr, h1]; simp [dagTree]
      · exact h2 t' ctx' r' hr
theorem dagCallL_spec (parent : Tree) (ctx : Ctx) : ∀ (cs : List Tree) (i : Nat) (c : Cache R), CacheOK ru c →
    (dagCallL ru parent ctx cs i c).1 = dagTreeL ru parent ctx cs i ∧ CacheOK ru (dagCallL ru parent ctx cs i c).2
  | [], i, c, hc => by simp [dagCallL, dagTreeL]; exact hc
  | d :: ds, i, c, hc => by
    unfold dagCallL
    obtain ⟨h1, h2⟩ := dagCall_spec d (ru.ctxFor parent ctx i) c hc
    obtain ⟨h3, h4⟩ := dagCallL_spec parent ctx ds (i + 1) _ h2
    simp only [dagTreeL]
    exact ⟨by rw [h1, h3], h4⟩
end

/-- A memoised `DAGTraverser` call returns what plain recursion over the tree returns, for every
    rule set, every keyword context and whatever earlier calls left in the (shared) cache. -/
theorem C19_dag_traverser_memo_sound (t : Tree) (ctx : Ctx) :
    (dagCall ru t ctx []).1 = dagTree ru t ctx :=
  (dagCall_spec ru t ctx [] (by intro t ctx r h; simp [lookupK] at h)).1

end Dag
end UflVerif.C19
